(* C02 — lemmas about the schedule / clock / bucket-lifecycle model (Model/Exposure.v).
   [steps_telescope] is exported for C17. *)
From Coq Require Import QArith ZArith List Bool Lia Lqa.
From PyxelV Require Import Model.Exposure Proofs.ExposureEmpty.
Import ListNotations.
Open Scope Q_scope.

(* ------------------------------------------------------------------------------------------------ *)
(* numpy.diff over Q: telescoping                                                                     *)

Lemma last_cons_default : forall (X : Type) (l : list X) (a b : X), last (b :: l) a = last l b.
Proof.
  induction l as [|c l IH]; intros a b; [reflexivity|].
  change (last (b :: c :: l) a) with (last (c :: l) a).
  rewrite (IH a c), (IH b c). reflexivity.
Qed.

Lemma diff_telescope : forall l a, qsum (diff (a :: l)) == last l a - a.
Proof.
  induction l as [|b l IH]; intros a.
  - simpl. lra.
  - change (diff (a :: b :: l)) with ((b - a) :: diff (b :: l)).
    change (qsum ((b - a) :: diff (b :: l))) with ((b - a) + qsum (diff (b :: l))).
    rewrite IH. rewrite (last_cons_default Q l a b). lra.
Qed.

(* the sum of the time steps of a run is the end time minus the start time (any list, any start) *)
Lemma steps_telescope : forall start ts, qsum (steps_q start ts) == last ts start - start.
Proof. intros. unfold steps_q. apply diff_telescope. Qed.

Lemma diff_length : forall l a, length (diff (a :: l)) = length l.
Proof. induction l as [|b l IH]; intros a; [reflexivity|]. simpl. f_equal. apply IH. Qed.

Lemma tdiff_length : forall l a, length (tdiff (a :: l)) = length l.
Proof. induction l as [|b l IH]; intros a; [reflexivity|]. simpl. f_equal. apply IH. Qed.

Lemma tdiff_map : forall l, tdiff (map TQ l) = map TQ (diff l).
Proof.
  induction l as [|a l IH]; [reflexivity|].
  destruct l as [|b l]; [reflexivity|].
  change (tdiff (TQ a :: TQ b :: map TQ l) = TQ (b - a) :: map TQ (diff (b :: l))).
  change (tdiff (TQ a :: TQ b :: map TQ l)) with (TQ (b - a) :: tdiff (map TQ (b :: l))).
  rewrite IH. reflexivity.
Qed.

Lemma steps_map : forall s ts, steps (TQ s) (map TQ ts) = map TQ (steps_q s ts).
Proof. intros. unfold steps, steps_q. apply (tdiff_map (s :: ts)). Qed.

(* each step is the distance to the previous time, the start time standing in before the first *)
Lemma diff_nth : forall l a i, (i < length l)%nat ->
  nth i (diff (a :: l)) 0 = nth i l 0 - nth i (a :: l) 0.
Proof.
  induction l as [|b l IH]; intros a i Hi; [simpl in Hi; lia|].
  destruct i as [|i]; [reflexivity|].
  change (nth (S i) (diff (a :: b :: l)) 0) with (nth i (diff (b :: l)) 0).
  simpl in Hi. rewrite IH by lia. reflexivity.
Qed.

(* ------------------------------------------------------------------------------------------------ *)
(* guards vs. validity                                                                                *)

Lemma guard_eqb_eq : forall a b, guard_eqb a b = true -> a = b.
Proof. destruct a, b; simpl; congruence. Qed.

Lemma gmem_pass : forall g gs s r, gmem g gs = true -> guards_pass gs s r = true -> guard_passes g s r = true.
Proof.
  intros g gs s r Hm Hp. unfold gmem in Hm. apply existsb_exists in Hm as [g' [Hin He]].
  apply guard_eqb_eq in He. subst g'. unfold guards_pass in Hp.
  rewrite forallb_forall in Hp. apply Hp. exact Hin.
Qed.

Lemma finite_map : forall ts, forallb tv_finite ts = true -> exists qs, ts = map TQ qs.
Proof.
  induction ts as [|t ts IH]; intros H.
  - exists []. reflexivity.
  - simpl in H. apply andb_true_iff in H as [Ht Hr]. destruct (IH Hr) as [qs ->].
    destruct t as [q|]; [|discriminate]. exists (q :: qs). reflexivity.
Qed.

Lemma increasing_of_guard : forall qs, forallb tv_pos (tdiff (map TQ qs)) = true -> increasing_q qs.
Proof.
  induction qs as [|a qs IH]; intros H; [exact I|].
  destruct qs as [|b qs]; [exact I|].
  change (tdiff (map TQ (a :: b :: qs))) with (TQ (b - a) :: tdiff (map TQ (b :: qs))) in H.
  simpl forallb in H. apply andb_true_iff in H as [H1 H2].
  split.
  - apply negb_true_iff in H1. destruct (Qlt_le_dec a b) as [Hlt|Hle]; [exact Hlt|].
    exfalso. assert (Hc : Qle_bool (b - a) 0 = true) by (apply Qle_bool_iff; lra). congruence.
  - apply IH. exact H2.
Qed.

Lemma guard_of_increasing : forall qs, increasing_q qs -> forallb tv_pos (tdiff (map TQ qs)) = true.
Proof.
  induction qs as [|a qs IH]; intros H; [reflexivity|].
  destruct qs as [|b qs]; [reflexivity|].
  change (tdiff (map TQ (a :: b :: qs))) with (TQ (b - a) :: tdiff (map TQ (b :: qs))).
  destruct H as [Hab Hr]. simpl forallb. apply andb_true_iff. split.
  - apply negb_true_iff. destruct (Qle_bool (b - a) 0) eqn:E; [|reflexivity].
    apply Qle_bool_iff in E. exfalso. lra.
  - apply IH. exact Hr.
Qed.

(* strictly positive differences after a finite first element: every element is finite *)
Lemma pos_diffs_finite : forall ts q0,
  forallb tv_pos (tdiff (TQ q0 :: ts)) = true -> forallb tv_finite ts = true.
Proof.
  induction ts as [|t ts IH]; intros q0 H; [reflexivity|].
  change (tdiff (TQ q0 :: t :: ts)) with (tsub t (TQ q0) :: tdiff (t :: ts)) in H.
  simpl forallb in H. apply andb_true_iff in H as [H1 H2].
  destruct t as [q|]; [|discriminate H1].
  simpl. apply (IH q). exact H2.
Qed.

(* the three elementwise guards, the start guard in its positive form, decide validity of ANY 1-D input
   (NaN included: `not start < t0` refuses a NaN start and a NaN first time, and a NaN later on makes a
   difference NaN, which is not > 0) *)
Lemma guards_imply_valid : forall ts start,
  guard_passes GFirstNonZero start (R1 ts) = true ->
  guard_passes GStartLtFirst start (R1 ts) = true ->
  guard_passes GIncreasing start (R1 ts) = true ->
  valid (R1 ts) start.
Proof.
  intros ts start H0 H1 H2.
  destruct ts as [|t0 ts]; [discriminate|].
  simpl in H0, H1, H2.
  destruct start as [s|]; [|discriminate]. destruct t0 as [q0|]; [|discriminate].
  pose proof (pos_diffs_finite ts q0 H2) as Hf.
  destruct (finite_map ts Hf) as [qs ->].
  exists (q0 :: qs), s. split; [reflexivity|]. split; [reflexivity|].
  unfold valid_q. repeat split.
  - intros Hz. apply negb_true_iff in H0. apply Qeq_bool_iff in Hz. simpl in H0. congruence.
  - simpl in H1. apply negb_true_iff in H1. destruct (Qlt_le_dec s q0) as [Hlt|Hle]; [exact Hlt|].
    exfalso. apply Qle_bool_iff in Hle. congruence.
  - apply increasing_of_guard. exact H2.
Qed.

(* no guard ever refuses a valid schedule (whatever the guard lists are) *)
Lemma valid_passes_every_guard : forall r start g, valid r start -> guard_passes g start r = true.
Proof.
  intros r start g [qs [s [-> [-> Hv]]]].
  destruct qs as [|q0 qs]; [destruct Hv|].
  destruct Hv as [Hnz [Hlt Hinc]].
  destruct g; simpl; try reflexivity.
  - apply negb_true_iff. destruct (Qeq_bool q0 0) eqn:E; [|reflexivity].
    apply Qeq_bool_iff in E. contradiction.
  - apply negb_true_iff. destruct (Qle_bool q0 s) eqn:E; [|reflexivity].
    apply Qle_bool_iff in E. exfalso. lra.
  - apply negb_true_iff. destruct (Qle_bool q0 s) eqn:E; [|reflexivity].
    apply Qle_bool_iff in E. exfalso. lra.
  - apply (guard_of_increasing (q0 :: qs)). exact Hinc.
Qed.

Lemma valid_passes : forall gs r start, valid r start -> guards_pass gs start r = true.
Proof.
  intros gs r start Hv. unfold guards_pass. apply forallb_forall. intros g _.
  apply valid_passes_every_guard. exact Hv.
Qed.

Lemma valid_concat_ok : forall r start, valid r start -> concat_ok r = true.
Proof. intros r start [qs [s [-> _]]]. reflexivity. Qed.

(* ------------------------------------------------------------------------------------------------ *)
(* constructor and setters: when they succeed, the result is what the caller asked for                *)

Lemma ctor_some : forall G f r s nd ro, ctor G f r s nd = Some ro ->
  ro = {| r_times := r; r_start := s; r_nd := nd |}.
Proof.
  intros G f r s nd ro H. unfold ctor in H.
  destruct (match f with FNdarray => g_ndarray G | FList => true end); [|discriminate].
  destruct (guards_pass (g_ctor G) s r && concat_ok r); [|discriminate]. congruence.
Qed.

Lemma apply_op_some : forall G ro o ro', apply_op G ro o = Some ro' -> ro' = intend_op ro o.
Proof.
  intros G ro o ro' H. destruct o; unfold apply_op in H.
  - match type of H with context [if ?c then _ else _] => destruct c end; [|discriminate].
    inversion H. reflexivity.
  - match type of H with context [if ?c then _ else _] => destruct c end; [|discriminate].
    inversion H. reflexivity.
  - inversion H. reflexivity.
  - apply ctor_some in H. exact H.
  - apply ctor_some in H. exact H.
  - apply ctor_some in H. exact H.
Qed.

Lemma apply_ops_some : forall G ops ro ro', apply_ops G ro ops = Some ro' -> ro' = intended ro ops.
Proof.
  induction ops as [|o ops IH]; intros ro ro' H; simpl in H.
  - inversion H. reflexivity.
  - destruct (apply_op G ro o) as [ro1|] eqn:E; [|discriminate].
    apply apply_op_some in E. subst ro1. unfold intended. simpl. apply IH. exact H.
Qed.

Definition ro_valid (ro : readout) : Prop := valid (r_times ro) (r_start ro).
(* a constructor that takes numpy arrays never refuses a valid schedule, in either form; hence no setter and
   no replace() — which hands the constructor its own numpy array — ever does *)
Lemma ctor_valid : forall G f r s nd, g_ndarray G = true -> valid r s ->
  ctor G f r s nd = Some {| r_times := r; r_start := s; r_nd := nd |}.
Proof.
  intros G f r s nd HN Hv. unfold ctor. rewrite HN.
  rewrite (valid_passes _ _ _ Hv), (valid_concat_ok _ _ Hv). destruct f; reflexivity.
Qed.

Lemma apply_op_valid : forall G ro o,
  g_ndarray G = true -> ro_valid (intend_op ro o) -> apply_op G ro o = Some (intend_op ro o).
Proof.
  intros G ro o HN Hv. destruct o; simpl in *; unfold ro_valid in Hv; simpl in Hv.
  - rewrite (valid_passes _ _ _ Hv), (valid_concat_ok _ _ Hv). reflexivity.
  - rewrite (valid_passes _ _ _ Hv). reflexivity.
  - reflexivity.
  - apply ctor_valid; assumption.
  - apply ctor_valid; assumption.
  - apply ctor_valid; assumption.
Qed.

Lemma apply_ops_valid : forall G ops ro,
  g_ndarray G = true -> Forall ro_valid (intended_all ro ops) ->
  apply_ops G ro ops = Some (intended ro ops).
Proof.
  induction ops as [|o ops IH]; intros ro HN Hv; [reflexivity|].
  simpl in Hv. inversion Hv as [|x l Hro Hrest]; subst.
  assert (Hnext : ro_valid (intend_op ro o)).
  { destruct ops; simpl in Hrest; inversion Hrest; assumption. }
  simpl. rewrite (apply_op_valid G ro o HN Hnext). unfold intended. simpl.
  apply IH; assumption.
Qed.

Lemma intended_all_last_valid : forall ops ro,
  Forall ro_valid (intended_all ro ops) -> ro_valid (intended ro ops).
Proof.
  induction ops as [|o ops IH]; intros ro Hall.
  - simpl in *. inversion Hall; assumption.
  - simpl in Hall. inversion Hall; subst. unfold intended. simpl. apply IH. assumption.
Qed.

(* ------------------------------------------------------------------------------------------------ *)
(* the loop                                                                                           *)

Section Loop.
  Variable A : Type.
  Variable zero : A.
  Variable E : empty_table.
  Variable prog : program A.
  Variable nd : bool.
  Variable start : tv.
  Variable n : Z.

  Notation loop := (run_loop A zero E prog nd start n).

  (* clock at list position k of a loop that starts with counter i after the time [prev] *)
  Definition gclock (prev : tv) (ts : list tv) (i k : nat) : clock :=
    {| c_time := nth k ts TNaN;
       c_step := tsub (nth k ts TNaN) (nth k (prev :: ts) TNaN);
       c_abs := tadd start (nth k ts TNaN);
       c_count := Z.of_nat (i + k);
       c_first := Z.eqb (Z.of_nat (i + k)) 0;
       c_last := Z.eqb (Z.of_nat (i + k)) (n - 1) |}.

  Lemma loop_clocks : forall ts prev i d,
    map o_clock (loop (Z.of_nat i) (combine ts (tdiff (prev :: ts))) d)
    = map (gclock prev ts i) (seq 0 (length ts)).
  Proof.
    induction ts as [|t ts IH]; intros prev i d; [reflexivity|].
    change (tdiff (prev :: t :: ts)) with (tsub t prev :: tdiff (t :: ts)).
    cbn [combine run_loop length seq map o_clock].
    f_equal.
    - unfold gclock. simpl. rewrite Nat.add_0_r. reflexivity.
    - replace (Z.of_nat i + 1)%Z with (Z.of_nat (S i)) by lia.
      rewrite IH. rewrite <- seq_shift. rewrite map_map.
      apply map_ext. intros k. unfold gclock.
      replace (S i + k)%nat with (i + S k)%nat by lia. reflexivity.
  Qed.

  Lemma loop_length : forall ts prev i d,
    length (loop i (combine ts (tdiff (prev :: ts))) d) = length ts.
  Proof.
    induction ts as [|t ts IH]; intros prev i d; [reflexivity|].
    change (tdiff (prev :: t :: ts)) with (tsub t prev :: tdiff (t :: ts)).
    simpl. f_equal. apply IH.
  Qed.

  Lemma loop_times : forall ts prev i d,
    map (fun o => c_time (o_clock o)) (loop i (combine ts (tdiff (prev :: ts))) d) = ts.
  Proof.
    induction ts as [|t ts IH]; intros prev i d; [reflexivity|].
    change (tdiff (prev :: t :: ts)) with (tsub t prev :: tdiff (t :: ts)).
    simpl. f_equal. apply IH.
  Qed.

  (* bucket state at the beginning of the steps, relative to the end of the previous one *)
  Fixpoint begins_ok (prev : option (det A)) (os : list (observation A)) : Prop :=
    match os with
    | [] => True
    | o :: rest => o_begin o = spec_begin A zero nd prev /\ begins_ok (Some (o_end o)) rest
    end.

  Hypothesis HE : empty_table_ok E = true.

  Lemma table_facts :
    bmem Scene (e_always E) = true /\ bmem Photon (e_always E) = true /\ bmem Charge (e_always E) = true
    /\ bmem Signal (e_always E) = true /\ bmem Image (e_always E) = true
    /\ bmem Pixel (e_always E) = false /\ bmem Pixel (e_if_reset E) = true
    /\ forall b, cprog_ok b (e_prog E b) = true.
  Proof.
    pose proof HE as H. unfold empty_table_ok in H. simpl in H.
    rewrite !andb_true_iff, negb_true_iff in H.
    destruct H as [[[[[[[H1 [H2 [H3 [H4 [H5 _]]]]] H6] H7] [P1 [P2 [P3 [P4 [P5 [P6 _]]]]]]] _] _] _].
    repeat split; try assumption. intros b. destruct b; assumption.
  Qed.

  (* how the run loop uses Detector.empty: one full reset before the first step, `is destructive` per step *)
  Lemma loop_facts : e_init_reset E = true /\ forall b, loop_reset (e_loop_reset E) b = negb b.
  Proof.
    pose proof HE as H. unfold empty_table_ok in H. rewrite !andb_true_iff in H.
    destruct H as [[[_ H1] H2] _]. split; [exact H1|].
    intros b. destruct (e_loop_reset E); try discriminate H2. reflexivity.
  Qed.

  (* emptying one container (when Detector.empty reaches it): all of its pieces are re-initialised, no other
     piece changes — from the regenerated program of its empty() *)
  Lemma getp_empty_bucket : forall reset d b p,
    getp p (empty_bucket A zero E reset d b)
    = if emptied E reset b && bucket_eqb (owner p) b then cleared A zero p else getp p d.
  Proof.
    intros reset d b p. unfold empty_bucket. destruct (emptied E reset b); [|reflexivity].
    destruct table_facts as [_ [_ [_ [_ [_ [_ [_ HP]]]]]]].
    rewrite (run_cprog_ok A zero b (e_prog E b) (HP b)). reflexivity.
  Qed.

  Lemma det_empty_ok : forall reset d,
    det_empty A zero E reset d =
    {| scene := None; photon := None; charge := None; cframe := None;
       pixel := if reset then Some zero else pixel d; signal := None; image := None |}.
  Proof.
    intros reset d. destruct table_facts as [H1 [H2 [H3 [H4 [H5 [H6 [H7 _]]]]]]].
    apply det_ext. intros p. unfold det_empty, all_buckets. cbn [fold_left].
    rewrite !getp_empty_bucket. unfold emptied. rewrite H1, H2, H3, H4, H5, H6, H7.
    destruct p, reset; reflexivity.
  Qed.

  Lemma pixel_extract : forall d, pixel (det_extract A E d) = pixel d.
  Proof. intros d. unfold det_extract. destruct (e_read_stores E), (cframe d); reflexivity. Qed.

  Lemma loop_begins : forall tss i d prev,
    det_empty A zero E (negb nd) d = spec_begin A zero nd prev ->
    begins_ok prev (loop i tss d).
  Proof.
    destruct loop_facts as [_ HL].
    induction tss as [|[t st] tss IH]; intros i d prev H; [exact I|].
    simpl. rewrite HL. split; [exact H|].
    apply IH. rewrite det_empty_ok. unfold spec_begin. rewrite pixel_extract. destruct nd; reflexivity.
  Qed.

  Lemma begin_run_state : forall d0,
    det_empty A zero E (negb nd) (det_init A zero E d0) = spec_begin A zero nd None.
  Proof.
    intros d0. destruct loop_facts as [HI _]. unfold det_init. rewrite HI.
    rewrite !det_empty_ok. unfold spec_begin. simpl. destruct nd; reflexivity.
  Qed.

  (* the reset at the start of the run forgets everything *)
  Lemma begin_run_forgets : forall d0 d0', det_init A zero E d0 = det_init A zero E d0'.
  Proof. intros. destruct loop_facts as [HI _]. unfold det_init. rewrite HI, !det_empty_ok. reflexivity. Qed.

  Lemma begins_ok_nth : forall os prev, begins_ok prev os ->
    forall i o, nth_error os i = Some o ->
    o_begin o = spec_begin A zero nd
                  (match i with O => prev | S j => option_map (@o_end A) (nth_error os j) end).
  Proof.
    induction os as [|o1 os IH]; intros prev H i o Hn; [destruct i; discriminate|].
    destruct H as [H1 H2]. destruct i as [|i].
    - simpl in Hn. inversion Hn; subst. exact H1.
    - simpl in Hn. specialize (IH _ H2 i o Hn). rewrite IH.
      destruct i as [|j]; reflexivity.
  Qed.
End Loop.

(* ------------------------------------------------------------------------------------------------ *)
(* whole runs                                                                                         *)

Section Runs.
  Variable A : Type.
  Variable zero : A.
  Variable G : guard_table.
  Variable E : empty_table.

  Definition trace_of (ro : readout) (ts : list tv) (prog : program A) (d0 : det A) : list (observation A) :=
    run_loop A zero E prog (r_nd ro) (r_start ro) (Z.of_nat (length ts)) 0
             (combine ts (steps (r_start ro) ts)) (det_init A zero E d0).

  Lemma run_valid : forall ro prog d0 ts,
    r_times ro = R1 ts -> ro_valid ro ->
    run_readout A zero G E ro prog d0 = Ran (trace_of ro ts prog d0).
  Proof.
    intros ro prog d0 ts Ht Hv. unfold run_readout, ro_valid in *. rewrite Ht in *.
    rewrite (valid_passes _ _ _ Hv). unfold trace_of, steps. rewrite tdiff_length. reflexivity.
  Qed.

  Lemma run_invalid : rp_complete_nan G = true ->
    forall ro prog d0, ~ ro_valid ro ->
    run_readout A zero G E ro prog d0 = Rejected 2.
  Proof.
    intros HG ro prog d0 Hnv. unfold run_readout. destruct (r_times ro) as [ts|] eqn:Ht; [|reflexivity].
    destruct (guards_pass (g_rp G) (r_start ro) (R1 ts)) eqn:Hp; [|reflexivity].
    exfalso. apply Hnv. unfold ro_valid. rewrite Ht.
    unfold rp_complete_nan in HG. apply andb_true_iff in HG as [HG H3]. apply andb_true_iff in HG as [H1 H2].
    apply guards_imply_valid; eapply gmem_pass; eassumption.
  Qed.

  Lemma run_rejected_or_ran_valid : rp_complete_nan G = true ->
    forall ro prog d0 os,
    run_readout A zero G E ro prog d0 = Ran os -> ro_valid ro.
  Proof.
    intros HG ro prog d0 os Hr.
    unfold run_readout in Hr. destruct (r_times ro) as [ts|] eqn:Ht; [|discriminate].
    destruct (guards_pass (g_rp G) (r_start ro) (R1 ts)) eqn:Hp; [|discriminate].
    unfold ro_valid. rewrite Ht.
    unfold rp_complete_nan in HG. apply andb_true_iff in HG as [HG H3]. apply andb_true_iff in HG as [H1 H2].
    apply guards_imply_valid; eapply gmem_pass; eassumption.
  Qed.

  Lemma scenario_invalid : rp_complete_nan G = true ->
    forall f r s nd ops prog d0,
    let fin := intended {| r_times := r; r_start := s; r_nd := nd |} ops in
    ~ ro_valid fin ->
    exists stage, scenario A zero G E f r s nd ops prog d0 = Rejected stage.
  Proof.
    intros HG f r s nd ops prog d0 fin Hnv. unfold scenario.
    destruct (ctor G f r s nd) as [ro|] eqn:Hc; [|eexists; reflexivity].
    apply ctor_some in Hc. subst ro.
    destruct (apply_ops G _ ops) as [ro'|] eqn:Ha; [|eexists; reflexivity].
    apply apply_ops_some in Ha. subst ro'. exists 2%Z. apply run_invalid; assumption.
  Qed.

  (* no run on an invalid schedule: what ran was valid *)
  Lemma scenario_ran_valid : rp_complete_nan G = true ->
    forall f r s nd ops prog d0 trace,
    scenario A zero G E f r s nd ops prog d0 = Ran trace ->
    ro_valid (intended {| r_times := r; r_start := s; r_nd := nd |} ops).
  Proof.
    intros HG f r s nd ops prog d0 trace H. unfold scenario in H.
    destruct (ctor G f r s nd) as [ro|] eqn:Hc; [|discriminate].
    apply ctor_some in Hc. subst ro.
    destruct (apply_ops G _ ops) as [ro'|] eqn:Ha; [|discriminate].
    apply apply_ops_some in Ha. subst ro'.
    eapply run_rejected_or_ran_valid; eassumption.
  Qed.

  Lemma scenario_valid : g_ndarray G = true -> forall f r s nd ops prog d0,
    let ro := {| r_times := r; r_start := s; r_nd := nd |} in
    Forall ro_valid (intended_all ro ops) ->
    forall ts, r_times (intended ro ops) = R1 ts ->
    scenario A zero G E f r s nd ops prog d0 = Ran (trace_of (intended ro ops) ts prog d0).
  Proof.
    intros HN f r s nd ops prog d0 ro Hall ts Hts. unfold scenario.
    assert (Hro : ro_valid ro) by (destruct ops; simpl in Hall; inversion Hall; assumption).
    unfold ro_valid in Hro. simpl in Hro. rewrite (ctor_valid G f r s nd HN Hro).
    fold ro. rewrite (apply_ops_valid G ops ro HN Hall).
    apply run_valid; [exact Hts|]. apply intended_all_last_valid. exact Hall.
  Qed.

  Lemma scenario_no_leak : empty_table_ok E = true ->
    forall f r s nd ops prog d0 d0',
    scenario A zero G E f r s nd ops prog d0 = scenario A zero G E f r s nd ops prog d0'.
  Proof.
    intros HE f r s nd ops prog d0 d0'. unfold scenario.
    destruct (ctor G f r s nd) as [ro|]; [|reflexivity].
    destruct (apply_ops G ro ops) as [ro'|]; [|reflexivity].
    unfold run_readout. destruct (r_times ro') as [ts|]; [|reflexivity].
    destruct (guards_pass (g_rp G) (r_start ro') (R1 ts)); [|reflexivity].
    rewrite (begin_run_forgets A zero E HE d0 d0'). reflexivity.
  Qed.

  (* closed forms for the trace of a run over a finite, valid schedule *)
  Lemma trace_clocks : forall ro ts prog d0,
    map (@o_clock A) (trace_of ro ts prog d0) = map (spec_clock (r_start ro) ts) (seq 0 (length ts)).
  Proof.
    intros ro ts prog d0. unfold trace_of, steps.
    change 0%Z with (Z.of_nat 0).
    rewrite (loop_clocks A zero E prog (r_nd ro) (r_start ro) (Z.of_nat (length ts)) ts (r_start ro) 0).
    apply map_ext_in. intros k Hk. apply in_seq in Hk.
    unfold gclock, spec_clock. simpl Nat.add.
    assert (H1 : Z.eqb (Z.of_nat k) 0 = Nat.eqb k 0).
    { destruct k; [reflexivity|]. apply Z.eqb_neq. lia. }
    assert (H2 : Z.eqb (Z.of_nat k) (Z.of_nat (length ts) - 1) = Nat.eqb (S k) (length ts)).
    { destruct (Nat.eqb (S k) (length ts)) eqn:Ek.
      - apply Nat.eqb_eq in Ek. apply Z.eqb_eq. lia.
      - apply Nat.eqb_neq in Ek. apply Z.eqb_neq. lia. }
    rewrite H1, H2. destruct k; reflexivity.
  Qed.

  Lemma trace_length : forall ro ts prog d0, length (trace_of ro ts prog d0) = length ts.
  Proof. intros. unfold trace_of, steps. apply loop_length. Qed.

  Lemma trace_times : forall ro ts prog d0,
    map (fun o => c_time (o_clock o)) (trace_of ro ts prog d0) = ts.
  Proof. intros. unfold trace_of, steps. apply loop_times. Qed.

  Lemma trace_begins : empty_table_ok E = true -> forall ro ts prog d0,
    begins_ok A zero (r_nd ro) None (trace_of ro ts prog d0).
  Proof.
    intros HE ro ts prog d0. unfold trace_of. apply loop_begins; [exact HE|].
    apply begin_run_state. exact HE.
  Qed.

  Lemma trace_clock_nth : forall ro ts prog d0 i o,
    nth_error (trace_of ro ts prog d0) i = Some o -> o_clock o = spec_clock (r_start ro) ts i.
  Proof.
    intros ro ts prog d0 i o Hn.
    assert (Hi : (i < length ts)%nat).
    { rewrite <- (trace_length ro ts prog d0). apply nth_error_Some. congruence. }
    pose proof (trace_clocks ro ts prog d0) as Hc.
    apply (f_equal (fun l => nth_error l i)) in Hc.
    rewrite nth_error_map, Hn in Hc. simpl in Hc.
    rewrite nth_error_map in Hc.
    assert (Hs : nth_error (seq 0 (length ts)) i = Some i).
    { rewrite (nth_error_nth' _ 0%nat) by (rewrite seq_length; exact Hi). rewrite seq_nth by exact Hi. reflexivity. }
    rewrite Hs in Hc. simpl in Hc. congruence.
  Qed.
End Runs.

(* ------------------------------------------------------------------------------------------------ *)
(* statements in the form used by Properties/C02.v                                                    *)

(* the caller only ever installs valid schedules: the one given to the constructor (as a list, tuple, scalar,
   expression, file or numpy array) and the one in place after each setter / replace operation *)
Definition valid_scenario (r : raw) (s : tv) (nd : bool) (ops : list op) : Prop :=
  Forall ro_valid (intended_all {| r_times := r; r_start := s; r_nd := nd |} ops).

Definition final (r : raw) (s : tv) (nd : bool) (ops : list op) : readout :=
  intended {| r_times := r; r_start := s; r_nd := nd |} ops.

Lemma valid_scenario_final : forall r s nd ops, valid_scenario r s nd ops ->
  exists qs st, r_times (final r s nd ops) = R1 (map TQ qs) /\ r_start (final r s nd ops) = TQ st
                /\ valid_q qs st.
Proof.
  intros r s nd ops Hall. apply intended_all_last_valid in Hall.
  destruct Hall as [qs [st [H1 [H2 H3]]]]. exists qs, st. auto.
Qed.

Lemma nth_map_TQ : forall qs i, (i < length qs)%nat -> nth i (map TQ qs) TNaN = TQ (nth i qs 0).
Proof.
  intros qs i Hi. rewrite (nth_indep _ TNaN (TQ 0)) by (rewrite map_length; exact Hi).
  apply (map_nth TQ).
Qed.

Section Statements.
  Variable A : Type.
  Variable zero : A.
  Variable G : guard_table.
  Variable E : empty_table.

  Lemma loop_steps : forall prog nd start n ts prev i d,
    map (fun o => c_step (o_clock o)) (run_loop A zero E prog nd start n i (combine ts (tdiff (prev :: ts))) d)
    = tdiff (prev :: ts).
  Proof.
    intros prog nd start n. induction ts as [|t ts IH]; intros prev i d; [reflexivity|].
    change (tdiff (prev :: t :: ts)) with (tsub t prev :: tdiff (t :: ts)).
    simpl. f_equal. apply IH.
  Qed.

  (* Readout.__init__ takes numpy arrays (regenerated; see [ctor]) *)
  Hypothesis HN : g_ndarray G = true.

  Lemma st_runs : forall f r s nd ops prog d0, valid_scenario r s nd ops ->
    exists qs st,
      r_times (final r s nd ops) = R1 (map TQ qs) /\ r_start (final r s nd ops) = TQ st /\ valid_q qs st
      /\ scenario A zero G E f r s nd ops prog d0
         = Ran (trace_of A zero E (final r s nd ops) (map TQ qs) prog d0).
  Proof.
    intros f r s nd ops prog d0 Hv. destruct (valid_scenario_final _ _ _ _ Hv) as [qs [st [H1 [H2 H3]]]].
    exists qs, st. repeat split; try assumption.
    apply scenario_valid; assumption.
  Qed.

  (* C02_once_per_time_in_order *)
  Lemma st_once_in_order : forall f r s nd ops prog d0, valid_scenario r s nd ops ->
    exists qs trace,
      r_times (final r s nd ops) = R1 (map TQ qs)
      /\ scenario A zero G E f r s nd ops prog d0 = Ran trace
      /\ map (fun o => c_time (o_clock o)) trace = map TQ qs
      /\ length trace = length qs.
  Proof.
    intros f r s nd ops prog d0 Hv. destruct (st_runs f r s nd ops prog d0 Hv) as [qs [st [H1 [H2 [H3 H4]]]]].
    exists qs, (trace_of A zero E (final r s nd ops) (map TQ qs) prog d0).
    repeat split; try assumption.
    - apply trace_times.
    - rewrite trace_length, map_length. reflexivity.
  Qed.

  (* C02_clock *)
  Lemma st_clock : forall f r s nd ops prog d0, valid_scenario r s nd ops ->
    exists qs st trace,
      r_times (final r s nd ops) = R1 (map TQ qs) /\ r_start (final r s nd ops) = TQ st
      /\ scenario A zero G E f r s nd ops prog d0 = Ran trace
      /\ forall i o, nth_error trace i = Some o ->
           c_time (o_clock o) = TQ (nth i qs 0)
           /\ c_step (o_clock o) = TQ (nth i qs 0 - nth i (st :: qs) 0)
           /\ c_abs (o_clock o) = TQ (st + nth i qs 0)
           /\ c_count (o_clock o) = Z.of_nat i
           /\ c_first (o_clock o) = Nat.eqb i 0
           /\ c_last (o_clock o) = Nat.eqb (S i) (length qs).
  Proof.
    intros f r s nd ops prog d0 Hv. destruct (st_runs f r s nd ops prog d0 Hv) as [qs [st [H1 [H2 [H3 H4]]]]].
    exists qs, st, (trace_of A zero E (final r s nd ops) (map TQ qs) prog d0).
    repeat split; try assumption;
      pose proof (trace_clock_nth A zero E _ _ _ _ _ _ H) as Hc;
      assert (Hi : (i < length qs)%nat)
        by (rewrite <- (map_length TQ qs), <- (trace_length A zero E (final r s nd ops) (map TQ qs) prog d0);
            apply nth_error_Some; congruence);
      rewrite Hc, H2; unfold spec_clock; simpl.
    - apply nth_map_TQ; exact Hi.
    - rewrite nth_map_TQ by exact Hi. destruct i as [|j]; [reflexivity|].
      rewrite nth_map_TQ by lia. reflexivity.
    - rewrite nth_map_TQ by exact Hi. reflexivity.
    - reflexivity.
    - reflexivity.
    - rewrite map_length. reflexivity.
  Qed.

  (* the steps the models see add up to end time - start time *)
  Lemma st_steps_sum : forall f r s nd ops prog d0, valid_scenario r s nd ops ->
    exists qs st trace,
      r_times (final r s nd ops) = R1 (map TQ qs) /\ r_start (final r s nd ops) = TQ st
      /\ scenario A zero G E f r s nd ops prog d0 = Ran trace
      /\ map (fun o => c_step (o_clock o)) trace = map TQ (steps_q st qs)
      /\ qsum (steps_q st qs) == last qs st - st.
  Proof.
    intros f r s nd ops prog d0 Hv. destruct (st_runs f r s nd ops prog d0 Hv) as [qs [st [H1 [H2 [H3 H4]]]]].
    exists qs, st, (trace_of A zero E (final r s nd ops) (map TQ qs) prog d0).
    repeat split; try assumption.
    - unfold trace_of, steps. rewrite loop_steps, H2. apply (steps_map st qs).
    - apply steps_telescope.
  Qed.

  Hypothesis HE : empty_table_ok E = true.

  (* C02_step_start_buckets *)
  Lemma st_step_start : forall f r s nd ops prog d0, valid_scenario r s nd ops ->
    exists trace,
      scenario A zero G E f r s nd ops prog d0 = Ran trace
      /\ forall i o, nth_error trace i = Some o ->
           scene (o_begin o) = None /\ photon (o_begin o) = None /\ charge (o_begin o) = None
           /\ cframe (o_begin o) = None
           /\ signal (o_begin o) = None /\ image (o_begin o) = None
           /\ pixel (o_begin o) =
              match i with
              | O => Some zero
              | S j => if r_nd (final r s nd ops)
                       then match nth_error trace j with Some p => pixel (o_end p) | None => Some zero end
                       else Some zero
              end.
  Proof.
    intros f r s nd ops prog d0 Hv. destruct (st_runs f r s nd ops prog d0 Hv) as [qs [st [H1 [H2 [H3 H4]]]]].
    exists (trace_of A zero E (final r s nd ops) (map TQ qs) prog d0). split; [exact H4|].
    intros i o Hn.
    pose proof (trace_begins A zero E HE (final r s nd ops) (map TQ qs) prog d0) as Hb.
    pose proof (begins_ok_nth A zero _ _ _ Hb i o Hn) as Hs. rewrite Hs. unfold spec_begin. simpl.
    repeat split. destruct i as [|j]; [reflexivity|].
    destruct (nth_error (trace_of A zero E (final r s nd ops) (map TQ qs) prog d0) j) as [p|] eqn:Ej; simpl.
    - reflexivity.
    - destruct (r_nd (final r s nd ops)); reflexivity.
  Qed.
End Statements.

(* ------------------------------------------------------------------------------------------------ *)
(* the bool oracle used by the correspondence leg decides exactly the validity predicate of the
   theorems                                                                                           *)

Lemma increasing_b_iff : forall qs, increasing_b (map TQ qs) = true <-> increasing_q qs.
Proof.
  induction qs as [|a qs IH]; [simpl; tauto|].
  destruct qs as [|b qs]; [simpl; tauto|].
  change (increasing_b (map TQ (a :: b :: qs)))
    with ((true && true && negb (Qle_bool b a)) && increasing_b (map TQ (b :: qs))).
  change (increasing_q (a :: b :: qs)) with (a < b /\ increasing_q (b :: qs)).
  rewrite andb_true_iff, IH. simpl andb. rewrite negb_true_iff.
  split; intros [H1 H2]; split; try assumption.
  - destruct (Qlt_le_dec a b) as [Hlt|Hle]; [exact Hlt|]. apply Qle_bool_iff in Hle. congruence.
  - destruct (Qle_bool b a) eqn:Eb; [|reflexivity]. apply Qle_bool_iff in Eb. exfalso. lra.
Qed.

Lemma forallb_finite_map : forall qs, forallb tv_finite (map TQ qs) = true.
Proof. induction qs; simpl; auto. Qed.

Lemma valid_b_iff : forall r start, valid_b r start = true <-> valid r start.
Proof.
  intros r start. split.
  - intros H. destruct r as [ts|]; [|discriminate]. destruct ts as [|t0 ts']; [discriminate|].
    unfold valid_b in H. repeat rewrite andb_true_iff in H. destruct H as [[[[Hf Hs] Hz] Hlt] Hinc].
    destruct (finite_map _ Hf) as [qs Hq]. destruct start as [s|]; [|discriminate].
    exists qs, s. split; [rewrite Hq; reflexivity|]. split; [reflexivity|].
    destruct qs as [|q0 qs]; [discriminate|]. injection Hq as -> ->.
    unfold valid_q. repeat split.
    + intros Hc. apply negb_true_iff in Hz. apply Qeq_bool_iff in Hc. simpl in Hz. congruence.
    + apply negb_true_iff in Hlt. simpl in Hlt. destruct (Qlt_le_dec s q0) as [Hl|Hle]; [exact Hl|].
      apply Qle_bool_iff in Hle. congruence.
    + apply (increasing_b_iff (q0 :: qs)). exact Hinc.
  - intros [qs [s [-> [-> Hv]]]]. destruct qs as [|q0 qs]; [destruct Hv|].
    destruct Hv as [Hnz [Hlt Hinc]].
    change (valid_b (R1 (map TQ (q0 :: qs))) (TQ s))
      with (forallb tv_finite (map TQ (q0 :: qs)) && true && negb (Qeq_bool q0 0) && negb (Qle_bool q0 s)
            && increasing_b (map TQ (q0 :: qs))).
    rewrite forallb_finite_map. rewrite (proj2 (increasing_b_iff (q0 :: qs)) Hinc).
    assert (H1 : Qeq_bool q0 0 = false).
    { destruct (Qeq_bool q0 0) eqn:E; [|reflexivity]. apply Qeq_bool_iff in E. contradiction. }
    assert (H2 : Qle_bool q0 s = false).
    { destruct (Qle_bool q0 s) eqn:E; [|reflexivity]. apply Qle_bool_iff in E. exfalso. lra. }
    rewrite H1, H2. reflexivity.
Qed.
