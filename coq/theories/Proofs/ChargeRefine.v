(* Refinement: the Charge state machine (Model/Charge.v) against the per-pixel accumulator, for all
   interleavings of operations (induction over the op list). *)
From Coq Require Import ZArith QArith Qround List Bool Lia Lqa Arith.
From PyxelV Require Import Model.Charge Proofs.ChargeLemmas.
Import ListNotations.
Open Scope Q_scope.

(* what a read would return: the abstraction function *)
Definition view (g : geom) (s : state) (i j : nat) : Q :=
  match st_frame s with
  | [] => mget (st_arr s) i j
  | f => credit (hit_exact g) (fcl f) i j
  end.

Definition Inv (g : geom) (s : state) : Prop :=
  Shape (g_rows g) (g_cols g) (st_arr s) /\
  (st_frame s = [] -> forall i j, (i < g_rows g)%nat -> (j < g_cols g)%nat -> 0 <= mget (st_arr s) i j).

(* hypotheses on one operation: no removal, non-negative arrays; clusters may lie ANYWHERE *)
Definition op_ok (o : op) : bool := negb (is_removal o) && op_arrays_nonneg o.

Lemma view_renumber g arr l i j :
  view g {| st_arr := arr; st_frame := renumber l |} i j =
  match l with [] => mget arr i j | _ => credit (hit_exact g) l i j end.
Proof.
  destruct l as [|c l]; [reflexivity|].
  unfold view. cbn [st_frame]. destruct (renumber (c :: l)) eqn:E; [apply renumber_nil in E; discriminate|].
  rewrite <- E, fcl_renumber. reflexivity.
Qed.

Lemma add_frame_ok g s cs :
  geom_ok g = true -> Inv g s ->
  Inv g (add_frame g s cs) /\
  forall i j, (i < g_rows g)%nat -> (j < g_cols g)%nat ->
    view g (add_frame g s cs) i j == view g s i j + credit (hit_exact g) cs i j.
Proof.
  intros Hg [HS HN]. unfold add_frame.
  destruct (st_frame s) as [|p f] eqn:F.
  - specialize (HN eq_refl).
    destruct (all_zero (st_arr s)) eqn:Z.
    + split.
      * split; [exact HS|]. intros _; exact HN.
      * intros i j Hi Hj. rewrite view_renumber. unfold view. rewrite F.
        destruct cs; cbn [st_arr].
        -- simpl. ring.
        -- rewrite (all_zero_mget _ i j Z). ring.
    + split.
      * split; [exact HS|]. intros _; exact HN.
      * intros i j Hi Hj. rewrite view_renumber. unfold view. rewrite F. cbn [st_arr].
        destruct (centres g (st_arr s) ++ cs) eqn:E.
        -- apply app_eq_nil in E. destruct E as [_ ->]. simpl. ring.
        -- rewrite <- E, credit_app, credit_centres by auto.
           rewrite pos_nonneg by (apply HN; auto). reflexivity.
  - assert (NE : fcl (p :: f) ++ cs <> []) by (simpl; discriminate).
    split.
    + split; [exact HS|].
      cbn [st_frame]. intros E. apply renumber_nil in E. contradiction.
    + intros i j Hi Hj. rewrite view_renumber. unfold view. rewrite F.
      destruct (fcl (p :: f) ++ cs) eqn:E; [contradiction|].
      rewrite <- E, credit_app. reflexivity.
Qed.

Lemma Inv_init g : Inv g (init g).
Proof.
  split; [apply Shape_zeros|].
  intros _ i j _ _. simpl. rewrite mget_zeros. apply Qle_refl.
Qed.

Definition in_range g (i j : nat) := (i < g_rows g)%nat /\ (j < g_cols g)%nat.

Lemma step_ok g s o :
  geom_ok g = true -> Inv g s -> op_ok o = true ->
  exists s', fst (step g s o) = Some s' /\ Inv g s' /\
    (forall i j, (i < g_rows g)%nat -> (j < g_cols g)%nat ->
       view g s' i j == acc_step g (hit_exact g) (view g s) o i j) /\
    (o = Read -> exists m, snd (step g s o) = OArr m /\ Shape (g_rows g) (g_cols g) m /\
       forall i j, (i < g_rows g)%nat -> (j < g_cols g)%nat -> mget m i j == view g s i j).
Proof.
  intros Hg HI Hok. unfold op_ok in Hok. apply andb_true_iff in Hok. destruct Hok as [Hr Hn].
  destruct o; simpl in Hr, Hn; try discriminate.
  - (* AddArray *)
    simpl. destruct (shape_ok (g_rows g) (g_cols g) a) eqn:SO.
    + apply shape_ok_iff in SO.
      destruct (st_frame s) as [|p f] eqn:F.
      * destruct HI as [HS HN]. specialize (HN F).
        eexists; split; [reflexivity|]. split; [|split; [|discriminate]].
        -- split; [apply Shape_madd; auto|].
           intros _ i j Hi Hj. simpl. rewrite (mget_madd (g_rows g) (g_cols g)) by auto.
           pose proof (HN i j Hi Hj). pose proof (nonneg_mget a i j Hn). lra.
        -- intros i j Hi Hj. unfold view at 1. simpl. rewrite (mget_madd (g_rows g) (g_cols g)) by auto.
           unfold view. rewrite F. reflexivity.
      * destruct (add_frame_ok g s (centres g a) Hg HI) as [I' V'].
        eexists; split; [reflexivity|]. split; [exact I'|]. split; [|discriminate].
        intros i j Hi Hj. rewrite V' by auto. rewrite credit_centres by auto.
        rewrite pos_nonneg by (apply nonneg_mget; auto). reflexivity.
    + exists s. split; [reflexivity|]. split; [exact HI|]. split; [|discriminate].
      intros; reflexivity.
  - (* AddClusters *)
    destruct (add_frame_ok g s cs Hg HI) as [I' V'].
    simpl. eexists; split; [reflexivity|]. split; [exact I'|]. split; [|discriminate].
    intros i j Hi Hj. apply V'; auto.
  - (* Read *)
    unfold step. destruct (st_frame s) as [|p f] eqn:F.
    + exists s. split; [reflexivity|]. split; [exact HI|]. split; [intros; reflexivity|].
      intros _. exists (st_arr s). split; [reflexivity|]. split; [apply HI|].
      intros i j _ _. unfold view. rewrite F. reflexivity.
    + destruct HI as [HS HN].
      destruct (to_array_spec g (fcl (p :: f))) as [m [B [Sm G]]].
      rewrite B. cbn [fst snd]. eexists; split; [reflexivity|]. split; [|split].
      * split; [exact Sm|]. discriminate.
      * intros i j Hi Hj. unfold view. simpl. rewrite F. reflexivity.
      * intros _. exists m. split; [reflexivity|]. split; [exact Sm|].
        intros i j Hi Hj. rewrite (G i j Hi Hj). unfold view. rewrite F. reflexivity.
  - (* ReadFrame *)
    exists s. simpl. split; [reflexivity|]. split; [exact HI|]. split; [intros; reflexivity|discriminate].
  - (* Reset *)
    exists (init g). simpl. split; [reflexivity|]. split; [apply Inv_init|]. split; [|discriminate].
    intros i j _ _. unfold view. simpl. rewrite mget_zeros. reflexivity.
Qed.

Lemma acc_step_ext g hit f f' o i j :
  f i j == f' i j -> acc_step g hit f o i j == acc_step g hit f' o i j.
Proof.
  intros H. destruct o; simpl; try exact H; try reflexivity.
  - destruct (shape_ok (g_rows g) (g_cols g) a); [rewrite H; reflexivity|exact H].
  - rewrite H; reflexivity.
Qed.

Lemma exec_snoc g s ops o : exec g s (ops ++ [o]) = exec1 g (exec g s ops) o.
Proof. unfold exec. rewrite fold_left_app. reflexivity. Qed.

Lemma acc_of_snoc g hit ops o : acc_of g hit (ops ++ [o]) = acc_step g hit (acc_of g hit ops) o.
Proof. unfold acc_of. rewrite fold_left_app. reflexivity. Qed.

(* the state after any removal-free op sequence (clusters anywhere) satisfies the invariant and
   abstracts to the accumulator *)
Theorem exec_refines g ops :
  geom_ok g = true -> forallb op_ok ops = true ->
  exists s, exec g (Some (init g)) ops = Some s /\ Inv g s /\
    forall i j, (i < g_rows g)%nat -> (j < g_cols g)%nat -> view g s i j == spec_acc g ops i j.
Proof.
  intros Hg. induction ops as [|o ops IH] using rev_ind; intros Hok.
  - exists (init g). split; [reflexivity|]. split; [apply Inv_init|].
    intros i j _ _. unfold view, spec_acc, acc_of. simpl. rewrite mget_zeros. reflexivity.
  - rewrite forallb_app in Hok. apply andb_true_iff in Hok. destruct Hok as [H1 H2].
    simpl in H2. rewrite andb_true_r in H2.
    destruct (IH H1) as [s [E [I V]]].
    destruct (step_ok g s o Hg I H2) as [s' [E' [I' [V' _]]]].
    exists s'. split; [rewrite exec_snoc, E; exact E'|]. split; [exact I'|].
    intros i j Hi Hj. rewrite (V' i j Hi Hj). unfold spec_acc. rewrite acc_of_snoc.
    apply acc_step_ext. apply V; auto.
Qed.

Theorem read_refines_accumulator g ops :
  geom_ok g = true -> forallb op_ok ops = true ->
  exists m, read_after g ops = OArr m /\ Shape (g_rows g) (g_cols g) m /\
    forall i j, (i < g_rows g)%nat -> (j < g_cols g)%nat -> mget m i j == spec_acc g ops i j.
Proof.
  intros Hg Hok. destruct (exec_refines g ops Hg Hok) as [s [E [I V]]].
  destruct (step_ok g s Read Hg I eq_refl) as [s' [_ [_ [_ R]]]].
  destruct (R eq_refl) as [m [Em [Sm Gm]]].
  exists m. split; [unfold read_after; rewrite E; exact Em|]. split; [exact Sm|].
  intros i j Hi Hj. rewrite (Gm i j Hi Hj). apply V; auto.
Qed.

Lemma forallb_impl {A} (p q : A -> bool) l : (forall x, p x = true -> q x = true) -> forallb p l = true -> forallb q l = true.
Proof. intros H. rewrite !forallb_forall. auto. Qed.

(* reset gives zero, whatever came before *)
Lemma spec_acc_reset g ops i j : spec_acc g (ops ++ [Reset]) i j = 0.
Proof. unfold spec_acc. rewrite acc_of_snoc. reflexivity. Qed.

(* a read is an observation: the accumulator ignores it *)
Lemma acc_of_read g hit ops1 ops2 : acc_of g hit (ops1 ++ Read :: ops2) = acc_of g hit (ops1 ++ ops2).
Proof. unfold acc_of. rewrite !fold_left_app. reflexivity. Qed.

Definition obs_equiv (g : geom) (a b : obs) : Prop :=
  match a, b with
  | OArr m, OArr n => Shape (g_rows g) (g_cols g) m /\ Shape (g_rows g) (g_cols g) n /\
                      forall i j, (i < g_rows g)%nat -> (j < g_cols g)%nat -> mget m i j == mget n i j
  | _, _ => False
  end.
