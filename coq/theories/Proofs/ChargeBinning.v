(* Corollaries of the refinement theorems: single-cluster binning, centre round trip, clusters outside. *)
From Coq Require Import ZArith QArith Qround List Bool Lia Lqa Arith.
From PyxelV Require Import Model.Charge Proofs.ChargeLemmas Proofs.ChargeRefine Proofs.ChargeIdeal.
Import ListNotations.
Open Scope Q_scope.

(* ANY single cluster -- inside or outside the sensitive area -- is read back in the pixel
   (floor(v/ph), floor(h/pw)) if that is a pixel of the array, and nowhere else *)
Theorem binning_single g c :
  geom_ok g = true ->
  exists m, read_after g [AddClusters [c]] = OArr m /\ Shape (g_rows g) (g_cols g) m /\
    forall i j, (i < g_rows g)%nat -> (j < g_cols g)%nat ->
      mget m i j == if (Qfloor (c_v c / g_ph g) =? Z.of_nat i)%Z && (Qfloor (c_h c / g_pw g) =? Z.of_nat j)%Z
                    then c_n c else 0.
Proof.
  intros Hg.
  destruct (read_refines_accumulator g [AddClusters [c]] Hg eq_refl) as [m [E [S G]]].
  exists m. split; [exact E|]. split; [exact S|].
  intros i j Hi' Hj'. rewrite (G i j Hi' Hj'). unfold spec_acc, acc_of. cbn [fold_left acc_step credit fold_right]. unfold hit_exact, pix.
  destruct ((Qfloor (c_v c / g_ph g) =? Z.of_nat i)%Z && (Qfloor (c_h c / g_pw g) =? Z.of_nat j)%Z); ring.
Qed.

(* array -> clusters at pixel centres -> array gives the array back (non-negative entries) *)
Theorem centres_roundtrip g a cs :
  geom_ok g = true -> shape_ok (g_rows g) (g_cols g) a = true -> nonneg_matrix a = true ->
  exists m, read_after g [AddArray a; AddClusters cs] = OArr m /\ Shape (g_rows g) (g_cols g) m /\
    forall i j, (i < g_rows g)%nat -> (j < g_cols g)%nat ->
      mget m i j == mget a i j + credit (hit_exact g) cs i j.
Proof.
  intros Hg Hs Hn.
  assert (H : forallb op_ok [AddArray a; AddClusters cs] = true).
  { unfold op_ok. simpl. rewrite Hn. reflexivity. }
  destruct (read_refines_accumulator g _ Hg H) as [m [E [S G]]].
  exists m. split; [exact E|]. split; [exact S|].
  intros i j Hi' Hj'. rewrite (G i j Hi' Hj'). unfold spec_acc, acc_of. cbn [fold_left acc_step]. rewrite Hs. ring.
Qed.

(* a cluster outside the sensitive area is credited to no pixel *)
Lemma credit_outside g cs i j :
  geom_ok g = true -> (i < g_rows g)%nat -> (j < g_cols g)%nat ->
  forallb (fun c => negb (inside g c)) cs = true -> credit (hit_exact g) cs i j == 0.
Proof.
  intros Hg Hi Hj. induction cs as [|c t IH]; simpl; intros H; [reflexivity|].
  apply andb_true_iff in H. destruct H as [Hc Ht]. rewrite (IH Ht).
  destruct (hit_exact g c i j) eqn:E; [|ring].
  apply (hit_exact_kept g c i j Hi Hj) in E. apply (kept_inside g c Hg) in E. rewrite E in Hc. discriminate.
Qed.

(* adding clusters that all lie outside the sensitive area changes no pixel, after ANY history
   (removals included); and the read is an array (no out-of-bounds access) *)
Theorem outside_adds_nothing g ops cs :
  geom_ok g = true -> forallb op_arrays_nonneg ops = true ->
  forallb (fun c => negb (inside g c)) cs = true ->
  obs_equiv g (read_after g (ops ++ [AddClusters cs])) (read_after g ops).
Proof.
  intros Hg Hok Hout.
  assert (Hok' : forallb op_arrays_nonneg (ops ++ [AddClusters cs]) = true)
    by (rewrite forallb_app, Hok; reflexivity).
  destruct (read_refines_ledger g _ Hg Hok') as [m [E [S G]]].
  destruct (read_refines_ledger g _ Hg Hok) as [m' [E' [S' G']]].
  rewrite E, E'. simpl. split; [exact S|]. split; [exact S'|].
  intros i j Hi Hj. rewrite (G i j Hi Hj), (G' i j Hi Hj).
  unfold spec_ledger. rewrite ledger_snoc. unfold ledger_step. cbn [fst removal_ids acc_step].
  rewrite (credit_outside g cs i j Hg Hi Hj Hout). ring.
Qed.

(* a removal debits exactly the clusters it takes out of the live frame, after ANY history *)
Theorem removal_subtracts g ops o ids :
  geom_ok g = true -> forallb op_arrays_nonneg ops = true -> removal_ids o = Some ids ->
  exists m m', read_after g ops = OArr m /\ read_after g (ops ++ [o]) = OArr m' /\
    Shape (g_rows g) (g_cols g) m /\ Shape (g_rows g) (g_cols g) m' /\
    forall i j, (i < g_rows g)%nat -> (j < g_cols g)%nat ->
      mget m' i j == mget m i j - credit (hit_exact g) (fcl (selected ids (frame_after g ops))) i j.
Proof.
  intros Hg Hok Hr.
  assert (Hok' : forallb op_arrays_nonneg (ops ++ [o]) = true).
  { rewrite forallb_app, Hok. destruct o; simpl in *; auto; discriminate. }
  destruct (read_refines_ledger g _ Hg Hok') as [m' [E' [S' G']]].
  destruct (read_refines_ledger g _ Hg Hok) as [m [E [S G]]].
  exists m, m'. split; [exact E|]. split; [exact E'|]. split; [exact S|]. split; [exact S'|].
  intros i j Hi Hj. rewrite (G' i j Hi Hj), (G i j Hi Hj).
  unfold spec_ledger. rewrite ledger_snoc. unfold ledger_step. cbn [fst]. rewrite Hr, ledger_state, frame_sim_ideal.
  reflexivity.
Qed.
