(* Corollaries of the refinement theorem: reset, single-cluster binning, centre round trip. *)
From Coq Require Import ZArith QArith Qround List Bool Lia Lqa Arith.
From PyxelV Require Import Model.Charge Proofs.ChargeLemmas Proofs.ChargeRefine.
Import ListNotations.
Open Scope Q_scope.

Theorem read_after_reset g ops :
  geom_ok g = true -> forallb (op_ok_in g) ops = true ->
  exists m, read_after g (ops ++ [Reset]) = OArr m /\ Shape (g_rows g) (g_cols g) m /\
    forall i j, (i < g_rows g)%nat -> (j < g_cols g)%nat -> mget m i j == 0.
Proof.
  intros Hg Hok.
  assert (H : forallb (op_ok_in g) (ops ++ [Reset]) = true) by (rewrite forallb_app, Hok; reflexivity).
  destruct (read_refines_accumulator g _ Hg H) as [m [E [S G]]].
  exists m. split; [exact E|]. split; [exact S|].
  intros i j Hi Hj. rewrite (G i j Hi Hj), spec_acc_reset. reflexivity.
Qed.

Theorem binning_single g c :
  geom_ok g = true -> inside g c = true ->
  exists m, read_after g [AddClusters [c]] = OArr m /\ Shape (g_rows g) (g_cols g) m /\
    forall i j, (i < g_rows g)%nat -> (j < g_cols g)%nat ->
      mget m i j == if (Qfloor (c_v c / g_ph g) =? Z.of_nat i)%Z && (Qfloor (c_h c / g_pw g) =? Z.of_nat j)%Z
                    then c_n c else 0.
Proof.
  intros Hg Hi.
  assert (H : forallb (op_ok_in g) [AddClusters [c]] = true).
  { unfold op_ok_in. simpl. rewrite Hi. reflexivity. }
  destruct (read_refines_accumulator g _ Hg H) as [m [E [S G]]].
  exists m. split; [exact E|]. split; [exact S|].
  intros i j Hi' Hj'. rewrite (G i j Hi' Hj'). unfold spec_acc, acc_of. cbn [fold_left acc_step credit fold_right]. unfold hit_exact, pix.
  destruct ((Qfloor (c_v c / g_ph g) =? Z.of_nat i)%Z && (Qfloor (c_h c / g_pw g) =? Z.of_nat j)%Z); ring.
Qed.

(* array -> clusters at pixel centres -> array gives the array back (non-negative entries) *)
Theorem centres_roundtrip g a cs :
  geom_ok g = true -> shape_ok (g_rows g) (g_cols g) a = true -> nonneg_matrix a = true ->
  forallb (inside g) cs = true ->
  exists m, read_after g [AddArray a; AddClusters cs] = OArr m /\ Shape (g_rows g) (g_cols g) m /\
    forall i j, (i < g_rows g)%nat -> (j < g_cols g)%nat ->
      mget m i j == mget a i j + credit (hit_exact g) cs i j.
Proof.
  intros Hg Hs Hn Hc.
  assert (H : forallb (op_ok_in g) [AddArray a; AddClusters cs] = true).
  { unfold op_ok_in. simpl. rewrite Hn, Hc. reflexivity. }
  destruct (read_refines_accumulator g _ Hg H) as [m [E [S G]]].
  exists m. split; [exact E|]. split; [exact S|].
  intros i j Hi' Hj'. rewrite (G i j Hi' Hj'). unfold spec_acc, acc_of. cbn [fold_left acc_step]. rewrite Hs. ring.
Qed.
