(* Lemmas about the building blocks of Model/Charge.v: matrices, floor binning, wraparound,
   pixel centres, credit sums. *)
From Coq Require Import ZArith QArith Qround List Bool Lia Lqa Arith.
From PyxelV Require Import Model.Charge.
Import ListNotations.
Open Scope Q_scope.

Definition Shape (r c : nat) (m : matrix) : Prop :=
  length m = r /\ Forall (fun row => length row = c) m.

Lemma shape_ok_iff r c m : shape_ok r c m = true <-> Shape r c m.
Proof.
  unfold shape_ok, Shape. rewrite andb_true_iff, Nat.eqb_eq, forallb_forall, Forall_forall.
  split; intros [H1 H2]; split; auto; intros x Hx; specialize (H2 x Hx); apply Nat.eqb_eq; auto.
Qed.

(* ---------------------------------------------------------------- upd *)

Lemma upd_length {A} (l : list A) k f : length (upd l k f) = length l.
Proof. revert k; induction l; intros [|k]; simpl; auto. Qed.

Lemma nth_upd_same {A} (l : list A) k f d : (k < length l)%nat -> nth k (upd l k f) d = f (nth k l d).
Proof. revert k; induction l; intros [|k] H; simpl in *; try lia; auto. apply IHl; lia. Qed.

Lemma nth_upd_other {A} (l : list A) k k' f d : k <> k' -> nth k' (upd l k f) d = nth k' l d.
Proof.
  revert k k'; induction l; intros [|k] [|k'] H; simpl; auto; try congruence.
Qed.

Lemma Forall_upd {A} (P : A -> Prop) (l : list A) k f :
  Forall P l -> (forall x, P x -> P (f x)) -> Forall P (upd l k f).
Proof.
  intros H Hf; revert k; induction H; intros [|k]; simpl; constructor; auto.
Qed.

Lemma Shape_row r c m i : Shape r c m -> (i < r)%nat -> length (nth i m []) = c.
Proof.
  intros [H1 H2] Hi. rewrite Forall_forall in H2. apply H2. apply nth_In. lia.
Qed.

Lemma Shape_mupd r c m i j f : Shape r c m -> Shape r c (mupd m i j f).
Proof.
  intros [H1 H2]; split; unfold mupd.
  - rewrite upd_length; auto.
  - apply Forall_upd; auto. intros x Hx. rewrite upd_length; auto.
Qed.

Lemma mget_mupd r c m i j f i' j' :
  Shape r c m -> (i < r)%nat -> (j < c)%nat ->
  mget (mupd m i j f) i' j' = if (i =? i')%nat && (j =? j')%nat then f (mget m i' j') else mget m i' j'.
Proof.
  intros HS Hi Hj. unfold mget, mupd.
  destruct (Nat.eqb_spec i i') as [->|Hne]; simpl.
  - rewrite nth_upd_same by (destruct HS; lia).
    destruct (Nat.eqb_spec j j') as [->|Hne].
    + rewrite nth_upd_same; auto. rewrite (Shape_row r c); auto.
    + rewrite nth_upd_other; auto.
  - rewrite nth_upd_other; auto.
Qed.

(* ---------------------------------------------------------------- zipw / madd *)

Lemma zipw_length {A} f (a b : list A) : length a = length b -> length (zipw f a b) = length a.
Proof. revert b; induction a; intros [|y b] H; simpl in *; try lia; auto. Qed.

Lemma nth_zipw {A} f (a b : list A) k da db d :
  length a = length b -> (k < length a)%nat -> nth k (zipw f a b) d = f (nth k a da) (nth k b db).
Proof.
  revert b k; induction a; intros [|y b] [|k] H Hk; simpl in *; try lia; auto. apply IHa; lia.
Qed.

Lemma Forall_zipw_rows c (a b : matrix) :
  Forall (fun row => length row = c) a -> Forall (fun row => length row = c) b ->
  Forall (fun row => length row = c) (zipw (zipw Qplus) a b).
Proof.
  intros Ha; revert b; induction Ha as [|x a Hx Ha IH]; intros b Hb; simpl; [constructor|].
  destruct Hb as [|y b Hy Hb]; constructor.
  - rewrite zipw_length; congruence.
  - apply IH; auto.
Qed.

Lemma Shape_madd r c a b : Shape r c a -> Shape r c b -> Shape r c (madd a b).
Proof.
  intros [H1 H2] [H3 H4]. split.
  - unfold madd. rewrite zipw_length; congruence.
  - apply Forall_zipw_rows; auto.
Qed.

Lemma mget_madd r c a b i j :
  Shape r c a -> Shape r c b -> (i < r)%nat -> (j < c)%nat ->
  mget (madd a b) i j = mget a i j + mget b i j.
Proof.
  intros Ha Hb Hi Hj. unfold mget, madd.
  rewrite (nth_zipw _ a b i [] [] []); try (destruct Ha, Hb; lia).
  rewrite (nth_zipw _ _ _ j 0 0 0); auto.
  - rewrite (Shape_row r c a), (Shape_row r c b); auto.
  - rewrite (Shape_row r c a); auto.
Qed.

(* ---------------------------------------------------------------- zeros / tabulate / predicates *)

Lemma Shape_zeros r c : Shape r c (zeros r c).
Proof.
  unfold Shape, zeros; split; [apply repeat_length|].
  apply Forall_forall; intros x Hx; apply repeat_spec in Hx; subst; apply repeat_length.
Qed.

Lemma nth_repeat_any {A} (x d : A) n k : nth k (repeat x n) d = x \/ nth k (repeat x n) d = d.
Proof. revert k; induction n; intros [|k]; simpl; auto. Qed.

Lemma mget_zeros r c i j : mget (zeros r c) i j = 0.
Proof.
  unfold mget, zeros.
  destruct (nth_repeat_any (repeat 0 c) [] r i) as [-> | ->].
  - destruct (nth_repeat_any 0 0 c j) as [-> | ->]; auto.
  - destruct j; auto.
Qed.

Lemma Shape_tabulate r c f : Shape r c (tabulate r c f).
Proof.
  unfold Shape, tabulate; split; [rewrite map_length, seq_length; auto|].
  apply Forall_forall; intros x Hx; apply in_map_iff in Hx; destruct Hx as [i [<- _]].
  rewrite map_length, seq_length; auto.
Qed.

Lemma mget_tabulate r c f i j : (i < r)%nat -> (j < c)%nat -> mget (tabulate r c f) i j = f i j.
Proof.
  intros Hi Hj. unfold mget, tabulate.
  rewrite (nth_indep _ [] (map (fun j => f 0%nat j) (seq 0 c))) by (rewrite map_length, seq_length; auto).
  rewrite (map_nth (fun i => map (fun j => f i j) (seq 0 c)) (seq 0 r) 0%nat i).
  rewrite seq_nth by auto. simpl.
  rewrite (nth_indep _ 0 (f i 0%nat)) by (rewrite map_length, seq_length; auto).
  rewrite (map_nth (fun j => f i j) (seq 0 c) 0%nat j). rewrite seq_nth by auto. reflexivity.
Qed.

Lemma forallb2_nth (P : Q -> bool) (m : matrix) i j :
  forallb (forallb P) m = true -> P 0 = true -> P (mget m i j) = true.
Proof.
  intros H H0. unfold mget. rewrite forallb_forall in H.
  destruct (lt_dec i (length m)) as [Hi|Hi].
  - specialize (H _ (nth_In m [] Hi)). rewrite forallb_forall in H.
    destruct (lt_dec j (length (nth i m []))) as [Hj|Hj].
    + apply H. apply nth_In; auto.
    + rewrite nth_overflow by lia; auto.
  - rewrite (nth_overflow m) by lia. destruct j; auto.
Qed.

Lemma all_zero_mget m i j : all_zero m = true -> mget m i j == 0.
Proof.
  intros H. apply Qeq_bool_iff.
  apply (forallb2_nth (fun x => Qeq_bool x 0) m i j H). reflexivity.
Qed.

Lemma nonneg_mget m i j : nonneg_matrix m = true -> 0 <= mget m i j.
Proof.
  intros H. apply Qle_bool_iff.
  apply (forallb2_nth (fun x => Qle_bool 0 x) m i j H). reflexivity.
Qed.

Lemma gt0_true x : gt0 x = true <-> 0 < x.
Proof.
  unfold gt0. rewrite negb_true_iff. split; intro H.
  - apply Qnot_le_lt. intro L. apply Qle_bool_iff in L. congruence.
  - destruct (Qle_bool x 0) eqn:E; auto. apply Qle_bool_iff in E. exfalso; apply (Qlt_not_le _ _ H E).
Qed.

Lemma gt0_false x : gt0 x = false <-> x <= 0.
Proof.
  unfold gt0. rewrite negb_false_iff. apply Qle_bool_iff.
Qed.

Definition pos (x : Q) : Q := if gt0 x then x else 0.

Lemma pos_nonneg x : 0 <= x -> pos x == x.
Proof.
  intros H. unfold pos. destruct (gt0 x) eqn:E; [reflexivity|].
  apply gt0_false in E. apply Qle_antisym; auto.
Qed.

Lemma geom_ok_pos g : geom_ok g = true -> 0 < g_ph g /\ 0 < g_pw g.
Proof.
  unfold geom_ok. rewrite andb_true_iff. intros [A B]. split; apply gt0_true; auto.
Qed.

(* ---------------------------------------------------------------- floor *)

Lemma Qfloor_unique x z : inject_Z z <= x -> x < inject_Z z + 1 -> Qfloor x = z.
Proof.
  intros H1 H2.
  pose proof (Qfloor_le x) as F1. pose proof (Qlt_floor x) as F2.
  assert (A : (Qfloor x < z + 1)%Z).
  { rewrite Zlt_Qlt. rewrite inject_Z_plus. eapply Qle_lt_trans; [exact F1|]. exact H2. }
  assert (B : (z < Qfloor x + 1)%Z).
  { rewrite Zlt_Qlt. eapply Qle_lt_trans; [exact H1|]. exact F2. }
  lia.
Qed.

(* a position belongs to pixel k exactly when it lies in [k*s, (k+1)*s): lower border included *)
Lemma pix_bounds s p z :
  0 < s -> (inject_Z z * s <= p /\ p < (inject_Z z + 1) * s) <-> pix s p = z.
Proof.
  intros Hs. unfold pix. split.
  - intros [H1 H2]. apply Qfloor_unique.
    + apply Qle_shift_div_l; auto.
    + apply Qlt_shift_div_r; auto.
  - intros <-.
    assert (E : p == (p / s) * s) by (field; intro Z; rewrite Z in Hs; apply (Qlt_irrefl 0 Hs)).
    pose proof (Qfloor_le (p / s)) as F1. pose proof (Qlt_floor (p / s)) as F2.
    split.
    + rewrite E at 2. apply Qmult_le_compat_r; auto. apply Qlt_le_weak; auto.
    + rewrite E at 1. rewrite inject_Z_plus in F2. apply Qmult_lt_compat_r; auto.
Qed.

Lemma pix_centre s k : 0 < s -> pix s (centre s k) = Z.of_nat k.
Proof.
  intros Hs. apply pix_bounds; auto. unfold centre.
  assert (H2 : 0 < s / 2) by (apply Qlt_shift_div_l; [reflexivity| rewrite Qmult_0_l; auto]).
  assert (H3 : s / 2 < s).
  { apply Qlt_shift_div_r; [reflexivity|]. lra. }
  split; lra.
Qed.

(* inside the sensitive area <-> index in range *)
Lemma inside_index s p n :
  0 < s -> 0 <= p -> p < inject_Z (Z.of_nat n) * s -> (0 <= pix s p < Z.of_nat n)%Z.
Proof.
  intros Hs H0 H1. unfold pix.
  assert (A : 0 <= p / s) by (apply Qle_shift_div_l; auto; lra).
  assert (B : p / s < inject_Z (Z.of_nat n)) by (apply Qlt_shift_div_r; auto).
  split.
  - change 0%Z with (Qfloor 0). apply Qfloor_resp_le; auto.
  - rewrite Zlt_Qlt. eapply Qle_lt_trans; [apply Qfloor_le|]. auto.
Qed.

(* ---------------------------------------------------------------- wrap *)

Lemma wrap_lt n k i : wrap n k = Some i -> (i < n)%nat.
Proof.
  unfold wrap.
  destruct ((0 <=? k)%Z && (k <? Z.of_nat n)%Z) eqn:E1.
  - intros [= <-]. apply andb_true_iff in E1. lia.
  - destruct ((- Z.of_nat n <=? k)%Z && (k <? 0)%Z) eqn:E2; [|discriminate].
    intros [= <-]. apply andb_true_iff in E2. lia.
Qed.

Lemma wrap_in_range n k : (0 <= k < Z.of_nat n)%Z -> wrap n k = Some (Z.to_nat k).
Proof.
  intros H. unfold wrap.
  replace ((0 <=? k)%Z && (k <? Z.of_nat n)%Z) with true; auto.
  symmetry; apply andb_true_iff; lia.
Qed.

Lemma wrap_nat n i : (i < n)%nat -> wrap n (Z.of_nat i) = Some i.
Proof. intros H. rewrite wrap_in_range by lia. rewrite Nat2Z.id; auto. Qed.

(* the mask of convert_df_to_array: a kept cluster is written inside the buffer, at its own pixel *)
Lemma in_range_iff n k : in_range n k = true <-> (0 <= k < Z.of_nat n)%Z.
Proof. unfold in_range. rewrite andb_true_iff, Z.leb_le, Z.ltb_lt. tauto. Qed.

Lemma kept_iff g c :
  kept g c = true <->
  (0 <= pix (g_ph g) (c_v c) < Z.of_nat (g_rows g))%Z /\ (0 <= pix (g_pw g) (c_h c) < Z.of_nat (g_cols g))%Z.
Proof. unfold kept. rewrite andb_true_iff, !in_range_iff. tauto. Qed.

Lemma kept_wrap g c :
  kept g c = true ->
  wrap (g_rows g) (pix (g_ph g) (c_v c)) = Some (Z.to_nat (pix (g_ph g) (c_v c))) /\
  wrap (g_cols g) (pix (g_pw g) (c_h c)) = Some (Z.to_nat (pix (g_pw g) (c_h c))).
Proof. intros H. apply kept_iff in H. destruct H. split; apply wrap_in_range; auto. Qed.

Lemma hit_exact_kept g c i j :
  (i < g_rows g)%nat -> (j < g_cols g)%nat -> hit_exact g c i j = true -> kept g c = true.
Proof.
  intros Hi Hj H. unfold hit_exact in H. apply andb_true_iff in H. destruct H as [A B].
  apply Z.eqb_eq in A, B. apply kept_iff. lia.
Qed.

Lemma inside_kept g c : geom_ok g = true -> inside g c = true -> kept g c = true.
Proof.
  intros Hg Hi. destruct (geom_ok_pos g Hg) as [P1 P2].
  unfold inside in Hi. repeat rewrite andb_true_iff in Hi. destruct Hi as [[[A B] C] D].
  apply Qle_bool_iff in A, C.
  assert (B' : c_v c < inject_Z (Z.of_nat (g_rows g)) * g_ph g).
  { apply Qnot_le_lt. intro L. apply Qle_bool_iff in L. rewrite L in B. discriminate. }
  assert (D' : c_h c < inject_Z (Z.of_nat (g_cols g)) * g_pw g).
  { apply Qnot_le_lt. intro L. apply Qle_bool_iff in L. rewrite L in D. discriminate. }
  apply kept_iff. split; apply inside_index; auto.
Qed.

(* conversely: a kept cluster lies inside the sensitive area (the mask is exactly the area) *)
Lemma kept_inside g c : geom_ok g = true -> kept g c = true -> inside g c = true.
Proof.
  intros Hg Hk. destruct (geom_ok_pos g Hg) as [P1 P2]. apply kept_iff in Hk. destruct Hk as [[A1 A2] [B1 B2]].
  destruct (proj2 (pix_bounds (g_ph g) (c_v c) _ P1) eq_refl) as [V1 V2].
  destruct (proj2 (pix_bounds (g_pw g) (c_h c) _ P2) eq_refl) as [H1 H2].
  assert (Z1 : 0 <= inject_Z (pix (g_ph g) (c_v c))) by (change 0 with (inject_Z 0); rewrite <- Zle_Qle; lia).
  assert (Z2 : 0 <= inject_Z (pix (g_pw g) (c_h c))) by (change 0 with (inject_Z 0); rewrite <- Zle_Qle; lia).
  assert (U1 : inject_Z (pix (g_ph g) (c_v c)) + 1 <= inject_Z (Z.of_nat (g_rows g))).
  { change 1 with (inject_Z 1). rewrite <- inject_Z_plus, <- Zle_Qle. lia. }
  assert (U2 : inject_Z (pix (g_pw g) (c_h c)) + 1 <= inject_Z (Z.of_nat (g_cols g))).
  { change 1 with (inject_Z 1). rewrite <- inject_Z_plus, <- Zle_Qle. lia. }
  assert (L1 : 0 <= c_v c).
  { eapply Qle_trans; [|exact V1]. apply Qmult_le_0_compat; auto. apply Qlt_le_weak; auto. }
  assert (L2 : 0 <= c_h c).
  { eapply Qle_trans; [|exact H1]. apply Qmult_le_0_compat; auto. apply Qlt_le_weak; auto. }
  assert (R1 : c_v c < inject_Z (Z.of_nat (g_rows g)) * g_ph g).
  { eapply Qlt_le_trans; [exact V2|]. apply Qmult_le_compat_r; auto. apply Qlt_le_weak; auto. }
  assert (R2 : c_h c < inject_Z (Z.of_nat (g_cols g)) * g_pw g).
  { eapply Qlt_le_trans; [exact H2|]. apply Qmult_le_compat_r; auto. apply Qlt_le_weak; auto. }
  unfold inside. repeat rewrite andb_true_iff. repeat split.
  - apply Qle_bool_iff; auto.
  - apply negb_true_iff. destruct (Qle_bool _ _) eqn:E; auto. apply Qle_bool_iff in E. exfalso; apply (Qlt_not_le _ _ R1 E).
  - apply Qle_bool_iff; auto.
  - apply negb_true_iff. destruct (Qle_bool _ _) eqn:E; auto. apply Qle_bool_iff in E. exfalso; apply (Qlt_not_le _ _ R2 E).
Qed.

(* ---------------------------------------------------------------- credit sums *)

Lemma credit_app hit a b i j : credit hit (a ++ b) i j == credit hit a i j + credit hit b i j.
Proof.
  induction a; simpl.
  - ring.
  - rewrite IHa. ring.
Qed.

Lemma credit_ext hit hit' cs i j :
  (forall c, In c cs -> hit c i j = hit' c i j) -> credit hit cs i j == credit hit' cs i j.
Proof.
  induction cs; intros H; simpl; [reflexivity|].
  rewrite (H a) by (left; auto). rewrite IHcs; [reflexivity|]. intros c Hc; apply H; right; auto.
Qed.

(* clusters masked out by `kept` are credited to no pixel of the array *)
Lemma credit_filter_kept g cs i j :
  (i < g_rows g)%nat -> (j < g_cols g)%nat ->
  credit (hit_exact g) (filter (kept g) cs) i j == credit (hit_exact g) cs i j.
Proof.
  intros Hi Hj. induction cs as [|c t IH]; simpl; [reflexivity|].
  destruct (kept g c) eqn:K; simpl.
  - rewrite IH. reflexivity.
  - rewrite IH. destruct (hit_exact g c i j) eqn:H; [|ring].
    rewrite (hit_exact_kept g c i j Hi Hj H) in K. discriminate.
Qed.

Lemma forallb_filter_id {A} (p : A -> bool) l : forallb p (filter p l) = true.
Proof. induction l; simpl; auto. destruct (p a) eqn:E; simpl; auto. rewrite E; auto. Qed.

Definition sumf {A} (h : A -> Q) (l : list A) : Q := fold_right (fun x acc => h x + acc) 0 l.

Lemma credit_flat_map hit {A} (F : A -> list cluster) l i j :
  credit hit (flat_map F l) i j == sumf (fun x => credit hit (F x) i j) l.
Proof.
  induction l; simpl; [reflexivity|]. rewrite credit_app, IHl. reflexivity.
Qed.

Lemma sumf_zero (h : nat -> Q) l : (forall x, In x l -> h x == 0) -> sumf h l == 0.
Proof.
  induction l; intros H; simpl; [reflexivity|].
  rewrite (H a) by (left; auto). rewrite IHl; [ring|]. intros x Hx; apply H; right; auto.
Qed.

Lemma sumf_single (h : nat -> Q) a n k :
  (a <= k < a + n)%nat -> (forall x, (a <= x < a + n)%nat -> x <> k -> h x == 0) ->
  sumf h (seq a n) == h k.
Proof.
  revert a; induction n; intros a Hk H; [lia|]. simpl.
  destruct (Nat.eq_dec a k) as [->|Hne].
  - rewrite sumf_zero; [ring|]. intros x Hx. apply in_seq in Hx. apply H; lia.
  - rewrite (H a) by lia. rewrite IHn; [ring|lia|]. intros x Hx Hxk. apply H; lia.
Qed.

(* ---------------------------------------------------------------- centres *)

Definition cell (g : geom) (a : matrix) (i j : nat) : list cluster :=
  let x := mget a i j in
  if gt0 x then [{| c_n := x; c_v := centre (g_ph g) i; c_h := centre (g_pw g) j |}] else [].

Lemma centres_cells g a :
  centres g a = flat_map (fun i => flat_map (fun j => cell g a i j) (seq 0 (g_cols g))) (seq 0 (g_rows g)).
Proof. reflexivity. Qed.

Lemma credit_cell g a i' j' i j :
  geom_ok g = true -> (i' < g_rows g)%nat -> (j' < g_cols g)%nat ->
  credit (hit_exact g) (cell g a i' j') i j == if (i' =? i)%nat && (j' =? j)%nat then pos (mget a i' j') else 0.
Proof.
  intros Hg Hi Hj. destruct (geom_ok_pos g Hg) as [P1 P2].
  unfold cell, pos. destruct (gt0 (mget a i' j')) eqn:E; simpl.
  - unfold hit_exact; simpl. rewrite !pix_centre by auto.
    replace ((Z.of_nat i' =? Z.of_nat i)%Z) with ((i' =? i)%nat)
      by (destruct (Nat.eqb_spec i' i); destruct (Z.eqb_spec (Z.of_nat i') (Z.of_nat i)); auto; lia).
    replace ((Z.of_nat j' =? Z.of_nat j)%Z) with ((j' =? j)%nat)
      by (destruct (Nat.eqb_spec j' j); destruct (Z.eqb_spec (Z.of_nat j') (Z.of_nat j)); auto; lia).
    destruct ((i' =? i)%nat && (j' =? j)%nat); ring.
  - destruct ((i' =? i)%nat && (j' =? j)%nat); reflexivity.
Qed.

Lemma credit_centres g a i j :
  geom_ok g = true -> (i < g_rows g)%nat -> (j < g_cols g)%nat ->
  credit (hit_exact g) (centres g a) i j == pos (mget a i j).
Proof.
  intros Hg Hi Hj. rewrite centres_cells, credit_flat_map.
  rewrite (sumf_single _ 0 (g_rows g) i) by
    (try lia; intros x Hx Hne; rewrite credit_flat_map; apply sumf_zero; intros y Hy; apply in_seq in Hy;
     rewrite credit_cell by (auto; lia);
     replace (x =? i)%nat with false by (symmetry; apply Nat.eqb_neq; auto); reflexivity).
  rewrite credit_flat_map.
  rewrite (sumf_single _ 0 (g_cols g) j).
  - rewrite credit_cell by auto. rewrite !Nat.eqb_refl. reflexivity.
  - lia.
  - intros y Hy Hne. rewrite credit_cell by (auto; lia).
    replace (y =? j)%nat with false by (symmetry; apply Nat.eqb_neq; auto). rewrite andb_false_r. reflexivity.
Qed.

Lemma centres_inside g a c :
  geom_ok g = true -> In c (centres g a) ->
  exists i j, (i < g_rows g)%nat /\ (j < g_cols g)%nat /\ c_v c = centre (g_ph g) i /\ c_h c = centre (g_pw g) j
              /\ c_n c = mget a i j /\ 0 < c_n c.
Proof.
  intros Hg H. rewrite centres_cells in H.
  apply in_flat_map in H. destruct H as [i [Hi H]]. apply in_flat_map in H. destruct H as [j [Hj H]].
  apply in_seq in Hi, Hj. unfold cell in H. destruct (gt0 (mget a i j)) eqn:E; [|destruct H].
  destruct H as [<-|[]]. exists i, j. simpl. repeat split; try lia. apply gt0_true; auto.
Qed.

(* ---------------------------------------------------------------- binning *)

(* the loop, on clusters that passed the mask: never out of bounds, each credited to its own pixel *)
Lemma bin_spec g cs : forall m,
  Shape (g_rows g) (g_cols g) m -> forallb (kept g) cs = true ->
  exists m', bin g m cs = Some m' /\ Shape (g_rows g) (g_cols g) m' /\
    forall i j, (i < g_rows g)%nat -> (j < g_cols g)%nat ->
      mget m' i j == mget m i j + credit (hit_exact g) cs i j.
Proof.
  induction cs as [|c t IH]; intros m HS HW; simpl.
  - exists m; repeat split; try apply HS. intros; ring.
  - simpl in HW. apply andb_true_iff in HW. destruct HW as [Hc Ht].
    destruct (kept_wrap g c Hc) as [E1 E2]. apply kept_iff in Hc. destruct Hc as [R1 R2].
    unfold bin1. rewrite E1, E2.
    set (i0 := Z.to_nat (pix (g_ph g) (c_v c))). set (j0 := Z.to_nat (pix (g_pw g) (c_h c))).
    assert (L1 : (i0 < g_rows g)%nat) by (unfold i0; lia).
    assert (L2 : (j0 < g_cols g)%nat) by (unfold j0; lia).
    destruct (IH (mupd m i0 j0 (fun x => x + c_n c)) (Shape_mupd _ _ _ _ _ _ HS) Ht) as [m' [B [S' G]]].
    exists m'; repeat split; auto; try apply S'.
    intros i j Hi Hj. rewrite (G i j Hi Hj).
    rewrite (mget_mupd (g_rows g) (g_cols g)) by auto.
    assert (Hh : hit_exact g c i j = (i0 =? i)%nat && (j0 =? j)%nat).
    { unfold hit_exact, i0, j0. f_equal.
      - destruct (Nat.eqb_spec (Z.to_nat (pix (g_ph g) (c_v c))) i); destruct (Z.eqb_spec (pix (g_ph g) (c_v c)) (Z.of_nat i)); auto; lia.
      - destruct (Nat.eqb_spec (Z.to_nat (pix (g_pw g) (c_h c))) j); destruct (Z.eqb_spec (pix (g_pw g) (c_h c)) (Z.of_nat j)); auto; lia. }
    cbn [credit fold_right]. fold (credit (hit_exact g) t i j). rewrite Hh.
    destruct ((i0 =? i)%nat && (j0 =? j)%nat); ring.
Qed.

(* convert_df_to_array as a whole, for ANY clusters: defined (no out-of-bounds access), of the
   detector's shape, and equal to the exact credit -- clusters outside contribute nothing *)
Lemma to_array_spec g cs :
  exists m, to_array g cs = Some m /\ Shape (g_rows g) (g_cols g) m /\
    forall i j, (i < g_rows g)%nat -> (j < g_cols g)%nat -> mget m i j == credit (hit_exact g) cs i j.
Proof.
  unfold to_array.
  destruct (bin_spec g (filter (kept g) cs) (zeros (g_rows g) (g_cols g)) (Shape_zeros _ _) (forallb_filter_id _ _))
    as [m [B [S G]]].
  exists m. split; [exact B|]. split; [exact S|].
  intros i j Hi Hj. rewrite (G i j Hi Hj), mget_zeros, credit_filter_kept by auto. ring.
Qed.

(* ---------------------------------------------------------------- renumber *)

Lemma map_snd_combine {A B} (l : list A) (l' : list B) : length l = length l' -> map snd (combine l l') = l'.
Proof. revert l'; induction l; intros [|y l'] H; simpl in *; try lia; auto. f_equal. apply IHl; lia. Qed.

Lemma fcl_renumber cs : fcl (renumber cs) = cs.
Proof. unfold fcl, renumber. apply map_snd_combine. rewrite map_length, seq_length. auto. Qed.

Lemma renumber_nil cs : renumber cs = [] -> cs = [].
Proof. intros H. rewrite <- (fcl_renumber cs), H. reflexivity. Qed.
