(* C06 — proofs over Model/Heap.v: the copy is a fresh isomorphic block, runs on copies leave every
   pre-existing location unchanged (for every sequence of runs), a run's result does not depend on
   the runs before it. *)
From Coq Require Import String ZArith List Arith Bool Lia.
From PyxelV Require Import Model.Heap.
Import ListNotations.

(* ---------------------------------------------------------------- lists *)

Lemma prefix_of_agree : forall (A : Type) (a b : list A),
  length a <= length b ->
  (forall x, x < length a -> nth_error b x = nth_error a x) ->
  b = a ++ skipn (length a) b.
Proof.
  induction a as [|h t IH]; intros b Hlen Hag; simpl.
  - reflexivity.
  - destruct b as [|h' t']; simpl in Hlen; [lia|].
    pose proof (Hag 0 ltac:(simpl; lia)) as H0. simpl in H0. inversion H0; subst.
    f_equal. apply IH. lia. intros x Hx. apply (Hag (S x)). simpl; lia.
Qed.

Lemma mem_In : forall x l, mem x l = true <-> In x l.
Proof.
  intros x l. unfold mem. rewrite existsb_exists. split.
  - intros [y [Hy E]]. apply Nat.eqb_eq in E. subst; auto.
  - intros H. exists x. split; auto. apply Nat.eqb_refl.
Qed.

Lemma index_of_lt : forall x R, In x R -> index_of x R < length R.
Proof.
  induction R as [|y t IH]; simpl; intros H; [contradiction|].
  destruct (Nat.eqb x y) eqn:E; [lia|].
  destruct H as [H|H]; [subst; rewrite Nat.eqb_refl in E; discriminate|].
  specialize (IH H). lia.
Qed.

Lemma index_of_nth : forall x R, In x R -> nth_error R (index_of x R) = Some x.
Proof.
  induction R as [|y t IH]; simpl; intros H; [contradiction|].
  destruct (Nat.eqb x y) eqn:E.
  - apply Nat.eqb_eq in E. subst. reflexivity.
  - destruct H as [H|H]; [subst; rewrite Nat.eqb_refl in E; discriminate|]. simpl. auto.
Qed.

Lemma map_flat_map : forall (A B C : Type) (g : B -> C) (f : A -> list B) (l : list A),
  map g (flat_map f l) = flat_map (fun a => map g (f a)) l.
Proof. induction l; simpl; [reflexivity|]. rewrite map_app, IHl. reflexivity. Qed.

Lemma flat_map_ext_in : forall (A B : Type) (f g : A -> list B) (l : list A),
  (forall a, In a l -> f a = g a) -> flat_map f l = flat_map g l.
Proof.
  induction l; simpl; intros H; [reflexivity|].
  rewrite H by auto. rewrite IHl; auto.
Qed.

Lemma nth_of_nth_error : forall (s : heap) x o, nth_error s x = Some o -> nth x s dummy_obj = o.
Proof. intros. apply nth_error_nth. assumption. Qed.

Lemma nth_error_lt : forall (A : Type) (s : list A) x o, nth_error s x = Some o -> x < length s.
Proof. intros. apply nth_error_Some. congruence. Qed.

(* ---------------------------------------------------------------- policy *)

Lemma lookup_mode_not_alias : forall tbl f,
  forallb (fun p => negb (is_alias (snd p))) tbl = true -> lookup_mode tbl f <> Alias.
Proof.
  unfold lookup_mode. intros tbl f H.
  destruct (find (fun p => String.eqb (fst p) f) tbl) eqn:E; [|discriminate].
  apply find_some in E. destruct E as [Hin _].
  rewrite forallb_forall in H. specialize (H _ Hin).
  destruct (snd p); simpl in H; congruence.
Qed.

Lemma policy_ok_no_alias : forall pol c f, policy_ok pol = true -> field_mode pol c f <> Alias.
Proof.
  unfold policy_ok. intros pol c f H. apply andb_true_iff in H. destruct H as [H1 H2].
  destruct c; simpl; try discriminate; auto using lookup_mode_not_alias.
Qed.

Lemma deep_refs_In : forall pol o fr,
  In fr (refs o) -> field_mode pol (ocls o) (fst fr) = Deep -> In (snd fr) (deep_refs pol o).
Proof.
  intros pol o fr Hin Hm. unfold deep_refs. apply in_map. apply filter_In. split; auto.
  rewrite Hm. reflexivity.
Qed.

(* ---------------------------------------------------------------- the copied block *)

Lemma closed_under_spec : forall pol s R x,
  closed_under pol s R = true -> In x R ->
  exists o, nth_error s x = Some o /\ forall y, In y (deep_refs pol o) -> In y R.
Proof.
  unfold closed_under. intros pol s R x H Hx. rewrite forallb_forall in H. specialize (H _ Hx).
  destruct (nth_error s x) as [o|] eqn:E; [|discriminate].
  exists o. split; auto. intros y Hy. rewrite forallb_forall in H. apply mem_In. auto.
Qed.

Lemma canon_closed : forall pol s R,
  policy_ok pol = true -> closed_under pol s R = true -> closed_graph (canon pol s R).
Proof.
  intros pol s R Hpol Hcl o f y Ho Hy.
  unfold canon, block in *. rewrite map_length.
  apply in_map_iff in Ho. destruct Ho as [x [Ho Hx]]. subst o.
  destruct (closed_under_spec _ _ _ _ Hcl Hx) as [o0 [E Hd]].
  rewrite (nth_of_nth_error _ _ _ E) in Hy. simpl in Hy.
  apply in_flat_map in Hy. destruct Hy as [fr [Hfr Hin]].
  unfold rename_ref in Hin.
  destruct (field_mode pol (ocls o0) (fst fr)) eqn:Em.
  - simpl in Hin. destruct Hin as [Hin|[]]. inversion Hin; subst.
    apply index_of_lt. apply Hd. apply deep_refs_In; auto.
  - exfalso. eapply policy_ok_no_alias; eauto.
  - contradiction.
Qed.

Lemma block_shift : forall pol s R n,
  policy_ok pol = true ->
  block pol s R (fun x => n + index_of x R) = shift n (canon pol s R).
Proof.
  intros pol s R n Hpol. unfold canon, block, shift. rewrite map_map. apply map_ext.
  intros x. unfold rename_obj, shift_obj. simpl. f_equal.
  rewrite map_flat_map. apply flat_map_ext_in. intros fr _.
  unfold rename_ref. destruct (field_mode pol (ocls (nth x s dummy_obj)) (fst fr)) eqn:Em; simpl.
  - reflexivity.
  - exfalso. eapply policy_ok_no_alias; eauto.
  - reflexivity.
Qed.

Lemma copy_set_spec : forall pol s l R,
  copy_set pol s l = Some R ->
  closed_under pol s R = true /\ nth_error R 0 = Some l /\ R <> [].
Proof.
  unfold copy_set. intros pol s l R H.
  destruct (dfs (fuel_for s) pol s [l] []) as [R0|]; [|discriminate].
  destruct (closed_under pol s R0 && Nat.eqb (index_of l R0) 0 && negb (Nat.eqb (length R0) 0)) eqn:E;
    [|discriminate].
  inversion H; subst. apply andb_true_iff in E. destruct E as [E E3].
  apply andb_true_iff in E. destruct E as [E1 E2].
  split; auto. destruct R as [|y t]; simpl in *; [discriminate|].
  split; [|discriminate].
  destruct (Nat.eqb l y) eqn:Ey; [|discriminate]. apply Nat.eqb_eq in Ey. subst. reflexivity.
Qed.

(* references of a shifted closed graph placed at [n] stay inside [n, n + |C|) *)
Lemma reach_in_block : forall s C n,
  n = length s -> closed_graph C -> C <> [] ->
  forall y, reach (s ++ shift n C) n y -> n <= y < n + length C.
Proof.
  intros s C n Hn Hc Hne y Hr. induction Hr as [|x o f y Hr IH E Hin].
  - destruct C; [congruence|]. simpl. lia.
  - subst n. rewrite nth_error_app2 in E by lia.
    apply nth_error_In in E. unfold shift in E. apply in_map_iff in E.
    destruct E as [o0 [Eo Ho0]]. subst o. simpl in Hin.
    apply in_map_iff in Hin. destruct Hin as [fr [Efr Hfr]]. inversion Efr; subst.
    pose proof (Hc o0 (fst fr) (snd fr) Ho0) as Hb.
    destruct fr as [f0 y0]; simpl in *. specialize (Hb Hfr). lia.
Qed.

(* THE COPY IS FRESH: it leaves the old heap as a prefix, sits in new locations, and nothing
   reachable from it is an old location *)
Theorem deepcopy_fresh : forall pol s l s' l',
  policy_ok pol = true -> deepcopy pol s l = Some (s', l') ->
  l' = length s /\
  (exists blk, s' = s ++ blk /\ blk <> []) /\
  (forall y, reach s' l' y -> length s <= y < length s').
Proof.
  intros pol s l s' l' Hpol H. unfold deepcopy in H.
  destruct (copy_set pol s l) as [R|] eqn:ER; [|discriminate].
  inversion H; subst; clear H.
  destruct (copy_set_spec _ _ _ _ ER) as [Hcl [H0 Hne]].
  split; [reflexivity|]. split.
  - eexists; split; [reflexivity|]. unfold block. destruct R; [congruence|]. simpl. discriminate.
  - intros y Hy. rewrite (block_shift _ _ _ _ Hpol) in *.
    assert (Hc : closed_graph (canon pol s R)) by (apply canon_closed; auto).
    assert (Hn : canon pol s R <> []) by (unfold canon, block; destruct R; [congruence|simpl; discriminate]).
    pose proof (reach_in_block s (canon pol s R) (length s) eq_refl Hc Hn y Hy) as Hb.
    rewrite app_length. unfold shift. rewrite map_length. lia.
Qed.

(* THE COPY IS ISOMORPHIC: the k-th copied object is the k-th reachable original with its
   references mapped through the renaming, which is injective on the copied set *)
Theorem deepcopy_iso : forall pol s l s' l',
  deepcopy pol s l = Some (s', l') ->
  exists R, nth_error R 0 = Some l /\
    (forall k x, nth_error R k = Some x ->
       exists o, nth_error s x = Some o /\
         nth_error s' (length s + k) =
           Some (rename_obj pol (fun y => length s + index_of y R) o)) /\
    (forall x, In x R -> nth_error R (index_of x R) = Some x) /\
    (forall x o y, In x R -> nth_error s x = Some o -> In y (deep_refs pol o) -> In y R).
Proof.
  intros pol s l s' l' H. unfold deepcopy in H.
  destruct (copy_set pol s l) as [R|] eqn:ER; [|discriminate].
  inversion H; subst; clear H.
  destruct (copy_set_spec _ _ _ _ ER) as [Hcl [H0 Hne]].
  exists R. split; auto. split; [|split].
  - intros k x Hk.
    destruct (closed_under_spec _ _ _ _ Hcl (nth_error_In _ _ Hk)) as [o [E _]].
    exists o. split; auto.
    rewrite nth_error_app2 by lia. replace (length s + k - length s) with k by lia.
    unfold block. rewrite (map_nth_error _ _ _ Hk). rewrite (nth_of_nth_error _ _ _ E). reflexivity.
  - intros x Hx. apply index_of_nth; auto.
  - intros x o y Hx E Hy. destruct (closed_under_spec _ _ _ _ Hcl Hx) as [o' [E' Hd]].
    rewrite E in E'. inversion E'; subst. auto.
Qed.

(* ---------------------------------------------------------------- the copy does not depend on the rest of the heap *)

Lemma dfs_mono : forall f pol s w sn R,
  dfs f pol s w sn = Some R -> forall f', f <= f' -> dfs f' pol s w sn = Some R.
Proof.
  induction f as [|f IH]; intros pol s w sn R H f' Hle; simpl in H; [discriminate|].
  destruct f' as [|f']; [lia|]. simpl.
  destruct w as [|x w]; auto.
  destruct (mem x sn); [apply IH with (f' := f') in H; auto; lia|].
  destruct (nth_error s x) as [o|]; [|discriminate].
  apply IH with (f' := f') in H; auto; lia.
Qed.

Lemma dfs_ext : forall f pol s ext w sn R,
  dfs f pol s w sn = Some R -> dfs f pol (s ++ ext) w sn = Some R.
Proof.
  induction f as [|f IH]; intros pol s ext w sn R H; simpl in *; [discriminate|].
  destruct w as [|x w]; auto.
  destruct (mem x sn); auto.
  destruct (nth_error s x) as [o|] eqn:E; [|discriminate].
  rewrite nth_error_app1 by (eapply nth_error_lt; eauto). rewrite E. auto.
Qed.

Lemma total_refs_app : forall a b, total_refs (a ++ b) = total_refs a + total_refs b.
Proof. induction a; simpl; intros; [reflexivity|]. rewrite IHa. lia. Qed.

Lemma closed_under_ext : forall pol s ext R,
  closed_under pol s R = true -> closed_under pol (s ++ ext) R = true.
Proof.
  unfold closed_under. intros pol s ext R H. rewrite forallb_forall in *. intros x Hx.
  specialize (H _ Hx). destruct (nth_error s x) as [o|] eqn:E; [|discriminate].
  rewrite nth_error_app1 by (eapply nth_error_lt; eauto). rewrite E. auto.
Qed.

Lemma copy_set_ext : forall pol s ext l R,
  copy_set pol s l = Some R ->
  copy_set pol (s ++ ext) l = Some R /\ canon pol (s ++ ext) R = canon pol s R.
Proof.
  intros pol s ext l R H. pose proof (copy_set_spec _ _ _ _ H) as [Hcl _].
  unfold copy_set in *.
  destruct (dfs (fuel_for s) pol s [l] []) as [R0|] eqn:ED; [|discriminate].
  destruct (closed_under pol s R0 && Nat.eqb (index_of l R0) 0 && negb (Nat.eqb (length R0) 0)) eqn:E;
    [|discriminate].
  inversion H; subst R0; clear H.
  assert (Hf : fuel_for s <= fuel_for (s ++ ext)).
  { unfold fuel_for. rewrite app_length, total_refs_app. lia. }
  rewrite (dfs_mono _ _ _ _ _ _ (dfs_ext _ _ _ ext _ _ _ ED) _ Hf).
  apply andb_true_iff in E. destruct E as [E E3]. apply andb_true_iff in E. destruct E as [E1 E2].
  rewrite (closed_under_ext _ _ ext _ E1), E2, E3. simpl. split; [reflexivity|].
  unfold canon, block. apply map_ext_in. intros x Hx.
  destruct (closed_under_spec _ _ _ _ Hcl Hx) as [o [Eo _]].
  rewrite app_nth1 by (eapply nth_error_lt; eauto). reflexivity.
Qed.

(* ---------------------------------------------------------------- runs *)

Section Frame.
  Variables (params res : Type).
  Variable run : params -> heap -> loc -> heap * res.

  (* EXTERNAL: a pipeline run (user model functions, Processor.set of the run's parameters) changes
     only objects it can reach from the processor it is given; it may allocate *)
  Hypothesis run_frame : forall ps s l, frame_ok s l (fst (run ps s l)).

  Lemma step_prefix : forall pol ps s p s2 r,
    policy_ok pol = true ->
    obs_step params res run pol Deep ps s p = Some (s2, r) -> exists ext, s2 = s ++ ext.
  Proof.
    intros pol ps s p s2 r Hpol H. unfold obs_step, site_copy in H.
    destruct (deepcopy pol s p) as [[s1 c]|] eqn:ED; [|discriminate].
    destruct (deepcopy_fresh _ _ _ _ _ Hpol ED) as [Hc [[blk [Hs1 _]] Hreach]].
    pose proof (run_frame ps s1 c) as [Hlen Hfr].
    inversion H as [Hrun]. rewrite Hrun in *. simpl in *.
    assert (Hl1 : length s <= length s1) by (subst s1; rewrite app_length; lia).
    exists (skipn (length s) s2). apply prefix_of_agree; [lia|].
    intros x Hx. rewrite Hfr; [| lia |].
    - subst s1. apply nth_error_app1. assumption.
    - intros Hr. apply Hreach in Hr. lia.
  Qed.

  (* C06_frame, generic form: after ANY sequence of runs, each on its own copy of the caller's
     processor, the caller's heap is a prefix of the final heap: every location that existed
     before (all objects reachable from the caller's detector / pipeline / readout, and every
     other one) holds exactly the object it held before *)
  Theorem observe_frame : forall pol, policy_ok pol = true ->
    forall rs s0 p sn out,
    observe params res run pol Deep rs s0 p = Some (sn, out) ->
    exists ext, sn = s0 ++ ext.
  Proof.
    intros pol Hpol. induction rs as [|ps rest IH]; intros s0 p sn out H; simpl in H.
    - inversion H; subst. exists []. rewrite app_nil_r. reflexivity.
    - destruct (obs_step params res run pol Deep ps s0 p) as [[s1 r]|] eqn:ES; [|discriminate].
      destruct (observe params res run pol Deep rest s1 p) as [[sn' out']|] eqn:EO; [|discriminate].
      inversion H; subst; clear H.
      destruct (step_prefix _ _ _ _ _ _ Hpol ES) as [e1 He1].
      destruct (IH _ _ _ _ EO) as [e2 He2]. subst. exists (e1 ++ e2). rewrite app_assoc. reflexivity.
  Qed.

  Corollary observe_frame_locs : forall pol, policy_ok pol = true ->
    forall rs s0 p sn out,
    observe params res run pol Deep rs s0 p = Some (sn, out) ->
    forall x, x < length s0 -> nth_error sn x = nth_error s0 x.
  Proof.
    intros pol Hpol rs s0 p sn out H x Hx.
    destruct (observe_frame pol Hpol _ _ _ _ _ H) as [ext He]. subst. apply nth_error_app1. assumption.
  Qed.

  (* EXTERNAL: the result of a run on a self-contained object graph is a function of that graph
     (values and sharing pattern), not of where it is allocated nor of the rest of the heap *)
  Hypothesis run_local : forall ps sa sb C, closed_graph C -> C <> [] ->
    snd (run ps (sa ++ shift (length sa) C) (length sa)) =
    snd (run ps (sb ++ shift (length sb) C) (length sb)).

  (* C06_run_equals_standalone, generic form: whatever runs came before (any number, any
     parameters, any outcome - a raising run is a run whose result is an error), the run with
     parameters [ps] returns what it returns on a copy taken from the untouched initial heap *)
  Theorem run_equals_standalone : forall pol, policy_ok pol = true ->
    forall pre ps s0 p si outs s' r0,
    observe params res run pol Deep pre s0 p = Some (si, outs) ->
    obs_step params res run pol Deep ps s0 p = Some (s', r0) ->
    exists s'', obs_step params res run pol Deep ps si p = Some (s'', r0).
  Proof.
    intros pol Hpol pre ps s0 p si outs s' r0 Hobs Hstep.
    destruct (observe_frame pol Hpol _ _ _ _ _ Hobs) as [ext He]. subst si.
    unfold obs_step, site_copy, deepcopy in *.
    destruct (copy_set pol s0 p) as [R|] eqn:ER; [|discriminate].
    destruct (copy_set_ext _ _ ext _ _ ER) as [ER' Hcan]. rewrite ER'.
    destruct (copy_set_spec _ _ _ _ ER) as [Hcl [_ Hne]].
    eexists. f_equal. apply injective_projections; [reflexivity|]. simpl.
    inversion Hstep as [Hrun].
    rewrite (block_shift pol s0 R (length s0) Hpol) in Hrun.
    rewrite (block_shift pol (s0 ++ ext) R (length (s0 ++ ext)) Hpol). rewrite Hcan.
    assert (Hc : closed_graph (canon pol s0 R)) by (apply canon_closed; auto).
    assert (Hn : canon pol s0 R <> []) by (unfold canon, block; destruct R; [congruence|simpl; discriminate]).
    rewrite (run_local ps (s0 ++ ext) s0 _ Hc Hn). rewrite Hrun. reflexivity.
  Qed.
End Frame.

(* ---------------------------------------------------------------- the concrete legal run *)

Lemma set_nth_length : forall (A : Type) n (a : A) l, length (set_nth n a l) = length l.
Proof.
  intros A n a l. unfold set_nth. rewrite app_length.
  rewrite <- (firstn_skipn n l) at 3. rewrite app_length. f_equal.
  destruct (skipn n l); reflexivity.
Qed.

Lemma set_nth_other : forall (A : Type) n (a : A) l x, x <> n -> nth_error (set_nth n a l) x = nth_error l x.
Proof.
  intros A n a. induction n as [|n IH]; intros l x Hx; unfold set_nth; simpl.
  - destruct l; [reflexivity|]. destruct x; [congruence|reflexivity].
  - destruct l as [|h t]; [reflexivity|]. destruct x; [reflexivity|]. simpl.
    apply (IH t x). congruence.
Qed.

Lemma run_touch_frame : forall k s l, frame_ok s l (fst (run_touch k s l)).
Proof.
  intros k s l. unfold run_touch, frame_ok.
  destruct (nth_error s l) as [o|] eqn:E; [|simpl; split; auto].
  destruct (refs o) as [|[f d] t] eqn:Er; [simpl; split; auto|].
  destruct (nth_error s d) as [od|] eqn:Ed; [|simpl; split; auto].
  simpl. split; [rewrite set_nth_length; lia|].
  intros x Hx Hnr. apply set_nth_other. intros ->. apply Hnr.
  eapply reach_step; [apply reach_refl | exact E | rewrite Er; left; reflexivity].
Qed.

Lemma run_touch_local : forall k sa sb C, closed_graph C -> C <> [] ->
  snd (run_touch k (sa ++ shift (length sa) C) (length sa)) =
  snd (run_touch k (sb ++ shift (length sb) C) (length sb)).
Proof.
  assert (G : forall k s C, C <> [] ->
    snd (run_touch k (s ++ shift (length s) C) (length s)) =
    match C with
    | o0 :: _ => match refs o0 with
                 | (_, d) :: _ => match nth_error C d with Some od => (payload od + k)%Z | None => 0%Z end
                 | [] => 0%Z
                 end
    | [] => 0%Z
    end).
  { intros k s C Hne. destruct C as [|o0 C']; [congruence|]. unfold run_touch.
    rewrite nth_error_app2 by lia. rewrite Nat.sub_diag. simpl.
    destruct (refs o0) as [|[f d] t]; simpl; [reflexivity|].
    rewrite nth_error_app2 by lia. replace (length s + d - length s) with d by lia.
    change (shift_obj (length s) o0 :: shift (length s) C') with (shift (length s) (o0 :: C')).
    unfold shift. rewrite nth_error_map.
    destruct (nth_error (o0 :: C') d) as [od|]; simpl; reflexivity. }
  intros k sa sb C _ Hne. rewrite (G k sa C Hne), (G k sb C Hne). reflexivity.
Qed.

Lemma sites_ok_In : forall sites s m, sites_ok sites = true -> In (s, m) sites -> m = Deep.
Proof.
  unfold sites_ok. intros sites s m H Hin. rewrite forallb_forall in H. specialize (H _ Hin).
  simpl in H. destruct m; simpl in H; congruence.
Qed.

Lemma run_param_frame2 : forall d s l, frame2_ok s l d (fst (run_param d s l)).
Proof.
  intros d s l. unfold run_param, frame2_ok.
  destruct (nth_error s d) as [od|] eqn:Ed; [|simpl; split; auto].
  simpl. split; [rewrite set_nth_length; lia|].
  intros x Hx _ Hnr. apply set_nth_other. intros ->. apply Hnr. apply reach_refl.
Qed.
