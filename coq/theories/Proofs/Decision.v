(* Proofs about the three walks of the calibration decision vector (C10), for every element type and
   every list of variables (induction over the variable list, no bound). *)
From Coq Require Import List Bool Arith String Lia.
From PyxelV Require Import Model.Decision.
Import ListNotations.
Local Open Scope nat_scope.

Section Proofs.
  Context {A : Type}.
  Variable flog fexp : A -> A.
  Variable logdom : A -> bool.

  Notation var := (@var A).
  Notation bounds_walk := (@bounds_walk A flog logdom).
  Notation bounds_from := (@bounds_from A flog logdom).
  Notation var_bounds := (@var_bounds A flog logdom).
  Notation var_lower := (@var_lower A flog).
  Notation var_upper := (@var_upper A flog).
  Notation var_accept := (@var_accept A flog logdom).
  Notation convert_walk := (@convert_walk A fexp).
  Notation convert_from := (@convert_from A fexp).
  Notation sconvert := (@sconvert A fexp).
  Notation var_convert := (@var_convert A fexp).
  Notation logs := (@logs A flog).

  (* ------------------------------------------------------------------ small list facts *)

  Lemma slice_app_skip {B} (a b : list B) n w : n = List.length a -> slice n w (a ++ b) = slice 0 w b.
  Proof.
    intros ->. unfold slice. rewrite skipn_app, skipn_all, Nat.sub_diag. reflexivity.
  Qed.

  Lemma slice_shift {B} (a b : list B) n w : slice (List.length a + n) w (a ++ b) = slice n w b.
  Proof.
    unfold slice. rewrite skipn_app.
    rewrite (skipn_all2 a) by lia. simpl.
    replace (List.length a + n - List.length a) with n by lia. reflexivity.
  Qed.

  Lemma slice_head {B} (a b : list B) : slice 0 (List.length a) (a ++ b) = a.
  Proof.
    unfold slice. simpl. rewrite firstn_app, Nat.sub_diag, firstn_all. simpl. apply app_nil_r.
  Qed.

  Lemma skipn_skipn' {B} a : forall b (l : list B), skipn a (skipn b l) = skipn (b + a) l.
  Proof.
    induction b as [|b IH]; intros l; simpl; [reflexivity|].
    destruct l; [apply skipn_nil|apply IH].
  Qed.

  Lemma map_repeat' {X Y} (f : X -> Y) x n : map f (repeat x n) = repeat (f x) n.
  Proof. induction n; simpl; congruence. Qed.

  Lemma logs_length b l : List.length (logs b l) = List.length l.
  Proof. destruct b; simpl; [apply map_length | reflexivity]. Qed.

  Lemma var_convert_length v s : List.length (var_convert v s) = List.length s.
  Proof. unfold Decision.var_convert. destruct (islog v); [apply map_length | reflexivity]. Qed.

  (* ------------------------------------------------------------------ offsets partition [0, total) *)

  Lemma offset_0 (vs : list var) : offset vs 0 = 0.
  Proof. reflexivity. Qed.

  Lemma offset_S (vs : list var) k v :
    nth_error vs k = Some v -> offset vs (S k) = offset vs k + width v.
  Proof.
    unfold offset. revert k. induction vs as [|u r IH]; intros [|k] H; simpl in *; try discriminate.
    - inversion H; subst. lia.
    - rewrite (IH k H). lia.
  Qed.

  Lemma offset_all (vs : list var) : offset vs (List.length vs) = total vs.
  Proof. unfold offset. rewrite firstn_all. reflexivity. Qed.

  Lemma offset_le_total (vs : list var) k v :
    nth_error vs k = Some v -> offset vs k + width v <= total vs.
  Proof.
    unfold offset. revert k. induction vs as [|u r IH]; intros [|k] H; simpl in *; try discriminate.
    - inversion H; subst. lia.
    - specialize (IH k H). lia.
  Qed.

  (* component j belongs to variable k  <->  off_k <= j < off_k + w_k   (so the slices are disjoint,
     contiguous, in declaration order, and cover exactly [0, total)) *)
  Lemma owner_spec (vs : list var) j k :
    owner vs j = Some k <->
    exists v, nth_error vs k = Some v /\ offset vs k <= j < offset vs k + width v.
  Proof.
    unfold offset. revert j k. induction vs as [|u r IH]; intros j k; simpl.
    - split; [discriminate|]. intros (v & H & _). destruct k; discriminate.
    - destruct (j <? width u) eqn:E.
      + apply Nat.ltb_lt in E. split.
        * intros H; inversion H; subst. exists u. simpl. split; [reflexivity|lia].
        * intros (v & H & Hr). destruct k; [reflexivity|]. simpl in Hr. lia.
      + apply Nat.ltb_ge in E. split.
        * intros H. destruct (owner r (j - width u)) as [k'|] eqn:O; simpl in H; [|discriminate].
          inversion H; subst. apply IH in O. destruct O as (v & Hn & Hr).
          exists v. simpl. split; [exact Hn|lia].
        * intros (v & H & Hr). destruct k as [|k']; simpl in *.
          -- inversion H; subst. lia.
          -- assert (O : owner r (j - width u) = Some k').
             { apply IH. exists v. split; [exact H|lia]. }
             rewrite O. reflexivity.
  Qed.

  Lemma owner_none (vs : list var) j : owner vs j = None <-> total vs <= j.
  Proof.
    revert j. induction vs as [|u r IH]; intros j; simpl.
    - split; [lia|reflexivity].
    - destruct (j <? width u) eqn:E.
      + apply Nat.ltb_lt in E. split; [discriminate|lia].
      + apply Nat.ltb_ge in E. destruct (owner r (j - width u)) eqn:O; simpl.
        * split; [discriminate|]. intros H. assert (total r <= j - width u) by lia.
          apply IH in H0. congruence.
        * split; [|reflexivity]. intros _. apply IH in O. lia.
  Qed.

  (* ------------------------------------------------------------------ bounds walk *)

  Lemma var_bounds_spec v lo hi :
    pv_ok v = true -> var_bounds v = Some (lo, hi) ->
    lo = var_lower v /\ hi = var_upper v /\ List.length (declared v) = width v.
  Proof.
    unfold Decision.var_bounds, Decision.var_lower, Decision.var_upper, declared, pv_ok, width.
    destruct v as [k sh lg b]; simpl. destruct b as [|l h|l]; destruct sh as [n|]; simpl; try discriminate.
    - intros _ H. inversion H; subst. rewrite !map_repeat'. simpl. rewrite repeat_length. auto.
    - intros _. destruct lg; simpl.
      + destruct (logdom l && logdom h); [|discriminate]. intros H; inversion H; auto.
      + intros H; inversion H; auto.
    - intros E H. apply Nat.eqb_eq in E. inversion H; subst. auto.
  Qed.

  Lemma bounds_from_spec vs : forall l0 u0 lb ub,
    bounds_from l0 u0 vs = Some (lb, ub) ->
    lb = l0 ++ List.concat (map var_lower vs) /\ ub = u0 ++ List.concat (map var_upper vs) /\
    Forall (fun v => var_accept v = true /\ List.length (declared v) = width v) vs.
  Proof.
    induction vs as [|v r IH]; intros l0 u0 lb ub H; simpl in *.
    - inversion H; subst. rewrite !app_nil_r. auto.
    - destruct (pv_ok v) eqn:P; [|discriminate].
      destruct (var_bounds v) as [[lo hi]|] eqn:B; [|discriminate].
      destruct (var_bounds_spec v lo hi P B) as (-> & -> & L).
      apply IH in H. destruct H as (-> & -> & F).
      rewrite <- !app_assoc. repeat split; auto. constructor; auto.
      split; auto. unfold Decision.var_accept. rewrite P, B. reflexivity.
  Qed.

  Lemma bounds_from_none vs : forall l0 u0,
    bounds_from l0 u0 vs = None <-> Exists (fun v => var_accept v = false) vs.
  Proof.
    induction vs as [|v r IH]; intros l0 u0; simpl.
    - split; [discriminate|]. intros H; inversion H.
    - unfold Decision.var_accept at 1. destruct (pv_ok v) eqn:P; simpl.
      + destruct (var_bounds v) as [[lo hi]|] eqn:B.
        * rewrite IH. split; [intros H; right; exact H|].
          intros H. inversion H; subst; [|assumption].
          unfold Decision.var_accept in H1. rewrite P, B in H1. discriminate.
        * split; [|reflexivity]. intros _. left. unfold Decision.var_accept. rewrite P, B. reflexivity.
      + split; [|reflexivity]. intros _. left. unfold Decision.var_accept. rewrite P. reflexivity.
  Qed.

  Lemma concat_lower_length (vs : list var) :
    Forall (fun v => List.length (declared v) = width v) vs ->
    List.length (List.concat (map var_lower vs)) = total vs /\
    List.length (List.concat (map var_upper vs)) = total vs.
  Proof.
    induction 1 as [|v r Hv _ IH]; simpl; [auto|].
    destruct IH as [H1 H2]. rewrite !app_length, H1, H2.
    unfold Decision.var_lower, Decision.var_upper.
    rewrite !logs_length, !map_length, Hv. split; reflexivity.
  Qed.

  (* slice k of a concatenation of per-variable blocks is block k *)
  Lemma slice_concat {B} (f : var -> list B) (vs : list var) k v :
    Forall (fun v => List.length (f v) = width v) vs ->
    nth_error vs k = Some v ->
    slice (offset vs k) (width v) (List.concat (map f vs)) = f v.
  Proof.
    unfold offset. intros F. revert k. induction F as [|u r Hu _ IH]; intros [|k] H; simpl in *; try discriminate.
    - inversion H; subst. rewrite <- Hu. apply slice_head.
    - rewrite <- Hu. rewrite slice_shift. apply IH. exact H.
  Qed.

  (* ------------------------------------------------------------------ conversion walk *)

  Lemma map_range_from f : forall (q : list A) i s t, s <= i ->
    map_range f s t i q = map f (firstn (t - i) q) ++ skipn (t - i) q.
  Proof.
    induction q as [|x r IH]; intros i s t Hs; simpl.
    - rewrite firstn_nil, skipn_nil. reflexivity.
    - assert (Es : (s <=? i) = true) by (apply Nat.leb_le; exact Hs). rewrite Es. simpl.
      destruct (i <? t) eqn:E.
      + apply Nat.ltb_lt in E. replace (t - i) with (S (t - S i)) by lia. simpl.
        rewrite (IH (S i) s t) by lia. reflexivity.
      + apply Nat.ltb_ge in E. replace (t - i) with 0 by lia. simpl.
        rewrite (IH (S i) s t) by lia. replace (t - S i) with 0 by lia. reflexivity.
  Qed.

  Lemma map_range_pre f : forall (pre q : list A) i s t, s = i + List.length pre ->
    map_range f s t i (pre ++ q) = pre ++ map_range f s t s q.
  Proof.
    induction pre as [|x r IH]; intros q i s t Hs; simpl in *.
    - replace s with i by lia. reflexivity.
    - assert (Es : (s <=? i) = false) by (apply Nat.leb_gt; lia). rewrite Es. simpl.
      rewrite (IH q (S i) s t) by lia. reflexivity.
  Qed.

  Lemma map_range_slice f (pre q : list A) b :
    map_range f (List.length pre) (List.length pre + b) 0 (pre ++ q)
    = pre ++ map f (firstn b q) ++ skipn b q.
  Proof.
    rewrite map_range_pre by lia. rewrite map_range_from by lia.
    replace (List.length pre + b - List.length pre) with b by lia. reflexivity.
  Qed.

  Lemma convert_from_spec (vs : list var) : forall pre q,
    total vs <= List.length q ->
    convert_from (List.length pre) vs (pre ++ q) = pre ++ sconvert vs q.
  Proof.
    induction vs as [|v r IH]; intros pre q H; simpl in *; [reflexivity|].
    set (b := width v) in *.
    assert (Hb : List.length (firstn b q) = b) by (rewrite firstn_length; lia).
    assert (Hs : total r <= List.length (skipn b q)) by (rewrite skipn_length; lia).
    unfold Decision.var_convert. destruct (islog v).
    - rewrite map_range_slice.
      replace (pre ++ map fexp (firstn b q) ++ skipn b q)
        with ((pre ++ map fexp (firstn b q)) ++ skipn b q) by (rewrite app_assoc; reflexivity).
      replace (List.length pre + b) with (List.length (pre ++ map fexp (firstn b q)))
        by (rewrite app_length, map_length; lia).
      rewrite IH by exact Hs. rewrite <- app_assoc. reflexivity.
    - replace (pre ++ q) with ((pre ++ firstn b q) ++ skipn b q)
        by (rewrite <- app_assoc, firstn_skipn; reflexivity).
      replace (List.length pre + b) with (List.length (pre ++ firstn b q)) by (rewrite app_length; lia).
      rewrite IH by exact Hs. rewrite <- app_assoc. reflexivity.
  Qed.

  Lemma convert_walk_spec (vs : list var) x :
    total vs <= List.length x -> convert_walk vs x = sconvert vs x.
  Proof. intros H. apply (convert_from_spec vs [] x H). Qed.

  Lemma sconvert_length (vs : list var) : forall q, List.length (sconvert vs q) = List.length q.
  Proof.
    induction vs as [|v r IH]; intros q; simpl; [reflexivity|].
    rewrite app_length, var_convert_length, IH, <- app_length, firstn_skipn. reflexivity.
  Qed.

  Lemma sconvert_slice (vs : list var) : forall q k v,
    total vs <= List.length q -> nth_error vs k = Some v ->
    slice (offset vs k) (width v) (sconvert vs q) = var_convert v (slice (offset vs k) (width v) q).
  Proof.
    unfold offset. induction vs as [|u r IH]; intros q [|k] v H Hn; simpl in *; try discriminate.
    - inversion Hn; subst.
      assert (Hb : List.length (firstn (width v) q) = width v) by (rewrite firstn_length; lia).
      rewrite <- (var_convert_length v) in Hb. rewrite <- Hb at 1. rewrite slice_head.
      unfold slice. simpl. reflexivity.
    - assert (Hb : List.length (firstn (width u) q) = width u) by (rewrite firstn_length; lia).
      rewrite <- (var_convert_length u) in Hb. rewrite <- Hb at 1. rewrite slice_shift.
      rewrite IH; [|rewrite skipn_length; lia|exact Hn].
      f_equal. unfold slice. rewrite skipn_skipn'. reflexivity.
  Qed.

  (* pointwise: component j is exponentiated iff it lies in the slice of a logarithmic variable *)
  Lemma sconvert_nth (vs : list var) : forall q j,
    total vs <= List.length q ->
    nth_error (sconvert vs q) j =
    if is_log_comp vs j then option_map fexp (nth_error q j) else nth_error q j.
  Proof.
    unfold is_log_comp. induction vs as [|u r IH]; intros q j H; simpl in *; [reflexivity|].
    assert (Hb : List.length (firstn (width u) q) = width u) by (rewrite firstn_length; lia).
    destruct (j <? width u) eqn:E.
    - apply Nat.ltb_lt in E. simpl.
      rewrite nth_error_app1 by (rewrite var_convert_length; lia).
      assert (Hq : nth_error (firstn (width u) q) j = nth_error q j).
      { rewrite <- (firstn_skipn (width u) q) at 2. rewrite nth_error_app1 by lia. reflexivity. }
      unfold Decision.var_convert. destruct (islog u).
      + rewrite nth_error_map, Hq. reflexivity.
      + exact Hq.
    - apply Nat.ltb_ge in E.
      rewrite nth_error_app2 by (rewrite var_convert_length; lia).
      rewrite var_convert_length, Hb.
      rewrite IH by (rewrite skipn_length; lia).
      assert (Hq : nth_error (skipn (width u) q) (j - width u) = nth_error q j).
      { rewrite <- (firstn_skipn (width u) q) at 2. rewrite nth_error_app2 by lia.
        rewrite Hb. reflexivity. }
      rewrite Hq. destruct (owner r (j - width u)); reflexivity.
  Qed.

  (* ------------------------------------------------------------------ assignment walk *)

  Lemma assign_from_spec (vs : list var) : forall pre q,
    total vs <= List.length q ->
    assign_from (List.length pre) vs (pre ++ q) = sassign vs q.
  Proof.
    induction vs as [|v r IH]; intros pre q H; simpl in *; [reflexivity|].
    unfold var_value, width in *. destruct (shape v) as [n|] eqn:S.
    - assert (Hb : List.length (firstn n q) = n) by (rewrite firstn_length; lia).
      replace (slice (List.length pre) n (pre ++ q)) with (firstn n q)
        by (rewrite (slice_app_skip pre q); reflexivity).
      replace (pre ++ q) with ((pre ++ firstn n q) ++ skipn n q) at 1
        by (rewrite <- app_assoc, firstn_skipn; reflexivity).
      replace (List.length pre + n) with (List.length (pre ++ firstn n q)) by (rewrite app_length; lia).
      rewrite IH by (rewrite skipn_length; lia).
      destruct (sassign r (skipn n q)); reflexivity.
    - destruct q as [|x q']; simpl in H; [lia|].
      rewrite nth_error_app2 by lia. rewrite Nat.sub_diag. simpl.
      replace (pre ++ x :: q') with ((pre ++ [x]) ++ q') by (rewrite <- app_assoc; reflexivity).
      replace (List.length pre + 1) with (List.length (pre ++ [x])) by (rewrite app_length; simpl; lia).
      rewrite IH by lia. destruct (sassign r q'); reflexivity.
  Qed.

  Lemma assign_walk_spec (vs : list var) p :
    total vs <= List.length p -> assign_walk vs p = sassign vs p.
  Proof. intros H. apply (assign_from_spec vs [] p H). Qed.

  Lemma sassign_total (vs : list var) : forall q,
    total vs <= List.length q ->
    exists asg, sassign vs q = Some asg /\ map fst asg = map key vs /\
                flat_all asg = firstn (total vs) q.
  Proof.
    induction vs as [|v r IH]; intros q H; simpl in *.
    - exists []. auto.
    - destruct (IH (skipn (width v) q)) as (asg & E & K & Fl); [rewrite skipn_length; lia|].
      rewrite E. unfold var_value, width in *. destruct (shape v) as [n|] eqn:S.
      + eexists. split; [reflexivity|]. split; [simpl; congruence|].
        unfold flat_all in *. simpl. rewrite Fl.
        rewrite <- (firstn_skipn n q) at 3.
        assert (Hb : List.length (firstn n q) = n) by (rewrite firstn_length; lia).
        rewrite firstn_app, Hb. rewrite (@firstn_all2 _ (n + total r) (firstn n q)) by lia.
        replace (n + total r - n) with (total r) by lia. reflexivity.
      + destruct q as [|x q']; simpl in *; [lia|]. destruct q'; simpl.
        * eexists. split; [reflexivity|]. split; [simpl; congruence|].
          unfold flat_all in *. simpl. rewrite Fl. reflexivity.
        * eexists. split; [reflexivity|]. split; [simpl; congruence|].
          unfold flat_all in *. simpl. rewrite Fl. reflexivity.
  Qed.

  Lemma sassign_nth (vs : list var) : forall q asg k v,
    total vs <= List.length q -> sassign vs q = Some asg -> nth_error vs k = Some v ->
    exists val, var_value v (slice (offset vs k) (width v) q) = Some val /\
                nth_error asg k = Some (key v, val).
  Proof.
    unfold offset. induction vs as [|u r IH]; intros q asg [|k] v H E Hn; simpl in *; try discriminate.
    - inversion Hn; subst.
      destruct (var_value v (firstn (width v) q)) as [a|] eqn:V; [|discriminate].
      destruct (sassign r (skipn (width v) q)); [|discriminate].
      inversion E; subst. exists a. split; [exact V|reflexivity].
    - destruct (var_value u (firstn (width u) q)) as [a|]; [|discriminate].
      destruct (sassign r (skipn (width u) q)) as [l|] eqn:E'; [|discriminate].
      inversion E; subst. simpl.
      destruct (IH (skipn (width u) q) l k v) as (val & V & N); auto; [rewrite skipn_length; lia|].
      exists val. split; [|exact N].
      unfold slice in *. rewrite skipn_skipn' in V. exact V.
  Qed.

  (* ------------------------------------------------------------------ the property-level lemmas *)

  (* C10_walks_agree *)
  Lemma walks_agree (vs : list var) lb ub x :
    bounds_walk vs = Some (lb, ub) -> List.length x = List.length lb ->
    List.length lb = total vs /\ List.length ub = total vs /\
    List.length (convert_walk vs x) = total vs /\
    exists asg, applied fexp vs x = Some asg /\ List.length asg = List.length vs /\
      forall k v, nth_error vs k = Some v ->
        let off := offset vs k in let w := width v in
        off + w <= total vs /\
        offset vs (S k) = off + w /\
        slice off w lb = var_lower v /\
        slice off w ub = var_upper v /\
        slice off w (convert_walk vs x) = var_convert v (slice off w x) /\
        exists val, var_value v (slice off w (convert_walk vs x)) = Some val /\
                    nth_error asg k = Some (key v, val).
  Proof.
    intros B Lx. apply bounds_from_spec in B. simpl in B. destruct B as (-> & -> & F).
    assert (F' : Forall (fun v => List.length (declared v) = width v) vs).
    { eapply Forall_impl; [|exact F]. simpl. intros a [_ H]; exact H. }
    destruct (concat_lower_length vs F') as [Ll Lu].
    assert (Hx : total vs <= List.length x) by lia.
    assert (Hc : total vs <= List.length (convert_walk vs x)).
    { rewrite convert_walk_spec by exact Hx. rewrite sconvert_length. exact Hx. }
    split; [exact Ll|]. split; [exact Lu|].
    split; [rewrite convert_walk_spec by exact Hx; rewrite sconvert_length; lia|].
    unfold applied. rewrite assign_walk_spec by exact Hc.
    destruct (sassign_total vs (convert_walk vs x) Hc) as (asg & E & K & _).
    exists asg. split; [exact E|].
    split; [rewrite <- (map_length fst asg), K, map_length; reflexivity|].
    intros k v Hn. cbv zeta.
    split; [apply offset_le_total; exact Hn|].
    split; [apply offset_S; exact Hn|].
    split.
    { apply slice_concat; [|exact Hn]. eapply Forall_impl; [|exact F']. simpl. intros a Ha.
      unfold Decision.var_lower. rewrite logs_length, map_length. exact Ha. }
    split.
    { apply slice_concat; [|exact Hn]. eapply Forall_impl; [|exact F']. simpl. intros a Ha.
      unfold Decision.var_upper. rewrite logs_length, map_length. exact Ha. }
    split.
    { rewrite convert_walk_spec by exact Hx. apply sconvert_slice; assumption. }
    eapply sassign_nth; eauto.
  Qed.

  (* C10_log_only_on_log_slices *)
  Lemma log_only_on_log_slices (vs : list var) x :
    total vs <= List.length x ->
    List.length (convert_walk vs x) = List.length x /\
    forall j, nth_error (convert_walk vs x) j =
              if is_log_comp vs j then option_map fexp (nth_error x j) else nth_error x j.
  Proof.
    intros H. rewrite convert_walk_spec by exact H. split; [apply sconvert_length|].
    intros j. apply sconvert_nth. exact H.
  Qed.

  (* C10_reported_is_applied *)
  Lemma reported_is_applied (vs : list var) x :
    List.length x = total vs ->
    exists asg, applied fexp vs x = Some asg /\
                map fst asg = map key vs /\
                flat_all asg = reported fexp vs x.
  Proof.
    intros Lx. unfold applied, reported.
    assert (Hx : total vs <= List.length x) by lia.
    assert (Lc : List.length (convert_walk vs x) = total vs).
    { rewrite convert_walk_spec by exact Hx. rewrite sconvert_length. exact Lx. }
    rewrite assign_walk_spec by lia.
    destruct (sassign_total vs (convert_walk vs x)) as (asg & E & K & Fl); [lia|].
    exists asg. split; [exact E|]. split; [exact K|].
    rewrite Fl. apply firstn_all2. lia.
  Qed.

  (* refusal: the constructor rejects exactly the declarations with an unacceptable variable *)
  Lemma bounds_walk_refuses (vs : list var) :
    bounds_walk vs = None <-> Exists (fun v => var_accept v = false) vs.
  Proof. apply bounds_from_none. Qed.

  Lemma bounds_walk_accepts (vs : list var) lb ub :
    bounds_walk vs = Some (lb, ub) ->
    lb = List.concat (map var_lower vs) /\ ub = List.concat (map var_upper vs) /\
    Forall (fun v => var_accept v = true /\ List.length (declared v) = width v) vs.
  Proof. intros H. apply bounds_from_spec in H. exact H. Qed.

End Proofs.
