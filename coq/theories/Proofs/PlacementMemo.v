(* Proofs about Model/Memo.v (C20): when is a memoised load fresh?
   - with a key that ignores the file's content, a load is fresh as long as no file is rewritten
     after it has been loaded (for every history, any cache size, any memoised function);
   - without memoisation every load is fresh. *)
From Coq Require Import ZArith List Bool Lia String.
From PyxelV Require Import Model.Placement Model.Memo Proofs.Placement.
Import ListNotations.
Open Scope Z_scope.

Lemma kval_eqb_eq a b : kval_eqb a b = true -> a = b.
Proof.
  destruct a as [x|x|[x|]|x|[x1 x2]], b as [y|y|[y|]|y|[y1 y2]]; simpl; try discriminate; intros H.
  - apply Z.eqb_eq in H. subst. reflexivity.
  - apply String.eqb_eq in H. subst. reflexivity.
  - apply String.eqb_eq in H. subst. reflexivity.
  - reflexivity.
  - apply Bool.eqb_prop in H. subst. reflexivity.
  - apply andb_prop in H. destruct H as [H1 H2].
    apply Z.eqb_eq in H1. apply Z.eqb_eq in H2. subst. reflexivity.
Qed.

Lemma key_eqb_fields q1 q2 l :
  key_eqb (key_of l q1) (key_of l q2) = true -> forall f, In f l -> field q1 f = field q2 f.
Proof.
  induction l as [|g l IH]; simpl; intros H f Hf; [contradiction|].
  apply andb_prop in H. destruct H as [H1 H2]. destruct Hf as [<-|Hf].
  - apply kval_eqb_eq. exact H1.
  - apply IH; assumption.
Qed.

Lemma In_firstn {A} (x : A) n l : In x (firstn n l) -> In x l.
Proof. revert l; induction n; intros [|y l]; simpl; try tauto. intros [H|H]; auto. Qed.

Lemma cache_get_In c k v :
  cache_get c k = Some v -> exists k', In (k', v) c /\ key_eqb k' k = true.
Proof.
  induction c as [|[k' v'] c IH]; simpl; [discriminate|].
  destruct (key_eqb k' k) eqn:E.
  - intros [= <-]. exists k'. auto.
  - intros H. destruct (IH H) as [k'' [H1 H2]]. exists k''. auto.
Qed.

Section MemoProofs.
Variable fitf : content -> request -> option mat.
Variable maxsize : nat.
Variable kf : list key_field.
Hypothesis complete : key_complete kf = true.

Lemma complete_all f : In f kf.
Proof.
  unfold key_complete in complete. rewrite forallb_forall in complete.
  assert (Hf : In f all_fields) by (destruct f; simpl; auto 10).
  specialize (complete f Hf). apply existsb_exists in complete. destruct complete as [x [Hx E]].
  destruct f, x; try discriminate; exact Hx.
Qed.

Lemma key_inj q1 q2 : key_eqb (key_of kf q1) (key_of kf q2) = true -> q1 = q2.
Proof.
  intros H. pose proof (key_eqb_fields q1 q2 kf H) as F.
  pose proof (F KShape (complete_all _)) as F1. pose proof (F KFile (complete_all _)) as F2.
  pose proof (F KPosX (complete_all _)) as F3. pose proof (F KPosY (complete_all _)) as F4.
  pose proof (F KAlign (complete_all _)) as F5. pose proof (F KAllow (complete_all _)) as F6.
  destruct q1, q2; simpl in *. congruence.
Qed.

(* every cached value is what the call would compute from the file as it is now *)
Definition cache_fresh (fs : fs_t) (loaded : list string) (c : cache_t) : Prop :=
  forall k v, In (k, v) c ->
    exists q, key_of kf q = k /\ In (q_file q) loaded /\ compute fitf fs q = Some v.

Theorem memo_fresh_if_no_rewrite h : forall st loaded,
  cache_fresh (st_fs st) loaded (st_cache st) -> no_rewrite loaded h = true ->
  run fitf true maxsize kf st h = fresh_run fitf (st_fs st) h.
Proof.
  induction h as [|[p c|q|p] h IH]; intros st loaded CF NR; simpl in *; [reflexivity| | |].
  - apply andb_prop in NR. destruct NR as [NP NR].
    apply (IH {| st_fs := fs_put (st_fs st) p c; st_cache := st_cache st |} loaded); simpl; [|exact NR].
    intros k v Hin. destruct (CF k v Hin) as [q [E1 [E2 E3]]]. exists q. repeat split; simpl; auto.
    unfold compute, fs_put in *. simpl. destruct (String.eqb p (q_file q)) eqn:E; [|exact E3].
    apply String.eqb_eq in E. subst p. exfalso.
    apply negb_true_iff in NP. assert (existsb (String.eqb (q_file q)) loaded = true).
    { apply existsb_exists. exists (q_file q). split; [exact E2|apply String.eqb_refl]. }
    congruence.
  - unfold do_load. destruct (cache_get (st_cache st) (key_of kf q)) as [v|] eqn:G.
    + destruct (cache_get_In _ _ _ G) as [k' [Hin Hk]].
      destruct (CF k' v Hin) as [q' [E1 [E2 E3]]]. subst k'. apply key_inj in Hk. subst q'.
      rewrite E3. f_equal.
      apply (IH {| st_fs := st_fs st; st_cache := cache_touch (st_cache st) (key_of kf q) v |} (q_file q :: loaded)); simpl; [|exact NR].
      intros k v' [H|H].
      * injection H as <- <-. exists q. repeat split; simpl; auto.
      * unfold cache_drop in H. apply filter_In in H. destruct H as [H _].
        destruct (CF k v' H) as [q2 [A1 [A2 A3]]]. exists q2. repeat split; simpl; auto.
    + destruct (compute fitf (st_fs st) q) as [v|] eqn:C.
      * f_equal.
        apply (IH {| st_fs := st_fs st; st_cache := cache_insert maxsize (st_cache st) (key_of kf q) v |} (q_file q :: loaded)); simpl; [|exact NR].
        intros k v' H. unfold cache_insert in H. apply In_firstn in H. destruct H as [H|H].
        -- injection H as <- <-. exists q. repeat split; simpl; auto.
        -- destruct (CF k v' H) as [q2 [A1 [A2 A3]]]. exists q2. repeat split; simpl; auto.
      * f_equal. apply (IH st (q_file q :: loaded)); [|exact NR].
        intros k v' H. destruct (CF k v' H) as [q2 [A1 [A2 A3]]]. exists q2. repeat split; simpl; auto.
  - f_equal. apply (IH st loaded); assumption.
Qed.

End MemoProofs.

Theorem unmemoised_fresh fitf maxsize kf h : forall st,
  run fitf false maxsize kf st h = fresh_run fitf (st_fs st) h.
Proof.
  induction h as [|[p c|q|p] h IH]; intros st; simpl; [reflexivity| | |].
  - apply IH.
  - f_equal. apply IH.
  - f_equal. apply IH.
Qed.

Corollary memo_fresh_from_start fitf maxsize kf h :
  key_complete kf = true -> no_rewrite [] h = true ->
  run fitf true maxsize kf mstate0 h = fresh_run fitf [] h.
Proof.
  intros HC NR. apply (memo_fresh_if_no_rewrite fitf maxsize kf HC h mstate0 []); [|exact NR].
  intros k v [].
Qed.

(* ---------------------------------------------------------------- memoising on the arguments goes stale *)

Lemma kval_eqb_refl a : kval_eqb a a = true.
Proof.
  destruct a as [x|x|[x|]|x|[x1 x2]]; simpl.
  - apply Z.eqb_refl.
  - apply String.eqb_refl.
  - apply String.eqb_refl.
  - reflexivity.
  - destruct x; reflexivity.
  - rewrite !Z.eqb_refl. reflexivity.
Qed.

Lemma key_eqb_refl k : key_eqb k k = true.
Proof. induction k as [|a k IH]; simpl; [reflexivity|]. rewrite kval_eqb_refl, IH. reflexivity. Qed.

(* whatever fields of the ARGUMENTS form the key and whatever the cache size (>= 1): rewriting the file between two
   identical requests makes the second one return the first content, as soon as the function distinguishes the two
   contents at all *)
Theorem memo_on_arguments_stale fitf maxsize kf p c1 c2 q v1 v2 :
  (1 <= maxsize)%nat -> q_file q = p -> fitf c1 q = Some v1 -> fitf c2 q = Some v2 -> v1 <> v2 ->
  run fitf true maxsize kf mstate0 [Write p c1; Load q; Write p c2; Load q]
  <> fresh_run fitf [] [Write p c1; Load q; Write p c2; Load q].
Proof.
  intros M P F1 F2 NE. subst p. cbn [run fresh_run]. unfold do_load. cbn [st_cache st_fs mstate0 cache_get].
  unfold compute. cbn [fs_put fs_get st_fs]. rewrite String.eqb_refl, F1, F2.
  cbn [st_cache st_fs]. unfold cache_insert. destruct maxsize as [|m]; [inversion M|].
  cbn [firstn cache_get]. rewrite key_eqb_refl.
  intros H. injection H as H. apply NE. exact H.
Qed.

(* ---------------------------------------------------------------- loads place the current content *)

Lemma fs_put_wf fs p c :
  (forall p' c', fs_get fs p' = Some c' -> wf_content c' = true) -> wf_content c = true ->
  forall p' c', fs_get (fs_put fs p c) p' = Some c' -> wf_content c' = true.
Proof.
  intros H W p' c'. unfold fs_put. cbn [fs_get]. destruct (String.eqb p p').
  - intros [= <-]. exact W.
  - apply H.
Qed.

(* in a well-formed history every load through the placement function returns what the SPECIFICATION says of the
   content the file holds at that moment *)
Theorem fresh_run_meets_spec algn names :
  (forall kw ax ay ox oy, algn kw ax ay ox oy = doc_align kw ax ay ox oy) ->
  (forall s, lookup_kw names s = lookup_kw doc_names s) ->
  forall h fs, (forall p c, fs_get fs p = Some c -> wf_content c = true) -> wf_history h = true ->
    fresh_run (fit_of algn names) fs h = fresh_run spec_fit_of fs h.
Proof.
  intros HA HN. induction h as [|[p c|q|p] h IH]; intros fs WF WH; cbn [fresh_run wf_history] in *.
  - reflexivity.
  - apply andb_prop in WH. destruct WH as [W1 W2]. apply IH; [|exact W2]. apply fs_put_wf; assumption.
  - apply andb_prop in WH. destruct WH as [W1 W2]. rewrite (IH fs WF W2). f_equal.
    unfold compute. destruct (fs_get fs (q_file q)) as [[[ay ax] a]|] eqn:G; [|reflexivity].
    specialize (WF _ _ G). unfold wf_content in WF. unfold wf_request in W1. apply andb_prop in W1.
    destruct W1 as [Q1 Q2]. apply Z.leb_le in Q1. apply Z.leb_le in Q2.
    unfold fit_of, spec_fit_of.
    pose proof (fit_meets_spec algn names ay ax a (fst (q_shape q)) (snd (q_shape q)) (q_py q, q_px q)
                               (q_align q) (q_allow q) WF Q1 Q2 HA HN) as M.
    destruct (fit_into_array algn names ay ax a (fst (q_shape q)) (snd (q_shape q)) (q_py q, q_px q)
                             (q_align q) (q_allow q)); rewrite M; reflexivity.
  - rewrite (IH fs WF WH). reflexivity.
Qed.
