(* C01 — the state-passing execution (Model/PipelineExec.v) makes exactly the calls of the closed-form
   trace and leaves the pipeline object exactly as `age` says: for all pipelines, every complete
   duplicate-free order, every number of readout steps. *)
From Coq Require Import List String ZArith Bool Arith PeanoNat Lia.
From PyxelV Require Import Model.Pipeline Model.PipelineHist Model.PipelineExec.
From PyxelV Require Import Proofs.Pipeline Proofs.PipelineSpec Proofs.PipelineHist.
Import ListNotations.
Open Scope list_scope.

Lemma age_mfun_name a m : name (age_mfun a m) = name m.
Proof. unfold age_mfun. destruct (enabled m && grows m); reflexivity. Qed.

Lemma age_mfun_enabled a m : enabled (age_mfun a m) = enabled m.
Proof. unfold age_mfun. destruct (enabled m && grows m); reflexivity. Qed.

(* an enabled model that has already been called a times: it receives what the closed form says, and
   the call leaves it as after a+1 calls *)
Lemma age_mfun_args a m : enabled m = true -> args (age_mfun a m) = recv a m.
Proof.
  intro E. unfold age_mfun, recv. rewrite E. simpl. destruct (grows m); reflexivity.
Qed.

Lemma touch_age a m : enabled m = true -> touch (age_mfun a m) = age_mfun (S a) m.
Proof.
  intro E. unfold touch, age_mfun. rewrite E. simpl. destruct (grows m) eqn:G; simpl.
  - rewrite G. reflexivity.
  - rewrite G. reflexivity.
Qed.

Lemma age_mfun_disabled a m : enabled m = false -> age_mfun a m = m.
Proof. intro E. unfold age_mfun. rewrite E. reflexivity. Qed.

Lemma exec_models_age a g ms : forall k,
  exec_models a g k (map (age_mfun a) ms) = (tr_models a g k ms, map (age_mfun (S a)) ms).
Proof.
  induction ms as [|m ms IH]; intro k; simpl; [reflexivity|].
  rewrite IH. rewrite age_mfun_enabled. destruct (enabled m) eqn:E; simpl.
  - rewrite touch_age by exact E. unfold mk_call. rewrite age_mfun_name, age_mfun_args by exact E. reflexivity.
  - rewrite !age_mfun_disabled by exact E. reflexivity.
Qed.

Lemma get_age_by f p g : get (age_by f p) g = option_map (map (age_mfun (f g))) (get p g).
Proof. destruct g; reflexivity. Qed.

Lemma age_by_ext f f' p :
  (forall g, get p g <> None -> f g = f' g) -> age_by f p = age_by f' p.
Proof.
  intro H. apply pipeline_ext. intro g. rewrite !get_age_by.
  destruct (get p g) eqn:E; [|reflexivity]. rewrite H; [reflexivity|]. rewrite E. discriminate.
Qed.

Lemma age_by_const a p : age_by (fun _ => a) p = age a p.
Proof. apply pipeline_ext. intro g. rewrite get_age_by. unfold age. rewrite get_map_groups. reflexivity. Qed.

Lemma set_group_age_by f p g ms a' :
  get p g = Some ms ->
  set_group (age_by f p) g (Some (map (age_mfun a') ms)) =
  age_by (fun g' => if group_eqb g' g then a' else f g') p.
Proof.
  intro E. apply pipeline_ext. intro g'. rewrite get_age_by.
  destruct (group_eqb g' g) eqn:Eg.
  - apply group_eqb_eq in Eg. subst g'. rewrite get_set_group_same, E. reflexivity.
  - rewrite get_set_group_other; [apply get_age_by|].
    intro; subst. rewrite group_eqb_refl in Eg. discriminate.
Qed.

Definition inb (g : group) (l : list group) : bool := existsb (group_eqb g) l.

Lemma inb_In g l : inb g l = true <-> In g l.
Proof.
  unfold inb. rewrite existsb_exists. split.
  - intros (x & Hx & E). apply group_eqb_eq in E. subst. exact Hx.
  - intro H. exists g. split; [exact H|apply group_eqb_refl].
Qed.

(* one pass of Processor.run_pipeline over the groups of `order`, each of which has been run a times:
   the calls of the closed form, and those groups have now been run a+1 times *)
Lemma exec_groups_age a p : forall order f,
  NoDup order -> (forall g, In g order -> f g = a) ->
  exec_groups order (age_by f p) a =
  (tr_groups order p a, age_by (fun g => if inb g order then S a else f g) p).
Proof.
  induction order as [|g order IH]; intros f ND Hf; simpl.
  - f_equal.
  - inversion ND as [|? ? Hg ND']; subst.
    rewrite get_age_by. unfold tr_group at 1.
    destruct (get p g) as [ms|] eqn:E; simpl.
    + rewrite (Hf g) by (simpl; auto). rewrite exec_models_age. simpl.
      rewrite (set_group_age_by f p g ms (S a) E).
      rewrite IH; [|exact ND'|].
      * simpl. unfold tr_groups. f_equal. apply age_by_ext. intros g' _.
        destruct (group_eqb g' g) eqn:Eg; simpl.
        -- destruct (inb g' order); reflexivity.
        -- reflexivity.
      * intros g' Hg'. rewrite group_eqb_neq; [apply Hf; simpl; auto|].
        intro; subst. contradiction.
    + rewrite IH; [|exact ND'|intros g' Hg'; apply Hf; simpl; auto].
      unfold tr_groups. f_equal. apply age_by_ext. intros g' Hne.
      destruct (group_eqb g' g) eqn:Eg; simpl; [|reflexivity].
      apply group_eqb_eq in Eg. subst. contradiction.
Qed.

Lemma exec_steps_age order p :
  NoDup order -> (forall g, In g order) ->
  forall n a,
    exec_steps order (age a p) (seq a n) = (flat_map (tr_groups order p) (seq a n), age (a + n) p).
Proof.
  intros ND All. induction n as [|n IH]; intro a; simpl.
  - rewrite Nat.add_0_r. reflexivity.
  - rewrite <- (age_by_const a p). rewrite exec_groups_age; [|exact ND|reflexivity]. simpl.
    assert (E : age_by (fun g => if inb g order then S a else a) p = age (S a) p).
    { rewrite <- age_by_const. apply age_by_ext. intros g _.
      replace (inb g order) with true; [reflexivity|]. symmetry. apply inb_In. apply All. }
    rewrite E, IH. simpl. f_equal. f_equal. lia.
Qed.

Lemma age_zero p : age 0 p = p.
Proof.
  apply pipeline_ext. intro g. unfold age. rewrite get_map_groups.
  destruct (get p g) as [ms|]; [|reflexivity]. simpl. f_equal. apply map_id_in.
  intros m _. unfold age_mfun. destruct (enabled m && grows m); [|reflexivity]. destruct m; reflexivity.
Qed.

(* THE EXECUTION THEOREM: running the object p itself for n readout steps, each call receiving what is
   stored at that moment and each in-place change staying stored, makes exactly the calls of the
   closed-form trace and leaves the object as `age n p` *)
Lemma exec_readouts_closed order p n :
  order_okb order = true ->
  exec_readouts order p n = (tr_readouts order p n, age n p).
Proof.
  intro OK. destruct (order_okb_sound order OK) as [ND All].
  unfold exec_readouts, tr_readouts. rewrite <- (age_zero p) at 1.
  rewrite (exec_steps_age order p ND All n 0). reflexivity.
Qed.
