(* C05 (extension) -- the run index and the index tuple of the product space determine each other:
   `rank` and `unrank` of Model/ParamSpace.v are mutually inverse on the product space of any
   dimensions, so two different runs of spec_product never carry the same index tuple and every
   in-bounds tuple is the tuple of exactly one run.  Unbounded: any number of parameters, any
   lengths.  No axioms. *)
From Coq Require Import ZArith List Bool Arith String Lia.
From PyxelV Require Import Model.ParamSpace Proofs.ParamSpace.
Import ListNotations.
Local Notation length := List.length (only parsing).

Lemma rank_unrank : forall dims n, n < list_prod dims -> rank dims (unrank dims n) = n.
Proof.
  induction dims as [|d ds IH]; intros n Hn; simpl in *.
  - lia.
  - assert (Hp : list_prod ds <> 0) by (intros E; rewrite E in Hn; lia).
    rewrite IH by (apply Nat.mod_upper_bound; exact Hp).
    pose proof (Nat.div_mod n (list_prod ds) Hp) as E. lia.
Qed.

Lemma rank_lt : forall dims ix, Forall2 lt ix dims -> rank dims ix < list_prod dims.
Proof.
  intros dims ix H. induction H as [|i d is ds Hi Hrest IH]; simpl; [lia|].
  assert (i * list_prod ds + list_prod ds <= d * list_prod ds).
  { replace (i * list_prod ds + list_prod ds) with (S i * list_prod ds) by lia.
    apply Nat.mul_le_mono_r. lia. }
  lia.
Qed.

Lemma unrank_rank : forall dims ix, Forall2 lt ix dims -> unrank dims (rank dims ix) = ix.
Proof.
  intros dims ix H. induction H as [|i d is ds Hi Hrest IH]; simpl; [reflexivity|].
  pose proof (rank_lt _ _ Hrest) as Hlt.
  assert (Hp : list_prod ds <> 0) by lia.
  rewrite (Nat.add_comm (i * list_prod ds)).
  rewrite Nat.div_add by exact Hp. rewrite Nat.mod_add by exact Hp.
  rewrite Nat.div_small by exact Hlt. rewrite Nat.mod_small by exact Hlt.
  simpl. f_equal. exact IH.
Qed.

(* two runs of the product space with the same index tuple are the same run *)
Theorem unrank_injective : forall dims n m,
  n < list_prod dims -> m < list_prod dims -> unrank dims n = unrank dims m -> n = m.
Proof.
  intros dims n m Hn Hm E.
  rewrite <- (rank_unrank dims n Hn), <- (rank_unrank dims m Hm), E. reflexivity.
Qed.

(* every in-bounds index tuple is the tuple of exactly one run, namely run number `rank dims ix` *)
Theorem spec_product_index_unique : forall en ix,
  Forall2 lt ix (map plen en) ->
  exists r, In r (spec_product en) /\ r_index r = ix /\ r_run_index r = rank (map plen en) ix /\
            forall r', In r' (spec_product en) -> r_index r' = ix -> r_run_index r' = r_run_index r.
Proof.
  intros en ix H. unfold spec_product.
  set (dims := map plen en) in *.
  pose proof (rank_lt _ _ H) as Hlt. pose proof (unrank_rank _ _ H) as Hur.
  eexists. split; [|split; [|split]].
  - apply in_map_iff. exists (rank dims ix). split; [reflexivity|]. apply in_seq. lia.
  - simpl. exact Hur.
  - reflexivity.
  - intros r' Hin Hix. apply in_map_iff in Hin. destruct Hin as [n [<- Hn]]. apply in_seq in Hn.
    simpl in *. apply (unrank_injective dims); [lia|exact Hlt|]. rewrite Hur. exact Hix.
Qed.

(* the same for the run list as coded (Model.product_runs), under distinct keys *)
Lemma product_runs_index_unique : forall ps ix,
  NoDup (map p_key (enabled ps)) ->
  Forall2 lt ix (map plen (enabled ps)) ->
  exists r, In r (product_runs ps) /\ r_index r = ix /\
            r_run_index r = rank (map plen (enabled ps)) ix /\
            forall r', In r' (product_runs ps) -> r_index r' = ix -> r_run_index r' = r_run_index r.
Proof.
  intros ps ix Hk H. rewrite (product_runs_spec ps Hk). apply spec_product_index_unique. exact H.
Qed.

(* the product space is empty exactly when some dimension is empty (no hypothesis on the keys) *)
Lemma list_prod_zero_iff : forall dims, list_prod dims = 0 <-> In 0 dims.
Proof.
  induction dims as [|d ds IH]; simpl.
  - split; [discriminate | intros []].
  - rewrite Nat.eq_mul_0, IH. split; intros [H|H]; auto.
Qed.

Lemma product_runs_empty_iff : forall ps,
  product_runs ps = [] <-> exists p, In p (enabled ps) /\ plen p = 0.
Proof.
  intros ps. rewrite product_runs_closed.
  split.
  - intros H. apply (f_equal (@List.length run)) in H. rewrite map_length, seq_length in H. simpl in H.
    apply list_prod_zero_iff in H. apply in_map_iff in H. destruct H as [p [Hp Hin]]. eauto.
  - intros [p [Hin Hp]].
    assert (E : list_prod (map plen (enabled ps)) = 0).
    { apply list_prod_zero_iff. rewrite <- Hp. apply in_map. exact Hin. }
    rewrite E. reflexivity.
Qed.

(* non-vacuity: a 2 x 3 space *)
Example rank_unrank_2x3 :
  map (fun n => rank [2;3] (unrank [2;3] n)) (seq 0 6) = seq 0 6 /\ unrank [2;3] 4 = [1;1].
Proof. split; reflexivity. Qed.

Print Assumptions rank_unrank.
Print Assumptions unrank_rank.
Print Assumptions unrank_injective.
Print Assumptions spec_product_index_unique.
Print Assumptions product_runs_empty_iff.
