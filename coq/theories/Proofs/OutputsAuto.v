(* C19, part 5: automatic numbering (apply_run_number with run_number=None): the name built from the
   largest trailing number found by the glob, plus the step of the source, is not among the names found. *)
From Coq Require Import List Bool Arith Lia String Ascii DecimalString DecimalNat.
From PyxelV Require Import Model.Outputs Proofs.OutputsDir.
Import ListNotations.
Open Scope string_scope.

Lemma digits_val_uint : forall u acc,
  digits_val (NilEmpty.string_of_uint u) acc = Some (Nat.of_uint_acc u acc).
Proof.
  induction u; intro acc; simpl; try reflexivity;
    rewrite IHu; rewrite Nat.tail_mul_spec; f_equal; f_equal; lia.
Qed.

Lemma digits_val_dec : forall n, digits_val (dec n) 0 = Some n.
Proof.
  intro n. unfold dec. rewrite digits_val_uint.
  change (Nat.of_uint_acc (Nat.to_uint n) 0) with (Nat.of_uint (Nat.to_uint n)).
  now rewrite Unsigned.of_to.
Qed.

Lemma trailing_number_dec : forall n, trailing_number (dec n) = Some n.
Proof.
  intro n. pose proof (digits_val_dec n) as H.
  destruct (dec n) as [|c r] eqn:E.
  - simpl in H. injection H as <-. vm_compute in E. discriminate E.
  - simpl. simpl in H. rewrite H. reflexivity.
Qed.

Lemma get_number_dec : forall n, get_number (dec n) = n.
Proof. intro n. unfold get_number. now rewrite trailing_number_dec. Qed.

Lemma le_fold_max : forall l x, In x l -> x <= fold_right Nat.max 0 l.
Proof.
  induction l as [|y r IH]; intros x H; [contradiction|]. simpl.
  destruct H as [<-|H]; [lia | apply IH in H; lia].
Qed.

(* the automatically numbered name is never one of the names the glob found *)
Theorem auto_fresh : forall A mids, 1 <= a_step A -> ~ In (auto_mid A mids) mids.
Proof.
  intros A mids St Hin. unfold auto_mid, next_number in Hin.
  destruct mids as [|m0 rest] eqn:E; [contradiction|]. rewrite <- E in *. clear E m0 rest.
  set (mx := fold_right Nat.max 0 (map get_number mids)) in *.
  assert (L : get_number (dec (mx + a_step A)) <= mx).
  { apply le_fold_max. apply in_map. exact Hin. }
  rewrite get_number_dec in L. lia.
Qed.

(* ... and it is the smallest step above every number in use: nothing numbered above it exists *)
Theorem auto_above_all : forall A mids m, In m mids -> mids <> [] ->
  get_number m < next_number A mids \/ a_step A = 0.
Proof.
  intros A mids m Hin Ne. unfold next_number. destruct mids as [|m0 rest] eqn:E; [contradiction|].
  rewrite <- E in *. pose proof (le_fold_max _ _ (in_map get_number _ _ Hin)) as L.
  destruct (a_step A); [right; reflexivity | left; lia].
Qed.
