(* C02 — the detector as an object that lives across runs (Model/Exposure.v, 5a and [run_readout_st],
   [scenario_st], [session]): the object-level run, which reads the clock from the ReadoutProperties object
   the detector carries and writes it back through the public setters, refines the functional model of a
   run ([run_readout] / [scenario]) provided Detector.set_readout always installs a NEW ReadoutProperties
   built from the readout it is given.  Hence every run of every session, with arbitrary tampering of the
   detector in between, has exactly the outcome of the same scenario on a blank detector. *)
From Coq Require Import QArith ZArith List Bool Lia.
From PyxelV Require Import Model.Exposure Proofs.Exposure.
Import ListNotations.

Section Session.
  Variable A : Type.
  Variable zero : A.
  Variable G : guard_table.
  Variable E : empty_table.

  (* the loop over the object only ever reads start_time / non_destructive / num_steps of the object it
     was started with (the three per-step stores do not touch them) *)
  Lemma obj_loop_refines : forall prog tss i p d,
    fst (obj_loop A zero E prog i tss p d)
    = run_loop A zero E prog (rp_nd p) (rp_start p) (rp_num p) i tss d.
  Proof.
    intros prog. induction tss as [|[t st] tss IH]; intros i p d; [reflexivity|].
    cbn [obj_loop run_loop].
    specialize (IH (i + 1)%Z (rp_tick p t st i)
                   (det_extract A E (prog (rp_clock (rp_tick p t st i))
                                          (det_empty A zero E (loop_reset (e_loop_reset E) (rp_nd (rp_tick p t st i))) d)))).
    destruct (obj_loop A zero E prog (i + 1)%Z tss (rp_tick p t st i)
                (det_extract A E (prog (rp_clock (rp_tick p t st i))
                                       (det_empty A zero E (loop_reset (e_loop_reset E) (rp_nd (rp_tick p t st i))) d))))
      as [os fin] eqn:El.
    cbn [fst] in *. rewrite IH. reflexivity.
  Qed.

  Lemma rp_init_fields : forall ro p, rp_init G ro = Some p ->
    exists ts, r_times ro = R1 ts /\ guards_pass (g_rp G) (r_start ro) (R1 ts) = true
               /\ rp_times p = ts /\ rp_steps p = steps (r_start ro) ts
               /\ rp_num p = Z.of_nat (length (steps (r_start ro) ts))
               /\ rp_start p = r_start ro /\ rp_nd p = r_nd ro.
  Proof.
    intros ro p H. unfold rp_init in H. destruct (r_times ro) as [ts|]; [|discriminate].
    destruct (guards_pass (g_rp G) (r_start ro) (R1 ts)) eqn:Hg; [|discriminate].
    injection H as <-. exists ts. repeat split; try reflexivity. exact Hg.
  Qed.

  Lemma rp_init_none : forall ro, rp_init G ro = None ->
    forall prog d0, run_readout A zero G E ro prog d0 = Rejected 2.
  Proof.
    intros ro H prog d0. unfold rp_init in H. unfold run_readout.
    destruct (r_times ro) as [ts|]; [|reflexivity].
    destruct (guards_pass (g_rp G) (r_start ro) (R1 ts)); [discriminate|reflexivity].
  Qed.

  (* one run on a detector in ANY state = the functional model of the run on the detector's buckets *)
  Lemma run_readout_st_new : forall ro prog st,
    fst (run_readout_st A zero G E SRAlwaysNew ro prog st) = run_readout A zero G E ro prog (ds_det st).
  Proof.
    intros ro prog st. unfold run_readout_st.
    assert (Hs : set_readout G SRAlwaysNew (ds_rp st) ro = rp_init G ro) by (destruct (ds_rp st); reflexivity).
    rewrite Hs. destruct (rp_init G ro) as [p|] eqn:Hp.
    - destruct (rp_init_fields ro p Hp) as [ts [Ht [Hg [H1 [H2 [H3 [H4 H5]]]]]]].
      pose proof (obj_loop_refines prog (combine (rp_times p) (rp_steps p)) 0%Z p
                                   (det_init A zero E (ds_det st))) as Hr.
      destruct (obj_loop A zero E prog 0%Z (combine (rp_times p) (rp_steps p)) p
                         (det_init A zero E (ds_det st))) as [os fin].
      cbn [fst] in *. rewrite Hr. unfold run_readout. rewrite Ht, Hg, H1, H2, H3, H4, H5. reflexivity.
    - cbn [fst]. symmetry. apply rp_init_none. exact Hp.
  Qed.

  Lemma scenario_st_new : forall f r s nd ops prog st,
    fst (scenario_st A zero G E SRAlwaysNew f r s nd ops prog st)
    = scenario A zero G E f r s nd ops prog (ds_det st).
  Proof.
    intros f r s nd ops prog st. unfold scenario_st, scenario.
    destruct (ctor G f r s nd) as [ro|]; [|reflexivity].
    destruct (apply_ops G ro ops) as [ro'|]; [|reflexivity].
    apply run_readout_st_new.
  Qed.

  (* an invalid run is refused whatever the detector carries, and leaves it as it was *)
  Lemma scenario_st_invalid : rp_complete_nan G = true ->
    forall f r s nd ops prog st,
    ~ ro_valid (final r s nd ops) ->
    exists stage, scenario_st A zero G E SRAlwaysNew f r s nd ops prog st = (Rejected stage, st).
  Proof.
    intros HG f r s nd ops prog st Hnv. unfold scenario_st.
    destruct (ctor G f r s nd) as [ro|] eqn:Hc; [|eexists; reflexivity].
    apply ctor_some in Hc. subst ro.
    destruct (apply_ops G _ ops) as [ro'|] eqn:Ha; [|eexists; reflexivity].
    apply apply_ops_some in Ha. subst ro'. exists 2%Z. unfold run_readout_st.
    assert (Hs : forall prev ro, set_readout G SRAlwaysNew prev ro = rp_init G ro) by (intros [p|] ro; reflexivity).
    rewrite Hs. fold (final r s nd ops).
    destruct (rp_init G (final r s nd ops)) as [p|] eqn:Hp; [|reflexivity].
    exfalso. destruct (rp_init_fields _ p Hp) as [ts [Ht [Hg _]]].
    pose proof (run_invalid A zero G E HG (final r s nd ops) prog (ds_det st) Hnv) as Hr.
    unfold run_readout in Hr. rewrite Ht, Hg in Hr. discriminate Hr.
  Qed.

  Hypothesis HE : empty_table_ok E = true.
  Hypothesis HN : g_ndarray G = true.

  (* ... and that does not depend on the buckets either: the outcome of a run is a function of the run's own
     readout and models, whatever state (buckets, ReadoutProperties object) the detector is in *)
  Lemma scenario_st_no_leak : forall f r s nd ops prog st st',
    fst (scenario_st A zero G E SRAlwaysNew f r s nd ops prog st)
    = fst (scenario_st A zero G E SRAlwaysNew f r s nd ops prog st').
  Proof.
    intros. rewrite !scenario_st_new. apply scenario_no_leak. exact HE.
  Qed.

  Definition run_alone (r : run_spec A) : outcome A :=
    scenario A zero G E (rs_form r) (rs_raw r) (rs_start r) (rs_nd r) (rs_ops r) (rs_prog r) (blank A).

  (* every run of a session behaves as if it were the only run ever made, on a blank detector *)
  Lemma session_no_leak : forall runs st,
    session A zero G E SRAlwaysNew runs st = map run_alone runs.
  Proof.
    induction runs as [|r runs IH]; intros st; [reflexivity|].
    cbn [session map].
    pose proof (scenario_st_new (rs_form r) (rs_raw r) (rs_start r) (rs_nd r) (rs_ops r) (rs_prog r)
                                (rs_tamper r st)) as H1.
    destruct (scenario_st A zero G E SRAlwaysNew (rs_form r) (rs_raw r) (rs_start r) (rs_nd r) (rs_ops r)
                          (rs_prog r) (rs_tamper r st)) as [o st'].
    cbn [fst] in H1. rewrite H1, IH. f_equal.
    unfold run_alone. apply scenario_no_leak. exact HE.
  Qed.

  Lemma session_nth : forall runs st k r, nth_error runs k = Some r ->
    nth_error (session A zero G E SRAlwaysNew runs st) k = Some (run_alone r).
  Proof.
    intros runs st k r H. rewrite session_no_leak. rewrite nth_error_map, H. reflexivity.
  Qed.

  (* the clock of every step of every valid run of a session *)
  Lemma session_clock : forall runs st k r,
    nth_error runs k = Some r ->
    valid_scenario (rs_raw r) (rs_start r) (rs_nd r) (rs_ops r) ->
    exists qs s0 trace,
      r_times (final (rs_raw r) (rs_start r) (rs_nd r) (rs_ops r)) = R1 (map TQ qs)
      /\ r_start (final (rs_raw r) (rs_start r) (rs_nd r) (rs_ops r)) = TQ s0
      /\ nth_error (session A zero G E SRAlwaysNew runs st) k = Some (Ran trace)
      /\ length trace = length qs
      /\ forall i o, nth_error trace i = Some o ->
           c_time (o_clock o) = TQ (nth i qs 0)
           /\ c_step (o_clock o) = TQ (nth i qs 0 - nth i (s0 :: qs) 0)
           /\ c_abs (o_clock o) = TQ (s0 + nth i qs 0)
           /\ c_count (o_clock o) = Z.of_nat i
           /\ c_first (o_clock o) = Nat.eqb i 0
           /\ c_last (o_clock o) = Nat.eqb (S i) (length qs).
  Proof.
    intros runs st k r Hk Hv.
    destruct (st_runs A zero G E HN (rs_form r) _ _ _ _ (rs_prog r) (blank A) Hv) as [qs [s0 [H1 [H2 [H3 H4]]]]].
    destruct (st_clock A zero G E HN (rs_form r) _ _ _ _ (rs_prog r) (blank A) Hv)
      as [qs' [s0' [trace [H1' [H2' [H4' Hc]]]]]].
    rewrite H1 in H1'. injection H1' as Hq.
    assert (Hqq : qs' = qs).
    { clear -Hq. revert qs' Hq. induction qs as [|a qs IH]; intros [|b qs'] H; try discriminate; [reflexivity|].
      simpl in H. injection H as Ha Hr. subst b. f_equal. apply IH. exact Hr. }
    subst qs'. rewrite H2 in H2'. injection H2' as <-.
    exists qs, s0, trace. split; [exact H1|]. split; [exact H2|]. split.
    - rewrite (session_nth runs st k r Hk). unfold run_alone. rewrite H4'. reflexivity.
    - split; [|exact Hc].
      rewrite H4 in H4'. injection H4' as <-. rewrite trace_length, map_length. reflexivity.
  Qed.

  (* the buckets at the start of every step of every valid run of a session *)
  Lemma session_step_start : forall runs st k r,
    nth_error runs k = Some r ->
    valid_scenario (rs_raw r) (rs_start r) (rs_nd r) (rs_ops r) ->
    exists trace,
      nth_error (session A zero G E SRAlwaysNew runs st) k = Some (Ran trace)
      /\ forall i o, nth_error trace i = Some o ->
           scene (o_begin o) = None /\ photon (o_begin o) = None /\ charge (o_begin o) = None
           /\ cframe (o_begin o) = None
           /\ signal (o_begin o) = None /\ image (o_begin o) = None
           /\ pixel (o_begin o) =
              match i with
              | O => Some zero
              | S j => if r_nd (final (rs_raw r) (rs_start r) (rs_nd r) (rs_ops r))
                       then match nth_error trace j with Some p => pixel (o_end p) | None => Some zero end
                       else Some zero
              end.
  Proof.
    intros runs st k r Hk Hv.
    destruct (st_step_start A zero G E HN HE (rs_form r) _ _ _ _ (rs_prog r) (blank A) Hv) as [trace [Ht Hb]].
    exists trace. split; [|exact Hb].
    rewrite (session_nth runs st k r Hk). unfold run_alone. rewrite Ht. reflexivity.
  Qed.
End Session.
