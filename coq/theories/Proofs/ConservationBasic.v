(* C15: collection, quantum efficiency, full well, inter-pixel capacitance. *)
From Coq Require Import QArith Qround Qabs Qminmax ZArith List Bool Lia Lra Psatz.
From PyxelV Require Import Model.Conservation.
Import ListNotations.
Open Scope Q_scope.

(* ------------------------------------------------------------------------------------------ collection *)
Lemma collect_exact : forall pixel charge, collect pixel charge == pixel + charge.
Proof. intros. unfold collect. reflexivity. Qed.

Lemma collect_frame_exact : forall px ch, length px = length ch ->
  qsum (qadd_list px ch) == qsum px + qsum ch /\ length (qadd_list px ch) = length px.
Proof.
  induction px as [|p px IH]; intros [|c ch] H; simpl in *; try discriminate.
  - split; [lra | reflexivity].
  - injection H as H. destruct (IH ch H) as [E L]. split; [lra | now rewrite L].
Qed.

(* ------------------------------------------------------------------------------------------ QE *)
Lemma qe_off_exact : forall q p, qe_off q p == q * p.
Proof. intros. unfold qe_off. ring. Qed.

Lemma qe_off_bounds : forall q p, 0 <= q <= 1 -> 0 <= p -> 0 <= qe_off q p <= p.
Proof. intros q p [H0 H1] Hp. unfold qe_off. split; nra. Qed.

Lemma qtrunc_nonneg : forall p, 0 <= p -> qtrunc p = Qfloor p.
Proof. intros p Hp. unfold qtrunc. destruct (Qlt_le_dec p 0); [lra | reflexivity]. Qed.

Lemma Qfloor_nonneg : forall p, 0 <= p -> (0 <= Qfloor p)%Z.
Proof.
  intros p Hp. change 0%Z with (Qfloor 0). apply Qfloor_resp_le. exact Hp.
Qed.

Section Binomial.
  (* the random draw: any function with the range of a binomial variate *)
  Variable binom : Z -> Q -> Z.
  Hypothesis binom_range : forall n q, (0 <= n)%Z -> 0 <= q <= 1 -> (0 <= binom n q <= n)%Z.

  Lemma qe_on_bounds : forall q p, 0 <= q <= 1 -> 0 <= p ->
    0 <= qe_on binom q p <= inject_Z (Qfloor p) /\ qe_on binom q p <= p
    /\ qe_on binom q p == inject_Z (Qfloor (qe_on binom q p)).
  Proof.
    intros q p Hq Hp. unfold qe_on. rewrite (qtrunc_nonneg p Hp).
    pose proof (binom_range (Qfloor p) q (Qfloor_nonneg p Hp) Hq) as [B0 B1].
    assert (E0 : 0 <= inject_Z (binom (Qfloor p) q)) by (rewrite <- (Zle_Qle 0); exact B0).
    assert (E1 : inject_Z (binom (Qfloor p) q) <= inject_Z (Qfloor p)) by (rewrite <- Zle_Qle; exact B1).
    pose proof (Qfloor_le p) as F.
    repeat split; try assumption; try lra.
    rewrite Qfloor_Z. reflexivity.
  Qed.
End Binomial.

(* ------------------------------------------------------------------------------------------ full well *)
Lemma full_well_min : forall c x, full_well c x == Qmin x c.
Proof.
  intros. unfold full_well. destruct (Qlt_le_dec c x) as [H|H].
  - rewrite Q.min_r; [reflexivity | lra].
  - rewrite Q.min_l; [reflexivity | lra].
Qed.

Lemma full_well_idem : forall c x, full_well c (full_well c x) = full_well c x.
Proof.
  intros. unfold full_well. destruct (Qlt_le_dec c x) as [H|H].
  - destruct (Qlt_le_dec c c); [lra | reflexivity].
  - destruct (Qlt_le_dec c x); [lra | reflexivity].
Qed.

Lemma full_well_le : forall c x, full_well c x <= c /\ full_well c x <= x.
Proof. intros. unfold full_well. destruct (Qlt_le_dec c x); split; lra. Qed.

Lemma full_well_keeps_nonneg : forall c x, 0 <= c -> 0 <= x -> 0 <= full_well c x.
Proof. intros. unfold full_well. destruct (Qlt_le_dec c x); lra. Qed.

Lemma simple_full_well_guard : forall c xs,
  (c < 0 -> simple_full_well c xs = None) /\
  (0 <= c -> simple_full_well c xs = Some (map (full_well c) xs)).
Proof.
  intros. unfold simple_full_well. destruct (Qlt_le_dec c 0); split; intros; try reflexivity; lra.
Qed.

(* ------------------------------------------------------------------------------------------ IPC *)
Lemma ipc_weights_sum : forall c d a, qsum (kernel_list (ipc_weights c d a)) == 1.
Proof. intros. unfold kernel_list, ipc_weights; simpl. ring. Qed.

Lemma ipc_kernel_guard : forall c d a k, ipc_kernel c d a = Some k ->
  k = ipc_weights c d a /\ d < c /\ a < c /\ 0 <= c + d <= 1 # 4.
Proof.
  intros c d a k H. unfold ipc_kernel in H. destruct (ipc_guard c d a) eqn:G; [|discriminate].
  injection H as <-. unfold ipc_guard, Qltb in G.
  destruct (Qlt_le_dec d c); [|discriminate]. destruct (Qlt_le_dec a c); [|discriminate].
  simpl in G. apply andb_true_iff in G as [G1 G2].
  apply Qle_bool_iff in G1. apply Qle_bool_iff in G2. repeat split; assumption.
Qed.

Definition uniform (v : Q) (fr : frame) : Prop := Forall (Forall (fun x => x == v)) fr.

Lemma qsum_uniform : forall v l, Forall (fun x => x == v) l ->
  qsum l == inject_Z (Z.of_nat (length l)) * v.
Proof.
  induction l as [|x l IH]; intros H.
  - simpl. ring.
  - inversion H; subst. cbn [qsum length]. rewrite Nat2Z.inj_succ, <- Z.add_1_r, inject_Z_plus.
    rewrite (IH H3), H2. ring.
Qed.

Lemma Forall_concat : forall {A} (P : A -> Prop) (ll : list (list A)),
  Forall (Forall P) ll -> Forall P (concat ll).
Proof.
  induction ll as [|l ll IH]; intros H; simpl.
  - constructor.
  - inversion H; subst. apply Forall_app. split; auto.
Qed.

Lemma frame_mean_uniform : forall v fr, uniform v fr -> concat fr <> [] -> frame_mean fr == v.
Proof.
  intros v fr U NE. unfold frame_mean.
  rewrite (qsum_uniform v (concat fr) (Forall_concat _ _ U)).
  destruct (concat fr) as [|x l]; [congruence|].
  field. cbn [length]. rewrite Nat2Z.inj_succ. unfold Qeq. simpl. lia.
Qed.

Lemma getpx_uniform : forall v fill fr i j, uniform v fr -> fill == v -> getpx fill fr i j == v.
Proof.
  intros v fill fr i j U F. unfold getpx.
  destruct ((i <? 0)%Z || (j <? 0)%Z); [exact F|].
  destruct (nth_error fr (Z.to_nat i)) as [row|] eqn:E; [|exact F].
  destruct (nth_error row (Z.to_nat j)) as [x|] eqn:E2; [|exact F].
  apply nth_error_In in E. apply nth_error_In in E2.
  unfold uniform in U. rewrite Forall_forall in U. specialize (U row E).
  rewrite Forall_forall in U. exact (U x E2).
Qed.

Lemma conv_at_uniform : forall k v fill fr i j,
  qsum (kernel_list k) == 1 -> uniform v fr -> fill == v -> conv_at k fill fr i j == v.
Proof.
  intros k v fill fr i j S U F. unfold conv_at.
  rewrite !(getpx_uniform v fill fr) by assumption.
  unfold kernel_list in S. simpl in S.
  transitivity ((k00 k + (k01 k + (k02 k + (k10 k + (k11 k + (k12 k + (k20 k + (k21 k + (k22 k + 0))))))))) * v).
  - ring.
  - rewrite S. ring.
Qed.

Lemma mapi_from_Forall : forall {A B} (P : B -> Prop) (f : Z -> A -> B) l i,
  (forall i x, P (f i x)) -> Forall P (mapi_from f i l).
Proof. induction l; intros; simpl; constructor; auto. Qed.

Lemma mapi_from_length : forall {A B} (f : Z -> A -> B) l i, length (mapi_from f i l) = length l.
Proof. induction l; intros; simpl; auto. Qed.

Lemma mapi_from_shape : forall (g : Z -> list Q -> list Q) fr i,
  (forall i row, length (g i row) = length row) ->
  map (@length Q) (mapi_from g i fr) = map (@length Q) fr.
Proof. induction fr as [|row fr IH]; intros i H; simpl; [reflexivity|]. rewrite H, IH; auto. Qed.

Lemma ipc_conv_shape : forall k fr, map (@length Q) (ipc_conv k fr) = map (@length Q) fr.
Proof.
  intros. unfold ipc_conv. apply mapi_from_shape. intros. apply mapi_from_length.
Qed.

Lemma ipc_uniform : forall k v fr,
  qsum (kernel_list k) == 1 -> uniform v fr -> concat fr <> [] -> uniform v (ipc_conv k fr).
Proof.
  intros k v fr S U NE. unfold ipc_conv, uniform.
  apply mapi_from_Forall. intros i row. apply mapi_from_Forall. intros j _.
  apply conv_at_uniform; try assumption. apply frame_mean_uniform; assumption.
Qed.
