(* C01 — proofs about Model/Pipeline.v.  Everything is for ALL pipelines, step counts, orders
   (under NoDup / completeness where stated), debug flags and YAML key orders. *)
From Coq Require Import List String ZArith Bool Arith PeanoNat Lia Sorted Permutation.
From PyxelV Require Import Model.Pipeline.
Import ListNotations.
Open Scope list_scope.

(* ------------------------------------------------------------------------------------------ *)
(* groups *)

Lemma group_eqb_eq a b : group_eqb a b = true <-> a = b.
Proof. destruct a, b; unfold group_eqb; simpl; split; intro H; (reflexivity || discriminate H). Qed.

Lemma group_eqb_refl g : group_eqb g g = true.
Proof. apply group_eqb_eq. reflexivity. Qed.

Lemma group_eqb_neq a b : a <> b -> group_eqb a b = false.
Proof. intro H. destruct (group_eqb a b) eqn:E; [|reflexivity]. apply group_eqb_eq in E. contradiction. Qed.

Lemma group_eq_dec : forall a b : group, {a = b} + {a <> b}.
Proof. decide equality. Qed.

Lemma group_of_name_name g : group_of_name (group_name g) = Some g.
Proof. destruct g; reflexivity. Qed.

Lemma group_name_inj a b : group_name a = group_name b -> a = b.
Proof.
  intro H. assert (E : group_of_name (group_name a) = group_of_name (group_name b)) by (rewrite H; reflexivity).
  rewrite !group_of_name_name in E. congruence.
Qed.

Lemma all_groups_complete g : In g all_groups.
Proof. destruct g; simpl; tauto. Qed.

Lemma order_of_names_names o : order_of_names (map group_name o) = Some o.
Proof. induction o; simpl; [reflexivity|]. rewrite group_of_name_name, IHo. reflexivity. Qed.

(* ------------------------------------------------------------------------------------------ *)
(* the debug flag only adds capture output *)

Lemma run_models_fst debug step g k ms : fst (run_models debug step g k ms) = tr_models step g k ms.
Proof.
  revert k. induction ms as [|m ms IH]; intro k; simpl; [reflexivity|].
  destruct (enabled m); simpl; rewrite IH; reflexivity.
Qed.

Lemma run_groups_fst debug order p step : fst (run_groups debug order p step) = tr_groups order p step.
Proof.
  induction order as [|g order IH]; simpl; [reflexivity|].
  unfold tr_group at 1. destruct (get p g); simpl.
  - rewrite run_models_fst. unfold tr_groups in IH. rewrite IH. reflexivity.
  - exact IH.
Qed.

Lemma run_steps_fst debug order p steps :
  fst (run_steps debug order p steps) = flat_map (tr_groups order p) steps.
Proof.
  induction steps as [|s steps IH]; simpl; [reflexivity|].
  rewrite run_groups_fst, IH. reflexivity.
Qed.

Lemma run_readouts_fst debug order p n : fst (run_readouts debug order p n) = tr_readouts order p n.
Proof. apply run_steps_fst. Qed.

Lemma debug_irrelevant order p n :
  fst (run_readouts true order p n) = fst (run_readouts false order p n).
Proof. rewrite !run_readouts_fst. reflexivity. Qed.

Lemma run_models_snd_off step g k ms : snd (run_models false step g k ms) = [].
Proof.
  revert k. induction ms as [|m ms IH]; intro k; simpl; [reflexivity|].
  destruct (enabled m); simpl; apply IH.
Qed.

Lemma run_models_snd_on step g k ms :
  snd (run_models true step g k ms) = captures_of (tr_models step g k ms).
Proof.
  revert k. induction ms as [|m ms IH]; intro k; simpl; [reflexivity|].
  destruct (enabled m); simpl; rewrite IH; reflexivity.
Qed.

Lemma run_groups_snd_off order p step : snd (run_groups false order p step) = [].
Proof.
  induction order as [|g order IH]; simpl; [reflexivity|].
  destruct (get p g); simpl; [rewrite run_models_snd_off|]; exact IH.
Qed.

Lemma run_groups_snd_on order p step :
  snd (run_groups true order p step) = captures_of (tr_groups order p step).
Proof.
  induction order as [|g order IH]; simpl; [reflexivity|].
  unfold tr_group at 1. destruct (get p g); simpl.
  - rewrite run_models_snd_on, IH. unfold captures_of. rewrite map_app. reflexivity.
  - exact IH.
Qed.

Lemma captures_off order p n : snd (run_readouts false order p n) = [].
Proof.
  unfold run_readouts. induction (seq 0 n) as [|s steps IH]; simpl; [reflexivity|].
  rewrite run_groups_snd_off, IH. reflexivity.
Qed.

Lemma captures_on order p n :
  snd (run_readouts true order p n) = captures_of (tr_readouts order p n).
Proof.
  unfold run_readouts, tr_readouts. induction (seq 0 n) as [|s steps IH]; simpl; [reflexivity|].
  rewrite run_groups_snd_on, IH. unfold captures_of. rewrite map_app. reflexivity.
Qed.

(* ------------------------------------------------------------------------------------------ *)
(* what is in a trace *)

Lemma in_tr_models c step g k ms :
  In c (tr_models step g k ms) ->
  c_step c = step /\ c_group c = g /\ k <= c_pos c /\
  exists m, nth_error ms (c_pos c - k) = Some m /\ enabled m = true /\
            c_name c = name m /\ c_args c = recv step m.
Proof.
  revert k. induction ms as [|m ms IH]; intro k; simpl; [tauto|].
  intro H. apply in_app_or in H. destruct H as [H|H].
  - destruct (enabled m) eqn:E; [|contradiction]. destruct H as [<-|[]]. simpl.
    repeat split; auto. exists m. rewrite Nat.sub_diag. simpl. auto.
  - apply IH in H. destruct H as (H1 & H2 & H3 & m' & H4 & H5 & H6 & H7).
    repeat split; auto; [lia|]. exists m'.
    replace (c_pos c - k) with (S (c_pos c - S k)) by lia. simpl. auto.
Qed.

Lemma in_tr_group c p step g :
  In c (tr_group p step g) -> c_step c = step /\ c_group c = g.
Proof.
  unfold tr_group. destruct (get p g); [|contradiction]. intro H. apply in_tr_models in H. tauto.
Qed.

Lemma in_tr_groups c order p step :
  In c (tr_groups order p step) -> c_step c = step /\ In (c_group c) order.
Proof.
  unfold tr_groups. rewrite in_flat_map. intros (g & Hg & H). apply in_tr_group in H.
  destruct H as [H1 H2]. subst. auto.
Qed.

(* every executed call is an enabled position of the configured pipeline, with exactly its arguments *)
Lemma in_tr_readouts c order p n :
  In c (tr_readouts order p n) ->
  c_step c < n /\ In (c_group c) order /\
  exists ms m, get p (c_group c) = Some ms /\ nth_error ms (c_pos c) = Some m /\
               enabled m = true /\ c_name c = name m /\ c_args c = recv (c_step c) m.
Proof.
  unfold tr_readouts. rewrite in_flat_map. intros (s & Hs & H).
  apply in_seq in Hs. unfold tr_groups in H. rewrite in_flat_map in H. destruct H as (g & Hg & H).
  unfold tr_group in H. destruct (get p g) as [ms|] eqn:E; [|contradiction].
  apply in_tr_models in H. destruct H as (H1 & H2 & _ & m & H4 & H5 & H6 & H7).
  rewrite Nat.sub_0_r in H4. subst. repeat split; auto; [lia|]. exists ms, m. auto.
Qed.

(* ------------------------------------------------------------------------------------------ *)
(* counting *)

Lemma count_pos_app t1 t2 step g i :
  count_pos (t1 ++ t2) step g i = count_pos t1 step g i + count_pos t2 step g i.
Proof. unfold count_pos. rewrite filter_app, app_length. reflexivity. Qed.

Lemma filter_none {A} (P : A -> bool) l : (forall b, In b l -> P b = false) -> filter P l = [].
Proof.
  induction l as [|x l IH]; simpl; intro H; [reflexivity|].
  rewrite (H x) by auto. apply IH. intros b Hb. apply H. auto.
Qed.

Lemma count_flat_map_unique {A B} (eqA : forall x y : A, {x = y} + {x <> y})
      (f : A -> list B) (tag : B -> A) (P : B -> bool) (a : A) (xs : list A) :
  NoDup xs ->
  (forall x b, In b (f x) -> tag b = x) ->
  (forall b, P b = true -> tag b = a) ->
  List.length (filter P (flat_map f xs)) =
  if in_dec eqA a xs then List.length (filter P (f a)) else 0.
Proof.
  intros ND Htag HP. induction xs as [|x xs IH]; simpl; [reflexivity|].
  inversion ND as [|? ? Hx ND']; subst. specialize (IH ND').
  rewrite filter_app, app_length, IH.
  destruct (eqA x a) as [->|Hne].
  - destruct (in_dec eqA a xs) as [Hin|_]; [contradiction|]. lia.
  - assert (E : filter P (f x) = []).
    { apply filter_none. intros b Hb. destruct (P b) eqn:Pb; [|reflexivity].
      exfalso. apply Hne. rewrite <- (Htag x b Hb). apply HP. exact Pb. }
    rewrite E. simpl. destruct (in_dec eqA a xs); reflexivity.
Qed.

Lemma at_pos_true step g i c :
  at_pos step g i c = true -> c_step c = step /\ c_group c = g /\ c_pos c = i.
Proof.
  unfold at_pos. rewrite !andb_true_iff. intros [[H1 H2] H3].
  apply Nat.eqb_eq in H1. apply group_eqb_eq in H2. apply Nat.eqb_eq in H3. auto.
Qed.

Lemma count_tr_models step g k ms step' g' i :
  count_pos (tr_models step g k ms) step' g' i =
  if Nat.eqb step step' && group_eqb g g' && Nat.leb k i &&
     match nth_error ms (i - k) with Some m => enabled m | None => false end
  then 1 else 0.
Proof.
  revert k. induction ms as [|m ms IH]; intro k.
  - simpl. destruct (i - k); simpl; rewrite andb_false_r; reflexivity.
  - simpl tr_models. rewrite count_pos_app, IH.
    destruct (Nat.eq_dec k i) as [->|Hki].
    + rewrite Nat.sub_diag. simpl nth_error. rewrite Nat.leb_refl.
      replace (Nat.leb (S i) i) with false by (symmetry; apply Nat.leb_gt; lia).
      rewrite andb_false_r. simpl. rewrite Nat.add_0_r.
      destruct (enabled m); unfold count_pos; simpl.
      * unfold at_pos. simpl. rewrite Nat.eqb_refl, !andb_true_r.
        destruct (Nat.eqb step step' && group_eqb g g'); reflexivity.
      * rewrite andb_false_r. reflexivity.
    + assert (E0 : count_pos (if enabled m then [mk_call step g k m] else []) step' g' i = 0).
      { destruct (enabled m); unfold count_pos; simpl; [|reflexivity].
        unfold at_pos. simpl. replace (Nat.eqb k i) with false by (symmetry; apply Nat.eqb_neq; exact Hki).
        rewrite andb_false_r. reflexivity. }
      rewrite E0, Nat.add_0_l.
      destruct (Nat.leb_spec k i) as [Hle|Hgt].
      * replace (Nat.leb (S k) i) with true by (symmetry; apply Nat.leb_le; lia).
        replace (i - k) with (S (i - S k)) by lia. reflexivity.
      * replace (Nat.leb (S k) i) with false by (symmetry; apply Nat.leb_gt; lia).
        rewrite !andb_false_r. reflexivity.
Qed.

Lemma count_tr_groups order p step step' g' i :
  NoDup order ->
  count_pos (tr_groups order p step) step' g' i =
  if in_dec group_eq_dec g' order then count_pos (tr_group p step g') step' g' i else 0.
Proof.
  intro ND. unfold count_pos, tr_groups.
  apply (count_flat_map_unique group_eq_dec (tr_group p step) c_group); auto.
  - intros x b Hb. apply in_tr_group in Hb. tauto.
  - intros b Hb. apply at_pos_true in Hb. tauto.
Qed.

Lemma count_tr_readouts order p n step' g' i :
  count_pos (tr_readouts order p n) step' g' i =
  if in_dec Nat.eq_dec step' (seq 0 n) then count_pos (tr_groups order p step') step' g' i else 0.
Proof.
  unfold count_pos, tr_readouts.
  apply (count_flat_map_unique Nat.eq_dec (tr_groups order p) c_step).
  - apply seq_NoDup.
  - intros x b Hb. apply in_tr_groups in Hb. tauto.
  - intros b Hb. apply at_pos_true in Hb. tauto.
Qed.

(* every position executes exactly as often as `executes` says: once if enabled, present and the
   step exists; never otherwise *)
Lemma exactly_once order p n step g i :
  NoDup order -> (forall g, In g order) ->
  count_pos (tr_readouts order p n) step g i = if executes p n step g i then 1 else 0.
Proof.
  intros ND All. rewrite count_tr_readouts. unfold executes.
  destruct (in_dec Nat.eq_dec step (seq 0 n)) as [Hin|Hout].
  - apply in_seq in Hin. replace (Nat.ltb step n) with true by (symmetry; apply Nat.ltb_lt; lia).
    rewrite count_tr_groups by exact ND.
    destruct (in_dec group_eq_dec g order) as [_|Hno]; [|exfalso; apply Hno, All].
    unfold tr_group. destruct (get p g) as [ms|]; [|reflexivity].
    rewrite count_tr_models. rewrite Nat.eqb_refl, group_eqb_refl, Nat.sub_0_r. simpl. reflexivity.
  - replace (Nat.ltb step n) with false; [reflexivity|].
    symmetry. apply Nat.ltb_ge. rewrite in_seq in Hout. lia.
Qed.

(* ------------------------------------------------------------------------------------------ *)
(* sortedness *)

Lemma SS_app {A} (R : A -> A -> Prop) l1 l2 :
  StronglySorted R l1 -> StronglySorted R l2 ->
  (forall a b, In a l1 -> In b l2 -> R a b) -> StronglySorted R (l1 ++ l2).
Proof.
  intros H1 H2 H. induction H1 as [|x l1 S1 IH F]; simpl; [exact H2|].
  constructor.
  - apply IH. intros a b Ha Hb. apply H; simpl; auto.
  - apply Forall_forall. intros b Hb. apply in_app_or in Hb. destruct Hb as [Hb|Hb].
    + rewrite Forall_forall in F. apply F. exact Hb.
    + apply H; simpl; auto.
Qed.

Lemma SS_flat_map {A B} (Rx : A -> A -> Prop) (R : B -> B -> Prop) (f : A -> list B) xs :
  StronglySorted Rx xs ->
  (forall x, In x xs -> StronglySorted R (f x)) ->
  (forall x y a b, In x xs -> In y xs -> Rx x y -> In a (f x) -> In b (f y) -> R a b) ->
  StronglySorted R (flat_map f xs).
Proof.
  intros HS. induction HS as [|x xs S IH F]; intros Hf Hc; simpl; [constructor|].
  apply SS_app.
  - apply Hf. simpl. auto.
  - apply IH.
    + intros y Hy. apply Hf. simpl. auto.
    + intros x' y a b Hx Hy. apply Hc; simpl; auto.
  - intros a b Ha Hb. rewrite in_flat_map in Hb. destruct Hb as (y & Hy & Hb).
    rewrite Forall_forall in F. apply (Hc x y a b); simpl; auto.
Qed.

Lemma SS_ext_in {A} (R R' : A -> A -> Prop) l :
  StronglySorted R l -> (forall a b, In a l -> In b l -> R a b -> R' a b) -> StronglySorted R' l.
Proof.
  intro HS. induction HS as [|x l S IH F]; intro H; constructor.
  - apply IH. intros a b Ha Hb. apply H; simpl; auto.
  - rewrite Forall_forall in *. intros b Hb. apply H; simpl; auto.
Qed.

Lemma SS_seq a n : StronglySorted lt (seq a n).
Proof.
  revert a. induction n as [|n IH]; intro a; simpl; constructor.
  - apply IH.
  - apply Forall_forall. intros b Hb. apply in_seq in Hb. lia.
Qed.

Lemma SS_rank order :
  NoDup order -> StronglySorted (fun a b => rank order a < rank order b) order.
Proof.
  induction order as [|h t IH]; intro ND; constructor; inversion ND as [|? ? Hh ND']; subst.
  - apply (SS_ext_in (fun a b => rank t a < rank t b)); [apply IH; exact ND'|].
    intros a b Ha Hb Hab. simpl.
    rewrite (group_eqb_neq h a), (group_eqb_neq h b); [lia| |]; intro; subst; contradiction.
  - apply Forall_forall. intros b Hb. simpl. rewrite group_eqb_refl.
    rewrite (group_eqb_neq h b); [lia|]. intro; subst; contradiction.
Qed.

Lemma tr_models_sorted order step g k ms : StronglySorted (key_lt order) (tr_models step g k ms).
Proof.
  revert k. induction ms as [|m ms IH]; intro k; simpl; [constructor|].
  destruct (enabled m); simpl; [|apply IH].
  constructor; [apply IH|]. apply Forall_forall. intros b Hb.
  apply in_tr_models in Hb. destruct Hb as (H1 & H2 & H3 & _).
  unfold key_lt. simpl. right. split; [auto|]. right. split; [rewrite H2; reflexivity|lia].
Qed.

Lemma tr_groups_sorted order p step :
  NoDup order -> StronglySorted (key_lt order) (tr_groups order p step).
Proof.
  intro ND. unfold tr_groups.
  apply (SS_flat_map (fun a b => rank order a < rank order b)).
  - apply SS_rank. exact ND.
  - intros g _. unfold tr_group. destruct (get p g); [apply tr_models_sorted|constructor].
  - intros x y a b _ _ Hxy Ha Hb. apply in_tr_group in Ha. apply in_tr_group in Hb.
    destruct Ha as [A1 A2], Hb as [B1 B2]. unfold key_lt. right. split; [congruence|].
    left. rewrite A2, B2. exact Hxy.
Qed.

(* the whole trace is strictly sorted by (step, rank of the group in the order, position) *)
Lemma tr_readouts_sorted order p n :
  NoDup order -> StronglySorted (key_lt order) (tr_readouts order p n).
Proof.
  intro ND. unfold tr_readouts. apply (SS_flat_map lt).
  - apply SS_seq.
  - intros s _. apply tr_groups_sorted. exact ND.
  - intros x y a b _ _ Hxy Ha Hb. apply in_tr_groups in Ha. apply in_tr_groups in Hb.
    unfold key_lt. left. destruct Ha, Hb. lia.
Qed.

(* ------------------------------------------------------------------------------------------ *)
(* YAML *)

Lemma mk_pipeline_ext f f' : (forall g, f g = f' g) -> mk_pipeline f = mk_pipeline f'.
Proof. intro H. unfold mk_pipeline. rewrite !H. reflexivity. Qed.

Lemma get_mk_pipeline f g : get (mk_pipeline f) g = norm (f g).
Proof. destruct g; reflexivity. Qed.

Lemma norm_not_empty v : norm v <> Some [].
Proof. destruct v as [[|]|]; simpl; discriminate. Qed.

Lemma norm_id v : v <> Some [] -> norm v = v.
Proof. destruct v as [[|]|]; simpl; intro H; try reflexivity. contradiction H; reflexivity. Qed.

Definition normal (p : pipeline) : Prop := forall g, get p g <> Some [].

Lemma mk_pipeline_normal f : normal (mk_pipeline f).
Proof. intro g. rewrite get_mk_pipeline. apply norm_not_empty. Qed.

Lemma mk_pipeline_get p : normal p -> mk_pipeline (get p) = p.
Proof.
  intro H. destruct p. unfold mk_pipeline. simpl.
  f_equal; apply norm_id;
    first [exact (H SceneGeneration) | exact (H PhotonCollection) | exact (H Phasing)
          | exact (H ChargeGeneration) | exact (H ChargeCollection) | exact (H ChargeTransfer)
          | exact (H ChargeMeasurement) | exact (H SignalTransfer) | exact (H ReadoutElectronics)
          | exact (H DataProcessing)].
Qed.

Lemma lookup_in k v (d : doc) :
  NoDup (map fst d) -> (lookup k d = Some v <-> In (k, v) d).
Proof.
  induction d as [|[k' v'] r IH]; simpl; intro ND.
  - split; [discriminate|tauto].
  - inversion ND as [|? ? Hk ND']; subst. destruct (String.eqb_spec k' k) as [->|Hne].
    + split.
      * intros [= <-]. auto.
      * intros [H|H]; [inversion H; reflexivity|].
        exfalso. apply Hk. change k with (fst (k, v)). apply in_map. exact H.
    + split.
      * intro H. right. apply IH; assumption.
      * intros [H|H]; [inversion H; contradiction|]. apply IH; assumption.
Qed.

Lemma lookup_none k (d : doc) : lookup k d = None <-> ~ In k (map fst d).
Proof.
  induction d as [|[k' v'] r IH]; simpl.
  - tauto.
  - destruct (String.eqb_spec k' k) as [->|Hne].
    + split; [discriminate|]. intro H. exfalso. apply H. auto.
    + rewrite IH. split; intro H; [intros [E|E]; [contradiction|auto]|auto].
Qed.

Lemma lookup_perm k (d d' : doc) :
  Permutation d d' -> NoDup (map fst d) -> lookup k d = lookup k d'.
Proof.
  intros HP ND.
  assert (ND' : NoDup (map fst d')).
  { eapply Permutation_NoDup; [apply Permutation_map; exact HP|exact ND]. }
  destruct (lookup k d) as [v|] eqn:E.
  - symmetry. apply lookup_in; [exact ND'|]. apply (Permutation_in _ HP). apply lookup_in; assumption.
  - symmetry. apply lookup_none. intro H. apply lookup_none in E. apply E.
    apply (Permutation_in _ (Permutation_sym (Permutation_map fst HP))). exact H.
Qed.

Lemma forallb_perm {A} (f : A -> bool) l l' : Permutation l l' -> forallb f l = forallb f l'.
Proof.
  intro HP. induction HP; simpl.
  - reflexivity.
  - rewrite IHHP. reflexivity.
  - destruct (f x), (f y); reflexivity.
  - congruence.
Qed.

(* the order of the keys of the `pipeline:` mapping is irrelevant *)
Lemma from_yaml_perm (d d' : doc) :
  Permutation d d' -> NoDup (map fst d) -> from_yaml d = from_yaml d'.
Proof.
  intros HP ND. unfold from_yaml.
  rewrite (forallb_perm known_key (map fst d) (map fst d')) by (apply Permutation_map; exact HP).
  destruct (forallb known_key (map fst d')); [|reflexivity].
  f_equal. apply mk_pipeline_ext. intro g. unfold kw_of_doc.
  rewrite (lookup_perm _ d d' HP ND). reflexivity.
Qed.

Lemma lookup_doc_of f keys g :
  lookup (group_name g) (doc_of f keys) = if in_dec group_eq_dec g keys then Some (f g) else None.
Proof.
  induction keys as [|h t IH]; simpl; [reflexivity|].
  destruct (String.eqb_spec (group_name h) (group_name g)) as [E|Hne].
  - apply group_name_inj in E. subst. destruct (group_eq_dec g g); [reflexivity|contradiction].
  - rewrite IH. destruct (group_eq_dec h g) as [->|]; [contradiction Hne; reflexivity|].
    destruct (in_dec group_eq_dec g t); reflexivity.
Qed.

(* a YAML document listing (at least) the populated groups, in any order, builds the same pipeline
   as the Python constructor called with the same lists *)
Lemma from_yaml_doc_of f keys :
  (forall g, f g <> None -> In g keys) -> from_yaml (doc_of f keys) = Ok (mk_pipeline f).
Proof.
  intro H. unfold from_yaml.
  assert (E : forallb known_key (map fst (doc_of f keys)) = true).
  { apply forallb_forall. intros k Hk. unfold doc_of in Hk. rewrite map_map in Hk. simpl in Hk.
    apply in_map_iff in Hk. destruct Hk as (g & <- & _). unfold known_key.
    rewrite group_of_name_name. reflexivity. }
  rewrite E. f_equal. apply mk_pipeline_ext. intro g. unfold kw_of_doc. rewrite lookup_doc_of.
  destruct (in_dec group_eq_dec g keys) as [|Hno]; [reflexivity|].
  destruct (f g) eqn:Fg; [|reflexivity]. exfalso. apply Hno, H. rewrite Fg. discriminate.
Qed.

(* an unknown key is refused *)
Lemma from_yaml_unknown d k :
  In k (map fst d) -> group_of_name k = None -> from_yaml d = Raise "TypeError".
Proof.
  intros Hin Hk. unfold from_yaml.
  destruct (forallb known_key (map fst d)) eqn:E; [|reflexivity].
  rewrite forallb_forall in E. specialize (E k Hin). unfold known_key in E. rewrite Hk in E. discriminate.
Qed.
