(* Simulation: the Charge state machine as coded (after the repairs of C14-F4/F5) vs the ideal
   cache-free container, for ALL op sequences (removals, clusters anywhere, any arrays); and the
   accumulator with removals (the ledger) for all sequences with non-negative arrays. *)
From Coq Require Import ZArith QArith Qround List Bool Lia Lqa Arith.
From PyxelV Require Import Model.Charge Proofs.ChargeLemmas Proofs.ChargeRefine.
Import ListNotations.
Open Scope Q_scope.

Definition Sim (g : geom) (s t : state) : Prop :=
  st_frame s = st_frame t /\
  Shape (g_rows g) (g_cols g) (st_arr s) /\
  (st_frame s = [] -> st_arr s = st_arr t) /\
  (st_frame t <> [] -> st_arr t = zeros (g_rows g) (g_cols g)).

Lemma flat_map_nil {A B} (F : A -> list B) l : (forall x, In x l -> F x = []) -> flat_map F l = [].
Proof.
  induction l; intros H; simpl; auto. rewrite (H a) by (left; auto). apply IHl. intros x Hx; apply H; right; auto.
Qed.

Lemma centres_all_zero g a : all_zero a = true -> centres g a = [].
Proof.
  intros Z. unfold centres. apply flat_map_nil. intros i _. apply flat_map_nil. intros j _.
  replace (gt0 (mget a i j)) with false; auto.
  symmetry. apply gt0_false. rewrite (all_zero_mget a i j Z). apply Qle_refl.
Qed.

Lemma renumber_cons_ne c l : renumber (c :: l) <> [].
Proof. intro E. apply renumber_nil in E. discriminate. Qed.

Lemma add_sim g s t cs : Sim g s t -> Sim g (add_frame g s cs) (ideal_add g t cs).
Proof.
  intros [EF [HS [EA HZ]]]. unfold add_frame, ideal_add. rewrite <- EF.
  destruct (st_frame s) as [|p f] eqn:F.
  - specialize (EA eq_refl). rewrite <- EA.
    destruct (all_zero (st_arr s)) eqn:Z.
    + rewrite (centres_all_zero g _ Z). simpl app.
      destruct cs as [|c l].
      * split; [simpl; auto|]. split; [exact HS|]. split; [intros _; exact EA|]. exact HZ.
      * split; [reflexivity|]. split; [exact HS|]. split.
        -- cbn [st_frame]. intros E. exfalso. exact (renumber_cons_ne _ _ E).
        -- reflexivity.
    + destruct (centres g (st_arr s) ++ cs) as [|c l] eqn:E.
      * split; [simpl; auto|]. split; [exact HS|]. split; [intros _; exact EA|]. exact HZ.
      * split; [reflexivity|]. split; [exact HS|]. split.
        -- cbn [st_frame]. intros E'. exfalso. exact (renumber_cons_ne _ _ E').
        -- reflexivity.
  - split; [reflexivity|]. split; [exact HS|]. split.
    + cbn [st_frame]. intros E. apply renumber_nil in E. simpl in E. discriminate.
    + intros _. cbn [st_arr]. apply HZ. rewrite <- EF. discriminate.
Qed.

(* a removal keeps the rows selected by q: the frame becomes the same on both sides, and the
   repaired code zeroes the array exactly when the ideal container's array is the zero array *)
Lemma removed_sim g s t (q : Z * cluster -> bool) :
  Sim g s t ->
  Sim g (removed g s (filter q (st_frame s))) {| st_arr := st_arr t; st_frame := filter q (st_frame t) |}.
Proof.
  intros [EF [HS [EA HZ]]]. unfold removed. rewrite <- EF.
  destruct (st_frame s) as [|p f] eqn:F.
  - simpl. split; [reflexivity|]. split; [exact HS|]. split; [intros _; apply EA; reflexivity|].
    cbn [st_frame]. intros N. contradiction.
  - assert (NZ : st_arr t = zeros (g_rows g) (g_cols g)) by (apply HZ; rewrite <- EF; discriminate).
    destruct (filter q (p :: f)) as [|x r] eqn:E.
    + split; [reflexivity|]. split; [apply Shape_zeros|]. split; [intros _; cbn [st_arr]; auto|].
      cbn [st_frame]. intros N. contradiction.
    + split; [reflexivity|]. split; [exact HS|]. split; [cbn [st_frame]; discriminate|].
      intros _. exact NZ.
Qed.

Lemma filter_false {A} (l : list A) : filter (fun _ => false) l = [].
Proof. induction l; simpl; auto. Qed.

Lemma removed_all_sim g s t :
  Sim g s t -> Sim g (removed g s []) {| st_arr := st_arr t; st_frame := [] |}.
Proof.
  intros H. pose proof (removed_sim g s t (fun _ => false) H) as R. rewrite !filter_false in R. exact R.
Qed.

Lemma step_sim g s t o :
  Sim g s t ->
  exists s', fst (step g s o) = Some s' /\ Sim g s' (fst (ideal_step g t o)) /\
    (o = Read -> obs_equiv g (snd (step g s o)) (snd (ideal_step g t o))).
Proof.
  intros HSim. pose proof HSim as [EF [HS [EA HZ]]].
  destruct o.
  - (* AddArray *)
    simpl. destruct (shape_ok (g_rows g) (g_cols g) a) eqn:SO.
    + apply shape_ok_iff in SO. rewrite <- EF.
      destruct (st_frame s) as [|p f] eqn:F.
      * eexists; split; [reflexivity|]. split; [|discriminate].
        split; [reflexivity|]. split; [apply Shape_madd; auto|]. split; [|cbn [st_frame]; intros N; contradiction].
        intros _. cbn [st_arr]. rewrite (EA eq_refl). reflexivity.
      * eexists; split; [reflexivity|]. split; [|discriminate].
        apply add_sim; auto.
    + exists s. split; [reflexivity|]. split; [exact HSim|discriminate].
  - (* AddClusters *)
    simpl. eexists; split; [reflexivity|]. split; [|discriminate]. apply add_sim; auto.
  - (* Read *)
    unfold step, ideal_step, ideal_read. rewrite <- EF.
    destruct (st_frame s) as [|p f] eqn:F.
    + exists s. split; [reflexivity|]. split; [exact HSim|]. intros _. cbn [snd].
      rewrite <- (EA eq_refl). split; [exact HS|]. split; [exact HS|]. intros; reflexivity.
    + destruct (to_array_spec g (fcl (p :: f))) as [m [B [Sm G]]].
      rewrite B. cbn [fst snd]. eexists; split; [reflexivity|]. split.
      * split; [exact EF|]. split; [exact Sm|]. split; [discriminate|exact HZ].
      * intros _. split; [exact Sm|]. split; [apply Shape_tabulate|].
        intros i j Hi Hj. rewrite (G i j Hi Hj). unfold bin_exact. rewrite mget_tabulate by auto. reflexivity.
  - (* ReadFrame *)
    exists s. simpl. split; [reflexivity|]. split; [exact HSim|discriminate].
  - (* RemoveAll *)
    simpl. eexists; split; [reflexivity|]. split; [|discriminate]. apply removed_all_sim; auto.
  - (* Remove *)
    destruct ids as [|k ids].
    + simpl. eexists; split; [reflexivity|]. split; [|discriminate]. apply removed_all_sim; auto.
    + cbn [step ideal_step fst]. eexists; split; [reflexivity|]. split; [|discriminate].
      apply (removed_sim g s t (fun p => negb (id_in (k :: ids) (fst p)))); auto.
  - (* Reset *)
    exists (init g). simpl. split; [reflexivity|]. split; [|discriminate].
    split; [reflexivity|]. split; [apply Shape_zeros|]. split; [reflexivity|]. intros N. contradiction.
Qed.

Theorem sim_exec g ops : forall s t,
  Sim g s t -> exists s', exec g (Some s) ops = Some s' /\ Sim g s' (ideal_exec g t ops).
Proof.
  induction ops as [|o ops IH]; intros s t HSim.
  - exists s. split; [reflexivity|exact HSim].
  - destruct (step_sim g s t o HSim) as [s' [E [HS' _]]].
    destruct (IH s' _ HS') as [s'' [E' HS'']].
    exists s''. split; [|exact HS''].
    unfold exec in *. simpl. rewrite E. exact E'.
Qed.

Lemma Sim_init g : Sim g (init g) (init g).
Proof. split; [reflexivity|]. split; [apply Shape_zeros|]. split; [reflexivity|]. intros N. contradiction. Qed.

(* FULL: for every op sequence the container reads exactly like the ideal cache-free container *)
Theorem read_sim_ideal g ops : obs_equiv g (read_after g ops) (ideal_read_after g ops).
Proof.
  destruct (sim_exec g ops _ _ (Sim_init g)) as [s' [E HS']].
  destruct (step_sim g s' _ Read HS') as [_ [_ [_ R]]].
  unfold read_after, ideal_read_after. rewrite E. exact (R eq_refl).
Qed.

(* memory safety: whatever the operations and wherever the clusters, a read is an array of the
   detector's shape -- the out-of-bounds outcome of the unchecked loop is unreachable *)
Theorem never_corrupt g ops :
  exists m, read_after g ops = OArr m /\ Shape (g_rows g) (g_cols g) m.
Proof.
  pose proof (read_sim_ideal g ops) as H. unfold obs_equiv, ideal_read_after in H.
  destruct (read_after g ops) as [| m | |]; try contradiction.
  exists m. split; [reflexivity|apply H].
Qed.

Lemma obs_equiv_sym g a b : obs_equiv g a b -> obs_equiv g b a.
Proof.
  destruct a, b; simpl; auto. intros [A [B C]]. split; [exact B|]. split; [exact A|].
  intros i j Hi Hj. symmetry. apply C; auto.
Qed.

Lemma obs_equiv_trans g a b c : obs_equiv g a b -> obs_equiv g b c -> obs_equiv g a c.
Proof.
  destruct a, b, c; simpl; try tauto. intros [A [B C]] [_ [D E]]. split; [exact A|]. split; [exact D|].
  intros i j Hi Hj. rewrite (C i j Hi Hj). apply E; auto.
Qed.

Lemma ideal_exec_app g t a b : ideal_exec g t (a ++ b) = ideal_exec g (ideal_exec g t a) b.
Proof. unfold ideal_exec. apply fold_left_app. Qed.

(* FULL: a read is an observation -- inserting one anywhere never changes a later read *)
Theorem read_pure g ops1 ops2 :
  obs_equiv g (read_after g (ops1 ++ Read :: ops2)) (read_after g (ops1 ++ ops2)).
Proof.
  eapply obs_equiv_trans; [apply read_sim_ideal|].
  apply obs_equiv_sym. eapply obs_equiv_trans; [apply read_sim_ideal|].
  unfold ideal_read_after. rewrite !ideal_exec_app. simpl.
  pose proof (read_sim_ideal g (ops1 ++ ops2)) as H.
  unfold ideal_read_after in H. rewrite ideal_exec_app in H.
  destruct (read_after g (ops1 ++ ops2)); simpl in H; try contradiction.
  destruct H as [_ [H _]]. simpl. split; [exact H|]. split; [exact H|]. intros; reflexivity.
Qed.

(* reset: whatever came before, the next read is the zero array *)
Theorem read_after_reset g ops : read_after g (ops ++ [Reset]) = OArr (zeros (g_rows g) (g_cols g)).
Proof.
  destruct (sim_exec g ops _ _ (Sim_init g)) as [s' [E _]].
  unfold read_after. rewrite exec_snoc, E. reflexivity.
Qed.

(* ---------------------------------------------------------------- the ledger (accumulator with removals) *)

Lemma ledger_snoc g ops o : ledger_of g (ops ++ [o]) = ledger_step g (ledger_of g ops) o.
Proof. unfold ledger_of. rewrite fold_left_app. reflexivity. Qed.

Lemma ledger_state g ops : snd (ledger_of g ops) = ideal_exec g (init g) ops.
Proof.
  induction ops as [|o ops IH] using rev_ind; [reflexivity|].
  rewrite ledger_snoc, ideal_exec_app. simpl. rewrite IH. reflexivity.
Qed.

(* without removals the ledger is the plain accumulator *)
Lemma ledger_no_removal g ops : has_removal ops = false -> forall i j, spec_ledger g ops i j = spec_acc g ops i j.
Proof.
  unfold spec_ledger, spec_acc.
  induction ops as [|o ops IH] using rev_ind; intros H i j; [reflexivity|].
  unfold has_removal in H. rewrite existsb_app in H. apply orb_false_iff in H. destruct H as [H1 H2].
  simpl in H2. rewrite orb_false_r in H2.
  rewrite ledger_snoc, acc_of_snoc. unfold ledger_step. cbn [fst].
  assert (N : removal_ids o = None) by (destruct o; simpl in *; auto; discriminate).
  rewrite N.
  assert (E : forall f f' : nat -> nat -> Q, (forall i j, f i j = f' i j) ->
              acc_step g (hit_exact g) f o i j = acc_step g (hit_exact g) f' o i j).
  { intros f f' Hf. destruct o; simpl; auto.
    - destruct (shape_ok (g_rows g) (g_cols g) a); rewrite Hf; auto.
    - rewrite Hf; auto. }
  apply E. intros. apply IH. exact H1.
Qed.

Lemma credit_partition hit (q : Z * cluster -> bool) f i j :
  credit hit (fcl (filter q f)) i j + credit hit (fcl (filter (fun p => negb (q p)) f)) i j == credit hit (fcl f) i j.
Proof.
  unfold fcl. induction f as [|x f IH]; simpl; [ring|].
  destruct (q x); simpl; rewrite <- IH; ring.
Qed.

Lemma filter_ext_in' {A} (p q : A -> bool) l : (forall x, p x = q x) -> filter p l = filter q l.
Proof. intros H. induction l; simpl; auto. rewrite H, IHl. reflexivity. Qed.

(* what a removal does to the array view: it debits exactly the selected clusters *)
Lemma removal_view g s o ids :
  removal_ids o = Some ids ->
  exists s', fst (step g s o) = Some s' /\
    (Inv g s -> Inv g s') /\
    forall i j, view g s' i j == view g s i j - credit (hit_exact g) (fcl (selected ids (st_frame s))) i j.
Proof.
  intros Hr.
  assert (K : forall (q : Z * cluster -> bool),
    (Inv g s -> Inv g (removed g s (filter (fun p => negb (q p)) (st_frame s)))) /\
    forall i j, view g (removed g s (filter (fun p => negb (q p)) (st_frame s))) i j ==
                view g s i j - credit (hit_exact g) (fcl (filter q (st_frame s))) i j).
  { intros q. unfold removed, view. destruct (st_frame s) as [|p f] eqn:F.
    - simpl. split; [intros [A B]; split; [exact A|intros _; apply B; exact F]|]. intros; ring.
    - destruct (filter (fun p0 => negb (q p0)) (p :: f)) as [|x r] eqn:E.
      + split.
        * intros _. split; [apply Shape_zeros|]. intros _ i j _ _. cbn [st_arr]. rewrite mget_zeros. apply Qle_refl.
        * intros i j. cbn [st_frame st_arr]. rewrite mget_zeros.
          rewrite <- (credit_partition (hit_exact g) q (p :: f) i j), E. simpl. ring.
      + split.
        * intros [A B]. split; [exact A|]. cbn [st_frame]. discriminate.
        * intros i j. cbn [st_frame].
          rewrite <- (credit_partition (hit_exact g) q (p :: f) i j), E. ring. }
  assert (ALL : (Inv g s -> Inv g (removed g s [])) /\
    forall i j, view g (removed g s []) i j == view g s i j - credit (hit_exact g) (fcl (st_frame s)) i j).
  { destruct (K (fun _ => true)) as [KA KB]. simpl in KA, KB. rewrite filter_false in KA, KB.
    split; [exact KA|]. intros i j. rewrite KB.
    replace (filter (fun _ => true) (st_frame s)) with (st_frame s); [reflexivity|].
    clear. induction (st_frame s); simpl; auto. f_equal; auto. }
  destruct o; simpl in Hr; try discriminate; injection Hr as <-.
  - (* RemoveAll *) eexists. split; [reflexivity|]. exact ALL.
  - (* Remove *) destruct ids0 as [|k ids'].
    + eexists. split; [reflexivity|]. exact ALL.
    + eexists. split; [reflexivity|]. exact (K (fun p => id_in (k :: ids') (fst p))).
Qed.

(* FULL refinement: for ALL op sequences with non-negative arrays -- removals included, clusters
   anywhere -- the state abstracts to the ledger and stays in step with the ideal container *)
Theorem exec_ledger g ops :
  geom_ok g = true -> forallb op_arrays_nonneg ops = true ->
  exists s, exec g (Some (init g)) ops = Some s /\ Inv g s /\ Sim g s (ideal_exec g (init g) ops) /\
    forall i j, (i < g_rows g)%nat -> (j < g_cols g)%nat -> view g s i j == spec_ledger g ops i j.
Proof.
  intros Hg. induction ops as [|o ops IH] using rev_ind; intros Hok.
  - exists (init g). split; [reflexivity|]. split; [apply Inv_init|]. split; [apply Sim_init|].
    intros i j _ _. unfold view, spec_ledger, ledger_of. simpl. rewrite mget_zeros. reflexivity.
  - rewrite forallb_app in Hok. apply andb_true_iff in Hok. destruct Hok as [H1 H2].
    simpl in H2. rewrite andb_true_r in H2.
    destruct (IH H1) as [s [E [I [HSim V]]]].
    destruct (step_sim g s _ o HSim) as [s1 [E1 [HSim1 _]]].
    rewrite ideal_exec_app. cbn [ideal_exec fold_left]. fold (ideal_exec g (init g) ops).
    unfold spec_ledger. rewrite ledger_snoc. unfold ledger_step. cbn [fst]. rewrite ledger_state.
    destruct (removal_ids o) as [ids|] eqn:R.
    + destruct (removal_view g s o ids R) as [s' [E' [I' V']]].
      rewrite E1 in E'. injection E' as <-.
      exists s1. split; [rewrite exec_snoc, E; exact E1|]. split; [apply I'; exact I|]. split; [exact HSim1|].
      intros i j Hi Hj. rewrite V'. destruct HSim as [EF _]. rewrite EF. rewrite (V i j Hi Hj). reflexivity.
    + assert (Hop : op_ok o = true).
      { unfold op_ok. rewrite H2, andb_true_r. destruct o; simpl in *; auto; discriminate. }
      destruct (step_ok g s o Hg I Hop) as [s' [E' [I' [V' _]]]].
      rewrite E1 in E'. injection E' as <-.
      exists s1. split; [rewrite exec_snoc, E; exact E1|]. split; [exact I'|]. split; [exact HSim1|].
      intros i j Hi Hj. rewrite (V' i j Hi Hj). apply acc_step_ext. apply V; auto.
Qed.

Lemma read_view g s :
  Shape (g_rows g) (g_cols g) (st_arr s) ->
  exists m, read_of g (Some s) = OArr m /\ Shape (g_rows g) (g_cols g) m /\
    forall i j, (i < g_rows g)%nat -> (j < g_cols g)%nat -> mget m i j == view g s i j.
Proof.
  intros HS. unfold read_of, step, view. destruct (st_frame s) as [|p f] eqn:F.
  - exists (st_arr s). split; [reflexivity|]. split; [exact HS|]. intros; reflexivity.
  - destruct (to_array_spec g (fcl (p :: f))) as [m [B [Sm G]]]. rewrite B. cbn [snd].
    exists m. split; [reflexivity|]. split; [exact Sm|]. exact G.
Qed.

Theorem read_refines_ledger g ops :
  geom_ok g = true -> forallb op_arrays_nonneg ops = true ->
  exists m, read_after g ops = OArr m /\ Shape (g_rows g) (g_cols g) m /\
    forall i j, (i < g_rows g)%nat -> (j < g_cols g)%nat -> mget m i j == spec_ledger g ops i j.
Proof.
  intros Hg Hok. destruct (exec_ledger g ops Hg Hok) as [s [E [I [_ V]]]].
  destruct (read_view g s (proj1 I)) as [m [Em [Sm Gm]]].
  exists m. split; [unfold read_after; rewrite E; exact Em|]. split; [exact Sm|].
  intros i j Hi Hj. rewrite (Gm i j Hi Hj). apply V; auto.
Qed.

(* the two executable forms of the specification agree on removal-free sequences (was only tested) *)
Theorem ideal_is_accumulator g ops :
  geom_ok g = true -> forallb op_ok ops = true ->
  exists n, ideal_read_after g ops = OArr n /\ Shape (g_rows g) (g_cols g) n /\
    forall i j, (i < g_rows g)%nat -> (j < g_cols g)%nat -> mget n i j == spec_acc g ops i j.
Proof.
  intros Hg Hok.
  destruct (read_refines_accumulator g ops Hg Hok) as [m [E [S G]]].
  pose proof (read_sim_ideal g ops) as H. rewrite E in H. unfold ideal_read_after in *.
  simpl in H. destruct H as [_ [Sn C]].
  eexists. split; [reflexivity|]. split; [exact Sn|].
  intros i j Hi Hj. rewrite <- (C i j Hi Hj). apply G; auto.
Qed.

(* the frames agree too: the `.frame` of the container is the live table of the ideal container *)
Theorem frame_sim_ideal g ops : frame_after g ops = st_frame (ideal_exec g (init g) ops).
Proof.
  destruct (sim_exec g ops _ _ (Sim_init g)) as [s' [E [EF _]]].
  unfold frame_after. rewrite E. exact EF.
Qed.
