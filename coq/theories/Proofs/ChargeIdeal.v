(* Simulation: the Charge state machine as coded vs the ideal cache-free container, for all op
   sequences (removals included) in which no removal empties a non-empty frame. *)
From Coq Require Import ZArith QArith Qround List Bool Lia Lqa Arith.
From PyxelV Require Import Model.Charge Proofs.ChargeLemmas Proofs.ChargeRefine.
Import ListNotations.
Open Scope Q_scope.

Definition op_ok_rm (g : geom) (o : op) : bool := op_arrays_nonneg o && op_clusters (inside g) o.

Definition Sim (g : geom) (s t : state) : Prop :=
  st_frame s = st_frame t /\
  Shape (g_rows g) (g_cols g) (st_arr s) /\
  (st_frame s = [] -> st_arr s = st_arr t) /\
  forallb (inside g) (fcl (st_frame s)) = true.

Lemma flat_map_nil {A B} (F : A -> list B) l : (forall x, In x l -> F x = []) -> flat_map F l = [].
Proof.
  induction l; intros H; simpl; auto. rewrite (H a) by (left; auto). apply IHl. intros x Hx; apply H; right; auto.
Qed.

Lemma centres_all_zero g a : all_zero a = true -> centres g a = [].
Proof.
  intros Z. unfold centres. apply flat_map_nil. intros i _. apply flat_map_nil. intros j _.
  replace (gt0 (mget a i j)) with false; auto.
  symmetry. apply gt0_false. rewrite (all_zero_mget a i j Z). apply Qle_refl.
Qed.

Lemma centre_inside s i n :
  0 < s -> (i < n)%nat -> 0 <= centre s i /\ centre s i < inject_Z (Z.of_nat n) * s.
Proof.
  intros Hs Hi. unfold centre.
  assert (H2 : 0 < s / 2) by (apply Qlt_shift_div_l; [reflexivity| rewrite Qmult_0_l; auto]).
  assert (H3 : s / 2 < s) by (apply Qlt_shift_div_r; [reflexivity|]; lra).
  assert (H4 : 0 <= inject_Z (Z.of_nat i)) by (change 0 with (inject_Z 0); rewrite <- Zle_Qle; lia).
  assert (H5 : inject_Z (Z.of_nat i) + 1 <= inject_Z (Z.of_nat n)).
  { change 1 with (inject_Z 1). rewrite <- inject_Z_plus, <- Zle_Qle. lia. }
  assert (H6 : 0 <= inject_Z (Z.of_nat i) * s) by (apply Qmult_le_0_compat; auto; apply Qlt_le_weak; auto).
  split; [lra|].
  apply Qlt_le_trans with ((inject_Z (Z.of_nat i) + 1) * s); [lra|].
  apply Qmult_le_compat_r; auto. apply Qlt_le_weak; auto.
Qed.

Lemma centres_all_inside g a : geom_ok g = true -> forallb (inside g) (centres g a) = true.
Proof.
  intros Hg. apply forallb_forall. intros c Hc.
  destruct (centres_inside g a c Hg Hc) as [i [j [Hi [Hj [Ev [Eh _]]]]]].
  destruct (geom_ok_pos g Hg) as [P1 P2].
  destruct (centre_inside _ _ _ P1 Hi) as [A B]. destruct (centre_inside _ _ _ P2 Hj) as [C D].
  unfold inside. rewrite Ev, Eh. repeat rewrite andb_true_iff. repeat split.
  - apply Qle_bool_iff; auto.
  - apply negb_true_iff. destruct (Qle_bool _ _) eqn:E; auto. apply Qle_bool_iff in E. exfalso; apply (Qlt_not_le _ _ B E).
  - apply Qle_bool_iff; auto.
  - apply negb_true_iff. destruct (Qle_bool _ _) eqn:E; auto. apply Qle_bool_iff in E. exfalso; apply (Qlt_not_le _ _ D E).
Qed.

Lemma renumber_cons_ne c l : renumber (c :: l) <> [].
Proof. intro E. apply renumber_nil in E. discriminate. Qed.

Lemma add_sim g s t cs :
  geom_ok g = true -> Sim g s t -> forallb (inside g) cs = true ->
  Sim g (add_frame g s cs) (ideal_add g t cs).
Proof.
  intros Hg [EF [HS [EA HI]]] Hcs. unfold add_frame, ideal_add. rewrite <- EF.
  destruct (st_frame s) as [|p f] eqn:F.
  - specialize (EA eq_refl). rewrite <- EA.
    destruct (all_zero (st_arr s)) eqn:Z.
    + rewrite (centres_all_zero g _ Z). simpl app.
      destruct cs as [|c l].
      * split; [simpl; auto|]. split; [exact HS|]. split; [intros _; exact EA|]. reflexivity.
      * split; [reflexivity|]. split; [exact HS|]. split.
        -- cbn [st_frame]. intros E. exfalso. exact (renumber_cons_ne _ _ E).
        -- cbn [st_frame]. rewrite fcl_renumber. exact Hcs.
    + destruct (centres g (st_arr s) ++ cs) as [|c l] eqn:E.
      * split; [simpl; auto|]. split; [exact HS|]. split; [intros _; exact EA|]. reflexivity.
      * split; [reflexivity|]. split; [exact HS|]. split.
        -- cbn [st_frame]. intros E'. exfalso. exact (renumber_cons_ne _ _ E').
        -- cbn [st_frame]. rewrite fcl_renumber, <- E, forallb_app, centres_all_inside, Hcs; auto.
  - split; [reflexivity|]. split; [exact HS|]. split.
    + cbn [st_frame]. intros E. apply renumber_nil in E. simpl in E. discriminate.
    + cbn [st_frame]. rewrite fcl_renumber, forallb_app, Hcs. try rewrite F in HI. rewrite HI. reflexivity.
Qed.

Lemma forallb_fcl_filter g (p : Z * cluster -> bool) f :
  forallb (inside g) (fcl f) = true -> forallb (inside g) (fcl (filter p f)) = true.
Proof.
  unfold fcl. induction f as [|x f IH]; simpl; auto. intros H. apply andb_true_iff in H. destruct H as [A B].
  destruct (p x); simpl; [rewrite A|]; auto.
Qed.

Definition not_emptying (o : op) (before after : frame_t) : bool :=
  if is_removal o then match before, after with _ :: _, [] => false | _, _ => true end else true.

Lemma step_sim g s t o :
  geom_ok g = true -> Sim g s t -> op_ok_rm g o = true ->
  not_emptying o (st_frame t) (st_frame (fst (ideal_step g t o))) = true ->
  exists s', fst (step g s o) = Some s' /\ Sim g s' (fst (ideal_step g t o)) /\
    (o = Read -> obs_equiv g (snd (step g s o)) (snd (ideal_step g t o))).
Proof.
  intros Hg HSim Hok Hne. unfold op_ok_rm in Hok. apply andb_true_iff in Hok. destruct Hok as [Hn Hc].
  pose proof HSim as [EF [HS [EA HI]]].
  destruct o; simpl in Hn, Hc.
  - (* AddArray *)
    simpl. destruct (shape_ok (g_rows g) (g_cols g) a) eqn:SO.
    + apply shape_ok_iff in SO. rewrite <- EF.
      destruct (st_frame s) as [|p f] eqn:F.
      * eexists; split; [reflexivity|]. split; [|discriminate].
        split; [reflexivity|]. split; [apply Shape_madd; auto|]. split; [|reflexivity].
        intros _. cbn [st_arr]. rewrite (EA eq_refl). reflexivity.
      * eexists; split; [reflexivity|]. split; [|discriminate].
        apply add_sim; auto. apply centres_all_inside; auto.
    + exists s. split; [reflexivity|]. split; [exact HSim|discriminate].
  - (* AddClusters *)
    simpl. eexists; split; [reflexivity|]. split; [|discriminate]. apply add_sim; auto.
  - (* Read *)
    unfold step, ideal_step, ideal_read. rewrite <- EF.
    destruct (st_frame s) as [|p f] eqn:F.
    + exists s. split; [reflexivity|]. split; [exact HSim|]. intros _. cbn [snd].
      rewrite <- (EA eq_refl). split; [exact HS|]. split; [exact HS|]. intros; reflexivity.
    + assert (HW : forallb (wrappable g) (fcl (p :: f)) = true).
      { eapply forallb_impl; [|exact HI]. intros c Hc'. apply inside_wrappable; auto. }
      destruct (bin_spec g (fcl (p :: f)) (zeros (g_rows g) (g_cols g)) (Shape_zeros _ _) HW) as [m [B [Sm G]]].
      rewrite B. cbn [fst snd]. eexists; split; [reflexivity|]. split.
      * split; [exact EF|]. split; [exact Sm|]. split; [discriminate|exact HI].
      * intros _. split; [exact Sm|]. split; [apply Shape_tabulate|].
        intros i j Hi Hj. rewrite (G i j Hi Hj), mget_zeros. unfold bin_exact. rewrite mget_tabulate by auto.
        rewrite (credit_ext (hit_wrap g) (hit_exact g)); [ring|].
        intros c Hc'. apply inside_hit; auto. rewrite forallb_forall in HI. apply HI; auto.
  - (* ReadFrame *)
    exists s. simpl. split; [reflexivity|]. split; [exact HSim|discriminate].
  - (* RemoveAll *)
    simpl in *. eexists; split; [reflexivity|]. split; [|discriminate].
    split; [reflexivity|]. split; [exact HS|]. split; [|reflexivity].
    intros _. cbn [st_arr]. apply EA. rewrite EF. destruct (st_frame t); auto. discriminate.
  - (* Remove *)
    destruct ids as [|k ids].
    + simpl in *. eexists; split; [reflexivity|]. split; [|discriminate].
      split; [reflexivity|]. split; [exact HS|]. split; [|reflexivity].
      intros _. cbn [st_arr]. apply EA. rewrite EF. destruct (st_frame t); auto. discriminate.
    + cbn [step ideal_step fst] in *. eexists; split; [reflexivity|]. split; [|discriminate].
      cbn [st_frame st_arr]. rewrite <- EF in *.
      split; [reflexivity|]. split; [exact HS|]. split; [|apply forallb_fcl_filter; auto].
      intros E. apply EA. cbn [st_frame] in E. unfold not_emptying in Hne. cbn [is_removal st_frame] in Hne. rewrite E in Hne.
      destruct (st_frame s); auto. discriminate.
  - (* Reset *)
    exists (init g). simpl. split; [reflexivity|]. split; [|discriminate].
    split; [reflexivity|]. split; [apply Shape_zeros|]. split; reflexivity.
Qed.

Lemma removal_safe_cons g t o ops :
  removal_safe g t (o :: ops) =
  not_emptying o (st_frame t) (st_frame (fst (ideal_step g t o))) && removal_safe g (fst (ideal_step g t o)) ops.
Proof. reflexivity. Qed.

Theorem sim_exec g ops : geom_ok g = true -> forall s t,
  Sim g s t -> forallb (op_ok_rm g) ops = true -> removal_safe g t ops = true ->
  exists s', exec g (Some s) ops = Some s' /\ Sim g s' (ideal_exec g t ops).
Proof.
  intros Hg. induction ops as [|o ops IH]; intros s t HSim Hok Hsafe.
  - exists s. split; [reflexivity|exact HSim].
  - simpl in Hok. apply andb_true_iff in Hok. destruct Hok as [Ho Hok].
    rewrite removal_safe_cons in Hsafe. apply andb_true_iff in Hsafe. destruct Hsafe as [Hne Hsafe].
    destruct (step_sim g s t o Hg HSim Ho Hne) as [s' [E [HS' _]]].
    destruct (IH s' _ HS' Hok Hsafe) as [s'' [E' HS'']].
    exists s''. split; [|exact HS''].
    unfold exec in *. simpl. rewrite E. exact E'.
Qed.

Lemma Sim_init g : Sim g (init g) (init g).
Proof. split; [reflexivity|]. split; [apply Shape_zeros|]. split; reflexivity. Qed.

Theorem read_sim_ideal g ops :
  geom_ok g = true -> forallb (op_ok_rm g) ops = true -> removal_safe g (init g) ops = true ->
  obs_equiv g (read_after g ops) (ideal_read_after g ops).
Proof.
  intros Hg Hok Hsafe.
  destruct (sim_exec g ops Hg _ _ (Sim_init g) Hok Hsafe) as [s' [E HS']].
  destruct (step_sim g s' _ Read Hg HS' eq_refl eq_refl) as [_ [_ [_ R]]].
  unfold read_after, ideal_read_after. rewrite E. exact (R eq_refl).
Qed.
