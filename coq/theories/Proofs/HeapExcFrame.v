(* C06 — proofs over Model/HeapExc.v: the frame property on the EXCEPTIONAL path (a rejected
   parameter value, a raising model, an aborted call, further calls after a failed one), results
   independent of earlier failures, the sites that touch the caller, reference-valued parameters. *)
From Coq Require Import String ZArith List Arith Bool Lia.
From PyxelV Require Import Model.Heap Model.HeapExc Proofs.HeapFrame.
Import ListNotations.

(* ---------------------------------------------------------------- reachability in an extended heap *)

Lemma reach_app_closed : forall s ext c,
  (forall y, reach s c y -> y < length s) ->
  forall y, reach (s ++ ext) c y -> reach s c y.
Proof.
  intros s ext c Hcl y Hr. induction Hr as [|x o f y Hr IH E Hin].
  - apply reach_refl.
  - pose proof (Hcl _ IH) as Hx. rewrite nth_error_app1 in E by assumption.
    eapply reach_step; eauto.
Qed.

Section Exc.
  Variables (params res : Type).
  Variable setp : params -> heap -> loc -> heap * bool.
  Variable run : params -> heap -> loc -> heap * option res.

  (* EXTERNAL: whatever is done ON THE COPY - Processor.set of the run's values (accepted or rejected
     half-way) followed by the pipeline (finishing or raising half-way) - changes only objects it can
     reach from the processor it was given; it may allocate *)
  Hypothesis exec_frame : forall ps s l, frame_ok s l (fst (exec params res setp run ps s l)).

  Lemma step_exc_as_obs_step : forall pol ps s p,
    step_exc params res setp run pol KCopy ps s p =
    match obs_step params (option res) (exec params res setp run) pol Deep ps s p with
    | Some x => x
    | None => (s, None)
    end.
  Proof.
    intros. unfold step_exc, obs_step, site_copy.
    destruct (deepcopy pol s p) as [[s1 c]|]; reflexivity.
  Qed.

  Lemma step_exc_prefix : forall pol, policy_ok pol = true -> forall ps s p,
    exists ext, fst (step_exc params res setp run pol KCopy ps s p) = s ++ ext.
  Proof.
    intros pol Hpol ps s p. rewrite step_exc_as_obs_step.
    destruct (obs_step params (option res) (exec params res setp run) pol Deep ps s p) as [[s2 r]|] eqn:E.
    - simpl. eapply (step_prefix params (option res) (exec params res setp run) exec_frame); eauto.
    - exists []. simpl. rewrite app_nil_r. reflexivity.
  Qed.

  (* one call, loop path or dask path, any number of failing runs anywhere *)
  Theorem observe_exc_frame : forall pol, policy_ok pol = true -> forall stop rs s p,
    exists ext, fst (observe_exc params res setp run stop pol KCopy rs s p) = s ++ ext.
  Proof.
    intros pol Hpol stop. induction rs as [|ps rest IH]; intros s p.
    - exists []. simpl. rewrite app_nil_r. reflexivity.
    - cbn [observe_exc]. destruct (step_exc_prefix pol Hpol ps s p) as [e1 He1].
      remember (step_exc params res setp run pol KCopy ps s p) as st eqn:Est.
      destruct (IH (fst st) p) as [e2 He2].
      destruct st as [s1 [r|]]; destruct stop; simpl in *;
        try (rewrite He2, He1; exists (e1 ++ e2); rewrite app_assoc; reflexivity).
      exists e1. exact He1.
  Qed.

  (* a whole history of calls on the same caller objects *)
  Theorem calls_exc_frame : forall pol, policy_ok pol = true -> forall cs s p,
    exists ext, fst (calls_exc params res setp run pol KCopy cs s p) = s ++ ext.
  Proof.
    intros pol Hpol. induction cs as [|c rest IH]; intros s p; simpl.
    - exists []. rewrite app_nil_r. reflexivity.
    - destruct (observe_exc_frame pol Hpol (fst c) (snd c) s p) as [e1 He1].
      destruct (IH (fst (observe_exc params res setp run (fst c) pol KCopy (snd c) s p)) p) as [e2 He2].
      rewrite He2, He1. exists (e1 ++ e2). rewrite app_assoc. reflexivity.
  Qed.

  Corollary calls_exc_frame_locs : forall pol, policy_ok pol = true -> forall cs s p x,
    x < length s ->
    nth_error (fst (calls_exc params res setp run pol KCopy cs s p)) x = nth_error s x.
  Proof.
    intros pol Hpol cs s p x Hx. destruct (calls_exc_frame pol Hpol cs s p) as [ext He].
    rewrite He. apply nth_error_app1. assumption.
  Qed.

  (* EXTERNAL: the outcome (a result or a failure) of set + run on a self-contained object graph is a
     function of that graph, not of where it is allocated nor of the rest of the heap *)
  Hypothesis exec_local : forall ps sa sb C, closed_graph C -> C <> [] ->
    snd (exec params res setp run ps (sa ++ shift (length sa) C) (length sa)) =
    snd (exec params res setp run ps (sb ++ shift (length sb) C) (length sb)).

  Lemma step_exc_ext : forall pol, policy_ok pol = true -> forall ps s ext p s1 c,
    deepcopy pol s p = Some (s1, c) ->
    snd (step_exc params res setp run pol KCopy ps (s ++ ext) p) =
    snd (step_exc params res setp run pol KCopy ps s p).
  Proof.
    intros pol Hpol ps s ext p s1 c Hd. unfold step_exc, deepcopy in *.
    destruct (copy_set pol s p) as [R|] eqn:ER; [|discriminate].
    destruct (copy_set_ext _ _ ext _ _ ER) as [ER' Hcan]. rewrite ER'.
    destruct (copy_set_spec _ _ _ _ ER) as [Hcl [_ Hne]].
    rewrite (block_shift pol s R (length s) Hpol).
    rewrite (block_shift pol (s ++ ext) R (length (s ++ ext)) Hpol). rewrite Hcan.
    assert (Hc : closed_graph (canon pol s R)) by (apply canon_closed; auto).
    assert (Hn : canon pol s R <> []) by (unfold canon, block; destruct R; [congruence|simpl; discriminate]).
    apply exec_local; assumption.
  Qed.

  (* the outcome of a run - its result, or the fact that it fails - after ANY history (calls that
     completed, calls aborted by a rejected value or a raising model, in any order) is its outcome
     on the untouched initial heap *)
  Theorem outcome_after_history : forall pol, policy_ok pol = true -> forall cs ps s0 p s1 c,
    deepcopy pol s0 p = Some (s1, c) ->
    snd (step_exc params res setp run pol KCopy ps
           (fst (calls_exc params res setp run pol KCopy cs s0 p)) p) =
    snd (step_exc params res setp run pol KCopy ps s0 p).
  Proof.
    intros pol Hpol cs ps s0 p s1 c Hd.
    destruct (calls_exc_frame pol Hpol cs s0 p) as [ext He]. rewrite He.
    eapply step_exc_ext; eauto.
  Qed.
End Exc.

(* ---------------------------------------------------------------- witnesses *)

Lemma exec_nonneg_touch_frame : forall k s l,
  frame_ok s l (fst (exec Z Z setp_nonneg run_touch_some k s l)).
Proof.
  intros k s l. unfold exec, setp_nonneg, run_touch_some. simpl.
  destruct (0 <=? k)%Z; simpl.
  - apply run_touch_frame.
  - split; [lia|auto].
Qed.

Lemma exec_nonneg_limit_frame : forall k s l,
  frame_ok s l (fst (exec Z Z setp_nonneg run_touch_limit k s l)).
Proof.
  intros k s l. unfold exec, setp_nonneg, run_touch_limit. simpl.
  destruct (0 <=? k)%Z; simpl.
  - apply run_touch_frame.
  - split; [lia|auto].
Qed.

Lemma exec_nonneg_limit_local : forall k sa sb C, closed_graph C -> C <> [] ->
  snd (exec Z Z setp_nonneg run_touch_limit k (sa ++ shift (length sa) C) (length sa)) =
  snd (exec Z Z setp_nonneg run_touch_limit k (sb ++ shift (length sb) C) (length sb)).
Proof.
  intros k sa sb C Hc Hn. unfold exec, setp_nonneg, run_touch_limit. simpl.
  destruct (0 <=? k)%Z; simpl; [|reflexivity].
  rewrite (run_touch_local k sa sb C Hc Hn). reflexivity.
Qed.

(* ---------------------------------------------------------------- reference-valued parameters *)

Section Ref.
  Variable res : Type.
  Variable run : loc -> heap -> loc -> heap * res.

  (* EXTERNAL: a run that is handed the location [d] of a parameter value changes only what it
     reaches from its processor or from [d] *)
  Hypothesis run_frame2 : forall d s l, frame2_ok s l d (fst (run d s l)).

  Lemma step_ref_prefix : forall pol, policy_ok pol = true -> forall d s p s' r,
    step_ref res run true pol d s p = Some (s', r) -> exists ext, s' = s ++ ext.
  Proof.
    intros pol Hpol d s p s' r H. unfold step_ref in H.
    destruct (deepcopy pol s p) as [[s1 c]|] eqn:E1; [|discriminate].
    destruct (deepcopy pol s1 d) as [[s2 d']|] eqn:E2; [|discriminate].
    inversion H as [Hrun]; clear H.
    destruct (deepcopy_fresh _ _ _ _ _ Hpol E1) as [Hc [[b1 [Hs1 _]] Hr1]].
    destruct (deepcopy_fresh _ _ _ _ _ Hpol E2) as [Hd' [[b2 [Hs2 _]] Hr2]].
    pose proof (run_frame2 d' s2 c) as [Hlen Hfr]. rewrite Hrun in *. simpl in *.
    assert (L1 : length s <= length s1) by (subst s1; rewrite app_length; lia).
    assert (L2 : length s1 <= length s2) by (subst s2; rewrite app_length; lia).
    exists (skipn (length s) s'). apply prefix_of_agree; [lia|].
    intros x Hx. rewrite Hfr; [| lia | |].
    - subst s2 s1. rewrite <- app_assoc. apply nth_error_app1. assumption.
    - intros Hr. subst s2.
      assert (Hr' : reach s1 c x).
      { eapply reach_app_closed; [|exact Hr]. intros y Hy. apply Hr1 in Hy. lia. }
      apply Hr1 in Hr'. lia.
    - intros Hr. apply Hr2 in Hr. lia.
  Qed.

  (* with the value deep-copied by the site, reference-valued parameters keep the frame *)
  Theorem observe_ref_frame : forall pol, policy_ok pol = true -> forall ds s0 p sn out,
    observe_ref res run true pol ds s0 p = Some (sn, out) ->
    forall x, x < length s0 -> nth_error sn x = nth_error s0 x.
  Proof.
    intros pol Hpol ds s0 p sn out H.
    assert (P : exists ext, sn = s0 ++ ext).
    { revert s0 sn out H. induction ds as [|d rest IH]; intros s0 sn out H; simpl in H.
      - inversion H; subst. exists []. rewrite app_nil_r. reflexivity.
      - destruct (step_ref res run true pol d s0 p) as [[s1 r]|] eqn:ES; [|discriminate].
        destruct (observe_ref res run true pol rest s1 p) as [[sn' out']|] eqn:EO; [|discriminate].
        inversion H; subst; clear H.
        destruct (step_ref_prefix pol Hpol _ _ _ _ _ ES) as [e1 He1].
        destruct (IH _ _ _ EO) as [e2 He2]. subst. exists (e1 ++ e2). rewrite app_assoc. reflexivity. }
    destruct P as [ext He]. subst. intros x Hx. apply nth_error_app1. assumption.
  Qed.
End Ref.

Lemma flag_of_true_In : forall rows name, flag_of rows name = true -> exists r, In r rows /\ snd r = true.
Proof.
  unfold flag_of. intros rows name H.
  destruct (find (fun r => String.eqb (fst r) name) rows) as [r|] eqn:E; [|discriminate].
  apply find_some in E. exists r. tauto.
Qed.

(* ---------------------------------------------------------------- a site that writes to the caller, with a finally clause *)

Lemma set_nth_same : forall (A : Type) n (a : A) l, n < length l -> nth_error (set_nth n a l) n = Some a.
Proof.
  intros A n a. induction n as [|n IH]; intros l Hn; unfold set_nth; simpl.
  - destruct l; simpl in *; [lia|reflexivity].
  - destruct l as [|h t]; simpl in *; [lia|]. apply (IH t). lia.
Qed.

Lemma detach_length : forall s d, length (detach s d) = length s.
Proof. intros. unfold detach. destruct (nth_error s d); [apply set_nth_length|reflexivity]. Qed.

Lemma detach_other : forall s d x, x <> d -> nth_error (detach s d) x = nth_error s x.
Proof. intros. unfold detach. destruct (nth_error s d); [apply set_nth_other; assumption|reflexivity]. Qed.

Lemma reattach_length : forall s0 s d, length (reattach s0 s d) = length s.
Proof. intros. unfold reattach. destruct (nth_error s0 d); [apply set_nth_length|reflexivity]. Qed.

Lemma reattach_other : forall s0 s d x, x <> d -> nth_error (reattach s0 s d) x = nth_error s x.
Proof. intros. unfold reattach. destruct (nth_error s0 d); [apply set_nth_other; assumption|reflexivity]. Qed.

(* putting back what [s0] held at [d] into a heap that agrees with [detach s0 d] on the old
   locations gives a heap that agrees with [s0] on the old locations *)
Lemma reattach_restores : forall s0 s d,
  length s0 <= length s ->
  (forall x, x < length s0 -> nth_error s x = nth_error (detach s0 d) x) ->
  forall x, x < length s0 -> nth_error (reattach s0 s d) x = nth_error s0 x.
Proof.
  intros s0 s d Hlen Hag x Hx. destruct (Nat.eq_dec x d) as [->|Hne].
  - unfold reattach. destruct (nth_error s0 d) as [o|] eqn:E.
    + apply set_nth_same. lia.
    + apply nth_error_None in E. lia.
  - rewrite reattach_other by assumption. rewrite Hag by assumption. apply detach_other. assumption.
Qed.

Lemma reattach_far : forall s0 s d x, length s0 <= x -> nth_error (reattach s0 s d) x = nth_error s x.
Proof.
  intros s0 s d x Hx. unfold reattach. destruct (nth_error s0 d) as [o|] eqn:E; [|reflexivity].
  apply set_nth_other. intros ->. assert (d < length s0) by (apply nth_error_Some; congruence). lia.
Qed.

Section Detach.
  Variables (params res : Type).
  Variable setp : params -> heap -> loc -> heap * bool.
  Variable run : params -> heap -> loc -> heap * option res.

  Hypothesis setp_frame : forall ps s l, frame_ok s l (fst (setp ps s l)).
  Hypothesis run_frame : forall ps s l, frame_ok s l (fst (run ps s l)).
  (* EXTERNAL: the values Processor.set stores are payload or newly allocated objects: among the
     locations that existed before, it makes nothing reachable that was not reachable already *)
  Hypothesis setp_no_capture : forall ps s l x,
    reach (fst (setp ps s l)) l x -> x < length s -> reach s l x.

  Lemma step_detach_guarded_agrees : forall pol, policy_ok pol = true -> forall ps s p,
    length s <= length (fst (step_exc params res setp run pol (KDetach true) ps s p)) /\
    forall x, x < length s ->
      nth_error (fst (step_exc params res setp run pol (KDetach true) ps s p)) x = nth_error s x.
  Proof.
    intros pol Hpol ps s p. unfold step_exc.
    destruct (detector_of s p) as [d|]; [|simpl; split; [lia|auto]].
    assert (L1 : length (detach s d) = length s) by apply detach_length.
    destruct (deepcopy pol (detach s d) p) as [[s2 c]|] eqn:ED.
    - destruct (deepcopy_fresh _ _ _ _ _ Hpol ED) as [Hc [[blk [Hs2 _]] Hreach]].
      pose proof (setp_frame ps s2 c) as [Hlen3 Hfr3].
      assert (L2 : length (detach s d) <= length s2) by (subst s2; rewrite app_length; lia).
      assert (A3 : forall x, x < length s -> nth_error (fst (setp ps s2 c)) x = nth_error (detach s d) x).
      { intros x Hx. rewrite Hfr3; [| lia |].
        - subst s2. apply nth_error_app1. lia.
        - intros Hr. apply Hreach in Hr. lia. }
      assert (A4 : forall x, x < length s ->
                   nth_error (reattach s (fst (setp ps s2 c)) d) x = nth_error s x).
      { apply reattach_restores; [lia | exact A3]. }
      destruct (snd (setp ps s2 c)).
      + (* accepted: the caller is put back, then the pipeline runs on the copy *)
        pose proof (run_frame ps (reattach s (fst (setp ps s2 c)) d) c) as [Hlen5 Hfr5].
        assert (L4 : length (reattach s (fst (setp ps s2 c)) d) = length (fst (setp ps s2 c)))
          by apply reattach_length.
        split; [lia|]. intros x Hx. rewrite Hfr5; [apply A4; assumption | lia |].
        intros Hr.
        assert (G : forall y, reach (reattach s (fst (setp ps s2 c)) d) c y ->
                              reach (fst (setp ps s2 c)) c y /\ length s <= y).
        { intros y Hy. induction Hy as [|x' o f y Hy IH E Hin].
          - split; [apply reach_refl | lia].
          - destruct IH as [R3 Hge]. rewrite reattach_far in E by exact Hge.
            assert (R3' : reach (fst (setp ps s2 c)) c y) by (eapply reach_step; eauto).
            split; [exact R3'|].
            destruct (Nat.lt_ge_cases y (length s2)) as [Hlt|Hge2]; [|lia].
            apply setp_no_capture in R3'; [|exact Hlt]. apply Hreach in R3'. lia. }
        apply G in Hr. lia.
      + (* rejected: the finally clause puts the caller back *)
        simpl. rewrite reattach_length. split; [lia | exact A4].
    - (* the copy itself raised *)
      simpl. rewrite reattach_length. split; [lia|].
      apply reattach_restores; [lia | auto].
  Qed.
End Detach.

(* ---------------------------------------------------------------- any site kind whose step keeps the old heap as a prefix *)

Section GenSite.
  Variables (params res : Type).
  Variable setp : params -> heap -> loc -> heap * bool.
  Variable run : params -> heap -> loc -> heap * option res.
  Variable pol : policy.
  Variable k : skind.
  Hypothesis step_pref : forall ps s p,
    exists ext, fst (step_exc params res setp run pol k ps s p) = s ++ ext.

  Lemma observe_exc_frame_gen : forall stop rs s p,
    exists ext, fst (observe_exc params res setp run stop pol k rs s p) = s ++ ext.
  Proof.
    intros stop. induction rs as [|ps rest IH]; intros s p.
    - exists []. simpl. rewrite app_nil_r. reflexivity.
    - cbn [observe_exc]. destruct (step_pref ps s p) as [e1 He1].
      remember (step_exc params res setp run pol k ps s p) as st eqn:Est.
      destruct (IH (fst st) p) as [e2 He2].
      destruct st as [s1 [r|]]; destruct stop; simpl in *;
        try (rewrite He2, He1; exists (e1 ++ e2); rewrite app_assoc; reflexivity).
      exists e1. exact He1.
  Qed.

  Lemma calls_exc_frame_gen : forall cs s p,
    exists ext, fst (calls_exc params res setp run pol k cs s p) = s ++ ext.
  Proof.
    induction cs as [|c rest IH]; intros s p; simpl.
    - exists []. rewrite app_nil_r. reflexivity.
    - destruct (observe_exc_frame_gen (fst c) (snd c) s p) as [e1 He1].
      destruct (IH (fst (observe_exc params res setp run (fst c) pol k (snd c) s p)) p) as [e2 He2].
      rewrite He2, He1. exists (e1 ++ e2). rewrite app_assoc. reflexivity.
  Qed.
End GenSite.

Section DetachCalls.
  Variables (params res : Type).
  Variable setp : params -> heap -> loc -> heap * bool.
  Variable run : params -> heap -> loc -> heap * option res.
  Hypothesis setp_frame : forall ps s l, frame_ok s l (fst (setp ps s l)).
  Hypothesis run_frame : forall ps s l, frame_ok s l (fst (run ps s l)).
  Hypothesis setp_no_capture : forall ps s l x,
    reach (fst (setp ps s l)) l x -> x < length s -> reach s l x.

  (* a site that writes to the caller before copying and puts everything back in a FINALLY clause
     keeps the frame on every history, failing runs included *)
  Theorem calls_detach_guarded_frame : forall pol, policy_ok pol = true -> forall cs s p x,
    x < length s ->
    nth_error (fst (calls_exc params res setp run pol (KDetach true) cs s p)) x = nth_error s x.
  Proof.
    intros pol Hpol cs s p x Hx.
    destruct (calls_exc_frame_gen params res setp run pol (KDetach true)) with (cs := cs) (s := s) (p := p)
      as [ext He].
    - intros ps s' p'.
      destruct (step_detach_guarded_agrees params res setp run setp_frame run_frame setp_no_capture
                  pol Hpol ps s' p') as [Hl Ha].
      exists (skipn (length s') (fst (step_exc params res setp run pol (KDetach true) ps s' p'))).
      apply prefix_of_agree; assumption.
    - rewrite He. apply nth_error_app1. assumption.
  Qed.
End DetachCalls.

Lemma setp_nonneg_frame : forall k s l, frame_ok s l (fst (setp_nonneg k s l)).
Proof. intros. unfold setp_nonneg. simpl. split; [lia|auto]. Qed.

Lemma setp_nonneg_no_capture : forall k s l x,
  reach (fst (setp_nonneg k s l)) l x -> x < length s -> reach s l x.
Proof. intros k s l x H _. exact H. Qed.

Lemma run_touch_some_frame : forall k s l, frame_ok s l (fst (run_touch_some k s l)).
Proof. intros. unfold run_touch_some. simpl. apply run_touch_frame. Qed.
