(* C07 — the parameter array of the parallel path vs. the runs of the sequential path; the file index. *)
From Coq Require Import ZArith List Bool Lia PeanoNat Permutation.
From PyxelV Require Import Model.Parallel.
Import ListNotations.

(* ------------------------------------------------------------------------------ cart / Permutation *)

Lemma flat_map_perm_ext {A B} (f g : A -> list B) (l : list A) :
  (forall x, In x l -> Permutation (f x) (g x)) -> Permutation (flat_map f l) (flat_map g l).
Proof.
  induction l as [|a l IH]; simpl; intros H; [constructor|].
  apply Permutation_app; [apply H; now left | apply IH; intros; apply H; now right].
Qed.

Lemma cart_perm {A} (ls ls' : list (list A)) :
  Forall2 (@Permutation A) ls ls' -> Permutation (cart ls) (cart ls').
Proof.
  induction 1 as [|l l' r r' Hl Hr IH]; simpl; [apply Permutation_refl|].
  transitivity (flat_map (fun x => map (cons x) (cart r)) l').
  - now apply Permutation_flat_map.
  - apply flat_map_perm_ext; intros; now apply Permutation_map.
Qed.

Lemma Forall2_map_norm {A} (norm : list A -> list A) :
  (forall l, Permutation (norm l) l) -> forall vs, Forall2 (@Permutation A) (map norm vs) vs.
Proof. intros H vs; induction vs; simpl; constructor; auto. Qed.

Lemma cart_length {A} (ls : list (list A)) : length (cart ls) = prodn (map (@length A) ls).
Proof.
  induction ls as [|l r IH]; simpl; [reflexivity|].
  induction l as [|x l IHl]; simpl; [reflexivity|].
  rewrite app_length, map_length, IHl, IH. reflexivity.
Qed.

Lemma cart_In {A} (ls : list (list A)) (t : list A) :
  In t (cart ls) <-> Forall2 (fun x l => In x l) t ls.
Proof.
  revert t; induction ls as [|l r IH]; simpl; intros t.
  - split; [intros [<-|[]]; constructor | intros H; inversion H; now left].
  - rewrite in_flat_map. split.
    + intros (x & Hx & Ht). apply in_map_iff in Ht as (t' & <- & Ht'). constructor; [assumption|now apply IH].
    + intros H; inversion H as [|x ? t' ? Hx Ht']; subst. exists x; split; [assumption|].
      apply in_map_iff; exists t'; split; [reflexivity|now apply IH].
Qed.


Lemma snd_combine {A B} (a : list A) (b : list B) : length a = length b -> map snd (combine a b) = b.
Proof.
  revert b; induction a as [|x a IH]; destruct b as [|y b]; simpl; try discriminate; [reflexivity|].
  intros [= H]. now rewrite IH.
Qed.

Lemma seq_product_snd {A} (vs : list (list A)) : map snd (seq_product vs) = cart vs.
Proof.
  unfold seq_product. apply snd_combine.
  rewrite !cart_length, map_map. f_equal. apply map_ext; intros; now rewrite seq_length.
Qed.

(* ------------------------------------------------------------------------------ mixed radix *)

Lemma prodn_pos ds : Forall (fun d => 0 < d) ds -> 0 < prodn ds.
Proof. induction 1; simpl; [lia|]. apply Nat.mul_pos_pos; assumption. Qed.

Lemma valid_index_length dims mi : valid_index dims mi -> length mi = length dims.
Proof.
  revert mi; induction dims as [|d ds IH]; destruct mi; simpl; try tauto. intros [_ H]; f_equal; auto.
Qed.

Lemma rank_lt dims mi : valid_index dims mi -> rank dims mi < prodn dims.
Proof.
  revert mi; induction dims as [|d ds IH]; destruct mi as [|i mi]; simpl; try tauto; [lia|].
  intros [Hi Hv]. specialize (IH _ Hv). nia.
Qed.

Lemma unrank_rank dims mi : valid_index dims mi -> unrank dims (rank dims mi) = mi.
Proof.
  revert mi; induction dims as [|d ds IH]; destruct mi as [|i mi]; simpl; try tauto.
  intros [Hi Hv]. pose proof (rank_lt _ _ Hv) as Hr.
  assert (Hp : prodn ds <> 0) by lia.
  f_equal.
  - rewrite Nat.div_add_l by assumption. rewrite Nat.div_small by assumption. lia.
  - rewrite Nat.add_comm, Nat.mod_add by assumption. rewrite Nat.mod_small by assumption. now apply IH.
Qed.

Lemma unrank_valid dims n : n < prodn dims -> valid_index dims (unrank dims n).
Proof.
  revert n; induction dims as [|d ds IH]; simpl; intros n Hn; [exact I|].
  assert (Hp : prodn ds <> 0) by (intros E; rewrite E in Hn; lia).
  split.
  - apply Nat.div_lt_upper_bound; [assumption|lia].
  - apply IH. apply Nat.mod_upper_bound; assumption.
Qed.

Lemma rank_unrank dims n : n < prodn dims -> rank dims (unrank dims n) = n.
Proof.
  revert n; induction dims as [|d ds IH]; simpl; intros n Hn; [lia|].
  assert (Hp : prodn ds <> 0) by (intros E; rewrite E in Hn; lia).
  rewrite IH by (apply Nat.mod_upper_bound; assumption).
  pose proof (Nat.div_mod n (prodn ds) Hp). lia.
Qed.

Lemma rank_injective dims mi mi' :
  valid_index dims mi -> valid_index dims mi' -> rank dims mi = rank dims mi' -> mi = mi'.
Proof. intros H H' E. rewrite <- (unrank_rank _ _ H), <- (unrank_rank _ _ H'), E. reflexivity. Qed.

(* ------------------------------------------------- the flat position of a cell is its rank *)

Lemma nth_error_flat_map_uniform {A B} (f : A -> list B) (n : nat) (l : list A) (i j : nat) (x : A) :
  (forall y, length (f y) = n) -> nth_error l i = Some x -> j < n ->
  nth_error (flat_map f l) (i * n + j) = nth_error (f x) j.
Proof.
  intros Hlen. revert i; induction l as [|a l IH]; intros i Hi Hj; [destruct i; discriminate|].
  destruct i as [|i]; simpl in *.
  - injection Hi as ->. rewrite nth_error_app1 by (rewrite Hlen; assumption). reflexivity.
  - rewrite nth_error_app2 by (rewrite Hlen; lia). rewrite Hlen.
    replace (n + i * n + j - n) with (i * n + j) by lia. now apply IH.
Qed.

Lemma cart_nth_rank {A} (levels : list (list A)) (mi : list nat) (t : list A) :
  pick levels mi = Some t ->
  nth_error (cart levels) (rank (map (@length A) levels) mi) = Some t.
Proof.
  revert mi t; induction levels as [|l ls IH]; intros [|i mi] t; simpl; try discriminate.
  - intros [= <-]. reflexivity.
  - destruct (nth_error l i) as [x|] eqn:Hx; [|discriminate].
    destruct (pick ls mi) as [r|] eqn:Hr; [|discriminate]. intros [= <-].
    specialize (IH _ _ Hr).
    assert (Hlt : rank (map (@length A) ls) mi < prodn (map (@length A) ls)).
    { rewrite <- cart_length. apply nth_error_Some. rewrite IH. discriminate. }
    rewrite (nth_error_flat_map_uniform _ (prodn (map (@length A) ls)) l i _ x); try assumption.
    + rewrite nth_error_map, IH. reflexivity.
    + intros y. rewrite map_length. apply cart_length.
Qed.

Lemma pick_valid {A} (levels : list (list A)) (mi : list nat) :
  valid_index (map (@length A) levels) mi -> exists t, pick levels mi = Some t.
Proof.
  revert mi; induction levels as [|l ls IH]; intros [|i mi]; simpl; try tauto.
  - eexists; reflexivity.
  - intros [Hi Hv]. destruct (IH _ Hv) as [r ->].
    destruct (nth_error l i) eqn:E; [eexists; reflexivity|]. apply nth_error_None in E. lia.
Qed.

(* ------------------------------------------------------------------------------ product mode *)

Section Product.
  Context {A : Type}.
  Variable norm : list A -> list A.
  Variable ok : list A -> bool.
  Hypothesis norm_perm : forall l, Permutation (norm l) l.

  (* the cells of the dask parameter array are, as a multiset, exactly the value tuples the
     sequential path runs; the array has one cell per run; the cell with multi-index mi (flat
     position rank mi = its file index) holds exactly the values its coordinates name *)
  Lemma product_params_agree vs sh cells :
    dask_product_gen norm ok vs = Some (sh, cells) ->
    Permutation cells (map snd (seq_product vs))
    /\ length cells = prodn sh
    /\ (forall mi, valid_index sh mi ->
          exists t, pick (map norm vs) mi = Some t /\ nth_error cells (rank sh mi) = Some t).
  Proof.
    unfold dask_product_gen. destruct (forallb ok vs); [|discriminate]. intros [= <- <-].
    pose proof (seq_product_snd vs) as Hsnd.
    assert (Hlen : map (@length A) (map norm vs) = map (@length A) vs).
    { rewrite map_map. apply map_ext; intros l. apply Permutation_length, norm_perm. }
    repeat split.
    - rewrite Hsnd. apply cart_perm, Forall2_map_norm, norm_perm.
    - rewrite cart_length, Hlen. reflexivity.
    - intros mi Hv. rewrite <- Hlen in Hv. destruct (pick_valid _ _ Hv) as [t Ht].
      exists t; split; [assumption|]. rewrite <- Hlen. now apply cart_nth_rank.
  Qed.
End Product.

(* the concrete normalisation: insertion sort is a permutation *)
Lemma insert_sorted_perm x l : Permutation (insert_sorted x l) (x :: l).
Proof.
  induction l as [|y r IH]; simpl; [reflexivity|].
  destruct (pval_leb x y); [reflexivity|]. rewrite IH. apply perm_swap.
Qed.

Lemma sort_level_perm l : Permutation (sort_level l) l.
Proof.
  induction l as [|x r IH]; simpl; [constructor|]. rewrite insert_sorted_perm. now constructor.
Qed.

(* a value list that is already in level order is left alone: then the dask array IS the run list *)
Fixpoint strictly_sorted (l : list pval) : bool :=
  match l with
  | [] => true
  | x :: r => match r with [] => true | y :: _ => pval_leb x y && negb (pval_eqb x y) && strictly_sorted r end
  end.

Lemma sort_level_sorted l : strictly_sorted l = true -> sort_level l = l.
Proof.
  induction l as [|x r IH]; [reflexivity|]. intros H. simpl sort_level.
  destruct r as [|y r']; [reflexivity|].
  simpl in H. apply andb_true_iff in H as [H1 H3]. apply andb_true_iff in H1 as [H1 H2].
  rewrite IH by exact H3. simpl. rewrite H1. reflexivity.
Qed.

Lemma product_sorted_exact vs :
  forallb strictly_sorted vs = true -> forallb nodupb vs = true ->
  dask_product vs = Some (map (@length pval) vs, map snd (seq_product vs)).
Proof.
  intros Hs Hn. unfold dask_product, dask_product_gen. rewrite Hn. f_equal. f_equal.
  assert (E : map sort_level vs = vs).
  { induction vs as [|l r IH]; [reflexivity|]. simpl in *. apply andb_true_iff in Hs as [H1 H2].
    apply andb_true_iff in Hn as [_ Hn]. rewrite sort_level_sorted, IH by assumption. reflexivity. }
  rewrite E. symmetry. apply seq_product_snd.
Qed.

(* ------------------------------------------------------------------------------ sequential mode *)

Lemma seq_sequential_from_length {A} k (d : list A) vs :
  length (seq_sequential_from k d vs) = list_sum (map (@length (A)) vs).
Proof.
  revert k; induction vs as [|l r IH]; intros k; simpl; [reflexivity|].
  rewrite app_length, map_length, IH. reflexivity.
Qed.

Lemma zipn_length_le {A} (l : list A) r : length (zipn (l :: r)) <= length l.
Proof.
  destruct r as [|l' r']; simpl zipn.
  - now rewrite map_length.
  - rewrite map_length, combine_length. lia.
Qed.

(* one parameter: the two paths run exactly the same list *)
Lemma sequential_single {A} (d : A) (l : list A) : dask_sequential [l] = seq_sequential [d] [l].
Proof. unfold dask_sequential, seq_sequential; simpl. now rewrite app_nil_r. Qed.

(* two or more parameters with values: the dask path ALWAYS has fewer runs *)
Lemma sequential_fewer_runs {A} (d : list A) l1 l2 rest :
  l1 <> [] -> l2 <> [] ->
  length (dask_sequential (l1 :: l2 :: rest)) < length (seq_sequential d (l1 :: l2 :: rest)).
Proof.
  intros H1 H2. unfold dask_sequential, seq_sequential. rewrite seq_sequential_from_length.
  pose proof (zipn_length_le l1 (l2 :: rest)) as Hz.
  assert (E : list_sum (map (@length A) (l1 :: l2 :: rest)) =
              length l1 + (length l2 + list_sum (map (@length A) rest))) by reflexivity.
  rewrite E. destruct l2 as [|y l2]; [congruence|]. simpl length in *. lia.
Qed.

(* ------------------------------------------------------------------------------ custom mode *)

Definition no_singleton_list (p : cpar) : Prop := p <> CVec 1.

Lemma custom_row_agree ps : Forall no_singleton_list ps -> forall row, dask_custom_row ps row = seq_custom_row ps row.
Proof.
  induction 1 as [|p r Hp _ IH]; intros row; [reflexivity|].
  destruct p as [|w]; simpl.
  - rewrite IH. destruct row; reflexivity.
  - destruct (Nat.eqb w 1) eqn:E; [apply Nat.eqb_eq in E; subst; now elim Hp|]. now rewrite IH.
Qed.

Lemma custom_agree ps table : Forall no_singleton_list ps -> dask_custom ps table = seq_custom ps table.
Proof. intros H. unfold dask_custom, seq_custom. apply map_ext. now apply custom_row_agree. Qed.

(* the slicing is by offset = sum of the earlier widths (no column read twice, none skipped) *)
Lemma seq_custom_row_flat ps row :
  length row = list_sum (map width ps) ->
  flat_map (fun v => match v with PS z => [z] | PV zs => zs end) (seq_custom_row ps row) = row.
Proof.
  revert row; induction ps as [|p r IH]; intros row Hl; simpl in *.
  - destruct row; [reflexivity|discriminate].
  - destruct p as [|w]; simpl in *.
    + destruct row as [|z row]; [discriminate|]. simpl. f_equal. apply IH. simpl in Hl. lia.
    + rewrite IH; [apply firstn_skipn|]. rewrite skipn_length. lia.
Qed.
