(* C01 — boolean comparisons used by the correspondence leg decide Leibniz equality. *)
From Coq Require Import List String ZArith Bool Arith PeanoNat Lia.
From PyxelV Require Import Model.Pipeline.
Import ListNotations.
Open Scope list_scope.

Section PyvalInd.
  Variable P : pyval -> Prop.
  Hypothesis HInt : forall z, P (VInt z).
  Hypothesis HBool : forall b, P (VBool b).
  Hypothesis HStr : forall s, P (VStr s).
  Hypothesis HNone : P VNone.
  Hypothesis HList : forall l, Forall P l -> P (VList l).
  Hypothesis HDict : forall l, Forall P l -> P (VDict l).

  Fixpoint pyval_ind2 (v : pyval) : P v :=
    match v with
    | VInt z => HInt z
    | VBool b => HBool b
    | VStr s => HStr s
    | VNone => HNone
    | VList l =>
        HList l ((fix go (l : list pyval) : Forall P l :=
                    match l with
                    | [] => Forall_nil P
                    | x :: r => Forall_cons x (pyval_ind2 x) (go r)
                    end) l)
    | VDict l =>
        HDict l ((fix go (l : list pyval) : Forall P l :=
                    match l with
                    | [] => Forall_nil P
                    | x :: r => Forall_cons x (pyval_ind2 x) (go r)
                    end) l)
    end.
End PyvalInd.

Lemma list_eqb_eq {A} (eqb : A -> A -> bool) (l : list A) :
  Forall (fun x => forall y, eqb x y = true <-> x = y) l ->
  forall l', list_eqb eqb l l' = true <-> l = l'.
Proof.
  induction 1 as [|x l Hx _ IH]; intros [|y l']; simpl; split; intro H; try reflexivity; try discriminate.
  - apply andb_true_iff in H. destruct H as [H1 H2]. apply Hx in H1. apply IH in H2. subst. reflexivity.
  - injection H as -> ->. apply andb_true_iff. split; [apply Hx|apply IH]; reflexivity.
Qed.

Lemma pyval_eqb_list xs ys :
  pyval_eqb (VList xs) (VList ys) = list_eqb pyval_eqb xs ys.
Proof.
  simpl. revert ys. induction xs as [|x xs IH]; intros [|y ys]; simpl; try reflexivity.
  rewrite IH. reflexivity.
Qed.

Lemma pyval_eqb_dict xs ys :
  pyval_eqb (VDict xs) (VDict ys) = list_eqb pyval_eqb xs ys.
Proof.
  simpl. revert ys. induction xs as [|x xs IH]; intros [|y ys]; simpl; try reflexivity.
  rewrite IH. reflexivity.
Qed.

Lemma pyval_eqb_eq a : forall b, pyval_eqb a b = true <-> a = b.
Proof.
  induction a as [z|b0|s| |l IH|l IH] using pyval_ind2; intros [z'|b'|s'| |l'|l'];
    try (simpl; split; intro H; (discriminate H || reflexivity)).
  - simpl. rewrite Z.eqb_eq. split; [intros ->; reflexivity|intros [= ->]; reflexivity].
  - simpl. rewrite Bool.eqb_true_iff. split; [intros ->; reflexivity|intros [= ->]; reflexivity].
  - simpl. rewrite String.eqb_eq. split; [intros ->; reflexivity|intros [= ->]; reflexivity].
  - rewrite pyval_eqb_list. rewrite (list_eqb_eq pyval_eqb l IH).
    split; [intros ->; reflexivity|intros [= ->]; reflexivity].
  - rewrite pyval_eqb_dict. rewrite (list_eqb_eq pyval_eqb l IH).
    split; [intros ->; reflexivity|intros [= ->]; reflexivity].
Qed.

Lemma kwargs_eqb_eq a : forall b, kwargs_eqb a b = true <-> a = b.
Proof.
  induction a as [|[k v] a IH]; intros [|[k' v'] b]; simpl; split; intro H; try reflexivity; try discriminate.
  - rewrite !andb_true_iff in H. destruct H as [[H1 H2] H3].
    apply String.eqb_eq in H1. apply pyval_eqb_eq in H2. apply IH in H3. subst. reflexivity.
  - injection H as -> -> ->. rewrite !andb_true_iff. repeat split.
    + apply String.eqb_refl.
    + apply pyval_eqb_eq. reflexivity.
    + apply IH. reflexivity.
Qed.

Lemma obs_eqb_eq a b : obs_eqb a b = true <-> a = b.
Proof.
  destruct a as [[s n] k], b as [[s' n'] k']. simpl. rewrite !andb_true_iff, Nat.eqb_eq, String.eqb_eq, kwargs_eqb_eq.
  split; [intros [[-> ->] ->]; reflexivity|intros [= -> -> ->]; auto].
Qed.

Lemma trace_eqb_eq (a b : list obs_call) : list_eqb obs_eqb a b = true <-> a = b.
Proof. apply list_eqb_eq. apply Forall_forall. intros x _ y. apply obs_eqb_eq. Qed.
