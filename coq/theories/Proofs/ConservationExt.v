(* C15, round 2: charge held as particles / arrays at collection time, the two sources of the full-well capacity
   and of the quantum efficiency, degenerate binomial draws, and the prefix form of the CDM bound. *)
From Coq Require Import QArith Qround Qabs Qminmax ZArith List Bool Lia Lra Psatz.
From PyxelV Require Import Model.Conservation Proofs.ConservationBasic Proofs.ConservationPersist
  Proofs.ConservationCdm.
Import ListNotations.
Open Scope Q_scope.

(* ------------------------------------------------------------------------------------------ collection *)

Lemma add_at_length : forall l k v, length (add_at k v l) = length l.
Proof. induction l as [|x l IH]; intros [|k] v; simpl; auto. Qed.

Lemma add_at_total : forall l k v, (k < length l)%nat -> qsum (add_at k v l) == qsum l + v.
Proof.
  induction l as [|x l IH]; intros [|k] v H; simpl in *; try lia; try lra.
  rewrite IH by lia. lra.
Qed.

Lemma flat_idx_in : forall rows cols sv sh p, particle_in rows cols sv sh p = true ->
  (flat_idx cols sv sh p < rows * cols)%nat.
Proof.
  intros rows cols sv sh p H. unfold particle_in in H. unfold flat_idx.
  set (iv := bin_idx (p_ver p) sv) in *. set (ih := bin_idx (p_hor p) sh) in *.
  repeat rewrite andb_true_iff in H. destruct H as [[[H1 H2] H3] H4].
  apply Z.leb_le in H1, H3. apply Z.ltb_lt in H2, H4.
  apply Nat2Z.inj_lt. rewrite Z2Nat.id by nia. rewrite Nat2Z.inj_mul. nia.
Qed.

Lemma bin_particles_length : forall cols sv sh ps acc,
  length (bin_particles cols sv sh ps acc) = length acc.
Proof.
  intros cols sv sh. induction ps as [|p ps IH]; intros acc; simpl; [reflexivity|].
  rewrite IH. apply add_at_length.
Qed.

(* binning the particle frame keeps every electron: the array holds what it held plus all the particles *)
Lemma bin_particles_total : forall rows cols sv sh ps acc, length acc = (rows * cols)%nat ->
  forallb (particle_in rows cols sv sh) ps = true ->
  qsum (bin_particles cols sv sh ps acc) == qsum acc + particles_total ps.
Proof.
  intros rows cols sv sh. induction ps as [|p ps IH]; intros acc L H; simpl in *; [lra|].
  apply andb_true_iff in H as [H1 H2].
  rewrite IH; [|rewrite add_at_length; exact L | exact H2].
  rewrite add_at_total; [lra|]. rewrite L. apply (flat_idx_in rows cols sv sh p H1).
Qed.

Lemma qadd_list_length : forall a b, length a = length b -> length (qadd_list a b) = length a.
Proof. induction a as [|x a IH]; intros [|y b] H; simpl in *; try discriminate; auto. Qed.

Lemma charge_array_total : forall rows cols sv sh ops acc, length acc = (rows * cols)%nat ->
  forallb (op_ok rows cols sv sh) ops = true ->
  qsum (charge_array cols sv sh ops acc) == qsum acc + ops_total ops
  /\ length (charge_array cols sv sh ops acc) = length acc.
Proof.
  intros rows cols sv sh. induction ops as [|o ops IH]; intros acc L H; simpl in *; [split; [lra|reflexivity]|].
  apply andb_true_iff in H as [H1 H2]. destruct o as [a|ps]; simpl in H1.
  - apply Nat.eqb_eq in H1. assert (La : length acc = length a) by congruence.
    destruct (collect_frame_exact acc a La) as [E Lq].
    destruct (IH (qadd_list acc a)) as [I1 I2]; [congruence | exact H2 |].
    split; [lra | congruence].
  - pose proof (bin_particles_total rows cols sv sh ps acc L H1) as E.
    pose proof (bin_particles_length cols sv sh ps acc) as Lb.
    destruct (IH (bin_particles cols sv sh ps acc)) as [I1 I2]; [congruence | exact H2 |].
    split; [lra | congruence].
Qed.

Lemma zeros_total : forall (l : list Q), qsum (map (fun _ => 0) l) == 0 /\ length (map (fun _ : Q => 0) l) = length l.
Proof.
  induction l as [|x l [I1 I2]]; simpl; split; try lra; try reflexivity. now rewrite I2.
Qed.

(* simple_collection adds exactly the generated charge, whatever mixture of arrays and particles holds it *)
Lemma collect_ops_exact : forall rows cols sv sh pixel ops, length pixel = (rows * cols)%nat ->
  forallb (op_ok rows cols sv sh) ops = true ->
  qsum (collect_ops cols sv sh pixel ops) == qsum pixel + ops_total ops
  /\ length (collect_ops cols sv sh pixel ops) = length pixel.
Proof.
  intros rows cols sv sh pixel ops L H. unfold collect_ops.
  destruct (zeros_total pixel) as [Z0 ZL].
  destruct (charge_array_total rows cols sv sh ops (map (fun _ => 0) pixel)) as [E Lc]; [congruence | exact H |].
  destruct (collect_frame_exact pixel (charge_array cols sv sh ops (map (fun _ => 0) pixel))) as [E2 L2];
    [congruence|]. split; [lra | exact L2].
Qed.

(* a particle lies in the pixel its position falls into: index * size <= position < (index + 1) * size *)
Lemma bin_idx_spec : forall pos size, 0 < size ->
  inject_Z (bin_idx pos size) * size <= pos /\ pos < (inject_Z (bin_idx pos size) + 1) * size.
Proof.
  intros pos size Hs. unfold bin_idx.
  pose proof (Qfloor_le (pos / size)) as F1. pose proof (Qlt_floor (pos / size)) as F2.
  rewrite inject_Z_plus in F2. change (inject_Z 1) with 1 in F2.
  assert (E : pos == pos / size * size) by (field; lra).
  split.
  - rewrite E at 2. apply Qmult_le_compat_r; lra.
  - rewrite E at 1. apply Qmult_lt_compat_r; lra.
Qed.

(* ------------------------------------------------------------------------------------------ sources *)

Lemma select_arg_override : forall a char, select_arg (Some a) char = Some a.
Proof. reflexivity. Qed.

Lemma full_well_sel_spec : forall arg char xs,
  (forall a, arg = Some a -> simple_full_well_sel arg char xs = simple_full_well a xs)
  /\ (arg = None -> forall c, char = Some c -> simple_full_well_sel arg char xs = simple_full_well c xs)
  /\ (arg = None -> char = None -> simple_full_well_sel arg char xs = None).
Proof.
  intros. repeat split; intros; subst; reflexivity.
Qed.

Lemma qe_select_spec : forall arg char,
  (forall a, arg = Some a -> 0 <= a <= 1 -> qe_select arg char = Some a)
  /\ (forall a, arg = Some a -> ~ (0 <= a <= 1) -> qe_select arg char = None)
  /\ (arg = None -> forall c, char = Some c -> 0 <= c <= 1 -> qe_select arg char = Some c)
  /\ (arg = None -> char = None -> qe_select arg char = None).
Proof.
  intros. unfold qe_select. repeat split; intros; subst; simpl; try reflexivity.
  - destruct H0 as [A B]. apply Qle_bool_iff in A, B. rewrite A, B. reflexivity.
  - destruct (Qle_bool 0 a) eqn:A; destruct (Qle_bool a 1) eqn:B; simpl; try reflexivity.
    exfalso. apply H0. split; apply Qle_bool_iff; assumption.
  - destruct H1 as [A B]. apply Qle_bool_iff in A, B. rewrite A, B. reflexivity.
Qed.

Section Degenerate.
  (* a draw with success probability one returns all its trials, with probability zero none *)
  Variable binom : Z -> Q -> Z.
  Hypothesis binom_one : forall n, (0 <= n)%Z -> binom n 1 = n.
  Hypothesis binom_zero : forall n, (0 <= n)%Z -> binom n 0 = 0%Z.

  Lemma qe_on_degenerate : forall p, 0 <= p ->
    qe_on binom 1 p = inject_Z (Qfloor p) /\ qe_on binom 0 p = 0.
  Proof.
    intros p Hp. unfold qe_on. rewrite (qtrunc_nonneg p Hp).
    rewrite binom_one, binom_zero by (apply Qfloor_nonneg; exact Hp). split; reflexivity.
  Qed.
End Degenerate.

(* ------------------------------------------------------------------------------------------ CDM prefixes *)

Section Prefix.
  Variable P : cdm_par.
  Hypothesis gam_range : forall i k, 0 <= gam P i k.
  Hypothesis pw_range : forall i k a, thr < a -> 0 <= pw P i k a.
  Hypothesis pcap_range : forall i k a, 0 <= pcap P i k a <= 1.
  Hypothesis rel_range : forall k, 0 <= rel P k <= 1.

  (* the output of the first m pixels depends on the first m pixels only *)
  Lemma cdm_line_firstn : forall m px i nos,
    firstn m (fst (cdm_line P i px nos)) = fst (cdm_line P i (firstn m px) nos).
  Proof.
    induction m as [|m IH]; intros px i nos; [reflexivity|].
    destruct px as [|a t]; [reflexivity|]. cbn [cdm_line firstn].
    destruct (cdm_species P i 0 a nos) as [a' nos'].
    specialize (IH t (S i) nos').
    destruct (cdm_line P (S i) t nos') as [t' n1]. destruct (cdm_line P (S i) (firstn m t) nos') as [t2 n2].
    cbn [fst firstn] in *. now rewrite IH.
  Qed.

  Lemma firstn_nonneg : forall m l, nonneg l -> nonneg (firstn m l).
  Proof.
    unfold nonneg. induction m as [|m IH]; intros l H; simpl; [constructor|].
    destruct l as [|x l]; [constructor|]. inversion H; subst. constructor; [assumption | apply IH; assumption].
  Qed.

  (* no prefix of a line ends with more charge than that prefix (and the traps) held *)
  Lemma cdm_line_prefix : forall m px i nos, nonneg px -> nonneg nos ->
    qsum (firstn m (fst (cdm_line P i px nos))) <= qsum (firstn m px) + qsum nos.
  Proof.
    intros m px i nos Hp Hn. rewrite cdm_line_firstn.
    pose proof (cdm_line_ok P gam_range pw_range pcap_range rel_range (firstn m px) i nos
                  (firstn_nonneg m px Hp) Hn) as (_ & L2 & _ & L4).
    pose proof (qsum_nonneg _ L2). lra.
  Qed.

  Lemma cdm_run_prefix : forall nsp lines, Forall nonneg lines ->
    Forall2 (fun li lo => forall m, qsum (firstn m lo) <= qsum (firstn m li)) lines (cdm_run P nsp lines).
  Proof.
    intros nsp lines H. unfold cdm_run. induction H as [|px lines Hpx Hl IH]; simpl; constructor; [|exact IH].
    intros m. destruct (repeat0 nsp) as [R1 R2].
    pose proof (cdm_line_prefix m px 0%nat (repeat 0 nsp) Hpx R1). lra.
  Qed.
End Prefix.

(* ------------------------------------------------------------------------------------------ CDM range checks *)

Lemma Qltb_lt : forall a b, Qltb a b = true <-> a < b.
Proof. intros. unfold Qltb. destruct (Qlt_le_dec a b); split; intros; try assumption; try reflexivity; try discriminate; lra. Qed.

(* parameters that pass the wrapper's checks make both divisors of the capture coefficients
   (alpha = t*sigma*vth*fwc**beta / (2*vg),  g = 2*nt*vg / fwc**beta) non-zero *)
Lemma cdm_params_divisors : forall vg beta fwc t, cdm_params_ok vg beta fwc t = true ->
  0 < 2 * vg /\ 0 < fwc /\ vg <= 1 /\ fwc <= 10000000 /\ 0 <= beta <= 1 /\ 0 <= t <= 10.
Proof.
  intros vg beta fwc t H. unfold cdm_params_ok in H. repeat rewrite andb_true_iff in H.
  destruct H as [[[[[[[H1 H2] H3] H4] H5] H6] H7] H8].
  apply Qltb_lt in H1, H5. apply Qle_bool_iff in H2, H3, H4, H6, H7, H8. repeat split; lra.
Qed.

Lemma cdm_params_reject_zero : forall beta fwc t vg,
  cdm_params_ok 0 beta fwc t = false /\ cdm_params_ok vg beta 0 t = false.
Proof.
  intros. split; unfold cdm_params_ok.
  - reflexivity.
  - assert (E : Qltb 0 0 = false) by reflexivity. rewrite E. rewrite !andb_false_r. reflexivity.
Qed.

(* ------------------------------------------------------------------------------------------ CDM, any beta *)

Definition par_ok (P : cdm_par) : Prop :=
  (forall i k, 0 <= gam P i k) /\ (forall i k a, thr < a -> 0 <= pw P i k a)
  /\ (forall i k a, 0 <= pcap P i k a <= 1) /\ (forall k, 0 <= rel P k <= 1).

Lemma cdm_line0_ok : forall P nsp px, par_ok P -> nonneg px ->
  let lo := fst (cdm_line P 0 px (repeat 0 nsp)) in
  nonneg lo /\ length lo = length px /\ (forall m, qsum (firstn m lo) <= qsum (firstn m px)).
Proof.
  intros P nsp px (H1 & H2 & H3 & H4) Hp. cbv zeta.
  destruct (repeat0 nsp) as [R1 R2].
  pose proof (cdm_line_ok P H1 H2 H3 H4 px 0%nat (repeat 0 nsp) Hp R1) as (L1 & _ & L3 & _).
  repeat split; try assumption. intros m.
  pose proof (cdm_line_prefix P H1 H2 H3 H4 m px 0%nat (repeat 0 nsp) Hp R1). lra.
Qed.

(* every line with its own factors *)
Lemma cdm_run_each_ok : forall Ps nsp lines, Forall par_ok Ps -> length Ps = length lines ->
  Forall nonneg lines ->
  Forall2 (fun li lo => nonneg lo /\ length lo = length li /\ (forall m, qsum (firstn m lo) <= qsum (firstn m li)))
          lines (cdm_run_each Ps nsp lines).
Proof.
  induction Ps as [|P Ps IH]; intros nsp [|px lines] HP HL Hl; simpl in *; try discriminate; constructor.
  - inversion HP; subst. inversion Hl; subst. apply cdm_line0_ok; assumption.
  - inversion HP; subst. inversion Hl; subst. apply IH; try assumption. congruence.
Qed.

Lemma fac_ok_default : fac_ok (0, 0) = true.
Proof. reflexivity. Qed.

Lemma table_nth_ok : forall tbl i k, table_ok tbl = true -> fac_ok (nth k (nth i tbl []) (0, 0)) = true.
Proof.
  intros tbl i k H. unfold table_ok in H. rewrite forallb_forall in H.
  destruct (nth_in_or_default i tbl []) as [Hin|E].
  - specialize (H _ Hin). rewrite forallb_forall in H.
    destruct (nth_in_or_default k (nth i tbl []) (0, 0)) as [Hin2|E2]; [apply H; exact Hin2 | rewrite E2; reflexivity].
  - rewrite E. destruct k; reflexivity.
Qed.

(* the table instance (factors as numpy evaluates them, whatever they are, as long as they lie in their ranges)
   meets the hypotheses of the CDM theorems *)
Lemma cdm_par_table_ok : forall gs rs inj tbl,
  nonneg gs -> Forall (fun r => 0 <= r <= 1) rs -> match inj with Some n => 0 <= n | None => True end ->
  table_ok tbl = true -> par_ok (cdm_par_table gs rs inj tbl).
Proof.
  intros gs rs inj tbl Hg Hr Hi Ht. unfold par_ok. split; [|split; [|split]].
  - intros i k. simpl. assert (0 <= nth k gs 0) by (apply (nth_range (fun x => 0 <= x)); [lra | exact Hg]).
    assert (0 <= match inj with Some n => n | None => inject_Z (Z.of_nat i) end).
    { destruct inj; [assumption|]. change 0 with (inject_Z 0). rewrite <- Zle_Qle. lia. }
    nra.
  - intros i k a _. simpl. pose proof (table_nth_ok tbl i k Ht) as F. unfold fac_ok in F.
    repeat rewrite andb_true_iff in F. destruct F as [[F1 _] _]. apply Qle_bool_iff in F1. exact F1.
  - intros i k a. simpl. pose proof (table_nth_ok tbl i k Ht) as F. unfold fac_ok in F.
    repeat rewrite andb_true_iff in F. destruct F as [[_ F2] F3]. apply Qle_bool_iff in F2, F3. split; assumption.
  - intros k. simpl. apply (nth_range (fun x => 0 <= x <= 1)); [lra | exact Hr].
Qed.

Lemma cdm_table_run_ok : forall gs rs inj tbls lines,
  nonneg gs -> Forall (fun r => 0 <= r <= 1) rs -> match inj with Some n => 0 <= n | None => True end ->
  forallb table_ok tbls = true -> length tbls = length lines -> Forall nonneg lines ->
  Forall2 (fun li lo => nonneg lo /\ length lo = length li /\ (forall m, qsum (firstn m lo) <= qsum (firstn m li)))
          lines (cdm_run_each (map (cdm_par_table gs rs inj) tbls) (length gs) lines).
Proof.
  intros gs rs inj tbls lines Hg Hr Hi Ht HL Hl. apply cdm_run_each_ok; try assumption.
  - rewrite forallb_forall in Ht. apply Forall_forall. intros P HP. apply in_map_iff in HP as (tbl & E & Hin).
    subst P. apply cdm_par_table_ok; try assumption. apply Ht; exact Hin.
  - rewrite map_length. exact HL.
Qed.

(* ------------------------------------------------------------------------------------------ QE map *)

Lemma qe_in_range_iff : forall q, qe_in_range q = true <-> 0 <= q <= 1.
Proof. intros q. unfold qe_in_range. rewrite andb_true_iff, !Qle_bool_iff. tauto. Qed.

(* an accepted map converts every pixel with its own efficiency: between zero and the photons of that pixel *)
Lemma qe_map_bounds : forall qs photon out, length qs = length photon -> nonneg photon ->
  qe_map_model qs photon = Some out ->
  Forall (fun q => 0 <= q <= 1) qs
  /\ Forall2 (fun qp o => o == fst qp * snd qp /\ 0 <= o <= snd qp) (combine qs photon) out.
Proof.
  intros qs photon out HL Hp H. unfold qe_map_model in H.
  destruct (forallb qe_in_range qs) eqn:R; [|discriminate]. injection H as H. subst out.
  assert (RQ : Forall (fun q => 0 <= q <= 1) qs).
  { rewrite forallb_forall in R. apply Forall_forall. intros q Hq. apply qe_in_range_iff. apply R; exact Hq. }
  split; [exact RQ|]. clear R. revert photon HL Hp.
  induction RQ as [|q qs Hq RQ IH]; intros [|p photon] HL Hp; simpl in *; try discriminate; constructor.
  - inversion Hp; subst. simpl. split; [apply qe_off_exact | apply qe_off_bounds; assumption].
  - inversion Hp; subst. apply IH; [congruence | assumption].
Qed.

Lemma qe_map_refused : forall qs photon, qe_map_model qs photon = None <-> ~ Forall (fun q => 0 <= q <= 1) qs.
Proof.
  intros qs photon. unfold qe_map_model. destruct (forallb qe_in_range qs) eqn:R; split; intros H; try discriminate; try reflexivity.
  - exfalso. apply H. rewrite forallb_forall in R. apply Forall_forall. intros q Hq. apply qe_in_range_iff. apply R; exact Hq.
  - intros F. assert (forallb qe_in_range qs = true); [|congruence].
    apply forallb_forall. intros q Hq. apply qe_in_range_iff. rewrite Forall_forall in F. apply F; exact Hq.
Qed.
