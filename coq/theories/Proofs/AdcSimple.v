(* C16: the simple converter as repaired (double precision, clamp of trunc(output) to the largest double
   not above full scale, voltages at or above the range maximum set to full scale exactly).
   For EVERY resolution 0..64, EVERY finite range vmin < vmax and EVERY non-NaN voltage (infinities
   included): the code lies in 0 .. 2^bits-1, is non-decreasing in the voltage, is 0 at or below the
   minimum and 2^bits-1 at or above the maximum; the float -> unsigned cast is defined whenever the span
   vmax - vmin does not overflow; a NaN voltage gives an undefined cast. *)
From Coq Require Import ZArith List Bool Reals Lia Lra.
From Flocq Require Import Core BinarySingleNaN.
From PyxelV Require Import Lib.B64 Model.Adc Proofs.AdcChain Proofs.AdcFloat.
Import ListNotations.
Open Scope R_scope.

Notation fexp64 := (SpecFloat.fexp 53 1024).
Notation rnd := (round radix2 fexp64 ZnearestE).
Notation rtz := (round radix2 (FIX_exp 0) Ztrunc).
Notation big := (bpow radix2 1024).

#[local] Instance fexp64_valid_s : Valid_exp fexp64 := fexp_correct 53 1024 _.

Lemma big_pos : 0 < big.
Proof. apply bpow_gt_0. Qed.

Lemma B2R_lt_big (z : b64) : B2R z < big.
Proof. apply Rle_lt_trans with (Rabs (B2R z)); [apply Rle_abs|apply abs_B2R_lt_emax]. Qed.

(* ---------------------------------------------------------------- signs *)

Lemma Bsign_pos (x : b64) : is_finite x = true -> 0 < B2R x -> Bsign x = false.
Proof.
  destruct x as [s|s| |s m e B]; simpl; intros F P; try discriminate; try lra.
  destruct s; [exfalso|reflexivity].
  assert (F2R (Float radix2 (cond_Zopp true (Z.pos m)) e) < 0) by (apply F2R_lt_0; reflexivity).
  lra.
Qed.

(* ---------------------------------------------------------------- non-negative numbers or +inf *)

Definition nn (z : b64) : Prop := z = pinf \/ (is_finite z = true /\ 0 <= B2R z).

(* value in [0, 2^1024], +inf being 2^1024 *)
Definition ev (z : b64) : R :=
  match z with B754_infinity false => big | _ => B2R z end.

Definition sat (r : R) : R := Rmin r big.

Lemma sat_mono a b : a <= b -> sat a <= sat b.
Proof. intros H. unfold sat. apply Rle_min_compat_r. exact H. Qed.

Lemma sat_le_big a : sat a <= big.
Proof. apply Rmin_r. Qed.

Lemma ev_finite z : is_finite z = true -> ev z = B2R z.
Proof. destruct z as [s|s| |s m e B]; try discriminate; reflexivity. Qed.

Lemma ev_pinf : ev pinf = big.
Proof. reflexivity. Qed.

Lemma ev_range z : nn z -> 0 <= ev z <= big.
Proof.
  intros [->|[F P]].
  - rewrite ev_pinf. pose proof big_pos. lra.
  - rewrite (ev_finite _ F). pose proof (B2R_lt_big z). lra.
Qed.

Lemma nn_small z : nn z -> ev z < big -> is_finite z = true /\ 0 <= B2R z.
Proof. intros [->|H] L; [rewrite ev_pinf in L; lra|exact H]. Qed.

Lemma nn_finite z : is_finite z = true -> 0 <= B2R z -> nn z.
Proof. intros F P. right. split; assumption. Qed.

(* ---------------------------------------------------------------- multiplication and division that
   may overflow: the result is the rounded real result, or +inf exactly when that reaches 2^1024 *)

Lemma bmul_nn (a b : b64) :
  is_finite a = true -> is_finite b = true -> 0 <= B2R a -> 0 <= B2R b ->
  nn (bmul a b) /\ ev (bmul a b) = sat (rnd (B2R a * B2R b)).
Proof.
  intros Fa Fb Pa Pb. unfold bmul.
  generalize (Bmult_correct 53 1024 _ _ mode_NE a b). rewrite rnd_eq.
  assert (P0 : 0 <= B2R a * B2R b) by (apply Rmult_le_pos; assumption).
  assert (H0 : 0 <= rnd (B2R a * B2R b)) by (apply rnd_nonneg; exact P0).
  rewrite Rabs_pos_eq by exact H0.
  case Rlt_bool_spec; intros Hlt.
  - intros [E [F _]]. rewrite Fa, Fb in F. simpl in F. split.
    + apply nn_finite; [exact F|]. rewrite E. exact H0.
    + rewrite (ev_finite _ F), E. unfold sat. rewrite Rmin_left; lra.
  - intros E.
    assert (NZ : B2R a * B2R b <> 0).
    { intros Z. rewrite Z, rnd_0 in Hlt. pose proof big_pos. lra. }
    assert (Pa' : 0 < B2R a).
    { destruct (Rle_lt_or_eq_dec _ _ Pa) as [L|Q]; [exact L|]. exfalso. apply NZ. rewrite <- Q. ring. }
    assert (Pb' : 0 < B2R b).
    { destruct (Rle_lt_or_eq_dec _ _ Pb) as [L|Q]; [exact L|]. exfalso. apply NZ. rewrite <- Q. ring. }
    rewrite (Bsign_pos a Fa Pa'), (Bsign_pos b Fb Pb') in E.
    assert (Q : Bmult mode_NE a b = pinf).
    { destruct (Bmult mode_NE a b) as [s|s| |s m e B]; try discriminate E. inversion E. reflexivity. }
    rewrite Q. split; [left; reflexivity|]. rewrite ev_pinf. unfold sat. rewrite Rmin_right; lra.
Qed.

Lemma bdiv_nn_finite (a s : b64) :
  is_finite a = true -> 0 <= B2R a -> is_finite s = true -> 0 < B2R s ->
  nn (bdiv a s) /\ ev (bdiv a s) = sat (rnd (B2R a / B2R s)).
Proof.
  intros Fa Pa Fs Ps. unfold bdiv.
  assert (Zs : B2R s <> 0) by lra.
  generalize (Bdiv_correct 53 1024 _ _ mode_NE a s Zs). rewrite rnd_eq.
  assert (P0 : 0 <= B2R a / B2R s).
  { apply Rmult_le_pos; [exact Pa|]. apply Rlt_le, Rinv_0_lt_compat, Ps. }
  assert (H0 : 0 <= rnd (B2R a / B2R s)) by (apply rnd_nonneg; exact P0).
  rewrite Rabs_pos_eq by exact H0.
  case Rlt_bool_spec; intros Hlt.
  - intros [E [F _]]. rewrite Fa in F. split.
    + apply nn_finite; [exact F|]. rewrite E. exact H0.
    + rewrite (ev_finite _ F), E. unfold sat. rewrite Rmin_left; lra.
  - intros E.
    assert (Pa' : 0 < B2R a).
    { destruct (Rle_lt_or_eq_dec _ _ Pa) as [L|Q]; [exact L|]. exfalso.
      rewrite <- Q in Hlt. unfold Rdiv in Hlt. rewrite Rmult_0_l, rnd_0 in Hlt. pose proof big_pos. lra. }
    rewrite (Bsign_pos a Fa Pa'), (Bsign_pos s Fs Ps) in E.
    assert (Q : Bdiv mode_NE a s = pinf).
    { destruct (Bdiv mode_NE a s) as [s0|s0| |s0 m e B]; try discriminate E. inversion E. reflexivity. }
    rewrite Q. split; [left; reflexivity|]. rewrite ev_pinf. unfold sat. rewrite Rmin_right; lra.
Qed.

Lemma bdiv_pinf (s : b64) : is_finite s = true -> 0 < B2R s -> bdiv pinf s = pinf.
Proof.
  intros Fs Ps. pose proof (Bsign_pos s Fs Ps) as Hs.
  destruct s as [s0|s0| |s0 m e B]; try discriminate; simpl in Ps; try lra.
  simpl in Hs. subst s0. reflexivity.
Qed.

(* the value of a / s for a non-negative-or-infinite a *)
Definition divR (a s : b64) : R :=
  match a with B754_infinity false => big | _ => sat (rnd (B2R a / B2R s)) end.

Lemma divR_finite a s : is_finite a = true -> divR a s = sat (rnd (B2R a / B2R s)).
Proof. destruct a as [s0|s0| |s0 m e B]; try discriminate; reflexivity. Qed.

Lemma bdiv_nn (a s : b64) :
  nn a -> is_finite s = true -> 0 < B2R s -> nn (bdiv a s) /\ ev (bdiv a s) = divR a s.
Proof.
  intros [->|[Fa Pa]] Fs Ps.
  - rewrite (bdiv_pinf s Fs Ps). split; [left; reflexivity|reflexivity].
  - rewrite (divR_finite _ _ Fa). apply bdiv_nn_finite; assumption.
Qed.

Lemma divR_mono (a a' s : b64) :
  nn a -> nn a' -> 0 < B2R s -> ev a <= ev a' -> divR a s <= divR a' s.
Proof.
  intros Na Na' Ps Hle.
  destruct Na' as [->|[Fa' Pa']].
  - change (divR pinf s) with big.
    destruct Na as [->|[Fa Pa]]; [apply Rle_refl|]. rewrite (divR_finite _ _ Fa). apply sat_le_big.
  - rewrite (ev_finite _ Fa') in Hle.
    destruct Na as [->|[Fa Pa]].
    + rewrite ev_pinf in Hle. pose proof (B2R_lt_big a'). lra.
    + rewrite (ev_finite _ Fa) in Hle. rewrite !divR_finite by assumption.
      apply sat_mono, rnd_le. apply Rmult_le_compat_r; [|exact Hle].
      apply Rlt_le, Rinv_0_lt_compat, Ps.
Qed.

(* ---------------------------------------------------------------- np.trunc and np.minimum(., top) *)

Lemma rtz_le a b : a <= b -> rtz a <= rtz b.
Proof. apply round_le; auto with typeclass_instances. Qed.

Lemma rtz_0 : rtz 0 = 0.
Proof. apply round_0; auto with typeclass_instances. Qed.

Lemma rtz_nonneg a : 0 <= a -> 0 <= rtz a.
Proof. intros H. rewrite <- rtz_0. apply rtz_le. exact H. Qed.

(* truncation toward zero does not increase a non-negative number *)
Lemma rtz_le_id a : 0 <= a -> rtz a <= a.
Proof.
  intros H. rewrite round_ZR_DN by exact H. apply round_DN_pt. auto with typeclass_instances.
Qed.

Lemma btrunc_finite (x : b64) :
  is_finite x = true -> is_finite (btrunc x) = true /\ B2R (btrunc x) = rtz (B2R x).
Proof.
  intros F. unfold btrunc. destruct (Bnearbyint_correct 53 1024 _ mode_ZR x) as [E [Fi _]].
  rewrite F in Fi. split; [exact Fi|exact E].
Qed.

(* value of trunc(o) for a non-negative-or-infinite o *)
Definition evT (o : b64) : R :=
  match o with B754_infinity false => big | _ => rtz (B2R o) end.

Lemma evT_finite o : is_finite o = true -> evT o = rtz (B2R o).
Proof. destruct o as [s0|s0| |s0 m e B]; try discriminate; reflexivity. Qed.

Lemma evT_mono (o o' : b64) : nn o -> nn o' -> ev o <= ev o' -> evT o <= evT o'.
Proof.
  intros No No' Hle.
  destruct No' as [->|[F' P']].
  - change (evT pinf) with big. destruct No as [->|[F P]]; [apply Rle_refl|].
    rewrite (evT_finite _ F). apply Rle_trans with (B2R o); [apply rtz_le_id; exact P|].
    apply Rlt_le, B2R_lt_big.
  - rewrite (ev_finite _ F') in Hle. destruct No as [->|[F P]].
    + rewrite ev_pinf in Hle. pose proof (B2R_lt_big o'). lra.
    + rewrite (ev_finite _ F) in Hle. rewrite !evT_finite by assumption. apply rtz_le. exact Hle.
Qed.

Lemma evT_nonneg o : nn o -> 0 <= evT o.
Proof.
  intros [->|[F P]]; [change (evT pinf) with big; apply Rlt_le, big_pos|].
  rewrite (evT_finite _ F). apply rtz_nonneg. exact P.
Qed.

Lemma bmin_finite (t top : b64) :
  is_finite t = true -> is_finite top = true ->
  is_finite (bminimum t top) = true /\ B2R (bminimum t top) = Rmin (B2R t) (B2R top).
Proof.
  intros Ft Ftop. unfold bminimum. rewrite (finite_not_nan _ Ft), (finite_not_nan _ Ftop).
  destruct (ble t top) eqn:E.
  - split; [exact Ft|]. apply ble_finite_true in E; auto. rewrite Rmin_left; auto.
  - split; [exact Ftop|]. apply ble_finite_false in E; auto. rewrite Rmin_right; lra.
Qed.

Lemma bmin_pinf (top : b64) : is_finite top = true -> bminimum pinf top = top.
Proof. destruct top as [s0|s0| |s0 m e B]; try discriminate; reflexivity. Qed.

(* minimum(trunc(o), top) for a non-negative-or-infinite o is finite and lies in [0, top] *)
Lemma clamp_nn (o top : b64) :
  nn o -> is_finite top = true -> 0 <= B2R top ->
  is_finite (bminimum (btrunc o) top) = true /\
  B2R (bminimum (btrunc o) top) = Rmin (evT o) (B2R top).
Proof.
  intros [->|[F P]] Ftop Ptop.
  - change (btrunc pinf) with pinf. rewrite (bmin_pinf _ Ftop). split; [exact Ftop|].
    change (evT pinf) with big. rewrite Rmin_right; [reflexivity|]. apply Rlt_le, B2R_lt_big.
  - destruct (btrunc_finite o F) as [Ft Et].
    destruct (bmin_finite _ _ Ft Ftop) as [Fm Em]. split; [exact Fm|].
    rewrite Em, Et, (evT_finite _ F). reflexivity.
Qed.

(* ---------------------------------------------------------------- the largest double not above full scale *)

Definition top_ok (b : Z) : bool :=
  is_finite (top_float b) && ble pzero (top_float b) && (Btrunc (top_float b) <=? max_code b)%Z.

Lemma top_table : forallb top_ok (zrange 0 65) = true.
Proof. vm_compute. reflexivity. Qed.

Lemma top_facts (bits : Z) : (0 <= bits <= 64)%Z ->
  is_finite (top_float bits) = true /\ 0 <= B2R (top_float bits) /\
  (Btrunc (top_float bits) <= max_code bits)%Z.
Proof.
  intros H. generalize top_table. rewrite forallb_forall. intros T.
  specialize (T bits (in_zrange 0 65 bits ltac:(lia))). unfold top_ok in T.
  apply andb_prop in T. destruct T as [T T3]. apply andb_prop in T. destruct T as [T1 T2].
  split; [exact T1|]. split.
  - apply (ble_finite_true pzero _ eq_refl T1) in T2. exact T2.
  - apply Z.leb_le. exact T3.
Qed.

(* ---------------------------------------------------------------- comparisons with the range ends *)

Lemma bge_false_clamp (x hi : b64) :
  bis_nan x = false -> is_finite hi = true -> bge x hi = false ->
  x = ninf \/ (is_finite x = true /\ B2R x < B2R hi).
Proof.
  intros Nx Fh H. unfold bge in H.
  destruct x as [s|[|]| |s m e B]; try discriminate.
  - right. split; [reflexivity|]. apply ble_finite_false; auto.
  - left. reflexivity.
  - exfalso. revert H. unfold ble. destruct hi; try discriminate; simpl; discriminate.
  - right. split; [reflexivity|]. apply ble_finite_false; auto.
Qed.

Lemma below_min_not_above_max (x lo hi : b64) :
  bis_nan x = false -> is_finite lo = true -> is_finite hi = true -> B2R lo < B2R hi ->
  ble x lo = true -> bge x hi = false.
Proof.
  intros Nx Fl Fh Hlt H. unfold bge.
  destruct x as [s|[|]| |s m e B]; try discriminate.
  - apply ble_finite_true in H; auto. rewrite ble_finite by auto.
    case Rle_bool_spec; [intros; lra|reflexivity].
  - unfold ble. destruct hi; try discriminate; reflexivity.
  - exfalso. revert H. unfold ble. destruct lo; try discriminate; simpl; discriminate.
  - apply ble_finite_true in H; auto. rewrite ble_finite by auto.
    case Rle_bool_spec; [intros; lra|reflexivity].
Qed.

(* the order is respected by the comparison with the range maximum *)
Lemma bge_mono (x y hi : b64) :
  bis_nan x = false -> bis_nan y = false -> is_finite hi = true ->
  ble x y = true -> bge x hi = true -> bge y hi = true.
Proof.
  intros Nx Ny Fh Hxy Hx. unfold bge in *.
  destruct y as [sy|[|]| |sy my ey By]; try discriminate Ny;
  destruct x as [sx|[|]| |sx mx ex Bx]; try discriminate Nx.
  all: try (exfalso; revert Hx; unfold ble; destruct hi; try discriminate; simpl; discriminate).
  all: try (exfalso; revert Hxy; unfold ble; simpl; discriminate).
  all: try (unfold ble; destruct hi; try discriminate; reflexivity).
  all: apply ble_finite_true in Hxy; [|reflexivity|reflexivity].
  all: apply ble_finite_true in Hx; [|exact Fh|reflexivity].
  all: rewrite ble_finite by (exact Fh || reflexivity).
  all: case Rle_bool_spec; [reflexivity|intros; lra].
Qed.

(* ---------------------------------------------------------------- NaN *)

Lemma bsub_nan_l (y : b64) : bsub bnan y = bnan.
Proof. destruct y; reflexivity. Qed.

Lemma bmul_nan_l (y : b64) : bmul bnan y = bnan.
Proof. destruct y; reflexivity. Qed.

Lemma bdiv_nan_l (y : b64) : bdiv bnan y = bnan.
Proof. destruct y; reflexivity. Qed.

Lemma bge_nan_l (y : b64) : bge bnan y = false.
Proof. unfold bge, ble. destruct y; reflexivity. Qed.

Theorem simple_nan (w bits : Z) (vmin vmax : b64) : simple_code w bits vmin vmax bnan = None.
Proof.
  unfold simple_code. rewrite bge_nan_l. unfold simple_clamped, simple_scaled.
  change (bclip bnan vmin vmax) with bnan.
  rewrite bsub_nan_l, bmul_nan_l, bdiv_nan_l. reflexivity.
Qed.

(* ---------------------------------------------------------------- the converter *)

Section Simple.
Variables (bits : Z) (vmin vmax : b64).
Hypothesis Hbits : (0 <= bits <= 64)%Z.
Hypothesis Fmin : is_finite vmin = true.
Hypothesis Fmax : is_finite vmax = true.
Hypothesis Hrange : B2R vmin < B2R vmax.

Let Mf := bofZ (2 ^ bits - 1).
Let S := bsub vmax vmin.
Let top := top_float bits.
Let cl := clampX (B2R vmin) (B2R vmax).
Let o := simple_scaled bits vmin vmax.
Let m := simple_clamped bits vmin vmax.

Lemma Hbits0 : (0 <= bits)%Z.
Proof. lia. Qed.

Lemma FM : is_finite Mf = true.
Proof. apply bofZ_scale_finite. exact Hbits. Qed.

Lemma PM : 0 <= B2R Mf.
Proof. apply (Mf_nonneg bits Hbits0). Qed.

Lemma max_code_nonneg : (0 <= max_code bits)%Z.
Proof. unfold max_code. assert (0 < 2 ^ bits)%Z by (apply Z.pow_pos_nonneg; lia). lia. Qed.

(* the real value of r1 = clip(x) - vmin when the span does not overflow *)
Definition R1 (x : b64) : R := rnd (cl x - B2R vmin).

Lemma r1_value (x : b64) :
  bis_nan x = false -> is_finite S = true ->
  is_finite (bsub (bclip x vmin vmax) vmin) = true /\
  B2R (bsub (bclip x vmin vmax) vmin) = R1 x /\ 0 <= R1 x.
Proof.
  intros Nx FS.
  destruct (bclip_B2R x vmin vmax Nx Fmin Fmax (Rlt_le _ _ Hrange)) as [Fc Ec].
  assert (Hcl : B2R vmin <= cl x <= B2R vmax) by (apply clampX_range; lra).
  assert (ES : B2R S = rnd (B2R vmax - B2R vmin)) by (apply bsub_finite_inv; assumption).
  assert (H0 : 0 <= R1 x) by (apply rnd_nonneg; lra).
  assert (H1 : R1 x <= B2R S) by (rewrite ES; apply rnd_le; lra).
  unfold bsub. generalize (Bminus_correct 53 1024 _ _ mode_NE _ _ Fc Fmin).
  rewrite Ec, rnd_eq. fold cl. fold (R1 x).
  rewrite Rlt_bool_true.
  - intros [E [F _]]. repeat split; assumption.
  - rewrite Rabs_pos_eq by exact H0. pose proof (B2R_lt_big S). lra.
Qed.

(* the extended value of the scaled output when the span does not overflow *)
Definition E3 (x : b64) : R := divR (bmul (bsub (bclip x vmin vmax) vmin) Mf) S.

Lemma scaled_nn (x : b64) :
  bis_nan x = false -> is_finite S = true -> 0 < B2R S ->
  nn (o x) /\ ev (o x) = E3 x /\
  nn (bmul (bsub (bclip x vmin vmax) vmin) Mf) /\
  ev (bmul (bsub (bclip x vmin vmax) vmin) Mf) = sat (rnd (R1 x * B2R Mf)).
Proof.
  intros Nx FS PS.
  destruct (r1_value x Nx FS) as [F1 [E1 P1]].
  assert (P1' : 0 <= B2R (bsub (bclip x vmin vmax) vmin)) by (rewrite E1; exact P1).
  destruct (bmul_nn _ _ F1 FM P1' PM) as [N2 E2]. rewrite E1 in E2.
  destruct (bdiv_nn _ S N2 FS PS) as [N3 E3'].
  unfold o, simple_scaled. fold Mf S. repeat split; assumption.
Qed.

(* shape of the scaled output in general: non-negative or +inf, or NaN (overflowing span only) *)
Lemma scaled_shape (x : b64) : bis_nan x = false -> nn (o x) \/ o x = bnan.
Proof.
  intros Nx. destruct (span_cases vmin vmax Fmin Fmax Hrange) as [[FS PS]|[s ES]].
  - left. apply (scaled_nn x Nx FS PS).
  - destruct (scaled_inf_span bits vmin vmax x s ES) as [[s' E]|E].
    + left. fold (o x) in E. rewrite E. apply nn_finite; [reflexivity|simpl; lra].
    + right. exact E.
Qed.

Lemma top_fin : is_finite top = true /\ 0 <= B2R top /\ (Btrunc top <= max_code bits)%Z.
Proof. apply top_facts. exact Hbits. Qed.

(* the clamped value of a well-shaped output *)
Lemma clamped_value (x : b64) :
  nn (o x) ->
  is_finite (m x) = true /\ B2R (m x) = Rmin (evT (o x)) (B2R top) /\
  (0 <= Btrunc (m x) <= max_code bits)%Z.
Proof.
  intros N. destruct top_fin as [Ft [Pt Tt]].
  destruct (clamp_nn (o x) top N Ft Pt) as [Fm Em].
  unfold m, simple_clamped. fold (o x). fold top. split; [exact Fm|]. split; [exact Em|].
  pose proof (evT_nonneg _ N) as P.
  split.
  - change 0%Z with (Btrunc (pzero : b64)). apply Btrunc_mono. rewrite Em. simpl (B2R pzero).
    apply Rmin_glb; assumption.
  - apply Z.le_trans with (Btrunc top); [|exact Tt]. apply Btrunc_mono. rewrite Em. apply Rmin_r.
Qed.

Lemma clamped_nan (x : b64) : o x = bnan -> btruncZ (m x) = None.
Proof.
  intros E. unfold m, simple_clamped. fold (o x). rewrite E. reflexivity.
Qed.

(* inversion of a defined code below the range maximum *)
Lemma code_inv w (x : b64) c :
  bis_nan x = false -> bge x vmax = false ->
  simple_code w bits vmin vmax x = Some c ->
  nn (o x) /\ c = Btrunc (m x).
Proof.
  intros Nx Hx Hc. unfold simple_code in Hc. rewrite Hx in Hc. fold (m x) in Hc.
  destruct (scaled_shape x Nx) as [N|E].
  - split; [exact N|]. destruct (clamped_value x N) as [Fm _].
    unfold cast_unsigned, btruncZ in Hc.
    destruct (m x) as [s0|s0| |s0 m0 e0 B0]; try discriminate;
      (destruct ((0 <=? _)%Z && (_ <? _)%Z); [|discriminate]); inversion Hc; reflexivity.
  - rewrite (clamped_nan x E) in Hc. discriminate.
Qed.

Lemma full_scale_range w : (0 <= full_scale_as w bits <= max_code bits)%Z.
Proof.
  unfold full_scale_as. pose proof max_code_nonneg.
  destruct (Z_lt_le_dec w 0) as [Hw|Hw].
  - rewrite (Z.pow_neg_r 2 w Hw). rewrite Zmod_0_r. lia.
  - assert (0 < 2 ^ w)%Z by (apply Z.pow_pos_nonneg; lia).
    split; [apply Z.mod_pos_bound; lia|apply Z.mod_le; lia].
Qed.

Lemma full_scale_fits w : (bits <= w)%Z -> full_scale_as w bits = max_code bits.
Proof.
  intros Hw. unfold full_scale_as. apply Z.mod_small. pose proof max_code_nonneg.
  assert (2 ^ bits <= 2 ^ w)%Z by (apply Z.pow_le_mono_r; lia). unfold max_code in *. lia.
Qed.

(* ---- range: EVERY resolution, every non-NaN voltage, whatever the type width *)
Theorem simple_range w (x : b64) c :
  bis_nan x = false ->
  simple_code w bits vmin vmax x = Some c ->
  (0 <= c <= 2 ^ bits - 1)%Z.
Proof.
  intros Nx Hc. fold (max_code bits).
  destruct (bge x vmax) eqn:Hx.
  - unfold simple_code in Hc. rewrite Hx in Hc. inversion Hc. apply full_scale_range.
  - destruct (code_inv w x c Nx Hx Hc) as [N ->]. apply (clamped_value x N).
Qed.

(* ---- saturation at the top: at or above the range maximum the code is full scale exactly *)
Theorem simple_high_saturates w (x : b64) :
  (bits <= w)%Z -> bge x vmax = true ->
  simple_code w bits vmin vmax x = Some (2 ^ bits - 1)%Z.
Proof.
  intros Hw Hx. unfold simple_code. rewrite Hx. rewrite (full_scale_fits w Hw). reflexivity.
Qed.

(* ---- saturation at the bottom *)
Theorem simple_low_saturates w (x : b64) :
  (0 <= w)%Z -> bis_nan x = false -> ble x vmin = true ->
  simple_code w bits vmin vmax x = Some 0%Z.
Proof.
  intros Hw Nx Hx.
  pose proof (below_min_not_above_max x vmin vmax Nx Fmin Fmax Hrange Hx) as Hge.
  destruct (scaled_low bits vmin vmax Hbits0 Fmin Fmax Hrange x ltac:(lia) Nx Hx) as [Fo Eo].
  fold (o x) in Fo, Eo.
  assert (N : nn (o x)) by (apply nn_finite; [exact Fo|lra]).
  destruct (clamped_value x N) as [Fm [Em _]].
  destruct top_fin as [_ [Pt _]].
  rewrite (evT_finite _ Fo), Eo, rtz_0, Rmin_left in Em by exact Pt.
  unfold simple_code. rewrite Hge. fold (m x).
  unfold btruncZ. rewrite (Btrunc_zero _ Em).
  destruct (m x) as [s0|s0| |s0 m0 e0 B0]; try discriminate;
    unfold cast_unsigned; simpl (0 <=? 0)%Z;
    (assert (0 <? 2 ^ w = true)%Z as -> by (apply Z.ltb_lt; apply Z.pow_pos_nonneg; lia)); reflexivity.
Qed.

(* ---- the cast is defined (the image never wraps) whenever the span vmax - vmin does not overflow *)
Theorem simple_defined w (x : b64) :
  (bits <= w)%Z -> is_finite S = true -> bis_nan x = false ->
  exists c, simple_code w bits vmin vmax x = Some c /\ (0 <= c <= 2 ^ bits - 1)%Z.
Proof.
  intros Hw FS Nx.
  destruct (bge x vmax) eqn:Hx.
  - exists (2 ^ bits - 1)%Z. split; [apply simple_high_saturates; assumption|].
    pose proof max_code_nonneg. unfold max_code in *. lia.
  - assert (PS : 0 < B2R S).
    { destruct (span_cases vmin vmax Fmin Fmax Hrange) as [[_ PS]|[s ES]]; [exact PS|].
      fold S in ES. rewrite ES in FS. discriminate. }
    destruct (scaled_nn x Nx FS PS) as [N _].
    destruct (clamped_value x N) as [Fm [_ Hr]].
    exists (Btrunc (m x)). split; [|exact Hr].
    unfold simple_code. rewrite Hx. fold (m x).
    assert (2 ^ bits <= 2 ^ w)%Z by (apply Z.pow_le_mono_r; lia). unfold max_code in Hr.
    unfold btruncZ, cast_unsigned.
    destruct (m x) as [s0|s0| |s0 m0 e0 B0]; try discriminate;
      (match goal with |- (if ?b then _ else _) = _ => assert (b = true) as ->; [|reflexivity] end;
       apply andb_true_intro; split; [apply Z.leb_le|apply Z.ltb_lt]; lia).
Qed.

(* ---- monotonicity below the range maximum, on the clamped values *)
Lemma clamped_mono (x y : b64) :
  bis_nan x = false -> bis_nan y = false -> ble x y = true ->
  nn (o x) -> nn (o y) -> B2R (m x) <= B2R (m y).
Proof.
  intros Nx Ny Hxy Nox Noy.
  destruct (clamped_value x Nox) as [_ [Ex _]]. destruct (clamped_value y Noy) as [_ [Ey _]].
  rewrite Ex, Ey. apply Rle_min_compat_r.
  destruct (span_cases vmin vmax Fmin Fmax Hrange) as [[FS PS]|[s ES]].
  - fold S in FS, PS. apply evT_mono; try assumption.
    destruct (scaled_nn x Nx FS PS) as [_ [E3x [N2x E2x]]].
    destruct (scaled_nn y Ny FS PS) as [_ [E3y [N2y E2y]]].
    rewrite E3x, E3y. unfold E3. apply divR_mono; try assumption.
    rewrite E2x, E2y. apply sat_mono, rnd_le. apply Rmult_le_compat_r; [exact PM|].
    unfold R1. apply rnd_le. apply Rplus_le_compat_r. apply clampX_mono; auto. lra.
  - fold S in ES.
    assert (Z : forall v, nn (o v) -> evT (o v) = 0).
    { intros v Nv. destruct (scaled_inf_span bits vmin vmax v s ES) as [[s' E]|E]; fold (o v) in E.
      - rewrite E. simpl. apply rtz_0.
      - exfalso. rewrite E in Nv. destruct Nv as [Q|[Q _]]; discriminate. }
    rewrite (Z x Nox), (Z y Noy). apply Rle_refl.
Qed.

(* ---- a higher voltage never yields a lower code *)
Theorem simple_monotone w (x y : b64) cx cy :
  (bits <= w)%Z ->
  bis_nan x = false -> bis_nan y = false -> ble x y = true ->
  simple_code w bits vmin vmax x = Some cx ->
  simple_code w bits vmin vmax y = Some cy ->
  (cx <= cy)%Z.
Proof.
  intros Hw Nx Ny Hxy Hx Hy.
  destruct (bge y vmax) eqn:Gy.
  - rewrite (simple_high_saturates w y Hw Gy) in Hy. inversion Hy; subst cy.
    apply (simple_range w x cx Nx Hx).
  - destruct (bge x vmax) eqn:Gx.
    + rewrite (bge_mono x y vmax Nx Ny Fmax Hxy Gx) in Gy. discriminate.
    + destruct (code_inv w x cx Nx Gx Hx) as [Nox ->].
      destruct (code_inv w y cy Ny Gy Hy) as [Noy ->].
      apply Btrunc_mono. apply clamped_mono; assumption.
Qed.

End Simple.
