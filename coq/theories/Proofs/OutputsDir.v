(* C19, part 1: create_output_directory — freshness, termination, and pairwise distinctness under
   EVERY interleaving of N concurrent creators (atomic mkdir steps). *)
From Coq Require Import List Bool Arith Lia String Ascii DecimalString DecimalNat FinFun.
From PyxelV Require Import Model.Outputs.
Import ListNotations.
Open Scope string_scope.

(* ------------------------------------------------------------------ basics *)

Lemma mem_In : forall p fs, mem p fs = true <-> In p fs.
Proof.
  intros p fs. unfold mem. rewrite existsb_exists. split.
  - intros [x [Hx He]]. apply String.eqb_eq in He. subst. exact Hx.
  - intro H. exists p. split; [exact H | apply String.eqb_refl].
Qed.

Lemma mem_notIn : forall p fs, mem p fs = false <-> ~ In p fs.
Proof.
  intros p fs. split; intro H.
  - intro Hin. apply mem_In in Hin. congruence.
  - destruct (mem p fs) eqn:E; [|reflexivity]. apply mem_In in E. contradiction.
Qed.

Lemma dec_inj : forall n m, dec n = dec m -> n = m.
Proof.
  unfold dec. intros n m H.
  assert (E : Some (Nat.to_uint n) = Some (Nat.to_uint m)).
  { rewrite <- (NilEmpty.usu (Nat.to_uint n)), <- (NilEmpty.usu (Nat.to_uint m)). now rewrite H. }
  injection E as E.
  rewrite <- (Unsigned.of_to n), <- (Unsigned.of_to m). now rewrite E.
Qed.

Lemma append_inj_l : forall a x y, a ++ x = a ++ y -> x = y.
Proof.
  induction a as [|c a IH]; simpl; intros x y H; [exact H|].
  injection H as H. now apply IH.
Qed.

Lemma str_length_append : forall a b, String.length (a ++ b) = String.length a + String.length b.
Proof. induction a as [|c a IH]; simpl; intro b; [reflexivity | now rewrite IH]. Qed.

Lemma append_nonempty_neq : forall a c x, a <> a ++ String c x.
Proof.
  intros a c x H. apply (f_equal String.length) in H.
  rewrite str_length_append in H. simpl in H. lia.
Qed.

Lemma cand_inj : forall base j k, cand base j = cand base k -> j = k.
Proof.
  intros base [|j] [|k] H; simpl in H.
  - reflexivity.
  - exfalso. exact (append_nonempty_neq _ _ _ H).
  - exfalso. symmetry in H. exact (append_nonempty_neq _ _ _ H).
  - apply append_inj_l in H. injection H as H. now apply dec_inj in H.
Qed.

Lemma cand_injective : forall base, Injective (cand base).
Proof. intros base j k. apply cand_inj. Qed.

(* pigeonhole: if the first n candidates are all present then n <= |fs| *)
Lemma scanned_le_length : forall base fs n,
  (forall j, j < n -> In (cand base j) fs) -> n <= List.length fs.
Proof.
  intros base fs n H.
  pose (l := map (cand base) (seq 0 n)).
  assert (ND : NoDup l) by (apply Injective_map_NoDup; [apply cand_injective | apply seq_NoDup]).
  assert (INC : incl l fs).
  { intros x Hx. unfold l in Hx. apply in_map_iff in Hx. destruct Hx as [j [<- Hj]].
    apply in_seq in Hj. apply H. lia. }
  pose proof (NoDup_incl_length ND INC) as L. unfold l in L.
  rewrite map_length, seq_length in L. exact L.
Qed.

(* ------------------------------------------------------------------ the sequential retry loop *)

Lemma create_loop_none : forall fuel base count fs,
  create_loop true fuel base count fs = None ->
  forall j, count <= j < count + fuel -> In (cand base j) fs.
Proof.
  induction fuel as [|f IH]; intros base count fs H j Hj; [lia|].
  simpl in H. unfold mkdir in H.
  destruct (mem (cand base count) fs) eqn:E; [|discriminate].
  destruct (Nat.eq_dec j count) as [->|Hne].
  - now apply mem_In.
  - apply (IH base (S count) fs H). lia.
Qed.

Lemma create_loop_some : forall fuel base count fs p fs' k,
  create_loop true fuel base count fs = Some (p, fs', k) ->
  p = cand base k /\ fs' = p :: fs /\ ~ In p fs /\ count <= k /\
  (forall j, count <= j < k -> In (cand base j) fs).
Proof.
  induction fuel as [|f IH]; intros base count fs p fs' k H; [discriminate|].
  simpl in H. unfold mkdir in H.
  destruct (mem (cand base count) fs) eqn:E.
  - apply IH in H. destruct H as (Hp & Hfs & Hnin & Hle & Hsc).
    repeat split; auto; try lia.
    intros j Hj. destruct (Nat.eq_dec j count) as [->|Hne]; [now apply mem_In | apply Hsc; lia].
  - injection H as <- <- <-. repeat split; auto.
    + now apply mem_notIn.
    + intros j Hj. lia.
Qed.

(* freshness + termination with fuel |fs| + 1, for EVERY finite file system *)
Theorem create_dir_fresh : forall fs base,
  exists p k,
    create_dir true fs base = Some (p, p :: fs, k) /\
    ~ In p fs /\
    p = cand base k /\
    (forall j, j < k -> In (cand base j) fs) /\
    k <= List.length fs.
Proof.
  intros fs base. unfold create_dir.
  destruct (create_loop true (S (List.length fs)) base 0 fs) as [[[p fs'] k]|] eqn:E.
  - apply create_loop_some in E. destruct E as (Hp & Hfs & Hnin & _ & Hsc).
    exists p, k. subst fs'. repeat split; auto.
    + intros j Hj. apply Hsc. lia.
    + apply (scanned_le_length base). intros j Hj. apply Hsc. lia.
  - exfalso.
    assert (S (List.length fs) <= List.length fs); [|lia].
    apply (scanned_le_length base). intros j Hj.
    apply (create_loop_none _ _ _ _ E). lia.
Qed.

(* with exist_ok=True the loop returns an existing directory: the obligation really depends on the flag *)
Lemma create_dir_not_exclusive_reuses : forall fs base,
  In base fs -> create_dir false fs base = Some (base, fs, 0).
Proof.
  intros fs base H. unfold create_dir. simpl. unfold mkdir. simpl.
  apply mem_In in H. now rewrite H.
Qed.

(* ------------------------------------------------------------------ one atomic step *)

Lemma step_creator_cases : forall c fs c' fs',
  step_creator true c fs = (c', fs') ->
  (c' = c /\ fs' = fs /\ c_res c <> None) \/
  (c_res c = None /\ c_res c' = Some (cand (c_base c) (c_count c)) /\
   c_base c' = c_base c /\ c_count c' = c_count c /\
   ~ In (cand (c_base c) (c_count c)) fs /\ fs' = cand (c_base c) (c_count c) :: fs) \/
  (c_res c = None /\ c_res c' = None /\ c_base c' = c_base c /\ c_count c' = S (c_count c) /\
   In (cand (c_base c) (c_count c)) fs /\ fs' = fs).
Proof.
  intros c fs c' fs' H. unfold step_creator in H.
  destruct (c_res c) eqn:R.
  - injection H as <- <-. left. repeat split; congruence.
  - unfold mkdir in H. destruct (mem (cand (c_base c) (c_count c)) fs) eqn:E.
    + injection H as <- <-. right. right. simpl. repeat split; auto. now apply mem_In.
    + injection H as <- <-. right. left. simpl. repeat split; auto. now apply mem_notIn.
Qed.

Lemma step_at_spec : forall i ps fs ps' fs',
  step_at true i ps fs = (ps', fs') ->
  (List.length ps <= i /\ ps' = ps /\ fs' = fs) \/
  (exists c c', nth_error ps i = Some c /\ step_creator true c fs = (c', fs') /\
                nth_error ps' i = Some c' /\
                (forall j, j <> i -> nth_error ps' j = nth_error ps j)).
Proof.
  induction i as [|i IH]; intros ps fs ps' fs' H.
  - destruct ps as [|c rest]; simpl in H.
    + injection H as <- <-. left. simpl. repeat split; lia.
    + destruct (step_creator true c fs) as [c' fs1] eqn:E. injection H as <- <-.
      right. exists c, c'. repeat split; auto.
      intros [|j] Hj; [congruence | reflexivity].
  - destruct ps as [|c rest]; simpl in H.
    + injection H as <- <-. left. simpl. repeat split; lia.
    + destruct (step_at true i rest fs) as [rest' fs1] eqn:E. injection H as <- <-.
      apply IH in E. destruct E as [(L & -> & ->)|(c0 & c0' & N & S1 & N' & O)].
      * left. simpl. repeat split; lia.
      * right. exists c0, c0'. simpl. repeat split; auto.
        intros [|j] Hj; [reflexivity | apply O; congruence].
Qed.

Lemma step_at_length : forall i ps fs ps' fs',
  step_at true i ps fs = (ps', fs') -> List.length ps' = List.length ps.
Proof.
  induction i as [|i IH]; intros [|c rest] fs ps' fs' H; simpl in H.
  - now injection H as <- <-.
  - destruct (step_creator true c fs). now injection H as <- <-.
  - now injection H as <- <-.
  - destruct (step_at true i rest fs) as [rest' fs1] eqn:E. injection H as <- <-.
    simpl. f_equal. eapply IH; eauto.
Qed.

(* ------------------------------------------------------------------ the invariant *)

Record Inv (fs0 : list string) (ps : list creator) (fs : list string) : Prop := {
  inv_incl : incl fs0 fs;
  inv_res : forall i c p, nth_error ps i = Some c -> c_res c = Some p ->
            In p fs /\ ~ In p fs0 /\ p = cand (c_base c) (c_count c);
  inv_distinct : forall i j ci cj p q, i <> j ->
            nth_error ps i = Some ci -> nth_error ps j = Some cj ->
            c_res ci = Some p -> c_res cj = Some q -> p <> q;
  inv_scanned : forall i c j, nth_error ps i = Some c -> j < c_count c -> In (cand (c_base c) j) fs
}.

Lemma nth_error_init : forall bases i c,
  nth_error (init_creators bases) i = Some c -> c_res c = None /\ c_count c = 0.
Proof.
  intros bases i c H. unfold init_creators in H.
  rewrite nth_error_map in H. destruct (nth_error bases i); simpl in H; [|discriminate].
  injection H as <-. simpl. auto.
Qed.

Lemma Inv_init : forall fs0 bases, Inv fs0 (init_creators bases) fs0.
Proof.
  intros fs0 bases. constructor.
  - apply incl_refl.
  - intros i c p H R. apply nth_error_init in H. destruct H; congruence.
  - intros i j ci cj p q _ Hi _ R _. apply nth_error_init in Hi. destruct Hi; congruence.
  - intros i c j H Hj. apply nth_error_init in H. destruct H. lia.
Qed.

Lemma Inv_step : forall fs0 i ps fs ps' fs',
  Inv fs0 ps fs -> step_at true i ps fs = (ps', fs') -> Inv fs0 ps' fs'.
Proof.
  intros fs0 i ps fs ps' fs' I H.
  apply step_at_spec in H. destruct H as [(_ & -> & ->)|(c & c' & N & S1 & N' & O)]; [exact I|].
  destruct I as [Iincl Ires Idist Iscan].
  apply step_creator_cases in S1.
  destruct S1 as [(-> & -> & _)|[(R & R' & B & C & Hnin & ->)|(R & R' & B & C & Hin & ->)]].
  - (* no-op *)
    assert (E : forall j, nth_error ps' j = nth_error ps j).
    { intro j. destruct (Nat.eq_dec j i) as [->|Hne]; [congruence | now apply O]. }
    constructor; auto.
    + intros j cj p Hj. rewrite E in Hj. eauto.
    + intros j k cj ck p q Hjk Hj Hk. rewrite E in Hj, Hk. eauto.
    + intros j cj k Hj. rewrite E in Hj. eauto.
  - (* creator i created the fresh directory *)
    set (d := cand (c_base c) (c_count c)) in *.
    constructor.
    + intros x Hx. right. now apply Iincl.
    + intros j cj p Hj Rj. destruct (Nat.eq_dec j i) as [->|Hne].
      * rewrite N' in Hj. injection Hj as <-. rewrite R' in Rj. injection Rj as <-.
        repeat split.
        -- now left.
        -- intro Hd. apply Hnin. now apply Iincl.
        -- unfold d. now rewrite B, C.
      * rewrite (O j Hne) in Hj. destruct (Ires j cj p Hj Rj) as (A1 & A2 & A3).
        repeat split; auto. now right.
    + intros j k cj ck p q Hjk Hj Hk Rj Rk.
      destruct (Nat.eq_dec j i) as [->|Hj'], (Nat.eq_dec k i) as [->|Hk']; try congruence.
      * rewrite N' in Hj. injection Hj as <-. rewrite R' in Rj. injection Rj as <-.
        rewrite (O k Hk') in Hk. destruct (Ires k ck q Hk Rk) as (A1 & _).
        intro Heq. apply Hnin. now rewrite Heq.
      * rewrite N' in Hk. injection Hk as <-. rewrite R' in Rk. injection Rk as <-.
        rewrite (O j Hj') in Hj. destruct (Ires j cj p Hj Rj) as (A1 & _).
        intro Heq. apply Hnin. now rewrite <- Heq.
      * rewrite (O j Hj') in Hj. rewrite (O k Hk') in Hk. eauto.
    + intros j cj k Hj Hk. right. destruct (Nat.eq_dec j i) as [->|Hne].
      * rewrite N' in Hj. injection Hj as <-. rewrite B. rewrite C in Hk. eauto.
      * rewrite (O j Hne) in Hj. eauto.
  - (* creator i met an existing name and moves to the next candidate *)
    constructor; auto.
    + intros j cj p Hj Rj. destruct (Nat.eq_dec j i) as [->|Hne].
      * rewrite N' in Hj. injection Hj as <-. congruence.
      * rewrite (O j Hne) in Hj. eauto.
    + intros j k cj ck p q Hjk Hj Hk Rj Rk.
      destruct (Nat.eq_dec j i) as [->|Hj'].
      * rewrite N' in Hj. injection Hj as <-. congruence.
      * destruct (Nat.eq_dec k i) as [->|Hk'].
        -- rewrite N' in Hk. injection Hk as <-. congruence.
        -- rewrite (O j Hj') in Hj. rewrite (O k Hk') in Hk. eauto.
    + intros j cj k Hj Hk. destruct (Nat.eq_dec j i) as [->|Hne].
      * rewrite N' in Hj. injection Hj as <-. rewrite B. rewrite C in Hk.
        destruct (Nat.eq_dec k (c_count c)) as [->|Hk']; [exact Hin | apply (Iscan i c k N); lia].
      * rewrite (O j Hne) in Hj. eauto.
Qed.

Lemma Inv_run : forall fs0 sched ps fs ps' fs',
  Inv fs0 ps fs -> run_sched true sched ps fs = (ps', fs') -> Inv fs0 ps' fs'.
Proof.
  intros fs0 sched. induction sched as [|i rest IH]; intros ps fs ps' fs' I H; simpl in H.
  - now injection H as <- <-.
  - destruct (step_at true i ps fs) as [ps1 fs1] eqn:E.
    eapply IH; [|exact H]. eapply Inv_step; eauto.
Qed.

(* ------------------------------------------------------------------ size of the file system *)

Definition done1 (c : creator) : nat := match c_res c with Some _ => 1 | None => 0 end.
Definition ndone (ps : list creator) : nat := list_sum (map done1 ps).

Lemma step_creator_size : forall c fs c' fs',
  step_creator true c fs = (c', fs') -> List.length fs' + done1 c = List.length fs + done1 c'.
Proof.
  intros c fs c' fs' H. apply step_creator_cases in H.
  destruct H as [(-> & -> & _)|[(R & R' & _ & _ & _ & ->)|(R & R' & _ & _ & _ & ->)]];
    unfold done1; try rewrite R; try rewrite R'; simpl; lia.
Qed.

Lemma step_at_size : forall i ps fs ps' fs',
  step_at true i ps fs = (ps', fs') -> List.length fs' + ndone ps = List.length fs + ndone ps'.
Proof.
  induction i as [|i IH]; intros [|c rest] fs ps' fs' H; simpl in H.
  - now injection H as <- <-.
  - destruct (step_creator true c fs) as [c' fs1] eqn:E. injection H as <- <-.
    apply step_creator_size in E. unfold ndone in *. simpl. lia.
  - now injection H as <- <-.
  - destruct (step_at true i rest fs) as [rest' fs1] eqn:E. injection H as <- <-.
    apply IH in E. unfold ndone in *. simpl. lia.
Qed.

Lemma run_size : forall sched ps fs ps' fs',
  run_sched true sched ps fs = (ps', fs') ->
  List.length fs' + ndone ps = List.length fs + ndone ps' /\ List.length ps' = List.length ps.
Proof.
  induction sched as [|i rest IH]; intros ps fs ps' fs' H; simpl in H.
  - injection H as <- <-. split; lia.
  - destruct (step_at true i ps fs) as [ps1 fs1] eqn:E.
    pose proof (step_at_size _ _ _ _ _ E). pose proof (step_at_length _ _ _ _ _ E).
    apply IH in H. destruct H. split; lia.
Qed.

Lemma ndone_le : forall ps, ndone ps <= List.length ps.
Proof.
  induction ps as [|c ps IH]; unfold ndone in *; simpl; [lia|].
  unfold done1 at 1. destruct (c_res c); lia.
Qed.

Lemma ndone_init : forall bases, ndone (init_creators bases) = 0.
Proof. induction bases as [|b r IH]; unfold ndone in *; simpl; [reflexivity | exact IH]. Qed.

(* ------------------------------------------------------------------ the theorems *)

Lemma nth_results : forall ps i p,
  nth_error (results ps) i = Some (Some p) -> exists c, nth_error ps i = Some c /\ c_res c = Some p.
Proof.
  intros ps i p H. unfold results in H. rewrite nth_error_map in H.
  destruct (nth_error ps i) as [c|]; simpl in H; [|discriminate].
  injection H as H. eauto.
Qed.

(* EVERY schedule of N creators (same timestamp or not): the directories are pairwise distinct, none
   existed before, nothing that existed disappears *)
Theorem dirs_distinct : forall fs0 bases sched ps fs,
  run_sched true sched (init_creators bases) fs0 = (ps, fs) ->
  (forall i j p q, i <> j ->
     nth_error (results ps) i = Some (Some p) -> nth_error (results ps) j = Some (Some q) -> p <> q) /\
  (forall i p, nth_error (results ps) i = Some (Some p) -> ~ In p fs0 /\ In p fs) /\
  incl fs0 fs.
Proof.
  intros fs0 bases sched ps fs H.
  pose proof (Inv_run fs0 sched _ _ _ _ (Inv_init fs0 bases) H) as [Iincl Ires Idist Iscan].
  repeat split.
  - intros i j p q Hij Hi Hj. apply nth_results in Hi, Hj.
    destruct Hi as (ci & Hi & Ri), Hj as (cj & Hj & Rj). eauto.
  - apply nth_results in H0. destruct H0 as (c & Hc & R). now destruct (Ires i c p Hc R) as (_ & A & _).
  - apply nth_results in H0. destruct H0 as (c & Hc & R). now destruct (Ires i c p Hc R) as (A & _).
  - exact Iincl.
Qed.

(* EVERY schedule: a creator never fails more than |fs0| + N times, and what it returns is the first
   candidate it had not seen occupied *)
Theorem creators_bounded : forall fs0 bases sched ps fs,
  run_sched true sched (init_creators bases) fs0 = (ps, fs) ->
  forall i c, nth_error ps i = Some c ->
    c_count c <= List.length fs0 + List.length bases /\
    (forall j, j < c_count c -> In (cand (c_base c) j) fs) /\
    (forall p, c_res c = Some p -> p = cand (c_base c) (c_count c)).
Proof.
  intros fs0 bases sched ps fs H i c Hc.
  pose proof (Inv_run fs0 sched _ _ _ _ (Inv_init fs0 bases) H) as [Iincl Ires Idist Iscan].
  pose proof (run_size _ _ _ _ _ H) as [Sz Ln].
  rewrite ndone_init in Sz. pose proof (ndone_le ps) as Nd.
  unfold init_creators in Ln. rewrite map_length in Ln.
  repeat split.
  - assert (c_count c <= List.length fs); [|lia].
    apply (scanned_le_length (c_base c)). intros j Hj. eapply Iscan; eauto.
  - intros j Hj. eapply Iscan; eauto.
  - intros p R. now destruct (Ires i c p Hc R) as (_ & _ & A).
Qed.

(* progress: an unfinished creator that is scheduled either returns or advances its counter, so by
   creators_bounded it returns after at most |fs0| + N + 1 of its own steps *)
Theorem creator_progress : forall c fs c' fs',
  step_creator true c fs = (c', fs') -> c_res c = None ->
  c_res c' <> None \/ c_count c' = S (c_count c).
Proof.
  intros c fs c' fs' H R. apply step_creator_cases in H.
  destruct H as [(_ & _ & A)|[(_ & R' & _)|(_ & _ & _ & C & _)]].
  - congruence.
  - left. congruence.
  - now right.
Qed.
