(* C11, range checker: proofs about the comparisons as coded (Model.Fitness.coded_checker). *)
From Coq Require Import ZArith QArith List Bool Lia ZifyBool.
From PyxelV Require Import Model.Fitness.
Import ListNotations.
Open Scope Z_scope.
Local Arguments Z.eqb : simpl never.
Local Arguments Z.leb : simpl never.
Local Arguments Z.sub : simpl never.
Local Arguments Z.add : simpl never.

(* ---- the full statements *)
Definition checker_sound_full (ck : checker) : Prop :=
  forall t o rows cols times,
    in_domain t o rows cols times = true ->
    check ck (Some t) (Some o) rows cols times = Accept -> spec_ok t o rows cols times = true.

Definition checker_complete_full (ck : checker) : Prop :=
  forall t o rows cols times,
    in_domain t o rows cols times = true ->
    spec_ok t o rows cols times = true -> check ck (Some t) (Some o) rows cols times = Accept.

(* ---- witnesses against the comparisons as coded *)
Definition full5 : sl := (Some 0, Some 5).
Definition open_sl : sl := (None, None).

(* target rows 0..5, result rows 2..5 (3 rows) on a 5 x 5 target: accepted *)
Definition w_sound_t := FR2 full5 full5.
Definition w_sound_o := FR3 open_sl (Some 2, Some 5) full5.
(* target rows 0..5, result rows 3..8 (5 rows): rejected *)
Definition w_compl_t := FR2 full5 full5.
Definition w_compl_o := FR3 open_sl (Some 3, Some 8) full5.
(* no range declared at all (what an empty configuration entry produces): TypeError *)
Definition w_absent_t := FR2 open_sl open_sl.
Definition w_absent_o := FR3 open_sl open_sl open_sl.

Lemma coded_sound_refuted : ~ checker_sound_full coded_checker.
Proof.
  intro H. specialize (H w_sound_t w_sound_o 5 5 None eq_refl eq_refl). vm_compute in H. discriminate.
Qed.

Lemma coded_complete_refuted : ~ checker_complete_full coded_checker.
Proof.
  intro H. specialize (H w_compl_t w_compl_o 5 5 None eq_refl eq_refl). vm_compute in H. discriminate.
Qed.

Lemma coded_absent_crashes :
  in_domain w_absent_t w_absent_o 5 5 None = true /\
  spec_ok w_absent_t w_absent_o 5 5 None = true /\
  check coded_checker (Some w_absent_t) (Some w_absent_o) 5 5 None = Crash.
Proof. vm_compute. auto. Qed.

(* ---- the strongest true restriction: all compared stops given, equal starts *)
Ltac kill_opts :=
  repeat match goal with
         | x : option Z |- _ => destruct x; cbn in *; try discriminate
         end.

Lemma coded_partial : forall t o rows cols times,
  in_domain t o rows cols times = true -> anchored t o = true ->
  (check coded_checker (Some t) (Some o) rows cols times = Accept <-> spec_ok t o rows cols times = true).
Proof.
  intros t o rows cols times Hd Ha.
  destruct t as [[ts1 te1] [ts2 te2] | [ts0 te0] [ts1 te1] [ts2 te2]];
    destruct o as [[os1 oe1] [os2 oe2] | [os0 oe0] [os1 oe1] [os2 oe2]];
    try (cbn in Ha; discriminate).
  - (* 2D target *)
    destruct te1, te2, oe1, oe2; try (cbn in Ha; rewrite ?andb_false_r in Ha; discriminate).
    unfold in_domain in Hd. cbn in Hd, Ha. unfold same_start, dflt in Ha; cbn in Ha.
    destruct os0, oe0, times; cbn in Hd;
    unfold check, coded_checker, spec_ok, dim_ok, resolve; cbn;
    (destruct (z =? z1) eqn:E1; cbn; [|split; [discriminate | intro; exfalso; destruct ts1, ts2, os1, os2; cbn in *; lia]]);
    (destruct (z0 =? z2) eqn:E2; cbn; [|split; [discriminate | intro; exfalso; destruct ts1, ts2, os1, os2; cbn in *; lia]]);
    (destruct (z <=? rows) eqn:E3; cbn; [|split; [discriminate | intro; exfalso; destruct ts1, ts2, os1, os2; cbn in *; lia]]);
    (destruct (z0 <=? cols) eqn:E4; cbn; [|split; [discriminate | intro; exfalso; destruct ts1, ts2, os1, os2; cbn in *; lia]]);
    (split; [intros _ | reflexivity]);
    destruct ts1, ts2, os1, os2; cbn in *; lia.
  - (* 3D target *)
    destruct te0, te1, te2, oe0, oe1, oe2; try (cbn in Ha; rewrite ?andb_false_r in Ha; discriminate).
    unfold in_domain in Hd. cbn in Hd, Ha. unfold same_start, dflt in Ha; cbn in Ha.
    destruct times as [n|]; cbn in Hd;
    unfold check, coded_checker, spec_ok, dim_ok, resolve; cbn.
    + (destruct (z =? z2) eqn:E0; cbn;
        [|split; [discriminate | intro; exfalso; destruct ts0, ts1, ts2, os0, os1, os2; cbn in *; lia]]);
      (destruct (z0 =? z3) eqn:E1; cbn;
        [|split; [discriminate | intro; exfalso; destruct ts0, ts1, ts2, os0, os1, os2; cbn in *; lia]]);
      (destruct (z1 =? z4) eqn:E2; cbn;
        [|split; [discriminate | intro; exfalso; destruct ts0, ts1, ts2, os0, os1, os2; cbn in *; lia]]);
      (destruct (z0 <=? rows) eqn:E3; cbn;
        [|split; [discriminate | intro; exfalso; destruct ts0, ts1, ts2, os0, os1, os2; cbn in *; lia]]);
      (destruct (z1 <=? cols) eqn:E4; cbn;
        [|split; [discriminate | intro; exfalso; destruct ts0, ts1, ts2, os0, os1, os2; cbn in *; lia]]);
      (destruct (z <=? n) eqn:E5; cbn;
        [|split; [discriminate | intro; exfalso; destruct ts0, ts1, ts2, os0, os1, os2; cbn in *; lia]]);
      (split; [intros _ | reflexivity]);
      destruct ts0, ts1, ts2, os0, os1, os2; cbn in *; lia.
    + destruct (z =? z2); cbn; [|split; discriminate].
      destruct (z0 =? z3); cbn; [|split; discriminate].
      destruct (z1 =? z4); cbn; [|split; discriminate].
      destruct (z0 <=? rows); cbn; [|split; discriminate].
      destruct (z1 <=? cols); cbn; split; discriminate.
Qed.

(* ---- fit ranges that exceed the size they are checked against are refused: whatever the result
   range, an accepted (well-formed) target range lies inside rows x cols (x times) *)
Definition range_inside (t : fitrange) (rows cols : Z) (times : option Z) : bool :=
  match t with
  | FR2 tr tc => sl_inside rows tr && sl_inside cols tc
  | FR3 tm tr tc => match times with
                    | Some n => sl_inside n tm && sl_inside rows tr && sl_inside cols tc
                    | None => false
                    end
  end.

Lemma run_guards_not_accept : forall e gs, run_guards e gs <> Some Accept.
Proof.
  intros e gs. induction gs as [|g r IH]; cbn; [discriminate|].
  destruct (run_guard e g) as [x|] eqn:E; [|exact IH].
  intro K. inversion K; subst x. clear K.
  destruct g as [p neg a c b | b]; cbn in E.
  - destruct (pre_holds e p); [|discriminate].
    destruct (cmp_eval c (eval e a) (eval e b)) as [v|]; [|discriminate].
    destruct (xorb neg v); discriminate.
  - destruct b; try discriminate. destruct (e_times e); discriminate.
Qed.

Lemma coded_accept_inside : forall t o rows cols times,
  wf_range t = true ->
  check coded_checker (Some t) o rows cols times = Accept -> range_inside t rows cols times = true.
Proof.
  intros t o rows cols times Hw H.
  assert (G : match run_guards {| e_tgt := t; e_out := o; e_rows := rows; e_cols := cols; e_times := times |}
                               (if is3d t then check3d coded_checker else check2d coded_checker) with
              | Some _ => False | None => True end).
  { unfold check in H.
    destruct (match o with Some _ => run_guards _ (out_guards coded_checker) | None => None end) as [r0|] eqn:E0.
    - subst r0. destruct o; [|discriminate]. exfalso. exact (run_guards_not_accept _ _ E0).
    - destruct (run_guards _ (if is3d t then check3d coded_checker else check2d coded_checker)) as [r|] eqn:E1;
        [|exact I].
      subst r. exact (run_guards_not_accept _ _ E1). }
  clear H.
  destruct t as [[ts1 te1] [ts2 te2] | [ts0 te0] [ts1 te1] [ts2 te2]]; cbn in G, Hw |- *.
  - destruct te1 as [e1|]; cbn in G; [|contradiction].
    destruct (e1 <=? rows) eqn:E1; cbn in G; [|contradiction].
    destruct te2 as [e2|]; cbn in G; [|contradiction].
    destruct (e2 <=? cols) eqn:E2; cbn in G; [|contradiction].
    unfold sl_inside, resolve, dflt; cbn.
    destruct ts1, ts2; cbn in *; lia.
  - destruct te1 as [e1|]; cbn in G; [|contradiction].
    destruct (e1 <=? rows) eqn:E1; cbn in G; [|contradiction].
    destruct te2 as [e2|]; cbn in G; [|contradiction].
    destruct (e2 <=? cols) eqn:E2; cbn in G; [|contradiction].
    destruct times as [n|]; cbn in G; [|contradiction].
    destruct te0 as [e0|]; cbn in G; [|contradiction].
    destruct (e0 <=? n) eqn:E0; cbn in G; [|contradiction].
    unfold sl_inside, resolve, dflt; cbn.
    destruct ts0, ts1, ts2; cbn in *; lia.
Qed.

(* the constructor: when the call sites pass the sizes of the TARGET (coded_calls), an accepted
   target range lies inside the target data *)
Lemma coded_ctor_inside : forall c sims,
  wf_range (fc_trng c) = true ->
  ctor_check coded_checker coded_calls c sims = Accept -> target_inside c = true.
Proof.
  intros c sims Hw H. unfold ctor_check in H.
  apply coded_accept_inside in H; [|exact Hw].
  unfold target_inside. destruct (fc_multi c); cbn in H; destruct (fc_trng c); cbn in H |- *; try exact H.
  discriminate.
Qed.

(* ... hence a problem object that could be constructed at all (the harness' bypass switch off) has a
   target range inside the target data: "fit ranges that exceed the target's size are rejected
   before optimisation starts" *)
Lemma coded_model_fit_inside : forall c sims,
  fc_bypass c = false -> wf_range (fc_trng c) = true ->
  model_fit coded_checker coded_calls c sims <> OCtor -> target_inside c = true.
Proof.
  intros c sims Hb Hw H. unfold model_fit in H. rewrite Hb in H.
  destruct (ctor_check coded_checker coded_calls c sims) eqn:E.
  - apply (coded_ctor_inside c sims Hw E).
  - destruct (fc_trng c); exfalso; apply H; reflexivity.
  - destruct (fc_trng c); exfalso; apply H; reflexivity.
Qed.
