(* C11, range checker: proofs about the comparisons as coded (Model.Fitness.coded_checker). *)
From Coq Require Import ZArith QArith List Bool Lia ZifyBool.
From PyxelV Require Import Model.Fitness.
Import ListNotations.
Open Scope Z_scope.
Local Arguments Z.eqb : simpl never.
Local Arguments Z.leb : simpl never.
Local Arguments Z.sub : simpl never.
Local Arguments Z.add : simpl never.

(* ---- the full statements *)
Definition checker_sound_full (ck : checker) : Prop :=
  forall t o rows cols times,
    in_domain t o rows cols times = true ->
    check ck (Some t) (Some o) rows cols times = Accept -> spec_ok t o rows cols times = true.

Definition checker_complete_full (ck : checker) : Prop :=
  forall t o rows cols times,
    in_domain t o rows cols times = true ->
    spec_ok t o rows cols times = true -> check ck (Some t) (Some o) rows cols times = Accept.

(* ---- witnesses against the comparisons of the tree BEFORE the repair (legacy_checker): what the
   full statements exclude *)
Definition full5 : sl := (Some 0, Some 5).
Definition open_sl : sl := (None, None).

(* target rows 0..5, result rows 2..5 (3 rows) on a 5 x 5 target: was accepted *)
Definition w_sound_t := FR2 full5 full5.
Definition w_sound_o := FR3 open_sl (Some 2, Some 5) full5.
(* target rows 0..3, result rows 2..5 (3 rows each): was rejected *)
Definition w_compl_t := FR2 (Some 0, Some 3) full5.
Definition w_compl_o := FR3 open_sl (Some 2, Some 5) full5.
(* no range declared at all (what an empty configuration entry produces): was a TypeError *)
Definition w_absent_t := FR2 open_sl open_sl.
Definition w_absent_o := FR3 open_sl open_sl open_sl.

Lemma legacy_sound_refuted : ~ checker_sound_full legacy_checker.
Proof.
  intro H. specialize (H w_sound_t w_sound_o 5 5 None eq_refl eq_refl). vm_compute in H. discriminate.
Qed.

Lemma legacy_complete_refuted : ~ checker_complete_full legacy_checker.
Proof.
  intro H. specialize (H w_compl_t w_compl_o 5 5 None eq_refl eq_refl). vm_compute in H. discriminate.
Qed.

Lemma legacy_absent_crashes :
  in_domain w_absent_t w_absent_o 5 5 None = true /\
  spec_ok w_absent_t w_absent_o 5 5 None = true /\
  check legacy_checker (Some w_absent_t) (Some w_absent_o) 5 5 None = Crash.
Proof. vm_compute. auto. Qed.

(* ---- the comparisons as coded: evaluation of the building blocks *)
Definition len_eqb (n : Z) (t o : sl) : bool :=
  let '(ts, te) := resolve n t in let '(os, oe) := resolve n o in te - ts =? oe - os.

Lemma run_guards_app : forall e a b,
  run_guards e (a ++ b) = match run_guards e a with Some r => Some r | None => run_guards e b end.
Proof.
  intros e a b. induction a as [|g a IH]; [reflexivity|].
  cbn [app run_guards]. destruct (run_guard e g); [reflexivity | exact IH].
Qed.

Lemma tgt_block_run : forall e d b s n,
  get_sl (e_tgt e) d = Some s -> bound_pv e b = PInt n ->
  run_guards e (tgt_block d b) = if sl_inside n s then None else Some Reject.
Proof.
  intros e d b [a z] n Hs Hb. unfold tgt_block, sl_inside, resolve.
  cbn [run_guards run_guard pre_holds eval side_range fst snd]. rewrite Hs. cbn [fst snd].
  destruct a as [a|], z as [z|]; cbn [dflt]; rewrite ?Hb; cbn [cmp_eval xorb negb];
    repeat match goal with |- context [?x <=? ?y] => destruct (x <=? y) end; reflexivity.
Qed.

Lemma len_guard_run : forall e p d b st so o n,
  pre_holds e p = true -> get_sl (e_tgt e) d = Some st -> e_out e = Some o -> get_sl o d = Some so ->
  bound_pv e b = PInt n ->
  run_guard e (len_guard p d b) = if len_eqb n st so then None else Some Reject.
Proof.
  intros e p d b [ta tz] [oa oz] o n Hp Hs Ho Hso Hb. unfold len_guard, elen, len_eqb, resolve.
  cbn [run_guard eval side_range fst snd]. rewrite Hp, Hs, Ho, Hso. cbn [fst snd].
  destruct ta, tz, oa, oz; cbn [dflt]; rewrite ?Hb; cbn [cmp_eval xorb];
    match goal with |- context [?x =? ?y] => destruct (x =? y) end; reflexivity.
Qed.

Lemma len_guard_skip : forall e d b, pre_holds e PBoth3D = false -> run_guard e (len_guard PBoth3D d b) = None.
Proof. intros e d b H. unfold len_guard. cbn [run_guard]. rewrite H. reflexivity. Qed.

(* the verdict of the checker as a boolean function of the ranges *)
Definition accb (t o : fitrange) (rows cols : Z) (times : option Z) : bool :=
  match t, o with
  | FR2 tr tc, FR3 _ orow ocol =>
      sl_inside rows tr && sl_inside cols tc && len_eqb rows tr orow && len_eqb cols tc ocol
  | FR3 tm tr tc, FR3 ot orow ocol =>
      match times with
      | Some n => sl_inside rows tr && sl_inside cols tc && sl_inside n tm
                  && len_eqb n tm ot && len_eqb rows tr orow && len_eqb cols tc ocol
      | None => false
      end
  | _, FR2 _ _ => false
  end.

Lemma check_char : forall t o rows cols times,
  is3d o = true ->
  (check coded_checker (Some t) (Some o) rows cols times = Accept <-> accb t o rows cols times = true).
Proof.
  intros t o rows cols times Ho.
  destruct o as [? ? | ot orow ocol]; [discriminate|]. clear Ho.
  unfold check, coded_checker. cbn [target_first out_guards check2d check3d].
  set (e := {| e_tgt := t; e_out := Some (FR3 ot orow ocol); e_rows := rows; e_cols := cols; e_times := times |}).
  destruct t as [tr tc | tm tr tc]; cbn [is3d accb].
  - (* 2-D target range *)
    rewrite run_guards_app.
    rewrite (tgt_block_run e DRow BRows tr rows eq_refl eq_refl).
    rewrite (tgt_block_run e DCol BCols tc cols eq_refl eq_refl).
    cbn [run_guards].
    rewrite (len_guard_skip e DTime BTimes eq_refl).
    rewrite (len_guard_run e PAlways DRow BRows tr orow _ rows eq_refl eq_refl eq_refl eq_refl eq_refl).
    rewrite (len_guard_run e PAlways DCol BCols tc ocol _ cols eq_refl eq_refl eq_refl eq_refl eq_refl).
    destruct (sl_inside rows tr), (sl_inside cols tc), (len_eqb rows tr orow), (len_eqb cols tc ocol);
      cbn; split; intro K; try reflexivity; discriminate.
  - (* 3-D target range *)
    rewrite !run_guards_app.
    rewrite (tgt_block_run e DRow BRows tr rows eq_refl eq_refl).
    rewrite (tgt_block_run e DCol BCols tc cols eq_refl eq_refl).
    destruct times as [n|].
    + rewrite (tgt_block_run e DTime BTimes tm n eq_refl eq_refl).
      cbn [run_guards run_guard].
      rewrite (len_guard_run e PBoth3D DTime BTimes tm ot _ n eq_refl eq_refl eq_refl eq_refl eq_refl).
      rewrite (len_guard_run e PAlways DRow BRows tr orow _ rows eq_refl eq_refl eq_refl eq_refl eq_refl).
      rewrite (len_guard_run e PAlways DCol BCols tc ocol _ cols eq_refl eq_refl eq_refl eq_refl eq_refl).
      unfold e; cbn [e_times].
      destruct (sl_inside rows tr), (sl_inside cols tc), (sl_inside n tm), (len_eqb n tm ot),
        (len_eqb rows tr orow), (len_eqb cols tc ocol); cbn; split; intro K; try reflexivity; discriminate.
    + cbn [run_guards run_guard]. unfold e at 3 4; cbn [e_times].
      destruct (sl_inside rows tr), (sl_inside cols tc); cbn; split; discriminate.
Qed.

(* ---- specification vs. boolean verdict, one dimension *)
Lemma dim_ok_char : forall n t o,
  wf_sl o = true -> (dim_ok n t o = true <-> sl_inside n t = true /\ len_eqb n t o = true).
Proof.
  intros n [ta tz] [oa oz] Hw. unfold dim_ok, sl_inside, len_eqb, resolve. cbn [fst snd].
  destruct ta, tz, oa, oz; cbn [dflt] in *; cbn in Hw; lia.
Qed.

Lemma spec_ok_char : forall t o rows cols times,
  in_domain t o rows cols times = true ->
  (spec_ok t o rows cols times = true <-> accb t o rows cols times = true).
Proof.
  intros t o rows cols times Hd. unfold in_domain in Hd.
  destruct o as [? ? | ot orow ocol]; [cbn in Hd; rewrite ?andb_false_r in Hd; discriminate|].
  assert (Hwo : wf_sl ot = true /\ wf_sl orow = true /\ wf_sl ocol = true).
  { cbn [wf_range is3d] in Hd. lia. }
  destruct Hwo as [W0 [W1 W2]].
  destruct t as [tr tc | tm tr tc]; cbn [spec_ok accb].
  - pose proof (dim_ok_char rows tr orow W1). pose proof (dim_ok_char cols tc ocol W2).
    destruct (dim_ok rows tr orow), (dim_ok cols tc ocol), (sl_inside rows tr), (sl_inside cols tc),
      (len_eqb rows tr orow), (len_eqb cols tc ocol); cbn; intuition congruence.
  - destruct times as [n|]; [|split; discriminate].
    pose proof (dim_ok_char n tm ot W0).
    pose proof (dim_ok_char rows tr orow W1). pose proof (dim_ok_char cols tc ocol W2).
    destruct (dim_ok n tm ot), (dim_ok rows tr orow), (dim_ok cols tc ocol), (sl_inside n tm), (sl_inside rows tr),
      (sl_inside cols tc), (len_eqb n tm ot), (len_eqb rows tr orow), (len_eqb cols tc ocol); cbn; intuition congruence.
Qed.

(* ---- the full statements hold for the comparisons as coded *)
Theorem coded_sound : checker_sound_full coded_checker.
Proof.
  intros t o rows cols times Hd H. apply (spec_ok_char _ _ _ _ _ Hd). apply check_char; [|exact H].
  unfold in_domain in Hd. destruct (is3d o); [reflexivity | rewrite ?andb_false_r in Hd; cbn in Hd; lia].
Qed.

Theorem coded_complete : checker_complete_full coded_checker.
Proof.
  intros t o rows cols times Hd H. apply check_char.
  - unfold in_domain in Hd. destruct (is3d o); [reflexivity | rewrite ?andb_false_r in Hd; cbn in Hd; lia].
  - apply (spec_ok_char _ _ _ _ _ Hd). exact H.
Qed.

(* absent ranges (the defaults built by run_calibration) are accepted *)
Lemma coded_absent_accepted :
  in_domain w_absent_t w_absent_o 5 5 None = true /\
  spec_ok w_absent_t w_absent_o 5 5 None = true /\
  check coded_checker (Some w_absent_t) (Some w_absent_o) 5 5 None = Accept.
Proof. vm_compute. auto. Qed.

(* ---- fit ranges that exceed the size they are checked against are refused: whatever the result
   range, an accepted (well-formed) target range lies inside rows x cols (x times) *)
Definition range_inside (t : fitrange) (rows cols : Z) (times : option Z) : bool :=
  match t with
  | FR2 tr tc => sl_inside rows tr && sl_inside cols tc
  | FR3 tm tr tc => match times with
                    | Some n => sl_inside n tm && sl_inside rows tr && sl_inside cols tc
                    | None => false
                    end
  end.

Lemma run_guards_not_accept : forall e gs, run_guards e gs <> Some Accept.
Proof.
  intros e gs. induction gs as [|g r IH]; cbn; [discriminate|].
  destruct (run_guard e g) as [x|] eqn:E; [|exact IH].
  intro K. inversion K; subst x. clear K.
  destruct g as [p neg a c b | b]; cbn in E.
  - destruct (pre_holds e p); [|discriminate].
    destruct (cmp_eval c (eval e a) (eval e b)) as [v|]; [|discriminate].
    destruct (xorb neg v); discriminate.
  - destruct b; try discriminate. destruct (e_times e); discriminate.
Qed.

Lemma coded_accept_inside : forall t o rows cols times,
  check coded_checker (Some t) o rows cols times = Accept -> range_inside t rows cols times = true.
Proof.
  intros t o rows cols times. unfold check. cbn [target_first coded_checker].
  set (e := {| e_tgt := t; e_out := o; e_rows := rows; e_cols := cols; e_times := times |}).
  destruct (run_guards e (if is3d t then _ else _)) as [r|] eqn:E.
  - intro H. subst r. exfalso. exact (run_guards_not_accept _ _ E).
  - intros _. unfold coded_checker in E.
    destruct t as [tr tc | tm tr tc]; cbn [is3d check2d check3d range_inside] in E |- *.
    + rewrite run_guards_app in E.
      rewrite (tgt_block_run e DRow BRows tr rows eq_refl eq_refl) in E.
      rewrite (tgt_block_run e DCol BCols tc cols eq_refl eq_refl) in E.
      destruct (sl_inside rows tr), (sl_inside cols tc); try discriminate. reflexivity.
    + rewrite !run_guards_app in E.
      rewrite (tgt_block_run e DRow BRows tr rows eq_refl eq_refl) in E.
      rewrite (tgt_block_run e DCol BCols tc cols eq_refl eq_refl) in E.
      destruct times as [n|].
      * rewrite (tgt_block_run e DTime BTimes tm n eq_refl eq_refl) in E.
        cbn [run_guards run_guard] in E. unfold e in E; cbn [e_times] in E.
        destruct (sl_inside rows tr), (sl_inside cols tc), (sl_inside n tm); try discriminate. reflexivity.
      * cbn [run_guards run_guard] in E. unfold e in E; cbn [e_times] in E.
        destruct (sl_inside rows tr), (sl_inside cols tc); discriminate.
Qed.

(* the constructor: when the call sites pass the sizes of the TARGET (coded_calls), an accepted
   target range lies inside the target data *)
Lemma coded_ctor_inside : forall c sims,
  ctor_check coded_checker coded_calls c sims = Accept -> target_inside c = true.
Proof.
  intros c sims H. unfold ctor_check in H.
  apply coded_accept_inside in H.
  unfold target_inside. destruct (fc_multi c); cbn in H; destruct (fc_trng c); cbn in H |- *; try exact H.
  discriminate.
Qed.

(* ... hence a problem object that could be constructed at all (the harness' bypass switch off) has a
   target range inside the target data: "fit ranges that exceed the target's size are rejected
   before optimisation starts" *)
Lemma coded_model_fit_inside : forall wc c sims,
  fc_bypass c = false ->
  model_fit coded_checker coded_calls wc c sims <> OCtor -> target_inside c = true.
Proof.
  intros wc c sims Hb H. unfold model_fit in H. rewrite Hb in H.
  destruct (is3d (fc_trng c) && negb (wc_time_key wc && fc_multi c)); [exfalso; apply H; reflexivity|].
  destruct (out_slices (fc_trng c)) as [[tm tr] tc].
  destruct (ctor_check coded_checker coded_calls c sims) eqn:E.
  - apply (coded_ctor_inside c sims E).
  - exfalso; apply H; reflexivity.
  - exfalso; apply H; reflexivity.
Qed.
