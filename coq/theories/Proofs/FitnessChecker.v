(* C11, range checker: proofs about the comparisons as coded (Model.Fitness.coded_checker). *)
From Coq Require Import ZArith QArith List Bool Lia ZifyBool.
From PyxelV Require Import Model.Fitness.
Import ListNotations.
Open Scope Z_scope.
Local Arguments Z.eqb : simpl never.
Local Arguments Z.leb : simpl never.
Local Arguments Z.sub : simpl never.
Local Arguments Z.add : simpl never.

(* ---- the full statements *)
Definition checker_sound_full (ck : checker) : Prop :=
  forall t o rows cols times,
    in_domain t o rows cols times = true ->
    check ck (Some t) (Some o) rows cols times = Accept -> spec_ok t o rows cols times = true.

Definition checker_complete_full (ck : checker) : Prop :=
  forall t o rows cols times,
    in_domain t o rows cols times = true ->
    spec_ok t o rows cols times = true -> check ck (Some t) (Some o) rows cols times = Accept.

(* ---- witnesses against the comparisons as coded *)
Definition full5 : sl := (Some 0, Some 5).
Definition open_sl : sl := (None, None).

(* target rows 0..5, result rows 2..5 (3 rows) on a 5 x 5 target: accepted *)
Definition w_sound_t := FR2 full5 full5.
Definition w_sound_o := FR3 open_sl (Some 2, Some 5) full5.
(* target rows 0..5, result rows 3..8 (5 rows): rejected *)
Definition w_compl_t := FR2 full5 full5.
Definition w_compl_o := FR3 open_sl (Some 3, Some 8) full5.
(* no range declared at all (what an empty configuration entry produces): TypeError *)
Definition w_absent_t := FR2 open_sl open_sl.
Definition w_absent_o := FR3 open_sl open_sl open_sl.

Lemma coded_sound_refuted : ~ checker_sound_full coded_checker.
Proof.
  intro H. specialize (H w_sound_t w_sound_o 5 5 None eq_refl eq_refl). vm_compute in H. discriminate.
Qed.

Lemma coded_complete_refuted : ~ checker_complete_full coded_checker.
Proof.
  intro H. specialize (H w_compl_t w_compl_o 5 5 None eq_refl eq_refl). vm_compute in H. discriminate.
Qed.

Lemma coded_absent_crashes :
  in_domain w_absent_t w_absent_o 5 5 None = true /\
  spec_ok w_absent_t w_absent_o 5 5 None = true /\
  check coded_checker (Some w_absent_t) (Some w_absent_o) 5 5 None = Crash.
Proof. vm_compute. auto. Qed.

(* ---- the strongest true restriction: all compared stops given, equal starts *)
Ltac kill_opts :=
  repeat match goal with
         | x : option Z |- _ => destruct x; cbn in *; try discriminate
         end.

Lemma coded_partial : forall t o rows cols times,
  in_domain t o rows cols times = true -> anchored t o = true ->
  (check coded_checker (Some t) (Some o) rows cols times = Accept <-> spec_ok t o rows cols times = true).
Proof.
  intros t o rows cols times Hd Ha.
  destruct t as [[ts1 te1] [ts2 te2] | [ts0 te0] [ts1 te1] [ts2 te2]];
    destruct o as [[os1 oe1] [os2 oe2] | [os0 oe0] [os1 oe1] [os2 oe2]];
    try (cbn in Ha; discriminate).
  - (* 2D target *)
    destruct te1, te2, oe1, oe2; try (cbn in Ha; rewrite ?andb_false_r in Ha; discriminate).
    unfold in_domain in Hd. cbn in Hd, Ha. unfold same_start, dflt in Ha; cbn in Ha.
    destruct os0, oe0, times; cbn in Hd;
    unfold check, coded_checker, spec_ok, dim_ok, resolve; cbn;
    (destruct (z =? z1) eqn:E1; cbn; [|split; [discriminate | intro; exfalso; destruct ts1, ts2, os1, os2; cbn in *; lia]]);
    (destruct (z0 =? z2) eqn:E2; cbn; [|split; [discriminate | intro; exfalso; destruct ts1, ts2, os1, os2; cbn in *; lia]]);
    (destruct (z <=? rows) eqn:E3; cbn; [|split; [discriminate | intro; exfalso; destruct ts1, ts2, os1, os2; cbn in *; lia]]);
    (destruct (z0 <=? cols) eqn:E4; cbn; [|split; [discriminate | intro; exfalso; destruct ts1, ts2, os1, os2; cbn in *; lia]]);
    (split; [intros _ | reflexivity]);
    destruct ts1, ts2, os1, os2; cbn in *; lia.
  - (* 3D target *)
    destruct te0, te1, te2, oe0, oe1, oe2; try (cbn in Ha; rewrite ?andb_false_r in Ha; discriminate).
    unfold in_domain in Hd. cbn in Hd, Ha. unfold same_start, dflt in Ha; cbn in Ha.
    destruct times as [n|]; cbn in Hd;
    unfold check, coded_checker, spec_ok, dim_ok, resolve; cbn.
    + (destruct (z =? z2) eqn:E0; cbn;
        [|split; [discriminate | intro; exfalso; destruct ts0, ts1, ts2, os0, os1, os2; cbn in *; lia]]);
      (destruct (z0 =? z3) eqn:E1; cbn;
        [|split; [discriminate | intro; exfalso; destruct ts0, ts1, ts2, os0, os1, os2; cbn in *; lia]]);
      (destruct (z1 =? z4) eqn:E2; cbn;
        [|split; [discriminate | intro; exfalso; destruct ts0, ts1, ts2, os0, os1, os2; cbn in *; lia]]);
      (destruct (z0 <=? rows) eqn:E3; cbn;
        [|split; [discriminate | intro; exfalso; destruct ts0, ts1, ts2, os0, os1, os2; cbn in *; lia]]);
      (destruct (z1 <=? cols) eqn:E4; cbn;
        [|split; [discriminate | intro; exfalso; destruct ts0, ts1, ts2, os0, os1, os2; cbn in *; lia]]);
      (destruct (z <=? n) eqn:E5; cbn;
        [|split; [discriminate | intro; exfalso; destruct ts0, ts1, ts2, os0, os1, os2; cbn in *; lia]]);
      (split; [intros _ | reflexivity]);
      destruct ts0, ts1, ts2, os0, os1, os2; cbn in *; lia.
    + destruct (z =? z2); cbn; [|split; discriminate].
      destruct (z0 =? z3); cbn; [|split; discriminate].
      destruct (z1 =? z4); cbn; [|split; discriminate].
      destruct (z0 <=? rows); cbn; [|split; discriminate].
      destruct (z1 <=? cols); cbn; split; discriminate.
Qed.
