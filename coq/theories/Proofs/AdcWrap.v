(* C16: the detector-level models.  A wiring (regenerated from the source) that passes the boolean check
   makes detector.image.array exactly the converter's output on the detector's OWN characteristics:
   adc_bit_resolution, adc_voltage_range (in that order), signal array, geometry; the output type is
   get_dtype(adc_bit_resolution) unless data_type overrides it. *)
From Coq Require Import ZArith List Bool Lia.
From Flocq Require Import Core BinarySingleNaN.
From PyxelV Require Import Lib.B64 Model.Adc.
Import ListNotations.
Open Scope Z_scope.

Lemma src_eqb_eq a b : src_eqb a b = true -> a = b.
Proof. destruct a, b; simpl; intros H; try discriminate; reflexivity. Qed.

Ltac split_ands H :=
  repeat match type of H with
  | (_ && _) = true => let H1 := fresh "K" in let H2 := fresh "K" in
                        apply andb_prop in H; destruct H as [H1 H2]; try split_ands H1; try split_ands H2
  end.

Lemma run_simple_ok ch (w : simple_wiring) (d : adc_detector) :
  simple_wiring_ok w = true ->
  run_simple ch w d None = simple_frame ch (d_bits d) (d_lo d) (d_hi d) (d_signal d).
Proof.
  destruct w as [sg bt lo hi dt st]. unfold simple_wiring_ok. cbn [sw_signal sw_bits sw_vmin sw_vmax sw_dtype sw_store_image].
  intros H. split_ands H.
  repeat match goal with K : src_eqb _ _ = true |- _ => apply src_eqb_eq in K; subst end.
  unfold run_simple, simple_frame. cbn [sw_signal sw_bits sw_vmin sw_vmax sw_dtype sw_store_image pickZ pickF pickL].
  destruct dt as [[]|[]|]; try discriminate; cbn [pick_width pickZ]; destruct (chain_width ch (d_bits d)); reflexivity.
Qed.

(* with a data_type override of width wd the image is the same codes, cast to that width *)
Lemma run_simple_override ch (w : simple_wiring) (d : adc_detector) (wd : Z) :
  simple_wiring_ok w = true -> sw_dtype w = DtOverrideElseGetDtypeOf FromBits ->
  run_simple ch w d (Some wd) = Some (wd, map (simple_code wd (d_bits d) (d_lo d) (d_hi d)) (d_signal d)).
Proof.
  destruct w as [sg bt lo hi dt st]. unfold simple_wiring_ok. cbn [sw_signal sw_bits sw_vmin sw_vmax sw_dtype sw_store_image].
  intros H E. subst dt. split_ands H.
  repeat match goal with K : src_eqb _ _ = true |- _ => apply src_eqb_eq in K; subst end.
  reflexivity.
Qed.

Lemma run_sar_ok ch (w : sar_wiring) (d : adc_detector) :
  sar_wiring_ok w = true -> run_sar ch w d = sar_frame ch (d_bits d) (d_hi d) (d_signal d).
Proof.
  destruct w as [sg rr cc lo hi bt st]. unfold sar_wiring_ok. cbn [rw_signal rw_rows rw_cols rw_vmin rw_vmax rw_bits rw_store_image].
  intros H. split_ands H.
  repeat match goal with K : src_eqb _ _ = true |- _ => apply src_eqb_eq in K; subst end.
  unfold run_sar. cbn [rw_signal rw_rows rw_cols rw_vmin rw_vmax rw_bits rw_store_image pickZ pickF pickL].
  rewrite !Z.eqb_refl. reflexivity.
Qed.

Lemma run_sar0_ok ch (w : sar0_wiring) (d : adc_detector) :
  sar0_wiring_ok w = true ->
  run_sar0 ch w d (d_bits d) (d_bits d) = sar0_frame ch (d_bits d) (d_hi d) (d_signal d) /\
  (forall n m, (n <> d_bits d \/ m <> d_bits d) -> run_sar0 ch w d n m = None).
Proof.
  destruct w as [sg rr cc ss nn hi bt g1 g2 st]. unfold sar0_wiring_ok.
  cbn [nw_signal nw_rows nw_cols nw_strengths nw_noises nw_vmax nw_bits nw_guard_strengths nw_guard_noises nw_store_image].
  intros H. split_ands H.
  repeat match goal with K : src_eqb _ _ = true |- _ => apply src_eqb_eq in K; subst end.
  unfold run_sar0.
  cbn [nw_signal nw_rows nw_cols nw_strengths nw_noises nw_vmax nw_bits nw_guard_strengths nw_guard_noises nw_store_image pickZ pickF pickL src_eqb].
  split.
  - rewrite !Z.eqb_refl. reflexivity.
  - intros n m [Hn|Hm].
    + apply Z.eqb_neq in Hn. rewrite Hn. reflexivity.
    + apply Z.eqb_neq in Hm. rewrite Hm. rewrite orb_true_r. reflexivity.
Qed.

Lemma run_sarp_ok ch (w : sar0_wiring) (d : adc_detector) (ps : list b64) :
  sar0_wiring_ok w = true -> run_sarp ch w d ps = sarp_frame ch (d_bits d) (d_hi d) ps (d_signal d).
Proof.
  destruct w as [sg rr cc ss nn hi bt g1 g2 st]. unfold sar0_wiring_ok.
  cbn [nw_signal nw_rows nw_cols nw_strengths nw_noises nw_vmax nw_bits nw_guard_strengths nw_guard_noises nw_store_image].
  intros H. split_ands H.
  repeat match goal with K : src_eqb _ _ = true |- _ => apply src_eqb_eq in K; subst end.
  unfold run_sarp.
  cbn [nw_signal nw_rows nw_cols nw_strengths nw_noises nw_vmax nw_bits nw_guard_strengths nw_guard_noises nw_store_image pickZ pickF pickL src_eqb].
  rewrite !Z.eqb_refl. reflexivity.
Qed.
