(* C08 — proofs about the settings-tree model (Model/Keys.v): for ALL trees, keys and values. *)
From Coq Require Import ZArith List Bool String Ascii Lia.
From PyxelV Require Import Model.Keys.
Import ListNotations.
Open Scope string_scope.
Open Scope list_scope.

(* ------------------------------------------------------------------------------------ find / subst *)

Lemma find_sel_true s n ms mk t : find s n ms = Some (mk, t) -> s mk = true.
Proof.
  induction ms as [|n' mk' t' r IH]; simpl; [discriminate|].
  destruct (String.eqb n n' && s mk')%bool eqn:E.
  - intros H; inversion H; subst. apply andb_true_iff in E. tauto.
  - apply IH.
Qed.

Lemma find_subst_same s n f ms :
  find s n (subst s n f ms) = match find s n ms with Some (mk, t) => Some (mk, f t) | None => None end.
Proof.
  induction ms as [|n' mk' t' r IH]; simpl; [reflexivity|].
  destruct (String.eqb n n' && s mk')%bool eqn:E; simpl; rewrite E; auto.
Qed.

Lemma find_subst_other_name s s' n n' f ms :
  n' <> n -> find s' n' (subst s n f ms) = find s' n' ms.
Proof.
  intros Hn. induction ms as [|m mk' t' r IH]; simpl; [reflexivity|].
  destruct (String.eqb n m && s mk')%bool eqn:E; simpl.
  - destruct (String.eqb n' m && s' mk')%bool eqn:E'; auto.
    apply andb_true_iff in E. destruct E as [E _]. apply String.eqb_eq in E.
    apply andb_true_iff in E'. destruct E' as [E' _]. apply String.eqb_eq in E'. congruence.
  - rewrite IH. reflexivity.
Qed.

Definition disjoint (s s' : mkind -> bool) := forall mk, s mk = true -> s' mk = false.

Lemma find_subst_disjoint s s' n n' f ms :
  disjoint s s' -> find s' n' (subst s n f ms) = find s' n' ms.
Proof.
  intros D. induction ms as [|m mk' t' r IH]; simpl; [reflexivity|].
  destruct (String.eqb n m && s mk')%bool eqn:E; simpl.
  - apply andb_true_iff in E. destruct E as [_ E]. rewrite (D _ E), andb_false_r. reflexivity.
  - rewrite IH. reflexivity.
Qed.

Inductive std : (mkind -> bool) -> Prop :=
| std_prop : std is_prop | std_inst : std is_inst | std_class : std is_class | std_item : std is_item.

Lemma std_eq_or_disjoint s s' : std s -> std s' -> s = s' \/ (disjoint s s' /\ disjoint s' s).
Proof.
  intros [] []; auto; right; split; intros [] ; simpl; congruence.
Qed.

(* find with a standard selector after a substitution with a standard selector *)
Lemma find_subst_std s s' n f ms :
  std s -> std s' ->
  find s' n (subst s n f ms) =
  match find s' n ms with Some (mk, t) => Some (mk, if s mk then f t else t) | None => None end.
Proof.
  intros Hs Hs'. destruct (std_eq_or_disjoint s s' Hs Hs') as [->|[D D']].
  - rewrite find_subst_same. destruct (find s' n ms) as [[mk t]|] eqn:E; auto.
    rewrite (find_sel_true _ _ _ _ _ E). reflexivity.
  - rewrite find_subst_disjoint by assumption.
    destruct (find s' n ms) as [[mk t]|] eqn:E; auto.
    rewrite (D' _ (find_sel_true _ _ _ _ _ E)). reflexivity.
Qed.

Lemma getattr_subst_std k s n f ms :
  std s ->
  getattr k n (subst s n f ms) =
  match getattr k n ms with Some (mk, t) => Some (mk, if s mk then f t else t) | None => None end.
Proof.
  intros Hs. unfold getattr.
  rewrite !(find_subst_std s) by (assumption || constructor).
  destruct (find is_prop n ms) as [[]|]; simpl; auto.
  destruct (find is_inst n ms) as [[]|]; simpl; auto.
  destruct (find is_class n ms) as [[]|]; simpl; auto.
  destruct (has_fallback k); auto.
Qed.

Lemma getattr_subst_other k s n n' f ms :
  n' <> n -> getattr k n' (subst s n f ms) = getattr k n' ms.
Proof. intros H. unfold getattr. rewrite !find_subst_other_name by assumption. reflexivity. Qed.

(* if getattr returns a member selected by the standard selector s, it is the first s-member *)
Lemma getattr_sel_find k s n ms mk t :
  std s -> getattr k n ms = Some (mk, t) -> s mk = true -> find s n ms = Some (mk, t).
Proof.
  intros Hs. unfold getattr, orelse.
  destruct (find is_prop n ms) as [[m1 t1]|] eqn:E1.
  { intros H; inversion H; subst. pose proof (find_sel_true _ _ _ _ _ E1) as K.
    destruct Hs; destruct mk; simpl in *; try discriminate; auto. }
  destruct (find is_inst n ms) as [[m2 t2]|] eqn:E2.
  { intros H; inversion H; subst. pose proof (find_sel_true _ _ _ _ _ E2) as K.
    destruct Hs; destruct mk; simpl in *; try discriminate; auto. }
  destruct (find is_class n ms) as [[m3 t3]|] eqn:E3.
  { intros H; inversion H; subst. pose proof (find_sel_true _ _ _ _ _ E3) as K.
    destruct Hs; destruct mk; simpl in *; try discriminate; auto. }
  destruct (has_fallback k); [|discriminate].
  intros H. pose proof (find_sel_true _ _ _ _ _ H) as K.
  destruct Hs; destruct mk; simpl in *; try discriminate; auto.
Qed.

Lemma getattr_sel_std k n ms : std (getattr_sel k n ms).
Proof.
  unfold getattr_sel. destruct (find is_prop n ms); [constructor|].
  destruct (find is_inst n ms); [constructor|]. destruct (find is_class n ms); constructor.
Qed.

Lemma getattr_find_sel k n ms x : getattr k n ms = Some x -> find (getattr_sel k n ms) n ms = Some x.
Proof.
  unfold getattr, getattr_sel, orelse.
  destruct (find is_prop n ms) eqn:E1; [congruence|].
  destruct (find is_inst n ms) eqn:E2; [congruence|].
  destruct (find is_class n ms) eqn:E3; [congruence|].
  destruct (has_fallback k); [auto|discriminate].
Qed.

(* what `step` guarantees *)
Lemma step_found t p s c :
  step t p = SFound s c ->
  exists k ms mk, t = Node k ms /\ std s /\ find s p ms = Some (mk, c) /\
                  (k <> NDict -> getattr k p ms = Some (mk, c)) /\ (k = NDict -> s = is_item).
Proof.
  destruct t as [v|k ms]; simpl; [discriminate|].
  destruct k.
  - destruct (getattr (NObj open) p ms) as [[mk c']|] eqn:E; [|discriminate].
    intros H; inversion H; subst. exists (NObj open), ms, mk. repeat split; auto using getattr_sel_std, getattr_find_sel.
    congruence.
  - destruct (find is_item p ms) as [[mk c']|] eqn:E; [|discriminate].
    intros H; inversion H; subst. exists NDict, ms, mk. repeat split; auto using std_item. congruence.
  - destruct (getattr NArgs p ms) as [[mk c']|] eqn:E; [|discriminate].
    intros H; inversion H; subst. exists NArgs, ms, mk. repeat split; auto using getattr_sel_std, getattr_find_sel.
    congruence.
  - destruct (getattr NGroup p ms) as [[mk c']|] eqn:E; [|discriminate].
    intros H; inversion H; subst. exists NGroup, ms, mk. repeat split; auto using getattr_sel_std, getattr_find_sel.
    congruence.
Qed.

(* the selected member after the substitution, seen through getattr *)
Lemma getattr_after_step k p ms s mk c f :
  std s -> find s p ms = Some (mk, c) -> getattr k p ms = Some (mk, c) ->
  getattr k p (subst s p f ms) = Some (mk, f c).
Proof.
  intros Hs Hf Hg. rewrite getattr_subst_std by assumption. rewrite Hg.
  rewrite (find_sel_true _ _ _ _ _ Hf). reflexivity.
Qed.

(* ------------------------------------------------------------------------------------ set then get *)

Lemma assign_get t att v t' :
  assign t att v = Ok t' -> tail_attr_ok t att = true -> get t' [att] = Ok (Leaf v).
Proof.
  destruct t as [x|k ms]; simpl; [discriminate|].
  destruct k; simpl.
  - (* NObj *)
    destruct (find is_prop att ms) as [[mk c]|] eqn:Ep.
    + destruct mk as [st g| | |]; try discriminate. destruct st; [|discriminate].
      destruct (guard_check g v); [discriminate|]. intros H _; inversion H; subst; clear H. simpl.
      unfold getattr, orelse. rewrite find_subst_same, Ep. reflexivity.
    + destruct open; [|discriminate].
      destruct (find is_inst att ms) as [[mk c]|] eqn:Ei; intros H _; inversion H; subst; clear H; simpl.
      * unfold getattr, orelse. rewrite find_subst_disjoint, Ep by (intros []; simpl; congruence).
        rewrite find_subst_same, Ei. reflexivity.
      * unfold getattr, orelse. simpl. rewrite String.eqb_refl. simpl. rewrite Ep. reflexivity.
  - discriminate.
  - (* NArgs *)
    destruct (find is_item att ms) as [[mk c]|] eqn:Ei; [|discriminate].
    intros H; inversion H; subst; clear H.
    destruct (find is_prop att ms) eqn:Ep; [discriminate|].
    destruct (find is_inst att ms) eqn:En; [discriminate|].
    destruct (find is_class att ms) eqn:Ec; [discriminate|]. intros _. simpl.
    unfold getattr, orelse.
    rewrite !(find_subst_disjoint is_item) by (intros []; simpl; congruence).
    rewrite Ep, En, Ec. simpl. rewrite find_subst_same, Ei. reflexivity.
  - (* NGroup *)
    destruct (find is_prop att ms) as [[mk c]|] eqn:Ep.
    + destruct mk as [st g| | |]; try discriminate. destruct st; [|discriminate].
      destruct (guard_check g v); [discriminate|]. intros H _; inversion H; subst; clear H. simpl.
      unfold getattr, orelse. rewrite find_subst_same, Ep. reflexivity.
    + destruct (find is_inst att ms) as [[mk c]|] eqn:Ei; intros H _; inversion H; subst; clear H; simpl.
      * unfold getattr, orelse. rewrite find_subst_disjoint, Ep by (intros []; simpl; congruence).
        rewrite find_subst_same, Ei. reflexivity.
      * unfold getattr, orelse. simpl. rewrite String.eqb_refl. simpl. rewrite Ep. reflexivity.
Qed.

Lemma set_at_get : forall body t att v t',
  set_at t body att v = Ok t' -> attr_path_at t body att = true ->
  get t' (body ++ [att]) = Ok (Leaf v).
Proof.
  induction body as [|p body IH]; intros t att v t'.
  - simpl. apply assign_get.
  - simpl. destruct (step t p) as [s c| |] eqn:Es; try discriminate.
    destruct (step_found _ _ _ _ Es) as (k & ms & mk & -> & Hs & Hf & Hg & _).
    destruct (set_at c body att v) as [c'|] eqn:Ec; [|discriminate].
    intros H; inversion H; subst; clear H.
    destruct k; try discriminate; intros Hp; simpl;
      (rewrite (getattr_after_step _ _ _ _ _ _ _ Hs Hf) by (apply Hg; congruence));
      eapply IH; eauto.
Qed.

Lemma split_last_app k b a : split_last k = Some (b, a) -> k = b ++ [a].
Proof.
  unfold split_last. destruct (rev k) as [|x r] eqn:E; [discriminate|].
  intros H; inversion H; subst. rewrite <- (rev_involutive k), E. reflexivity.
Qed.

Lemma split_last_snoc b a : split_last (b ++ [a]) = Some (b, a).
Proof. unfold split_last. rewrite rev_app_distr. simpl. rewrite rev_involutive. reflexivity. Qed.

Theorem set_get_partial : forall t k v t',
  set t k v = Ok t' -> attr_path t k = true -> getv t' k = Ok v.
Proof.
  intros t k v t'. unfold set, attr_path, getv.
  destruct (split_last k) as [[b a]|] eqn:E; [|discriminate].
  apply split_last_app in E. subst k. intros Hs Hp.
  rewrite (set_at_get _ _ _ _ _ Hs Hp). destruct b; reflexivity.
Qed.

(* ------------------------------------------------------------------------------------ frame *)

Lemma shape_subst s n f ms mk c :
  find s n ms = Some (mk, c) -> shape (f c) = shape c -> shape_ms (subst s n f ms) = shape_ms ms.
Proof.
  induction ms as [|n' mk' t' r IH]; simpl; [discriminate|].
  destruct (String.eqb n n' && s mk')%bool eqn:E.
  - intros H Hc; inversion H; subst. simpl. rewrite Hc. reflexivity.
  - intros H Hc. simpl. rewrite IH; auto.
Qed.

Definition geto (t : tree) (k : list string) : res pyval :=
  match get t k with Ok c => Ok (obs_of c) | Raise e => Raise e end.

(* replacing, in a node, one leaf member by another leaf is invisible at every other key *)
Lemma frame_node k ms s n mk old v :
  std s -> find s n ms = Some (mk, Leaf old) ->
  forall k', k' <> [n] -> geto (Node k (subst s n (fun _ => Leaf v) ms)) k' = geto (Node k ms) k'.
Proof.
  intros Hs Hf k' Hk. destruct k' as [|q r]; [reflexivity|].
  unfold geto. simpl.
  destruct (String.eqb q n) eqn:Eq.
  - apply String.eqb_eq in Eq. subst q.
    rewrite getattr_subst_std by assumption.
    destruct (getattr k n ms) as [[mk' t0]|] eqn:Eg; [|reflexivity].
    destruct (s mk') eqn:Esm; [|reflexivity].
    rewrite (getattr_sel_find _ _ _ _ _ _ Hs Eg Esm) in Hf. inversion Hf; subst.
    destruct r; [congruence|]. reflexivity.
  - apply String.eqb_neq in Eq. rewrite getattr_subst_other by assumption. reflexivity.
Qed.

Lemma assign_frame t att v t' :
  assign t att v = Ok t' -> tail_is_setting t att = true ->
  shape t' = shape t /\ forall k', k' <> [att] -> geto t' k' = geto t k'.
Proof.
  destruct t as [x|k ms]; simpl; [discriminate|].
  assert (G : forall s mk old, std s -> find s att ms = Some (mk, Leaf old) ->
              shape (Node k (subst s att (fun _ => Leaf v) ms)) = shape (Node k ms) /\
              forall k', k' <> [att] -> geto (Node k (subst s att (fun _ => Leaf v) ms)) k' = geto (Node k ms) k').
  { intros s mk old Hs Hf. split.
    - simpl. f_equal. eapply shape_subst; eauto.
    - eapply frame_node; eauto. }
  destruct k; simpl.
  - destruct (find is_prop att ms) as [[mk c]|] eqn:Ep.
    + destruct mk as [st g| | |]; try discriminate. destruct st; [|discriminate].
      destruct (guard_check g v); [discriminate|]. destruct c; [|discriminate].
      intros H _; inversion H; subst. eapply G; eauto using std.
    + destruct open; [|discriminate].
      destruct (find is_inst att ms) as [[mk c]|] eqn:Ei; [|discriminate].
      destruct c; [|discriminate]. intros H _; inversion H; subst. eapply G; eauto using std.
  - destruct (find is_item att ms) as [[mk c]|] eqn:Ei; [|discriminate].
    destruct c; [|discriminate]. intros H _; inversion H; subst. eapply G; eauto using std.
  - destruct (find is_item att ms) as [[mk c]|] eqn:Ei; [|discriminate].
    destruct c; [|discriminate]. intros H _; inversion H; subst. eapply G; eauto using std.
  - destruct (find is_prop att ms) as [[mk c]|] eqn:Ep.
    + destruct mk as [st g| | |]; try discriminate. destruct st; [|discriminate].
      destruct (guard_check g v); [discriminate|]. destruct c; [|discriminate].
      intros H _; inversion H; subst. eapply G; eauto using std.
    + destruct (find is_inst att ms) as [[mk c]|] eqn:Ei; [|discriminate].
      destruct c; [|discriminate]. intros H _; inversion H; subst. eapply G; eauto using std.
Qed.

Lemma set_at_frame : forall body t att v t',
  set_at t body att v = Ok t' -> targets_setting_at t body att = true ->
  shape t' = shape t /\ forall k', k' <> body ++ [att] -> geto t' k' = geto t k'.
Proof.
  induction body as [|p body IH]; intros t att v t'.
  - simpl. apply assign_frame.
  - simpl. destruct (step t p) as [s c| |] eqn:Es; try discriminate.
    destruct (step_found _ _ _ _ Es) as (k & ms & mk & -> & Hs & Hf & Hg & Hd).
    destruct (set_at c body att v) as [c'|] eqn:Ec; [|discriminate].
    intros H Ht; inversion H; subst; clear H.
    destruct (IH _ _ _ _ Ec Ht) as [IHs IHg]. split.
    + simpl. f_equal. eapply shape_subst; eauto.
    + intros k' Hk. destruct k' as [|q r]; [reflexivity|].
      unfold geto. simpl.
      destruct (String.eqb q p) eqn:Eq.
      * apply String.eqb_eq in Eq. subst q.
        rewrite getattr_subst_std by assumption.
        destruct (getattr k p ms) as [[mk' t0]|] eqn:Eg; [|reflexivity].
        destruct (s mk') eqn:Esm; [|reflexivity].
        rewrite (getattr_sel_find _ _ _ _ _ _ Hs Eg Esm) in Hf. inversion Hf; subst.
        apply (IHg r). congruence.
      * apply String.eqb_neq in Eq. rewrite getattr_subst_other by assumption. reflexivity.
Qed.

Theorem frame_partial : forall t k v t',
  set t k v = Ok t' -> targets_setting t k = true ->
  shape t' = shape t /\ forall k', k' <> k -> getv t' k' = getv t k'.
Proof.
  intros t k v t'. unfold set, targets_setting.
  destruct (split_last k) as [[b a]|] eqn:E; [|discriminate].
  apply split_last_app in E. subst k. intros Hs Ht.
  destruct (set_at_frame _ _ _ _ _ Hs Ht) as [S G]. split; [exact S|].
  intros k' Hk. unfold getv. destruct k' as [|q r]; [reflexivity|]. apply (G (q :: r) Hk).
Qed.

(* a setting is something has() confirms *)
Lemma tail_setting_has t att : tail_is_setting t att = true -> has_tail t att = true.
Proof.
  destruct t as [x|k ms]; simpl; [discriminate|].
  destruct k; simpl; unfold getattr, orelse.
  - destruct (find is_prop att ms) as [[]|]; auto. destruct open; [|discriminate].
    destruct (find is_inst att ms) as [[]|]; auto; discriminate.
  - destruct (find is_item att ms) as [[]|]; auto; discriminate.
  - destruct (find is_prop att ms) as [[]|]; auto.
    destruct (find is_inst att ms) as [[]|]; auto.
    destruct (find is_class att ms) as [[]|]; auto.
    simpl. destruct (find is_item att ms) as [[]|]; auto; discriminate.
  - destruct (find is_prop att ms) as [[]|]; auto.
    destruct (find is_inst att ms) as [[]|]; auto; discriminate.
Qed.

Theorem targets_setting_has : forall t k, targets_setting t k = true -> has t k = Ok true.
Proof.
  intros t k. unfold targets_setting, has. destruct (split_last k) as [[b a]|]; [|discriminate].
  revert t. induction b as [|p b IH]; intros t; simpl.
  - intros H. rewrite (tail_setting_has _ _ H). reflexivity.
  - destruct (step t p); try discriminate. apply IH.
Qed.

(* ------------------------------------------------------------------------------------ unresolved keys *)

Lemma getattr_none_item k n ms : has_fallback k = true -> getattr k n ms = None -> find is_item n ms = None.
Proof.
  unfold getattr, orelse. intros ->.
  destruct (find is_prop n ms); [discriminate|]. destruct (find is_inst n ms); [discriminate|].
  destruct (find is_class n ms); [discriminate|]. auto.
Qed.

Lemma getattr_none_prop k n ms : getattr k n ms = None -> find is_prop n ms = None.
Proof. unfold getattr, orelse. destruct (find is_prop n ms); [discriminate|auto]. Qed.

Lemma assign_unresolved t att v :
  has_tail t att = false -> tail_open t = false -> exists e, assign t att v = Raise e.
Proof.
  destruct t as [x|k ms]; simpl; [eauto|].
  destruct k; simpl.
  - destruct open; [discriminate|]. destruct (getattr (NObj false) att ms) eqn:E; [discriminate|].
    rewrite (getattr_none_prop _ _ _ E). eauto.
  - destruct (find is_item att ms); [discriminate|]. eauto.
  - destruct (getattr NArgs att ms) eqn:E; [discriminate|].
    rewrite (getattr_none_item NArgs _ _ eq_refl E). eauto.
  - discriminate.
Qed.

Lemma set_at_unresolved : forall body t att v,
  has_at t body att <> Ok true -> lands_open_at t body = false -> exists e, set_at t body att v = Raise e.
Proof.
  induction body as [|p body IH]; intros t att v; simpl.
  - intros H. apply assign_unresolved. destruct (has_tail t att); congruence.
  - destruct (step t p) as [s c| |]; eauto.
    intros H L. destruct (IH c att v H L) as [e ->]. eauto.
Qed.

Theorem unresolved_rejected_partial : forall t k v,
  has t k <> Ok true -> lands_open t k = false -> exists e, set t k v = Raise e.
Proof.
  intros t k v. unfold has, lands_open, set. destruct (split_last k) as [[b a]|]; eauto.
  apply set_at_unresolved.
Qed.

(* the defect, characterised: on an open object an unconfirmed name is accepted and a new attribute appears *)
Lemma shape_ms_length_neq n mk t ms : shape_ms (MCons n mk t ms) <> shape_ms ms.
Proof.
  assert (L : forall a b : mlist, a = b ->
              (fix len (m : mlist) : nat := match m with MNil => O | MCons _ _ _ r => S (len r) end) a =
              (fix len (m : mlist) : nat := match m with MNil => O | MCons _ _ _ r => S (len r) end) b) by (intros; subst; auto).
  intros H. apply L in H. simpl in H.
  set (len := fix len (m : mlist) : nat := match m with MNil => O | MCons _ _ _ r => S (len r) end) in *.
  assert (forall m, len (shape_ms m) = len m) as E by (induction m; simpl; auto).
  lia.
Qed.

Lemma shape_subst_inv s n f ms mk c :
  find s n ms = Some (mk, c) -> shape_ms (subst s n f ms) = shape_ms ms -> shape (f c) = shape c.
Proof.
  induction ms as [|n' mk' t' r IH]; simpl; [discriminate|].
  destruct (String.eqb n n' && s mk')%bool eqn:E.
  - intros H; inversion H; subst. simpl. intros K; inversion K; auto.
  - intros H. simpl. intros K; inversion K; auto.
Qed.

Lemma assign_creates t att v :
  has_tail t att = false -> tail_open t = true ->
  exists t', assign t att v = Ok t' /\ shape t' <> shape t.
Proof.
  destruct t as [x|k ms]; simpl; [discriminate|].
  destruct k; simpl; try discriminate.
  - destruct open; [|discriminate]. unfold getattr, orelse.
    destruct (find is_prop att ms); [discriminate|]. destruct (find is_inst att ms); [discriminate|].
    intros _ _. eexists; split; [reflexivity|]. simpl. intros H; inversion H as [K].
    exact (shape_ms_length_neq att KInst (Leaf v) ms K).
  - unfold getattr, orelse.
    destruct (find is_prop att ms); [discriminate|]. destruct (find is_inst att ms); [discriminate|].
    intros _ _. eexists; split; [reflexivity|]. simpl. intros H; inversion H as [K].
    exact (shape_ms_length_neq att KInst (Leaf v) ms K).
Qed.

Lemma set_at_creates : forall body t att v,
  has_at t body att = Ok false -> lands_open_at t body = true ->
  exists t', set_at t body att v = Ok t' /\ shape t' <> shape t.
Proof.
  induction body as [|p body IH]; intros t att v; simpl.
  - intros H. apply assign_creates. congruence.
  - destruct (step t p) as [s c| |] eqn:Es; try discriminate.
    destruct (step_found _ _ _ _ Es) as (k & ms & mk & -> & Hs & Hf & _).
    intros H L. destruct (IH c att v H L) as (c' & -> & Hne).
    eexists; split; [reflexivity|]. simpl. intros K; inversion K as [K'].
    apply Hne. exact (shape_subst_inv _ _ _ _ _ _ Hf K').
Qed.

Theorem unresolved_on_open_creates : forall t k v,
  has t k = Ok false -> lands_open t k = true ->
  exists t', set t k v = Ok t' /\ shape t' <> shape t.
Proof.
  intros t k v. unfold has, lands_open, set. destruct (split_last k) as [[b a]|]; [|discriminate].
  apply set_at_creates.
Qed.

(* a refused assignment has no effect by construction (set returns no tree); recorded for the harness clause *)

(* ------------------------------------------------------------------------------------ validate_steps *)

Theorem validate_error_any_position : forall t keys key,
  In key keys -> check_step t key <> None -> exists e, validate_steps t keys = Some e.
Proof.
  induction keys as [|k r IH]; simpl; [tauto|].
  intros key [->|Hin] Hc.
  - destruct (check_step t key); [eauto|congruence].
  - destruct (check_step t k); eauto.
Qed.

Lemma check_step_undeclared t key : has t (split_dots key) <> Ok true -> check_step t key <> None.
Proof.
  unfold check_step. destruct (has t (split_dots key)) as [[]|]; congruence.
Qed.

Lemma check_step_disabled t key :
  contains "pipeline." key = true ->
  (forall v, getv t (split_dots (model_prefix key ++ ".enabled")%string) = Ok v -> truthy v = false) ->
  check_step t key <> None.
Proof.
  intros Hc Hv. unfold check_step. destruct (has t (split_dots key)) as [[]|]; try congruence.
  rewrite Hc. destruct (getv t (split_dots (model_prefix key ++ ".enabled")%string)) as [v|]; [|congruence].
  rewrite (Hv v eq_refl). congruence.
Qed.

Theorem undeclared_or_disabled_is_error : forall t keys key,
  In key keys ->
  (has t (split_dots key) <> Ok true \/
   (contains "pipeline." key = true /\
    forall v, getv t (split_dots (model_prefix key ++ ".enabled")%string) = Ok v -> truthy v = false)) ->
  exists e, validate_steps t keys = Some e.
Proof.
  intros t keys key Hin [H|[Hc Hv]]; eapply validate_error_any_position; eauto using check_step_undeclared, check_step_disabled.
Qed.

Theorem validated_keys_declared_and_enabled : forall t keys,
  validate_steps t keys = None ->
  forall key, In key keys ->
    has t (split_dots key) = Ok true /\
    (contains "pipeline." key = true ->
     exists v, getv t (split_dots (model_prefix key ++ ".enabled")%string) = Ok v /\ truthy v = true).
Proof.
  induction keys as [|k r IH]; simpl; [tauto|].
  destruct (check_step t k) eqn:E; [discriminate|]. intros Hv key [->|Hin]; [|auto].
  unfold check_step in E. destruct (has t (split_dots key)) as [[]|]; try discriminate.
  split; [reflexivity|]. intros Hc. rewrite Hc in E.
  destruct (getv t (split_dots (model_prefix key ++ ".enabled")%string)) as [v|]; [|discriminate].
  exists v. split; [reflexivity|]. destruct (truthy v); [reflexivity|discriminate].
Qed.
