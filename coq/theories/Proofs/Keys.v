(* C08 — proofs about the settings-tree model (Model/Keys.v): for ALL trees, keys and values. *)
From Coq Require Import ZArith List Bool String Ascii Lia.
From PyxelV Require Import Model.Keys.
Import ListNotations.
Open Scope string_scope.
Open Scope list_scope.

(* ------------------------------------------------------------------------------------ find / subst *)

Lemma find_sel_true s n ms mk t : find s n ms = Some (mk, t) -> s mk = true.
Proof.
  induction ms as [|n' mk' t' r IH]; simpl; [discriminate|].
  destruct (String.eqb n n' && s mk')%bool eqn:E.
  - intros H; inversion H; subst. apply andb_true_iff in E. tauto.
  - apply IH.
Qed.

Lemma find_subst_same s n f ms :
  find s n (subst s n f ms) = match find s n ms with Some (mk, t) => Some (mk, f t) | None => None end.
Proof.
  induction ms as [|n' mk' t' r IH]; simpl; [reflexivity|].
  destruct (String.eqb n n' && s mk')%bool eqn:E; simpl; rewrite E; auto.
Qed.

Lemma find_subst_other_name s s' n n' f ms :
  n' <> n -> find s' n' (subst s n f ms) = find s' n' ms.
Proof.
  intros Hn. induction ms as [|m mk' t' r IH]; simpl; [reflexivity|].
  destruct (String.eqb n m && s mk')%bool eqn:E; simpl.
  - destruct (String.eqb n' m && s' mk')%bool eqn:E'; auto.
    apply andb_true_iff in E. destruct E as [E _]. apply String.eqb_eq in E.
    apply andb_true_iff in E'. destruct E' as [E' _]. apply String.eqb_eq in E'. congruence.
  - rewrite IH. reflexivity.
Qed.

Definition disjoint (s s' : mkind -> bool) := forall mk, s mk = true -> s' mk = false.

Lemma find_subst_disjoint s s' n n' f ms :
  disjoint s s' -> find s' n' (subst s n f ms) = find s' n' ms.
Proof.
  intros D. induction ms as [|m mk' t' r IH]; simpl; [reflexivity|].
  destruct (String.eqb n m && s mk')%bool eqn:E; simpl.
  - apply andb_true_iff in E. destruct E as [_ E]. rewrite (D _ E), andb_false_r. reflexivity.
  - rewrite IH. reflexivity.
Qed.

Inductive std : (mkind -> bool) -> Prop :=
| std_prop : std is_prop | std_inst : std is_inst | std_class : std is_class | std_item : std is_item.

Lemma std_eq_or_disjoint s s' : std s -> std s' -> s = s' \/ (disjoint s s' /\ disjoint s' s).
Proof.
  intros [] []; auto; right; split; intros [] ; simpl; congruence.
Qed.

(* find with a standard selector after a substitution with a standard selector *)
Lemma find_subst_std s s' n f ms :
  std s -> std s' ->
  find s' n (subst s n f ms) =
  match find s' n ms with Some (mk, t) => Some (mk, if s mk then f t else t) | None => None end.
Proof.
  intros Hs Hs'. destruct (std_eq_or_disjoint s s' Hs Hs') as [->|[D D']].
  - rewrite find_subst_same. destruct (find s' n ms) as [[mk t]|] eqn:E; auto.
    rewrite (find_sel_true _ _ _ _ _ E). reflexivity.
  - rewrite find_subst_disjoint by assumption.
    destruct (find s' n ms) as [[mk t]|] eqn:E; auto.
    rewrite (D' _ (find_sel_true _ _ _ _ _ E)). reflexivity.
Qed.

Lemma getattr_subst_std k s n f ms :
  std s ->
  getattr k n (subst s n f ms) =
  match getattr k n ms with Some (mk, t) => Some (mk, if s mk then f t else t) | None => None end.
Proof.
  intros Hs. unfold getattr.
  rewrite !(find_subst_std s) by (assumption || constructor).
  destruct (find is_prop n ms) as [[]|]; simpl; auto.
  destruct (find is_inst n ms) as [[]|]; simpl; auto.
  destruct (find is_class n ms) as [[]|]; simpl; auto.
  destruct (has_fallback k); auto.
Qed.

Lemma getattr_subst_other k s n n' f ms :
  n' <> n -> getattr k n' (subst s n f ms) = getattr k n' ms.
Proof. intros H. unfold getattr. rewrite !find_subst_other_name by assumption. reflexivity. Qed.

(* if getattr returns a member selected by the standard selector s, it is the first s-member *)
Lemma getattr_sel_find k s n ms mk t :
  std s -> getattr k n ms = Some (mk, t) -> s mk = true -> find s n ms = Some (mk, t).
Proof.
  intros Hs. unfold getattr, orelse.
  destruct (find is_prop n ms) as [[m1 t1]|] eqn:E1.
  { intros H; inversion H; subst. pose proof (find_sel_true _ _ _ _ _ E1) as K.
    destruct Hs; destruct mk; simpl in *; try discriminate; auto. }
  destruct (find is_inst n ms) as [[m2 t2]|] eqn:E2.
  { intros H; inversion H; subst. pose proof (find_sel_true _ _ _ _ _ E2) as K.
    destruct Hs; destruct mk; simpl in *; try discriminate; auto. }
  destruct (find is_class n ms) as [[m3 t3]|] eqn:E3.
  { intros H; inversion H; subst. pose proof (find_sel_true _ _ _ _ _ E3) as K.
    destruct Hs; destruct mk; simpl in *; try discriminate; auto. }
  destruct (has_fallback k); [|discriminate].
  intros H. pose proof (find_sel_true _ _ _ _ _ H) as K.
  destruct Hs; destruct mk; simpl in *; try discriminate; auto.
Qed.

Lemma getattr_sel_std k n ms : std (getattr_sel k n ms).
Proof.
  unfold getattr_sel. destruct (find is_prop n ms); [constructor|].
  destruct (find is_inst n ms); [constructor|]. destruct (find is_class n ms); constructor.
Qed.

Lemma getattr_find_sel k n ms x : getattr k n ms = Some x -> find (getattr_sel k n ms) n ms = Some x.
Proof.
  unfold getattr, getattr_sel, orelse.
  destruct (find is_prop n ms) eqn:E1; [congruence|].
  destruct (find is_inst n ms) eqn:E2; [congruence|].
  destruct (find is_class n ms) eqn:E3; [congruence|].
  destruct (has_fallback k); [auto|discriminate].
Qed.

(* what `step` guarantees *)
Lemma step_found t p s c :
  step t p = SFound s c ->
  exists k ms mk, t = Node k ms /\ std s /\ find s p ms = Some (mk, c) /\
                  (k <> NDict -> getattr k p ms = Some (mk, c)) /\ (k = NDict -> s = is_item).
Proof.
  destruct t as [v|k ms]; simpl; [discriminate|].
  destruct k.
  - destruct (getattr (NObj open) p ms) as [[mk c']|] eqn:E; [|discriminate].
    intros H; inversion H; subst. exists (NObj open), ms, mk. repeat split; auto using getattr_sel_std, getattr_find_sel.
    congruence.
  - destruct (find is_item p ms) as [[mk c']|] eqn:E; [|discriminate].
    intros H; inversion H; subst. exists NDict, ms, mk. repeat split; auto using std_item. congruence.
  - destruct (getattr NArgs p ms) as [[mk c']|] eqn:E; [|discriminate].
    intros H; inversion H; subst. exists NArgs, ms, mk. repeat split; auto using getattr_sel_std, getattr_find_sel.
    congruence.
  - destruct (getattr NGroup p ms) as [[mk c']|] eqn:E; [|discriminate].
    intros H; inversion H; subst. exists NGroup, ms, mk. repeat split; auto using getattr_sel_std, getattr_find_sel.
    congruence.
Qed.

(* the selected member after the substitution, seen through getattr *)
Lemma getattr_after_step k p ms s mk c f :
  std s -> find s p ms = Some (mk, c) -> getattr k p ms = Some (mk, c) ->
  getattr k p (subst s p f ms) = Some (mk, f c).
Proof.
  intros Hs Hf Hg. rewrite getattr_subst_std by assumption. rewrite Hg.
  rewrite (find_sel_true _ _ _ _ _ Hf). reflexivity.
Qed.

(* ------------------------------------------------------------------------------------ lookup (Processor.get) *)

Lemma lookup_subst_other first k s n n' f ms :
  n' <> n -> lookup first k n' (subst s n f ms) = lookup first k n' ms.
Proof.
  intros H. unfold lookup. rewrite getattr_subst_other by assumption.
  rewrite find_subst_other_name by assumption. reflexivity.
Qed.

Lemma lookup_subst_std first k s n f ms :
  std s ->
  lookup first k n (subst s n f ms) =
  match lookup first k n ms with Some (mk, t) => Some (mk, if s mk then f t else t) | None => None end.
Proof.
  intros Hs. unfold lookup, orelse. destruct first.
  - rewrite (find_subst_std s) by (assumption || constructor).
    destruct (find is_item n ms) as [[]|]; [reflexivity|]. apply getattr_subst_std; assumption.
  - apply getattr_subst_std; assumption.
Qed.

(* if the lookup returns a member selected by the standard selector s, it is the first s-member *)
Lemma lookup_sel_find first k s n ms mk t :
  std s -> lookup first k n ms = Some (mk, t) -> s mk = true -> find s n ms = Some (mk, t).
Proof.
  intros Hs. unfold lookup, orelse. destruct first; [|apply getattr_sel_find; assumption].
  destruct (find is_item n ms) as [[m0 t0]|] eqn:E; [|apply getattr_sel_find; assumption].
  intros H; inversion H; subst. pose proof (find_sel_true _ _ _ _ _ E) as K.
  destruct Hs; destruct mk; simpl in *; try discriminate; auto.
Qed.

(* ------------------------------------------------------------------------------------ set then get *)

(* after the final assignment, the lookup of the LAST component finds the assigned value *)
Lemma assign_lookup t att v k' ms' :
  assign t att v = Ok (Node k' ms') -> lookup (item_first k' true) k' att ms' = Some (match lookup (item_first k' true) k' att ms' with Some (mk, _) => mk | None => KItem end, Leaf v).
Proof.
  destruct t as [x|k ms]; simpl; [discriminate|].
  destruct k; simpl.
  - (* NObj *)
    destruct (find is_prop att ms) as [[mk c]|] eqn:Ep.
    + destruct mk as [st g| | |]; try discriminate. destruct st; [|discriminate].
      destruct (guard_check g v); [discriminate|]. intros H; inversion H; subst; clear H. simpl.
      unfold lookup, getattr, orelse. rewrite find_subst_same, Ep. reflexivity.
    + destruct open; [|discriminate].
      destruct (find is_inst att ms) as [[mk [old|? ?]]|] eqn:Ei; try discriminate.
      intros H; inversion H; subst; clear H; simpl.
      unfold lookup, getattr, orelse. rewrite find_subst_disjoint, Ep by (intros []; simpl; congruence).
      rewrite find_subst_same, Ei. reflexivity.
  - (* NDict *)
    destruct (find is_item att ms) as [[mk c]|] eqn:Ei; [|discriminate].
    intros H; inversion H; subst; clear H. simpl.
    unfold lookup, orelse. rewrite find_subst_same, Ei. reflexivity.
  - (* NArgs *)
    destruct (find is_item att ms) as [[mk c]|] eqn:Ei; [|discriminate].
    intros H; inversion H; subst; clear H. simpl.
    unfold lookup, orelse. rewrite find_subst_same, Ei. reflexivity.
  - (* NGroup *)
    destruct (find is_prop att ms) as [[mk c]|] eqn:Ep.
    + destruct mk as [st g| | |]; try discriminate. destruct st; [|discriminate].
      destruct (guard_check g v); [discriminate|]. intros H; inversion H; subst; clear H. simpl.
      unfold lookup, getattr, orelse. rewrite find_subst_same, Ep. reflexivity.
    + destruct (find is_inst att ms) as [[mk [old|? ?]]|] eqn:Ei; try discriminate.
      intros H; inversion H; subst; clear H; simpl.
      unfold lookup, getattr, orelse. rewrite find_subst_disjoint, Ep by (intros []; simpl; congruence).
      rewrite find_subst_same, Ei. reflexivity.
Qed.

Lemma assign_node t att v t' : assign t att v = Ok t' -> exists k ms, t' = Node k ms.
Proof.
  destruct t as [x|k ms]; simpl; [discriminate|].
  destruct k; simpl;
    repeat match goal with
           | |- context [match ?x with _ => _ end] => destruct x; try discriminate
           end; intros H; inversion H; eauto.
Qed.

Lemma assign_get t att v t' : assign t att v = Ok t' -> get t' [att] = Ok (Leaf v).
Proof.
  intros H. destruct (assign_node _ _ _ _ H) as (k & ms & ->).
  pose proof (assign_lookup _ _ _ _ _ H) as L. simpl. rewrite L. reflexivity.
Qed.

(* a step of the walk of _get_obj_att is also what Processor.get does at a component that is not the last one *)
Lemma step_lookup t p s c :
  step t p = SFound s c ->
  exists k ms mk, t = Node k ms /\ std s /\ find s p ms = Some (mk, c) /\ lookup (item_first k false) k p ms = Some (mk, c).
Proof.
  intros Es. destruct (step_found _ _ _ _ Es) as (k & ms & mk & -> & Hs & Hf & Hg & Hd).
  exists k, ms, mk. repeat split; auto.
  destruct k; simpl; unfold lookup; try (apply Hg; congruence).
  (* NDict: the item is found first *)
  rewrite (Hd eq_refl) in Hf. unfold orelse. rewrite Hf. reflexivity.
Qed.

Lemma set_at_get : forall body t att v t',
  set_at t body att v = Ok t' -> get t' (body ++ [att]) = Ok (Leaf v).
Proof.
  induction body as [|p body IH]; intros t att v t'.
  - simpl. apply assign_get.
  - simpl. destruct (step t p) as [s c| |] eqn:Es; try discriminate.
    destruct (step_lookup _ _ _ _ Es) as (k & ms & mk & -> & Hs & Hf & Hl).
    destruct (set_at c body att v) as [c'|] eqn:Ec; [|discriminate].
    intros H; inversion H; subst; clear H.
    cbn [get]. replace (is_nil (body ++ [att])) with false by (destruct body; reflexivity).
    rewrite lookup_subst_std by assumption. rewrite Hl.
    rewrite (find_sel_true _ _ _ _ _ Hf). eapply IH; eauto.
Qed.

Lemma split_last_app k b a : split_last k = Some (b, a) -> k = b ++ [a].
Proof.
  unfold split_last. destruct (rev k) as [|x r] eqn:E; [discriminate|].
  intros H; inversion H; subst. rewrite <- (rev_involutive k), E. reflexivity.
Qed.

Lemma split_last_snoc b a : split_last (b ++ [a]) = Some (b, a).
Proof. unfold split_last. rewrite rev_app_distr. simpl. rewrite rev_involutive. reflexivity. Qed.

Theorem set_get : forall t k v t', set t k v = Ok t' -> getv t' k = Ok v.
Proof.
  intros t k v t'. unfold set, getv.
  destruct (split_last k) as [[b a]|] eqn:E; [|discriminate].
  apply split_last_app in E. subst k. intros Hs.
  rewrite (set_at_get _ _ _ _ _ Hs). destruct b; reflexivity.
Qed.

(* ------------------------------------------------------------------------------------ frame *)

Lemma shape_subst s n f ms mk c :
  find s n ms = Some (mk, c) -> shape (f c) = shape c -> shape_ms (subst s n f ms) = shape_ms ms.
Proof.
  induction ms as [|n' mk' t' r IH]; simpl; [discriminate|].
  destruct (String.eqb n n' && s mk')%bool eqn:E.
  - intros H Hc; inversion H; subst. simpl. rewrite Hc. reflexivity.
  - intros H Hc. simpl. rewrite IH; auto.
Qed.

Definition geto (t : tree) (k : list string) : res pyval :=
  match get t k with Ok c => Ok (obs_of c) | Raise e => Raise e end.

(* what the final assignment does: it replaces, in the landing node, the subtree of one existing member by Leaf v *)
Lemma assign_subst t att v t' :
  assign t att v = Ok t' ->
  tail_is_target t att = true /\
  exists k ms s mk old, t = Node k ms /\ std s /\ find s att ms = Some (mk, old) /\
                        t' = Node k (subst s att (fun _ => Leaf v) ms) /\
                        (tail_is_setting t att = true -> exists x, old = Leaf x).
Proof.
  destruct t as [x|k ms]; simpl; [discriminate|].
  destruct k; simpl.
  - destruct (find is_prop att ms) as [[mk c]|] eqn:Ep.
    + destruct mk as [st g| | |]; try discriminate. destruct st; [|discriminate].
      destruct (guard_check g v); [discriminate|]. intros H; inversion H; subst. split; [reflexivity|].
      exists (NObj open), ms, is_prop, (KProp true g), c. repeat split; auto using std.
      destruct c; [eauto|discriminate].
    + destruct open; [|discriminate].
      destruct (find is_inst att ms) as [[mk [old|? ?]]|] eqn:Ei; try discriminate.
      intros H; inversion H; subst. split; [reflexivity|].
      exists (NObj true), ms, is_inst, mk, (Leaf old). repeat split; eauto using std.
  - destruct (find is_item att ms) as [[mk c]|] eqn:Ei; [|discriminate].
    intros H; inversion H; subst. split; [reflexivity|].
    exists NDict, ms, is_item, mk, c. repeat split; auto using std. destruct c; [eauto|discriminate].
  - destruct (find is_item att ms) as [[mk c]|] eqn:Ei; [|discriminate].
    intros H; inversion H; subst. split; [reflexivity|].
    exists NArgs, ms, is_item, mk, c. repeat split; auto using std. destruct c; [eauto|discriminate].
  - destruct (find is_prop att ms) as [[mk c]|] eqn:Ep.
    + destruct mk as [st g| | |]; try discriminate. destruct st; [|discriminate].
      destruct (guard_check g v); [discriminate|]. intros H; inversion H; subst. split; [reflexivity|].
      exists NGroup, ms, is_prop, (KProp true g), c. repeat split; auto using std.
      destruct c; [eauto|discriminate].
    + destruct (find is_inst att ms) as [[mk [old|? ?]]|] eqn:Ei; try discriminate.
      intros H; inversion H; subst. split; [reflexivity|].
      exists NGroup, ms, is_inst, mk, (Leaf old). repeat split; eauto using std.
Qed.

(* replacing, in a node, the subtree of one member is invisible at every key that does not start with its name;
   if a leaf replaces a leaf it is invisible at every key but the name itself *)
Lemma frame_node k ms s n mk old v :
  std s -> find s n ms = Some (mk, old) ->
  forall k', (is_prefix [n] k' = false \/ ((exists x, old = Leaf x) /\ k' <> [n])) ->
  geto (Node k (subst s n (fun _ => Leaf v) ms)) k' = geto (Node k ms) k'.
Proof.
  intros Hs Hf k' Hk. destruct k' as [|q r]; [reflexivity|].
  unfold geto. cbn [get].
  destruct (String.eqb q n) eqn:Eq.
  - apply String.eqb_eq in Eq. subst q.
    destruct Hk as [Hk|[[x ->] Hk]].
    { simpl in Hk. rewrite String.eqb_refl in Hk. discriminate. }
    rewrite lookup_subst_std by assumption.
    destruct (lookup (item_first k (is_nil r)) k n ms) as [[mk' t0]|] eqn:Eg; [|reflexivity].
    destruct (s mk') eqn:Esm; [|reflexivity].
    rewrite (lookup_sel_find _ _ _ _ _ _ _ Hs Eg Esm) in Hf. inversion Hf; subst.
    destruct r; [congruence|]. reflexivity.
  - apply String.eqb_neq in Eq. rewrite lookup_subst_other by assumption. reflexivity.
Qed.

Lemma set_at_frame : forall body t att v t',
  set_at t body att v = Ok t' ->
  targets_at t body att = true /\
  (forall k', is_prefix (body ++ [att]) k' = false -> geto t' k' = geto t k') /\
  (targets_setting_at t body att = true ->
   shape t' = shape t /\ forall k', k' <> body ++ [att] -> geto t' k' = geto t k').
Proof.
  induction body as [|p body IH]; intros t att v t'.
  - simpl. intros H. destruct (assign_subst _ _ _ _ H) as (Ht & k & ms & s & mk & old & -> & Hs & Hf & -> & Hleaf).
    split; [exact Ht|]. split.
    + intros k' Hk. eapply frame_node; eauto.
    + intros Hset. destruct (Hleaf Hset) as [x ->]. split.
      * simpl. f_equal. eapply shape_subst; eauto.
      * intros k' Hk. eapply frame_node; eauto.
  - simpl. destruct (step t p) as [s c| |] eqn:Es; try discriminate.
    destruct (step_lookup _ _ _ _ Es) as (k & ms & mk & -> & Hs & Hf & Hl).
    destruct (set_at c body att v) as [c'|] eqn:Ec; [|discriminate].
    intros H; inversion H; subst; clear H.
    destruct (IH _ _ _ _ Ec) as (IHt & IHg & IHv).
    assert (G : forall k', (forall r, k' = p :: r -> geto c' r = geto c r) ->
                geto (Node k (subst s p (fun _ => c') ms)) k' = geto (Node k ms) k').
    { intros k' Hr. destruct k' as [|q r]; [reflexivity|].
      unfold geto. cbn [get].
      destruct (String.eqb q p) eqn:Eq.
      - apply String.eqb_eq in Eq. subst q.
        rewrite lookup_subst_std by assumption.
        destruct (lookup (item_first k (is_nil r)) k p ms) as [[mk' t0]|] eqn:Eg; [|reflexivity].
        destruct (s mk') eqn:Esm; [|reflexivity].
        rewrite (lookup_sel_find _ _ _ _ _ _ _ Hs Eg Esm) in Hf. inversion Hf; subst.
        apply (Hr r eq_refl).
      - apply String.eqb_neq in Eq. rewrite lookup_subst_other by assumption. reflexivity. }
    split; [exact IHt|]. split.
    + intros k' Hk. apply G. intros r ->. apply IHg.
      simpl in Hk. rewrite String.eqb_refl in Hk. exact Hk.
    + intros Hset. destruct (IHv Hset) as [Sh Gv]. split.
      * simpl. f_equal. eapply shape_subst; eauto.
      * intros k' Hk. apply G. intros r ->. apply Gv. simpl in Hk. congruence.
Qed.

(* FRAME: an accepted assignment addressed an existing, settable setting, and every key that does not extend the
   assigned key reads exactly as before (same value, same object marker or same error) *)
Theorem frame : forall t k v t',
  set t k v = Ok t' ->
  targets t k = true /\ forall k', is_prefix k k' = false -> getv t' k' = getv t k'.
Proof.
  intros t k v t'. unfold set, targets.
  destruct (split_last k) as [[b a]|] eqn:E; [|discriminate].
  apply split_last_app in E. subst k. intros Hs.
  destruct (set_at_frame _ _ _ _ _ Hs) as (Ht & G & _). split; [exact Ht|].
  intros k' Hk. unfold getv. destruct k' as [|q r]; [reflexivity|]. apply (G (q :: r) Hk).
Qed.

(* ... and when the setting held a plain value, nothing at all changes but that value *)
Theorem frame_value : forall t k v t',
  set t k v = Ok t' -> targets_setting t k = true ->
  shape t' = shape t /\ forall k', k' <> k -> getv t' k' = getv t k'.
Proof.
  intros t k v t'. unfold set, targets_setting.
  destruct (split_last k) as [[b a]|] eqn:E; [|discriminate].
  apply split_last_app in E. subst k. intros Hs Ht.
  destruct (set_at_frame _ _ _ _ _ Hs) as (_ & _ & Hv). destruct (Hv Ht) as [S G]. split; [exact S|].
  intros k' Hk. unfold getv. destruct k' as [|q r]; [reflexivity|]. apply (G (q :: r) Hk).
Qed.

(* a setting is something has() confirms *)
Lemma tail_target_has t att : tail_is_target t att = true -> has_tail t att = true.
Proof.
  destruct t as [x|k ms]; simpl; [discriminate|].
  destruct k; simpl; unfold getattr, orelse.
  - destruct (find is_prop att ms) as [[]|]; auto. destruct open; [|discriminate].
    destruct (find is_inst att ms) as [[]|]; auto; discriminate.
  - destruct (find is_item att ms) as [[]|]; auto; discriminate.
  - destruct (find is_prop att ms) as [[]|]; auto.
    destruct (find is_inst att ms) as [[]|]; auto.
    destruct (find is_class att ms) as [[]|]; auto.
  - destruct (find is_prop att ms) as [[]|]; auto.
    destruct (find is_inst att ms) as [[]|]; auto; discriminate.
Qed.

Theorem targets_has : forall t k, targets t k = true -> has t k = Ok true.
Proof.
  intros t k. unfold targets, has. destruct (split_last k) as [[b a]|]; [|discriminate].
  revert t. induction b as [|p b IH]; intros t; simpl.
  - intros H. rewrite (tail_target_has _ _ H). reflexivity.
  - destruct (step t p); try discriminate. apply IH.
Qed.

Lemma tail_setting_target t att : tail_is_setting t att = true -> tail_is_target t att = true.
Proof.
  destruct t as [x|k ms]; simpl; [discriminate|].
  destruct k; simpl;
    repeat match goal with
           | |- context [match ?x with _ => _ end] => destruct x; try discriminate; try reflexivity
           end.
Qed.

Theorem targets_setting_targets : forall t k, targets_setting t k = true -> targets t k = true.
Proof.
  intros t k. unfold targets_setting, targets. destruct (split_last k) as [[b a]|]; [|discriminate].
  revert t. induction b as [|p b IH]; intros t; simpl.
  - apply tail_setting_target.
  - destruct (step t p); try discriminate. apply IH.
Qed.

Theorem targets_setting_has : forall t k, targets_setting t k = true -> has t k = Ok true.
Proof. intros. apply targets_has, targets_setting_targets. assumption. Qed.

Lemma tail_argument_has t att :
  match t with Node NArgs ms => match find is_item att ms with Some _ => true | None => false end | _ => false end = true ->
  has_tail t att = true.
Proof.
  destruct t as [x|k ms]; [discriminate|]. destruct k; try discriminate. simpl. unfold getattr, orelse.
  destruct (find is_prop att ms) as [[]|]; auto.
  destruct (find is_inst att ms) as [[]|]; auto.
  destruct (find is_class att ms) as [[]|]; auto.
Qed.

Theorem targets_argument_has : forall t k, targets_argument t k = true -> has t k = Ok true.
Proof.
  intros t k. unfold targets_argument, has. destruct (split_last k) as [[b a]|]; [|discriminate].
  revert t. induction b as [|p b IH]; intros t; simpl.
  - intros H. rewrite (tail_argument_has _ _ H). reflexivity.
  - destruct (step t p); try discriminate. apply IH.
Qed.

(* ------------------------------------------------------------------------------------ unresolved keys *)

Lemma getattr_none_item k n ms : has_fallback k = true -> getattr k n ms = None -> find is_item n ms = None.
Proof.
  unfold getattr, orelse. intros ->.
  destruct (find is_prop n ms); [discriminate|]. destruct (find is_inst n ms); [discriminate|].
  destruct (find is_class n ms); [discriminate|]. auto.
Qed.

Lemma getattr_none_prop k n ms : getattr k n ms = None -> find is_prop n ms = None.
Proof. unfold getattr, orelse. destruct (find is_prop n ms); [discriminate|auto]. Qed.

Lemma getattr_none_inst k n ms : getattr k n ms = None -> find is_inst n ms = None.
Proof.
  unfold getattr, orelse. destruct (find is_prop n ms); [discriminate|].
  destruct (find is_inst n ms); [discriminate|auto].
Qed.

Lemma assign_unresolved t att v : has_tail t att = false -> exists e, assign t att v = Raise e.
Proof.
  destruct t as [x|k ms]; simpl; [eauto|].
  destruct k; simpl.
  - destruct (getattr (NObj open) att ms) eqn:E; [discriminate|].
    rewrite (getattr_none_prop _ _ _ E), (getattr_none_inst _ _ _ E). destruct open; eauto.
  - destruct (find is_item att ms); [discriminate|]. eauto.
  - destruct (getattr NArgs att ms) eqn:E; [discriminate|].
    rewrite (getattr_none_item NArgs _ _ eq_refl E). eauto.
  - destruct (getattr NGroup att ms) eqn:E; [discriminate|].
    rewrite (getattr_none_prop _ _ _ E), (getattr_none_inst _ _ _ E). eauto.
Qed.

Lemma set_at_unresolved : forall body t att v,
  has_at t body att <> Ok true -> exists e, set_at t body att v = Raise e.
Proof.
  induction body as [|p body IH]; intros t att v; simpl.
  - intros H. apply assign_unresolved. destruct (has_tail t att); congruence.
  - destruct (step t p) as [s c| |]; eauto.
    intros H. destruct (IH c att v H) as [e ->]. eauto.
Qed.

(* a key that has() does not confirm is refused by set() *)
Theorem unresolved_rejected : forall t k v, has t k <> Ok true -> exists e, set t k v = Raise e.
Proof.
  intros t k v. unfold has, set. destruct (split_last k) as [[b a]|]; eauto.
  apply set_at_unresolved.
Qed.

(* a refused assignment has no effect by construction (set returns no tree); recorded for the harness clause *)

(* ------------------------------------------------------------------------------------ validate_steps *)

Theorem validate_error_any_position : forall t keys key,
  In key keys -> check_step t key <> None -> exists e, validate_steps t keys = Some e.
Proof.
  induction keys as [|k r IH]; simpl; [tauto|].
  intros key [->|Hin] Hc.
  - destruct (check_step t key); [eauto|congruence].
  - destruct (check_step t k); eauto.
Qed.

Lemma check_step_undeclared t key : has t (split_dots key) <> Ok true -> check_step t key <> None.
Proof.
  unfold check_step. destruct (has t (split_dots key)) as [[]|]; congruence.
Qed.

Lemma check_step_disabled t key :
  is_pipeline_key (split_dots key) = true ->
  (forall v, getv t (model_flag_key (split_dots key)) = Ok v -> truthy v = false) ->
  check_step t key <> None.
Proof.
  intros Hc Hv. unfold check_step. destruct (has t (split_dots key)) as [[]|]; try congruence.
  rewrite Hc. destruct (getv t (model_flag_key (split_dots key))) as [v|]; [|congruence].
  rewrite (Hv v eq_refl). congruence.
Qed.

Theorem undeclared_or_disabled_is_error : forall t keys key,
  In key keys ->
  (has t (split_dots key) <> Ok true \/
   (is_pipeline_key (split_dots key) = true /\
    forall v, getv t (model_flag_key (split_dots key)) = Ok v -> truthy v = false)) ->
  exists e, validate_steps t keys = Some e.
Proof.
  intros t keys key Hin [H|[Hc Hv]]; eapply validate_error_any_position; eauto using check_step_undeclared, check_step_disabled.
Qed.

Theorem validated_keys_declared_and_enabled : forall t keys,
  validate_steps t keys = None ->
  forall key, In key keys ->
    has t (split_dots key) = Ok true /\
    (is_pipeline_key (split_dots key) = true ->
     exists v, getv t (model_flag_key (split_dots key)) = Ok v /\ truthy v = true).
Proof.
  induction keys as [|k r IH]; simpl; [tauto|].
  destruct (check_step t k) eqn:E; [discriminate|]. intros Hv key [->|Hin]; [|auto].
  unfold check_step in E. destruct (has t (split_dots key)) as [[]|]; try discriminate.
  split; [reflexivity|]. intros Hc. rewrite Hc in E.
  destruct (getv t (model_flag_key (split_dots key))) as [v|]; [|discriminate].
  exists v. split; [reflexivity|]. destruct (truthy v); [reflexivity|discriminate].
Qed.

(* a sweep key that the specification admits (a declared setting or argument, of an enabled model if it is a
   pipeline key — the enabled flag itself included) is accepted *)
Theorem admitted_key_accepted : forall t key, spec_step_ok t key = true -> validate_steps t [key] = None.
Proof.
  intros t key. unfold spec_step_ok, validate_steps, check_step.
  set (k := split_dots key).
  assert (Hh : (if targets_setting t k then true else targets_argument t k) = true -> has t k = Ok true).
  { destruct (targets_setting t k) eqn:E1; [intros _; apply targets_setting_has; assumption|].
    apply targets_argument_has. }
  destruct (if targets_setting t k then true else targets_argument t k); [|discriminate].
  rewrite (Hh eq_refl). destruct (is_pipeline_key k); [|reflexivity].
  destruct (getv t (model_flag_key k)) as [v|]; [|discriminate]. intros ->. reflexivity.
Qed.

(* ------------------------------------------------------------------------------------ setter guards *)

Lemma cmp_bound_int z b : cmp_bound z 0 b = Z.compare z b.
Proof. unfold cmp_bound. simpl. rewrite Z.mul_1_r. reflexivity. Qed.

(* lo + 1/2 written 10*lo+5 e-1 *)
Lemma cmp_bound_half lo b : cmp_bound (10 * lo + 5) (-1) b = (if (lo <? b)%Z then Lt else Gt).
Proof.
  unfold cmp_bound. change (0 <=? -1)%Z with false. cbv iota.
  change (10 ^ (- -1))%Z with 10%Z.
  destruct (lo <? b)%Z eqn:E.
  - apply Z.ltb_lt in E. apply Z.compare_lt_iff. lia.
  - apply Z.ltb_ge in E. apply Z.compare_gt_iff. lia.
Qed.

Theorem guard_inhabited_sound : forall g, guard_inhabited g = true -> exists v, guard_check g v = None.
Proof.
  intros [|lo hi ls hs|lo ls|n]; cbn [guard_inhabited].
  - intros _. exists VNone. reflexivity.
  - destruct ls, hs; cbn [andb orb]; intros H.
    + (* both strict: lo + 1/2 *)
      exists (VDec (10 * lo + 5) (-1)). cbn [guard_check num_of]. unfold lo_ok, hi_ok. rewrite !cmp_bound_half.
      apply Z.ltb_lt in H. assert (E1 : (lo <? lo)%Z = false) by (apply Z.ltb_ge; lia).
      rewrite E1. assert (E2 : (lo <? hi)%Z = true) by (apply Z.ltb_lt; lia). rewrite E2. reflexivity.
    + exists (VInt hi). cbn [guard_check num_of]. unfold lo_ok, hi_ok. rewrite !cmp_bound_int, Z.compare_refl.
      apply Z.ltb_lt in H. assert (E : (hi ?= lo)%Z = Gt) by (apply Z.compare_gt_iff; lia). rewrite E. reflexivity.
    + exists (VInt lo). cbn [guard_check num_of]. unfold lo_ok, hi_ok. rewrite !cmp_bound_int, Z.compare_refl.
      apply Z.ltb_lt in H. assert (E : (lo ?= hi)%Z = Lt) by (apply Z.compare_lt_iff; lia). rewrite E. reflexivity.
    + exists (VInt lo). cbn [guard_check num_of]. unfold lo_ok, hi_ok. rewrite !cmp_bound_int, Z.compare_refl.
      apply Z.leb_le in H. destruct (lo ?= hi)%Z eqn:E; try reflexivity.
      apply Z.compare_gt_iff in E. lia.
  - intros _. exists (VInt (lo + 1)). cbn [guard_check num_of]. unfold lo_ok. rewrite cmp_bound_int.
    assert (E : (lo + 1 ?= lo)%Z = Gt) by (apply Z.compare_gt_iff; lia). rewrite E. reflexivity.
  - intros H. apply Z.leb_le in H. exists (VList (repeat VNone (Z.to_nat n))). cbn [guard_check].
    rewrite repeat_length, Z2Nat.id by assumption. rewrite Z.eqb_refl. reflexivity.
Qed.

Theorem guards_inhabited_all : forall tbl,
  forallb (fun x : string * string * guard => guard_inhabited (snd x)) tbl = true ->
  forall c f g, In (c, f, g) tbl -> exists v, guard_check g v = None.
Proof.
  intros tbl H c f g Hin. rewrite forallb_forall in H. apply guard_inhabited_sound. exact (H _ Hin).
Qed.

(* what an accepted assignment through a guarded setter implies: the value passed the guard *)
Lemma assign_respects_guard t att v t' k ms g c :
  t = Node k ms -> (k = NObj true \/ k = NObj false \/ k = NGroup) ->
  find is_prop att ms = Some (KProp true g, c) -> assign t att v = Ok t' -> guard_check g v = None.
Proof.
  intros -> Hk Hf. simpl. destruct Hk as [->|[->| ->]]; rewrite Hf; destruct (guard_check g v); congruence.
Qed.
