(* C05 -- histories on one Observation object: run, edit the configuration in place, run again.
   Every run of any op sequence does what a NEW object with the configuration at that time does, provided the
   run path keeps no state of its own (cf_types_fresh, read from the source; the translator fails closed on any
   other attribute write / cached field / memoised helper on the run path). *)
From Coq Require Import ZArith List Bool Arith String Lia.
From PyxelV Require Import Model.ParamSpace Proofs.ParamSpace Proofs.ParamSpaceNames Proofs.ParamSpaceLabels
                           Proofs.ParamSpaceObserve.
Import ListNotations.
Local Open Scope string_scope.
Local Open Scope list_scope.
Local Notation length := List.length (only parsing).

(* ------------------------------------------------------------------------------------ the dict of a run *)

Lemma fold_set_map : forall {A V} (f : A -> string * V) (l : list A) acc,
  fold_left (fun d a => dict_set (fst (f a)) (snd (f a)) d) l acc
  = fold_left (fun d kv => dict_set (fst kv) (snd kv) d) (map f l) acc.
Proof. intros A V f l. induction l as [|a l IH]; intros acc; simpl; [reflexivity | apply IH]. Qed.

Lemma types_step_empty : forall cf en, types_step cf [] en = types_of en.
Proof.
  intros cf en. unfold types_step, types_of, dict_of.
  replace (if cf_types_fresh cf then [] else []) with (@nil (string * ptype)) by (destruct (cf_types_fresh cf); reflexivity).
  exact (fold_set_map (fun p => (p_key p, ptype_of p)) en []).
Qed.

Lemma types_step_fresh : forall cf st en, cf_types_fresh cf = true -> types_step cf st en = types_of en.
Proof.
  intros cf st en H. unfold types_step, types_of, dict_of. rewrite H.
  exact (fold_set_map (fun p => (p_key p, ptype_of p)) en []).
Qed.

Lemma dict_set_keys_present : forall {V} k (v : V) d, In k (map fst d) -> map fst (dict_set k v d) = map fst d.
Proof.
  intros V k v d. induction d as [|[k' v'] d IH]; simpl; intros H; [contradiction|].
  destruct (String.eqb k k') eqn:E.
  - apply String.eqb_eq in E. subst. reflexivity.
  - simpl. f_equal. apply IH. destruct H as [H|H]; [|exact H].
    subst. rewrite String.eqb_refl in E. discriminate.
Qed.

Lemma existsb_eqb_in : forall k seen, existsb (String.eqb k) seen = true <-> In k seen.
Proof.
  intros k seen. rewrite existsb_exists. split.
  - intros (x & Hx & E). apply String.eqb_eq in E. subst. exact Hx.
  - intros H. exists k. split; [exact H | apply String.eqb_refl].
Qed.

Lemma dict_fold_keys_unique : forall {V} (kvs acc : list (string * V)) seen,
  (forall x, In x seen <-> In x (map fst acc)) ->
  map fst (fold_left (fun d kv => dict_set (fst kv) (snd kv) d) kvs acc)
  = map fst acc ++ unique_aux seen (map fst kvs).
Proof.
  intros V kvs. induction kvs as [|[k v] kvs IH]; intros acc seen Hs; simpl.
  - rewrite app_nil_r. reflexivity.
  - destruct (existsb (String.eqb k) seen) eqn:E.
    + apply existsb_eqb_in in E. apply Hs in E.
      rewrite (IH (dict_set k v acc) seen).
      * rewrite (dict_set_keys_present k v acc E). reflexivity.
      * intros x. rewrite (dict_set_keys_present k v acc E). apply Hs.
    + assert (N : ~ In k (map fst acc)).
      { intros H. apply Hs in H. apply existsb_eqb_in in H. rewrite H in E. discriminate. }
      rewrite (IH (dict_set k v acc) (k :: seen)).
      * rewrite (dict_set_fresh k v acc N). rewrite map_app. simpl. rewrite <- app_assoc. reflexivity.
      * intros x. rewrite (dict_set_fresh k v acc N). rewrite map_app. simpl. rewrite in_app_iff. simpl.
        rewrite (Hs x). tauto.
Qed.

(* the keys of a dict built by successive assignment are the first occurrences, in order (toolz.unique) *)
Lemma dict_of_keys_unique : forall {V} (kvs : list (string * V)), map fst (dict_of kvs) = unique (map fst kvs).
Proof.
  intros V kvs. unfold dict_of, unique. rewrite (dict_fold_keys_unique kvs [] []); [reflexivity|].
  intros x. simpl. tauto.
Qed.

Lemma types_of_keys : forall en, map fst (types_of en) = unique (map p_key en).
Proof.
  intros en. unfold types_of. rewrite dict_of_keys_unique. rewrite map_map. reflexivity.
Qed.

Lemma str_list_eqb_refl : forall l : list string, list_eqb String.eqb l l = true.
Proof. induction l as [|a l IH]; simpl; [reflexivity | rewrite String.eqb_refl; exact IH]. Qed.

(* ------------------------------------------------------------------------------------ one run *)

(* the generalised non-dask path is the path of a new object when given that object's dict *)
Lemma observe_gen_fresh : forall cf m ps slots table range,
  observe_gen cf (unique (map p_key (enabled ps))) (types_of (enabled ps)) m ps slots table range
  = observe cf m ps slots table range.
Proof. reflexivity. Qed.

Lemma observe_conf_st_types : forall cf st c,
  types_step cf st (enabled (f_params c)) = types_of (enabled (f_params c)) ->
  observe_conf_st cf st c = observe_conf cf c.
Proof.
  intros cf st c H. unfold observe_conf_st, observe_conf. rewrite H, types_of_keys, str_list_eqb_refl.
  destruct (f_dask c); [reflexivity | apply observe_gen_fresh].
Qed.

(* a new object (empty parameter_types), whatever the source configuration *)
Theorem observe_conf_new_object : forall cf c, observe_conf_st cf [] c = observe_conf cf c.
Proof. intros cf c. apply observe_conf_st_types. apply types_step_empty. Qed.

(* an object with ANY past, when the run path rebuilds the dict *)
Theorem observe_conf_any_past : forall cf, cf_types_fresh cf = true ->
  forall st c, observe_conf_st cf st c = observe_conf cf c.
Proof. intros cf H st c. apply observe_conf_st_types. apply types_step_fresh. exact H. Qed.

(* ------------------------------------------------------------------------------------ op sequences *)

Theorem history_correct : forall cf, cf_types_fresh cf = true ->
  forall ops st c, hist_run cf st c ops = map (observe_conf cf) (run_confs c ops).
Proof.
  intros cf H ops. induction ops as [|[|e] ops IH]; intros st c; simpl.
  - reflexivity.
  - rewrite (observe_conf_any_past cf H st c). f_equal. apply IH.
  - apply IH.
Qed.

Lemma hist_run_length : forall cf ops st c, length (hist_run cf st c ops) = length (run_confs c ops).
Proof.
  intros cf ops. induction ops as [|[|e] ops IH]; intros st c; simpl; [reflexivity | f_equal; apply IH | apply IH].
Qed.

(* the k-th run of any op sequence, on an object with any past *)
Corollary history_nth : forall cf, cf_types_fresh cf = true ->
  forall ops st c k c', nth_error (run_confs c ops) k = Some c' ->
  nth_error (hist_run cf st c ops) k = Some (observe_conf cf c').
Proof.
  intros cf H ops st c k c' Hk. rewrite (history_correct cf H). rewrite nth_error_map, Hk. reflexivity.
Qed.

(* sequential mode in a history: the k-th run steps every parameter around the values configured AT THAT TIME
   (labels and data included) *)
Theorem history_sequential : forall cf,
  cf_types_fresh cf = true -> cf_name_fallback_full cf = true -> cf_custom_dims_distinct cf = true ->
  forall ops st c k c',
  nth_error (run_confs c ops) k = Some c' ->
  f_mode c' = Sequential -> f_dask c' = false ->
  existsb has_ph (enabled (f_params c')) = false ->
  let runs := sequential_runs (default_of (f_slots c')) (f_params c') in
  exists names oc,
    dim_names cf (unique (map p_key (enabled (f_params c')))) = Some names /\
    nth_error (hist_run cf st c ops) k = Some (Some oc) /\
    oc_runs oc = map (fun r => received (f_slots c') (r_params r)) runs /\
    map r_params runs = spec_sequential_params (default_of (f_slots c')) (enabled (f_params c')) /\
    (forall r, In r runs ->
       lookup (custom_label names (hd 0 (r_index r)) (r_params r)) (oc_result oc)
       = Some (data_of (f_slots c') (r_params r))) /\
    (forall l d, In (l, d) (oc_result oc) ->
       exists r, In r runs /\ l = custom_label names (hd 0 (r_index r)) (r_params r)
                 /\ d = data_of (f_slots c') (r_params r)) /\
    labels_nodup (map fst (oc_result oc)) = true.
Proof.
  intros cf Ht Hf Hd ops st c k c' Hk Hm Hdk Hph runs.
  destruct (sequential_observe_lookup_cfg cf Hf Hd (f_params c') (f_slots c') (f_table c') (f_range c') Hph)
    as (names & oc & Hn & Ho & Hr & Hl & Hi & Hu).
  exists names, oc. split; [exact Hn|]. split.
  - rewrite (history_nth cf Ht ops st c k c' Hk). unfold observe_conf. rewrite Hdk, Hm. rewrite Ho. reflexivity.
  - split; [exact Hr|]. split; [|split; [exact Hl | split; [exact Hi | exact Hu]]].
    exact (proj1 (sequential_correct (default_of (f_slots c')) (f_params c'))).
Qed.

(* an edit of a configured value is seen by default_of, and by nothing else *)
Lemma default_of_override : forall slots k v k',
  default_of (override slots k v) k' =
  if String.eqb k k' then (match dict_get k' slots with Some _ => v | None => Sc 0 end) else default_of slots k'.
Proof.
  intros slots k v k'. unfold default_of. rewrite override_get.
  destruct (String.eqb k k'); [destruct (dict_get k' slots); reflexivity | reflexivity].
Qed.

(* ------------------------------------------------------------------------------------ what goes wrong otherwise *)

Definition wit_ka := "pipeline.charge_collection.m1.arguments.a".
Definition wit_kb := "pipeline.charge_measurement.m2.arguments.a".
Definition wit_slots : assignment := [(wit_ka, Sc 8); (wit_kb, Sc 16)].
Definition wit_conf (dask : bool) : conf :=
  mkConf Product [mkParam wit_ka (Lit [Sc 24; Sc 32]) true; mkParam wit_kb (Lit [Sc 40]) true] wit_slots [] None dask.
(* run; disable the second parameter; run *)
Definition wit_ops_disable : list hop :=
  [HRun; HEdit (EParams [mkParam wit_ka (Lit [Sc 24; Sc 32]) true; mkParam wit_kb (Lit [Sc 40]) false]); HRun].
(* run; swap the two parameters; run *)
Definition wit_ops_swap : list hop :=
  [HRun; HEdit (EParams [mkParam wit_kb (Lit [Sc 40]) true; mkParam wit_ka (Lit [Sc 24; Sc 32]) true]); HRun].

(* with the dict kept between the runs (cf_types_fresh = false) the statement fails: the second run still names
   its coordinate after the parameter that is no longer swept ("m1.a" for "a"); on the dask path it is refused;
   and after a reordering the dask path gives each key the other key's values under the right labels *)
Lemma history_stale_witness :
  let cf := cfg_stale_types in
  (* non-dask: the second run differs from what a new object does (coordinate "m1.a" instead of "a") *)
  nth_error (hist_run cf [] (wit_conf false) wit_ops_disable) 1
    <> nth_error (map (observe_conf cf) (run_confs (wit_conf false) wit_ops_disable)) 1
  (* dask: the second run is refused although a new object runs it *)
  /\ nth_error (hist_run cf [] (wit_conf true) wit_ops_disable) 1 = Some None
  /\ nth_error (map (observe_conf cf) (run_confs (wit_conf true) wit_ops_disable)) 1 <> Some None
  (* dask, reordered parameters: the label a = 3.0 (24/8), a' = 5.0 (40/8) holds the data of a = 5.0, a' = 3.0 *)
  /\ option_map (option_map (fun oc => lookup [("m1.a", LV (Sc 24)); ("m2.a", LV (Sc 40))] (oc_result oc)))
       (nth_error (hist_run cf [] (wit_conf true) wit_ops_swap) 1)
     = Some (Some (Some (data_of wit_slots [(wit_ka, Sc 40); (wit_kb, Sc 24)])))
  /\ option_map (option_map (fun oc => lookup [("m1.a", LV (Sc 24)); ("m2.a", LV (Sc 40))] (oc_result oc)))
       (nth_error (map (observe_conf cf) (run_confs (wit_conf true) wit_ops_swap)) 1)
     = Some (Some (Some (data_of wit_slots [(wit_ka, Sc 24); (wit_kb, Sc 40)]))).
Proof.
  cbv zeta. split; [|split; [|split; [|split]]].
  - intros E. vm_compute in E. discriminate E.
  - vm_compute. reflexivity.
  - intros E. vm_compute in E. discriminate E.
  - vm_compute. reflexivity.
  - vm_compute. reflexivity.
Qed.
