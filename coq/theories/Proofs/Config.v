(* C12 — proofs about Model/Config.v (guards vs. documented ranges, exactly-one checks, settings map). *)
From Coq Require Import QArith Qround ZArith List Bool String Lia Lqa.
From PyxelV Require Import Model.Config.
Import ListNotations.
Open Scope Z_scope.

(* ------------------------------------------------------------------------------------------ booleans over Q *)

Lemma Qlt_b_iff : forall a b, Qlt_b a b = true <-> (a < b)%Q.
Proof.
  intros a b. unfold Qlt_b. rewrite negb_true_iff.
  split; intro H.
  - apply Qnot_le_lt. intro Hle. apply Qle_bool_iff in Hle. congruence.
  - destruct (Qle_bool b a) eqn:E; [|reflexivity].
    apply Qle_bool_iff in E. exfalso. apply (Qlt_not_le _ _ H E).
Qed.

Lemma Qlt_b_false_iff : forall a b, Qlt_b a b = false <-> (b <= a)%Q.
Proof.
  intros a b. unfold Qlt_b. rewrite negb_false_iff. apply Qle_bool_iff.
Qed.

Lemma Qle_bool_false_iff : forall a b, Qle_bool a b = false <-> (b < a)%Q.
Proof.
  intros a b. split; intro H.
  - apply Qnot_le_lt. intro Hle. apply Qle_bool_iff in Hle. congruence.
  - destruct (Qle_bool a b) eqn:E; [|reflexivity].
    apply Qle_bool_iff in E. exfalso. apply (Qlt_not_le _ _ H E).
Qed.

Ltac q2prop :=
  repeat match goal with
  | H : Qle_bool _ _ = true |- _ => apply Qle_bool_iff in H
  | H : Qle_bool _ _ = false |- _ => apply Qle_bool_false_iff in H
  | H : Qlt_b _ _ = true |- _ => apply Qlt_b_iff in H
  | H : Qlt_b _ _ = false |- _ => apply Qlt_b_false_iff in H
  | H : Qeq_bool _ _ = true |- _ => apply Qeq_bool_iff in H
  | H : Qeq_bool _ _ = false |- _ => apply Qeq_bool_neq in H
  | |- Qle_bool _ _ = true => apply Qle_bool_iff
  | |- Qlt_b _ _ = true => apply Qlt_b_iff
  end.

Lemma bool_eq_iff : forall a b : bool, (a = true <-> b = true) -> a = b.
Proof. intros [] [] [H1 H2]; auto; try (symmetry; auto); try (now rewrite H1); now rewrite H2. Qed.

(* ------------------------------------------------------------------------------------------ half-lines *)

Lemma hl_implies_sound : forall h1 h2 q,
  hl_implies h1 h2 = true -> hl_holds h1 q = true -> hl_holds h2 q = true.
Proof.
  intros [[v1 s1]|[v1 s1]] [[v2 s2]|[v2 s2]] q; simpl; try discriminate;
  intros Himp Hh;
  apply orb_true_iff in Himp;
  destruct Himp as [Hlt | Heq];
  try (apply andb_true_iff in Heq; destruct Heq as [Heq Hs]);
  destruct s1, s2; simpl in *; try discriminate; q2prop; lra.
Qed.

Lemma hls_inside_sound : forall A B q,
  hls_inside A B = true ->
  forallb (fun h => hl_holds h q) A = true -> forallb (fun h => hl_holds h q) B = true.
Proof.
  intros A B q Hin HA. unfold hls_inside in Hin.
  rewrite forallb_forall in *. intros b Hb.
  specialize (Hin b Hb). apply existsb_exists in Hin. destruct Hin as [a [Ha Himp]].
  eapply hl_implies_sound; eauto.
Qed.

Lemma hls_equal : forall A B q,
  hls_inside A B = true -> hls_inside B A = true ->
  forallb (fun h => hl_holds h q) A = forallb (fun h => hl_holds h q) B.
Proof.
  intros. apply bool_eq_iff. split; eapply hls_inside_sound; eauto.
Qed.

Lemma atom_must_hold : forall a q, atom_holds a q = hl_holds (hl_must_hold a) q.
Proof. intros [[] b] q; reflexivity. Qed.

Lemma atom_must_fail : forall a q, negb (atom_holds a q) = hl_holds (hl_must_fail a) q.
Proof.
  intros [[] b] q; unfold atom_holds, hl_must_fail, Qlt_b; simpl; unfold Qlt_b;
  rewrite ?negb_involutive; reflexivity.
Qed.

Lemma clause_ok_hls : forall c G q,
  clause_hls c = Some G -> clause_ok c (VNum q) = forallb (fun h => hl_holds h q) G.
Proof.
  intros [ats|ats|n] G q H; simpl in H; inversion H; subst; clear H; simpl.
  - induction ats as [|a ats IH]; simpl; [reflexivity|].
    rewrite atom_must_hold, IH. reflexivity.
  - induction ats as [|a ats IH]; simpl; [reflexivity|].
    rewrite negb_orb, atom_must_fail, IH. reflexivity.
Qed.

Lemma clauses_ok_hls : forall cs G q,
  clauses_hls cs = Some G ->
  forallb (fun c => clause_ok c (VNum q)) cs = forallb (fun h => hl_holds h q) G.
Proof.
  induction cs as [|c cs IH]; intros G q H; simpl in H.
  - inversion H. reflexivity.
  - destruct (clause_hls c) as [a|] eqn:Ec; [|discriminate].
    destruct (clauses_hls cs) as [b|] eqn:Ecs; [|discriminate].
    inversion H; subst. simpl. rewrite forallb_app.
    rewrite (clause_ok_hls _ _ _ Ec), (IH _ _ eq_refl). reflexivity.
Qed.

Lemma in_range_hls : forall lo hi q,
  in_range (DRange lo hi) (VNum q) = forallb (fun h => hl_holds h q) (doc_hls lo hi).
Proof.
  intros [lo|] [hi|] q; simpl; rewrite ?andb_true_r; reflexivity.
Qed.

Lemma hl_holds_Qeq : forall h q q', (q == q')%Q -> hl_holds h q = hl_holds h q'.
Proof.
  intros [[v s]|[v s]] q q' E; simpl; destruct s; unfold Qlt_b; rewrite E; reflexivity.
Qed.

Lemma in_range_num_Qeq : forall lo hi q q',
  (q == q')%Q -> in_range (DRange lo hi) (VNum q) = in_range (DRange lo hi) (VNum q').
Proof.
  intros lo hi q q' E. rewrite !in_range_hls.
  induction (doc_hls lo hi) as [|h l IH]; simpl; [reflexivity|].
  rewrite (hl_holds_Qeq h q q' E), IH. reflexivity.
Qed.

(* ------------------------------------------------------------------------------------------ length clauses *)

Lemma len_clause_rejects_numbers : forall cs q,
  existsb any_len_clause cs = true -> forallb (fun c => clause_ok c (VNum q)) cs = false.
Proof.
  induction cs as [|c cs IH]; intros q H; simpl in *; [discriminate|].
  apply orb_true_iff in H. destruct H as [H|H].
  - destruct c; simpl in H; try discriminate. reflexivity.
  - rewrite (IH q H). apply andb_false_r.
Qed.

Lemma len_clauses_on_seq : forall cs n m,
  cs <> [] -> forallb (is_len_clause n) cs = true ->
  forallb (fun c => clause_ok c (VSeq m)) cs = Nat.eqb n m.
Proof.
  induction cs as [|c cs IH]; intros n m Hne H; [congruence|].
  simpl in H. apply andb_true_iff in H. destruct H as [Hc Hcs].
  destruct c as [ats|ats|k]; simpl in Hc; try discriminate.
  apply Nat.eqb_eq in Hc. subst k. simpl.
  destruct cs as [|c' cs'].
  - simpl. apply andb_true_r.
  - rewrite (IH n m); [apply andb_diag | discriminate | assumption].
Qed.

(* ------------------------------------------------------------------------------------------ the checker is sound *)

Lemma check_num_sound : forall g d q,
  check_num g d = true -> accepts g (VNum q) = in_range d (VNum q).
Proof.
  intros g d q Hc. unfold check_num in Hc. destruct d as [lo hi|n].
  - destruct (clauses_hls (g_clauses g)) as [G|] eqn:EG; [|discriminate].
    apply andb_true_iff in Hc. destruct Hc as [Hc Hpre].
    apply andb_true_iff in Hc. destruct Hc as [HGD HDG].
    assert (Hcore : forallb (fun c => clause_ok c (VNum q)) (g_clauses g)
                    = in_range (DRange lo hi) (VNum q)).
    { rewrite (clauses_ok_hls _ _ _ EG), in_range_hls. apply hls_equal; assumption. }
    remember (in_range (DRange lo hi) (VNum q)) as R eqn:ER.
    unfold accepts. destruct (g_pre g) eqn:Ep; cbn [pre_fires]; try exact Hcore.
    destruct (Qeq_bool q 0) eqn:E0; cbn [negb]; [|exact Hcore].
    apply andb_true_iff in Hpre. destruct Hpre as [H0 Her].
    apply Qeq_bool_iff in E0.
    rewrite ER, (in_range_num_Qeq lo hi q 0 E0), H0. exact Her.
  - assert (Hin : in_range (DLen n) (VNum q) = false) by reflexivity.
    rewrite Hin. unfold accepts.
    destruct (g_pre g) eqn:Ep; cbn [pre_fires]; try discriminate;
      apply len_clause_rejects_numbers; assumption.
Qed.

(* a numpy scalar behaves like the number it carries, except under `isinstance(x, int | float)` *)
Lemma accepts_np_num : forall g q,
  g_pre g <> PIsNumber -> accepts g (VNpNum q) = accepts g (VNum q).
Proof.
  intros g q Hp. unfold accepts. destruct (g_pre g); try reflexivity. congruence.
Qed.

Lemma agrees_spec : forall acc d x,
  agrees acc d x = true ->
  (is_np x = false -> acc = in_range d x) /\ (acc = true -> in_range d x = true).
Proof.
  intros acc d x H. unfold agrees in H. destruct (is_np x).
  - split; [discriminate|]. intro Ha. subst acc. exact H.
  - apply eqb_prop in H. split; [intros _; exact H|]. intro Ha. congruence.
Qed.

Theorem check_side_sound : forall g d k x,
  check_side g d k = true -> well_kinded d x = true -> class_of x = Some k ->
  agrees (accepts g x) d x = true.
Proof.
  intros g d k x Hc Hwk Hk.
  destruct x as [|q| |m|p|q|]; simpl in Hk; inversion Hk; subst k; clear Hk.
  - (* a number *)
    unfold agrees. cbn [is_np]. simpl in Hc.
    rewrite (check_num_sound _ _ q Hc). apply eqb_reflx.
  - (* NaN *)
    simpl in Hc. apply negb_true_iff in Hc. unfold agrees. cbn [is_np]. rewrite Hc.
    destruct d; reflexivity.
  - (* a sequence *)
    destruct d as [lo hi|n]; [simpl in Hwk; discriminate|].
    unfold agrees. cbn [is_np].
    assert (E : accepts g (VSeq m) = in_range (DLen n) (VSeq m)).
    { simpl in Hc. unfold accepts.
      destruct (g_pre g) eqn:Ep; try discriminate; simpl;
        (destruct (g_clauses g) as [|c cs] eqn:Ecs; [discriminate|]);
        apply len_clauses_on_seq; [discriminate | assumption | discriminate | assumption]. }
    rewrite E. apply eqb_reflx.
  - (* +-inf *)
    simpl in Hc. apply andb_true_iff in Hc. destruct Hc as [H1 H2].
    unfold agrees. cbn [is_np]. destruct p; assumption.
  - (* a number carried by a numpy scalar *)
    unfold agrees. cbn [is_np]. simpl in Hc.
    destruct (g_pre g) eqn:Ep.
    + rewrite accepts_np_num by congruence.
      change (in_range d (VNpNum q)) with (in_range d (VNum q)).
      rewrite (check_num_sound _ _ q Hc). destruct (in_range d (VNum q)); reflexivity.
    + rewrite accepts_np_num by congruence.
      change (in_range d (VNpNum q)) with (in_range d (VNum q)).
      rewrite (check_num_sound _ _ q Hc). destruct (in_range d (VNum q)); reflexivity.
    + rewrite accepts_np_num by congruence.
      change (in_range d (VNpNum q)) with (in_range d (VNum q)).
      rewrite (check_num_sound _ _ q Hc). destruct (in_range d (VNum q)); reflexivity.
    + unfold accepts. rewrite Ep. cbn [pre_fires]. rewrite Hc. reflexivity.
  - (* NaN carried by a numpy scalar *)
    simpl in Hc. apply negb_true_iff in Hc. unfold agrees. cbn [is_np]. rewrite Hc. reflexivity.
Qed.

(* the statement of C12_same_limits, parametrised by the tables and by a set of excepted
   (field, side, value class) triples; the FULL statement is the instance with no exception *)
Definition same_limits (docs : list docrow) (gt : guard_table) (exc : exceptions) : Prop :=
  forall r s x k,
    In r docs -> well_kinded (d_range r) x = true -> class_of x = Some k ->
    excepted exc (d_key r) s k = false ->
    exists g, guard_at gt (d_key r) s = Some g /\
              (is_np x = false -> accepts g x = in_range (d_range r) x) /\
              (accepts g x = true -> in_range (d_range r) x = true).

Theorem check_table_sound : forall docs gt exc,
  check_table docs gt exc = true -> same_limits docs gt exc.
Proof.
  intros docs gt exc H r s x k Hr Hwk Hk Hex.
  unfold check_table in H. rewrite forallb_forall in H. specialize (H r Hr).
  unfold check_row in H. unfold guard_at.
  destruct (lookup_guards gt (d_key r)) as [gs|]; [|discriminate].
  exists (pick s gs). split; [reflexivity|].
  apply agrees_spec.
  apply (check_side_sound _ _ k); try assumption.
  rewrite forallb_forall in H.
  assert (Hs : In s [SCtor; SSetter]) by (destruct s; simpl; auto).
  specialize (H s Hs). rewrite forallb_forall in H.
  assert (Hkin : In k all_classes) by (destruct k; simpl; auto 10).
  specialize (H k Hkin). rewrite Hex in H. exact H.
Qed.

(* consequences of the full statement (no exception) *)
Theorem same_limits_pointwise : forall docs gt,
  same_limits docs gt [] ->
  forall r s x k,
    In r docs -> well_kinded (d_range r) x = true -> class_of x = Some k ->
    exists g, guard_at gt (d_key r) s = Some g /\
              (is_np x = false -> accepts g x = in_range (d_range r) x) /\
              (accepts g x = true -> in_range (d_range r) x = true).
Proof. intros docs gt H r s x k Hr Hw Hk. exact (H r s x k Hr Hw Hk eq_refl). Qed.

Theorem ctor_equals_setter : forall docs gt,
  same_limits docs gt [] ->
  forall r x k,
    In r docs -> well_kinded (d_range r) x = true -> class_of x = Some k -> is_np x = false ->
    exists gc gs, guard_at gt (d_key r) SCtor = Some gc /\ guard_at gt (d_key r) SSetter = Some gs /\
                  accepts gc x = accepts gs x.
Proof.
  intros docs gt H r x k Hr Hw Hk Hn.
  destruct (H r SCtor x k Hr Hw Hk eq_refl) as [gc [Hgc [Hc _]]].
  destruct (H r SSetter x k Hr Hw Hk eq_refl) as [gs [Hgs [Hs _]]].
  exists gc, gs. repeat split; try assumption. rewrite (Hc Hn), (Hs Hn). reflexivity.
Qed.

(* an instance spelled out for one row (used as a non-vacuity example) *)
Theorem same_limits_num_instance : forall docs gt r s,
  same_limits docs gt [] -> In r docs -> (exists lo hi, d_range r = DRange lo hi) ->
  forall q, exists g, guard_at gt (d_key r) s = Some g /\ accepts g (VNum q) = in_range (d_range r) (VNum q).
Proof.
  intros docs gt r s H Hr [lo [hi Hd]] q.
  destruct (H r s (VNum q) KNum Hr) as [g [Hg [Ha _]]]; try reflexivity.
  - rewrite Hd. reflexivity.
  - exists g. split; [exact Hg | exact (Ha eq_refl)].
Qed.

(* ------------------------------------------------------------------------------------------ what is stored *)

Lemma Qeq_bool_refl : forall q, Qeq_bool q q = true.
Proof. intro q. apply Qeq_bool_iff. reflexivity. Qed.

Lemma value_same_refl : forall x, value_same x x = true.
Proof.
  intros [|q| |n|p|q|]; unfold value_same; simpl; try reflexivity;
    try apply Qeq_bool_refl; try apply Nat.eqb_refl. destruct p; reflexivity.
Qed.

Lemma value_same_in_range : forall d y x, value_same y x = true -> in_range d y = in_range d x.
Proof.
  intros d y x H. unfold value_same in H. unfold in_range.
  destruct (core_of y) as [|p| |n|b|p|]; destruct (core_of x) as [|q| |m|c|q|]; try discriminate; try reflexivity.
  - apply Qeq_bool_iff in H. destruct d as [lo hi|n]; [|reflexivity].
    exact (in_range_num_Qeq lo hi p q H).
  - apply Nat.eqb_eq in H. subst m. reflexivity.
  - apply eqb_prop in H. subst c. reflexivity.
Qed.

Lemma float_of_same : forall x y, float_of x = Some y -> value_same y x = true.
Proof.
  intros [|q| |n|p|q|] y H; simpl in H; inversion H; subst y; unfold value_same; simpl;
    try reflexivity; try apply Qeq_bool_refl. destruct p; reflexivity.
Qed.

Lemma float_of_defined : forall d x, well_kinded (DRange (fst d) (snd d)) x = true -> exists y, float_of x = Some y.
Proof.
  intros d [|q| |n|p|q|] H; simpl in H; try discriminate; simpl; eexists; reflexivity.
Qed.

(* the store checker is sound: a well-kinded value is kept with its own value *)
Lemma check_store_sound : forall op d x,
  check_store op d = true -> well_kinded d x = true ->
  exists y, stored op x = Some y /\ value_same y x = true.
Proof.
  intros op d x Hc Hw. destruct op as [|p| |]; simpl in Hc; try discriminate.
  - exists x. split; [reflexivity|apply value_same_refl].
  - destruct d as [lo hi|n]; [|discriminate]. simpl.
    destruct (pre_fires p x).
    + destruct (float_of_defined (lo, hi) x Hw) as [y Hy]. exists y. split; [assumption|].
      apply float_of_same. assumption.
    + exists x. split; [reflexivity|apply value_same_refl].
Qed.

Definition stored_is_written (docs : list docrow) (stt : store_table) : Prop :=
  forall r s x,
    In r docs -> well_kinded (d_range r) x = true ->
    exists op y, store_at stt (d_key r) s = Some op /\ stored op x = Some y /\ value_same y x = true.

Theorem check_stores_sound : forall docs stt,
  check_stores docs stt = true -> stored_is_written docs stt.
Proof.
  intros docs stt H r s x Hr Hw. unfold check_stores in H. rewrite forallb_forall in H.
  specialize (H r Hr). unfold check_store_row in H. unfold store_at.
  destruct (lookup_stores stt (d_key r)) as [ops|]; [|discriminate].
  apply andb_true_iff in H. destruct H as [H1 H2].
  exists (pick_store s ops). simpl.
  assert (Hc : check_store (pick_store s ops) (d_range r) = true) by (destruct s; assumption).
  destruct (check_store_sound _ _ x Hc Hw) as [y [Hy Hs]].
  exists y. repeat split; assumption.
Qed.

(* refusal and storage together: whatever is accepted is kept as written, hence inside the documented range *)
Theorem accepted_is_kept_in_range : forall docs gt stt,
  same_limits docs gt [] -> stored_is_written docs stt ->
  forall r s x k,
    In r docs -> well_kinded (d_range r) x = true -> class_of x = Some k ->
    exists g op y, guard_at gt (d_key r) s = Some g /\ store_at stt (d_key r) s = Some op /\
                   stored op x = Some y /\ value_same y x = true /\
                   (accepts g x = true -> in_range (d_range r) y = true).
Proof.
  intros docs gt stt Hl Hs r s x k Hr Hw Hk.
  destruct (Hl r s x k Hr Hw Hk eq_refl) as [g [Hg [_ Hacc]]].
  destruct (Hs r s x Hr Hw) as [op [y [Hop [Hy Hsame]]]].
  exists g, op, y. repeat split; try assumption.
  intro Ha. rewrite (value_same_in_range _ _ _ Hsame). apply Hacc. assumption.
Qed.

(* and a store that truncates is NOT value-preserving: the witness the checker exists for *)
Lemma int_store_loses : stored StInt (VNum (1 # 2)) = Some (VNum 0) /\ value_same (VNum 0) (VNum (1 # 2)) = false.
Proof. vm_compute. split; reflexivity. Qed.

(* ------------------------------------------------------------------------------------------ refutation *)

Lemma cls_eqb_eq : forall a b, cls_eqb a b = true -> a = b.
Proof. intros [] []; simpl; intro; congruence. Qed.

Lemma fkey_eqb_eq : forall a b, fkey_eqb a b = true -> a = b.
Proof.
  intros [c1 n1] [c2 n2] H. unfold fkey_eqb in H. simpl in H.
  apply andb_true_iff in H. destruct H as [H1 H2].
  apply cls_eqb_eq in H1. apply String.eqb_eq in H2. congruence.
Qed.

Lemma lookup_doc_In : forall docs f r, lookup_doc docs f = Some r -> In r docs /\ d_key r = f.
Proof.
  induction docs as [|r0 docs IH]; intros f r H; simpl in H; [discriminate|].
  destruct (fkey_eqb (d_key r0) f) eqn:E.
  - inversion H; subst. split; [left; reflexivity | apply fkey_eqb_eq; assumption].
  - destruct (IH _ _ H). split; [right|]; assumption.
Qed.

Theorem discrepancy_refutes : forall docs gt w,
  is_discrepancy docs gt w = true -> ~ same_limits docs gt [].
Proof.
  intros docs gt [[f s] x] H Hall. unfold is_discrepancy in H.
  destruct (lookup_doc docs f) as [r|] eqn:Er; [|discriminate].
  destruct (guard_at gt f s) as [g|] eqn:Eg; [|discriminate].
  apply andb_true_iff in H. destruct H as [Hwk Hne].
  destruct (lookup_doc_In _ _ _ Er) as [Hin Hkey].
  assert (Hk : exists k, class_of x = Some k).
  { destruct x; simpl in *; try discriminate; eauto. destruct (d_range r); discriminate. }
  destruct Hk as [k Hk].
  destruct (Hall r s x k Hin Hwk Hk eq_refl) as [g' [Hg' [Heq Himp]]].
  rewrite Hkey, Eg in Hg'. inversion Hg'; subst g'.
  apply negb_true_iff in Hne. unfold agrees in Hne.
  destruct (is_np x).
  - destruct (accepts g x); [rewrite (Himp eq_refl) in Hne|]; discriminate.
  - rewrite (Heq eq_refl), eqb_reflx in Hne. discriminate.
Qed.

(* every listed witness is a real disagreement *)
Theorem witnesses_are_discrepancies : forall docs gt ws,
  forallb (is_discrepancy docs gt) ws = true ->
  forall f s x, In (f, s, x) ws ->
  exists r g, lookup_doc docs f = Some r /\ guard_at gt f s = Some g /\
              well_kinded (d_range r) x = true /\ agrees (accepts g x) (d_range r) x = false.
Proof.
  intros docs gt ws H f s x Hin. rewrite forallb_forall in H. specialize (H _ Hin).
  unfold is_discrepancy in H.
  destruct (lookup_doc docs f) as [r|]; [|discriminate].
  destruct (guard_at gt f s) as [g|]; [|discriminate].
  apply andb_true_iff in H. destruct H as [Hwk Hne].
  exists r, g. repeat split; try assumption.
  apply negb_true_iff. exact Hne.
Qed.

(* None = not specified *)
Theorem none_ok_sound : forall docs gt,
  forallb (none_ok gt) docs = true ->
  forall r, In r docs ->
  exists g, guard_at gt (d_key r) SCtor = Some g /\ accepts g VNone = d_optional r.
Proof.
  intros docs gt H r Hr. rewrite forallb_forall in H. specialize (H r Hr).
  unfold none_ok in H. destruct (guard_at gt (d_key r) SCtor) as [g|]; [|discriminate].
  exists g. split; [reflexivity|]. apply eqb_prop. assumption.
Qed.

Theorem unlisted_sound : forall docs gt,
  unlisted_guards docs gt = [] ->
  forall f gc gs, In (f, (gc, gs)) gt ->
  trivial_guard gc && trivial_guard gs = false ->
  exists r, lookup_doc docs f = Some r.
Proof.
  intros docs gt H f gc gs Hin Hnt. unfold unlisted_guards in H.
  apply map_eq_nil in H.
  destruct (lookup_doc docs f) as [r|] eqn:E; [eauto|]. exfalso.
  assert (Hf : In (f, (gc, gs))
    (filter (fun e => match e with (f, (gc, gs)) =>
                     negb (trivial_guard gc && trivial_guard gs) &&
                     match lookup_doc docs f with Some _ => false | None => true end end) gt)).
  { apply filter_In. split; [assumption|]. rewrite Hnt, E. reflexivity. }
  rewrite H in Hf. destruct Hf.
Qed.

(* ------------------------------------------------------------------------------------------ exactly one *)

Lemma filter_nil_iff : forall {A} (p : A -> bool) l,
  filter p l = [] <-> forall x, In x l -> p x = false.
Proof.
  intros A p l. induction l as [|a l IH]; simpl.
  - split; [intros _ x []|reflexivity].
  - destruct (p a) eqn:E.
    + split; [discriminate|]. intro H. specialize (H a (or_introl eq_refl)). congruence.
    + rewrite IH. split.
      * intros H x [->|Hx]; auto.
      * intros H x Hx. apply H. right. assumption.
Qed.

Lemma length_filter_one : forall (p : string -> bool) l,
  NoDup l ->
  (List.length (filter p l) = 1%nat <->
   exists k, In k l /\ p k = true /\ forall k', In k' l -> p k' = true -> k' = k).
Proof.
  intros p l. induction l as [|a l IH]; intro Hnd.
  - simpl. split; [discriminate|]. intros [k [[] _]].
  - inversion Hnd as [|? ? Hna Hnd']; subst. specialize (IH Hnd'). simpl.
    destruct (p a) eqn:Ea.
    + simpl. split.
      * intro H. assert (Hnil : filter p l = []).
        { destruct (filter p l); [reflexivity|simpl in H; lia]. }
        exists a. split; [left; reflexivity|]. split; [assumption|].
        intros k' [->|Hk'] Hp; [reflexivity|].
        rewrite filter_nil_iff in Hnil. rewrite (Hnil _ Hk') in Hp. discriminate.
      * intros [k [Hk [Hpk Huniq]]].
        assert (Hak : a = k) by (apply Huniq; [left; reflexivity|assumption]). subst k.
        assert (Hnil : filter p l = []).
        { apply filter_nil_iff. intros x Hx. destruct (p x) eqn:Ex; [|reflexivity].
          assert (x = a) by (apply Huniq; [right; assumption|assumption]). subst x. contradiction. }
        rewrite Hnil. reflexivity.
    + rewrite IH. split.
      * intros [k [Hk [Hpk Huniq]]]. exists k. split; [right; assumption|]. split; [assumption|].
        intros k' [->|Hk'] Hp; [congruence|]. apply Huniq; assumption.
      * intros [k [[->|Hk] [Hpk Huniq]]]; [congruence|].
        exists k. split; [assumption|]. split; [assumption|].
        intros k' Hk' Hp. apply Huniq; [right; assumption|assumption].
Qed.

Lemma exactly_one_b_iff : forall keys present,
  NoDup keys -> (exactly_one_b keys present = true <-> exactly_one keys present).
Proof.
  intros keys present Hnd. unfold exactly_one_b, count_present, exactly_one.
  rewrite Z.eqb_eq. rewrite <- (length_filter_one present keys Hnd). lia.
Qed.

Lemma list_string_eqb_eq : forall a b, list_string_eqb a b = true -> a = b.
Proof.
  induction a as [|x a IH]; destruct b as [|y b]; simpl; intro H; try discriminate; [reflexivity|].
  apply andb_true_iff in H. destruct H as [H1 H2]. apply String.eqb_eq in H1. f_equal; auto.
Qed.

Lemma check_is_sound : forall keys c present,
  check_is keys c = true ->
  negb (cnt_raises (pc_op c) (count_present (pc_keys c) present) (pc_n c)) = exactly_one_b keys present.
Proof.
  intros keys c present H. unfold check_is in H.
  apply andb_true_iff in H. destruct H as [H Hn].
  apply andb_true_iff in H. destruct H as [Hk Hop].
  apply list_string_eqb_eq in Hk. apply Z.eqb_eq in Hn.
  destruct (pc_op c); try discriminate. rewrite Hk, Hn. simpl.
  rewrite negb_involutive. reflexivity.
Qed.

Lemma NoDup_mode_keys : NoDup mode_keys.
Proof. unfold mode_keys. repeat constructor; simpl; intuition discriminate. Qed.

Lemma NoDup_detector_keys : NoDup detector_keys.
Proof. unfold detector_keys. repeat constructor; simpl; intuition discriminate. Qed.

(* a check that counts presence, and any check on built objects (which are either there or not) *)
Lemma counts_present_ext : forall keys st,
  count_sections CMPresent keys st = count_present keys (fun k => st_present (st k)).
Proof.
  intros keys st. unfold count_sections, count_present.
  rewrite (filter_ext (fun k => counts CMPresent (st k)) (fun k => st_present (st k))); [reflexivity|].
  intro k. destruct (st k); reflexivity.
Qed.

Lemma counts_built_ext : forall how keys m d,
  count_sections how keys (built_state m d) = count_present keys (fun k => String.eqb k m || String.eqb k d).
Proof.
  intros how keys m d. unfold count_sections, count_present.
  rewrite (filter_ext (fun k => counts how (built_state m d k)) (fun k => String.eqb k m || String.eqb k d));
    [reflexivity|].
  intro k. unfold built_state.
  destruct (String.eqb k m || String.eqb k d); destruct how; reflexivity.
Qed.

Lemma pre_pass_iff : forall pre st,
  checks_ok pre = true -> forallb counts_presence pre = true ->
  (checks_pass pre st = true <->
   exactly_one mode_keys (fun k => st_present (st k)) /\ exactly_one detector_keys (fun k => st_present (st k))).
Proof.
  intros pre st Hok Hhow. unfold checks_ok in Hok.
  apply andb_true_iff in Hok. destruct Hok as [Hok Hd].
  apply andb_true_iff in Hok. destruct Hok as [Hall Hm].
  set (P := fun k => st_present (st k)).
  rewrite <- (exactly_one_b_iff _ P NoDup_mode_keys).
  rewrite <- (exactly_one_b_iff _ P NoDup_detector_keys).
  unfold checks_pass. rewrite forallb_forall in *.
  assert (Hcnt : forall c, In c pre -> count_sections (pc_how c) (pc_keys c) st = count_present (pc_keys c) P).
  { intros c Hc. specialize (Hhow c Hc). unfold counts_presence in Hhow.
    destruct (pc_how c); try discriminate. apply counts_present_ext. }
  split.
  - intro H. split.
    + apply existsb_exists in Hm. destruct Hm as [c [Hc Hcm]].
      rewrite <- (check_is_sound _ c P Hcm). rewrite <- (Hcnt c Hc). apply H. assumption.
    + apply existsb_exists in Hd. destruct Hd as [c [Hc Hcd]].
      rewrite <- (check_is_sound _ c P Hcd). rewrite <- (Hcnt c Hc). apply H. assumption.
  - intros [H1 H2] c Hc. rewrite (Hcnt c Hc). specialize (Hall c Hc). apply orb_true_iff in Hall.
    destruct Hall as [Hcm|Hcd].
    + rewrite (check_is_sound _ c P Hcm). assumption.
    + rewrite (check_is_sound _ c P Hcd). assumption.
Qed.

Lemma keys_disjoint : forall k, In k detector_keys -> In k mode_keys -> False.
Proof.
  intros k Hd Hm. unfold detector_keys in Hd. unfold mode_keys in Hm. simpl in Hd, Hm.
  repeat (destruct Hd as [Hd|Hd]; [subst k; intuition discriminate|]). exact Hd.
Qed.

Lemma exactly_one_built_mode : forall m d,
  In m mode_keys -> In d detector_keys ->
  exactly_one mode_keys (fun k => String.eqb k m || String.eqb k d).
Proof.
  intros m d Hm Hd. exists m. split; [assumption|]. split.
  - rewrite String.eqb_refl. reflexivity.
  - intros k' Hk' H. apply orb_true_iff in H. destruct H as [H|H]; apply String.eqb_eq in H; [assumption|].
    subst k'. exfalso. exact (keys_disjoint d Hd Hk').
Qed.

Lemma exactly_one_built_det : forall m d,
  In m mode_keys -> In d detector_keys ->
  exactly_one detector_keys (fun k => String.eqb k m || String.eqb k d).
Proof.
  intros m d Hm Hd. exists d. split; [assumption|]. split.
  - rewrite String.eqb_refl. apply orb_true_r.
  - intros k' Hk' H. apply orb_true_iff in H. destruct H as [H|H]; apply String.eqb_eq in H; [|assumption].
    subst k'. exfalso. exact (keys_disjoint m Hk' Hm).
Qed.

Lemma post_pass : forall post m d,
  forallb (fun c => check_is mode_keys c || check_is detector_keys c) post = true ->
  In m mode_keys -> In d detector_keys ->
  checks_pass post (built_state m d) = true.
Proof.
  intros post m d Hall Hm Hd. unfold checks_pass. rewrite forallb_forall in *.
  intros c Hc. rewrite counts_built_ext. specialize (Hall c Hc). apply orb_true_iff in Hall.
  destruct Hall as [H|H]; rewrite (check_is_sound _ c _ H).
  - apply (exactly_one_b_iff _ _ NoDup_mode_keys). apply exactly_one_built_mode; assumption.
  - apply (exactly_one_b_iff _ _ NoDup_detector_keys). apply exactly_one_built_det; assumption.
Qed.

(* objects that are given or not: every way of counting is counting presence *)
Lemma counts_given_ext : forall how keys given,
  count_sections how keys (given_state given) = count_present keys (present_of given).
Proof.
  intros how keys given. unfold count_sections, count_present.
  rewrite (filter_ext (fun k => counts how (given_state given k)) (present_of given)); [reflexivity|].
  intro k. unfold given_state. destruct (present_of given k); destruct how; reflexivity.
Qed.

Theorem built_checks_sound : forall post,
  checks_ok post = true ->
  forall given,
    checks_pass post (given_state given) = true <->
    exactly_one mode_keys (present_of given) /\ exactly_one detector_keys (present_of given).
Proof.
  intros post Hok given. unfold checks_ok in Hok.
  apply andb_true_iff in Hok. destruct Hok as [Hok Hd].
  apply andb_true_iff in Hok. destruct Hok as [Hall Hm].
  set (P := present_of given).
  rewrite <- (exactly_one_b_iff _ P NoDup_mode_keys).
  rewrite <- (exactly_one_b_iff _ P NoDup_detector_keys).
  unfold checks_pass. rewrite forallb_forall in *. split.
  - intro H. split.
    + apply existsb_exists in Hm. destruct Hm as [c [Hc Hcm]].
      rewrite <- (check_is_sound _ c P Hcm). unfold P. rewrite <- (counts_given_ext (pc_how c)). apply H. assumption.
    + apply existsb_exists in Hd. destruct Hd as [c [Hc Hcd]].
      rewrite <- (check_is_sound _ c P Hcd). unfold P. rewrite <- (counts_given_ext (pc_how c)). apply H. assumption.
  - intros [H1 H2] c Hc. rewrite counts_given_ext. fold P. specialize (Hall c Hc). apply orb_true_iff in Hall.
    destruct Hall as [Hcm|Hcd].
    + rewrite (check_is_sound _ c P Hcm). assumption.
    + rewrite (check_is_sound _ c P Hcd). assumption.
Qed.

(* the section that is used is the one that is present *)
Lemma first_present_unique : forall keys present k,
  exactly_one keys present ->
  In k keys -> present k = true -> first_present keys present = Some k.
Proof.
  intros keys present k [k0 [Hk0 [Hp0 Huniq]]] Hk Hp.
  assert (k = k0) by (apply Huniq; assumption). subst k0. clear Hk0 Hp0.
  induction keys as [|a keys IH]; [destruct Hk|]. simpl.
  destruct (present a) eqn:Ea.
  - f_equal. apply Huniq; [left; reflexivity|assumption].
  - destruct Hk as [->|Hk]; [congruence|]. apply IH; [|assumption].
    intros k' Hk' Hp'. apply Huniq; [right; assumption|assumption].
Qed.

Lemma first_present_In : forall keys present k,
  first_present keys present = Some k -> In k keys /\ present k = true.
Proof.
  induction keys as [|a keys IH]; intros present k H; simpl in H; [discriminate|].
  destruct (present a) eqn:Ea.
  - inversion H; subst. split; [left; reflexivity|assumption].
  - destruct (IH _ _ H) as [H1 H2]. split; [right; assumption|assumption].
Qed.

Lemma str_mem_In : forall k l, str_mem k l = true <-> In k l.
Proof.
  intros k l. unfold str_mem. rewrite existsb_exists. split.
  - intros [x [Hx He]]. apply String.eqb_eq in He. subst x. assumption.
  - intro H. exists k. split; [assumption|apply String.eqb_refl].
Qed.

Lemma same_keys_In : forall a b, same_keys a b = true -> forall k, In k a <-> In k b.
Proof.
  intros a b H k. unfold same_keys in H. apply andb_true_iff in H. destruct H as [H1 H2].
  rewrite forallb_forall in H1, H2. split; intro Hk.
  - apply str_mem_In. apply H1. assumption.
  - apply str_mem_In. apply H2. assumption.
Qed.

Lemma exactly_one_same_keys : forall a b present,
  same_keys a b = true -> exactly_one b present -> exactly_one a present.
Proof.
  intros a b present Hs [k [Hk [Hp Hu]]]. pose proof (same_keys_In a b Hs) as E.
  exists k. split; [apply E; assumption|]. split; [assumption|].
  intros k' Hk' Hp'. apply Hu; [apply E; assumption|assumption].
Qed.

Lemma st_present_iff : forall s, st_present s = true <-> s <> SAbsent.
Proof. intros []; simpl; split; intro H; try reflexivity; try discriminate; congruence. Qed.

Lemma only_present_exactly : forall keys st k,
  only_present keys st k <->
  (In k keys /\ st_present (st k) = true /\
   forall k', In k' keys -> st_present (st k') = true -> k' = k).
Proof.
  intros keys st k. unfold only_present. split.
  - intros [H1 [H2 H3]]. split; [assumption|]. split; [apply st_present_iff; assumption|].
    intros k' Hk' Hp. apply H3; [assumption|apply st_present_iff; assumption].
  - intros [H1 [H2 H3]]. split; [assumption|]. split; [apply st_present_iff; assumption|].
    intros k' Hk' Hp. apply H3; [assumption|apply st_present_iff; assumption].
Qed.

(* THE exactly-one theorem, over every assignment of section states *)
Theorem loader_sound : forall pre post mdisp ddisp,
  loader_ok pre post mdisp ddisp = true ->
  forall st m d,
    dispatch pre post mdisp ddisp st = Some (m, d) <->
    only_present mode_keys st m /\ only_present detector_keys st d.
Proof.
  intros pre post mdisp ddisp Hok st m d. unfold loader_ok in Hok.
  apply andb_true_iff in Hok. destruct Hok as [Hok Hdd].
  apply andb_true_iff in Hok. destruct Hok as [Hok Hmd].
  apply andb_true_iff in Hok. destruct Hok as [Hok Hpost].
  apply andb_true_iff in Hok. destruct Hok as [Hpre Hhow].
  set (P := fun k => st_present (st k)).
  pose proof (pre_pass_iff pre st Hpre Hhow) as Hpp. fold P in Hpp.
  rewrite !only_present_exactly. fold P. unfold dispatch. fold P. split.
  - intro H. destruct (checks_pass pre st) eqn:Ecp; [|discriminate].
    destruct (proj1 Hpp eq_refl) as [Hm1 Hd1].
    destruct (first_present mdisp P) as [m'|] eqn:Em; [|discriminate].
    destruct (first_present ddisp P) as [d'|] eqn:Ed; [|discriminate].
    destruct (checks_pass post (built_state m' d')); [|discriminate].
    inversion H; subst m' d'. clear H.
    apply first_present_In in Em. destruct Em as [Hmin Hmp].
    apply first_present_In in Ed. destruct Ed as [Hdin Hdp].
    apply (same_keys_In _ _ Hmd) in Hmin. apply (same_keys_In _ _ Hdd) in Hdin.
    destruct Hm1 as [m0 [Hm0 [Hpm0 Hum]]]. destruct Hd1 as [d0 [Hd0 [Hpd0 Hud]]].
    assert (m = m0) by (apply Hum; assumption). assert (d = d0) by (apply Hud; assumption). subst m0 d0.
    repeat split; assumption.
  - intros [[Hmin [Hmp Hum]] [Hdin [Hdp Hud]]].
    assert (Hm1 : exactly_one mode_keys P) by (exists m; repeat split; assumption).
    assert (Hd1 : exactly_one detector_keys P) by (exists d; repeat split; assumption).
    rewrite (proj2 Hpp (conj Hm1 Hd1)).
    rewrite (first_present_unique mdisp P m (exactly_one_same_keys _ _ _ Hmd Hm1)
               (proj2 (same_keys_In _ _ Hmd m) Hmin) Hmp).
    rewrite (first_present_unique ddisp P d (exactly_one_same_keys _ _ _ Hdd Hd1)
               (proj2 (same_keys_In _ _ Hdd d) Hdin) Hdp).
    rewrite (post_pass post m d Hpost Hmin Hdin). reflexivity.
Qed.

(* two keys of one group in the document: refused, whatever the sections hold *)
Theorem two_sections_refused : forall pre post mdisp ddisp,
  loader_ok pre post mdisp ddisp = true ->
  forall st keys k1 k2,
    keys = mode_keys \/ keys = detector_keys ->
    In k1 keys -> In k2 keys -> k1 <> k2 -> st k1 <> SAbsent -> st k2 <> SAbsent ->
    dispatch pre post mdisp ddisp st = None.
Proof.
  intros pre post mdisp ddisp Hok st keys k1 k2 Hkeys H1 H2 Hne Hs1 Hs2.
  destruct (dispatch pre post mdisp ddisp st) as [[m d]|] eqn:E; [|reflexivity]. exfalso.
  apply (loader_sound _ _ _ _ Hok) in E. destruct E as [[_ [_ Hum]] [_ [_ Hud]]].
  destruct Hkeys; subst keys.
  - apply Hne. rewrite (Hum k1 H1 Hs1), (Hum k2 H2 Hs2). reflexivity.
  - apply Hne. rewrite (Hud k1 H1 Hs1), (Hud k2 H2 Hs2). reflexivity.
Qed.

(* a document is never loaded as another mode / detector than one whose section is filled *)
Theorem never_another_section : forall pre post mdisp ddisp,
  loader_ok pre post mdisp ddisp = true ->
  forall st m d k,
    dispatch pre post mdisp ddisp st = Some (m, d) -> st k = SFilled ->
    (In k mode_keys -> k = m) /\ (In k detector_keys -> k = d).
Proof.
  intros pre post mdisp ddisp Hok st m d k E Hk.
  apply (loader_sound _ _ _ _ Hok) in E. destruct E as [[_ [_ Hum]] [_ [_ Hud]]].
  split; intro Hin; [apply Hum|apply Hud]; try assumption; rewrite Hk; discriminate.
Qed.

(* ------------------------------------------------------------------------------------------ settings *)

Lemma lookup_app : forall k a b,
  lookup k (a ++ b) = match lookup k a with Some v => Some v | None => lookup k b end.
Proof.
  induction a as [|[k' v] a IH]; intro b; simpl; [reflexivity|].
  destruct (String.eqb k' k); [reflexivity|apply IH].
Qed.

Lemma lookup_map : forall (f : string -> leaf -> leaf) k doc,
  lookup k (map (fun e => (fst e, f (fst e) (snd e))) doc) = option_map (f k) (lookup k doc).
Proof.
  induction doc as [|[k' v] doc IH]; simpl; [reflexivity|].
  destruct (String.eqb k' k) eqn:E; [|apply IH].
  apply String.eqb_eq in E. subst. reflexivity.
Qed.

Lemma lookup_In : forall k v doc,
  NoDup (map fst doc) -> In (k, v) doc -> lookup k doc = Some v.
Proof.
  induction doc as [|[k' v'] doc IH]; intros Hnd Hin; [destruct Hin|].
  simpl in *. inversion Hnd as [|? ? Hni Hnd']; subst.
  destruct Hin as [E|Hin].
  - inversion E; subst. rewrite String.eqb_refl. reflexivity.
  - destruct (String.eqb k' k) eqn:E.
    + apply String.eqb_eq in E. subst. exfalso. apply Hni.
      apply (in_map fst) in Hin. exact Hin.
    + apply IH; assumption.
Qed.

Lemma lookup_Some_In : forall k v doc, lookup k doc = Some v -> In (k, v) doc.
Proof.
  induction doc as [|[k' v'] doc IH]; simpl; intro H; [discriminate|].
  destruct (String.eqb k' k) eqn:E.
  - apply String.eqb_eq in E. inversion H; subst. left. reflexivity.
  - right. apply IH. assumption.
Qed.

Lemma lookup_None_notin : forall k doc, lookup k doc = None -> ~ In k (map fst doc).
Proof.
  induction doc as [|[k' v'] doc IH]; simpl; intros H Hin; [assumption|].
  destruct (String.eqb k' k) eqn:E; [discriminate|].
  destruct Hin as [->|Hin]; [rewrite String.eqb_refl in E; discriminate|].
  apply IH; assumption.
Qed.

Lemma notin_lookup_None : forall k doc, ~ In k (map fst doc) -> lookup k doc = None.
Proof.
  intros k doc H. destruct (lookup k doc) as [v|] eqn:E; [|reflexivity].
  exfalso. apply H. apply lookup_Some_In in E. apply (in_map fst) in E. exact E.
Qed.

Lemma lookup_filter_absent : forall k doc defaults,
  has_key k doc = false ->
  lookup k (filter (fun d => negb (has_key (fst d) doc)) defaults) = lookup k defaults.
Proof.
  intros k doc defaults Hk. induction defaults as [|[k' v'] defaults IH]; simpl; [reflexivity|].
  destruct (String.eqb k' k) eqn:E.
  - apply String.eqb_eq in E. subst k'. rewrite Hk. simpl. rewrite String.eqb_refl. reflexivity.
  - destruct (negb (has_key k' doc)); simpl; [rewrite E|]; apply IH.
Qed.

(* every written leaf arrives at the setting of the same key, range expressions evaluated *)
Theorem build_preserves : forall kind_of defaults doc k v,
  NoDup (map fst doc) -> In (k, v) doc ->
  lookup k (build kind_of defaults doc) = Some (denote_as (kind_of k) v).
Proof.
  intros kind_of defaults doc k v Hnd Hin. unfold build.
  rewrite lookup_app.
  rewrite (lookup_map (fun k v => denote_as (kind_of k) v)).
  rewrite (lookup_In _ _ _ Hnd Hin). reflexivity.
Qed.

(* a key that is not written gets its default, and only then *)
Theorem build_default : forall kind_of defaults doc k,
  ~ In k (map fst doc) ->
  lookup k (build kind_of defaults doc) = lookup k defaults.
Proof.
  intros kind_of defaults doc k Hni. unfold build.
  rewrite lookup_app.
  rewrite (lookup_map (fun k v => denote_as (kind_of k) v)).
  rewrite (notin_lookup_None _ _ Hni). simpl.
  apply lookup_filter_absent. unfold has_key. rewrite (notin_lookup_None _ _ Hni). reflexivity.
Qed.

(* nothing else appears: a setting comes from the document or, if absent there, from the defaults *)
Theorem build_nothing_else : forall kind_of defaults doc k w,
  lookup k (build kind_of defaults doc) = Some w ->
  (exists v, In (k, v) doc /\ w = denote_as (kind_of k) v) \/
  (~ In k (map fst doc) /\ lookup k defaults = Some w).
Proof.
  intros kind_of defaults doc k w H.
  destruct (lookup k doc) as [v|] eqn:E.
  - left. exists v. split; [apply lookup_Some_In; assumption|].
    unfold build in H. rewrite lookup_app in H.
    rewrite (lookup_map (fun k v => denote_as (kind_of k) v)) in H. rewrite E in H.
    simpl in H. inversion H. reflexivity.
  - right. pose proof (lookup_None_notin _ _ E) as Hni. split; [assumption|].
    rewrite (build_default _ _ _ _ Hni) in H. assumption.
Qed.

(* what "numpy.arange(a, b, s)" denotes: n numbers, the i-th being a + i*s *)
Lemma arange_vals_length : forall n a s, List.length (arange_vals a s n) = n.
Proof. induction n; intros; simpl; [reflexivity|]. rewrite IHn. reflexivity. Qed.

Lemma arange_vals_nth : forall n a s i,
  (i < n)%nat ->
  exists q, nth i (arange_vals a s n) LNone = LNum q /\ (q == a + inject_Z (Z.of_nat i) * s)%Q.
Proof.
  induction n; intros a s i Hi; [lia|]. destruct i as [|i].
  - simpl. exists a. split; [reflexivity|]. unfold inject_Z. simpl. ring.
  - destruct (IHn (a + s)%Q s i) as [q [Hq Heq]]; [lia|].
    exists q. split; [exact Hq|]. rewrite Heq.
    rewrite Nat2Z.inj_succ. unfold Z.succ. rewrite inject_Z_plus.
    change (inject_Z 1) with 1%Q. ring.
Qed.

(* ------------------------------------------------------------------------------------------ derived objects *)


(* what `derive` holds under key k: the new value if k is changed, else the value of the original *)
Definition derived_value (settings changes : list entry) (k : string) : option leaf :=
  match lookup k changes with Some v => Some v | None => lookup k settings end.

Lemma lookup_derive : forall carried settings changes k,
  lookup k (derive carried settings changes) =
  if str_mem k carried then derived_value settings changes k else None.
Proof.
  induction carried as [|c carried IH]; intros settings changes k; [reflexivity|].
  unfold derive in *. cbn [flat_map]. rewrite lookup_app, IH. clear IH.
  unfold str_mem. cbn [existsb].
  destruct (String.eqb k c) eqn:E.
  - apply String.eqb_eq in E. subst c. cbn [orb]. unfold derived_value.
    destruct (lookup k changes) as [v|].
    + simpl. rewrite String.eqb_refl. reflexivity.
    + destruct (lookup k settings) as [v|].
      * simpl. rewrite String.eqb_refl. reflexivity.
      * simpl. destruct (existsb (String.eqb k) carried); reflexivity.
  - cbn [orb].
    assert (Hn : forall v, lookup k [(c, v)] = None).
    { intro v. simpl. rewrite String.eqb_sym, E. reflexivity. }
    destruct (lookup c changes) as [v|]; [rewrite Hn; reflexivity|].
    destruct (lookup c settings) as [v|]; [rewrite Hn; reflexivity|reflexivity].
Qed.

(* a setting that is carried and not changed keeps the value of the original *)
Theorem derive_keeps : forall carried settings changes k,
  In k carried -> lookup k changes = None ->
  lookup k (derive carried settings changes) = lookup k settings.
Proof.
  intros carried settings changes k Hin Hc. rewrite lookup_derive.
  apply str_mem_In in Hin. rewrite Hin. unfold derived_value. rewrite Hc. reflexivity.
Qed.

(* a setting that is changed has the new value *)
Theorem derive_sets : forall carried settings changes k v,
  In k carried -> lookup k changes = Some v ->
  lookup k (derive carried settings changes) = Some v.
Proof.
  intros carried settings changes k v Hin Hc. rewrite lookup_derive.
  apply str_mem_In in Hin. rewrite Hin. unfold derived_value. rewrite Hc. reflexivity.
Qed.

(* nothing else appears *)
Theorem derive_nothing_else : forall carried settings changes k w,
  lookup k (derive carried settings changes) = Some w ->
  In k carried /\
  (lookup k changes = Some w \/ (lookup k changes = None /\ lookup k settings = Some w)).
Proof.
  intros carried settings changes k w H. rewrite lookup_derive in H.
  destruct (str_mem k carried) eqn:E; [|discriminate].
  apply str_mem_In in E. split; [assumption|].
  unfold derived_value in H. destruct (lookup k changes) as [v|]; [left|right; split]; auto.
Qed.

(* the regenerated shape of Readout.replace carries every setting of a readout *)
Theorem carries_all_sound : forall params carried,
  carries_all params carried = true ->
  (forall k, In k readout_settings -> In (readout_key k) (map readout_key carried)) /\
  (forall k, In k carried -> In k params).
Proof.
  intros params carried H. unfold carries_all in H.
  apply andb_true_iff in H. destruct H as [H1 H2].
  rewrite forallb_forall in H1, H2. split.
  - intros k Hk. apply in_map. apply str_mem_In. apply H1. assumption.
  - intros k Hk. apply str_mem_In. apply H2. assumption.
Qed.

(* composition with loading: after a derivation that changes other keys, a readout setting written in the file
   (or defaulted) is still the one the file means *)
Theorem derived_keeps_file_setting : forall kind_of params carried defaults doc changes k,
  carries_all params carried = true ->
  In k readout_settings -> lookup (readout_key k) changes = None ->
  lookup (readout_key k) (derive (map readout_key carried) (build kind_of defaults doc) changes)
  = lookup (readout_key k) (build kind_of defaults doc).
Proof.
  intros kind_of params carried defaults doc changes k Hc Hk Hn.
  apply derive_keeps; [|assumption].
  apply (proj1 (carries_all_sound _ _ Hc)). assumption.
Qed.

(* ------------------------------------------------------------------------------------------ what is compared *)

Lemma assoc_mem_In : forall t c p,
  assoc_mem t c p = true <-> exists ps, In (c, ps) t /\ In p ps.
Proof.
  intros t c p. unfold assoc_mem. rewrite existsb_exists. split.
  - intros [[c' ps] [Hin H]]. simpl in H. apply andb_true_iff in H. destruct H as [Hc Hp].
    apply String.eqb_eq in Hc. subst c'. exists ps. split; [assumption|]. apply str_mem_In. assumption.
  - intros [ps [Hin Hp]]. exists (c, ps). split; [assumption|]. simpl.
    rewrite String.eqb_refl. simpl. apply str_mem_In. assumption.
Qed.

Theorem params_covered_sound : forall src compared uncompared,
  params_covered src compared uncompared = true ->
  (forall c ps p, In (c, ps) src -> In p ps ->
     (exists qs, In (c, qs) compared /\ In p qs) \/ (exists qs, In (c, qs) uncompared /\ In p qs)) /\
  (forall c qs p, In (c, qs) (compared ++ uncompared) -> In p qs -> exists ps, In (c, ps) src /\ In p ps).
Proof.
  intros src compared uncompared H. unfold params_covered in H.
  apply andb_true_iff in H. destruct H as [H1 H2]. rewrite forallb_forall in H1, H2. split.
  - intros c ps p Hin Hp. specialize (H1 (c, ps) Hin). simpl in H1. rewrite forallb_forall in H1.
    specialize (H1 p Hp). apply orb_true_iff in H1. destruct H1 as [H|H]; apply assoc_mem_In in H; [left|right]; exact H.
  - intros c qs p Hin Hp. specialize (H2 (c, qs) Hin). simpl in H2. rewrite forallb_forall in H2.
    specialize (H2 p Hp). apply assoc_mem_In in H2. exact H2.
Qed.
