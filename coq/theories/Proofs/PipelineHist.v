(* C01 — proofs about configuration histories (Model/PipelineHist.v): by induction over the list of
   operations, for all stores, objects, groups, positions and run modes. *)
From Coq Require Import List String ZArith Bool Arith PeanoNat Lia.
From PyxelV Require Import Model.Pipeline Model.PipelineHist Proofs.Pipeline Proofs.PipelineSpec.
From PyxelV Require Import Proofs.PipelineEq Proofs.PipelineJudge.
Import ListNotations.
Open Scope list_scope.

(* ------------------------------------------------------------------------------------------ *)
(* list updates *)

Lemma upd_nth_length {A} i (f : A -> A) l : List.length (upd_nth i f l) = List.length l.
Proof. revert i. induction l as [|x l IH]; intros [|i]; simpl; auto. Qed.

Lemma nth_error_upd_nth_same {A} i (f : A -> A) l :
  nth_error (upd_nth i f l) i = option_map f (nth_error l i).
Proof. revert i. induction l as [|x l IH]; intros [|i]; simpl; auto. Qed.

Lemma nth_error_upd_nth_other {A} i j (f : A -> A) l :
  i <> j -> nth_error (upd_nth i f l) j = nth_error l j.
Proof.
  revert i j. induction l as [|x l IH]; intros [|i] [|j] H; simpl; auto; try contradiction.
Qed.

Lemma upd_nth_id {A} i (f : A -> A) l :
  (forall x, nth_error l i = Some x -> f x = x) -> upd_nth i f l = l.
Proof.
  revert i. induction l as [|x l IH]; intros [|i] H; simpl; auto.
  - rewrite (H x); reflexivity.
  - rewrite IH; auto.
Qed.

(* ------------------------------------------------------------------------------------------ *)
(* pipelines: reading after writing *)

Lemma get_set_group_same p g v : get (set_group p g v) g = v.
Proof. destruct g; reflexivity. Qed.

Lemma get_set_group_other p g g' v : g' <> g -> get (set_group p g v) g' = get p g'.
Proof. destruct g, g'; intro H; try reflexivity; contradiction H; reflexivity. Qed.

Lemma set_group_get p g : set_group p g (get p g) = p.
Proof. destruct p, g; reflexivity. Qed.

Lemma get_map_groups f p g : get (map_groups f p) g = option_map f (get p g).
Proof. destruct g; reflexivity. Qed.

Lemma pipeline_ext p q : (forall g, get p g = get q g) -> p = q.
Proof.
  intro H. destruct p, q.
  pose proof (H SceneGeneration). pose proof (H PhotonCollection). pose proof (H Phasing).
  pose proof (H ChargeGeneration). pose proof (H ChargeCollection). pose proof (H ChargeTransfer).
  pose proof (H ChargeMeasurement). pose proof (H SignalTransfer). pose proof (H ReadoutElectronics).
  pose proof (H DataProcessing). simpl in *. congruence.
Qed.

(* a pipeline none of whose models grows is not changed by running it *)
Definition no_grow (p : pipeline) : Prop :=
  forall g ms m, get p g = Some ms -> In m ms -> grows m = false.

Lemma map_id_in {A} (f : A -> A) l : (forall x, In x l -> f x = x) -> map f l = l.
Proof.
  induction l as [|x l IH]; simpl; intro H; [reflexivity|].
  rewrite H by auto. rewrite IH; auto.
Qed.

Lemma age_no_grow n p : no_grow p -> age n p = p.
Proof.
  intro H. apply pipeline_ext. intro g. unfold age. rewrite get_map_groups.
  destruct (get p g) as [ms|] eqn:E; [|reflexivity]. simpl. f_equal.
  apply map_id_in. intros m Hm. unfold age_mfun. rewrite (H g ms m E Hm), andb_false_r. reflexivity.
Qed.

Lemma freeze_no_grow p : no_grow p -> freeze p = p.
Proof.
  intro H. apply pipeline_ext. intro g. unfold freeze. rewrite get_map_groups.
  destruct (get p g) as [ms|] eqn:E; [|reflexivity]. simpl. f_equal.
  apply map_id_in. intros m Hm. unfold freeze_mfun. rewrite <- (H g ms m E Hm). destruct m; reflexivity.
Qed.

(* toggling one switch: that position gets the new flag, every other position of every group is kept *)
Lemma get_set_enabled_same g i b p ms :
  get p g = Some ms -> get (set_enabled g i b p) g = Some (upd_nth i (set_enabled_mfun b) ms).
Proof. intro H. unfold set_enabled. rewrite get_set_group_same, H. reflexivity. Qed.

Lemma get_set_enabled_other g g' i b p : g' <> g -> get (set_enabled g i b p) g' = get p g'.
Proof. intro H. unfold set_enabled. apply get_set_group_other. exact H. Qed.

Lemma executes_set_enabled p n step g i b g' i' ms m0 :
  get p g = Some ms -> nth_error ms i = Some m0 ->
  executes (set_enabled g i b p) n step g' i' =
  if group_eqb g' g && Nat.eqb i' i then Nat.ltb step n && b else executes p n step g' i'.
Proof.
  intros Hg Hi. unfold executes.
  destruct (group_eqb g' g) eqn:Eg.
  - apply group_eqb_eq in Eg. subst g'. rewrite (get_set_enabled_same g i b p ms Hg), Hg.
    destruct (Nat.eqb i' i) eqn:Ei; simpl.
    + apply Nat.eqb_eq in Ei. subst i'. rewrite nth_error_upd_nth_same, Hi. reflexivity.
    + apply Nat.eqb_neq in Ei. rewrite nth_error_upd_nth_other by (intro; subst; auto). reflexivity.
  - simpl. rewrite get_set_enabled_other; [reflexivity|].
    intro; subst. rewrite group_eqb_refl in Eg. discriminate.
Qed.

(* ------------------------------------------------------------------------------------------ *)
(* stores: frame properties of the operations *)

Lemma apply_op_length inplace st x : List.length st <= List.length (apply_op inplace st x).
Proof.
  destruct x as [o m n|o g i b|o ov|o g sel|o g i m|o k]; simpl; unfold upd_store;
    rewrite ?upd_nth_length; auto.
  - destruct m as [d| | |]; [destruct inplace|..]; unfold upd_store; rewrite ?upd_nth_length; auto.
  - destruct (nth_error st o); [rewrite app_length; simpl; lia|auto].
Qed.

Lemma exec_ops_length inplace ops : forall st, List.length st <= List.length (exec_ops inplace st ops).
Proof.
  induction ops as [|x ops IH]; intro st; simpl; [auto|].
  etransitivity; [apply (apply_op_length inplace st x)|apply IH].
Qed.

(* an operation that does not write object o leaves object o as it is *)
Lemma apply_op_frame inplace st x o :
  o < List.length st -> writes inplace x o = false ->
  nth_error (apply_op inplace st x) o = nth_error st o.
Proof.
  intros Ho W.
  destruct x as [o' m n|o' g i b|o' ov|o' g sel|o' g i m|o' k]; simpl in *; unfold upd_store.
  - destruct m as [d| | |]; auto. destruct inplace; simpl in W; auto.
    apply nth_error_upd_nth_other. intro; subst. rewrite Nat.eqb_refl in W. discriminate.
  - apply nth_error_upd_nth_other. intro; subst. rewrite Nat.eqb_refl in W. discriminate.
  - apply nth_error_upd_nth_other. intro; subst. rewrite Nat.eqb_refl in W. discriminate.
  - apply nth_error_upd_nth_other. intro; subst. rewrite Nat.eqb_refl in W. discriminate.
  - apply nth_error_upd_nth_other. intro; subst. rewrite Nat.eqb_refl in W. discriminate.
  - destruct (nth_error st o'); [|reflexivity]. apply nth_error_app1. exact Ho.
Qed.

Lemma exec_ops_frame inplace ops : forall st o,
  o < List.length st -> (forall x, In x ops -> writes inplace x o = false) ->
  nth_error (exec_ops inplace st ops) o = nth_error st o.
Proof.
  induction ops as [|x ops IH]; intros st o Ho W; simpl; [reflexivity|].
  rewrite IH.
  - apply apply_op_frame; [exact Ho|]. apply W. simpl. auto.
  - eapply Nat.lt_le_trans; [exact Ho|apply apply_op_length].
  - intros y Hy. apply W. simpl. auto.
Qed.

(* runs in observation and calibration mode never change any object; nor does an exposure of a
   pipeline without growing models *)
Lemma run_copies_leave_store inplace st o m n :
  (forall d, m <> Exposure d) -> apply_op inplace st (ORun o m n) = st.
Proof. intro H. destruct m as [d| | |]; [contradiction (H d); reflexivity|reflexivity..]. Qed.

Lemma run_exposure_no_grow inplace st o d n p :
  nth_error st o = Some p -> no_grow p -> apply_op inplace st (ORun o (Exposure d) n) = st.
Proof.
  intros Hp Hn. simpl. destruct inplace; [|reflexivity]. unfold upd_store. apply upd_nth_id.
  intros x Hx. rewrite Hp in Hx. injection Hx as <-. apply age_no_grow. exact Hn.
Qed.

(* a copy is a NEW object with the source's configuration; every existing object is untouched *)
Lemma copy_appends inplace st o k p :
  nth_error st o = Some p ->
  apply_op inplace st (OCopy o k) = st ++ [p] /\
  nth_error (apply_op inplace st (OCopy o k)) (List.length st) = Some p /\
  forall o', o' < List.length st -> nth_error (apply_op inplace st (OCopy o k)) o' = nth_error st o'.
Proof.
  intro H. simpl. rewrite H. repeat split.
  - rewrite nth_error_app2 by lia. rewrite Nat.sub_diag. reflexivity.
  - intros o' Ho. apply nth_error_app1. exact Ho.
Qed.

(* after a copy, whatever is done to the copy never shows in the source, and vice versa *)
Lemma copy_isolated inplace st o k p ops :
  nth_error st o = Some p ->
  let st' := apply_op inplace st (OCopy o k) in
  ((forall x, In x ops -> writes inplace x o = false) ->
   nth_error (exec_ops inplace st' ops) o = Some p) /\
  ((forall x, In x ops -> writes inplace x (List.length st) = false) ->
   nth_error (exec_ops inplace st' ops) (List.length st) = Some p).
Proof.
  intros H st'. destruct (copy_appends inplace st o k p H) as (E & Hc & Ho).
  assert (Lo : o < List.length st) by (apply nth_error_Some; rewrite H; discriminate).
  assert (L' : List.length st' = S (List.length st)).
  { unfold st'. rewrite E, app_length. simpl. lia. }
  split; intro W.
  - rewrite exec_ops_frame; [|lia|exact W]. unfold st'. rewrite Ho by exact Lo. exact H.
  - rewrite exec_ops_frame; [|lia|exact W]. exact Hc.
Qed.

(* ------------------------------------------------------------------------------------------ *)
(* the runs of a history *)

Lemma exec_ops_app inplace st a b :
  exec_ops inplace st (a ++ b) = exec_ops inplace (exec_ops inplace st a) b.
Proof. unfold exec_ops. apply fold_left_app. Qed.

Lemma hist_runs_app inplace a : forall st b,
  hist_runs inplace st (a ++ b) = hist_runs inplace st a ++ hist_runs inplace (exec_ops inplace st a) b.
Proof.
  induction a as [|x a IH]; intros st b; simpl; [reflexivity|].
  rewrite IH, app_assoc. reflexivity.
Qed.

(* THE RUN THEOREM: in any history, the run started by `ORun o m n` after the operations `pre` is
   judged against exactly the configuration object o has after `pre` *)
Lemma hist_runs_at inplace st pre o m n post p :
  nth_error (exec_ops inplace st pre) o = Some p ->
  hist_runs inplace st (pre ++ ORun o m n :: post) =
  hist_runs inplace st pre ++
  {| r_obj := o; r_cfg := p; r_mode := m; r_steps := n |} ::
  hist_runs inplace (apply_op inplace (exec_ops inplace st pre) (ORun o m n)) post.
Proof. intro H. rewrite hist_runs_app. simpl. rewrite H. reflexivity. Qed.

(* conversely every record of the history is such a run *)
Lemma hist_runs_inv inplace ops : forall st r,
  In r (hist_runs inplace st ops) ->
  exists pre post,
    ops = pre ++ ORun (r_obj r) (r_mode r) (r_steps r) :: post /\
    nth_error (exec_ops inplace st pre) (r_obj r) = Some (r_cfg r).
Proof.
  induction ops as [|x ops IH]; intros st r H; simpl in H; [contradiction|].
  apply in_app_or in H. destruct H as [H|H].
  - destruct x as [o m n|o g i b|o ov|o g sel|o g i m|o k]; simpl in H; try contradiction.
    destruct (nth_error st o) as [p|] eqn:E; [|contradiction]. destruct H as [<-|[]].
    exists [], ops. simpl. auto.
  - apply IH in H. destruct H as (pre & post & -> & Hn). exists (x :: pre), post. simpl. auto.
Qed.

(* a changed switch is honoured by every later run of that object, until someone writes the object
   again: the run is judged against the configuration with the new flag at (g, i) and everything
   else as before *)
Lemma toggle_then_run inplace st pre o g i b mid m n post p ms m0 :
  nth_error (exec_ops inplace st pre) o = Some p ->
  get p g = Some ms -> nth_error ms i = Some m0 ->
  (forall x, In x mid -> writes inplace x o = false) ->
  hist_runs inplace st (pre ++ OSetEnabled o g i b :: mid ++ ORun o m n :: post) =
  hist_runs inplace st (pre ++ OSetEnabled o g i b :: mid) ++
  {| r_obj := o; r_cfg := set_enabled g i b p; r_mode := m; r_steps := n |} ::
  hist_runs inplace
    (apply_op inplace (exec_ops inplace st (pre ++ OSetEnabled o g i b :: mid)) (ORun o m n)) post.
Proof.
  intros Hp Hg Hi W.
  replace (pre ++ OSetEnabled o g i b :: mid ++ ORun o m n :: post)
    with ((pre ++ OSetEnabled o g i b :: mid) ++ ORun o m n :: post)
    by (rewrite <- app_assoc; reflexivity).
  apply hist_runs_at.
  rewrite exec_ops_app. simpl.
  assert (Lo : o < List.length (exec_ops inplace st pre)) by (apply nth_error_Some; rewrite Hp; discriminate).
  change (fold_left (apply_op inplace) mid ?s) with (exec_ops inplace s mid).
  rewrite exec_ops_frame; [| unfold upd_store; rewrite upd_nth_length; exact Lo | exact W].
  unfold upd_store. rewrite nth_error_upd_nth_same, Hp. reflexivity.
Qed.

(* ------------------------------------------------------------------------------------------ *)
(* judgement of a history *)

Lemma agrees_runs_each faithful run : forall rs os prior,
  agrees_runs faithful run prior rs os = true ->
  Forall2 (fun r o => exists prior', agrees_run faithful run prior' (r_cfg r) (r_steps r) (r_mode r) o = true) rs os.
Proof.
  induction rs as [|r rs IH]; intros [|o os] prior H; simpl in H; try discriminate; constructor.
  - apply andb_true_iff in H. destruct H as [H _]. exists prior. exact H.
  - apply andb_true_iff in H. destruct H as [_ H]. eapply IH. exact H.
Qed.

Definition run_matches (run : bool -> pipeline -> nat -> list call * list capture) (r : run_rec) (o : outcome) : Prop :=
  match r_mode r, o with
  | Exposure d, Ran t _ => t = map obs_of (fst (run d (r_cfg r) (r_steps r)))
  | Observation runs, Ran t _ =>
      t = flat_map (fun os => map obs_of (fst (run false (apply_overrides (r_cfg r) os) (r_steps r)))) runs
  | Calibration, Ran _ _ => True
  | ObservationDask runs, Ran t _ =>
      covers_runs (map (fun os => map obs_of (fst (run false (apply_overrides (r_cfg r) os) (r_steps r)))) runs) t = true
  | _, Failed _ => False
  end.

Lemma agrees_run_matches run prior p n m o :
  agrees_run false run prior p n m o = true ->
  run_matches run {| r_obj := 0; r_cfg := p; r_mode := m; r_steps := n |} o.
Proof.
  intro H. unfold run_matches. simpl. destruct m as [d|runs| |runs], o as [t nodes|cls]; auto;
    try (simpl in H; discriminate).
  - eapply agrees_run_exposure. exact H.
  - eapply agrees_run_observation. exact H.
Qed.

Lemma Forall2_weaken {A B} (P Q : A -> B -> Prop) l l' :
  (forall a b, P a b -> Q a b) -> Forall2 P l l' -> Forall2 Q l l'.
Proof. intros H F. induction F; constructor; auto. Qed.

(* what a "no violation" verdict on a history means: every run completed, and the calls recorded in
   each exposure / observation run are literally the projection of the trace of the configuration its
   object had when the run started (under one of the two accepted readings) *)
Lemma hist_judgement_sound c p :
  from_yaml (h_doc c) = Ok p -> hspec_ok c = true ->
  Forall2 (fun r o => run_matches spec_run {| r_obj := 0; r_cfg := r_cfg r; r_mode := r_mode r; r_steps := r_steps r |} o)
          (hist_runs true [p] (h_ops c)) (h_observed c) \/
  Forall2 (fun r o => run_matches frozen_run {| r_obj := 0; r_cfg := r_cfg r; r_mode := r_mode r; r_steps := r_steps r |} o)
          (hist_runs false [p] (h_ops c)) (h_observed c).
Proof.
  intros Hy H. unfold hspec_ok, agrees_hist in H. rewrite Hy in H. apply orb_true_iff in H.
  destruct H as [H|H]; [left|right]; apply agrees_runs_each in H;
    (eapply Forall2_weaken; [|exact H]); intros r o (prior' & A); eapply agrees_run_matches; exact A.
Qed.

(* ------------------------------------------------------------------------------------------ *)
(* Processor.set on an argument: read after write *)

Fixpoint kw_lookup (k : string) (a : kwargs) : option pyval :=
  match a with
  | [] => None
  | (k', x) :: r => if String.eqb k' k then Some x else kw_lookup k r
  end.

Fixpoint entry_lookup (k : string) (es : list pyval) : option pyval :=
  match es with
  | [] => None
  | VList [VStr k'; x] :: r => if String.eqb k' k then Some x else entry_lookup k r
  | _ :: r => entry_lookup k r
  end.

(* the value found by walking `path` (dict keys, list indices) from x *)
Fixpoint get_in (path : list pelem) (x : pyval) : option pyval :=
  match path with
  | [] => Some x
  | PKey k :: rest => match x with
                      | VDict es => match entry_lookup k es with Some y => get_in rest y | None => None end
                      | _ => None
                      end
  | PIdx i :: rest => match x with
                      | VList l => match nth_error l i with Some y => get_in rest y | None => None end
                      | _ => None
                      end
  end.

Lemma kw_lookup_upd_same k f a : kw_lookup k (upd_kw k f a) = option_map f (kw_lookup k a).
Proof.
  induction a as [|[k' x] a IH]; simpl; [reflexivity|].
  destruct (String.eqb k' k) eqn:E; simpl; rewrite E; [reflexivity|exact IH].
Qed.

Lemma kw_lookup_upd_other k k' f a : k' <> k -> kw_lookup k' (upd_kw k f a) = kw_lookup k' a.
Proof.
  intro H. induction a as [|[k0 x] a IH]; simpl; [reflexivity|].
  destruct (String.eqb k0 k) eqn:E; simpl.
  - apply String.eqb_eq in E. subst k0.
    replace (String.eqb k k') with false by (symmetry; apply String.eqb_neq; auto). reflexivity.
  - destruct (String.eqb k0 k'); [reflexivity|exact IH].
Qed.

Lemma entry_lookup_upd_same k f es :
  entry_lookup k (upd_entry k f es) = option_map f (entry_lookup k es).
Proof.
  induction es as [|e es IH]; simpl; [reflexivity|].
  destruct e as [z|b|s'| |l|l]; simpl; try exact IH.
  destruct l as [|[z|b|k'| |l1|l1] [|x [|y l]]]; simpl; try exact IH.
  destruct (String.eqb k' k) eqn:E; simpl; rewrite E; [reflexivity|exact IH].
Qed.

(* a value written through an existing path is the value read through it *)
Lemma get_in_set_in path v : forall x,
  get_in path x <> None -> get_in path (set_in path v x) = Some v.
Proof.
  induction path as [|[k|i] rest IH]; intros x H; simpl in *; [reflexivity| |].
  - destruct x; try (contradiction H; reflexivity).
    rewrite entry_lookup_upd_same. destruct (entry_lookup k entries) as [y|]; [|contradiction H; reflexivity].
    simpl. apply IH. exact H.
  - destruct x; try (contradiction H; reflexivity).
    rewrite nth_error_upd_nth_same. destruct (nth_error l i) as [y|]; [|contradiction H; reflexivity].
    simpl. apply IH. exact H.
Qed.

(* position of the first model of that name *)
Fixpoint first_named (mn : string) (ms : list mfun) : option nat :=
  match ms with
  | [] => None
  | m :: r => if String.eqb (name m) mn then Some 0 else option_map S (first_named mn r)
  end.

Lemma upd_first_is_upd_nth mn f ms i :
  first_named mn ms = Some i -> upd_first mn f ms = upd_nth i (fun m => set_args m (f (args m))) ms.
Proof.
  revert i. induction ms as [|m ms IH]; intros i H; simpl in *; [discriminate|].
  destruct (String.eqb (name m) mn).
  - injection H as <-. reflexivity.
  - destruct (first_named mn ms) as [j|]; [|discriminate]. injection H as <-. simpl. f_equal. apply IH. reflexivity.
Qed.

(* Processor.set "pipeline.<g>.<mn>.arguments.<k>.<path>" = v changes exactly the argument k of the first
   model named mn of group g: that position keeps its name and its switch, every other position and
   every other group is untouched, and reading the path back gives v *)
Lemma override_effect p ov ms i m0 :
  get p (o_group ov) = Some ms -> first_named (o_model ov) ms = Some i -> nth_error ms i = Some m0 ->
  let p' := apply_override p ov in
  let m1 := set_args m0 (upd_kw (o_key ov) (set_in (o_path ov) (o_value ov)) (args m0)) in
  get p' (o_group ov) = Some (upd_nth i (fun m => set_args m (upd_kw (o_key ov) (set_in (o_path ov) (o_value ov)) (args m))) ms) /\
  (forall g', g' <> o_group ov -> get p' g' = get p g') /\
  (forall n step g' i', executes p' n step g' i' = executes p n step g' i') /\
  name m1 = name m0 /\ enabled m1 = enabled m0 /\ grows m1 = grows m0 /\
  (forall x, kw_lookup (o_key ov) (args m0) = Some x -> get_in (o_path ov) x <> None ->
     exists y, kw_lookup (o_key ov) (args m1) = Some y /\ get_in (o_path ov) y = Some (o_value ov)) /\
  (forall k', k' <> o_key ov -> kw_lookup k' (args m1) = kw_lookup k' (args m0)).
Proof.
  intros Hg Hf Hi p' m1.
  assert (E : get p' (o_group ov) =
              Some (upd_nth i (fun m => set_args m (upd_kw (o_key ov) (set_in (o_path ov) (o_value ov)) (args m))) ms)).
  { unfold p', apply_override. rewrite get_set_group_same, Hg. simpl. f_equal.
    apply upd_first_is_upd_nth. exact Hf. }
  assert (O : forall g', g' <> o_group ov -> get p' g' = get p g').
  { intros g' H. unfold p', apply_override. apply get_set_group_other. exact H. }
  split; [exact E|]. split; [exact O|]. split.
  - intros n step g' i'. unfold executes.
    destruct (group_eq_dec g' (o_group ov)) as [->|Hne]; [|rewrite O by exact Hne; reflexivity].
    rewrite E, Hg. f_equal.
    destruct (Nat.eq_dec i' i) as [->|Hi'].
    + rewrite nth_error_upd_nth_same, Hi. reflexivity.
    + rewrite nth_error_upd_nth_other by auto. reflexivity.
  - repeat split; try reflexivity.
    + intros x Hx Hp. exists (set_in (o_path ov) (o_value ov) x). split.
      * unfold m1. simpl. rewrite kw_lookup_upd_same, Hx. reflexivity.
      * apply get_in_set_in. exact Hp.
    + intros k' Hk. unfold m1. simpl. apply kw_lookup_upd_other. exact Hk.
Qed.

(* any operation x, then operations that do not write object o, then a run of o: the run is judged
   against the configuration x left in o *)
Lemma op_then_run inplace st pre x o mid m n post p' :
  nth_error (apply_op inplace (exec_ops inplace st pre) x) o = Some p' ->
  (forall y, In y mid -> writes inplace y o = false) ->
  hist_runs inplace st (pre ++ x :: mid ++ ORun o m n :: post) =
  hist_runs inplace st (pre ++ x :: mid) ++
  {| r_obj := o; r_cfg := p'; r_mode := m; r_steps := n |} ::
  hist_runs inplace (apply_op inplace (exec_ops inplace st (pre ++ x :: mid)) (ORun o m n)) post.
Proof.
  intros Hp W.
  replace (pre ++ x :: mid ++ ORun o m n :: post) with ((pre ++ x :: mid) ++ ORun o m n :: post)
    by (rewrite <- app_assoc; reflexivity).
  apply hist_runs_at. rewrite exec_ops_app. simpl.
  change (fold_left (apply_op inplace) mid ?s) with (exec_ops inplace s mid).
  rewrite exec_ops_frame; [exact Hp| |exact W].
  apply nth_error_Some. rewrite Hp. discriminate.
Qed.

Lemma setarg_then_run inplace st pre o ov mid m n post p :
  nth_error (exec_ops inplace st pre) o = Some p ->
  (forall y, In y mid -> writes inplace y o = false) ->
  hist_runs inplace st (pre ++ OSetArg o ov :: mid ++ ORun o m n :: post) =
  hist_runs inplace st (pre ++ OSetArg o ov :: mid) ++
  {| r_obj := o; r_cfg := apply_override p ov; r_mode := m; r_steps := n |} ::
  hist_runs inplace (apply_op inplace (exec_ops inplace st (pre ++ OSetArg o ov :: mid)) (ORun o m n)) post.
Proof.
  intros Hp W. apply op_then_run; [|exact W].
  simpl. unfold upd_store. rewrite nth_error_upd_nth_same, Hp. reflexivity.
Qed.
