(* Proofs for C17 over Model/Flux.v.  All statements hold for lists of any length. *)
From Coq Require Import QArith Qabs List Bool Arith Lia Lqa.
From PyxelV Require Import Model.Flux.
Import ListNotations.
Open Scope Q_scope.

(* ------------------------------------------------------------------ small list facts *)

Lemma last_cons_default : forall (A : Type) (l : list A) (a d : A), last (a :: l) d = last l a.
Proof.
  induction l as [|b l IH]; intros a d; [reflexivity|].
  change (last (a :: b :: l) d) with (last (b :: l) d). rewrite (IH b d), (IH b a). reflexivity.
Qed.

Lemma Forall2_Qeq_map_ext : forall (f g : Q -> Q) (l : list Q) (ts : list Q),
  (forall t, f t == g t) -> Forall2 Qeq l (map f ts) -> Forall2 Qeq l (map g ts).
Proof.
  intros f g l ts Hfg. revert l. induction ts as [|t ts IH]; intros l H; simpl in *.
  - inversion H; constructor.
  - inversion H as [|x y l' r' Hxy Hrest]; subst. constructor.
    + rewrite Hxy. apply Hfg.
    + apply IH. exact Hrest.
Qed.

(* ------------------------------------------------------------------ telescoping *)

Lemma diffs_telescope : forall ts start, qsum (diffs start ts) == last ts start - start.
Proof.
  induction ts as [|t r IH]; intros start; simpl diffs; simpl qsum.
  - simpl. ring.
  - rewrite last_cons_default, IH. ring.
Qed.

Lemma diffs_length : forall ts start, length (diffs start ts) = length ts.
Proof. induction ts; intros; simpl; [reflexivity|f_equal; auto]. Qed.

(* ------------------------------------------------------------------ one step of a well-formed pipeline *)

Lemma wf_after_collect : forall ops, wf_from 3 ops = true -> ops = [].
Proof. intros [|[k|q|k|] r]; simpl; intros H; [reflexivity|discriminate..]. Qed.

Lemma wf_no_photon_ops : forall ops phase, (1 <= phase)%nat -> wf_from phase ops = true -> ph_sum ops == 0.
Proof.
  induction ops as [|m r IH]; intros phase Hp H; simpl in *; [reflexivity|].
  destruct m as [k|q|k|]; apply andb_prop in H; destruct H as [H1 H2].
  - apply Nat.eqb_eq in H1. lia.
  - eapply IH; [|exact H2]. lia.
  - eapply IH; [|exact H2]. lia.
  - eapply IH; [|exact H2]. lia.
Qed.

Lemma fold_wf_pixel : forall step ops phase s,
  (phase <= 1)%nat -> wf_from phase ops = true ->
  pixel (fold_left (apply_op step) ops s)
  == pixel s + charge s + qe_sum ops * (photon s + ph_sum ops * step) + ch_sum ops * step.
Proof.
  intros step. induction ops as [|m r IH]; intros phase s Hp H.
  - simpl in H. apply Nat.eqb_eq in H. lia.
  - destruct m as [k|q|k|]; simpl in H; apply andb_prop in H; destruct H as [H1 H2]; cbn [fold_left].
    + rewrite (IH 0%nat _ (Nat.le_0_l _) H2).
      cbn [apply_op photon charge pixel ph_sum qe_sum ch_sum]. rewrite Qred_correct. ring.
    + rewrite (IH 1%nat _ (Nat.le_refl _) H2).
      cbn [apply_op photon charge pixel ph_sum qe_sum ch_sum]. rewrite Qred_correct.
      rewrite (wf_no_photon_ops r 1 (Nat.le_refl _) H2). ring.
    + rewrite (IH 1%nat _ (Nat.le_refl _) H2).
      cbn [apply_op photon charge pixel ph_sum qe_sum ch_sum]. rewrite Qred_correct. ring.
    + rewrite (wf_after_collect r H2).
      cbn [fold_left apply_op photon charge pixel ph_sum qe_sum ch_sum]. rewrite Qred_correct. ring.
Qed.

(* the collected charge of one step is Ktot * step, on top of what the pixel bucket kept *)
Lemma run_step_pixel : forall nd ops s step, wf_ops ops = true ->
  pixel (run_step nd ops s step) == (if nd then pixel s else 0) + Ktot ops * step.
Proof.
  intros nd ops s step H. unfold run_step.
  rewrite (fold_wf_pixel step ops 0%nat _ (Nat.le_0_l _) H). unfold Ktot. simpl. ring.
Qed.

(* ------------------------------------------------------------------ non-destructive exposures *)

Lemma nd_final_pixel : forall ops, wf_ops ops = true -> forall ts s prev,
  pixel (last (run_steps true ops s (diffs prev ts)) s) == pixel s + Ktot ops * (last ts prev - prev).
Proof.
  intros ops H. induction ts as [|t r IH]; intros s prev.
  - simpl. ring.
  - simpl diffs. simpl run_steps. rewrite !last_cons_default. rewrite IH.
    rewrite (run_step_pixel true ops s (t - prev) H). ring.
Qed.

Lemma nd_trace_pixels : forall ops, wf_ops ops = true -> forall ts s prev,
  Forall2 Qeq (map pixel (run_steps true ops s (diffs prev ts)))
              (map (fun t => pixel s + Ktot ops * (t - prev)) ts).
Proof.
  intros ops H. induction ts as [|t r IH]; intros s prev; simpl.
  - constructor.
  - constructor.
    + rewrite (run_step_pixel true ops s (t - prev) H). reflexivity.
    + eapply Forall2_Qeq_map_ext; [|apply IH].
      intros t'. simpl. rewrite (run_step_pixel true ops s (t - prev) H). ring.
Qed.

Lemma run_exposure_some : forall nd ops start ts tr,
  run_exposure nd ops start ts = Some tr ->
  valid_schedule start ts = true /\ tr = run_steps nd ops st0 (diffs start ts).
Proof.
  unfold run_exposure. intros nd ops start ts tr H.
  destruct (valid_schedule start ts); [inversion H; auto|discriminate].
Qed.

Theorem partition_independent : forall ops start ts1 ts2 tr1 tr2,
  wf_ops ops = true ->
  run_exposure true ops start ts1 = Some tr1 ->
  run_exposure true ops start ts2 = Some tr2 ->
  last ts1 start == last ts2 start ->
  pixel (last tr1 st0) == Ktot ops * (last ts1 start - start) /\
  pixel (last tr1 st0) == pixel (last tr2 st0).
Proof.
  intros ops start ts1 ts2 tr1 tr2 Hwf H1 H2 Hend.
  apply run_exposure_some in H1. apply run_exposure_some in H2.
  destruct H1 as [_ ->]. destruct H2 as [_ ->].
  rewrite !(nd_final_pixel ops Hwf). simpl. rewrite Hend. split; ring.
Qed.

Theorem nd_every_readout : forall ops start ts tr,
  wf_ops ops = true -> run_exposure true ops start ts = Some tr ->
  Forall2 Qeq (map pixel tr) (nd_closed (Ktot ops) start ts).
Proof.
  intros ops start ts tr Hwf H. apply run_exposure_some in H. destruct H as [_ ->].
  unfold nd_closed. eapply Forall2_Qeq_map_ext; [|apply (nd_trace_pixels ops Hwf)].
  intros t. simpl. ring.
Qed.

(* ------------------------------------------------------------------ destructive exposures *)

Lemma d_trace_pixels : forall ops, wf_ops ops = true -> forall steps s,
  Forall2 Qeq (map pixel (run_steps false ops s steps)) (map (fun d => Ktot ops * d) steps).
Proof.
  intros ops H. induction steps as [|d r IH]; intros s; simpl; constructor.
  - rewrite (run_step_pixel false ops s d H). ring.
  - apply IH.
Qed.

Lemma d_scale_steps : forall ops, wf_ops ops = true -> forall c steps' steps,
  Forall2 (fun d' d => d' == c * d) steps' steps -> forall s' s,
  Forall2 (fun p' p => p' == c * p)
          (map pixel (run_steps false ops s' steps')) (map pixel (run_steps false ops s steps)).
Proof.
  intros ops H c steps' steps HF. induction HF as [|d' d r' r Hd HF IH]; intros s' s; simpl; constructor.
  - rewrite !(run_step_pixel false ops _ _ H). rewrite Hd. ring.
  - apply IH.
Qed.

Theorem destructive_proportional : forall ops start ts tr,
  wf_ops ops = true -> run_exposure false ops start ts = Some tr ->
  Forall2 Qeq (map pixel tr) (d_closed (Ktot ops) start ts) /\
  forall c start' ts' tr',
    run_exposure false ops start' ts' = Some tr' ->
    Forall2 (fun d' d => d' == c * d) (diffs start' ts') (diffs start ts) ->
    Forall2 (fun p' p => p' == c * p) (map pixel tr') (map pixel tr).
Proof.
  intros ops start ts tr Hwf H. apply run_exposure_some in H. destruct H as [_ ->]. split.
  - apply (d_trace_pixels ops Hwf).
  - intros c start' ts' tr' H' HF. apply run_exposure_some in H'. destruct H' as [_ ->].
    apply (d_scale_steps ops Hwf c _ _ HF).
Qed.

(* ------------------------------------------------------------------ refusal of invalid schedules *)

Theorem invalid_schedule_refused : forall nd ops start ts,
  valid_schedule start ts = false -> run_exposure nd ops start ts = None.
Proof. intros. unfold run_exposure. rewrite H. reflexivity. Qed.

(* valid_schedule says what the text says *)
Lemma Qltb_lt : forall a b, Qltb a b = true <-> a < b.
Proof.
  intros a b. unfold Qltb. rewrite negb_true_iff. split; intros H.
  - apply Qnot_le_lt. intros Hle. apply Qle_bool_iff in Hle. congruence.
  - destruct (Qle_bool b a) eqn:E; [|reflexivity]. apply Qle_bool_iff in E. exfalso. apply (Qlt_not_le _ _ H E).
Qed.

Lemma increasing_from_steps_positive : forall ts prev,
  increasing_from prev ts = true <-> Forall (fun d => 0 < d) (diffs prev ts).
Proof.
  induction ts as [|t r IH]; intros prev; simpl.
  - split; [constructor|reflexivity].
  - rewrite andb_true_iff, Qltb_lt, IH. split.
    + intros [H1 H2]. constructor; [lra|exact H2].
    + intros H. inversion H; subst. split; [lra|assumption].
Qed.

Theorem valid_schedule_meaning : forall start ts,
  valid_schedule start ts = true <->
  (exists t0 r, ts = t0 :: r /\ ~ t0 == 0) /\ Forall (fun d => 0 < d) (diffs start ts).
Proof.
  intros start ts. unfold valid_schedule. destruct ts as [|t0 r].
  - split; [discriminate|]. intros [[t [r [H _]]] _]. discriminate.
  - rewrite andb_true_iff, negb_true_iff, increasing_from_steps_positive. split.
    + intros [H1 H2]. split; [|exact H2]. exists t0, r. split; [reflexivity|].
      intros E. apply Qeq_bool_iff in E. congruence.
    + intros [[t [r' [E Hn]]] H2]. inversion E; subst. split; [|exact H2].
      destruct (Qeq_bool t 0) eqn:Eb; [|reflexivity]. apply Qeq_bool_iff in Eb. contradiction.
Qed.

(* ------------------------------------------------------------------ the comparison used by the case files *)

Theorem close_zero_iff : forall a b, close 0 a b = true <-> a == b.
Proof.
  intros a b. unfold close. rewrite Qle_bool_iff.
  setoid_replace (0 * (Qabs a + Qabs b)) with 0 by ring.
  rewrite Qabs_Qle_condition. split; intros H.
  - destruct H as [H1 H2]. lra.
  - split; lra.
Qed.

Lemma close_list_zero : forall a b, close_list 0 a b = true <-> Forall2 Qeq a b.
Proof.
  induction a as [|x a IH]; intros [|y b]; simpl; split; intros H; try discriminate; try constructor;
    try (inversion H; fail).
  - apply andb_prop in H. apply close_zero_iff, H.
  - apply andb_prop in H. apply IH, H.
  - inversion H; subst. apply andb_true_iff. split; [apply close_zero_iff|apply IH]; assumption.
Qed.

(* The executable specification used on observed data (exp_spec with tolerance 0) is exactly the
   theorems' right-hand side: if the observation equals the model's trace, the specification holds. *)
Theorem exp_spec_sound_for_model : forall nd ops start ts tr,
  wf_ops ops = true -> run_exposure nd ops start ts = Some tr ->
  close_list 0 (if nd then nd_closed (Ktot ops) start ts else d_closed (Ktot ops) start ts) (map pixel tr) = true.
Proof.
  intros nd ops start ts tr Hwf H. apply close_list_zero.
  assert (Hs : forall l1 l2, Forall2 Qeq l1 l2 -> Forall2 Qeq l2 l1).
  { induction 1; constructor; [symmetry|]; assumption. }
  apply Hs. destruct nd.
  - apply (nd_every_readout ops start ts tr Hwf H).
  - apply (proj1 (destructive_proportional ops start ts tr Hwf H)).
Qed.
