(* C08 — derived processors: a copy policy that duplicates every object leaves nothing shared, and then an
   assignment on a copy is invisible in the source (for ALL trees, keys, values). *)
From Coq Require Import ZArith List Bool String Lia.
From PyxelV Require Import Model.Keys Model.KeysWorld.
Import ListNotations.
Open Scope string_scope.
Open Scope list_scope.

Scheme tree_mlist_ind := Induction for tree Sort Prop
  with mlist_tree_ind := Induction for mlist Sort Prop.

Lemma alias_tree_none : forall t pre, alias_tree false pre t = [].
Proof.
  apply (tree_mlist_ind (fun t => forall pre, alias_tree false pre t = [])
                        (fun ms => forall pre, alias_ms false false pre ms = [])).
  - reflexivity.
  - intros k ms IH pre. simpl. destruct k; apply IH.
  - reflexivity.
  - intros n mk t IHt r IHr pre. simpl. rewrite IHt, IHr. reflexivity.
Qed.

Lemma forallb_mode_deep l n : forallb (fun x : string * cmode => is_deep (snd x)) l = true -> mode_of l n = Deep.
Proof.
  induction l as [|[m c] r IH]; simpl; [reflexivity|].
  intros H. apply andb_true_iff in H. destruct H as [Hc Hr].
  destruct (String.eqb n m); [|auto]. destruct c; simpl in Hc; congruence.
Qed.

Lemma alias_root_none pol ms : policy_deep pol = true -> alias_root pol ms = [].
Proof.
  unfold policy_deep. intros H. apply andb_true_iff in H. destruct H as [Hr Hg].
  induction ms as [|n mk t r IH]; simpl; [reflexivity|].
  rewrite (forallb_mode_deep _ n Hr). simpl.
  unfold group_alias. rewrite (forallb_mode_deep _ "models" Hg). simpl.
  rewrite alias_tree_none, IH. reflexivity.
Qed.

Theorem nothing_shared : forall pol t, policy_deep pol = true -> alias_paths pol Deep t = [].
Proof. intros pol [v|k ms] H; simpl; [reflexivity|]. apply alias_root_none; assumption. Qed.

Lemma site_mode_deep sites via : sites_deep sites = true -> site_mode sites via = Deep.
Proof.
  unfold sites_deep. induction sites as [|[s m] r IH]; simpl; [reflexivity|].
  intros H. apply andb_true_iff in H. destruct H as [Hm Hr].
  destruct (String.eqb via s); [|auto]. destruct m; simpl in Hm; congruence.
Qed.

Lemma shares_landing_nil k : shares_landing [] k = false.
Proof. unfold shares_landing. destruct (split_last k) as [[b a]|]; reflexivity. Qed.

(* the source keeps its whole settings tree (hence every key, and its shape), whatever is assigned on the copy *)
Theorem derived_isolated : forall pol sites via t k raw,
  policy_deep pol = true -> sites_deep sites = true ->
  alias_paths pol (site_mode sites via) t = [] /\ orig_after pol (site_mode sites via) t k raw = t.
Proof.
  intros pol sites via t k raw Hp Hs. rewrite (site_mode_deep _ via Hs).
  pose proof (nothing_shared pol t Hp) as E. split; [exact E|].
  unfold orig_after. rewrite E, shares_landing_nil. reflexivity.
Qed.

(* conversely, what a shared object means: when the walk of the key ends inside it, the source sees the assignment *)
Theorem shared_landing_leaks : forall pol site t k raw t',
  shares_landing (alias_paths pol site t) k = true -> pset t k raw = Ok t' -> orig_after pol site t k raw = t'.
Proof. intros pol site t k raw t' H E. unfold orig_after. rewrite H, E. reflexivity. Qed.
