(* C13: invariant of the container state machine over arbitrary operation sequences; a failed
   operation preserves the state; reads of empty containers raise.  Everything is parametrised by
   the source tables `tb`; the only fact used about them is the boolean `tables_ok tb = true`. *)
From Coq Require Import ZArith List Bool Arith Lia.
From PyxelV Require Import Model.Containers.
Import ListNotations.

(* ------------------------------------------------------------------------------------------ basics *)

Lemma dtype_eqb_eq a b : dtype_eqb a b = true -> a = b.
Proof. destruct a, b; cbv; intro H; try reflexivity; discriminate. Qed.

Lemma dtype_mem_In d l : dtype_mem d l = true -> In d l.
Proof.
  unfold dtype_mem. intro H. apply existsb_exists in H. destruct H as [x [Hin Hx]].
  apply dtype_eqb_eq in Hx. subst. exact Hin.
Qed.

Lemma shape_eqb_eq l1 l2 : shape_eqb l1 l2 = true -> l1 = l2.
Proof.
  unfold shape_eqb. revert l2. induction l1 as [|a t IH]; destruct l2 as [|b t2]; simpl; intro H;
    try reflexivity; try discriminate.
  apply andb_prop in H. destruct H as [H1 H2]. apply Nat.eqb_eq in H1. subst. f_equal. apply IH. exact H2.
Qed.

Lemma shape_eqb_refl l : shape_eqb l l = true.
Proof. unfold shape_eqb. induction l; simpl; [reflexivity|]. rewrite Nat.eqb_refl. exact IHl. Qed.

Lemma list_eqb_sym {A} (e : A -> A -> bool) :
  (forall x y, e x y = e y x) -> forall l1 l2, list_eqb e l1 l2 = list_eqb e l2 l1.
Proof.
  intros He. induction l1 as [|a t IH]; destruct l2 as [|b t2]; simpl; try reflexivity.
  rewrite He, IH. reflexivity.
Qed.

Lemma all_nonneg_clip l : all_nonneg (map cell_clip0 l) = true.
Proof.
  unfold all_nonneg. induction l as [|c t IH]; simpl; [reflexivity|]. rewrite IH, andb_true_r.
  unfold cell_clip0. destruct (cell_neg c) eqn:E; [reflexivity|]. rewrite E. reflexivity.
Qed.

Lemma all_nonneg_nth l i : all_nonneg l = true -> cell_neg (nth i l NaN) = false.
Proof.
  unfold all_nonneg. revert i. induction l as [|c t IH]; intros i H.
  - destruct i; reflexivity.
  - simpl in H. apply andb_prop in H. destruct H as [H1 H2]. destruct i; simpl.
    + apply negb_true_iff in H1. exact H1.
    + apply IH. exact H2.
Qed.

Lemma all_nonneg_bcast ds ss l : all_nonneg l = true -> all_nonneg (bcast_data ds ss l) = true.
Proof.
  intro H. unfold bcast_data, all_nonneg. apply forallb_forall. intros x Hx.
  apply in_map_iff in Hx. destruct Hx as [i [Hi _]]. subst x. rewrite all_nonneg_nth; auto.
Qed.

Lemma cell_add_nonneg a b : cell_neg a = false -> cell_neg b = false -> cell_neg (cell_add a b) = false.
Proof.
  destruct a, b; simpl; intros Ha Hb; try reflexivity; try discriminate.
  apply Z.ltb_ge in Ha. apply Z.ltb_ge in Hb. apply Z.ltb_ge. lia.
Qed.

Ltac ok_simpl :=
  unfold arr_ok, clip_arr, with_data; cbn [a_dt a_xr a_shape a_data is_photon ckind_eqb].

Definition float_dt (d : dtype) : bool := match d with F16 | F32 | F64 => true | _ => false end.

Lemma wrap_float d c : float_dt d = true -> wrap d c = c.
Proof. destruct d; simpl; intro H; try discriminate; destruct c; reflexivity. Qed.

Lemma all_nonneg_zip_add d a b :
  float_dt d = true -> all_nonneg a = true -> all_nonneg b = true -> all_nonneg (zip_add d a b) = true.
Proof.
  intros Hd. unfold all_nonneg. revert b. induction a as [|x ta IH]; intros b Ha Hb; simpl; [reflexivity|].
  destruct b as [|y tb0]; simpl; [reflexivity|].
  simpl in Ha, Hb. apply andb_prop in Ha. apply andb_prop in Hb. destruct Ha as [Ha1 Ha2]. destruct Hb as [Hb1 Hb2].
  rewrite wrap_float by exact Hd. rewrite cell_add_nonneg.
  - simpl. apply IH; assumption.
  - apply negb_true_iff. exact Ha1.
  - apply negb_true_iff. exact Hb1.
Qed.

Lemma spec_allowed_photon_float d : spec_allowed Photon d = true -> float_dt d = true.
Proof. destruct d; simpl; intro H; try discriminate; reflexivity. Qed.

Lemma is_xr_false a : is_xr a = false -> a_xr a = None.
Proof. unfold is_xr. destruct (a_xr a); [discriminate|reflexivity]. Qed.

(* ------------------------------------------------------------------------------------------ with tables *)

Section WithTables.
Variable tb : tables.
Hypothesis Htb : tables_ok tb = true.

Lemma tb_parts :
  type_lists_ok tb = true /\ guards_ok tb = true /\ pixel_zeros_ok tb = true /\ no_raw_setter tb = true
  /\ iadd_through_setters tb = true /\ eq_shape_ok tb = true /\ reads_guarded tb = true /\ resets_ok tb = true
  /\ base_iadd_on_copy tb = true.
Proof.
  pose proof Htb as H. unfold tables_ok in H.
  apply andb_prop in H. destruct H as [H H9].
  apply andb_prop in H. destruct H as [H H8]. apply andb_prop in H. destruct H as [H H7].
  apply andb_prop in H. destruct H as [H H6]. apply andb_prop in H. destruct H as [H H5].
  apply andb_prop in H. destruct H as [H H4]. apply andb_prop in H. destruct H as [H H3].
  apply andb_prop in H. destruct H as [H1 H2]. auto 14.
Qed.

Lemma base_iadd_kinds : b_iadd tb = BIOnCopy /\ b_add tb = BIOnCopy.
Proof.
  destruct tb_parts as [_ [_ [_ [_ [_ [_ [_ [_ H]]]]]]]]. unfold base_iadd_on_copy in H.
  destruct (b_iadd tb), (b_add tb); try discriminate; auto.
Qed.

Lemma iadd_kinds : ph_iadd tb = IAddSetters /\ ph_add tb = IAddSetters.
Proof.
  destruct tb_parts as [_ [_ [_ [_ [H _]]]]]. unfold iadd_through_setters in H.
  destruct (ph_iadd tb), (ph_add tb); try discriminate; auto.
Qed.

Lemma eq_kinds : base_eq tb = EqBothNone /\ ph_eq_geom tb = true.
Proof.
  destruct tb_parts as [_ [_ [_ [_ [_ [H _]]]]]]. unfold eq_shape_ok in H.
  destruct (base_eq tb); [discriminate|]. auto.
Qed.

Lemma tl_allowed k d : in_type_list tb k d = true -> spec_allowed k d = true.
Proof.
  destruct tb_parts as [H _]. unfold type_lists_ok in H. rewrite forallb_forall in H.
  intro Hd. apply dtype_mem_In in Hd.
  assert (Hk : In k [Photon; Pixel; Signal; Image; Phase]) by (destruct k; simpl; auto 10).
  specialize (H k Hk). rewrite forallb_forall in H. apply H. exact Hd.
Qed.

Lemma guards :
  (exists e, v_type tb = Some e) /\ (exists e, v_dtype tb = Some e) /\ (exists e, v_shape tb = Some e) /\
  (exists e, p_type tb = Some e) /\ (exists e, p_dtype tb = Some e) /\ (exists e, p_shape tb = Some e) /\
  p_clip tb = true /\
  (exists e, q_type tb = Some e) /\ (exists e, q_dtype tb = Some e) /\ (exists e, q_ndim tb = Some e) /\
  (exists e, q_dims tb = Some e) /\ (exists e, q_shape tb = Some e) /\ (exists e, q_coord tb = Some e) /\
  q_clip tb = true.
Proof.
  destruct tb_parts as [_ [H _]]. unfold guards_ok in H.
  repeat (apply andb_prop in H; destruct H as [H ?]).
  unfold guard_present in *.
  repeat split;
    match goal with
    | |- exists e, ?g = Some e => destruct g; [eexists; reflexivity | discriminate]
    | |- _ = true => assumption
    end.
Qed.

(* what a passed validation means *)
Lemma validate_base_none c a :
  validate_base tb c a = None ->
  a_xr a = None /\ in_type_list tb (c_kind c) (a_dt a) = true /\ a_shape a = [c_rows c; c_cols c].
Proof.
  destruct guards as [[e1 G1] [[e2 G2] [[e3 G3] _]]].
  unfold validate_base. rewrite G1, G2, G3. simpl.
  destruct (is_xr a) eqn:E1; [discriminate|].
  destruct (in_type_list tb (c_kind c) (a_dt a)) eqn:E2; simpl; [|discriminate].
  destruct (shape_eqb (a_shape a) [c_rows c; c_cols c]) eqn:E3; simpl; [|discriminate].
  intros _. split; [apply is_xr_false; exact E1|]. split; [reflexivity|]. apply shape_eqb_eq. exact E3.
Qed.

(* validation only looks at the container type, element type and shape *)
Lemma validate_base_with_data c a d : validate_base tb c (with_data a d) = validate_base tb c a.
Proof. reflexivity. Qed.

Lemma validate_base_with_content c x a : validate_base tb (with_content c x) a = validate_base tb c a.
Proof. reflexivity. Qed.

Lemma check2d_with_data c a d : photon_check2d tb c (with_data a d) = photon_check2d tb c a.
Proof. reflexivity. Qed.

Lemma check2d_with_content c x a : photon_check2d tb (with_content c x) a = photon_check2d tb c a.
Proof. reflexivity. Qed.

Lemma check3d_with_data c a d : photon_check3d tb c (with_data a d) = photon_check3d tb c a.
Proof. reflexivity. Qed.

Lemma check3d_with_content c x a : photon_check3d tb (with_content c x) a = photon_check3d tb c a.
Proof. reflexivity. Qed.

Lemma arr_ok_base_of_validate c a :
  is_photon (c_kind c) = false -> validate_base tb c a = None -> arr_ok (c_kind c) (c_rows c) (c_cols c) a = true.
Proof.
  intros Hk Hv. apply validate_base_none in Hv. destruct Hv as [Hx [Hd Hs]].
  unfold arr_ok. rewrite (tl_allowed _ _ Hd), Hx, Hs, shape_eqb_refl, Hk. reflexivity.
Qed.

(* for the ArrayBase classes arr_ok does not look at the data *)
Lemma arr_ok_base_with_data k r c a d :
  is_photon k = false -> arr_ok k r c (with_data a d) = arr_ok k r c a.
Proof. intro Hk. unfold arr_ok. simpl. rewrite Hk. reflexivity. Qed.

Lemma arr_ok_zeros r c : arr_ok Pixel r c (zeros_f64 r c) = true.
Proof. unfold arr_ok. cbn [a_dt a_xr a_shape zeros_f64 spec_allowed is_photon ckind_eqb]. rewrite shape_eqb_refl. reflexivity. Qed.

Lemma inv_with_content c x :
  inv_b (with_content c x) = match x with None => true | Some a => arr_ok (c_kind c) (c_rows c) (c_cols c) a end.
Proof. reflexivity. Qed.

Lemma is_photon_kind c : is_photon (c_kind c) = true -> c_kind c = Photon.
Proof. destruct (c_kind c); simpl; intro H; try discriminate; reflexivity. Qed.

(* ---------------------------------------------------------------- ArrayBase classes *)

Lemma base_set_inv c a : is_photon (c_kind c) = false -> Inv c -> Inv (fst (base_set tb c a)).
Proof.
  intros Hk Hc. unfold base_set. destruct (validate_base tb c a) eqn:E; simpl; [exact Hc|].
  unfold Inv. rewrite inv_with_content. apply arr_ok_base_of_validate; assumption.
Qed.

Lemma base_iadd_inv k c a : is_photon (c_kind c) = false -> Inv c -> Inv (fst (base_iadd tb k c a)).
Proof.
  intros Hk Hc. unfold base_iadd. destruct (c_content c) as [cur|] eqn:Ec.
  - destruct (is_xr cur); [exact Hc|].
    unfold np_iadd.
    destruct (negb (iadd_ok tb (a_dt cur) (a_dt (as_numpy a)))); [exact Hc|].
    destruct (negb (broadcastable (a_shape (as_numpy a)) (a_shape cur))); [exact Hc|].
    match goal with |- context [validate_base tb c ?r] => destruct (validate_base tb c r) eqn:Ev end; simpl.
    + destruct k; [|exact Hc].
      unfold Inv. rewrite inv_with_content, arr_ok_base_with_data by exact Hk.
      unfold Inv, inv_b in Hc. rewrite Ec in Hc. exact Hc.
    + unfold Inv. rewrite inv_with_content. apply arr_ok_base_of_validate; assumption.
  - apply base_set_inv; assumption.
Qed.

Lemma setter_not_raw k : det_setter tb k <> SetterRaw.
Proof.
  destruct tb_parts as [_ [_ [_ [H _]]]]. unfold no_raw_setter in H. rewrite forallb_forall in H.
  intros E. assert (Hin : In k [Photon; Pixel; Signal; Image; Phase]) by (destruct k; simpl in *; auto 10).
  specialize (H k Hin). rewrite E in H. discriminate.
Qed.

(* ---------------------------------------------------------------- Photon *)

(* a passed 2-D check: the clipped array is a legal photon content *)
Lemma check2d_none_ok c a :
  photon_check2d tb c a = None -> arr_ok Photon (c_rows c) (c_cols c) (clip_arr a) = true.
Proof.
  destruct guards as [_ [_ [_ [[e1 G1] [[e2 G2] [[e3 G3] _]]]]]].
  unfold photon_check2d. rewrite G1, G2, G3. simpl.
  destruct (is_xr a) eqn:E1; [discriminate|].
  destruct (in_type_list tb Photon (a_dt a)) eqn:E2; simpl; [|discriminate].
  assert (Hfin : shape_eqb (a_shape a) [c_rows c; c_cols c] = true ->
                 arr_ok Photon (c_rows c) (c_cols c) (clip_arr a) = true).
  { intro E3. ok_simpl. rewrite (tl_allowed _ _ E2), (is_xr_false _ E1), E3, all_nonneg_clip. reflexivity. }
  destruct (p_ndim tb) as [e4|].
  - destruct (Nat.eqb (length (a_shape a)) 2); simpl; [|discriminate].
    destruct (shape_eqb (a_shape a) [c_rows c; c_cols c]) eqn:E3; simpl; [|discriminate]. intros _. auto.
  - destruct (negb (Nat.eqb (length (a_shape a)) 2)); simpl;
      (destruct (shape_eqb (a_shape a) [c_rows c; c_cols c]) eqn:E3; simpl; [|discriminate]; intros _; auto).
Qed.

Lemma check3d_none_ok c a :
  photon_check3d tb c a = None -> arr_ok Photon (c_rows c) (c_cols c) (clip_arr a) = true.
Proof.
  destruct guards as [_ [_ [_ [_ [_ [_ [_ [[e1 G1] [[e2 G2] [[e3 G3] [[e4 G4] [[e5 G5] [[e6 G6] Gc]]]]]]]]]]]]].
  unfold photon_check3d. rewrite G1, G2, G3, G4, G5, G6. simpl.
  destruct (is_xr a) eqn:E1; simpl; [|discriminate].
  destruct (in_type_list tb Photon (a_dt a)) eqn:E2; simpl; [|discriminate].
  destruct (Nat.eqb (length (a_shape a)) 3) eqn:E3; simpl; [|discriminate].
  destruct (dims_wyx a) eqn:E4; simpl; [|discriminate].
  destruct (yx_sizes_ok c a) eqn:E5; simpl; [|discriminate].
  destruct (has_wl_coord a) eqn:E6; simpl; [|discriminate].
  intros _. ok_simpl.
  rewrite (tl_allowed _ _ E2), all_nonneg_clip.
  unfold dims_wyx in E4. unfold has_wl_coord in E6. unfold yx_sizes_ok, dim_size in E5.
  destruct (a_xr a) as [xi|]; [|discriminate].
  rewrite E4. apply shape_eqb_eq in E4. rewrite E4 in E5. simpl in E5.
  destruct xi as [dims wl]. simpl in *. destruct wl as [l|]; [|discriminate].
  destruct (a_shape a) as [|w [|r' [|c' [|? ?]]]]; simpl in *; try discriminate.
  rewrite E5. reflexivity.
Qed.

Lemma photon_set2d_eq c a :
  photon_set2d tb c a = match photon_check2d tb c a with
                        | Some e => (c, Raise e)
                        | None => (with_content c (Some (clip_arr a)), Done)
                        end.
Proof. destruct guards as [_ [_ [_ [_ [_ [_ [Gc _]]]]]]]. unfold photon_set2d. rewrite Gc. reflexivity. Qed.

Lemma photon_set3d_eq c a :
  photon_set3d tb c a = match photon_check3d tb c a with
                        | Some e => (c, Raise e)
                        | None => (with_content c (Some (clip_arr a)), Done)
                        end.
Proof.
  destruct guards as [_ [_ [_ [_ [_ [_ [_ [_ [_ [_ [_ [_ [_ Gc]]]]]]]]]]]]].
  unfold photon_set3d. rewrite Gc. reflexivity.
Qed.

Lemma photon_set2d_inv c a : c_kind c = Photon -> Inv c -> Inv (fst (photon_set2d tb c a)).
Proof.
  intros Hk Hc. rewrite photon_set2d_eq. destruct (photon_check2d tb c a) eqn:E; simpl; [exact Hc|].
  unfold Inv. rewrite inv_with_content, Hk. apply check2d_none_ok. exact E.
Qed.

Lemma photon_set3d_inv c a : c_kind c = Photon -> Inv c -> Inv (fst (photon_set3d tb c a)).
Proof.
  intros Hk Hc. rewrite photon_set3d_eq. destruct (photon_check3d tb c a) eqn:E; simpl; [exact Hc|].
  unfold Inv. rewrite inv_with_content, Hk. apply check3d_none_ok. exact E.
Qed.

(* the 3-D check passes only on DataArrays, the 2-D check only on ndarrays *)
Lemma check3d_none_xr c a : photon_check3d tb c a = None -> is_xr a = true.
Proof.
  destruct guards as [_ [_ [_ [_ [_ [_ [_ [[e1 G1] _]]]]]]]].
  unfold photon_check3d. rewrite G1. simpl. destruct (is_xr a); [reflexivity|discriminate].
Qed.

Lemma check2d_none_np c a : photon_check2d tb c a = None -> is_xr a = false.
Proof.
  destruct guards as [_ [_ [_ [[e1 G1] _]]]].
  unfold photon_check2d. rewrite G1. simpl. destruct (is_xr a); [discriminate|reflexivity].
Qed.

Lemma is_xr_clip a : is_xr (clip_arr a) = is_xr a.
Proof. reflexivity. Qed.

(* after a setter the stored array passes the same setter again *)
Lemma photon_set2d_accepted c a :
  is_photon (c_kind c) = true -> accepted tb c = true -> accepted tb (fst (photon_set2d tb c a)) = true.
Proof.
  intros Hk Hc. rewrite photon_set2d_eq. destruct (photon_check2d tb c a) eqn:E; simpl; [exact Hc|].
  unfold accepted. cbn [c_content with_content c_kind]. rewrite Hk, is_xr_clip, (check2d_none_np _ _ E).
  unfold clip_arr. rewrite check2d_with_data, check2d_with_content, E. reflexivity.
Qed.

Lemma photon_set3d_accepted c a :
  is_photon (c_kind c) = true -> accepted tb c = true -> accepted tb (fst (photon_set3d tb c a)) = true.
Proof.
  intros Hk Hc. rewrite photon_set3d_eq. destruct (photon_check3d tb c a) eqn:E; simpl; [exact Hc|].
  unfold accepted. cbn [c_content with_content c_kind]. rewrite Hk, is_xr_clip, (check3d_none_xr _ _ E).
  unfold clip_arr. rewrite check3d_with_data, check3d_with_content, E. reflexivity.
Qed.

(* numpy / xarray in-place addition keeps container type, element type and shape *)
Lemma np_iadd_with_data cur a cur' :
  np_iadd tb cur a = inl cur' -> exists d, cur' = with_data cur d.
Proof.
  unfold np_iadd.
  destruct (negb (iadd_ok tb (a_dt cur) (a_dt a))); [discriminate|].
  destruct (negb (broadcastable (a_shape a) (a_shape cur))); [discriminate|].
  intro H. injection H as <-. eexists. reflexivity.
Qed.

Lemma xr_iadd_with_data cur a cur' :
  xr_iadd tb cur a = Some (inl cur') -> exists d, cur' = with_data cur d.
Proof.
  unfold xr_iadd.
  destruct (a_xr cur) as [xc|]; [|discriminate]. destruct (a_xr a) as [xa|]; [|discriminate].
  destruct (dims_wyx cur && has_wl_coord cur && Nat.eqb (length (a_shape cur)) 3
            && Nat.eqb (length (x_dims xa)) (length (a_shape a)) && nodup_nat (x_dims xa)); [|discriminate].
  destruct (match x_wl xa with Some _ => negb (opt_eqb zlist_eqb (x_wl xc) (x_wl xa)) | None => false end); [discriminate|].
  destruct (negb (xr_sizes_compat cur a)); [discriminate|].
  destruct (negb (forallb (fun n => Nat.ltb n 3) (x_dims xa))); [discriminate|].
  destruct (negb (iadd_ok tb (a_dt cur) (a_dt a))); [discriminate|].
  intro H. injection H as <-. eexists. reflexivity.
Qed.

Lemma is_xr_with_data a d : is_xr (with_data a d) = is_xr a.
Proof. reflexivity. Qed.

Lemma is_xr_of_a_xr a : is_xr a = match a_xr a with Some _ => true | None => false end.
Proof. reflexivity. Qed.

(* `photon += a` / `photon + a` with the tail that goes through the setters: the result is either the
   unchanged state (an exception before anything was stored) or the clipped, validated sum *)
Lemma photon_iadd_setters_cases c a :
  is_photon (c_kind c) = true -> accepted tb c = true ->
  (fst (photon_iadd tb IAddSetters c a) = c)
  \/ (exists x, fst (photon_iadd tb IAddSetters c a) = with_content c (Some (clip_arr x))
                /\ ((is_xr x = false /\ photon_check2d tb c x = None) \/ (is_xr x = true /\ photon_check3d tb c x = None))).
Proof.
  intros Hk Hacc. unfold photon_iadd. destruct (c_content c) as [cur|] eqn:Ec.
  - unfold accepted in Hacc. rewrite Ec, Hk in Hacc. rewrite is_xr_of_a_xr in Hacc.
    destruct (a_xr cur) as [xc|] eqn:Exc; destruct (a_xr a) as [xa|] eqn:Exa; try (left; reflexivity).
    + destruct (xr_iadd tb cur a) as [[cur'|e]|] eqn:E; try (left; reflexivity).
      destruct (xr_iadd_with_data _ _ _ E) as [d ->].
      assert (Hchk : photon_check3d tb c (with_data cur d) = None).
      { rewrite check3d_with_data. destruct (photon_check3d tb c cur); [discriminate|reflexivity]. }
      rewrite photon_set3d_eq, check3d_with_content, Hchk. simpl. right.
      exists (with_data cur d). split; [reflexivity|]. right. split; [|exact Hchk].
      rewrite is_xr_with_data, is_xr_of_a_xr, Exc. reflexivity.
    + destruct (np_iadd tb cur a) as [cur'|e] eqn:E; try (left; reflexivity).
      destruct (np_iadd_with_data _ _ _ E) as [d ->].
      assert (Hchk : photon_check2d tb c (with_data cur d) = None).
      { rewrite check2d_with_data. destruct (photon_check2d tb c cur); [discriminate|reflexivity]. }
      rewrite photon_set2d_eq, check2d_with_content, Hchk. simpl. right.
      exists (with_data cur d). split; [reflexivity|]. left. split; [|exact Hchk].
      rewrite is_xr_with_data, is_xr_of_a_xr, Exc. reflexivity.
  - destruct (is_xr a) eqn:Ex.
    + rewrite photon_set3d_eq. destruct (photon_check3d tb c a) eqn:E; simpl; [left; reflexivity|].
      right. exists a. split; [reflexivity|]. right. auto.
    + rewrite photon_set2d_eq. destruct (photon_check2d tb c a) eqn:E; simpl; [left; reflexivity|].
      right. exists a. split; [reflexivity|]. left. auto.
Qed.

Lemma photon_iadd_inv c a :
  c_kind c = Photon -> Inv c -> accepted tb c = true -> Inv (fst (photon_iadd tb IAddSetters c a)).
Proof.
  intros Hk Hc Hacc.
  assert (Hk' : is_photon (c_kind c) = true) by (rewrite Hk; reflexivity).
  destruct (photon_iadd_setters_cases c a Hk' Hacc) as [-> | [x [-> [[_ Hx]|[_ Hx]]]]]; [exact Hc| |];
    unfold Inv; rewrite inv_with_content, Hk; [apply check2d_none_ok | apply check3d_none_ok]; exact Hx.
Qed.

Lemma photon_iadd_accepted c a :
  is_photon (c_kind c) = true -> accepted tb c = true -> accepted tb (fst (photon_iadd tb IAddSetters c a)) = true.
Proof.
  intros Hk Hacc.
  destruct (photon_iadd_setters_cases c a Hk Hacc) as [-> | [x [-> [[Hx Hchk]|[Hx Hchk]]]]]; [exact Hacc| |];
    unfold accepted; cbn [c_content with_content c_kind]; rewrite Hk, is_xr_clip, Hx; unfold clip_arr.
  - rewrite check2d_with_data, check2d_with_content, Hchk. reflexivity.
  - rewrite check3d_with_data, check3d_with_content, Hchk. reflexivity.
Qed.

(* detector.photon = o *)
Lemma det_assign_photon_inv c o :
  c_kind c = Photon -> Inv c -> Inv (fst (det_assign tb c o)).
Proof.
  intros Hk Hc. assert (Hk' : is_photon (c_kind c) = true) by (rewrite Hk; reflexivity).
  unfold det_assign. destruct (det_setter tb (c_kind c)) eqn:Es; simpl.
  - destruct (read2d tb o) eqn:Er; simpl; try exact Hc. rewrite Hk'. apply photon_set2d_inv; assumption.
  - exfalso. eapply setter_not_raw; eauto.
  - rewrite Hk'. simpl. destruct (c_content o) as [a|]; [|reflexivity].
    destruct (is_xr a); [|apply photon_set2d_inv; assumption].
    destruct (is_photon (c_kind o)); [apply photon_set3d_inv; assumption | exact Hc].
  - exact Hc.
Qed.

Lemma det_assign_photon_accepted c o :
  is_photon (c_kind c) = true -> accepted tb c = true -> accepted tb (fst (det_assign tb c o)) = true.
Proof.
  intros Hk Hc.
  unfold det_assign. destruct (det_setter tb (c_kind c)) eqn:Es; simpl.
  - destruct (read2d tb o) eqn:Er; simpl; try exact Hc. rewrite Hk. apply photon_set2d_accepted; assumption.
  - exfalso. eapply setter_not_raw; eauto.
  - rewrite Hk. simpl. destruct (c_content o) as [a|]; [|reflexivity].
    destruct (is_xr a); [|apply photon_set2d_accepted; assumption].
    destruct (is_photon (c_kind o)); [apply photon_set3d_accepted; assumption | exact Hc].
  - exact Hc.
Qed.

(* ---------------------------------------------------------------- the stored array passes its setter again *)

Lemma accepted_base c :
  is_photon (c_kind c) = false -> accepted tb c = true -> forall a, c_content c = Some a -> validate_base tb c a = None.
Proof.
  intros Hk H a E. unfold accepted in H. rewrite E, Hk in H. destruct (validate_base tb c a); [discriminate|reflexivity].
Qed.

Lemma accepted_set c a :
  is_photon (c_kind c) = false -> validate_base tb c a = None -> accepted tb (with_content c (Some a)) = true.
Proof. intros Hk Hv. unfold accepted. cbn [c_content with_content c_kind]. rewrite Hk, validate_base_with_content, Hv. reflexivity. Qed.

Lemma accepted_none c : accepted tb (with_content c None) = true.
Proof. reflexivity. Qed.

Lemma base_set_accepted c a :
  is_photon (c_kind c) = false -> accepted tb c = true -> accepted tb (fst (base_set tb c a)) = true.
Proof.
  intros Hk Hr. unfold base_set. destruct (validate_base tb c a) eqn:E; simpl; [exact Hr|].
  apply accepted_set; assumption.
Qed.

Lemma base_iadd_accepted k c a :
  is_photon (c_kind c) = false -> accepted tb c = true -> accepted tb (fst (base_iadd tb k c a)) = true.
Proof.
  intros Hk Hr. unfold base_iadd. destruct (c_content c) as [cur|] eqn:Ec; [|apply base_set_accepted; assumption].
  destruct (is_xr cur); [exact Hr|].
  destruct (np_iadd tb cur (as_numpy a)) as [cur'|e'] eqn:E; [|exact Hr].
  destruct (np_iadd_with_data _ _ _ E) as [d ->].
  destruct (validate_base tb c (iadd_result (with_data cur d) a)) eqn:Ev; simpl.
  - destruct k; [|exact Hr]. apply accepted_set; [exact Hk|]. rewrite validate_base_with_data. eapply accepted_base; eauto.
  - apply accepted_set; assumption.
Qed.

Lemma validate_zeros c : c_kind c = Pixel -> validate_base tb c (zeros_f64 (c_rows c) (c_cols c)) = None.
Proof.
  intro Ek. destruct guards as [[e1 G1] [[e2 G2] [[e3 G3] _]]]. destruct tb_parts as [_ [_ [Hz _]]].
  unfold validate_base, in_type_list, is_xr. rewrite G1, G2, G3, Ek. unfold pixel_zeros_ok in Hz.
  cbn [zeros_f64 a_dt a_xr a_shape]. rewrite Hz, shape_eqb_refl. reflexivity.
Qed.

(* ---------------------------------------------------------------- resets *)

Lemma empty_kinds :
  empty_of tb Photon = EmptyNone /\ empty_of tb Signal = EmptyNone /\ empty_of tb Image = EmptyNone
  /\ empty_of tb Phase = EmptyNone
  /\ d_empty tb Photon = DAlways /\ d_empty tb Signal = DAlways /\ d_empty tb Image = DAlways
  /\ d_empty tb Pixel <> DNever /\ mkid_phase_zero tb = true.
Proof.
  destruct tb_parts as [_ [_ [_ [_ [_ [_ [_ [H _]]]]]]]]. unfold resets_ok in H. simpl in H.
  destruct (empty_of tb Photon), (empty_of tb Signal), (empty_of tb Image), (empty_of tb Phase); try discriminate.
  destruct (d_empty tb Photon), (d_empty tb Signal), (d_empty tb Image); try discriminate.
  destruct (mkid_phase_zero tb); [|destruct (d_empty tb Pixel); discriminate].
  destruct (d_empty tb Pixel); try discriminate; repeat split; congruence.
Qed.

Lemma do_empty_cases c :
  do_empty tb c = with_content c None
  \/ (c_kind c = Pixel /\ do_empty tb c = with_content c (Some (zeros_f64 (c_rows c) (c_cols c)))).
Proof.
  destruct empty_kinds as [E1 [E2 [E3 [E4 _]]]]. unfold do_empty.
  destruct (c_kind c) eqn:Ek; rewrite ?E1, ?E2, ?E3, ?E4; auto.
  destruct (empty_of tb Pixel); auto.
Qed.

Lemma do_empty_inv c : Inv (do_empty tb c).
Proof.
  destruct (do_empty_cases c) as [-> | [Ek ->]]; [reflexivity|].
  unfold Inv. rewrite inv_with_content, Ek. apply arr_ok_zeros.
Qed.

Lemma do_empty_accepted c : accepted tb (do_empty tb c) = true.
Proof.
  destruct (do_empty_cases c) as [-> | [Ek ->]]; [reflexivity|].
  apply accepted_set; [rewrite Ek; reflexivity | apply validate_zeros; exact Ek].
Qed.

(* ---------------------------------------------------------------- one step, any sequence *)

Lemma dempty_inv c reset : Inv c -> Inv (fst (step tb c (ODEmpty reset))).
Proof.
  intro Hc. simpl. destruct (c_kind c) eqn:Ek;
    try (destruct (d_empty tb _); [apply do_empty_inv | destruct reset; [apply do_empty_inv | exact Hc] | exact Hc]).
  destruct (c_content c) as [cur|] eqn:Ec; [|exact Hc]. destruct (reset && mkid_phase_zero tb); [|exact Hc].
  rewrite validate_base_with_data.
  assert (Hok : Inv (with_content c (Some (with_data cur (map cell_mul0 (a_data cur)))))).
  { unfold Inv. rewrite inv_with_content, arr_ok_base_with_data by (rewrite Ek; reflexivity).
    unfold Inv, inv_b in Hc. rewrite Ec in Hc. exact Hc. }
  destruct (validate_base tb c cur); exact Hok.
Qed.

Theorem step_inv c o : Inv c -> accepted tb c = true -> Inv (fst (step tb c o)).
Proof.
  intros Hc Hacc. destruct iadd_kinds as [Ki Ka].
  destruct o as [a|a|oa|a|a| | | |o'|o'|o'|reset|]; try exact Hc; try (apply dempty_inv; exact Hc);
    try (apply do_empty_inv).
  all: destruct (is_photon (c_kind c)) eqn:Hk; simpl; rewrite ?Hk, ?Ki, ?Ka; try exact Hc.
  - apply photon_set2d_inv; [apply is_photon_kind|]; assumption.
  - apply base_set_inv; assumption.
  - apply photon_set3d_inv; [apply is_photon_kind|]; assumption.
  - destruct oa as [a|]; [apply base_set_inv; assumption|].
    destruct (upd_none tb (c_kind c)); [apply do_empty_inv | reflexivity].
  - apply photon_iadd_inv; [apply is_photon_kind| |]; assumption.
  - apply base_iadd_inv; assumption.
  - apply photon_iadd_inv; [apply is_photon_kind| |]; assumption.
  - apply base_iadd_inv; assumption.
  - apply det_assign_photon_inv; [apply is_photon_kind|]; assumption.
  - unfold det_assign. destruct (det_setter tb (c_kind c)) eqn:Es; simpl.
    + destruct (read2d tb o') eqn:Er; simpl; try exact Hc. rewrite Hk. apply base_set_inv; assumption.
    + exfalso. eapply setter_not_raw; eauto.
    + rewrite Hk. exact Hc.
    + exact Hc.
Qed.

Lemma step_kind c o : c_kind (fst (step tb c o)) = c_kind c /\ c_rows (fst (step tb c o)) = c_rows c
                      /\ c_cols (fst (step tb c o)) = c_cols c.
Proof.
  destruct o; simpl;
    unfold photon_iadd, det_assign, base_iadd, photon_set2d, photon_set3d, base_set, do_empty;
    repeat match goal with
           | |- context [match ?x with _ => _ end] => destruct x eqn:?
           | |- context [if ?x then _ else _] => destruct x eqn:?
           end; simpl; auto.
Qed.

Lemma dempty_accepted c reset : accepted tb c = true -> accepted tb (fst (step tb c (ODEmpty reset))) = true.
Proof.
  intro Hr. simpl. destruct (c_kind c) eqn:Ek;
    try (destruct (d_empty tb _); [apply do_empty_accepted | destruct reset; [apply do_empty_accepted | exact Hr] | exact Hr]).
  destruct (c_content c) as [cur|] eqn:Ec; [|exact Hr]. destruct (reset && mkid_phase_zero tb); [|exact Hr].
  assert (Hk2 : is_photon (c_kind c) = false) by (rewrite Ek; reflexivity).
  rewrite validate_base_with_data, (accepted_base c Hk2 Hr cur Ec). simpl. apply accepted_set; [exact Hk2|].
  rewrite validate_base_with_data. eapply accepted_base; eauto.
Qed.

Theorem step_accepted c o : accepted tb c = true -> accepted tb (fst (step tb c o)) = true.
Proof.
  intros Hr. destruct iadd_kinds as [Ki Ka].
  destruct o as [a|a|oa|a|a| | | |o'|o'|o'|reset|]; try exact Hr; try (apply dempty_accepted; exact Hr);
    try (apply do_empty_accepted).
  all: destruct (is_photon (c_kind c)) eqn:Hk; simpl; rewrite ?Hk, ?Ki, ?Ka; try exact Hr.
  - apply photon_set2d_accepted; assumption.
  - apply base_set_accepted; assumption.
  - apply photon_set3d_accepted; assumption.
  - destruct oa as [a|]; [apply base_set_accepted; assumption|].
    destruct (upd_none tb (c_kind c)); [apply do_empty_accepted | apply accepted_none].
  - apply photon_iadd_accepted; assumption.
  - apply base_iadd_accepted; assumption.
  - apply photon_iadd_accepted; assumption.
  - apply base_iadd_accepted; assumption.
  - apply det_assign_photon_accepted; assumption.
  - unfold det_assign. destruct (det_setter tb (c_kind c)) eqn:Es; simpl.
    + destruct (read2d tb o'); simpl; try exact Hr. rewrite Hk. apply base_set_accepted; assumption.
    + exfalso. eapply setter_not_raw; eauto.
    + rewrite Hk. exact Hr.
    + exact Hr.
Qed.

Lemma run_cons c o t : run tb c (o :: t) = run tb (fst (step tb c o)) t.
Proof. reflexivity. Qed.

Theorem run_accepted ops : forall c, accepted tb c = true -> accepted tb (run tb c ops) = true.
Proof.
  induction ops as [|o t IH]; intros c Hr; [exact Hr|]. rewrite run_cons. apply IH. apply step_accepted. exact Hr.
Qed.

(* the invariant, for ALL operation sequences: every intermediate state and the final state *)
Theorem run_inv ops : forall c, Inv c -> accepted tb c = true -> Inv (run tb c ops).
Proof.
  induction ops as [|o t IH]; intros c Hc Hr; [exact Hc|].
  rewrite run_cons. apply IH; [apply step_inv | apply step_accepted]; assumption.
Qed.

Theorem states_inv ops : forall c, Inv c -> accepted tb c = true -> Forall Inv (states tb c ops).
Proof.
  induction ops as [|o t IH]; intros c Hc Hr; [constructor|].
  simpl. constructor; [apply step_inv; assumption|]. apply IH; [apply step_inv | apply step_accepted]; assumption.
Qed.

Lemma accepted_empty k r c : accepted tb (empty_container k r c) = true.
Proof. reflexivity. Qed.

Lemma inv_empty k r c : Inv (empty_container k r c).
Proof. reflexivity. Qed.

(* ---------------------------------------------------------------- a failed operation changes nothing *)

Lemma base_set_raise c a c' e : base_set tb c a = (c', Raise e) -> c' = c.
Proof. unfold base_set. destruct (validate_base tb c a); intro H; inversion H; reflexivity. Qed.

Lemma photon_set2d_raise c a c' e : photon_set2d tb c a = (c', Raise e) -> c' = c.
Proof. unfold photon_set2d. destruct (photon_check2d tb c a); intro H; inversion H; reflexivity. Qed.

Lemma photon_set3d_raise c a c' e : photon_set3d tb c a = (c', Raise e) -> c' = c.
Proof. unfold photon_set3d. destruct (photon_check3d tb c a); intro H; inversion H; reflexivity. Qed.

Lemma photon_iadd_raise c a c' e :
  is_photon (c_kind c) = true -> accepted tb c = true ->
  photon_iadd tb IAddSetters c a = (c', Raise e) -> c' = c.
Proof.
  intros Hk Hacc. unfold photon_iadd. destruct (c_content c) as [cur|] eqn:Ec.
  - unfold accepted in Hacc. rewrite Ec, Hk in Hacc. rewrite is_xr_of_a_xr in Hacc.
    destruct (a_xr cur) as [xc|] eqn:Exc; destruct (a_xr a) as [xa|] eqn:Exa; try (intro H; inversion H; reflexivity).
    + destruct (xr_iadd tb cur a) as [[cur'|e']|] eqn:E; try (intro H; inversion H; reflexivity).
      destruct (xr_iadd_with_data _ _ _ E) as [d ->].
      rewrite photon_set3d_eq, check3d_with_content, check3d_with_data.
      destruct (photon_check3d tb c cur); [discriminate|]. intro H; inversion H.
    + destruct (np_iadd tb cur a) as [cur'|e'] eqn:E; try (intro H; inversion H; reflexivity).
      destruct (np_iadd_with_data _ _ _ E) as [d ->].
      rewrite photon_set2d_eq, check2d_with_content, check2d_with_data.
      destruct (photon_check2d tb c cur); [discriminate|]. intro H; inversion H.
  - destruct (is_xr a); [apply photon_set3d_raise | apply photon_set2d_raise].
Qed.

Lemma base_iadd_raise c a c' e :
  base_iadd tb BIOnCopy c a = (c', Raise e) -> c' = c.
Proof.
  unfold base_iadd. destruct (c_content c) as [cur|] eqn:Ec; [|apply base_set_raise].
  destruct (is_xr cur); [intro H; inversion H|].
  destruct (np_iadd tb cur (as_numpy a)) as [cur'|e'] eqn:E; [|intro H; inversion H; reflexivity].
  destruct (validate_base tb c (iadd_result cur' a)); intro H; inversion H; reflexivity.
Qed.

Theorem step_raise_preserves c o c' e : accepted tb c = true -> step tb c o = (c', Raise e) -> c' = c.
Proof.
  intros Hr. destruct iadd_kinds as [Ki Ka]. destruct base_iadd_kinds as [Bi Ba].
  destruct (is_photon (c_kind c)) eqn:Hk.
  - destruct o as [a|a|oa|a|a| | | |o'|o'|o'|reset|]; simpl; rewrite ?Hk, ?Ki, ?Ka.
    + apply photon_set2d_raise.
    + apply photon_set3d_raise.
    + intro H; inversion H.
    + apply photon_iadd_raise; assumption.
    + apply photon_iadd_raise; assumption.
    + intro H; inversion H.
    + intro H; inversion H; reflexivity.
    + intro H; inversion H; reflexivity.
    + intro H; inversion H; reflexivity.
    + intro H; inversion H; reflexivity.
    + unfold det_assign. destruct (det_setter tb (c_kind c)); try (intro H; inversion H; reflexivity).
      * destruct (read2d tb o'); try (intro H; inversion H; reflexivity). rewrite Hk. apply photon_set2d_raise.
      * rewrite Hk. simpl. destruct (c_content o') as [a|]; [|intro H; inversion H].
        destruct (is_xr a); [|apply photon_set2d_raise].
        destruct (is_photon (c_kind o')); [apply photon_set3d_raise | intro H; inversion H; reflexivity].
    + rewrite (is_photon_kind _ Hk). destruct (d_empty tb Photon); [|destruct reset|]; intro H; inversion H.
    + intro H; inversion H; reflexivity.
  - destruct o as [a|a|oa|a|a| | | |o'|o'|o'|reset|]; simpl; rewrite ?Hk.
    + apply base_set_raise.
    + intro H; inversion H.
    + destruct oa; [apply base_set_raise | destruct (upd_none tb (c_kind c)); intro H; inversion H].
    + rewrite Bi. apply base_iadd_raise.
    + rewrite Ba. apply base_iadd_raise.
    + intro H; inversion H.
    + intro H; inversion H; reflexivity.
    + intro H; inversion H.
    + intro H; inversion H; reflexivity.
    + intro H; inversion H; reflexivity.
    + unfold det_assign. destruct (det_setter tb (c_kind c)); try (intro H; inversion H; reflexivity).
      * destruct (read2d tb o'); try (intro H; inversion H; reflexivity). rewrite Hk. apply base_set_raise.
      * rewrite Hk. simpl. intro H; inversion H.
    + destruct (c_kind c) eqn:Ek;
        try (destruct (d_empty tb _); [|destruct reset|]; intro H; inversion H; fail).
      destruct (c_content c) as [cur|] eqn:Ec; [|intro H; inversion H].
      destruct (reset && mkid_phase_zero tb); [|intro H; inversion H].
      assert (Hk2 : is_photon (c_kind c) = false) by (rewrite Ek; reflexivity).
      rewrite validate_base_with_data, (accepted_base c Hk2 Hr cur Ec). intro H; inversion H.
    + intro H; inversion H; reflexivity.
Qed.

(* after ANY history that started with an empty container, an operation that raises changes nothing *)
Theorem failed_op_preserves c0 ops o c' e :
  c_content c0 = None -> step tb (run tb c0 ops) o = (c', Raise e) -> c' = run tb c0 ops.
Proof.
  intros H0. apply step_raise_preserves. apply run_accepted. unfold accepted. rewrite H0. reflexivity.
Qed.

(* ---------------------------------------------------------------- reads *)

Lemma read_guards :
  (exists e, rd_base tb = Some e) /\ (exists e, rd_ph2_none tb = Some e) /\ (exists e, rd_ph3_none tb = Some e)
  /\ (exists e, aa_base tb = Some e) /\ (exists e, aa_ph_none tb = Some e).
Proof.
  destruct tb_parts as [_ [_ [_ [_ [_ [_ [H _]]]]]]]. unfold reads_guarded in H.
  repeat (apply andb_prop in H; destruct H as [H ?]). unfold guard_present in *.
  repeat split; match goal with |- exists e, ?g = Some e => destruct g; [eexists; reflexivity | discriminate] end.
Qed.

(* reading an empty container raises, whichever way it is read *)
Theorem read_empty_raises c : c_content c = None -> exists e, step tb c ORead = (c, Raise e).
Proof.
  intro H. destruct read_guards as [[e1 G1] [[e2 G2] _]]. simpl. unfold read2d, content_none.
  rewrite H, G1, G2. simpl. destruct (is_photon (c_kind c)); eexists; reflexivity.
Qed.

Theorem read3d_empty_raises c :
  c_kind c = Photon -> c_content c = None -> exists e, step tb c ORead3D = (c, Raise e).
Proof.
  intros Hk H. destruct read_guards as [_ [_ [[e3 G3] _]]]. simpl. rewrite Hk. simpl. unfold read3d, content_none.
  rewrite H, G3. simpl. eexists; reflexivity.
Qed.

Theorem asarray_empty_raises c :
  c_content c = None -> exists e, step tb c OAsArray = (c, Raise e).
Proof.
  intro H. destruct read_guards as [_ [_ [_ [[e4 G4] [e5 G5]]]]]. simpl. unfold asarray_res, content_none, content_np.
  rewrite H, G4, G5. simpl. destruct (is_photon (c_kind c)); eexists; reflexivity.
Qed.

Lemma ret_content_arr c a : ret_content c = RetArr a -> c_content c = Some a.
Proof. unfold ret_content. destruct (c_content c); intro H; inversion H; reflexivity. Qed.

Lemma read2d_arr c a : read2d tb c = RetArr a -> c_content c = Some a.
Proof. unfold read2d. destruct (if is_photon (c_kind c) then _ else _); [discriminate|]. apply ret_content_arr. Qed.

(* a read never returns anything but the stored array, and never changes the state *)
Theorem read_returns_content c c' a :
  (step tb c ORead = (c', RetArr a) \/ step tb c ORead3D = (c', RetArr a) \/ step tb c OAsArray = (c', RetArr a)) ->
  c' = c /\ c_content c = Some a.
Proof.
  intros [H|[H|H]]; simpl in H.
  - inversion H. split; [reflexivity|]. apply read2d_arr. assumption.
  - destruct (is_photon (c_kind c)); [|discriminate]. injection H as Hc Hr. split; [symmetry; exact Hc|].
    unfold read3d in Hr. destruct (first_fail _); [discriminate|]. apply ret_content_arr. exact Hr.
  - injection H as Hc Hr. split; [symmetry; exact Hc|]. unfold asarray_res in Hr.
    destruct (is_photon (c_kind c)); destruct (first_fail _); try discriminate;
      [apply read2d_arr | apply ret_content_arr]; exact Hr.
Qed.

(* ---------------------------------------------------------------- resets leave nothing behind *)

Lemma forallb_mul0 l : forallb (fun c => cell_eqb (Fin 0) c || cell_is_nan c) (map cell_mul0 l) = true.
Proof. induction l as [|x t IH]; [reflexivity|]. cbn [map forallb]. rewrite IH. destruct x; reflexivity. Qed.

Lemma forallb_zeros n : forallb (cell_eqb (Fin 0)) (repeat (Fin 0) n) = true.
Proof. induction n; simpl; auto. Qed.

Lemma reset_ok_none k o before : reset_ok k o before None = true.
Proof. destruct o as [a|a|[a| ]|a|a| | | |o'|o'|o'|[ | ]| ]; destruct k; reflexivity. Qed.

Lemma reset_ok_do_empty c o :
  (o = OEmpty \/ o = OUpdate None \/ o = ODEmpty true) ->
  reset_ok (c_kind c) o (c_content c) (c_content (do_empty tb c)) = true.
Proof.
  intros Ho. destruct (do_empty_cases c) as [-> | [Ek ->]].
  - cbn [c_content with_content]. apply reset_ok_none.
  - cbn [c_content with_content]. rewrite Ek.
    destruct Ho as [-> | [-> | ->]]; simpl; apply forallb_zeros.
Qed.

(* empty(), update(None) and detector.empty(reset): the state afterwards meets the reset clause of the
   specification (None; zeros for Pixel; zeros/NaN for the MKID phase), whatever the state before *)
Theorem reset_leaves_nothing c o :
  (o = OEmpty \/ o = OUpdate None \/ o = ODEmpty true) -> (o = OUpdate None -> c_kind c <> Photon) ->
  reset_ok (c_kind c) o (c_content c) (c_content (fst (step tb c o))) = true.
Proof.
  destruct empty_kinds as [E1 [E2 [E3 [E4 [D1 [D2 [D3 [D4 Em]]]]]]]].
  intros [-> | [-> | ->]] Hu.
  - cbn [step fst]. apply reset_ok_do_empty; auto.
  - cbn [step]. assert (Hk : is_photon (c_kind c) = false) by (destruct (c_kind c); try reflexivity; exfalso; apply Hu; reflexivity).
    rewrite Hk. destruct (upd_none tb (c_kind c)); cbn [fst].
    + apply reset_ok_do_empty; auto.
    + apply reset_ok_none.
  - cbn [step]. destruct (c_kind c) eqn:Ek.
    + rewrite D1. cbn [fst]. rewrite <- Ek. apply reset_ok_do_empty; auto.
    + destruct (d_empty tb Pixel) eqn:Ed; try congruence; cbn [fst]; rewrite <- Ek; apply reset_ok_do_empty; auto.
    + rewrite D2. cbn [fst]. rewrite <- Ek. apply reset_ok_do_empty; auto.
    + rewrite D3. cbn [fst]. rewrite <- Ek. apply reset_ok_do_empty; auto.
    + destruct (c_content c) as [cur|] eqn:Ec; [|simpl; rewrite Ec; reflexivity].
      rewrite Em. simpl. destruct (validate_base tb c _); simpl; apply forallb_mul0.
Qed.

End WithTables.
