(* C13: invariant of the container state machine over arbitrary operation sequences; a failed
   operation preserves the state; reads of empty containers raise.  Everything is parametrised by
   the source tables `tb`; the only fact used about them is the boolean `tables_ok tb = true`. *)
From Coq Require Import ZArith List Bool Arith Lia.
From PyxelV Require Import Model.Containers.
Import ListNotations.

(* ------------------------------------------------------------------------------------------ basics *)

Lemma dtype_eqb_eq a b : dtype_eqb a b = true -> a = b.
Proof. destruct a, b; cbv; intro H; try reflexivity; discriminate. Qed.

Lemma dtype_mem_In d l : dtype_mem d l = true -> In d l.
Proof.
  unfold dtype_mem. intro H. apply existsb_exists in H. destruct H as [x [Hin Hx]].
  apply dtype_eqb_eq in Hx. subst. exact Hin.
Qed.

Lemma shape_eqb_eq l1 l2 : shape_eqb l1 l2 = true -> l1 = l2.
Proof.
  unfold shape_eqb. revert l2. induction l1 as [|a t IH]; destruct l2 as [|b t2]; simpl; intro H;
    try reflexivity; try discriminate.
  apply andb_prop in H. destruct H as [H1 H2]. apply Nat.eqb_eq in H1. subst. f_equal. apply IH. exact H2.
Qed.

Lemma shape_eqb_refl l : shape_eqb l l = true.
Proof. unfold shape_eqb. induction l; simpl; [reflexivity|]. rewrite Nat.eqb_refl. exact IHl. Qed.

Lemma list_eqb_sym {A} (e : A -> A -> bool) :
  (forall x y, e x y = e y x) -> forall l1 l2, list_eqb e l1 l2 = list_eqb e l2 l1.
Proof.
  intros He. induction l1 as [|a t IH]; destruct l2 as [|b t2]; simpl; try reflexivity.
  rewrite He, IH. reflexivity.
Qed.

Lemma all_nonneg_clip l : all_nonneg (map cell_clip0 l) = true.
Proof.
  unfold all_nonneg. induction l as [|c t IH]; simpl; [reflexivity|]. rewrite IH, andb_true_r.
  unfold cell_clip0. destruct (cell_neg c) eqn:E; [reflexivity|]. rewrite E. reflexivity.
Qed.

Lemma all_nonneg_nth l i : all_nonneg l = true -> cell_neg (nth i l NaN) = false.
Proof.
  unfold all_nonneg. revert i. induction l as [|c t IH]; intros i H.
  - destruct i; reflexivity.
  - simpl in H. apply andb_prop in H. destruct H as [H1 H2]. destruct i; simpl.
    + apply negb_true_iff in H1. exact H1.
    + apply IH. exact H2.
Qed.

Lemma all_nonneg_bcast ds ss l : all_nonneg l = true -> all_nonneg (bcast_data ds ss l) = true.
Proof.
  intro H. unfold bcast_data, all_nonneg. apply forallb_forall. intros x Hx.
  apply in_map_iff in Hx. destruct Hx as [i [Hi _]]. subst x. rewrite all_nonneg_nth; auto.
Qed.

Lemma cell_add_nonneg a b : cell_neg a = false -> cell_neg b = false -> cell_neg (cell_add a b) = false.
Proof.
  destruct a, b; simpl; intros Ha Hb; try reflexivity; try discriminate.
  apply Z.ltb_ge in Ha. apply Z.ltb_ge in Hb. apply Z.ltb_ge. lia.
Qed.

Ltac ok_simpl :=
  unfold arr_ok, clip_arr, with_data; cbn [a_dt a_xr a_shape a_data is_photon ckind_eqb].

Definition float_dt (d : dtype) : bool := match d with F16 | F32 | F64 => true | _ => false end.

Lemma wrap_float d c : float_dt d = true -> wrap d c = c.
Proof. destruct d; simpl; intro H; try discriminate; destruct c; reflexivity. Qed.

Lemma all_nonneg_zip_add d a b :
  float_dt d = true -> all_nonneg a = true -> all_nonneg b = true -> all_nonneg (zip_add d a b) = true.
Proof.
  intros Hd. unfold all_nonneg. revert b. induction a as [|x ta IH]; intros b Ha Hb; simpl; [reflexivity|].
  destruct b as [|y tb0]; simpl; [reflexivity|].
  simpl in Ha, Hb. apply andb_prop in Ha. apply andb_prop in Hb. destruct Ha as [Ha1 Ha2]. destruct Hb as [Hb1 Hb2].
  rewrite wrap_float by exact Hd. rewrite cell_add_nonneg.
  - simpl. apply IH; assumption.
  - apply negb_true_iff. exact Ha1.
  - apply negb_true_iff. exact Hb1.
Qed.

Lemma spec_allowed_photon_float d : spec_allowed Photon d = true -> float_dt d = true.
Proof. destruct d; simpl; intro H; try discriminate; reflexivity. Qed.

Lemma is_xr_false a : is_xr a = false -> a_xr a = None.
Proof. unfold is_xr. destruct (a_xr a); [discriminate|reflexivity]. Qed.

(* ------------------------------------------------------------------------------------------ with tables *)

Section WithTables.
Variable tb : tables.
Hypothesis Htb : tables_ok tb = true.

Lemma tb_parts :
  type_lists_ok tb = true /\ guards_ok tb = true /\ pixel_zeros_ok tb = true /\ no_raw_base_setter tb = true.
Proof.
  pose proof Htb as H. unfold tables_ok in H.
  apply andb_prop in H. destruct H as [H H4]. apply andb_prop in H. destruct H as [H H3].
  apply andb_prop in H. destruct H as [H1 H2]. auto.
Qed.

Lemma tl_allowed k d : in_type_list tb k d = true -> spec_allowed k d = true.
Proof.
  destruct tb_parts as [H _]. unfold type_lists_ok in H. rewrite forallb_forall in H.
  intro Hd. apply dtype_mem_In in Hd.
  assert (Hk : In k [Photon; Pixel; Signal; Image; Phase]) by (destruct k; simpl; auto 10).
  specialize (H k Hk). rewrite forallb_forall in H. apply H. exact Hd.
Qed.

Lemma guards :
  (exists e, v_type tb = Some e) /\ (exists e, v_dtype tb = Some e) /\ (exists e, v_shape tb = Some e) /\
  (exists e, p_type tb = Some e) /\ (exists e, p_dtype tb = Some e) /\ (exists e, p_shape tb = Some e) /\
  p_clip tb = true /\
  (exists e, q_type tb = Some e) /\ (exists e, q_dtype tb = Some e) /\ (exists e, q_ndim tb = Some e) /\
  (exists e, q_dims tb = Some e) /\ (exists e, q_shape tb = Some e) /\ (exists e, q_coord tb = Some e) /\
  q_clip tb = true.
Proof.
  destruct tb_parts as [_ [H _]]. unfold guards_ok in H.
  repeat (apply andb_prop in H; destruct H as [H ?]).
  unfold guard_present in *.
  repeat split;
    match goal with
    | |- exists e, ?g = Some e => destruct g; [eexists; reflexivity | discriminate]
    | |- _ = true => assumption
    end.
Qed.

(* what a passed validation means *)
Lemma validate_base_none c a :
  validate_base tb c a = None ->
  a_xr a = None /\ in_type_list tb (c_kind c) (a_dt a) = true /\ a_shape a = [c_rows c; c_cols c].
Proof.
  destruct guards as [[e1 G1] [[e2 G2] [[e3 G3] _]]].
  unfold validate_base. rewrite G1, G2, G3. simpl.
  destruct (is_xr a) eqn:E1; [discriminate|].
  destruct (in_type_list tb (c_kind c) (a_dt a)) eqn:E2; simpl; [|discriminate].
  destruct (shape_eqb (a_shape a) [c_rows c; c_cols c]) eqn:E3; simpl; [|discriminate].
  intros _. split; [apply is_xr_false; exact E1|]. split; [reflexivity|]. apply shape_eqb_eq. exact E3.
Qed.

(* validation only looks at the container type, element type and shape *)
Lemma validate_base_with_data c a d : validate_base tb c (with_data a d) = validate_base tb c a.
Proof. reflexivity. Qed.

Lemma validate_base_with_content c x a : validate_base tb (with_content c x) a = validate_base tb c a.
Proof. reflexivity. Qed.

Lemma arr_ok_base_of_validate c a :
  is_photon (c_kind c) = false -> validate_base tb c a = None -> arr_ok (c_kind c) (c_rows c) (c_cols c) a = true.
Proof.
  intros Hk Hv. apply validate_base_none in Hv. destruct Hv as [Hx [Hd Hs]].
  unfold arr_ok. rewrite (tl_allowed _ _ Hd), Hx, Hs, shape_eqb_refl, Hk. reflexivity.
Qed.

(* for the ArrayBase classes arr_ok does not look at the data *)
Lemma arr_ok_base_with_data k r c a d :
  is_photon k = false -> arr_ok k r c (with_data a d) = arr_ok k r c a.
Proof. intro Hk. unfold arr_ok. simpl. rewrite Hk. reflexivity. Qed.

Lemma arr_ok_zeros r c : arr_ok Pixel r c (zeros_f64 r c) = true.
Proof. unfold arr_ok. cbn [a_dt a_xr a_shape zeros_f64 spec_allowed is_photon ckind_eqb]. rewrite shape_eqb_refl. reflexivity. Qed.

Lemma inv_with_content c x :
  inv_b (with_content c x) = match x with None => true | Some a => arr_ok (c_kind c) (c_rows c) (c_cols c) a end.
Proof. reflexivity. Qed.

(* ---------------------------------------------------------------- ArrayBase classes *)

Lemma base_set_inv c a : is_photon (c_kind c) = false -> Inv c -> Inv (fst (base_set tb c a)).
Proof.
  intros Hk Hc. unfold base_set. destruct (validate_base tb c a) eqn:E; simpl; [exact Hc|].
  unfold Inv. rewrite inv_with_content. apply arr_ok_base_of_validate; assumption.
Qed.

Lemma base_iadd_inv c a : is_photon (c_kind c) = false -> Inv c -> Inv (fst (base_iadd tb c a)).
Proof.
  intros Hk Hc. unfold base_iadd. destruct (c_content c) as [cur|] eqn:Ec.
  - destruct (is_xr a || is_xr cur); [exact Hc|].
    unfold np_iadd.
    destruct (negb (iadd_ok tb (a_dt cur) (a_dt a))); [exact Hc|].
    destruct (negb (broadcastable (a_shape a) (a_shape cur))); [exact Hc|].
    rewrite validate_base_with_data.
    assert (Hok : Inv (with_content c (Some (with_data cur
              (zip_add (a_dt cur) (a_data cur) (bcast_data (a_shape cur) (a_shape a) (a_data a))))))).
    { unfold Inv. rewrite inv_with_content, arr_ok_base_with_data by exact Hk.
      unfold Inv, inv_b in Hc. rewrite Ec in Hc. exact Hc. }
    destruct (validate_base tb c cur); exact Hok.
  - apply base_set_inv; assumption.
Qed.

Lemma read2d_arr_base o a : read2d o = RetArr a -> c_content o = Some a.
Proof.
  unfold read2d. destruct (c_content o) as [x|]; [|discriminate].
  destruct (is_photon (c_kind o) && is_xr x); [discriminate|]. intro H. injection H as ->. reflexivity.
Qed.

Lemma base_setter_not_raw k : is_photon k = false -> det_setter tb k <> SetterRaw.
Proof.
  destruct tb_parts as [_ [_ [_ H]]]. unfold no_raw_base_setter in H. rewrite forallb_forall in H.
  intros Hk E. assert (Hin : In k [Pixel; Signal; Image; Phase]) by (destruct k; simpl in *; auto; discriminate).
  specialize (H k Hin). rewrite E in H. discriminate.
Qed.

(* ---------------------------------------------------------------- Photon *)

Lemma photon_set2d_inv c a : c_kind c = Photon -> Inv c -> Inv (fst (photon_set2d tb c a)).
Proof.
  intros Hk Hc. destruct guards as [_ [_ [_ [[e1 G1] [[e2 G2] [[e3 G3] [Gc _]]]]]]].
  unfold photon_set2d. rewrite G1, G2, G3, Gc. simpl.
  destruct (is_xr a) eqn:E1; [exact Hc|].
  destruct (in_type_list tb Photon (a_dt a)) eqn:E2; simpl; [|exact Hc].
  destruct (p_ndim tb) as [e4|].
  - destruct (Nat.eqb (length (a_shape a)) 2); simpl; [|exact Hc].
    destruct (shape_eqb (a_shape a) [c_rows c; c_cols c]) eqn:E3; simpl; [|exact Hc].
    unfold Inv. rewrite inv_with_content, Hk. ok_simpl.
    rewrite (tl_allowed _ _ E2), (is_xr_false _ E1), E3, all_nonneg_clip. reflexivity.
  - destruct (negb (Nat.eqb (length (a_shape a)) 2)); simpl;
    (destruct (shape_eqb (a_shape a) [c_rows c; c_cols c]) eqn:E3; simpl; [|exact Hc];
     unfold Inv; rewrite inv_with_content, Hk; ok_simpl;
     rewrite (tl_allowed _ _ E2), (is_xr_false _ E1), E3, all_nonneg_clip; reflexivity).
Qed.

Lemma photon_set3d_inv c a : c_kind c = Photon -> Inv c -> Inv (fst (photon_set3d tb c a)).
Proof.
  intros Hk Hc.
  destruct guards as [_ [_ [_ [_ [_ [_ [_ [[e1 G1] [[e2 G2] [[e3 G3] [[e4 G4] [[e5 G5] [[e6 G6] Gc]]]]]]]]]]]]].
  unfold photon_set3d. rewrite G1, G2, G3, G4, G5, G6, Gc. simpl.
  destruct (is_xr a) eqn:E1; simpl; [|exact Hc].
  destruct (in_type_list tb Photon (a_dt a)) eqn:E2; simpl; [|exact Hc].
  destruct (Nat.eqb (length (a_shape a)) 3) eqn:E3; simpl; [|exact Hc].
  destruct (dims_wyx a) eqn:E4; simpl; [|exact Hc].
  destruct (yx_sizes_ok c a) eqn:E5; simpl; [|exact Hc].
  destruct (has_wl_coord a) eqn:E6; simpl; [|exact Hc].
  unfold Inv. rewrite inv_with_content, Hk. ok_simpl.
  rewrite (tl_allowed _ _ E2), all_nonneg_clip.
  unfold dims_wyx in E4. unfold has_wl_coord in E6. unfold yx_sizes_ok, dim_size in E5.
  destruct (a_xr a) as [xi|]; [|discriminate].
  rewrite E4. apply shape_eqb_eq in E4. rewrite E4 in E5. simpl in E5.
  destruct xi as [dims wl]. simpl in *. destruct wl as [l|]; [|discriminate].
  destruct (a_shape a) as [|w [|r' [|c' [|? ?]]]]; simpl in *; try discriminate.
  rewrite E5. reflexivity.
Qed.

Lemma np_iadd_photon_ok r c cur a cur' :
  arr_ok Photon r c cur = true -> all_nonneg (a_data a) = true -> np_iadd tb cur a = inl cur' ->
  arr_ok Photon r c cur' = true.
Proof.
  intros Hcur Ha. unfold np_iadd.
  destruct (negb (iadd_ok tb (a_dt cur) (a_dt a))); [discriminate|].
  destruct (negb (broadcastable (a_shape a) (a_shape cur))); [discriminate|].
  intro H. injection H as <-. unfold arr_ok, with_data in *.
  cbn [a_dt a_xr a_shape a_data is_photon ckind_eqb] in *.
  apply andb_prop in Hcur. destruct Hcur as [Hcur Hnn]. apply andb_prop in Hcur. destruct Hcur as [Hdt Hsh].
  rewrite Hdt, Hsh. cbn [andb].
  apply all_nonneg_zip_add; [apply spec_allowed_photon_float; exact Hdt | exact Hnn | apply all_nonneg_bcast; exact Ha].
Qed.

Lemma xr_iadd_photon_ok r c cur a cur' :
  arr_ok Photon r c cur = true -> all_nonneg (a_data a) = true -> xr_iadd tb cur a = Some (inl cur') ->
  arr_ok Photon r c cur' = true.
Proof.
  intros Hcur Ha. unfold xr_iadd.
  destruct (a_xr cur) as [xc|] eqn:Exc; [|discriminate]. destruct (a_xr a) as [xa|]; [|discriminate].
  destruct (dims_wyx cur && dims_wyx a && has_wl_coord cur && has_wl_coord a
            && Nat.eqb (length (a_shape cur)) 3 && Nat.eqb (length (a_shape a)) 3); [|discriminate].
  destruct (negb (opt_eqb zlist_eqb (x_wl xc) (x_wl xa))); [discriminate|].
  destruct (negb (shape_eqb (a_shape cur) (a_shape a))); [discriminate|].
  destruct (negb (iadd_ok tb (a_dt cur) (a_dt a))); [discriminate|].
  intro H. injection H as <-. unfold arr_ok, with_data in *.
  cbn [a_dt a_xr a_shape a_data is_photon ckind_eqb] in *. rewrite Exc in *.
  apply andb_prop in Hcur. destruct Hcur as [Hcur Hnn]. apply andb_prop in Hcur. destruct Hcur as [Hdt Hsh].
  rewrite Hdt, Hsh. cbn [andb].
  apply all_nonneg_zip_add; [apply spec_allowed_photon_float; exact Hdt | exact Hnn | exact Ha].
Qed.

Lemma photon_iadd_inv c a :
  c_kind c = Photon -> Inv c ->
  match c_content c with
  | None => arr_ok Photon (c_rows c) (c_cols c) a = true
  | Some _ => all_nonneg (a_data a) = true
  end ->
  Inv (fst (photon_iadd tb c a)).
Proof.
  intros Hk Hc Hop. unfold photon_iadd. destruct (c_content c) as [cur|] eqn:Ec.
  - assert (Hcur : arr_ok Photon (c_rows c) (c_cols c) cur = true).
    { unfold Inv, inv_b in Hc. rewrite Ec, Hk in Hc. exact Hc. }
    destruct (a_xr cur) eqn:Exc; destruct (a_xr a) eqn:Exa; try exact Hc.
    + destruct (xr_iadd tb cur a) as [[cur'|e]|] eqn:E; simpl; try exact Hc.
      unfold Inv. rewrite inv_with_content, Hk. eapply xr_iadd_photon_ok; eauto.
    + destruct (np_iadd tb cur a) as [cur'|e] eqn:E; simpl; try exact Hc.
      unfold Inv. rewrite inv_with_content, Hk. eapply np_iadd_photon_ok; eauto.
  - simpl. unfold Inv. rewrite inv_with_content, Hk. exact Hop.
Qed.

(* ---------------------------------------------------------------- one step, any sequence *)

Theorem step_inv c o : Inv c -> offending c o = false -> Inv (fst (step tb c o)).
Proof.
  intros Hc Hoff. destruct (is_photon (c_kind c)) eqn:Hk.
  - (* Photon *)
    assert (Hk' : c_kind c = Photon) by (destruct (c_kind c); simpl in Hk; try discriminate; reflexivity).
    destruct o; simpl; rewrite ?Hk; try exact Hc.
    + apply photon_set2d_inv; assumption.
    + apply photon_set3d_inv; assumption.
    + apply photon_iadd_inv; try assumption. unfold offending in Hoff. rewrite Hk' in Hoff.
      destruct (c_content c); apply negb_false_iff in Hoff; exact Hoff.
    + apply photon_iadd_inv; try assumption. unfold offending in Hoff. rewrite Hk' in Hoff.
      destruct (c_content c); apply negb_false_iff in Hoff; exact Hoff.
    + rewrite Hk'. reflexivity.
    + unfold det_assign. destruct (det_setter tb (c_kind c)); simpl.
      * destruct (read2d o) eqn:Er; simpl; try exact Hc. rewrite Hk. apply photon_set2d_inv; assumption.
      * unfold offending in Hoff. rewrite Hk' in Hoff. apply negb_false_iff in Hoff. exact Hoff.
      * exact Hc.
    + rewrite Hk'. reflexivity.
  - (* ArrayBase classes *)
    destruct o; simpl; rewrite ?Hk; try exact Hc.
    + apply base_set_inv; assumption.
    + destruct o as [a|]; [apply base_set_inv; assumption | reflexivity].
    + apply base_iadd_inv; assumption.
    + apply base_iadd_inv; assumption.
    + destruct (c_kind c) eqn:Ek; try reflexivity. simpl. unfold Inv. rewrite inv_with_content, Ek. apply arr_ok_zeros.
    + unfold det_assign. destruct (det_setter tb (c_kind c)) eqn:Es; simpl.
      * destruct (read2d o) eqn:Er; simpl; try exact Hc. rewrite Hk. apply base_set_inv; assumption.
      * exfalso. eapply base_setter_not_raw; eauto.
      * exact Hc.
    + destruct (c_kind c) eqn:Ek; try reflexivity; try discriminate.
      * destruct reset; simpl; [|exact Hc]. unfold Inv. rewrite inv_with_content, Ek. apply arr_ok_zeros.
      * destruct (c_content c) as [cur|] eqn:Ec; [|exact Hc]. destruct reset; [|exact Hc].
        rewrite validate_base_with_data.
        assert (Hok : Inv (with_content c (Some (with_data cur (map cell_mul0 (a_data cur)))))).
        { unfold Inv. rewrite inv_with_content, arr_ok_base_with_data by (rewrite Ek; reflexivity).
          unfold Inv, inv_b in Hc. rewrite Ec in Hc. exact Hc. }
        destruct (validate_base tb c cur); exact Hok.
Qed.

Theorem run_inv_partial ops : forall c, Inv c -> no_offending tb c ops = true -> Inv (run tb c ops).
Proof.
  induction ops as [|o t IH]; intros c Hc Hno; [exact Hc|].
  simpl in Hno. apply andb_prop in Hno. destruct Hno as [H1 H2]. apply negb_true_iff in H1.
  unfold run. simpl. apply IH; [apply step_inv; assumption | exact H2].
Qed.

(* every intermediate state, not only the last one *)
Theorem states_inv_partial ops : forall c, Inv c -> no_offending tb c ops = true -> Forall Inv (states tb c ops).
Proof.
  induction ops as [|o t IH]; intros c Hc Hno; [constructor|].
  simpl in Hno. apply andb_prop in Hno. destruct Hno as [H1 H2]. apply negb_true_iff in H1.
  simpl. constructor; [apply step_inv; assumption|]. apply IH; [apply step_inv; assumption | exact H2].
Qed.

Lemma step_kind c o : c_kind (fst (step tb c o)) = c_kind c /\ c_rows (fst (step tb c o)) = c_rows c
                      /\ c_cols (fst (step tb c o)) = c_cols c.
Proof.
  destruct o; simpl;
    unfold photon_set2d, photon_set3d, base_set, base_iadd, photon_iadd, det_assign, base_set, photon_set2d;
    repeat match goal with
           | |- context [match ?x with _ => _ end] => destruct x eqn:?
           | |- context [if ?x then _ else _] => destruct x eqn:?
           end; simpl; auto.
Qed.

Lemma offending_base c o : is_photon (c_kind c) = false -> offending c o = false.
Proof. intro Hk. unfold offending. destruct (c_kind c); simpl in Hk; try discriminate; destruct o; reflexivity. Qed.

Lemma no_offending_base ops : forall c, is_photon (c_kind c) = false -> no_offending tb c ops = true.
Proof.
  induction ops as [|o t IH]; intros c Hk; [reflexivity|]. simpl. rewrite offending_base by exact Hk. simpl.
  apply IH. destruct (step_kind c o) as [E _]. rewrite E. exact Hk.
Qed.

(* full invariant for pixel, signal, image, phase: ALL operation sequences *)
Theorem run_inv_base ops c : c_kind c <> Photon -> Inv c -> Forall Inv (states tb c ops) /\ Inv (run tb c ops).
Proof.
  intros Hk Hc.
  assert (Hp : is_photon (c_kind c) = false) by (destruct (c_kind c); try reflexivity; congruence).
  split; [apply states_inv_partial | apply run_inv_partial]; auto using no_offending_base.
Qed.

(* ---------------------------------------------------------------- a failed operation changes nothing *)

(* the stored array of an ArrayBase container passes its own validation (what `self.array += x` relies on) *)
Definition revalidates (c : container) : Prop :=
  is_photon (c_kind c) = false -> forall a, c_content c = Some a -> validate_base tb c a = None.

Lemma base_set_raise c a c' e : base_set tb c a = (c', Raise e) -> c' = c.
Proof. unfold base_set. destruct (validate_base tb c a); intro H; inversion H; reflexivity. Qed.

Lemma photon_set2d_raise c a c' e : photon_set2d tb c a = (c', Raise e) -> c' = c.
Proof. unfold photon_set2d. destruct (first_fail _); intro H; inversion H; reflexivity. Qed.

Lemma photon_set3d_raise c a c' e : photon_set3d tb c a = (c', Raise e) -> c' = c.
Proof. unfold photon_set3d. destruct (first_fail _); intro H; inversion H; reflexivity. Qed.

Lemma photon_iadd_raise c a c' e : photon_iadd tb c a = (c', Raise e) -> c' = c.
Proof.
  unfold photon_iadd. destruct (c_content c) as [cur|]; [|intro H; inversion H].
  destruct (a_xr cur); destruct (a_xr a); try (intro H; inversion H; reflexivity).
  - destruct (xr_iadd tb cur a) as [[?|?]|]; intro H; inversion H; reflexivity.
  - destruct (np_iadd tb cur a); intro H; inversion H; reflexivity.
Qed.

Lemma base_iadd_raise c a c' e :
  is_photon (c_kind c) = false -> revalidates c -> base_iadd tb c a = (c', Raise e) -> c' = c.
Proof.
  intros Hk Hr. unfold base_iadd. destruct (c_content c) as [cur|] eqn:Ec; [|apply base_set_raise].
  destruct (is_xr a || is_xr cur); [intro H; inversion H|].
  destruct (np_iadd tb cur a) as [cur'|e'] eqn:E; [|intro H; inversion H; reflexivity].
  assert (Hv : validate_base tb c cur' = None).
  { unfold np_iadd in E. destruct (negb (iadd_ok tb (a_dt cur) (a_dt a))); [discriminate|].
    destruct (negb (broadcastable (a_shape a) (a_shape cur))); [discriminate|]. injection E as <-.
    rewrite validate_base_with_data. apply Hr; assumption. }
  rewrite Hv. intro H; inversion H.
Qed.

Theorem step_raise_preserves c o c' e : revalidates c -> step tb c o = (c', Raise e) -> c' = c.
Proof.
  intros Hr. destruct (is_photon (c_kind c)) eqn:Hk.
  - destruct o as [a|a|oa|a|a| | | |o'|o'|o'|reset|]; simpl; rewrite ?Hk.
    + apply photon_set2d_raise.
    + apply photon_set3d_raise.
    + intro H; inversion H.
    + apply photon_iadd_raise.
    + apply photon_iadd_raise.
    + destruct (c_kind c); intro H; inversion H.
    + intro H; inversion H; reflexivity.
    + intro H; inversion H; reflexivity.
    + intro H; inversion H; reflexivity.
    + intro H; inversion H; reflexivity.
    + unfold det_assign. destruct (det_setter tb (c_kind c)); try (intro H; inversion H; reflexivity).
      destruct (read2d o'); try (intro H; inversion H; reflexivity). rewrite Hk. apply photon_set2d_raise.
    + destruct (c_kind c); try (intro H; inversion H; fail); simpl in Hk; discriminate.
    + intro H; inversion H; reflexivity.
  - destruct o as [a|a|oa|a|a| | | |o'|o'|o'|reset|]; simpl; rewrite ?Hk.
    + apply base_set_raise.
    + intro H; inversion H.
    + destruct oa; [apply base_set_raise | intro H; inversion H].
    + apply base_iadd_raise; assumption.
    + apply base_iadd_raise; assumption.
    + destruct (c_kind c); intro H; inversion H.
    + intro H; inversion H; reflexivity.
    + intro H; inversion H.
    + intro H; inversion H; reflexivity.
    + intro H; inversion H; reflexivity.
    + unfold det_assign. destruct (det_setter tb (c_kind c)); try (intro H; inversion H; reflexivity).
      destruct (read2d o'); try (intro H; inversion H; reflexivity). rewrite Hk. apply base_set_raise.
    + destruct (c_kind c) eqn:Ek; try (intro H; inversion H; fail).
      * destruct reset; intro H; inversion H.
      * destruct (c_content c) as [cur|] eqn:Ec; [|intro H; inversion H]. destruct reset; [|intro H; inversion H].
        assert (Hk2 : is_photon (c_kind c) = false) by (rewrite Ek; reflexivity).
        rewrite validate_base_with_data, (Hr Hk2 cur Ec). intro H; inversion H.
    + intro H; inversion H; reflexivity.
Qed.

Lemma validate_zeros c : c_kind c = Pixel -> validate_base tb c (zeros_f64 (c_rows c) (c_cols c)) = None.
Proof.
  intro Ek. destruct guards as [[e1 G1] [[e2 G2] [[e3 G3] _]]]. destruct tb_parts as [_ [_ [Hz _]]].
  unfold validate_base, in_type_list, is_xr. rewrite G1, G2, G3, Ek. unfold pixel_zeros_ok in Hz.
  cbn [zeros_f64 a_dt a_xr a_shape]. rewrite Hz, shape_eqb_refl. reflexivity.
Qed.

Lemma revalidates_set c a : validate_base tb c a = None -> revalidates (with_content c (Some a)).
Proof. intros Hv _ a' E. simpl in E. injection E as <-. exact Hv. Qed.

Lemma revalidates_none c : revalidates (with_content c None).
Proof. intros _ a E. discriminate. Qed.

Lemma base_set_revalidates c a : revalidates c -> revalidates (fst (base_set tb c a)).
Proof.
  intro Hr. unfold base_set. destruct (validate_base tb c a) eqn:E; simpl; [exact Hr|].
  apply revalidates_set. exact E.
Qed.

Lemma step_revalidates c o : revalidates c -> revalidates (fst (step tb c o)).
Proof.
  intro Hr. destruct (is_photon (c_kind c)) eqn:Hk.
  - intro Hk2. destruct (step_kind c o) as [E _]. rewrite E in Hk2. congruence.
  - destruct o; simpl; rewrite ?Hk; try exact Hr.
    + apply base_set_revalidates; exact Hr.
    + destruct o; [apply base_set_revalidates; exact Hr | apply revalidates_none].
    + unfold base_iadd. destruct (c_content c) as [cur|] eqn:Ec; [|apply base_set_revalidates; exact Hr].
      destruct (is_xr a || is_xr cur); [exact Hr|].
      destruct (np_iadd tb cur a) as [cur'|e'] eqn:E; [|exact Hr].
      assert (Hv : validate_base tb c cur' = None).
      { unfold np_iadd in E. destruct (negb (iadd_ok tb (a_dt cur) (a_dt a))); [discriminate|].
        destruct (negb (broadcastable (a_shape a) (a_shape cur))); [discriminate|]. injection E as <-.
        rewrite validate_base_with_data. apply Hr; assumption. }
      rewrite Hv. simpl. apply revalidates_set. exact Hv.
    + unfold base_iadd. destruct (c_content c) as [cur|] eqn:Ec; [|apply base_set_revalidates; exact Hr].
      destruct (is_xr a || is_xr cur); [exact Hr|].
      destruct (np_iadd tb cur a) as [cur'|e'] eqn:E; [|exact Hr].
      assert (Hv : validate_base tb c cur' = None).
      { unfold np_iadd in E. destruct (negb (iadd_ok tb (a_dt cur) (a_dt a))); [discriminate|].
        destruct (negb (broadcastable (a_shape a) (a_shape cur))); [discriminate|]. injection E as <-.
        rewrite validate_base_with_data. apply Hr; assumption. }
      rewrite Hv. simpl. apply revalidates_set. exact Hv.
    + destruct (c_kind c) eqn:Ek; try apply revalidates_none. simpl. apply revalidates_set. apply validate_zeros. exact Ek.
    + unfold det_assign. destruct (det_setter tb (c_kind c)) eqn:Es; simpl.
      * destruct (read2d o); simpl; try exact Hr. rewrite Hk. apply base_set_revalidates; exact Hr.
      * exfalso. eapply base_setter_not_raw; eauto.
      * exact Hr.
    + destruct (c_kind c) eqn:Ek; try apply revalidates_none; try discriminate.
      * destruct reset; simpl; [|exact Hr]. apply revalidates_set. apply validate_zeros. exact Ek.
      * destruct (c_content c) as [cur|] eqn:Ec; [|exact Hr]. destruct reset; [|exact Hr].
        assert (Hk2 : is_photon (c_kind c) = false) by (rewrite Ek; reflexivity).
        rewrite validate_base_with_data, (Hr Hk2 cur Ec). simpl. apply revalidates_set.
        rewrite validate_base_with_data. apply Hr; assumption.
Qed.

Lemma run_revalidates ops : forall c, revalidates c -> revalidates (run tb c ops).
Proof.
  induction ops as [|o t IH]; intros c Hr; [exact Hr|]. unfold run. simpl. apply IH. apply step_revalidates. exact Hr.
Qed.

(* after ANY history that started with an empty container, an operation that raises changes nothing *)
Theorem failed_op_preserves c0 ops o c' e :
  c_content c0 = None -> step tb (run tb c0 ops) o = (c', Raise e) -> c' = run tb c0 ops.
Proof.
  intros H0. apply step_raise_preserves. apply run_revalidates. intros _ a E. congruence.
Qed.

(* ---------------------------------------------------------------- reads *)

Theorem read_empty_raises c : c_content c = None -> step tb c ORead = (c, Raise ValueError).
Proof. intro H. simpl. unfold read2d. rewrite H. reflexivity. Qed.

Theorem read3d_empty_raises c :
  c_kind c = Photon -> c_content c = None -> step tb c ORead3D = (c, Raise ValueError).
Proof. intros Hk H. simpl. rewrite Hk. simpl. unfold read3d. rewrite H. reflexivity. Qed.

Theorem asarray_empty_raises c :
  c_content c = None -> exists e, step tb c OAsArray = (c, Raise e).
Proof.
  intro H. simpl. unfold asarray_res. rewrite H. destruct (is_photon (c_kind c)); eexists; reflexivity.
Qed.

(* a read never returns anything but the stored array, and never changes the state *)
Theorem read_returns_content c c' a :
  (step tb c ORead = (c', RetArr a) \/ step tb c ORead3D = (c', RetArr a) \/ step tb c OAsArray = (c', RetArr a)) ->
  c' = c /\ c_content c = Some a.
Proof.
  intros [H|[H|H]]; simpl in H.
  - inversion H. split; [reflexivity|]. apply read2d_arr_base. assumption.
  - destruct (is_photon (c_kind c)); [|discriminate]. injection H as Hc Hr. split; [symmetry; exact Hc|].
    unfold read3d in Hr. destruct (c_content c) as [x|]; [|discriminate]. destruct (is_xr x); [|discriminate].
    injection Hr as ->. reflexivity.
  - injection H as Hc Hr. split; [symmetry; exact Hc|]. unfold asarray_res in Hr.
    destruct (c_content c) as [x|]; [|destruct (is_photon (c_kind c)); discriminate].
    destruct (is_xr x); [discriminate|]. injection Hr as ->. reflexivity.
Qed.

End WithTables.
