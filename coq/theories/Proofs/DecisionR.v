(* C10_in_bounds over the reals: a decision vector inside the optimiser's box is converted to
   parameters inside the declared boundaries, log10 / 10** being the real functions. *)
From Coq Require Import List Bool Arith String Lia Reals Lra.
From PyxelV Require Import Model.Decision Proofs.Decision.
Import ListNotations.
Local Open Scope R_scope.

Definition log10 (x : R) : R := ln x / ln 10.
Definition pow10 (x : R) : R := exp (x * ln 10).
(* math.log10 raises ValueError on x <= 0 *)
Definition rpos (x : R) : bool := if Rlt_dec 0 x then true else false.

Lemma ln10_pos : 0 < ln 10.
Proof. rewrite <- ln_1. apply ln_increasing; lra. Qed.

Lemma pow10_log10 x : 0 < x -> pow10 (log10 x) = x.
Proof.
  intros H. unfold pow10, log10.
  replace (ln x / ln 10 * ln 10) with (ln x) by (field; apply Rgt_not_eq, ln10_pos).
  apply exp_ln. exact H.
Qed.

Lemma pow10_le x y : x <= y -> pow10 x <= pow10 y.
Proof.
  intros [H| ->].
  - left. apply exp_increasing. apply Rmult_lt_compat_r; [apply ln10_pos|exact H].
  - right. reflexivity.
Qed.

Definition inbox (d : R * R) (p : R) : Prop := fst d <= p <= snd d.
Definition positive_pair (d : R * R) : Prop := 0 < fst d /\ 0 < snd d.
Definition positive_decl (v : @var R) : Prop := Forall positive_pair (declared v).

Lemma Forall2_app_split {X Y} (P : X -> Y -> Prop) : forall (a b : list X) (c d : list Y),
  Forall2 P (a ++ b) (c ++ d) -> List.length a = List.length c -> Forall2 P a c /\ Forall2 P b d.
Proof.
  induction a as [|x a IH]; intros b [|y c] d H L; simpl in *; try discriminate.
  - split; [constructor|exact H].
  - inversion H; subst. destruct (IH b c d H5) as [H1 H2]; [lia|].
    split; [constructor; assumption|exact H2].
Qed.

Lemma Forall2_length' {X Y} (P : X -> Y -> Prop) (a : list X) (b : list Y) :
  Forall2 P a b -> List.length a = List.length b.
Proof. induction 1; simpl; congruence. Qed.

Lemma log_block : forall (d : list (R * R)) s,
  Forall positive_pair d ->
  Forall2 Rle (map log10 (map fst d)) s -> Forall2 Rle s (map log10 (map snd d)) ->
  Forall2 inbox d (map pow10 s).
Proof.
  induction d as [|[lo hi] d IH]; intros s P L U; simpl in *.
  - inversion L; subst. constructor.
  - inversion L as [|a1 b1 la1 lb1 Hlo Lr]; subst. inversion U as [|a2 b2 la2 lb2 Hhi Ur]; subst.
    inversion P as [|pp dd [Plo Phi] Pr]; subst. simpl in *. constructor.
    + unfold inbox. simpl.
      split; [rewrite <- (pow10_log10 lo Plo) | rewrite <- (pow10_log10 hi Phi)];
        apply pow10_le; assumption.
    + apply IH; assumption.
Qed.

Lemma lin_block : forall (d : list (R * R)) s,
  Forall2 Rle (map fst d) s -> Forall2 Rle s (map snd d) -> Forall2 inbox d s.
Proof.
  induction d as [|[lo hi] d IH]; intros s L U; simpl in *.
  - inversion L; subst. constructor.
  - inversion L as [|a1 b1 la1 lb1 Hlo Lr]; subst. inversion U as [|a2 b2 la2 lb2 Hhi Ur]; subst.
    constructor.
    + unfold inbox. simpl. split; assumption.
    + apply IH; assumption.
Qed.

Lemma var_in_bounds (v : @var R) s :
  (islog v = true -> positive_decl v) ->
  Forall2 Rle (var_lower log10 v) s -> Forall2 Rle s (var_upper log10 v) ->
  Forall2 inbox (declared v) (var_convert pow10 v s).
Proof.
  unfold var_lower, var_upper, var_convert, logs. destruct (islog v); intros P L U.
  - apply log_block; auto. apply P. reflexivity.
  - apply lin_block; assumption.
Qed.

Lemma sconvert_in_bounds (vs : list (@var R)) : forall x,
  Forall (fun v => List.length (declared v) = width v /\ (islog v = true -> positive_decl v)) vs ->
  Forall2 Rle (List.concat (map (var_lower log10) vs)) x ->
  Forall2 Rle x (List.concat (map (var_upper log10) vs)) ->
  Forall2 inbox (List.concat (map declared vs)) (sconvert pow10 vs x).
Proof.
  induction vs as [|v r IH]; intros x F L U; simpl in *.
  - inversion L; subst. constructor.
  - inversion F as [|? ? [Hw Hp] F']; subst.
    assert (Ll : List.length (var_lower log10 v) = width v).
    { unfold var_lower. rewrite logs_length, map_length. exact Hw. }
    assert (Lu : List.length (var_upper log10 v) = width v).
    { unfold var_upper. rewrite logs_length, map_length. exact Hw. }
    assert (Lx : (width v <= List.length x)%nat).
    { apply Forall2_length' in L. rewrite app_length in L. lia. }
    assert (Lf : List.length (firstn (width v) x) = width v) by (rewrite firstn_length; lia).
    rewrite <- (firstn_skipn (width v) x) in L, U.
    apply Forall2_app_split in L; [|lia]. apply Forall2_app_split in U; [|lia].
    destruct L as [L1 L2], U as [U1 U2].
    apply Forall2_app.
    + apply var_in_bounds; assumption.
    + apply IH; assumption.
Qed.

(* what the code itself enforces for a scalar logarithmic variable (math.log10 raises otherwise) *)
Lemma scalar_positive (v : @var R) :
  var_accept log10 rpos v = true -> shape v = None -> islog v = true -> positive_decl v.
Proof.
  unfold var_accept, var_bounds, positive_decl, declared, width.
  destruct v as [k sh lg b]; simpl. intros H -> ->. apply andb_prop in H. destruct H as [_ H].
  destruct b as [|lo hi|l]; try discriminate.
  destruct (rpos lo) eqn:E1; simpl in H; [|discriminate].
  destruct (rpos hi) eqn:E2; simpl in H; [|discriminate].
  unfold rpos in *. destruct (Rlt_dec 0 lo); [|discriminate]. destruct (Rlt_dec 0 hi); [|discriminate].
  simpl. constructor; [split; assumption|constructor].
Qed.

Lemma in_bounds (vs : list (@var R)) lb ub x :
  bounds_walk log10 rpos vs = Some (lb, ub) ->
  (forall v n, In v vs -> islog v = true -> shape v = Some n -> positive_decl v) ->
  Forall2 Rle lb x -> Forall2 Rle x ub ->
  Forall2 inbox (List.concat (map declared vs)) (convert_walk pow10 vs x).
Proof.
  intros B P L U. apply bounds_walk_accepts in B. destruct B as (-> & -> & F).
  assert (F' : Forall (fun v => List.length (declared v) = width v) vs).
  { eapply Forall_impl; [|exact F]. simpl. intros a [_ H]; exact H. }
  destruct (concat_lower_length log10 vs F') as [Ll _].
  assert (Lx : (total vs <= List.length x)%nat).
  { apply Forall2_length' in L. lia. }
  rewrite convert_walk_spec by exact Lx.
  apply sconvert_in_bounds; try assumption.
  rewrite Forall_forall in *. intros v Hv. destruct (F v Hv) as [Acc Len]. split; [exact Len|].
  intros Lg. destruct (shape v) as [n|] eqn:S.
  - eapply P; eauto.
  - apply scalar_positive; assumption.
Qed.

(* the component-wise reading: component j of the parameters lies between the declared pair j *)
Lemma in_bounds_nth (vs : list (@var R)) lb ub x j d p :
  bounds_walk log10 rpos vs = Some (lb, ub) ->
  (forall v n, In v vs -> islog v = true -> shape v = Some n -> positive_decl v) ->
  Forall2 Rle lb x -> Forall2 Rle x ub ->
  nth_error (List.concat (map declared vs)) j = Some d ->
  nth_error (convert_walk pow10 vs x) j = Some p ->
  fst d <= p <= snd d.
Proof.
  intros B P L U Hd Hp. pose proof (in_bounds vs lb ub x B P L U) as H.
  revert j Hd Hp. induction H as [|a b la lb' Hab _ IH]; intros [|j] Hd Hp; simpl in *; try discriminate.
  - inversion Hd; inversion Hp; subst. exact Hab.
  - eapply IH; eauto.
Qed.
