(* C16: the noisy successive-approximation converter with ARBITRARY per-bit perturbations of the
   reference voltage (whatever np.random.normal returns, NaN and infinities included): every code lies
   in 0 .. 2^bits - 1 and the unsigned accumulator never wraps; with all perturbations +0.0 it is the
   zero-noise converter of AdcSar0.v, hence the noise-free one. *)
From Coq Require Import ZArith List Bool Reals Lia.
From Flocq Require Import Core BinarySingleNaN.
From PyxelV Require Import Lib.B64 Model.Adc Proofs.AdcChain Proofs.AdcFloat Proofs.AdcRange Proofs.AdcSar Proofs.AdcSar0.
Import ListNotations.
Open Scope Z_scope.

Lemma sarp_loop_range (bits : Z) :
  forall (ps : list b64) (i : Z) (s : sar_state),
  0 <= i -> i + Z.of_nat (length ps) <= bits ->
  0 <= acc s -> acc s + 2 ^ (bits - i) <= 2 ^ bits ->
  let s' := sarp_loop bits ps i s in
  0 <= acc s' /\ acc s' + 2 ^ (bits - (i + Z.of_nat (length ps))) <= 2 ^ bits.
Proof.
  induction ps as [|p ps IH]; intros i s Hi Hn Ha Hub.
  - cbn [sarp_loop length]. rewrite Z.add_0_r. tauto.
  - cbn [sarp_loop]. cbn [length] in *.
    assert (Hi' : i < bits) by lia.
    assert (Hp := pow_split bits i Hi Hi').
    assert (Pp : 0 < 2 ^ (bits - (i + 1))) by (apply Z.pow_pos_nonneg; lia).
    replace (i + Z.of_nat (S (length ps))) with (i + 1 + Z.of_nat (length ps)) by lia.
    apply IH; try lia; unfold sarp_step, digital_value; cbn [acc];
      destruct (bge (rem s) (badd (ref s) p)); lia.
Qed.

Theorem sarp_acc_range (bits : Z) (vmax : b64) (ps : list b64) (x : b64) :
  1 <= bits -> 0 <= sarp_acc bits vmax ps x <= 2 ^ bits - 1.
Proof.
  intros Hb. unfold sarp_acc.
  set (qs := firstn (Z.to_nat bits) ps).
  assert (Hl : Z.of_nat (length qs) <= bits).
  { unfold qs. rewrite firstn_length. lia. }
  set (s0 := {| acc := 0; rem := x; ref := bdiv vmax (bofZ 2) |}).
  generalize (sarp_loop_range bits qs 0 s0 ltac:(lia) ltac:(lia) ltac:(cbn; lia)
                ltac:(cbn [acc s0]; rewrite Z.sub_0_r; lia)).
  cbv zeta. intros [H1 H2].
  assert (0 < 2 ^ (bits - (0 + Z.of_nat (length qs)))) by (apply Z.pow_pos_nonneg; lia).
  lia.
Qed.

Theorem sarp_range (w bits : Z) (vmax : b64) (ps : list b64) (x : b64) c :
  1 <= bits -> sarp_code w bits vmax ps x = Some c -> 0 <= c <= 2 ^ bits - 1.
Proof.
  intros Hb Hc. pose proof (sarp_acc_range bits vmax ps x Hb) as Ha.
  unfold sarp_code, cast_unsigned in Hc.
  destruct ((0 <=? sarp_acc bits vmax ps x) && (sarp_acc bits vmax ps x <? 2 ^ w)); [|discriminate].
  inversion Hc; subst; exact Ha.
Qed.

Theorem sarp_defined (w bits : Z) (vmax : b64) (ps : list b64) (x : b64) :
  1 <= bits -> bits <= w -> sarp_code w bits vmax ps x = Some (sarp_acc bits vmax ps x).
Proof.
  intros Hb Hw. pose proof (sarp_acc_range bits vmax ps x Hb) as Ha.
  unfold sarp_code, cast_unsigned.
  assert (2 ^ bits <= 2 ^ w) by (apply Z.pow_le_mono_r; lia).
  assert (((0 <=? sarp_acc bits vmax ps x) && (sarp_acc bits vmax ps x <? 2 ^ w)) = true) as ->.
  { apply andb_true_intro. split; [apply Z.leb_le|apply Z.ltb_lt]; lia. }
  reflexivity.
Qed.

(* all perturbations +0.0: the zero-noise converter *)
Lemma sarp_zero_loop (bits : Z) : forall (n : nat) (i : Z) (s : sar_state),
  sarp_loop bits (repeat pzero n) i s = sar0_loop bits n i s.
Proof. induction n as [|n IH]; intros i s; [reflexivity|]. cbn [repeat sarp_loop sar0_loop]. apply IH. Qed.

Theorem sarp_zero_eq_sar (w bits : Z) (vmax x : b64) :
  is_finite vmax = true -> (0 <= B2R vmax)%R ->
  sarp_code w bits vmax (repeat pzero (Z.to_nat bits)) x = sar_code w bits vmax x.
Proof.
  intros Fv Pv. rewrite <- (sar0_eq_sar w bits vmax x Fv Pv).
  unfold sarp_code, sarp_acc, sar0_code.
  rewrite firstn_all2 by (rewrite repeat_length; lia).
  rewrite sarp_zero_loop. reflexivity.
Qed.

(* whole frames: whatever the perturbations, the noisy model's image is defined and within bounds *)
Theorem sarp_frame_meets_spec (ch : dtype_chain) :
  chain_ok ch = true ->
  forall (bits : Z) (vmax : b64) (ps xs : list b64), 1 <= bits <= 64 -> bits <= Z.of_nat (length ps) ->
  exists w cs, sarp_frame ch bits vmax ps xs = Some (w, map Some cs) /\ noisy_spec bits xs w cs = true.
Proof.
  intros Hch bits vmax ps xs Hbits Hlen.
  destruct (chain_ok_sound ch Hch bits Hbits) as [w [Ew [Hlt _]]].
  destruct (chain_fits ch Hch bits w Hbits Ew) as [Hw _].
  exists w, (map (sarp_acc bits vmax ps) xs). split.
  - unfold sarp_frame. rewrite Ew.
    assert ((Z.of_nat (length ps) <? bits) = false) as -> by (apply Z.ltb_ge; lia).
    f_equal. f_equal. rewrite map_map. apply map_ext. intros x. apply sarp_defined; lia.
  - unfold noisy_spec. repeat (apply andb_true_intro; split).
    + apply Z.ltb_lt. exact Hlt.
    + rewrite map_length. apply Nat.eqb_refl.
    + apply forallb_forall. intros c Hc. apply in_map_iff in Hc. destruct Hc as [x [<- _]].
      pose proof (sarp_acc_range bits vmax ps x ltac:(lia)). unfold in_code_range.
      apply andb_true_intro. split; apply Z.leb_le; lia.
Qed.
