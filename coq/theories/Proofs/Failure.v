(* C09 — proofs about Model/Failure.v: the nested drivers (group / processor / exposure /
   sequential observation) refine the flat executor over the schedule of calls, and the flat executor
   stops at the first faulting call with the exception of that call.  All by structural induction;
   no bound on the number of runs, steps, groups or models. *)
From Coq Require Import List String Ascii Bool Arith Lia.
From PyxelV Require Import Model.Failure.
Import ListNotations.
Open Scope list_scope.

(* ------------------------------------------------------------------------------------------ *)
(* strings *)

Lemma prefixb_app : forall s b, prefixb s (s ++ b)%string = true.
Proof.
  induction s as [|a s IH]; intros b; simpl; [reflexivity|].
  rewrite Ascii.eqb_refl. simpl. apply IH.
Qed.

Lemma substrb_prefix : forall s t, prefixb s t = true -> substrb s t = true.
Proof. intros s t H. destruct t; simpl in *; rewrite H; reflexivity. Qed.

Lemma substrb_app : forall a s b, substrb s (a ++ s ++ b)%string = true.
Proof.
  induction a as [|c a IH]; intros s b.
  - simpl. apply substrb_prefix, prefixb_app.
  - change ((String c a ++ s ++ b)%string) with (String c (a ++ s ++ b)%string).
    simpl. rewrite IH. apply orb_true_r.
Qed.

Lemma substrb_app_r : forall a s, substrb s (a ++ s)%string = true.
Proof.
  intros a s. replace s with (s ++ "")%string at 2.
  - apply substrb_app.
  - induction s; simpl; congruence.
Qed.

Lemma substrb_refl : forall s, substrb s s = true.
Proof. intros s. apply (substrb_app_r ""%string s). Qed.

Lemma string_app_assoc : forall a b c : string, ((a ++ b) ++ c = a ++ (b ++ c))%string.
Proof. induction a; intros; simpl; congruence. Qed.

Lemma substrb_app_l : forall s a b, substrb s a = true -> substrb s (a ++ b)%string = true.
Proof.
  (* prefix case first *)
  assert (P : forall s a b, prefixb s a = true -> prefixb s (a ++ b)%string = true).
  { induction s as [|c s IH]; intros a b H; simpl in *; [reflexivity|].
    destruct a as [|d a]; [discriminate|]. simpl.
    apply andb_true_iff in H as [H1 H2]. rewrite H1. simpl. apply IH, H2. }
  intros s a. induction a as [|d a IH]; intros b H.
  - simpl in H. rewrite orb_false_r in H. apply substrb_prefix. apply (P s ""%string b H).
  - simpl in H. apply orb_true_iff in H as [H|H].
    + apply substrb_prefix. apply (P s (String d a) b H).
    + change ((String d a ++ b)%string) with (String d (a ++ b)%string). simpl.
      rewrite (IH b H). apply orb_true_r.
Qed.

Lemma substrb_app_skip : forall s a b, substrb s b = true -> substrb s (a ++ b)%string = true.
Proof.
  intros s a. induction a as [|d a IH]; intros b H; [exact H|].
  change ((String d a ++ b)%string) with (String d (a ++ b)%string). simpl.
  rewrite (IH b H). apply orb_true_r.
Qed.

(* the note written by ModelGroup.run names the group and the model *)
Lemma note_mentions_group : forall g m f, substrb g (note_text g m f) = true.
Proof. intros. unfold note_text. apply substrb_app. Qed.

Lemma note_mentions_model : forall g m f, substrb m (note_text g m f) = true.
Proof.
  intros. unfold note_text.
  apply substrb_app_skip. apply substrb_app_skip. apply substrb_app.
Qed.

Lemma param_note_mentions_key : forall kv, substrb (fst kv) (param_note kv) = true.
Proof. intros. unfold param_note. apply substrb_app. Qed.

Lemma param_note_mentions_value : forall kv, substrb (snd kv) (param_note kv) = true.
Proof.
  intros. unfold param_note. apply substrb_app_skip. apply substrb_app_skip.
  apply substrb_app_skip. apply substrb_refl.
Qed.

(* ------------------------------------------------------------------------------------------ *)
(* `except Exception as exc: add_note...; raise` *)

Lemma annotate_cls : forall e ns, cls (annotate e ns) = cls e.
Proof. intros e ns. unfold annotate. destruct (is_exception (cls e)); reflexivity. Qed.

Lemma annotate_msg : forall e ns, msg (annotate e ns) = msg e.
Proof. intros e ns. unfold annotate. destruct (is_exception (cls e)); reflexivity. Qed.

Lemma annotate_notes_exc : forall e ns, is_exception (cls e) = true -> notes (annotate e ns) = notes e ++ ns.
Proof. intros e ns H. unfold annotate. rewrite H. reflexivity. Qed.

Lemma annotate_base : forall e ns, is_exception (cls e) = false -> annotate e ns = e.
Proof. intros e ns H. unfold annotate. rewrite H. reflexivity. Qed.

Lemma exn_of_fault_cls : forall fe c p, cls (exn_of_fault fe c p) = c.
Proof. intros. unfold exn_of_fault. rewrite annotate_cls. reflexivity. Qed.

Lemma exn_of_fault_msg : forall fe c p, msg (exn_of_fault fe c p) = py_str c p.
Proof. intros. unfold exn_of_fault. rewrite annotate_msg. reflexivity. Qed.

Lemma exn_of_fault_notes : forall fe c p, is_exception c = true ->
  notes (exn_of_fault fe c p) = [note_of_event fe].
Proof. intros. unfold exn_of_fault. rewrite annotate_notes_exc by assumption. reflexivity. Qed.

Lemma exn_of_fault_base : forall fe c p, is_exception c = false -> exn_of_fault fe c p = raise_of c p.
Proof. intros. unfold exn_of_fault. apply annotate_base. assumption. Qed.

(* ------------------------------------------------------------------------------------------ *)
(* the flat executor *)

Section Flat.
  Variable beh : behaviour.

  Lemma flat_exec_app : forall a b,
    flat_exec beh (a ++ b) =
    match flat_exec beh a with
    | (Raise e, tr) => (Raise e, tr)
    | (Ok _, tr) => let '(o, tr') := flat_exec beh b in (o, tr ++ tr')
    end.
  Proof.
    induction a as [|ev a IH]; intros b; simpl.
    - destruct (flat_exec beh b); reflexivity.
    - destruct (ev_fault beh ev) as [[c p]|]; [reflexivity|].
      rewrite IH. destruct (flat_exec beh a) as [[u|e] tr]; [|reflexivity].
      destruct (flat_exec beh b); reflexivity.
  Qed.

  Lemma group_run_flat : forall r s g ms,
    group_run beh r s g ms = flat_exec beh (sched_group r s g ms).
  Proof.
    intros r s g. induction ms as [|m ms IH]; [reflexivity|].
    unfold sched_group in *. simpl. destruct (m_enabled m); [|exact IH].
    simpl. unfold call_model, ev_fault. simpl.
    destruct (beh r s (m_key m)) as [[c p]|]; [reflexivity|].
    rewrite IH. reflexivity.
  Qed.

  Lemma processor_run_flat : forall r s gs,
    processor_run beh r s gs = flat_exec beh (sched_proc r s gs).
  Proof.
    intros r s. induction gs as [|g gs IH]; [reflexivity|].
    unfold sched_proc in *. simpl. rewrite flat_exec_app, group_run_flat.
    destruct (flat_exec beh (sched_group r s (g_name g) (g_models g))) as [[u|e] tr]; [|reflexivity].
    rewrite IH. reflexivity.
  Qed.

  Lemma exposure_steps_flat : forall r pl steps,
    exposure_steps beh r pl steps =
    (match fst (flat_exec beh (sched_steps r pl steps)) with Ok _ => Ok steps | Raise e => Raise e end,
     snd (flat_exec beh (sched_steps r pl steps))).
  Proof.
    intros r pl. induction steps as [|s ss IH]; [reflexivity|].
    unfold sched_steps in *. simpl. rewrite flat_exec_app, processor_run_flat.
    destruct (flat_exec beh (sched_proc r s pl)) as [[u|e] tr]; [|reflexivity].
    rewrite IH.
    destruct (flat_exec beh (flat_map (fun s0 => sched_proc r s0 pl) ss)) as [[u'|e'] tr']; reflexivity.
  Qed.

  (* the flat executor stops at the first fault *)
  Lemma flat_exec_first_fault : forall evs,
    flat_exec beh evs =
    match first_fault beh evs with
    | None => (Ok tt, evs)
    | Some (pre, fe, c, p) => (Raise (annotate (raise_of c p) [note_of_event fe]), pre ++ [fe])
    end.
  Proof.
    induction evs as [|ev evs IH]; [reflexivity|]. simpl.
    destruct (ev_fault beh ev) as [[c p]|]; [reflexivity|].
    rewrite IH. destruct (first_fault beh evs) as [[[[pre fe] c] p]|]; reflexivity.
  Qed.

  Lemma first_fault_none : forall evs,
    first_fault beh evs = None <-> (forall ev, In ev evs -> ev_fault beh ev = None).
  Proof.
    induction evs as [|ev evs IH]; simpl.
    - split; [intros _ ? []|reflexivity].
    - destruct (ev_fault beh ev) as [[c p]|] eqn:E.
      + split; [discriminate|]. intros H. specialize (H ev (or_introl eq_refl)). congruence.
      + destruct (first_fault beh evs) as [[[[pre fe] c] p]|].
        * split; [discriminate|]. intros H.
          assert (Some (pre, fe, c, p) = None) by (apply IH; intros; apply H; right; assumption).
          discriminate.
        * split; [|reflexivity]. intros _ e [<-|Hin]; [exact E|]. apply IH; auto.
  Qed.

  Lemma first_fault_some : forall evs pre fe c p,
    first_fault beh evs = Some (pre, fe, c, p) <->
    (exists post, evs = pre ++ fe :: post) /\ (forall ev, In ev pre -> ev_fault beh ev = None)
    /\ ev_fault beh fe = Some (c, p).
  Proof.
    induction evs as [|ev evs IH]; intros pre fe c p; simpl.
    - split; [discriminate|]. intros [[post H] _]. destruct pre; discriminate.
    - destruct (ev_fault beh ev) as [[c0 p0]|] eqn:E.
      + split.
        * intros H. inversion H; subst. split; [exists evs; reflexivity|]. split; [intros ? []|exact E].
        * intros [[post H] [Hpre Hfe]]. destruct pre as [|x pre].
          -- simpl in H. inversion H; subst. congruence.
          -- simpl in H. inversion H; subst. specialize (Hpre x (or_introl eq_refl)). congruence.
      + destruct (first_fault beh evs) as [[[[pre' fe'] c'] p']|] eqn:F.
        * split.
          -- intros H. inversion H; subst.
             destruct (proj1 (IH pre' fe c p) eq_refl) as [[post Hs] [Hp Hf]].
             split; [exists post; simpl; congruence|]. split; [|exact Hf].
             intros e [<-|Hin]; [exact E|auto].
          -- intros [[post H] [Hpre Hfe]]. destruct pre as [|x pre].
             ++ simpl in H. inversion H; subst. congruence.
             ++ simpl in H. inversion H; subst.
                assert (Some (pre', fe', c', p') = Some (pre, fe, c, p)) as Q.
                { apply IH. split; [exists post; reflexivity|]. split; [|exact Hfe].
                  intros; apply Hpre; right; assumption. }
                inversion Q; subst. reflexivity.
        * split; [discriminate|]. intros [[post H] [Hpre Hfe]]. destruct pre as [|x pre].
          -- simpl in H. inversion H; subst. congruence.
          -- simpl in H. inversion H; subst.
             assert (None = Some (pre, fe, c, p)) as Q.
             { apply IH. split; [exists post; reflexivity|]. split; [|exact Hfe].
               intros; apply Hpre; right; assumption. }
             discriminate.
  Qed.

  Lemma first_fault_app : forall a b,
    first_fault beh (a ++ b) =
    match first_fault beh a with
    | Some x => Some x
    | None => match first_fault beh b with
              | Some (pre, fe, c, p) => Some (a ++ pre, fe, c, p)
              | None => None
              end
    end.
  Proof.
    induction a as [|ev a IH]; intros b; simpl.
    - destruct (first_fault beh b) as [[[[pre fe] c] p]|]; reflexivity.
    - destruct (ev_fault beh ev) as [[c p]|]; [reflexivity|]. rewrite IH.
      destruct (first_fault beh a) as [[[[pre fe] c] p]|]; [reflexivity|].
      destruct (first_fault beh b) as [[[[pre fe] c] p]|]; reflexivity.
  Qed.

  (* ---------------------------------------------------------------------------------------- *)
  (* pipeline and exposure *)

  Definition exn_of (fe : event) (c : ecls) (p : string) : exn := exn_of_fault fe c p.

  Lemma processor_run_spec : forall r s pl,
    processor_run beh r s pl =
    match first_fault beh (sched_proc r s pl) with
    | None => (Ok tt, sched_proc r s pl)
    | Some (pre, fe, c, p) => (Raise (exn_of fe c p), pre ++ [fe])
    end.
  Proof. intros. rewrite processor_run_flat. apply flat_exec_first_fault. Qed.

  Lemma exposure_spec : forall r pl n,
    exposure beh r pl n =
    match first_fault beh (sched_expo r pl n) with
    | None => (Ok (seq 0 n), sched_expo r pl n)
    | Some (pre, fe, c, p) => (Raise (exn_of fe c p), pre ++ [fe])
    end.
  Proof.
    intros. unfold exposure, sched_expo. rewrite exposure_steps_flat, flat_exec_first_fault.
    destruct (first_fault beh (sched_steps r pl (seq 0 n))) as [[[[pre fe] c] p]|]; reflexivity.
  Qed.

  (* ---------------------------------------------------------------------------------------- *)
  (* sequential observation *)

  Definition obs_exn (r : run) (fe : event) (c : ecls) (p : string) : exn :=
    annotate (exn_of fe c p) (obs_header :: map param_note (r_params r)).

  Lemma obs_seq_ok : forall pl n runs,
    first_fault beh (sched_obs pl n runs) = None ->
    obs_seq beh pl n runs = (Ok (map (fun r => (r_id r, seq 0 n)) runs), sched_obs pl n runs).
  Proof.
    intros pl n. induction runs as [|r rs IH]; intros H; [reflexivity|].
    unfold sched_obs in *. simpl in *. rewrite first_fault_app in H.
    rewrite exposure_spec.
    destruct (first_fault beh (sched_expo (r_id r) pl n)) as [x|]; [discriminate|].
    destruct (first_fault beh (flat_map (fun r0 => sched_expo (r_id r0) pl n) rs)) as [[[[pre fe] c] p]|] eqn:F;
      [discriminate|].
    rewrite IH by reflexivity. reflexivity.
  Qed.

  Lemma obs_seq_raise : forall pl n rpre r rpost pre fe c p,
    first_fault beh (sched_obs pl n rpre) = None ->
    first_fault beh (sched_expo (r_id r) pl n) = Some (pre, fe, c, p) ->
    obs_seq beh pl n (rpre ++ r :: rpost) =
    (Raise (obs_exn r fe c p), sched_obs pl n rpre ++ pre ++ [fe]).
  Proof.
    intros pl n. induction rpre as [|r0 rs IH]; intros r rpost pre fe c p Hn Hf.
    - simpl. rewrite exposure_spec, Hf. reflexivity.
    - unfold sched_obs in *. simpl in *. rewrite first_fault_app in Hn.
      rewrite exposure_spec.
      destruct (first_fault beh (sched_expo (r_id r0) pl n)) as [x|]; [discriminate|].
      destruct (first_fault beh (flat_map (fun r1 => sched_expo (r_id r1) pl n) rs)) as [[[[pre' fe'] c'] p']|] eqn:F;
        [discriminate|].
      rewrite (IH r rpost pre fe c p eq_refl Hf). simpl. rewrite <- app_assoc. reflexivity.
  Qed.

  (* where the first fault of the whole observation sits *)
  Lemma sched_obs_first_fault : forall pl n runs pre fe c p,
    first_fault beh (sched_obs pl n runs) = Some (pre, fe, c, p) ->
    exists rpre r rpost pre',
      runs = rpre ++ r :: rpost /\ first_fault beh (sched_obs pl n rpre) = None /\
      first_fault beh (sched_expo (r_id r) pl n) = Some (pre', fe, c, p) /\
      pre = sched_obs pl n rpre ++ pre'.
  Proof.
    intros pl n. induction runs as [|r rs IH]; intros pre fe c p H; [discriminate|].
    unfold sched_obs in *. simpl in H. rewrite first_fault_app in H.
    destruct (first_fault beh (sched_expo (r_id r) pl n)) as [[[[pre0 fe0] c0] p0]|] eqn:E.
    - inversion H; subst. exists [], r, rs, pre. repeat split; auto.
    - destruct (first_fault beh (flat_map (fun r0 => sched_expo (r_id r0) pl n) rs)) as [[[[pre1 fe1] c1] p1]|] eqn:F;
        [|discriminate].
      inversion H; subst.
      destruct (IH pre1 fe c p eq_refl) as (rpre & r' & rpost & pre' & -> & Hn & Hf & ->).
      exists (r :: rpre), r', rpost, pre'. repeat split; auto.
      + simpl. rewrite first_fault_app, E, Hn. reflexivity.
      + simpl. rewrite app_assoc. reflexivity.
  Qed.

  Lemma sched_expo_run : forall r pl n ev, In ev (sched_expo r pl n) -> ev_run ev = r.
  Proof.
    intros r pl n ev H. unfold sched_expo, sched_steps in H.
    apply in_flat_map in H as (s & _ & H). unfold sched_proc in H.
    apply in_flat_map in H as (g & _ & H). unfold sched_group in H.
    apply in_map_iff in H as (m & <- & _). reflexivity.
  Qed.

  Theorem obs_seq_fault : forall pl n runs pre fe c p,
    first_fault beh (sched_obs pl n runs) = Some (pre, fe, c, p) ->
    exists rpre r rpost,
      runs = rpre ++ r :: rpost /\ r_id r = ev_run fe /\
      first_fault beh (sched_obs pl n rpre) = None /\
      obs_seq beh pl n runs = (Raise (obs_exn r fe c p), pre ++ [fe]).
  Proof.
    intros pl n runs pre fe c p H.
    destruct (sched_obs_first_fault _ _ _ _ _ _ _ H) as (rpre & r & rpost & pre' & -> & Hn & Hf & ->).
    exists rpre, r, rpost. repeat split; auto.
    - apply first_fault_some in Hf as [[post Hs] _]. symmetry. apply (sched_expo_run _ pl n).
      rewrite Hs. apply in_or_app. right. left. reflexivity.
    - rewrite (obs_seq_raise pl n rpre r rpost pre' fe c p Hn Hf). rewrite <- app_assoc. reflexivity.
  Qed.

  (* ---------------------------------------------------------------------------------------- *)
  (* parallel observation and calibration: `compute` (dask) and `transport` (pygmo) are external *)

  Lemma cell_spec : forall pl n r,
    cell beh pl n r =
    match first_fault beh (sched_expo (r_id r) pl n) with
    | None => Ok (seq 0 n)
    | Some (pre, fe, c, p) => Raise (exn_of fe c p)
    end.
  Proof.
    intros. unfold cell. rewrite exposure_spec.
    destruct (first_fault beh (sched_expo (r_id r) pl n)) as [[[[pre fe] c] p]|]; reflexivity.
  Qed.

  Lemma fitness_spec : forall pl n cand,
    fitness beh pl n cand =
    match first_fault beh (sched_expo cand pl n) with
    | None => Ok (seq 0 n)
    | Some (pre, fe, c, p) => Raise (annotate (exn_of fe c p) [fit_note])
    end.
  Proof.
    intros. unfold fitness. rewrite exposure_spec.
    destruct (first_fault beh (sched_expo cand pl n)) as [[[[pre fe] c] p]|]; reflexivity.
  Qed.

  Section External.
    Variable compute : list (res (list nat)) -> res (list (list nat)).
    (* "compute forces every chunk": all cells fine -> their data in order; otherwise the exception
       of one of the failing cells surfaces (which one is the scheduler's choice) *)
    Hypothesis compute_ok : forall ds, compute (map Ok ds) = Ok ds.
    Hypothesis compute_raise : forall ts e0, In (Raise e0) ts -> exists e, In (Raise e) ts /\ compute ts = Raise e.

    Lemma cells_all_ok : forall pl n runs,
      (forall r, In r runs -> first_fault beh (sched_expo (r_id r) pl n) = None) ->
      map (cell beh pl n) runs = map Ok (map (fun _ => seq 0 n) runs).
    Proof.
      intros pl n. induction runs as [|r rs IH]; intros H; [reflexivity|]. simpl.
      rewrite cell_spec, (H r (or_introl eq_refl)). f_equal. apply IH. intros; apply H; right; assumption.
    Qed.

    Theorem obs_par_ok : forall pl n runs,
      (forall r, In r runs -> first_fault beh (sched_expo (r_id r) pl n) = None) ->
      obs_par beh compute pl n runs = ParLoaded (Ok (map (fun _ => seq 0 n) runs)).
    Proof.
      intros pl n runs H. unfold obs_par. destruct runs as [|r0 rs].
      - change (@nil (list nat)) with (map (fun _ : run => seq 0 n) []). reflexivity.
      - rewrite cell_spec, (H r0 (or_introl eq_refl)). rewrite cells_all_ok by assumption.
        rewrite compute_ok. reflexivity.
    Qed.

    Theorem obs_par_surfaces : forall pl n runs r,
      In r runs -> first_fault beh (sched_expo (r_id r) pl n) <> None ->
      exists r' pre fe c p,
        In r' runs /\ first_fault beh (sched_expo (r_id r') pl n) = Some (pre, fe, c, p) /\
        (obs_par beh compute pl n runs = ParBuildRaise (exn_of fe c p) \/
         obs_par beh compute pl n runs = ParLoaded (Raise (exn_of fe c p))).
    Proof.
      intros pl n runs r Hin Hf. unfold obs_par. destruct runs as [|r0 rs]; [destruct Hin|].
      rewrite cell_spec.
      destruct (first_fault beh (sched_expo (r_id r0) pl n)) as [[[[pre0 fe0] c0] p0]|] eqn:E0.
      - exists r0, pre0, fe0, c0, p0. split; [left; reflexivity|]. split; [exact E0|]. left. reflexivity.
      - assert (exists e0, In (Raise e0) (map (cell beh pl n) (r0 :: rs))) as [e0 He0].
        { destruct (first_fault beh (sched_expo (r_id r) pl n)) as [[[[pre fe] c] p]|] eqn:E; [|congruence].
          exists (exn_of fe c p). apply in_map_iff. exists r. split; [|exact Hin].
          rewrite cell_spec, E. reflexivity. }
        destruct (compute_raise _ _ He0) as (e & Hine & Hc).
        apply in_map_iff in Hine as (r' & Hr' & Hin').
        rewrite cell_spec in Hr'.
        destruct (first_fault beh (sched_expo (r_id r') pl n)) as [[[[pre fe] c] p]|] eqn:E'; [|discriminate].
        inversion Hr'; subst. exists r', pre, fe, c, p. split; [exact Hin'|]. split; [exact E'|].
        right. rewrite Hc. reflexivity.
    Qed.

    Variable transport : exn -> exn.
    (* pygmo re-raises the island's failure as a new exception whose text contains the original
       traceback, i.e. str(exc) and its notes *)
    Hypothesis transport_msg : forall e, substrb (msg e) (msg (transport e)) = true.
    Hypothesis transport_notes : forall e nt, In nt (notes e) -> substrb nt (msg (transport e)) = true.

    Lemma fitness_all_ok : forall pl n cs,
      (forall cand, In cand cs -> first_fault beh (sched_expo cand pl n) = None) ->
      map (fitness beh pl n) cs = map Ok (map (fun _ => seq 0 n) cs).
    Proof.
      intros pl n. induction cs as [|x cs IH]; intros H; [reflexivity|]. simpl.
      rewrite fitness_spec, (H x (or_introl eq_refl)). f_equal. apply IH. intros; apply H; right; assumption.
    Qed.

    Lemma fitness_some_raise : forall pl n cs cand,
      In cand cs -> first_fault beh (sched_expo cand pl n) <> None ->
      exists cand' pre fe c p,
        In cand' cs /\ first_fault beh (sched_expo cand' pl n) = Some (pre, fe, c, p) /\
        compute (map (fitness beh pl n) cs) = Raise (annotate (exn_of fe c p) [fit_note]).
    Proof.
      intros pl n cs cand Hin Hf.
      assert (exists e0, In (Raise e0) (map (fitness beh pl n) cs)) as [e0 He0].
      { destruct (first_fault beh (sched_expo cand pl n)) as [[[[pre fe] c] p]|] eqn:E; [|congruence].
        exists (annotate (exn_of fe c p) [fit_note]). apply in_map_iff. exists cand. split; [|exact Hin].
        rewrite fitness_spec, E. reflexivity. }
      destruct (compute_raise _ _ He0) as (e & Hine & Hc).
      apply in_map_iff in Hine as (c' & Hr' & Hin').
      rewrite fitness_spec in Hr'.
      destruct (first_fault beh (sched_expo c' pl n)) as [[[[pre fe] c] p]|] eqn:E'; [|discriminate].
      inversion Hr'; subst. exists c', pre, fe, c, p. auto.
    Qed.

    Definition all_fine pl n (cs : list nat) : Prop :=
      forall cand, In cand cs -> first_fault beh (sched_expo cand pl n) = None.

    Lemma all_fine_dec : forall pl n cs, all_fine pl n cs \/
      exists cand, In cand cs /\ first_fault beh (sched_expo cand pl n) <> None.
    Proof.
      intros pl n. induction cs as [|x cs [IH|(cand & Hin & Hf)]].
      - left. intros ? [].
      - destruct (first_fault beh (sched_expo x pl n)) eqn:E.
        + right. exists x. split; [left; reflexivity|congruence].
        + left. intros cand [<-|Hin]; [exact E|apply IH, Hin].
      - right. exists cand. split; [right; exact Hin|exact Hf].
    Qed.

    (* what the caller of a calibration sees when a candidate's pipeline faults *)
    Definition calib_surfaced pl n (cs : list nat) (e' : exn) (in_threads : bool) : Prop :=
      exists cand pre fe c p,
        In cand cs /\ first_fault beh (sched_expo cand pl n) = Some (pre, fe, c, p) /\
        if in_threads
        then substrb (py_str c p) (msg e') = true /\
             (is_exception c = true -> substrb (note_of_event fe) (msg e') = true)
        else e' = pep479 (annotate (exn_of fe c p) [fit_note]).

    Lemma evolve_surfaces : forall pl n gens g cand,
      In g gens -> In cand g -> first_fault beh (sched_expo cand pl n) <> None ->
      exists e', evolve beh compute transport pl n gens = Raise e' /\
                 calib_surfaced pl n (List.concat gens) e' true.
    Proof.
      intros pl n. induction gens as [|g0 gs IH]; intros g cand Hg Hc Hf; [destruct Hg|].
      simpl. destruct (all_fine_dec pl n g0) as [Hfine|(cand0 & Hin0 & Hf0)].
      - rewrite fitness_all_ok by exact Hfine. rewrite compute_ok.
        destruct Hg as [->|Hg].
        + exfalso. apply Hf. apply Hfine, Hc.
        + destruct (IH g cand Hg Hc Hf) as (e' & He & (cd & pre & fe & c & p & Hin & Hff & Hs)).
          exists e'. split; [exact He|]. exists cd, pre, fe, c, p. split; [apply in_or_app; right; exact Hin|].
          split; assumption.
      - destruct (fitness_some_raise pl n g0 cand0 Hin0 Hf0) as (cd & pre & fe & c & p & Hin & Hff & Hcomp).
        rewrite Hcomp. eexists. split; [reflexivity|].
        exists cd, pre, fe, c, p. split; [apply in_or_app; left; exact Hin|]. split; [exact Hff|].
        split.
        + pose proof (transport_msg (annotate (exn_of fe c p) [fit_note])) as Hm.
          unfold exn_of in Hm. rewrite annotate_msg, exn_of_fault_msg in Hm. exact Hm.
        + intros Hex. apply transport_notes. unfold exn_of.
          rewrite annotate_notes_exc by (rewrite exn_of_fault_cls; exact Hex).
          rewrite exn_of_fault_notes by exact Hex. simpl. left. reflexivity.
    Qed.

    Theorem calib_surfaces : forall pl n init gens cand,
      (In cand init \/ exists g, In g gens /\ In cand g) ->
      first_fault beh (sched_expo cand pl n) <> None ->
      exists e', calib beh compute transport pl n init gens = Raise e' /\
                 (calib_surfaced pl n init e' false \/ calib_surfaced pl n (List.concat gens) e' true).
    Proof.
      intros pl n init gens cand Hwhere Hf. unfold calib.
      destruct (all_fine_dec pl n init) as [Hfine|(cand0 & Hin0 & Hf0)].
      - rewrite fitness_all_ok by exact Hfine. rewrite compute_ok.
        destruct Hwhere as [Hin|(g & Hg & Hc)].
        + exfalso. apply Hf, Hfine, Hin.
        + destruct (evolve_surfaces pl n gens g cand Hg Hc Hf) as (e' & He & Hs).
          exists e'. split; [exact He|right; exact Hs].
      - destruct (fitness_some_raise pl n init cand0 Hin0 Hf0) as (cd & pre & fe & c & p & Hin & Hff & Hcomp).
        rewrite Hcomp. eexists. split; [reflexivity|]. left.
        exists cd, pre, fe, c, p. auto.
    Qed.

    Theorem calib_ok : forall pl n init gens,
      all_fine pl n init -> (forall g, In g gens -> all_fine pl n g) ->
      calib beh compute transport pl n init gens = Ok tt.
    Proof.
      intros pl n init gens Hi Hg. unfold calib. rewrite fitness_all_ok by exact Hi. rewrite compute_ok.
      induction gens as [|g gs IH]; [reflexivity|]. simpl.
      rewrite fitness_all_ok by (apply Hg; left; reflexivity). rewrite compute_ok.
      apply IH. intros; apply Hg; right; assumption.
    Qed.
  End External.
End Flat.

(* the concrete left-to-right `compute` satisfies both hypotheses (they are not contradictory) *)
Lemma compute_seq_ok : forall ds, compute_seq (map Ok ds) = Ok ds.
Proof. induction ds as [|d ds IH]; [reflexivity|]. simpl. rewrite IH. reflexivity. Qed.

Lemma compute_seq_raise : forall ts e0, In (Raise e0) ts ->
  exists e, In (Raise e) ts /\ compute_seq ts = Raise e.
Proof.
  induction ts as [|t ts IH]; intros e0 H; [destruct H|].
  destruct t as [d|e].
  - destruct H as [H|H]; [discriminate|]. destruct (IH e0 H) as (e & Hin & Hc).
    exists e. split; [right; exact Hin|]. simpl. rewrite Hc. reflexivity.
  - exists e. split; [left; reflexivity|reflexivity].
Qed.

(* the concrete pygmo-shaped `transport` satisfies its hypotheses *)
Lemma transport_model_msg : forall e, substrb (msg e) (msg (transport_model e)) = true.
Proof.
  intros e. unfold transport_model. cbn [msg].
  do 4 apply substrb_app_skip. apply substrb_app_l. apply substrb_refl.
Qed.

Lemma substrb_concat : forall sep ns nt, In nt ns -> substrb nt (String.concat sep ns) = true.
Proof.
  intros sep. induction ns as [|x ns IH]; intros nt H; [destruct H|].
  simpl. destruct ns as [|y ns'].
  - destruct H as [->|[]]. apply substrb_refl.
  - destruct H as [->|H].
    + apply substrb_app_l. apply substrb_refl.
    + apply substrb_app_skip. apply substrb_app_skip. apply IH, H.
Qed.

Lemma transport_model_notes : forall e nt, In nt (notes e) -> substrb nt (msg (transport_model e)) = true.
Proof.
  intros e nt H. unfold transport_model. cbn [msg].
  do 6 apply substrb_app_skip. apply substrb_concat, H.
Qed.
