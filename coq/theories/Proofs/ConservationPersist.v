(* C15: persistence with any number of trap species (both loops, clip_diff, clip_trapped_charge). *)
From Coq Require Import QArith ZArith List Bool Lia Lra Psatz.
From PyxelV Require Import Model.Conservation.
Import ListNotations.
Open Scope Q_scope.

Definition nonneg (l : list Q) : Prop := Forall (fun x => 0 <= x) l.

Definition species_okP (s : species) : Prop :=
  0 <= tf s /\ 0 <= dens s <= 1 /\ match cap s with Some c => 0 <= c | None => True end.

Lemma species_ok_P : forall s, species_ok s = true -> species_okP s.
Proof.
  intros s H. unfold species_ok in H. repeat rewrite andb_true_iff in H.
  destruct H as [[[H1 H2] H3] H4]. apply Qle_bool_iff in H1, H2, H3.
  unfold species_okP. repeat split; try assumption.
  destruct (cap s); [apply Qle_bool_iff in H4; exact H4 | exact I].
Qed.

Lemma species_ok_all : forall sp, forallb species_ok sp = true -> Forall species_okP sp.
Proof.
  induction sp; intros H; constructor; simpl in H; apply andb_true_iff in H as [H1 H2];
    [apply species_ok_P; exact H1 | auto].
Qed.

Lemma nonneg_b : forall l, forallb (Qle_bool 0) l = true -> nonneg l.
Proof.
  induction l; intros H; constructor; simpl in H; apply andb_true_iff in H as [H1 H2];
    [apply Qle_bool_iff; exact H1 | apply IHl; exact H2].
Qed.

Lemma qsum_nonneg : forall l, nonneg l -> 0 <= qsum l.
Proof. induction 1; simpl; lra. Qed.

(* ------------------------------------------------------------------------------------------ first loop *)

Lemma trap_loop_length : forall sp tr p, length sp = length tr ->
  length (snd (trap_loop sp tr p)) = length tr.
Proof.
  induction sp as [|s sp IH]; intros [|t tr] p H; simpl in *; try discriminate; try reflexivity.
  injection H as H.
  match goal with |- context [trap_loop sp tr ?x] => specialize (IH tr x H); destruct (trap_loop sp tr x) as [p' ts] end.
  simpl in *. now rewrite IH.
Qed.

(* trapping and release move charge between the pixel and the traps: nothing is created or lost *)
Lemma trap_loop_conserves : forall sp tr p, length sp = length tr ->
  fst (trap_loop sp tr p) + qsum (snd (trap_loop sp tr p)) == p + qsum tr.
Proof.
  induction sp as [|s sp IH]; intros [|t tr] p H; simpl in *; try discriminate; try lra.
  injection H as H.
  match goal with |- context [trap_loop sp tr ?x] => specialize (IH tr x H); destruct (trap_loop sp tr x) as [p' ts] end.
  simpl in *. lra.
Qed.

Lemma trap_step_nonneg : forall s t p, species_okP s -> 0 <= t -> 0 <= p ->
  let empty := dens s * p - t in
  let diff := clip_diff (tf s * empty) t empty in
  0 <= t + diff /\ 0 <= p - diff.
Proof.
  intros s t p (Htf & [Hd0 Hd1] & _) Ht Hp. cbv zeta. unfold clip_diff.
  set (d := dens s) in *. set (f := tf s) in *.
  assert (Hdp : 0 <= d * p) by nra.
  assert (Hdp1 : d * p <= p) by nra.
  destruct (Qlt_le_dec (f * (d * p - t)) 0) as [N|N].
  - destruct (Qlt_le_dec (f * (d * p - t)) (- t)); split; lra.
  - destruct (Qlt_le_dec (d * p - t) (f * (d * p - t))); split; lra.
Qed.

Lemma trap_loop_nonneg : forall sp tr p, Forall species_okP sp -> nonneg tr -> 0 <= p ->
  0 <= fst (trap_loop sp tr p) /\ nonneg (snd (trap_loop sp tr p)).
Proof.
  induction sp as [|s sp IH]; intros [|t tr] p Hs Ht Hp; simpl; try (split; [assumption|constructor]).
  inversion Hs; subst. inversion Ht; subst.
  destruct (trap_step_nonneg s t p H1 H3 Hp) as [A B].
  match goal with |- context [trap_loop sp tr ?x] => specialize (IH tr x H2 H4 B); destruct (trap_loop sp tr x) as [p' ts] end.
  simpl in *. destruct IH as [I1 I2].
  split; [assumption | constructor; assumption].
Qed.

(* ------------------------------------------------------------------------------------------ second loop *)

Lemma clipped_le : forall t av pd cp, clipped_of t av pd cp <= t.
Proof.
  intros. unfold clipped_of. destruct (Qlt_le_dec pd 0); [|lra].
  destruct (Qlt_le_dec _ t); lra.
Qed.

Lemma clipped_nonneg : forall t av pd cp, 0 <= t -> 0 <= av ->
  match cp with Some c => 0 <= c | None => True end -> 0 <= clipped_of t av pd cp.
Proof.
  intros t av pd cp Ht Ha Hc. unfold clipped_of. destruct (Qlt_le_dec pd 0); [|lra].
  destruct cp as [c|]; [unfold qmin; destruct (Qlt_le_dec c av)|]; destruct (Qlt_le_dec _ t); lra.
Qed.

Lemma clip_loop_length : forall sp tr px pd out, length sp = length tr ->
  length (snd (clip_loop sp tr px pd out)) = length tr.
Proof.
  induction sp as [|s sp IH]; intros [|t tr] px pd out H; simpl in *; try discriminate; try reflexivity.
  injection H as H.
  specialize (IH tr px pd (out + (t - clipped_of t (px * dens s) pd (cap s))) H).
  unfold clip_trapped. cbv zeta.
  destruct (clip_loop sp tr _ _ _) as [o' cs]. simpl in *. now rewrite IH.
Qed.

(* the second loop moves the clipped excess of EVERY species from the traps to the returned pixel *)
Lemma clip_loop_conserves : forall sp tr px pd out, length sp = length tr ->
  fst (clip_loop sp tr px pd out) + qsum (snd (clip_loop sp tr px pd out)) == out + qsum tr.
Proof.
  induction sp as [|s sp IH]; intros [|t tr] px pd out H; simpl in H; try discriminate; [simpl; lra|].
  injection H as H.
  specialize (IH tr px pd (out + (t - clipped_of t (px * dens s) pd (cap s))) H).
  cbn [clip_loop clip_trapped].
  destruct (clip_loop sp tr px pd _) as [o' cs]. cbn [fst snd qsum] in *. lra.
Qed.

Lemma clip_loop_nonneg : forall sp tr px pd out, Forall species_okP sp -> nonneg tr -> 0 <= px -> 0 <= out ->
  0 <= fst (clip_loop sp tr px pd out) /\ nonneg (snd (clip_loop sp tr px pd out)).
Proof.
  induction sp as [|s sp IH]; intros [|t tr] px pd out Hs Ht Hp Ho; simpl; try (split; [assumption|constructor]).
  inversion Hs; subst. inversion Ht; subst.
  destruct H1 as (Htf & [Hd0 Hd1] & Hc).
  assert (Hav : 0 <= px * dens s) by nra.
  pose proof (clipped_le t (px * dens s) pd (cap s)) as L.
  pose proof (clipped_nonneg t (px * dens s) pd (cap s) H3 Hav Hc) as N.
  assert (Ho2 : 0 <= out + (t - clipped_of t (px * dens s) pd (cap s))) by lra.
  specialize (IH tr px pd _ H2 H4 Hp Ho2).
  unfold clip_trapped. cbv zeta.
  destruct (clip_loop sp tr _ _ _) as [o' cs]. simpl in *. destruct IH as [I1 I2].
  split; [assumption | constructor; assumption].
Qed.

(* the returned pixel is never below the pixel after trapping: clipping only gives charge back *)
Lemma clip_loop_ge : forall sp tr px pd out, fst (clip_loop sp tr px pd out) >= out.
Proof.
  induction sp as [|s sp IH]; intros [|t tr] px pd out; simpl; try lra.
  pose proof (clipped_le t (px * dens s) pd (cap s)) as L.
  specialize (IH tr px pd (out + (t - clipped_of t (px * dens s) pd (cap s)))).
  unfold clip_trapped. cbv zeta.
  destruct (clip_loop sp tr _ _ _) as [o' cs]. simpl in *. lra.
Qed.

(* ------------------------------------------------------------------------------------------ one call *)

Lemma persist_raw_length : forall sp tr p, length sp = length tr ->
  length (snd (persist_pixel_raw sp tr p)) = length tr.
Proof.
  intros sp tr p H. unfold persist_pixel_raw.
  pose proof (trap_loop_length sp tr p H) as L.
  destruct (trap_loop sp tr p) as [p1 t1]. simpl in L.
  rewrite clip_loop_length; [exact L | congruence].
Qed.

Lemma persist_raw_conserves : forall sp tr p, length sp = length tr ->
  fst (persist_pixel_raw sp tr p) + qsum (snd (persist_pixel_raw sp tr p)) == p + qsum tr.
Proof.
  intros sp tr p H. unfold persist_pixel_raw.
  pose proof (trap_loop_conserves sp tr p H) as C.
  pose proof (trap_loop_length sp tr p H) as L.
  destruct (trap_loop sp tr p) as [p1 t1]. simpl in C, L.
  assert (H1 : length sp = length t1) by congruence.
  pose proof (clip_loop_conserves sp t1 p1 (p1 - p) p1 H1). lra.
Qed.

Lemma persist_raw_nonneg : forall sp tr p, Forall species_okP sp -> nonneg tr -> 0 <= p ->
  0 <= fst (persist_pixel_raw sp tr p) /\ nonneg (snd (persist_pixel_raw sp tr p)).
Proof.
  intros sp tr p Hs Ht Hp. unfold persist_pixel_raw.
  pose proof (trap_loop_nonneg sp tr p Hs Ht Hp) as [A B].
  destruct (trap_loop sp tr p) as [p1 t1]. simpl in A, B.
  apply clip_loop_nonneg; assumption.
Qed.

(* lowest terms: same numbers *)
Lemma qsum_map_Qred : forall l, qsum (map Qred l) == qsum l.
Proof. induction l as [|x l IH]; simpl; [reflexivity|]. rewrite Qred_correct, IH. reflexivity. Qed.

Lemma nonneg_map_Qred : forall l, nonneg l -> nonneg (map Qred l).
Proof. induction 1; simpl; constructor; [rewrite Qred_correct; assumption | assumption]. Qed.

Lemma persist_pixel_unfold : forall sp tr p,
  persist_pixel sp tr p = (Qred (fst (persist_pixel_raw sp tr p)), map Qred (snd (persist_pixel_raw sp tr p))).
Proof. intros. unfold persist_pixel. destruct (persist_pixel_raw sp tr p); reflexivity. Qed.

Lemma persist_length : forall sp tr p, length sp = length tr ->
  length (snd (persist_pixel sp tr p)) = length tr.
Proof.
  intros sp tr p H. rewrite persist_pixel_unfold. cbn [snd]. rewrite map_length. apply persist_raw_length; exact H.
Qed.

(* EXACT conservation for any number of species and ANY parameters: returned pixel + returned trapped charge
   = pixel + trapped charge before the call *)
Lemma persist_conserves : forall sp tr p, length sp = length tr ->
  fst (persist_pixel sp tr p) + qsum (snd (persist_pixel sp tr p)) == p + qsum tr.
Proof.
  intros sp tr p H. rewrite persist_pixel_unfold. cbn [fst snd].
  rewrite Qred_correct, qsum_map_Qred. apply persist_raw_conserves; exact H.
Qed.

Lemma persist_nonneg : forall sp tr p, Forall species_okP sp -> nonneg tr -> 0 <= p ->
  0 <= fst (persist_pixel sp tr p) /\ nonneg (snd (persist_pixel sp tr p)).
Proof.
  intros sp tr p Hs Ht Hp. rewrite persist_pixel_unfold. cbn [fst snd].
  destruct (persist_raw_nonneg sp tr p Hs Ht Hp) as [A B].
  split; [rewrite Qred_correct; exact A | apply nonneg_map_Qred; exact B].
Qed.

(* ------------------------------------------------------------------------------------------ several calls *)

Definition step_ok (n : nat) (st : Q * list species) : Prop :=
  0 <= fst st /\ length (snd st) = n /\ Forall species_okP (snd st).

(* any number of readouts, any number of species: the total is EXACTLY the initial total plus everything
   collected, and nothing becomes negative *)
Lemma persist_steps_inv : forall steps tr p,
  Forall (step_ok (length tr)) steps -> nonneg tr -> 0 <= p ->
  0 <= fst (persist_steps steps tr p) /\ nonneg (snd (persist_steps steps tr p))
  /\ length (snd (persist_steps steps tr p)) = length tr
  /\ fst (persist_steps steps tr p) + qsum (snd (persist_steps steps tr p))
     == p + qsum tr + qsum (map fst steps).
Proof.
  induction steps as [|[add sp] rest IH]; intros tr p Hs Ht Hp.
  - simpl. repeat split; try assumption; try lra.
  - inversion Hs; subst. destruct H1 as (Ha & Hl & Hok). simpl in Ha, Hl, Hok.
    assert (Hp' : 0 <= p + add) by lra.
    pose proof (persist_nonneg sp tr (p + add) Hok Ht Hp') as [N1 N2].
    pose proof (persist_conserves sp tr (p + add) Hl) as C.
    pose proof (persist_length sp tr (p + add) Hl) as L.
    cbn [persist_steps map fst qsum].
    destruct (persist_pixel sp tr (p + add)) as [p' t'] eqn:E. cbn [fst snd] in *.
    rewrite <- L in H2.
    specialize (IH t' p' H2 N2 N1). destruct IH as (I1 & I2 & I3 & I4).
    repeat split; try assumption; try lra. congruence.
Qed.

(* the total alone needs no range hypothesis at all *)
Lemma persist_steps_total : forall steps tr p,
  Forall (fun st => length (snd st) = length tr) steps ->
  length (snd (persist_steps steps tr p)) = length tr
  /\ fst (persist_steps steps tr p) + qsum (snd (persist_steps steps tr p))
     == p + qsum tr + qsum (map fst steps).
Proof.
  induction steps as [|[add sp] rest IH]; intros tr p Hs.
  - simpl. split; [reflexivity | lra].
  - inversion Hs; subst. simpl in H1.
    pose proof (persist_conserves sp tr (p + add) H1) as C.
    pose proof (persist_length sp tr (p + add) H1) as L.
    cbn [persist_steps map fst qsum].
    destruct (persist_pixel sp tr (p + add)) as [p' t'] eqn:E. cbn [fst snd] in *.
    rewrite <- L in H2.
    destruct (IH t' p' H2) as (I3 & I4). split; [congruence | lra].
Qed.

(* ------------------------------------------------------------------------------------------ the two entry points *)

Lemma simple_species_length : forall dt taus ds caps, length taus = length ds ->
  length (simple_species dt taus ds caps) = length taus.
Proof.
  intros dt. induction taus as [|tau taus IH]; intros [|d ds] caps H; simpl in *; try discriminate; auto.
Qed.

Lemma full_species_length : forall dt taus props d c, length taus = length props ->
  length (full_species dt taus props d c) = length taus.
Proof.
  intros dt. induction taus as [|tau taus IH]; intros [|pr props] d c H; simpl in *; try discriminate; auto.
Qed.

Lemma Qdiv_nonneg : forall a b, 0 <= a -> 0 < b -> 0 <= a / b.
Proof. intros. apply Qle_shift_div_l; [assumption | lra]. Qed.

(* the documented ranges of simple_persistence give species inside the ranges of the theorems *)
Lemma simple_species_ok : forall dt taus ds caps, 0 <= dt ->
  Forall (fun tau => 0 < tau) taus -> Forall (fun d => 0 <= d <= 1) ds ->
  match caps with Some cs => nonneg cs | None => True end ->
  Forall species_okP (simple_species dt taus ds caps).
Proof.
  intros dt. induction taus as [|tau taus IH]; intros [|d ds] caps Hdt Ht Hd Hc; simpl; try constructor.
  - inversion Ht; subst. inversion Hd; subst. unfold species_okP; simpl.
    split; [apply Qdiv_nonneg; assumption|]. split; [assumption|].
    destruct caps as [[|c cs]|]; try exact I. inversion Hc; subst; assumption.
  - inversion Ht; subst. inversion Hd; subst. apply IH; try assumption.
    destruct caps as [[|c cs]|]; try exact I. inversion Hc; subst; assumption.
Qed.

Lemma full_species_ok : forall dt taus props d c, 0 <= dt ->
  Forall (fun tau => 0 < tau) taus -> Forall (fun pr => 0 <= pr <= 1) props -> 0 <= d <= 1 ->
  match c with Some c => 0 <= c | None => True end ->
  Forall species_okP (full_species dt taus props d c).
Proof.
  intros dt. induction taus as [|tau taus IH]; intros [|pr props] d c Hdt Ht Hp Hd Hc; simpl; try constructor.
  - inversion Ht; subst. inversion Hp; subst. unfold species_okP; simpl.
    split; [apply Qdiv_nonneg; assumption|]. split; [nra|].
    destruct c as [c|]; [nra | exact I].
  - inversion Ht; subst. inversion Hp; subst. apply IH; assumption.
Qed.
