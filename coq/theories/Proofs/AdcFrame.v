(* C16: whole frames.  The model of each converter, run on a frame of sorted NaN-free voltages with the
   width taken from a get_dtype chain that passed the finite check, produces a defined image (no cast
   is undefined, nothing wraps) that satisfies the SPECIFICATION the implementation's output is judged
   against (Model/Adc.v simple_spec / sar_spec): the specification is therefore not stronger than what
   is proved of the model, and the model's output is exactly what the specification demands. *)
From Coq Require Import ZArith List Bool Reals Lia Lra.
From Flocq Require Import Core BinarySingleNaN.
From PyxelV Require Import Lib.B64 Model.Adc Proofs.AdcChain Proofs.AdcFloat Proofs.AdcSimple Proofs.AdcSar.
Import ListNotations.
Open Scope Z_scope.

Definition code_or_0 (c : option Z) : Z := match c with Some v => v | None => 0 end.

Lemma map_defined {A} (f : A -> option Z) (l : list A) :
  (forall x, In x l -> exists c, f x = Some c) ->
  map f l = map Some (map (fun x => code_or_0 (f x)) l).
Proof.
  induction l as [|a l IH]; intros H; [reflexivity|]. cbn [map].
  destruct (H a (or_introl eq_refl)) as [c E]. rewrite E. cbn [code_or_0]. f_equal.
  apply IH. intros x Hx. apply H. right. exact Hx.
Qed.

Section SimpleFrame.
Variable ch : dtype_chain.
Hypothesis Hch : chain_ok ch = true.
Variables (bits : Z) (vmin vmax : b64).
Hypothesis Hbits : 1 <= bits <= 64.
Hypothesis Fmin : is_finite vmin = true.
Hypothesis Fmax : is_finite vmax = true.
Hypothesis Hrange : (B2R vmin < B2R vmax)%R.
Hypothesis Fspan : is_finite (bsub vmax vmin) = true.

(* any width that holds full scale (the one get_dtype chooses, or a data_type override at least as wide) *)
Theorem simple_codes_meet_spec (w : Z) (xs : list b64) :
  bits <= w ->
  no_nan xs = true -> sortedB xs = true ->
  exists cs, map (simple_code w bits vmin vmax) xs = map Some cs /\
             simple_spec bits vmin vmax xs w cs = true.
Proof.
  intros Hw Hnn Hs.
  assert (Hlt : 2 ^ bits - 1 < 2 ^ w).
  { assert (2 ^ bits <= 2 ^ w) by (apply Z.pow_le_mono_r; lia). lia. }
  assert (Hb0 : 0 <= bits <= 64) by lia.
  assert (W0 : 0 <= w) by lia.
  set (f := simple_code w bits vmin vmax).
  set (g := fun x => code_or_0 (f x)).
  assert (NN : forall x, In x xs -> bis_nan x = false).
  { intros x Hx. unfold no_nan in Hnn. rewrite forallb_forall in Hnn. apply negb_true_iff, Hnn, Hx. }
  assert (Def : forall x, bis_nan x = false -> f x = Some (g x) /\ 0 <= g x <= 2 ^ bits - 1).
  { intros x Nx. destruct (simple_defined bits vmin vmax Hb0 Fmin Fmax Hrange w x Hw Fspan Nx) as [c [E R]].
    unfold g, f. rewrite E. split; [reflexivity|exact R]. }
  exists (map g xs). split.
  - apply map_defined. intros x Hx. exists (g x). apply Def, NN, Hx.
  - unfold simple_spec. repeat (apply andb_true_intro; split).
    + apply Z.ltb_lt. exact Hlt.
    + rewrite map_length. apply Nat.eqb_refl.
    + apply forallb_forall. intros [x c] Hin.
      assert (Hx : In x xs /\ c = g x).
      { clear - Hin. induction xs as [|a l IH]; [destruct Hin|]. cbn [map combine] in Hin.
        destruct Hin as [E|Hin]; [inversion E; subst; split; [left; reflexivity|reflexivity]|].
        destruct (IH Hin) as [H1 H2]. split; [right; exact H1|exact H2]. }
      destruct Hx as [Hx ->]. pose proof (NN x Hx) as Nx. destruct (Def x Nx) as [E R].
      unfold simple_point_ok. cbn [fst snd].
      apply andb_true_intro; split; [apply andb_true_intro; split|].
      * unfold in_code_range. apply andb_true_intro. split; apply Z.leb_le; lia.
      * destruct (ble x vmin) eqn:L; [|reflexivity]. apply Z.eqb_eq.
        pose proof (simple_low_saturates bits vmin vmax Hb0 Fmin Fmax Hrange w x W0 Nx L) as Q.
        fold f in Q. rewrite E in Q. inversion Q. reflexivity.
      * destruct (bge x vmax) eqn:G; [|reflexivity]. apply Z.eqb_eq.
        pose proof (simple_high_saturates bits vmin vmax Hb0 w x Hw G) as Q.
        fold f in Q. rewrite E in Q. inversion Q. reflexivity.
    + clear Hnn. revert Hs NN. induction xs as [|a [|b t] IH]; intros Hs NN; try reflexivity.
      cbn [sortedB] in Hs. apply andb_prop in Hs. destruct Hs as [H1 H2].
      change (sortedZ (g a :: g b :: map g t) = true). cbn [sortedZ].
      apply andb_true_intro. split.
      * apply Z.leb_le.
        assert (Na : bis_nan a = false) by (apply NN; left; reflexivity).
        assert (Nb : bis_nan b = false) by (apply NN; right; left; reflexivity).
        apply (simple_monotone bits vmin vmax Hb0 Fmin Fmax Hrange w a b (g a) (g b) Hw Na Nb H1);
          [apply (Def a Na)|apply (Def b Nb)].
      * apply IH; [exact H2|]. intros x Hx. apply NN. right. exact Hx.
Qed.

Theorem simple_frame_meets_spec (xs : list b64) :
  no_nan xs = true -> sortedB xs = true ->
  exists w cs, simple_frame ch bits vmin vmax xs = Some (w, map Some cs) /\
               simple_spec bits vmin vmax xs w cs = true.
Proof.
  intros Hnn Hs.
  destruct (chain_ok_sound ch Hch bits Hbits) as [w [Ew _]].
  destruct (chain_fits ch Hch bits w Hbits Ew) as [Hw _].
  destruct (simple_codes_meet_spec w xs Hw Hnn Hs) as [cs [E Sp]].
  exists w, cs. split; [|exact Sp]. unfold simple_frame. rewrite Ew, E. reflexivity.
Qed.

End SimpleFrame.

Section SarFrame.
Variable ch : dtype_chain.
Hypothesis Hch : chain_ok ch = true.
Variables (bits : Z) (vmax : b64).
Hypothesis Hbits : 1 <= bits <= 64.
Hypothesis Fmax : is_finite vmax = true.
Hypothesis Pmax : (0 <= B2R vmax)%R.

Theorem sar_frame_meets_spec (xs : list b64) :
  no_nan xs = true -> sortedB xs = true ->
  exists w cs, sar_frame ch bits vmax xs = Some (w, map Some cs) /\ sar_spec bits xs w cs = true.
Proof.
  intros Hfin Hs.
  destruct (chain_ok_sound ch Hch bits Hbits) as [w [Ew [Hlt _]]].
  destruct (chain_fits ch Hch bits w Hbits Ew) as [Hw _].
  assert (Hb1 : 1 <= bits) by lia.
  set (g := sar_acc bits vmax).
  assert (FF : forall x, In x xs -> bis_nan x = false).
  { intros x Hx. unfold no_nan in Hfin. rewrite forallb_forall in Hfin. apply negb_true_iff, Hfin, Hx. }
  exists w, (map g xs). split.
  - unfold sar_frame. rewrite Ew. f_equal. f_equal. rewrite map_map. apply map_ext.
    intros x. apply sar_defined; assumption.
  - unfold sar_spec. repeat (apply andb_true_intro; split).
    + apply Z.ltb_lt. exact Hlt.
    + rewrite map_length. apply Nat.eqb_refl.
    + apply forallb_forall. intros c Hc. apply in_map_iff in Hc. destruct Hc as [x [<- _]].
      pose proof (sar_acc_range bits vmax x Hb1). unfold in_code_range, g.
      apply andb_true_intro. split; apply Z.leb_le; lia.
    + clear Hfin. revert Hs FF. induction xs as [|a [|b t] IH]; intros Hs FF; try reflexivity.
      cbn [sortedB] in Hs. apply andb_prop in Hs. destruct Hs as [H1 H2].
      change (sortedZ (g a :: g b :: map g t) = true). cbn [sortedZ].
      apply andb_true_intro. split.
      * apply Z.leb_le. apply sar_acc_monotone_ext; try assumption;
          apply FF; [left|right; left]; reflexivity.
      * apply IH; [exact H2|]. intros x Hx. apply FF. right. exact Hx.
Qed.

End SarFrame.
