(* C09, round 2 — proofs about the constructs between a model's exception and the caller of an entry
   point (Model/Failure.v: shape, through, through_all, source_ok, run_file, cli_run).

   Main results
     through_all_kept      a stack of constructs none of which can drop an exception hands the exception in
                           flight to its caller: as the exception itself (same class and message, the notes
                           only extended) or — when a clean-up step raised on top of it — in the __context__
                           chain of what surfaces;  for ANY run-time behaviour of the clean-up steps.
     through_all_quiet     if no clean-up step raises, it is the exception itself that surfaces.
     source_ok_stack       `source_ok` (checked by vm_compute on the table regenerated from the source)
                           implies that hypothesis for the stack of every path of every entry point.
     swallowing shapes     each of the three constructs, when it does not propagate, really loses the
                           exception in the model (the check is sharp). *)
From Coq Require Import List String Ascii Bool Arith Lia.
From PyxelV Require Import Model.Failure Proofs.Failure.
Import ListNotations.
Open Scope list_scope.

(* ------------------------------------------------------------------------------------------ *)
(* same_exc / kept *)

Lemma same_exc_refl : forall e, same_exc e e.
Proof. intros e. repeat split. exists []. rewrite app_nil_r. reflexivity. Qed.

Lemma same_exc_add_note : forall e0 e n, same_exc e0 e -> same_exc e0 (add_note e n).
Proof.
  intros e0 e n (Hc & Hm & extra & Hn). repeat split; simpl; try assumption.
  exists (extra ++ [n]). rewrite Hn, app_assoc. reflexivity.
Qed.

Lemma same_exc_trans : forall e0 e1 e2, same_exc e0 e1 -> same_exc e1 e2 -> same_exc e0 e2.
Proof.
  intros e0 e1 e2 (Hc & Hm & x & Hn) (Hc' & Hm' & y & Hn'). repeat split; try congruence.
  exists (x ++ y). rewrite Hn', Hn, app_assoc. reflexivity.
Qed.

Lemma same_exc_annotate : forall e ns, same_exc e (annotate e ns).
Proof.
  intros e ns. unfold annotate. destruct (is_exception (cls e)).
  - repeat split. exists ns. reflexivity.
  - apply same_exc_refl.
Qed.

(* ------------------------------------------------------------------------------------------ *)
(* one construct *)

Lemma through_kept : forall A (dflt : A) ev i s e0 (x : xres A),
  shape_propagates s = true -> kept e0 x -> kept e0 (through dflt ev i s x).
Proof.
  intros A dflt ev i s e0 x Hs Hk. destruct x as [a|e ctx]; [destruct Hk|].
  destruct s as [sc an rr|leaves|su]; simpl in *.
  - subst rr. destruct (catches ev i sc (cls e)); [|exact Hk].
    destruct an; [|exact Hk]. destruct Hk as [Hk|Hk]; [left|right; exact Hk].
    apply same_exc_add_note, Hk.
  - destruct (env_cleanup ev i) as [e'|].
    + right. destruct Hk as [Hk|(e1 & Hin & Hk)].
      * exists e. split; [left; reflexivity|exact Hk].
      * exists e1. split; [right; exact Hin|exact Hk].
    + destruct leaves; [discriminate|exact Hk].
  - destruct (env_cleanup ev i) as [e'|].
    + right. destruct Hk as [Hk|(e1 & Hin & Hk)].
      * exists e. split; [left; reflexivity|exact Hk].
      * exists e1. split; [right; exact Hin|exact Hk].
    + destruct su; [discriminate|exact Hk].
Qed.

Theorem through_all_kept : forall A (dflt : A) ev ss i e0 (x : xres A),
  forallb shape_propagates ss = true -> kept e0 x -> kept e0 (through_all dflt ev i ss x).
Proof.
  intros A dflt ev ss. induction ss as [|s ss IH]; intros i e0 x Hs Hk; [exact Hk|].
  simpl in *. apply andb_true_iff in Hs as [H1 H2].
  apply IH; [exact H2|]. apply through_kept; assumption.
Qed.

(* no clean-up step raises: the exception itself surfaces, with its context untouched *)
Lemma through_quiet : forall A (dflt : A) ev i s e ctx,
  shape_propagates s = true -> env_cleanup ev i = None ->
  exists e', through dflt ev i s (XRaise e ctx : xres A) = XRaise e' ctx /\ same_exc e e'.
Proof.
  intros A dflt ev i s e ctx Hs Hq. destruct s as [sc an rr|leaves|su]; simpl in *.
  - subst rr. destruct (catches ev i sc (cls e)).
    + destruct an; eexists; (split; [reflexivity|]).
      * apply same_exc_add_note, same_exc_refl.
      * apply same_exc_refl.
    + exists e. split; [reflexivity|apply same_exc_refl].
  - rewrite Hq. destruct leaves; [discriminate|]. exists e. split; [reflexivity|apply same_exc_refl].
  - rewrite Hq. destruct su; [discriminate|]. exists e. split; [reflexivity|apply same_exc_refl].
Qed.

Theorem through_all_quiet : forall A (dflt : A) ev ss i e ctx,
  forallb shape_propagates ss = true -> (forall j, env_cleanup ev j = None) ->
  exists e', through_all dflt ev i ss (XRaise e ctx : xres A) = XRaise e' ctx /\ same_exc e e'.
Proof.
  intros A dflt ev ss. induction ss as [|s ss IH]; intros i e ctx Hs Hq.
  - exists e. split; [reflexivity|apply same_exc_refl].
  - simpl in *. apply andb_true_iff in Hs as [H1 H2].
    destruct (through_quiet A dflt ev i s e ctx H1 (Hq i)) as (e1 & -> & Hs1).
    destruct (IH (S i) e1 ctx H2 Hq) as (e2 & -> & Hs2).
    exists e2. split; [reflexivity|]. eapply same_exc_trans; eassumption.
Qed.

(* results pass untouched unless a clean-up step raises *)
Lemma through_all_ok : forall A (dflt : A) ev ss i (a : A),
  forallb shape_propagates ss = true -> (forall j, env_cleanup ev j = None) ->
  through_all dflt ev i ss (XOk a) = XOk a.
Proof.
  intros A dflt ev ss. induction ss as [|s ss IH]; intros i a Hs Hq; [reflexivity|].
  simpl in *. apply andb_true_iff in Hs as [H1 H2].
  destruct s as [sc an rr|leaves|su]; simpl in *.
  - apply IH; assumption.
  - rewrite Hq. destruct leaves; [discriminate|]. apply IH; assumption.
  - rewrite Hq. apply IH; assumption.
Qed.

(* ------------------------------------------------------------------------------------------ *)
(* the three ways of losing an exception are really ways of losing it (sharpness of the check) *)

Lemma finally_leave_swallows : forall A (dflt : A) ev i e ctx,
  env_cleanup ev i = None -> through dflt ev i (SFinally true) (XRaise e ctx) = XOk dflt.
Proof. intros. simpl. rewrite H. reflexivity. Qed.

Lemma with_suppress_swallows : forall A (dflt : A) ev i e ctx,
  env_cleanup ev i = None -> through dflt ev i (SWith true) (XRaise e ctx) = XOk dflt.
Proof. intros. simpl. rewrite H. reflexivity. Qed.

Lemma handler_swallows : forall A (dflt : A) ev i an e ctx,
  through dflt ev i (SExcept ScAll an false) (XRaise e ctx) = XOk dflt.
Proof. intros. reflexivity. Qed.

Lemma handler_exception_swallows : forall A (dflt : A) ev i an e ctx,
  is_exception (cls e) = true -> through dflt ev i (SExcept ScException an false) (XRaise e ctx) = XOk dflt.
Proof. intros. simpl. rewrite H. reflexivity. Qed.

(* a BaseException that is not an Exception passes an `except Exception` handler whatever it does *)
Lemma handler_exception_passes_base : forall A (dflt : A) ev i an rr e ctx,
  is_exception (cls e) = false ->
  through dflt ev i (SExcept ScException an rr) (XRaise e ctx : xres A) = XRaise e ctx.
Proof. intros. simpl. rewrite H. reflexivity. Qed.

(* ------------------------------------------------------------------------------------------ *)
(* from the table check to the stacks *)

Lemma forallb_flat_map : forall A B (f : A -> list B) (g : B -> bool) l,
  forallb g (flat_map f l) = forallb (fun a => forallb g (f a)) l.
Proof.
  intros A B f g. induction l as [|a l IH]; [reflexivity|]. simpl.
  rewrite forallb_app, IH. reflexivity.
Qed.

Lemma fn_ok_shapes : forall cons f,
  fn_ok cons f = true ->
  forallb shape_propagates (match lookup cons f with Some ss => ss | None => [] end) = true.
Proof. intros cons f H. unfold fn_ok in H. destruct (lookup cons f); [exact H|reflexivity]. Qed.

Lemma path_ok_stack : forall cons refs p,
  path_ok cons refs p = true -> forallb shape_propagates (stack_of cons p) = true.
Proof.
  intros cons refs p H. unfold path_ok in H. apply andb_true_iff in H as [H _].
  apply andb_true_iff in H as [H _]. unfold stack_of. rewrite forallb_flat_map. apply forallb_forall. intros f Hin.
  apply fn_ok_shapes. rewrite forallb_forall in H. apply H. apply in_rev. exact Hin.
Qed.

Theorem source_ok_stack : forall cons refs p,
  source_ok cons refs = true -> In p all_entry_paths ->
  forallb shape_propagates (stack_of cons p) = true.
Proof.
  intros cons refs p H Hin. unfold source_ok in H. rewrite forallb_forall in H.
  apply (path_ok_stack cons refs). apply H, Hin.
Qed.

Theorem source_ok_fn : forall cons refs p f,
  source_ok cons refs = true -> In p all_entry_paths -> In f p ->
  exists ss, lookup cons f = Some ss /\ forallb shape_propagates ss = true.
Proof.
  intros cons refs p f H Hp Hf. unfold source_ok in H. rewrite forallb_forall in H.
  specialize (H p Hp). unfold path_ok in H. apply andb_true_iff in H as [H _].
  apply andb_true_iff in H as [H _].
  rewrite forallb_forall in H.
  assert (Hf' : In f (expand p)).
  { unfold expand. apply in_flat_map. exists f. split; [exact Hf|left; reflexivity]. }
  specialize (H f Hf'). unfold fn_ok in H.
  destruct (lookup cons f) as [ss|]; [|discriminate]. exists ss. split; [reflexivity|exact H].
Qed.

(* ------------------------------------------------------------------------------------------ *)
(* pyxel.run(file) and the command line *)

Theorem run_file_kept : forall A ev shapes files (e : exn),
  forallb shape_propagates shapes = true ->
  kept e (run_file ev shapes files (Raise e : res A)).
Proof.
  intros A ev shapes files e Hs. unfold run_file. apply through_all_kept; [exact Hs|].
  simpl. left. apply same_exc_refl.
Qed.

Theorem run_file_quiet : forall A ev shapes files (e : exn),
  forallb shape_propagates shapes = true -> (forall j, env_cleanup ev j = None) ->
  exists e', run_file ev shapes files (Raise e : res A) = XRaise e' [] /\ same_exc e e'.
Proof. intros A ev shapes files e Hs Hq. unfold run_file. simpl. apply through_all_quiet; assumption. Qed.

Theorem run_file_ok : forall A ev shapes files (a : A),
  forallb shape_propagates shapes = true -> (forall j, env_cleanup ev j = None) ->
  run_file ev shapes files (Ok a) = XOk (if files then Some tt else None).
Proof. intros A ev shapes files a Hs Hq. unfold run_file. simpl. apply through_all_ok; assumption. Qed.

(* the command never replaces a model's failure by its own "No output filename(s)" error *)
Theorem cli_run_kept : forall A ev shapes files (e : exn),
  forallb shape_propagates shapes = true ->
  kept e (cli_run ev shapes files (Raise e : res A)).
Proof.
  intros A ev shapes files e Hs. unfold cli_run.
  pose proof (run_file_kept A ev shapes files e Hs) as Hk.
  destruct (run_file ev shapes files (Raise e)) as [[u|]|e' ctx]; simpl in *; try contradiction.
  exact Hk.
Qed.

Theorem cli_run_quiet : forall A ev shapes files (e : exn),
  forallb shape_propagates shapes = true -> (forall j, env_cleanup ev j = None) ->
  exists e', cli_run ev shapes files (Raise e : res A) = XRaise e' [] /\ same_exc e e'.
Proof.
  intros A ev shapes files e Hs Hq. unfold cli_run.
  destruct (run_file_quiet A ev shapes files e Hs Hq) as (e' & -> & Hse). exists e'. split; [reflexivity|exact Hse].
Qed.

(* ...and raises that error exactly when nothing failed and there is nothing to report *)
Theorem cli_run_ok : forall A ev shapes files (a : A),
  forallb shape_propagates shapes = true -> (forall j, env_cleanup ev j = None) ->
  cli_run ev shapes files (Ok a) = if files then XOk tt else XRaise (raise_of RuntimeError no_output_msg) [].
Proof.
  intros A ev shapes files a Hs Hq. unfold cli_run. rewrite run_file_ok by assumption.
  destruct files; reflexivity.
Qed.

(* a `finally` that is left by `return` makes pyxel.run return normally although the simulation failed
   (what a return inside run()'s finally block does) *)
Theorem run_file_finally_return_loses : forall A files (e : exn),
  run_file env_quiet [SExcept ScException false true; SFinally true] files (Raise e : res A) = XOk None.
Proof. intros. reflexivity. Qed.

(* ------------------------------------------------------------------------------------------ *)
(* the deprecated sequential observation (no handler around the runs) *)

Section Old.
  Variable beh : behaviour.

  Lemma obs_seq_old_ok : forall pl n runs,
    first_fault beh (sched_obs pl n runs) = None ->
    obs_seq_old beh pl n runs = (Ok (map (fun r => (r_id r, seq 0 n)) runs), sched_obs pl n runs).
  Proof.
    intros pl n. induction runs as [|r rs IH]; intros H; [reflexivity|].
    unfold sched_obs in *. simpl in *. rewrite first_fault_app in H.
    rewrite exposure_spec.
    destruct (first_fault beh (sched_expo (r_id r) pl n)) as [x|]; [discriminate|].
    destruct (first_fault beh (flat_map (fun r0 => sched_expo (r_id r0) pl n) rs)) as [[[[pre fe] c] p]|] eqn:F;
      [discriminate|].
    rewrite IH by reflexivity. reflexivity.
  Qed.

  Lemma obs_seq_old_raise : forall pl n rpre r rpost pre fe c p,
    first_fault beh (sched_obs pl n rpre) = None ->
    first_fault beh (sched_expo (r_id r) pl n) = Some (pre, fe, c, p) ->
    obs_seq_old beh pl n (rpre ++ r :: rpost) =
    (Raise (exn_of_fault fe c p), sched_obs pl n rpre ++ pre ++ [fe]).
  Proof.
    intros pl n. induction rpre as [|r0 rs IH]; intros r rpost pre fe c p Hn Hf.
    - simpl. rewrite exposure_spec, Hf. reflexivity.
    - unfold sched_obs in *. simpl in *. rewrite first_fault_app in Hn.
      rewrite exposure_spec.
      destruct (first_fault beh (sched_expo (r_id r0) pl n)) as [x|]; [discriminate|].
      destruct (first_fault beh (flat_map (fun r1 => sched_expo (r_id r1) pl n) rs)) as [[[[pre' fe'] c'] p']|] eqn:F;
        [discriminate|].
      rewrite (IH r rpost pre fe c p eq_refl Hf). simpl. rewrite <- app_assoc. reflexivity.
  Qed.

  Theorem obs_seq_old_fault : forall pl n runs pre fe c p,
    first_fault beh (sched_obs pl n runs) = Some (pre, fe, c, p) ->
    obs_seq_old beh pl n runs = (Raise (exn_of_fault fe c p), pre ++ [fe]).
  Proof.
    intros pl n runs pre fe c p H.
    destruct (sched_obs_first_fault beh _ _ _ _ _ _ _ H) as (rpre & r & rpost & pre' & -> & Hn & Hf & ->).
    rewrite (obs_seq_old_raise pl n rpre r rpost pre' fe c p Hn Hf). rewrite <- app_assoc. reflexivity.
  Qed.
End Old.

(* ------------------------------------------------------------------------------------------ *)
(* dask.bag drops the cells that raise StopIteration *)

Lemma compute_bag_no_stop : forall ts,
  existsb bag_drops ts = false -> compute_bag ts = compute_seq ts.
Proof.
  intros ts H. unfold compute_bag. f_equal.
  induction ts as [|t ts IH]; [reflexivity|]. simpl in *.
  apply orb_false_iff in H as [H1 H2]. rewrite H1. simpl. rewrite IH by exact H2. reflexivity.
Qed.

Lemma compute_bag_refutes : forall d,
  compute_bag [Raise (raise_of StopIteration "x"); Ok d] = Ok [d].
Proof. intros. reflexivity. Qed.
