(* Proofs about Model/Placement.v (C20): fit_into_array as coded places every input pixel where the
   position says, zero elsewhere, and refuses exactly the non-overlapping / too-small inputs.
   All statements are for ALL shapes, offsets and contents (no bounds). *)
From Coq Require Import ZArith List Bool Lia ZifyBool String.
From PyxelV Require Import Model.Placement.
Import ListNotations.
Open Scope Z_scope.
Ltac Zify.zify_post_hook ::= Z.to_euclidean_division_equations.

(* ------------------------------------------------------------ list basics (nat indexed) *)

Lemma nth_skipn' {A} (n k : nat) (l : list A) d : nth k (skipn n l) d = nth (n + k) l d.
Proof. revert l; induction n; intros [|x l]; simpl; auto. destruct k; reflexivity. Qed.

Lemma nth_firstn' {A} (n k : nat) (l : list A) d : (k < n)%nat -> nth k (firstn n l) d = nth k l d.
Proof.
  revert k l; induction n; intros k [|x l] H; simpl; try lia; auto.
  destruct k; simpl; auto. apply IHn. lia.
Qed.

(* ------------------------------------------------------------ coordinate ranges *)

Lemma coords_nil s n : n <= 0 -> coords s n = [].
Proof. intros. unfold coords. replace (Z.to_nat n) with 0%nat by lia. reflexivity. Qed.

Lemma coords_cons s n : 0 < n -> coords s n = s :: coords (s + 1) (n - 1).
Proof.
  intros. unfold coords. replace (Z.to_nat n) with (S (Z.to_nat (n - 1))) by lia.
  simpl. f_equal; [lia|]. rewrite <- seq_shift, map_map. apply map_ext. intros. lia.
Qed.

Lemma coords_length s n : List.length (coords s n) = Z.to_nat n.
Proof. unfold coords. rewrite map_length, seq_length. reflexivity. Qed.

Lemma memZ_coords x s n : memZ x (coords s n) = (s <=? x) && (x <? s + n).
Proof.
  remember (Z.to_nat n) as k. revert s n Heqk. induction k; intros.
  - rewrite coords_nil by lia. simpl. lia.
  - rewrite coords_cons by lia. unfold memZ in *. simpl. rewrite IHk by lia. lia.
Qed.

Lemma filter_coords lo hi s n :
  filter (fun x => (lo <=? x) && (x <? hi)) (coords s n)
  = coords (Z.max s lo) (Z.min (s + n) hi - Z.max s lo).
Proof.
  remember (Z.to_nat n) as k. revert s n Heqk. induction k; intros.
  - rewrite (coords_nil s) by lia. simpl. rewrite coords_nil by lia. reflexivity.
  - rewrite (coords_cons s n) by lia. simpl. rewrite (IHk (s + 1) (n - 1)) by lia.
    destruct ((lo <=? s) && (s <? hi)) eqn:E.
    + rewrite (coords_cons (Z.max s lo)) by lia. f_equal; [lia|]. f_equal; lia.
    + destruct (Z_lt_dec s lo).
      * f_equal; lia.
      * rewrite !coords_nil by lia. reflexivity.
Qed.

Lemma intersect_coords p n o :
  intersect1d (coords p n) (coords 0 o) = coords (Z.max p 0) (Z.min (p + n) o - Z.max p 0).
Proof.
  unfold intersect1d. rewrite <- filter_coords. apply filter_ext. intros x.
  rewrite memZ_coords. reflexivity.
Qed.

Lemma first_coords s n : 0 < n -> first_of (coords s n) = s.
Proof. intros. rewrite coords_cons by lia. reflexivity. Qed.

Lemma last_coords s n : 0 < n -> last_of (coords s n) = s + n - 1.
Proof.
  remember (Z.to_nat n) as k. revert s n Heqk. induction k; intros; [lia|].
  rewrite coords_cons by lia. unfold last_of in *.
  destruct (Z_le_dec (n - 1) 0).
  - rewrite coords_nil by lia. simpl. lia.
  - specialize (IHk (s + 1) (n - 1) ltac:(lia) ltac:(lia)).
    rewrite (coords_cons (s + 1)) in * by lia.
    change (last (s :: s + 1 :: coords (s + 1 + 1) (n - 1 - 1)) 0)
      with (last (s + 1 :: coords (s + 1 + 1) (n - 1 - 1)) 0).
    rewrite IHk. lia.
Qed.

(* ------------------------------------------------------------ Python slices inside the bounds *)

Lemma slice_bounds_in n lo hi : 0 <= lo <= hi -> hi <= n -> slice_bounds n lo hi = (lo, hi).
Proof.
  intros. unfold slice_bounds, norm_idx.
  destruct (lo <? 0) eqn:?, (hi <? 0) eqn:?; f_equal; lia.
Qed.

Lemma py_slice_in {A} lo hi (l : list A) :
  0 <= lo <= hi -> hi <= zlen l ->
  py_slice lo hi l = firstn (Z.to_nat (hi - lo)) (skipn (Z.to_nat lo) l).
Proof. intros. unfold py_slice. rewrite slice_bounds_in by assumption. reflexivity. Qed.

Lemma py_slice_length {A} lo hi (l : list A) :
  0 <= lo <= hi -> hi <= zlen l -> zlen (py_slice lo hi l) = hi - lo.
Proof.
  intros. rewrite py_slice_in by assumption. unfold zlen in *.
  rewrite firstn_length, skipn_length. lia.
Qed.

Lemma py_slice_nth {A} lo hi (l : list A) d (k : nat) :
  0 <= lo <= hi -> hi <= zlen l -> Z.of_nat k < hi - lo ->
  nth k (py_slice lo hi l) d = nth (Z.to_nat lo + k) l d.
Proof.
  intros. rewrite py_slice_in by assumption. rewrite nth_firstn' by lia. apply nth_skipn'.
Qed.

Lemma set_slice_ok {A} s e (blk l : list A) d :
  0 <= s <= e -> e <= zlen l -> zlen blk = e - s ->
  exists l', set_slice s e blk l = Some l' /\ List.length l' = List.length l /\
    forall k : nat, nth k l' d =
      if (s <=? Z.of_nat k) && (Z.of_nat k <? e) then nth (k - Z.to_nat s) blk d else nth k l d.
Proof.
  intros H1 H2 H3. unfold set_slice. rewrite slice_bounds_in by assumption.
  destruct (zlen blk =? e - s) eqn:E; [|lia]. eexists; split; [reflexivity|]. unfold zlen in *. split.
  - rewrite !app_length, firstn_length, skipn_length. lia.
  - intros k. destruct ((s <=? Z.of_nat k) && (Z.of_nat k <? e)) eqn:E2.
    + rewrite app_nth2; rewrite firstn_length; [|lia]. rewrite app_nth1 by lia. f_equal. lia.
    + destruct (Z_lt_dec (Z.of_nat k) s).
      * rewrite app_nth1 by (rewrite firstn_length; lia). apply nth_firstn'. lia.
      * rewrite app_nth2; rewrite firstn_length; [|lia]. rewrite app_nth2 by lia.
        rewrite nth_skipn'. f_equal. lia.
Qed.
Lemma map2_opt_ok {A B C} (f : A -> B -> option C) da db dc (l1 : list A) (l2 : list B) :
  List.length l1 = List.length l2 ->
  (forall k, (k < List.length l1)%nat -> exists c, f (nth k l1 da) (nth k l2 db) = Some c) ->
  exists l3, map2_opt f l1 l2 = Some l3 /\ List.length l3 = List.length l1 /\
     forall k, (k < List.length l1)%nat -> f (nth k l1 da) (nth k l2 db) = Some (nth k l3 dc).
Proof.
  revert l2; induction l1 as [|a t IH]; intros [|b t2] HL HF; simpl in *; try lia.
  - exists []. repeat split; auto. intros; lia.
  - destruct (HF 0%nat ltac:(lia)) as [c Hc]. simpl in Hc.
    destruct (IH t2 ltac:(lia)) as [l3 [E [L N]]].
    { intros k Hk. apply (HF (S k)). lia. }
    exists (c :: l3). rewrite Hc, E. repeat split; simpl; auto.
    intros [|k] Hk; auto. apply N. lia.
Qed.

(* ------------------------------------------------------------ well-formed matrices *)

Lemma wf_iff ny nx (a : mat) :
  wf_matb ny nx a = true <->
  zlen a = ny /\ (forall k, (k < List.length a)%nat -> zlen (nth k a []) = nx) /\ 0 <= nx.
Proof.
  unfold wf_matb. rewrite !andb_true_iff, forallb_forall, Z.eqb_eq, Z.leb_le. split.
  - intros [[H1 H2] H3]. repeat split; auto. intros k Hk. apply Z.eqb_eq. apply H2. apply nth_In. exact Hk.
  - intros [H1 [H2 H3]]. repeat split; auto. intros r Hr. apply Z.eqb_eq.
    destruct (In_nth _ _ [] Hr) as [k [Hk E]]. rewrite <- E. apply H2. exact Hk.
Qed.

Lemma zeros_row ny nx (k : nat) : (k < Z.to_nat ny)%nat -> nth k (zeros ny nx) [] = repeat 0 (Z.to_nat nx).
Proof.
  intros Hk. unfold zeros. apply (repeat_spec (Z.to_nat ny)). apply nth_In. rewrite repeat_length. exact Hk.
Qed.

Lemma zeros_wf ny nx : 0 <= ny -> 0 <= nx -> wf_matb ny nx (zeros ny nx) = true.
Proof.
  intros. apply wf_iff. unfold zlen. repeat split; try lia.
  - unfold zeros. rewrite repeat_length. lia.
  - intros k Hk. unfold zeros in Hk. rewrite repeat_length in Hk. rewrite zeros_row by exact Hk.
    rewrite repeat_length. lia.
Qed.

Lemma zeros_get ny nx i j : 0 <= i < ny -> 0 <= j < nx -> getZ (zeros ny nx) i j = 0.
Proof.
  intros. unfold getZ. destruct ((0 <=? i) && (0 <=? j)); [|reflexivity].
  rewrite zeros_row by lia. apply nth_repeat.
Qed.

(* ------------------------------------------------------------ block assignment *)

Lemma assign_block_ok y0 y1 x0 x1 (blk out : mat) oy ox :
  wf_matb oy ox out = true -> 0 <= y0 <= y1 -> y1 <= oy -> 0 <= x0 <= x1 -> x1 <= ox ->
  wf_matb (y1 - y0) (x1 - x0) blk = true ->
  exists out', assign_block y0 y1 x0 x1 blk out = Some out' /\ wf_matb oy ox out' = true /\
    forall i j, 0 <= i < oy -> 0 <= j < ox ->
      getZ out' i j = if (y0 <=? i) && (i <? y1) && (x0 <=? j) && (j <? x1)
                      then getZ blk (i - y0) (j - x0) else getZ out i j.
Proof.
  intros Wo Hy Hy1 Hx Hx1 Wb.
  apply wf_iff in Wo. destruct Wo as [Lo [Ro Nx]].
  apply wf_iff in Wb. destruct Wb as [Lb [Rb _]].
  unfold assign_block. rewrite slice_bounds_in by lia.
  destruct (zlen blk =? y1 - y0) eqn:E; [|lia]. clear E.
  set (l1 := firstn (Z.to_nat (y1 - y0)) (skipn (Z.to_nat y0) out)).
  assert (Ll1 : List.length l1 = Z.to_nat (y1 - y0)).
  { unfold l1. rewrite firstn_length, skipn_length. unfold zlen in *. lia. }
  assert (Nl1 : forall k, (k < Z.to_nat (y1 - y0))%nat -> nth k l1 [] = nth (Z.to_nat y0 + k) out []).
  { intros k Hk. unfold l1. rewrite nth_firstn' by lia. apply nth_skipn'. }
  destruct (map2_opt_ok (fun row brow : list Z => set_slice x0 x1 brow row) [] [] [] l1 blk)
    as [mid [Em [Lm Nm]]].
  { unfold zlen in *. lia. }
  { intros k Hk. rewrite Nl1 by lia.
    destruct (set_slice_ok x0 x1 (nth k blk []) (nth (Z.to_nat y0 + k) out []) 0) as [l' [El' _]]; try lia.
    - rewrite Ro; unfold zlen in *; lia.
    - rewrite Rb; unfold zlen in *; lia.
    - exists l'. exact El'. }
  rewrite Em. eexists; split; [reflexivity|].
  (* row-wise description of the result *)
  assert (ROW : forall i : nat, (i < Z.to_nat oy)%nat ->
     if (y0 <=? Z.of_nat i) && (Z.of_nat i <? y1)
     then set_slice x0 x1 (nth (i - Z.to_nat y0) blk []) (nth i out [])
          = Some (nth i (firstn (Z.to_nat y0) out ++ mid ++ skipn (Z.to_nat y1) out) [])
     else nth i (firstn (Z.to_nat y0) out ++ mid ++ skipn (Z.to_nat y1) out) [] = nth i out []).
  { intros i Hi. unfold zlen in *.
    destruct ((y0 <=? Z.of_nat i) && (Z.of_nat i <? y1)) eqn:E.
    - rewrite app_nth2; rewrite firstn_length; [|lia]. rewrite app_nth1 by lia.
      replace (Init.Nat.min (Z.to_nat y0) (List.length out)) with (Z.to_nat y0) by lia.
      rewrite <- Nm by lia. rewrite Nl1 by lia. do 2 f_equal. lia.
    - destruct (Z_lt_dec (Z.of_nat i) y0).
      + rewrite app_nth1 by (rewrite firstn_length; lia). apply nth_firstn'. lia.
      + rewrite app_nth2; rewrite firstn_length; [|lia]. rewrite app_nth2 by lia.
        rewrite nth_skipn'. f_equal. lia. }
  assert (LEN : List.length (firstn (Z.to_nat y0) out ++ mid ++ skipn (Z.to_nat y1) out) = Z.to_nat oy).
  { rewrite !app_length, firstn_length, skipn_length. unfold zlen in *. lia. }
  split.
  - apply wf_iff. unfold zlen in *. repeat split; try lia.
    intros k Hk. rewrite LEN in Hk. specialize (ROW k Hk).
    destruct ((y0 <=? Z.of_nat k) && (Z.of_nat k <? y1)) eqn:E.
    + destruct (set_slice_ok x0 x1 (nth (k - Z.to_nat y0) blk []) (nth k out []) 0) as [l' [El' [Ll' _]]]; try lia.
      * unfold zlen; rewrite Ro; lia.
      * unfold zlen; rewrite Rb; lia.
      * rewrite El' in ROW. injection ROW as <-. rewrite Ll'. apply Ro. lia.
    + rewrite ROW. apply Ro. lia.
  - intros i j Hi Hj. unfold getZ.
    replace ((0 <=? i) && (0 <=? j)) with true by lia.
    specialize (ROW (Z.to_nat i) ltac:(lia)). rewrite Z2Nat.id in ROW by lia.
    destruct ((y0 <=? i) && (i <? y1)) eqn:E; simpl.
    + unfold zlen in *.
      destruct (set_slice_ok x0 x1 (nth (Z.to_nat i - Z.to_nat y0) blk []) (nth (Z.to_nat i) out []) 0)
        as [l' [El' [_ Nl']]]; try lia.
      * unfold zlen; rewrite Ro; lia.
      * unfold zlen; rewrite Rb; lia.
      * rewrite El' in ROW. injection ROW as <-. rewrite Nl'. rewrite Z2Nat.id by lia.
        destruct ((x0 <=? j) && (j <? x1)) eqn:E2.
        -- replace ((0 <=? i - y0) && (0 <=? j - x0)) with true by lia.
           replace (Z.to_nat (i - y0)) with (Z.to_nat i - Z.to_nat y0)%nat by lia.
           replace (Z.to_nat (j - x0)) with (Z.to_nat j - Z.to_nat x0)%nat by lia. reflexivity.
        -- reflexivity.
    + rewrite ROW. reflexivity.
Qed.

(* ------------------------------------------------------------ cropping *)

Lemma crop_ok (a : mat) ay ax cy0 cy1 cx0 cx1 :
  wf_matb ay ax a = true -> 0 <= cy0 <= cy1 -> cy1 <= ay -> 0 <= cx0 <= cx1 -> cx1 <= ax ->
  let c := map (py_slice cx0 cx1) (py_slice cy0 cy1 a) in
  wf_matb (cy1 - cy0) (cx1 - cx0) c = true /\
  forall i j, 0 <= i < cy1 - cy0 -> 0 <= j < cx1 - cx0 -> getZ c i j = getZ a (cy0 + i) (cx0 + j).
Proof.
  intros Wa Hy Hy1 Hx Hx1 c. apply wf_iff in Wa. destruct Wa as [La [Ra Nx]].
  assert (Lc : zlen c = cy1 - cy0).
  { unfold c, zlen. rewrite map_length. apply py_slice_length; lia. }
  assert (Rc : forall k : nat, Z.of_nat k < cy1 - cy0 ->
                 nth k c [] = py_slice cx0 cx1 (nth (Z.to_nat cy0 + k) a [])).
  { intros k Hk. unfold c. rewrite (nth_indep _ [] (py_slice cx0 cx1 [])).
    - rewrite map_nth. f_equal. apply py_slice_nth; lia.
    - rewrite map_length. pose proof (py_slice_length cy0 cy1 a ltac:(lia) ltac:(lia)).
      unfold zlen in *. lia. }
  split.
  - apply wf_iff. repeat split; try lia. intros k Hk. rewrite Rc by (unfold zlen in *; lia).
    apply py_slice_length; try lia. rewrite Ra; unfold zlen in *; lia.
  - intros i j Hi Hj. unfold getZ.
    replace ((0 <=? i) && (0 <=? j)) with true by lia.
    replace ((0 <=? cy0 + i) && (0 <=? cx0 + j)) with true by lia.
    rewrite Rc by lia. rewrite py_slice_nth; try lia.
    + f_equal; [lia|]. f_equal. lia.
    + rewrite Ra; unfold zlen in *; lia.
Qed.

(* ------------------------------------------------------------ fit_into_array *)

Lemma overlaps_iff ay ax oy ox py px :
  overlaps ay ax oy ox py px = true <->
  exists i j, 0 <= i < oy /\ 0 <= j < ox /\ 0 <= i - py < ay /\ 0 <= j - px < ax.
Proof.
  unfold overlaps. split.
  - intros H. exists (Z.max py 0), (Z.max px 0). lia.
  - intros [i [j H]]. lia.
Qed.

(* the successful outcome: a detector-shaped array holding, pixel by pixel, the placed input *)
Definition fit_post (a : mat) (ay ax oy ox py px : Z) (r : fit_res) : Prop :=
  exists out, r = FitOk out /\ wf_matb oy ox out = true /\
    forall i j, 0 <= i < oy -> 0 <= j < ox -> getZ out i j = placed a ay ax py px i j.

Section Fit.
Variable algn : align_fn.
Variable names : align_names.

Theorem fit_correct ay ax a oy ox pos align allow :
  wf_matb ay ax a = true -> 0 <= oy -> 0 <= ox ->
  let r := fit_into_array algn names ay ax a oy ox pos align allow in
  if negb allow && ((ay <? oy) || (ax <? ox)) then r = FitErr TooSmall else
  match resolve_position algn names ay ax oy ox pos align with
  | None => r = FitErr BadAlign
  | Some (py, px) =>
      if overlaps ay ax oy ox py px then fit_post a ay ax oy ox py px r else r = FitErr NoOverlap
  end.
Proof.
  intros Wa Hoy Hox r. unfold r, fit_into_array. clear r.
  destruct (negb allow && ((ay <? oy) || (ax <? ox))); [reflexivity|].
  destruct (resolve_position algn names ay ax oy ox pos align) as [[py px]|]; [|reflexivity].
  pose proof Wa as Wa'. apply wf_iff in Wa'. destruct Wa' as [La [_ Nax]].
  assert (Nay : 0 <= ay) by (unfold zlen in La; lia).
  rewrite !intersect_coords. cbv zeta.
  set (Y0 := Z.max py 0). set (Y1 := Z.min (py + ay) oy).
  set (X0 := Z.max px 0). set (X1 := Z.min (px + ax) ox).
  unfold overlaps. fold Y0 Y1 X0 X1.
  destruct (Z_lt_dec Y0 Y1) as [HY|HY].
  2:{ rewrite (coords_nil Y0) by lia. replace ((Y0 <? Y1) && (X0 <? X1)) with false by lia.
      destruct (coords X0 (X1 - X0)); reflexivity. }
  destruct (Z_lt_dec X0 X1) as [HX|HX].
  2:{ rewrite (coords_nil X0) by lia. replace ((Y0 <? Y1) && (X0 <? X1)) with false by lia.
      destruct (coords Y0 (Y1 - Y0)); reflexivity. }
  replace ((Y0 <? Y1) && (X0 <? X1)) with true by lia.
  pose proof (first_coords Y0 (Y1 - Y0) ltac:(lia)) as FY.
  pose proof (last_coords Y0 (Y1 - Y0) ltac:(lia)) as LY.
  pose proof (first_coords X0 (X1 - X0) ltac:(lia)) as FX.
  pose proof (last_coords X0 (X1 - X0) ltac:(lia)) as LX.
  pose proof (coords_length Y0 (Y1 - Y0)) as CY. pose proof (coords_length X0 (X1 - X0)) as CX.
  destruct (coords Y0 (Y1 - Y0)) as [|zy ly]; [simpl in CY; lia|].
  destruct (coords X0 (X1 - X0)) as [|zx lx]; [simpl in CX; lia|].
  rewrite FY, LY, FX, LX.
  replace (Y0 + (Y1 - Y0) - 1 + 1) with Y1 by lia. replace (X0 + (X1 - X0) - 1 + 1) with X1 by lia.
  destruct (crop_ok a ay ax (Y0 - py) (Y1 - py) (X0 - px) (X1 - px) Wa) as [Wc Gc]; try lia.
  destruct (assign_block_ok Y0 Y1 X0 X1
              (map (py_slice (X0 - px) (X1 - px)) (py_slice (Y0 - py) (Y1 - py) a))
              (zeros oy ox) oy ox) as [out [Eo [Wo Go]]]; try lia.
  - apply zeros_wf; lia.
  - replace (Y1 - Y0) with (Y1 - py - (Y0 - py)) by lia.
    replace (X1 - X0) with (X1 - px - (X0 - px)) by lia. exact Wc.
  - rewrite Eo. exists out. split; [reflexivity|]. split; [exact Wo|].
    intros i j Hi Hj. rewrite Go by assumption. unfold placed.
    destruct ((Y0 <=? i) && (i <? Y1) && (X0 <=? j) && (j <? X1)) eqn:E.
    + replace ((0 <=? i - py) && (i - py <? ay) && (0 <=? j - px) && (j - px <? ax)) with true by lia.
      rewrite Gc by lia. f_equal; lia.
    + replace ((0 <=? i - py) && (i - py <? ay) && (0 <=? j - px) && (j - px <? ax)) with false by lia.
      apply zeros_get; lia.
Qed.

End Fit.

(* ------------------------------------------------------------ the executable specification
   (Model.Placement.spec_fit, used by the check to judge the implementation's outputs) says the
   same as fit_correct *)

Lemma nth_map_seq {A} (g : nat -> A) n k d : (k < n)%nat -> nth k (map g (seq 0 n)) d = g k.
Proof.
  intros. rewrite (nth_indep _ d (g 0%nat)) by (rewrite map_length, seq_length; lia).
  rewrite map_nth, seq_nth by lia. reflexivity.
Qed.

Lemma tabulate_eq (out : mat) oy ox f :
  wf_matb oy ox out = true -> 0 <= oy ->
  (forall i j, 0 <= i < oy -> 0 <= j < ox -> getZ out i j = f i j) -> out = tabulate oy ox f.
Proof.
  intros W Hoy G. apply wf_iff in W. destruct W as [L [R Nx]]. unfold zlen in *.
  apply (nth_ext _ _ [] []).
  - unfold tabulate. rewrite map_length, seq_length. lia.
  - intros k Hk. specialize (R k Hk). unfold tabulate. rewrite nth_map_seq by lia.
    apply (nth_ext _ _ 0 0).
    + rewrite map_length, seq_length. lia.
    + intros m Hm. rewrite nth_map_seq by lia. rewrite <- G by lia. unfold getZ.
      replace ((0 <=? Z.of_nat k) && (0 <=? Z.of_nat m)) with true by lia.
      rewrite !Nat2Z.id. reflexivity.
Qed.

Theorem fit_meets_spec algn names ay ax a oy ox pos align allow :
  wf_matb ay ax a = true -> 0 <= oy -> 0 <= ox ->
  (forall kw ax ay ox oy, algn kw ax ay ox oy = doc_align kw ax ay ox oy) ->
  (forall s, lookup_kw names s = lookup_kw doc_names s) ->
  match fit_into_array algn names ay ax a oy ox pos align allow with
  | FitOk out => spec_fit ay ax a oy ox pos align allow = Some out
  | FitErr _ => spec_fit ay ax a oy ox pos align allow = None
  end.
Proof.
  intros Wa Hoy Hox HA HN.
  pose proof (fit_correct algn names ay ax a oy ox pos align allow Wa Hoy Hox) as H.
  cbv zeta in H. unfold spec_fit.
  assert (ER : resolve_position doc_align doc_names ay ax oy ox pos align
               = resolve_position algn names ay ax oy ox pos align).
  { unfold resolve_position. destruct (align_given align); [|reflexivity].
    rewrite HN. destruct (lookup_kw doc_names s); [|reflexivity]. rewrite HA. reflexivity. }
  rewrite ER.
  destruct (negb allow && ((ay <? oy) || (ax <? ox))).
  - rewrite H. destruct (resolve_position algn names ay ax oy ox pos align) as [[py px]|]; reflexivity.
  - destruct (resolve_position algn names ay ax oy ox pos align) as [[py px]|].
    + destruct (overlaps ay ax oy ox py px).
      * destruct H as [out [E [W G]]]. rewrite E. f_equal. symmetry. apply tabulate_eq; assumption.
      * rewrite H. reflexivity.
    + rewrite H. reflexivity.
Qed.

(* ------------------------------------------------------------ alignment keywords *)

Lemma quot2_sign d : 0 <= Z.quot d 2 * d.
Proof.
  destruct (Z_le_dec 0 d).
  - assert (0 <= Z.quot d 2) by lia. nia.
  - assert (Z.quot d 2 <= 0) by lia. nia.
Qed.

Lemma doc_align_meets kw ax ay ox oy : align_meets kw ax ay ox oy (doc_align kw ax ay ox oy).
Proof. destruct kw; unfold align_meets, doc_align; try lia. repeat split; try lia; apply quot2_sign. Qed.
