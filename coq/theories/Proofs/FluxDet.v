(* Proofs about Model/FluxDet.v: when the tables read from the source pass [lifecycle_ok], an exposure on any
   detector class of the table, run by any loop of the table from any initial bucket content, is
   Model/Flux.v's run_exposure. *)
From Coq Require Import QArith List Bool String Lia.
From PyxelV Require Import Model.Flux Proofs.Flux Model.FluxDet.
Import ListNotations.
Open Scope string_scope.
Open Scope Q_scope.

Lemma empty_st_begin : forall must nd s,
  must "photon" = true -> must "charge" = true -> must "pixel" = negb nd ->
  empty_st must s = begin_step nd s.
Proof.
  intros must nd s Hp Hc Hx. unfold empty_st, begin_step. rewrite Hp, Hc, Hx. destruct nd; reflexivity.
Qed.

Lemma run_steps_of_eq : forall beg nd ops,
  (forall s, beg s = begin_step nd s) ->
  forall steps s, run_steps_of beg ops s steps = run_steps nd ops s steps.
Proof.
  intros beg nd ops H. induction steps as [|d r IH]; intros s; simpl.
  - reflexivity.
  - unfold run_step. rewrite H, IH. reflexivity.
Qed.

Lemma class_ok_spec : forall t c, class_ok t c = true ->
  forall reset, cleared t (dc_name c) reset "photon" = true
             /\ cleared t (dc_name c) reset "charge" = true
             /\ cleared t (dc_name c) reset "pixel" = reset.
Proof.
  intros t c H reset. unfold class_ok in H. simpl in H.
  repeat (apply andb_prop in H; destruct H as [H ?]).
  destruct reset.
  - repeat split; try assumption. apply eqb_prop. assumption.
  - repeat match goal with
           | h : (_ && _)%bool = true |- _ => apply andb_prop in h; destruct h
           end.
    repeat split; try assumption.
    match goal with h : Bool.eqb (cleared _ _ false "pixel") false = true |- _ => apply eqb_prop in h; exact h end.
Qed.

Lemma opt_is_some : forall o b, opt_is o b = true -> o = Some b.
Proof. intros [x|] b H; simpl in H; [apply eqb_prop in H; subst; reflexivity | discriminate]. Qed.

(* the state after the empties that precede the loop *)
Lemma pre_empties_kept : forall t cls,
  (forall reset, cleared t cls reset "photon" = true /\ cleared t cls reset "charge" = true
                 /\ cleared t cls reset "pixel" = reset) ->
  forall pre s,
  forallb (fun a => match arg_value t cls a with Some _ => true | None => false end) pre = true ->
  exists s', pre_empties t cls pre s = Some s'
    /\ (pixel s = 0 -> pixel s' = 0)
    /\ (existsb (fun a => opt_is (arg_value t cls a) true) pre = true -> pixel s' = 0)
    /\ ((photon s = 0 /\ charge s = 0) \/ pre <> [] -> photon s' = 0 /\ charge s' = 0).
Proof.
  intros t cls Hc. induction pre as [|a r IH]; intros s Hall; simpl in *.
  - exists s. split; [reflexivity|]. split; [tauto|]. split; [discriminate|].
    intros [[? ?]|?]; [split; assumption | congruence].
  - apply andb_prop in Hall. destruct Hall as [Ha Hr].
    unfold det_empty. destruct (arg_value t cls a) as [v|] eqn:Ea; [|discriminate].
    destruct (Hc v) as [Hp [Hch Hx]].
    set (s1 := empty_st (cleared t cls v) s).
    destruct (IH s1 Hr) as [s' [E [K1 [K2 K3]]]].
    exists s'. split; [exact E|].
    assert (P1 : photon s1 = 0) by (unfold s1, empty_st; simpl; rewrite Hp; reflexivity).
    assert (C1 : charge s1 = 0) by (unfold s1, empty_st; simpl; rewrite Hch; reflexivity).
    split; [|split].
    + intros Hs. apply K1. unfold s1, empty_st. simpl. rewrite Hx. destruct v; [reflexivity | exact Hs].
    + intros Hex. apply orb_prop in Hex. destruct Hex as [Hv | Hex].
      * simpl in Hv. destruct v; [|discriminate].
        apply K1. unfold s1, empty_st. simpl. rewrite Hx. reflexivity.
      * apply K2. exact Hex.
    + intros _. apply K3. left. split; assumption.
Qed.

Theorem lifecycle_run_exposure : forall t loops, lifecycle_ok t loops = true ->
  forall c lp, In c t -> In lp loops ->
  forall (nd : bool) (ops : list mop) (s_init : st) (start : Q) (ts : list Q),
  run_exposure_of t (dc_name c) lp nd ops s_init start ts = run_exposure nd ops start ts.
Proof.
  intros t loops H c lp Hc Hlp nd ops s_init start ts.
  unfold lifecycle_ok in H.
  apply andb_prop in H. destruct H as [H Hloops].
  apply andb_prop in H. destruct H as [_ Hcls].
  rewrite forallb_forall in Hcls. specialize (Hcls c Hc).
  rewrite forallb_forall in Hloops. specialize (Hloops c Hc).
  rewrite forallb_forall in Hloops. specialize (Hloops lp Hlp).
  pose proof (class_ok_spec t c Hcls) as Hspec.
  unfold loop_ok in Hloops.
  apply andb_prop in Hloops. destruct Hloops as [Hl Hd].
  apply andb_prop in Hl. destruct Hl as [Hl Hnd].
  apply andb_prop in Hl. destruct Hl as [Hall Hex].
  apply opt_is_some in Hd. apply opt_is_some in Hnd.
  unfold run_exposure_of, run_exposure.
  destruct (valid_schedule start ts); [|reflexivity].
  destruct (pre_empties_kept t (dc_name c) Hspec (lp_pre lp) s_init Hall) as [s0 [E [_ [K2 K3]]]].
  rewrite E.
  assert (Hne : lp_pre lp <> []) by (destruct (lp_pre lp); [simpl in Hex; discriminate | discriminate]).
  destruct (K3 (or_intror Hne)) as [P0 C0]. specialize (K2 Hex).
  assert (Es0 : s0 = st0) by (destruct s0 as [p ch px]; simpl in *; subst; reflexivity).
  assert (Earg : arg_value t (dc_name c) (if nd then lp_nd lp else lp_d lp) = Some (negb nd))
    by (destruct nd; simpl; assumption).
  rewrite Earg, Es0. f_equal.
  apply run_steps_of_eq. intros s.
  destruct (Hspec (negb nd)) as [Hp [Hch Hx]].
  apply empty_st_begin; assumption.
Qed.

Lemma filter_nil : forall (A : Type) (f : A -> bool) (l : list A),
  (forall x, In x l -> f x = false) -> filter f l = [].
Proof.
  intros A f. induction l as [|x r IH]; intros H; simpl; [reflexivity|].
  rewrite (H x (or_introl eq_refl)). apply IH. intros y Hy. apply H. right. exact Hy.
Qed.

(* a table that passes has no offending class / loop (these two lists are what the harness logs otherwise) *)
Lemma lifecycle_ok_no_bad : forall t loops, lifecycle_ok t loops = true -> bad_classes t = [] /\ bad_loops t loops = [].
Proof.
  intros t loops H. unfold lifecycle_ok in H.
  apply andb_prop in H. destruct H as [H Hloops].
  apply andb_prop in H. destruct H as [_ Hcls].
  rewrite forallb_forall in Hcls. rewrite forallb_forall in Hloops.
  split.
  - unfold bad_classes. rewrite filter_nil; [reflexivity|].
    intros c Hc. rewrite (Hcls c Hc). reflexivity.
  - unfold bad_loops. rewrite filter_nil; [reflexivity|].
    intros lp Hlp.
    assert (E : forallb (fun c => loop_ok t (dc_name c) lp) t = true).
    { rewrite forallb_forall. intros c Hc. specialize (Hloops c Hc). rewrite forallb_forall in Hloops.
      apply Hloops. exact Hlp. }
    rewrite E. reflexivity.
Qed.
