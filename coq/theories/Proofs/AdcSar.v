(* C16: the successive-approximation converter (binary64 model) for resolutions up to 53 bits:
   - every code lies in 0 .. 2^bits - 1, for ALL voltages (NaN and infinities included) and ALL
     reference voltages;
   - the code is non-decreasing in the voltage, for all finite voltages and finite vmax >= 0. *)
From Coq Require Import ZArith List Bool Reals Lia Lra.
From Flocq Require Import Core BinarySingleNaN.
From PyxelV Require Import Lib.B64 Model.Adc Proofs.AdcChain Proofs.AdcFloat Proofs.AdcRange.
Import ListNotations.
Open Scope R_scope.

Notation fexp64 := (SpecFloat.fexp 53 1024).
Notation rnd := (round radix2 fexp64 ZnearestE).

#[local] Instance fexp64_valid'' : Valid_exp fexp64 := fexp_correct 53 1024 _.

(* ---------------------------------------------------------------- exact integer additions *)

Lemma IZR_lt_bpow_emax (z : Z) : (Z.abs z < 2 ^ 53)%Z -> Rabs (IZR z) < bpow radix2 1024.
Proof.
  intros H. rewrite <- abs_IZR. apply Rlt_trans with (IZR (2 ^ 53)).
  - apply IZR_lt. exact H.
  - change (IZR (2 ^ 53)) with (bpow radix2 53). apply bpow_lt. lia.
Qed.

Lemma badd_exact (u v : b64) (a b : Z) :
  is_finite u = true -> is_finite v = true -> B2R u = IZR a -> B2R v = IZR b ->
  (Z.abs (a + b) < 2 ^ 53)%Z ->
  is_finite (badd u v) = true /\ B2R (badd u v) = IZR (a + b).
Proof.
  intros Fu Fv Eu Ev H. unfold badd.
  generalize (Bplus_correct 53 1024 _ _ mode_NE u v Fu Fv).
  rewrite Eu, Ev, <- plus_IZR.
  rewrite (round_generic radix2 fexp64 _ (IZR (a + b)) (format_IZR _ H)).
  rewrite Rlt_bool_true by (apply IZR_lt_bpow_emax; exact H).
  intros [E [F _]]. split; assumption.
Qed.

Lemma bofZ_finite_exact (z : Z) :
  (Z.abs z < 2 ^ 53)%Z -> is_finite (bofZ z) = true /\ B2R (bofZ z) = IZR z.
Proof.
  intros H. split; [|apply B2R_bofZ_exact; exact H].
  unfold bofZ, mk.
  generalize (binary_normalize_correct 53 1024 _ _ mode_NE z 0 false). cbv zeta.
  assert (E : F2R (Float radix2 z 0) = IZR z) by (unfold F2R; simpl; ring).
  rewrite E. rewrite (round_generic radix2 fexp64 _ (IZR z) (format_IZR z H)).
  rewrite Rlt_bool_true by (apply IZR_lt_bpow_emax; exact H).
  intros [_ [F _]]. exact F.
Qed.

Lemma Btrunc_IZR (r : b64) (a : Z) : B2R r = IZR a -> Btrunc r = a.
Proof.
  intros E. apply eq_IZR. rewrite Btrunc_correct by reflexivity. rewrite E.
  apply round_generic; auto with typeclass_instances.
  apply generic_format_FIX. exists (Float radix2 a 0); [|reflexivity].
  unfold F2R. simpl. ring.
Qed.

Lemma digital_value_small (bits i : Z) :
  (0 <= i)%Z -> (i < bits)%Z -> (bits <= 53)%Z -> digital_value bits i = (2 ^ (bits - (i + 1)))%Z.
Proof.
  intros H0 H1 H2. unfold digital_value, int64_wrap.
  assert (0 < 2 ^ (bits - (i + 1)))%Z by (apply Z.pow_pos_nonneg; lia).
  assert (2 ^ (bits - (i + 1)) <= 2 ^ 52)%Z by (apply Z.pow_le_mono_r; lia).
  rewrite Z.mod_small; lia.
Qed.

(* ---------------------------------------------------------------- an integer shadow of the loop *)

(* the same loop with the accumulator kept as an exact integer *)
Definition zstep (bits : Z) (st : Z * b64 * b64) (i : Z) : Z * b64 * b64 :=
  let '(a, rm, rf) := st in
  let hit := bge rm rf in
  (if hit then (a + 2 ^ (bits - (i + 1)))%Z else a,
   if hit then bsub rm rf else rm,
   bdiv rf (bofZ 2)).

Fixpoint zloop (bits : Z) (n : nat) (i : Z) (st : Z * b64 * b64) : Z * b64 * b64 :=
  match n with
  | O => st
  | S n' => zloop bits n' (i + 1) (zstep bits st i)
  end.

Lemma pow_split (bits i : Z) : (0 <= i)%Z -> (i < bits)%Z ->
  (2 ^ (bits - i) = 2 * 2 ^ (bits - (i + 1)))%Z.
Proof.
  intros. replace (bits - i)%Z with (Z.succ (bits - (i + 1)))%Z by lia.
  rewrite Z.pow_succ_r by lia. reflexivity.
Qed.

Lemma sar_loop_shadow (bits : Z) (Hb : (bits <= 53)%Z) :
  forall (n : nat) (i : Z) (s : sar_state) (a : Z),
  (0 <= i)%Z -> (i + Z.of_nat n <= bits)%Z ->
  is_finite (acc s) = true -> B2R (acc s) = IZR a ->
  (0 <= a)%Z -> (a + 2 ^ (bits - i) <= 2 ^ bits)%Z ->
  let s' := sar_loop bits n i s in
  let '(a', rm', rf') := zloop bits n i (a, rem s, ref s) in
  is_finite (acc s') = true /\ B2R (acc s') = IZR a' /\ rem s' = rm' /\ ref s' = rf' /\
  (0 <= a')%Z /\ (a' + 2 ^ (bits - (i + Z.of_nat n)) <= 2 ^ bits)%Z.
Proof.
  induction n as [|n IH]; intros i s a Hi Hn Fa Ea Ha Hub.
  - cbn [sar_loop zloop]. rewrite Z.add_0_r. tauto.
  - cbn [sar_loop zloop]. unfold zstep at 1.
    assert (Hi' : (i < bits)%Z) by lia.
    assert (Hp := pow_split bits i Hi Hi').
    assert (Pp : (0 < 2 ^ (bits - (i + 1)))%Z) by (apply Z.pow_pos_nonneg; lia).
    assert (P53 : (2 ^ bits <= 2 ^ 53)%Z) by (apply Z.pow_le_mono_r; lia).
    set (dv := (2 ^ (bits - (i + 1)))%Z) in *.
    specialize (IH (i + 1)%Z (sar_step bits s i) (if bge (rem s) (ref s) then (a + dv)%Z else a)).
    replace (i + 1 + Z.of_nat n)%Z with (i + Z.of_nat (S n))%Z in IH by lia.
    unfold sar_step in IH at 2 3. cbn [rem ref] in IH.
    apply IH; clear IH; try lia.
    + unfold sar_step. cbn [acc]. destruct (bge (rem s) (ref s)); [|exact Fa].
      rewrite (digital_value_small bits i Hi Hi' Hb). fold dv.
      destruct (bofZ_finite_exact dv) as [Fd Ed]; [lia|].
      apply (badd_exact _ _ a dv Fa Fd Ea Ed). lia.
    + unfold sar_step. cbn [acc]. destruct (bge (rem s) (ref s)); [|exact Ea].
      rewrite (digital_value_small bits i Hi Hi' Hb). fold dv.
      destruct (bofZ_finite_exact dv) as [Fd Ed]; [lia|].
      apply (badd_exact _ _ a dv Fa Fd Ea Ed). lia.
    + destruct (bge (rem s) (ref s)); lia.
    + destruct (bge (rem s) (ref s)); lia.
Qed.

(* the final accumulator is an integer in 0 .. 2^bits - 1, whatever the voltage *)
Theorem sar_acc_range (bits : Z) (vmax x : b64) :
  (1 <= bits <= 53)%Z ->
  exists a, is_finite (sar_acc bits vmax x) = true /\ B2R (sar_acc bits vmax x) = IZR a /\
            (0 <= a <= 2 ^ bits - 1)%Z /\
            a = fst (fst (zloop bits (Z.to_nat bits) 0 (0%Z, x, bdiv vmax (bofZ 2)))).
Proof.
  intros Hb. unfold sar_acc.
  set (s0 := {| acc := pzero; rem := x; ref := bdiv vmax (bofZ 2) |}).
  generalize (sar_loop_shadow bits ltac:(lia) (Z.to_nat bits) 0 s0 0 ltac:(lia) ltac:(lia)
                eq_refl eq_refl ltac:(lia) ltac:(rewrite Z.sub_0_r; lia)).
  cbv zeta. cbn [rem ref s0].
  destruct (zloop bits (Z.to_nat bits) 0 (0%Z, x, bdiv vmax (bofZ 2))) as [[a' rm'] rf'].
  intros [F [E [_ [_ [H0 H1]]]]]. exists a'. cbn [fst].
  replace (bits - (0 + Z.of_nat (Z.to_nat bits)))%Z with 0%Z in H1 by lia.
  change (2 ^ 0)%Z with 1%Z in H1. repeat split; try assumption; lia.
Qed.

Theorem sar_range (w bits : Z) (vmax x : b64) c :
  (1 <= bits <= 53)%Z -> sar_code w bits vmax x = Some c -> (0 <= c <= 2 ^ bits - 1)%Z.
Proof.
  intros Hb Hc. destruct (sar_acc_range bits vmax x Hb) as [a [F [E [Ha _]]]].
  unfold sar_code, cast_unsigned, btruncZ in Hc. rewrite (Btrunc_IZR _ a E) in Hc.
  destruct (sar_acc bits vmax x); try discriminate;
    (destruct ((0 <=? a)%Z && (a <? 2 ^ w)%Z); [|discriminate]); inversion Hc; subst; exact Ha.
Qed.

(* the cast is defined whenever the type is wide enough *)
Theorem sar_defined (w bits : Z) (vmax x : b64) :
  (1 <= bits <= 53)%Z -> (bits <= w)%Z -> exists c, sar_code w bits vmax x = Some c.
Proof.
  intros Hb Hw. destruct (sar_acc_range bits vmax x Hb) as [a [F [E [Ha _]]]].
  unfold sar_code, cast_unsigned, btruncZ. rewrite (Btrunc_IZR _ a E).
  assert (2 ^ bits <= 2 ^ w)%Z by (apply Z.pow_le_mono_r; lia).
  assert (((0 <=? a)%Z && (a <? 2 ^ w)%Z) = true) as T.
  { apply andb_true_intro. split; [apply Z.leb_le|apply Z.ltb_lt]; lia. }
  destruct (sar_acc bits vmax x); try discriminate; rewrite T; eexists; reflexivity.
Qed.

(* ---------------------------------------------------------------- monotonicity *)

Lemma bge_finite (x y : b64) :
  is_finite x = true -> is_finite y = true -> bge x y = Rle_bool (B2R y) (B2R x).
Proof. intros Fx Fy. unfold bge. apply ble_finite; assumption. Qed.

(* halving a finite non-negative reference keeps it finite and non-negative *)
Lemma half_ref (rf : b64) :
  is_finite rf = true -> 0 <= B2R rf ->
  is_finite (bdiv rf (bofZ 2)) = true /\ 0 <= B2R (bdiv rf (bofZ 2)).
Proof.
  intros F P. destruct (bofZ_finite_exact 2) as [F2 E2]; [reflexivity|].
  assert (Z2 : B2R (bofZ 2) <> 0) by (rewrite E2; lra).
  unfold bdiv. generalize (Bdiv_correct 53 1024 _ _ mode_NE rf (bofZ 2) Z2). rewrite E2.
  assert (H0 : 0 <= rnd (B2R rf / 2)) by (apply rnd_nonneg; lra).
  assert (H1 : rnd (B2R rf / 2) <= B2R rf).
  { rewrite <- (round_generic radix2 fexp64 ZnearestE (B2R rf) (generic_format_B2R 53 1024 rf)) at 2.
    apply rnd_le. lra. }
  rewrite rnd_eq. rewrite Rlt_bool_true.
  - intros [E [Fi _]]. rewrite F in Fi. split; [exact Fi|]. rewrite E. exact H0.
  - rewrite Rabs_pos_eq by exact H0. apply Rle_lt_trans with (B2R rf); [exact H1|].
    apply Rle_lt_trans with (Rabs (B2R rf)); [apply Rle_abs|]. apply abs_B2R_lt_emax.
Qed.

(* subtracting a non-negative reference from a remainder at least as large stays finite *)
Lemma sub_ref (rm rf : b64) :
  is_finite rm = true -> is_finite rf = true -> 0 <= B2R rf -> B2R rf <= B2R rm ->
  is_finite (bsub rm rf) = true /\ B2R (bsub rm rf) = rnd (B2R rm - B2R rf).
Proof.
  intros Fm Ff P H. unfold bsub.
  generalize (Bminus_correct 53 1024 _ _ mode_NE rm rf Fm Ff). rewrite rnd_eq.
  assert (H0 : 0 <= rnd (B2R rm - B2R rf)) by (apply rnd_nonneg; lra).
  assert (H1 : rnd (B2R rm - B2R rf) <= B2R rm).
  { rewrite <- (round_generic radix2 fexp64 ZnearestE (B2R rm) (generic_format_B2R 53 1024 rm)) at 2.
    apply rnd_le. lra. }
  rewrite Rlt_bool_true.
  - intros [E [Fi _]]. split; assumption.
  - rewrite Rabs_pos_eq by exact H0. apply Rle_lt_trans with (B2R rm); [exact H1|].
    apply Rle_lt_trans with (Rabs (B2R rm)); [apply Rle_abs|]. apply abs_B2R_lt_emax.
Qed.

Section SarMono.
Variable bits : Z.
Hypothesis Hb : (1 <= bits <= 53)%Z.

(* relation between the run on x and the run on y >= x, before bit i is decided *)
Definition rel (i : Z) (sx sy : Z * b64 * b64) : Prop :=
  let '(ax, rx, fx) := sx in
  let '(ay, ry, fy) := sy in
  fx = fy /\ is_finite fx = true /\ 0 <= B2R fx /\ is_finite rx = true /\ is_finite ry = true /\
  ((ax = ay /\ B2R rx <= B2R ry) \/ (ax + 2 ^ (bits - i) <= ay)%Z).

Lemma rel_step (i : Z) sx sy :
  (0 <= i)%Z -> (i < bits)%Z -> rel i sx sy -> rel (i + 1) (zstep bits sx i) (zstep bits sy i).
Proof.
  intros Hi Hi'. destruct sx as [[ax rx] fx]. destruct sy as [[ay ry] fy].
  intros [Ef [Ff [Pf [Frx [Fry Hcase]]]]]. subst fy.
  assert (Hp := pow_split bits i Hi Hi').
  assert (Pp : (0 < 2 ^ (bits - (i + 1)))%Z) by (apply Z.pow_pos_nonneg; lia).
  set (dv := (2 ^ (bits - (i + 1)))%Z) in *.
  destruct (half_ref fx Ff Pf) as [Fh Ph].
  unfold zstep, rel. fold dv.
  rewrite (bge_finite rx fx Frx Ff), (bge_finite ry fx Fry Ff).
  split; [reflexivity|]. split; [exact Fh|]. split; [exact Ph|].
  destruct (Rle_bool_spec (B2R fx) (B2R rx)) as [Hx|Hx];
  destruct (Rle_bool_spec (B2R fx) (B2R ry)) as [Hy|Hy].
  - destruct (sub_ref rx fx Frx Ff Pf Hx) as [F1 E1]. destruct (sub_ref ry fx Fry Ff Pf Hy) as [F2 E2].
    split; [exact F1|]. split; [exact F2|].
    destruct Hcase as [[Ea Hr]|Hz].
    + left. split; [lia|]. rewrite E1, E2. apply rnd_le. lra.
    + right. lia.
  - destruct (sub_ref rx fx Frx Ff Pf Hx) as [F1 E1].
    split; [exact F1|]. split; [exact Fry|].
    destruct Hcase as [[Ea Hr]|Hz]; [exfalso; lra|]. right. lia.
  - destruct (sub_ref ry fx Fry Ff Pf Hy) as [F2 E2].
    split; [exact Frx|]. split; [exact F2|].
    destruct Hcase as [[Ea Hr]|Hz]; right; lia.
  - split; [exact Frx|]. split; [exact Fry|].
    destruct Hcase as [[Ea Hr]|Hz]; [left; split; [lia|lra]|right; lia].
Qed.

Lemma rel_loop : forall (n : nat) (i : Z) sx sy,
  (0 <= i)%Z -> (i + Z.of_nat n <= bits)%Z -> rel i sx sy ->
  rel (i + Z.of_nat n) (zloop bits n i sx) (zloop bits n i sy).
Proof.
  induction n as [|n IH]; intros i sx sy Hi Hn H.
  - cbn [zloop]. rewrite Z.add_0_r. exact H.
  - cbn [zloop]. replace (i + Z.of_nat (S n))%Z with (i + 1 + Z.of_nat n)%Z by lia.
    apply IH; try lia. apply rel_step; try lia. exact H.
Qed.

Theorem sar_monotone (w : Z) (vmax x y : b64) cx cy :
  is_finite vmax = true -> 0 <= B2R vmax ->
  is_finite x = true -> is_finite y = true -> ble x y = true ->
  sar_code w bits vmax x = Some cx -> sar_code w bits vmax y = Some cy -> (cx <= cy)%Z.
Proof.
  intros Fv Pv Fx Fy Hxy Hx Hy.
  destruct (sar_acc_range bits vmax x Hb) as [ax [Fax [Eax [_ Dx]]]].
  destruct (sar_acc_range bits vmax y Hb) as [ay [Fay [Eay [_ Dy]]]].
  assert (cx = ax).
  { unfold sar_code, cast_unsigned, btruncZ in Hx. rewrite (Btrunc_IZR _ ax Eax) in Hx.
    destruct (sar_acc bits vmax x); try discriminate;
      (destruct ((0 <=? ax)%Z && (ax <? 2 ^ w)%Z); [|discriminate]); inversion Hx; reflexivity. }
  assert (cy = ay).
  { unfold sar_code, cast_unsigned, btruncZ in Hy. rewrite (Btrunc_IZR _ ay Eay) in Hy.
    destruct (sar_acc bits vmax y); try discriminate;
      (destruct ((0 <=? ay)%Z && (ay <? 2 ^ w)%Z); [|discriminate]); inversion Hy; reflexivity. }
  subst cx cy.
  destruct (half_ref vmax Fv Pv) as [Fh Ph].
  assert (R0 : rel 0 (0%Z, x, bdiv vmax (bofZ 2)) (0%Z, y, bdiv vmax (bofZ 2))).
  { unfold rel. repeat split; try assumption. left. split; [reflexivity|].
    apply ble_finite_true; assumption. }
  generalize (rel_loop (Z.to_nat bits) 0 _ _ ltac:(lia) ltac:(lia) R0).
  destruct (zloop bits (Z.to_nat bits) 0 (0%Z, x, bdiv vmax (bofZ 2))) as [[ax' rx'] fx'].
  destruct (zloop bits (Z.to_nat bits) 0 (0%Z, y, bdiv vmax (bofZ 2))) as [[ay' ry'] fy'].
  cbn [fst] in Dx, Dy. subst ax ay. unfold rel.
  replace (bits - (0 + Z.of_nat (Z.to_nat bits)))%Z with 0%Z by lia. change (2 ^ 0)%Z with 1%Z.
  intros [_ [_ [_ [_ [_ [[E _]|H]]]]]]; lia.
Qed.

End SarMono.
