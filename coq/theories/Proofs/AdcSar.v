(* C16: the successive-approximation converter.  The code is accumulated in exact integers (the
   unsigned output type), the remainder/reference arithmetic is binary64.  For ALL resolutions:
   - every code lies in 0 .. 2^bits - 1, for ALL voltages (NaN and infinities included) and ALL
     reference voltages;
   - the code is non-decreasing in the voltage, for all finite voltages and finite vmax >= 0. *)
From Coq Require Import ZArith List Bool Reals Lia Lra.
From Flocq Require Import Core BinarySingleNaN.
From PyxelV Require Import Lib.B64 Model.Adc Proofs.AdcChain Proofs.AdcFloat Proofs.AdcRange.
Import ListNotations.
Open Scope R_scope.

Notation fexp64 := (SpecFloat.fexp 53 1024).
Notation rnd := (round radix2 fexp64 ZnearestE).

#[local] Instance fexp64_valid'' : Valid_exp fexp64 := fexp_correct 53 1024 _.

Lemma IZR_lt_bpow_emax (z : Z) : (Z.abs z < 2 ^ 53)%Z -> Rabs (IZR z) < bpow radix2 1024.
Proof.
  intros H. rewrite <- abs_IZR. apply Rlt_trans with (IZR (2 ^ 53)).
  - apply IZR_lt. exact H.
  - change (IZR (2 ^ 53)) with (bpow radix2 53). apply bpow_lt. lia.
Qed.

Lemma bofZ_finite_exact (z : Z) :
  (Z.abs z < 2 ^ 53)%Z -> is_finite (bofZ z) = true /\ B2R (bofZ z) = IZR z.
Proof.
  intros H. split; [|apply B2R_bofZ_exact; exact H].
  unfold bofZ, mk.
  generalize (binary_normalize_correct 53 1024 _ _ mode_NE z 0 false). cbv zeta.
  assert (E : F2R (Float radix2 z 0) = IZR z) by (unfold F2R; simpl; ring).
  rewrite E. rewrite (round_generic radix2 fexp64 _ (IZR z) (format_IZR z H)).
  rewrite Rlt_bool_true by (apply IZR_lt_bpow_emax; exact H).
  intros [_ [F _]]. exact F.
Qed.

Lemma pow_split (bits i : Z) : (0 <= i)%Z -> (i < bits)%Z ->
  (2 ^ (bits - i) = 2 * 2 ^ (bits - (i + 1)))%Z.
Proof.
  intros. replace (bits - i)%Z with (Z.succ (bits - (i + 1)))%Z by lia.
  rewrite Z.pow_succ_r by lia. reflexivity.
Qed.

(* ---------------------------------------------------------------- range *)

Lemma sar_loop_range (bits : Z) :
  forall (n : nat) (i : Z) (s : sar_state),
  (0 <= i)%Z -> (i + Z.of_nat n <= bits)%Z ->
  (0 <= acc s)%Z -> (acc s + 2 ^ (bits - i) <= 2 ^ bits)%Z ->
  let s' := sar_loop bits n i s in
  (0 <= acc s')%Z /\ (acc s' + 2 ^ (bits - (i + Z.of_nat n)) <= 2 ^ bits)%Z.
Proof.
  induction n as [|n IH]; intros i s Hi Hn Ha Hub.
  - cbn [sar_loop]. rewrite Z.add_0_r. tauto.
  - cbn [sar_loop].
    assert (Hi' : (i < bits)%Z) by lia.
    assert (Hp := pow_split bits i Hi Hi').
    assert (Pp : (0 < 2 ^ (bits - (i + 1)))%Z) by (apply Z.pow_pos_nonneg; lia).
    replace (i + Z.of_nat (S n))%Z with (i + 1 + Z.of_nat n)%Z by lia.
    apply IH; try lia; unfold sar_step, digital_value; cbn [acc]; destruct (bge (rem s) (ref s)); lia.
Qed.

Theorem sar_acc_range (bits : Z) (vmax x : b64) :
  (1 <= bits)%Z -> (0 <= sar_acc bits vmax x <= 2 ^ bits - 1)%Z.
Proof.
  intros Hb. unfold sar_acc.
  set (s0 := {| acc := 0; rem := x; ref := bdiv vmax (bofZ 2) |}).
  generalize (sar_loop_range bits (Z.to_nat bits) 0 s0 ltac:(lia) ltac:(lia) ltac:(cbn; lia)
                ltac:(cbn [acc s0]; rewrite Z.sub_0_r; lia)).
  cbv zeta. replace (bits - (0 + Z.of_nat (Z.to_nat bits)))%Z with 0%Z by lia.
  change (2 ^ 0)%Z with 1%Z. lia.
Qed.

Theorem sar_range (w bits : Z) (vmax x : b64) c :
  (1 <= bits)%Z -> sar_code w bits vmax x = Some c -> (0 <= c <= 2 ^ bits - 1)%Z.
Proof.
  intros Hb Hc. pose proof (sar_acc_range bits vmax x Hb) as Ha.
  unfold sar_code, cast_unsigned in Hc.
  destruct ((0 <=? sar_acc bits vmax x)%Z && (sar_acc bits vmax x <? 2 ^ w)%Z); [|discriminate].
  inversion Hc; subst; exact Ha.
Qed.

(* the unsigned accumulator never wraps and the result is defined whenever the type is wide enough *)
Theorem sar_defined (w bits : Z) (vmax x : b64) :
  (1 <= bits)%Z -> (bits <= w)%Z -> sar_code w bits vmax x = Some (sar_acc bits vmax x).
Proof.
  intros Hb Hw. pose proof (sar_acc_range bits vmax x Hb) as Ha.
  unfold sar_code, cast_unsigned.
  assert (2 ^ bits <= 2 ^ w)%Z by (apply Z.pow_le_mono_r; lia).
  assert (((0 <=? sar_acc bits vmax x)%Z && (sar_acc bits vmax x <? 2 ^ w)%Z) = true) as ->.
  { apply andb_true_intro. split; [apply Z.leb_le|apply Z.ltb_lt]; lia. }
  reflexivity.
Qed.

(* ---------------------------------------------------------------- monotonicity *)

Lemma bge_finite (x y : b64) :
  is_finite x = true -> is_finite y = true -> bge x y = Rle_bool (B2R y) (B2R x).
Proof. intros Fx Fy. unfold bge. apply ble_finite; assumption. Qed.

(* halving a finite non-negative reference keeps it finite and non-negative *)
Lemma half_ref (rf : b64) :
  is_finite rf = true -> 0 <= B2R rf ->
  is_finite (bdiv rf (bofZ 2)) = true /\ 0 <= B2R (bdiv rf (bofZ 2)).
Proof.
  intros F P. destruct (bofZ_finite_exact 2) as [F2 E2]; [reflexivity|].
  assert (Z2 : B2R (bofZ 2) <> 0) by (rewrite E2; lra).
  unfold bdiv. generalize (Bdiv_correct 53 1024 _ _ mode_NE rf (bofZ 2) Z2). rewrite E2.
  assert (H0 : 0 <= rnd (B2R rf / 2)) by (apply rnd_nonneg; lra).
  assert (H1 : rnd (B2R rf / 2) <= B2R rf).
  { rewrite <- (round_generic radix2 fexp64 ZnearestE (B2R rf) (generic_format_B2R 53 1024 rf)) at 2.
    apply rnd_le. lra. }
  rewrite rnd_eq. rewrite Rlt_bool_true.
  - intros [E [Fi _]]. rewrite F in Fi. split; [exact Fi|]. rewrite E. exact H0.
  - rewrite Rabs_pos_eq by exact H0. apply Rle_lt_trans with (B2R rf); [exact H1|].
    apply Rle_lt_trans with (Rabs (B2R rf)); [apply Rle_abs|]. apply abs_B2R_lt_emax.
Qed.

(* subtracting a non-negative reference from a remainder at least as large stays finite *)
Lemma sub_ref (rm rf : b64) :
  is_finite rm = true -> is_finite rf = true -> 0 <= B2R rf -> B2R rf <= B2R rm ->
  is_finite (bsub rm rf) = true /\ B2R (bsub rm rf) = rnd (B2R rm - B2R rf).
Proof.
  intros Fm Ff P H. unfold bsub.
  generalize (Bminus_correct 53 1024 _ _ mode_NE rm rf Fm Ff). rewrite rnd_eq.
  assert (H0 : 0 <= rnd (B2R rm - B2R rf)) by (apply rnd_nonneg; lra).
  assert (H1 : rnd (B2R rm - B2R rf) <= B2R rm).
  { rewrite <- (round_generic radix2 fexp64 ZnearestE (B2R rm) (generic_format_B2R 53 1024 rm)) at 2.
    apply rnd_le. lra. }
  rewrite Rlt_bool_true.
  - intros [E [Fi _]]. split; assumption.
  - rewrite Rabs_pos_eq by exact H0. apply Rle_lt_trans with (B2R rm); [exact H1|].
    apply Rle_lt_trans with (Rabs (B2R rm)); [apply Rle_abs|]. apply abs_B2R_lt_emax.
Qed.

Section SarMono.
Variable bits : Z.
Hypothesis Hb : (1 <= bits)%Z.

(* relation between the run on x and the run on y >= x, before bit i is decided *)
Definition rel (i : Z) (sx sy : sar_state) : Prop :=
  ref sx = ref sy /\ is_finite (ref sx) = true /\ 0 <= B2R (ref sx) /\
  is_finite (rem sx) = true /\ is_finite (rem sy) = true /\
  ((acc sx = acc sy /\ B2R (rem sx) <= B2R (rem sy)) \/ (acc sx + 2 ^ (bits - i) <= acc sy)%Z).

Lemma rel_step (i : Z) sx sy :
  (0 <= i)%Z -> (i < bits)%Z -> rel i sx sy -> rel (i + 1) (sar_step bits sx i) (sar_step bits sy i).
Proof.
  intros Hi Hi'. destruct sx as [ax rx fx]. destruct sy as [ay ry fy]. unfold rel. cbn [acc rem ref].
  intros [Ef [Ff [Pf [Frx [Fry Hcase]]]]]. subst fy.
  assert (Hp := pow_split bits i Hi Hi').
  assert (Pp : (0 < 2 ^ (bits - (i + 1)))%Z) by (apply Z.pow_pos_nonneg; lia).
  destruct (half_ref fx Ff Pf) as [Fh Ph].
  unfold sar_step, digital_value. cbn [acc rem ref].
  set (dv := (2 ^ (bits - (i + 1)))%Z) in *.
  rewrite (bge_finite rx fx Frx Ff), (bge_finite ry fx Fry Ff).
  split; [reflexivity|]. split; [exact Fh|]. split; [exact Ph|].
  destruct (Rle_bool_spec (B2R fx) (B2R rx)) as [Hx|Hx];
  destruct (Rle_bool_spec (B2R fx) (B2R ry)) as [Hy|Hy].
  - destruct (sub_ref rx fx Frx Ff Pf Hx) as [F1 E1]. destruct (sub_ref ry fx Fry Ff Pf Hy) as [F2 E2].
    split; [exact F1|]. split; [exact F2|].
    destruct Hcase as [[Ea Hr]|Hz].
    + left. split; [lia|]. rewrite E1, E2. apply rnd_le. lra.
    + right. lia.
  - destruct (sub_ref rx fx Frx Ff Pf Hx) as [F1 E1].
    split; [exact F1|]. split; [exact Fry|].
    destruct Hcase as [[Ea Hr]|Hz]; [exfalso; lra|]. right. lia.
  - destruct (sub_ref ry fx Fry Ff Pf Hy) as [F2 E2].
    split; [exact Frx|]. split; [exact F2|].
    destruct Hcase as [[Ea Hr]|Hz]; right; lia.
  - split; [exact Frx|]. split; [exact Fry|].
    destruct Hcase as [[Ea Hr]|Hz]; [left; split; [lia|lra]|right; lia].
Qed.

Lemma rel_loop : forall (n : nat) (i : Z) sx sy,
  (0 <= i)%Z -> (i + Z.of_nat n <= bits)%Z -> rel i sx sy ->
  rel (i + Z.of_nat n) (sar_loop bits n i sx) (sar_loop bits n i sy).
Proof.
  induction n as [|n IH]; intros i sx sy Hi Hn H.
  - cbn [sar_loop]. rewrite Z.add_0_r. exact H.
  - cbn [sar_loop]. replace (i + Z.of_nat (S n))%Z with (i + 1 + Z.of_nat n)%Z by lia.
    apply IH; try lia. apply rel_step; try lia. exact H.
Qed.

Theorem sar_acc_monotone (vmax x y : b64) :
  is_finite vmax = true -> 0 <= B2R vmax ->
  is_finite x = true -> is_finite y = true -> ble x y = true ->
  (sar_acc bits vmax x <= sar_acc bits vmax y)%Z.
Proof.
  intros Fv Pv Fx Fy Hxy. unfold sar_acc.
  destruct (half_ref vmax Fv Pv) as [Fh Ph].
  set (sx := {| acc := 0; rem := x; ref := bdiv vmax (bofZ 2) |}).
  set (sy := {| acc := 0; rem := y; ref := bdiv vmax (bofZ 2) |}).
  assert (R0 : rel 0 sx sy).
  { unfold rel, sx, sy. cbn [acc rem ref]. repeat split; try assumption. left. split; [reflexivity|].
    apply ble_finite_true; assumption. }
  generalize (rel_loop (Z.to_nat bits) 0 _ _ ltac:(lia) ltac:(lia) R0). unfold rel.
  replace (bits - (0 + Z.of_nat (Z.to_nat bits)))%Z with 0%Z by lia. change (2 ^ 0)%Z with 1%Z.
  intros [_ [_ [_ [_ [_ [[E _]|H]]]]]]; lia.
Qed.

Theorem sar_monotone (w : Z) (vmax x y : b64) cx cy :
  is_finite vmax = true -> 0 <= B2R vmax ->
  is_finite x = true -> is_finite y = true -> ble x y = true ->
  sar_code w bits vmax x = Some cx -> sar_code w bits vmax y = Some cy -> (cx <= cy)%Z.
Proof.
  intros Fv Pv Fx Fy Hxy Hx Hy.
  pose proof (sar_acc_monotone vmax x y Fv Pv Fx Fy Hxy) as H.
  unfold sar_code, cast_unsigned in Hx, Hy.
  destruct ((0 <=? sar_acc bits vmax x)%Z && (sar_acc bits vmax x <? 2 ^ w)%Z); [|discriminate].
  destruct ((0 <=? sar_acc bits vmax y)%Z && (sar_acc bits vmax y <? 2 ^ w)%Z); [|discriminate].
  inversion Hx; inversion Hy; subst; exact H.
Qed.

End SarMono.

(* ---------------------------------------------------------------- infinite voltages *)

Section SarInf.
Variable bits : Z.
Hypothesis Hb : (1 <= bits)%Z.

Lemma sar_loop_ninf : forall (n : nat) (i : Z) (s : sar_state),
  rem s = ninf -> is_finite (ref s) = true -> 0 <= B2R (ref s) ->
  acc (sar_loop bits n i s) = acc s.
Proof.
  induction n as [|n IH]; intros i s Hr Ff Pf; [reflexivity|].
  cbn [sar_loop]. destruct (half_ref (ref s) Ff Pf) as [Fh Ph].
  assert (Hit : bge (rem s) (ref s) = false).
  { rewrite Hr. unfold bge, ble. destruct (ref s); try discriminate; reflexivity. }
  rewrite IH; unfold sar_step; rewrite Hit; cbn [acc rem ref]; auto.
Qed.

Lemma sar_loop_pinf : forall (n : nat) (i : Z) (s : sar_state),
  (0 <= i)%Z -> (i + Z.of_nat n <= bits)%Z ->
  rem s = pinf -> is_finite (ref s) = true -> 0 <= B2R (ref s) ->
  (acc (sar_loop bits n i s) + 2 ^ (bits - (i + Z.of_nat n)) = acc s + 2 ^ (bits - i))%Z.
Proof.
  induction n as [|n IH]; intros i s Hi Hn Hr Ff Pf.
  - cbn [sar_loop]. rewrite Z.add_0_r. reflexivity.
  - cbn [sar_loop]. destruct (half_ref (ref s) Ff Pf) as [Fh Ph].
    assert (Hit : bge (rem s) (ref s) = true).
    { rewrite Hr. unfold bge, ble. destruct (ref s); try discriminate; reflexivity. }
    assert (Hsub : bsub pinf (ref s) = pinf) by (destruct (ref s); try discriminate; reflexivity).
    assert (Hi' : (i < bits)%Z) by lia.
    replace (i + Z.of_nat (S n))%Z with (i + 1 + Z.of_nat n)%Z by lia.
    rewrite IH; try lia; unfold sar_step; rewrite Hit; cbn [acc rem ref]; auto.
    + unfold digital_value. rewrite (pow_split bits i Hi Hi'). lia.
    + rewrite Hr. exact Hsub.
Qed.

Theorem sar_acc_ninf (vmax : b64) :
  is_finite vmax = true -> 0 <= B2R vmax -> sar_acc bits vmax ninf = 0%Z.
Proof.
  intros Fv Pv. unfold sar_acc. destruct (half_ref vmax Fv Pv) as [Fh Ph].
  rewrite sar_loop_ninf; auto.
Qed.

Theorem sar_acc_pinf (vmax : b64) :
  is_finite vmax = true -> 0 <= B2R vmax -> sar_acc bits vmax pinf = (2 ^ bits - 1)%Z.
Proof.
  intros Fv Pv. unfold sar_acc. destruct (half_ref vmax Fv Pv) as [Fh Ph].
  generalize (sar_loop_pinf (Z.to_nat bits) 0 {| acc := 0; rem := pinf; ref := bdiv vmax (bofZ 2) |}
                ltac:(lia) ltac:(lia) eq_refl Fh Ph).
  cbn [acc]. replace (bits - (0 + Z.of_nat (Z.to_nat bits)))%Z with 0%Z by lia.
  rewrite Z.sub_0_r. change (2 ^ 0)%Z with 1%Z. lia.
Qed.

(* monotone over all non-NaN voltages, infinities included *)
Theorem sar_acc_monotone_ext (vmax x y : b64) :
  is_finite vmax = true -> 0 <= B2R vmax ->
  bis_nan x = false -> bis_nan y = false -> ble x y = true ->
  (sar_acc bits vmax x <= sar_acc bits vmax y)%Z.
Proof.
  intros Fv Pv Nx Ny Hxy.
  pose proof (sar_acc_range bits vmax x Hb) as Rx. pose proof (sar_acc_range bits vmax y Hb) as Ry.
  destruct x as [sx|[|]| |sx mx ex Bx]; try discriminate Nx;
  destruct y as [sy|[|]| |sy my ey By]; try discriminate Ny.
  all: try (apply sar_acc_monotone; auto; reflexivity).
  all: try (change (B754_infinity true) with ninf; rewrite (sar_acc_ninf vmax Fv Pv); lia).
  all: try (change (B754_infinity false) with pinf; rewrite (sar_acc_pinf vmax Fv Pv); lia).
  all: exfalso; revert Hxy; unfold ble; simpl; try destruct sx; try destruct sy; discriminate.
Qed.

End SarInf.
