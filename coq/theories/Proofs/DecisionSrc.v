(* Proofs about the generic interpreters of a source description and about histories on the object store
   (C10).  A description accepted by `desc_ok` makes the generic walks equal to the hand-written model of
   Model/Decision.v - for every element type, every list of variables, every vector - and then no history
   of operations changes the declaration or a processor that existed before, and every observation is the
   history-free function of the declaration. *)
From Coq Require Import List Bool Arith String Lia.
From PyxelV Require Import Model.Decision Model.DecisionSrc Proofs.Decision.
Import ListNotations.
Local Open Scope nat_scope.

Section Proofs.
  Context {A : Type}.
  Variable flog fexp : A -> A.
  Variable logdom : A -> bool.

  Notation var := (@var A).
  Notation store := (@store A).

  (* ------------------------------------------------------------------ _set_bound *)

  Lemma side_ok_src sd src ip fn : side_ok sd src ip fn = true -> sd_src sd = src.
  Proof.
    unfold side_ok. destruct (sd_src sd), src; simpl; try discriminate;
      intros H; apply andb_prop in H; destruct H as [H _]; apply Nat.eqb_eq in H; subst; reflexivity.
  Qed.

  Lemma side_ok_log sd src ip fn : side_ok sd src ip fn = true ->
    sd_log sd = LRebind fn \/ (ip = true /\ fn = NpLog10 /\ sd_log sd = LInPlace NpLog10).
  Proof.
    unfold side_ok. intros H. apply andb_prop in H. destruct H as [_ H].
    destruct (sd_log sd) as [|[]|[]], fn; try discriminate; auto.
  Qed.

  Lemma log_vals_np v ls vals :
    ls = LRebind NpLog10 \/ ls = LInPlace NpLog10 ->
    log_vals flog logdom v ls vals = Some (logs flog (islog v) vals).
  Proof. unfold log_vals, logs. intros [->| ->]; destruct (islog v); reflexivity. Qed.

  Lemma side_effect_none g v sd :
    (sd_log sd = LRebind MathLog10 \/ sd_log sd = LRebind NpLog10 \/ g = GCopy \/
     (exists i, sd_src sd = SRepeat i) \/ (exists i, sd_src sd = SUnpack i)) ->
    side_effect flog g v sd = v.
  Proof.
    unfold side_effect. intros [H|[H|[H|[[i H]|[i H]]]]]; try rewrite H; try reflexivity.
    - destruct g; reflexivity.
    - destruct g; reflexivity.
    - destruct g, (sd_log sd); reflexivity.
    - destruct g, (sd_log sd); reflexivity.
  Qed.

  Lemma g_var_step_ok rows d v :
    list_width_ok rows = true -> sb_ok d = true ->
    g_var_step flog logdom rows d v = ((if pv_ok v then var_bounds flog logdom v else None), v).
  Proof.
    intros Hr Hd. destruct rows; [discriminate|].
    unfold sb_ok in Hd.
    apply andb_prop in Hd; destruct Hd as [Hd S56]. cbv zeta in S56.
    apply andb_prop in S56; destruct S56 as [S5 S6].
    apply andb_prop in Hd; destruct Hd as [Hd S4]. apply andb_prop in Hd; destruct Hd as [Hd S3].
    apply andb_prop in Hd; destruct Hd as [S1 S2].
    unfold g_var_step, g_pv_ok, pv_ok, weval, sb_branch, var_bounds.
    destruct v as [k sh lg b]; simpl. destruct b as [|lo hi|l]; simpl.
    - destruct sh; reflexivity.
    - destruct sh as [n|]; simpl.
      + (* vector, shared *)
        unfold side_vals, read_src. simpl.
        rewrite (side_ok_src _ _ _ _ S3), (side_ok_src _ _ _ _ S4). simpl.
        rewrite !log_vals_np.
        2:{ destruct (side_ok_log _ _ _ _ S4) as [->|(_ & _ & ->)]; auto. }
        2:{ destruct (side_ok_log _ _ _ _ S3) as [->|(_ & _ & ->)]; auto. }
        simpl.
        rewrite (side_effect_none (sb_getter d) _ (br_low (sb_shared d)))
          by (right; right; right; left; eexists; apply (side_ok_src _ _ _ _ S3)).
        rewrite (side_effect_none (sb_getter d) _ (br_high (sb_shared d)))
          by (right; right; right; left; eexists; apply (side_ok_src _ _ _ _ S4)).
        reflexivity.
      + (* scalar *)
        unfold side_vals, read_src. simpl.
        rewrite (side_ok_src _ _ _ _ S1), (side_ok_src _ _ _ _ S2). simpl.
        destruct (side_ok_log _ _ _ _ S1) as [L1|(C & _)]; [|discriminate].
        destruct (side_ok_log _ _ _ _ S2) as [L2|(C & _)]; [|discriminate].
        rewrite L1, L2. unfold log_vals. simpl.
        rewrite (side_effect_none (sb_getter d) _ (br_low (sb_scalar d))) by (left; assumption).
        rewrite (side_effect_none (sb_getter d) _ (br_high (sb_scalar d))) by (left; assumption).
        destruct lg; simpl; [|reflexivity].
        rewrite !andb_true_r. destruct (logdom lo); simpl; [|reflexivity].
        destruct (logdom hi); reflexivity.
    - destruct sh as [n|]; simpl.
      + unfold width; simpl. destruct (List.length l =? n) eqn:E; [|reflexivity].
        unfold side_vals, read_src. simpl.
        rewrite (side_ok_src _ _ _ _ S5), (side_ok_src _ _ _ _ S6). simpl.
        rewrite !log_vals_np.
        2:{ destruct (side_ok_log _ _ _ _ S6) as [->|(_ & _ & ->)]; auto. }
        2:{ destruct (side_ok_log _ _ _ _ S5) as [->|(_ & _ & ->)]; auto. }
        simpl.
        rewrite (side_effect_none (sb_getter d) _ (br_low (sb_percomp d))).
        2:{ destruct (side_ok_log _ _ _ _ S5) as [->|(C & _ & _)]; [auto|].
            destruct (sb_getter d); [discriminate|auto]. }
        rewrite (side_effect_none (sb_getter d) _ (br_high (sb_percomp d))).
        2:{ destruct (side_ok_log _ _ _ _ S6) as [->|(C & _ & _)]; [auto|].
            destruct (sb_getter d); [discriminate|auto]. }
        reflexivity.
      + unfold width; simpl. destruct (List.length l =? 1); reflexivity.
  Qed.

  Lemma g_bounds_from_ok rows d vs : forall l u,
    list_width_ok rows = true -> sb_ok d = true ->
    g_bounds_from flog logdom rows d l u vs = (bounds_from flog logdom l u vs, vs).
  Proof.
    induction vs as [|v r IH]; intros l u Hr Hd; simpl; [reflexivity|].
    rewrite (g_var_step_ok rows d v Hr Hd).
    destruct (pv_ok v); [|reflexivity].
    destruct (var_bounds flog logdom v) as [[lo hi]|]; [|reflexivity].
    rewrite (IH _ _ Hr Hd). reflexivity.
  Qed.

  Lemma g_bounds_ok d vs :
    desc_ok d = true -> g_bounds flog logdom d vs = (bounds_walk flog logdom vs, vs).
  Proof.
    unfold desc_ok. intros H. repeat (apply andb_prop in H; destruct H as [H ?]).
    unfold g_bounds, bounds_walk. apply g_bounds_from_ok; assumption.
  Qed.

  (* ------------------------------------------------------------------ convert_to_parameters *)

  Lemma lin_is_eval e c ca cb a b : lin_is e c ca cb = true -> lin_eval e a b = c + ca * a + cb * b.
  Proof.
    unfold lin_is, lin_eval. intros H. repeat (apply andb_prop in H; destruct H as [H ?]).
    apply Nat.eqb_eq in H, H0, H1. subst. reflexivity.
  Qed.

  Lemma lin_is1_eval e c ca a : lin_is1 e c ca = true -> lin_eval e a 1 = c + ca * a.
  Proof.
    unfold lin_is1, lin_eval. intros H. apply andb_prop in H. destruct H as [H H0].
    apply Nat.eqb_eq in H, H0. subst. lia.
  Qed.

  Lemma lin_a_eval e a b : lin_is e 0 1 0 = true -> lin_eval e a b = a.
  Proof. intros H. rewrite (lin_is_eval _ _ _ _ a b H). lia. Qed.
  Lemma lin_ab_eval e a b : lin_is e 0 1 1 = true -> lin_eval e a b = a + b.
  Proof. intros H. rewrite (lin_is_eval _ _ _ _ a b H). lia. Qed.
  Lemma lin_a1_eval e a : lin_is1 e 0 1 = true -> lin_eval e a 1 = a.
  Proof. intros H. rewrite (lin_is1_eval _ _ _ a H). lia. Qed.
  Lemma lin_ab1_eval e a : lin_is1 e 1 1 = true -> lin_eval e a 1 = a + 1.
  Proof. intros H. rewrite (lin_is1_eval _ _ _ a H). lia. Qed.

  Lemma scalar_width_eval w (v : var) : scalar_width_ok w = true -> shape v = None -> weval w v = 1.
  Proof.
    unfold weval, width. intros H S. destruct w as [[|[|k]]|]; try discriminate; [reflexivity|].
    rewrite S. reflexivity.
  Qed.

  Lemma list_width_eval w (v : var) : list_width_ok w = true -> weval w v = width v.
  Proof. destruct w; [discriminate|reflexivity]. Qed.

  Lemma g_convert_from_ok d vs : forall a p,
    cv_ok d = true -> g_convert_from fexp d a vs p = convert_from fexp a vs p.
  Proof.
    intros a p H. unfold cv_ok in H. repeat (apply andb_prop in H; destruct H as [H ?]).
    revert a p. induction vs as [|v r IH]; intros a p; simpl; [reflexivity|].
    unfold cv_branch. destruct (shape v) as [n|] eqn:S.
    - rewrite (list_width_eval _ v H3).
      rewrite (lin_a_eval _ a (width v) H2), (lin_ab_eval _ a (width v) H1),
              (lin_ab_eval _ a (width v) H0).
      apply IH.
    - rewrite (scalar_width_eval _ v H7 S).
      rewrite (lin_a1_eval _ a H6), (lin_ab1_eval _ a H5), (lin_ab1_eval _ a H4).
      assert (W : width v = 1) by (unfold width; rewrite S; reflexivity). rewrite W.
      apply IH.
  Qed.

  Lemma g_convert_ok d vs x :
    cv_ok d = true ->
    g_convert fexp d vs x = convert_walk fexp vs x /\ g_convert_after fexp d vs x = x.
  Proof.
    intros H. unfold g_convert, g_convert_after, convert_walk.
    pose proof H as H'. unfold cv_ok in H'. repeat (apply andb_prop in H'; destruct H' as [H' ?]).
    apply Nat.eqb_eq in H8. rewrite H8, H'. split; [apply g_convert_from_ok; exact H|reflexivity].
  Qed.

  (* ------------------------------------------------------------------ update_processor *)

  Lemma g_assign_from_ok d (vs : list var) : forall a (p : list A),
    up_ok d = true -> g_assign_from d a vs p = assign_from a vs p.
  Proof.
    intros a p H. unfold up_ok in H. repeat (apply andb_prop in H; destruct H as [H ?]).
    revert a. induction vs as [|v r IH]; intros a; simpl; [reflexivity|].
    unfold up_branch. destruct (shape v) as [n|] eqn:S.
    - rewrite (list_width_eval _ v H2).
      assert (W : width v = n) by (unfold width; rewrite S; reflexivity). rewrite W.
      destruct (ub_sel (up_list d)) as [i|s t]; [discriminate|].
      apply andb_prop in H1. destruct H1 as [Hs Ht].
      rewrite (lin_ab_eval _ a n H0). unfold g_sel.
      rewrite (lin_a_eval _ a n Hs), (lin_ab_eval _ a n Ht).
      replace (a + n - a) with n by lia.
      rewrite IH. reflexivity.
    - rewrite (scalar_width_eval _ v H5 S).
      destruct (ub_sel (up_scalar d)) as [i|s t]; [|discriminate].
      rewrite (lin_ab1_eval _ a H3). unfold g_sel. rewrite (lin_a1_eval _ a H4).
      destruct (nth_error p a); simpl; [|reflexivity].
      rewrite IH. reflexivity.
  Qed.

  Lemma g_assign_ok d (vs : list var) (p : list A) : up_ok d = true -> g_assign d vs p = assign_walk vs p.
  Proof.
    intros H. unfold g_assign, assign_walk.
    pose proof H as H'. unfold up_ok in H'. repeat (apply andb_prop in H'; destruct H' as [H' ?]).
    apply Nat.eqb_eq in H6. rewrite H6. apply g_assign_from_ok. exact H.
  Qed.

  (* ------------------------------------------------------------------ histories on the object store *)

  Notation heap_extends := (@heap_extends A).

  Lemma heap_extends_refl h : heap_extends h h.
  Proof. intros l c H; exact H. Qed.

  Lemma heap_extends_app h x : heap_extends h (h ++ x).
  Proof.
    intros l c H. rewrite nth_error_app1; [exact H|]. apply nth_error_Some. congruence.
  Qed.

  Lemma heap_extends_trans h1 h2 h3 : heap_extends h1 h2 -> heap_extends h2 h3 -> heap_extends h1 h3.
  Proof. intros H1 H2 l c H. apply H2, H1, H. Qed.

  Lemma desc_ok_parts d : desc_ok d = true ->
    cv_ok (d_cv d) = true /\ up_ok (d_up d) = true /\ d_init_copy d = true /\ d_fit_converts d = true /\
    up_copy (d_up d) = true.
  Proof.
    unfold desc_ok. intros H. repeat (apply andb_prop in H; destruct H as [H ?]).
    repeat split; try assumption.
    unfold up_ok in H2. repeat (apply andb_prop in H2; destruct H2 as [H2 ?]). assumption.
  Qed.

  Lemma do_update_ok d (st : store) loc asg :
    up_copy d = true ->
    let st' := do_update d st loc asg in
    st_vars st' = st_vars st /\ st_pbs st' = st_pbs st /\ heap_extends (st_procs st) (st_procs st').
  Proof.
    intros C. unfold do_update. destruct asg as [l|]; simpl.
    - rewrite C. simpl. repeat split. apply heap_extends_app.
    - repeat split. apply heap_extends_refl.
  Qed.

  (* one operation: the declaration is not written, no existing processor is written, the problems built
     before are kept, the store stays consistent, and the observation is the history-free one *)
  Lemma step_ok d (st : store) o :
    desc_ok d = true -> store_consistent flog logdom st ->
    let r := step flog fexp logdom d st o in
    st_vars (fst r) = st_vars st /\
    heap_extends (st_procs st) (st_procs (fst r)) /\
    (exists new, st_pbs (fst r) = st_pbs st ++ new) /\
    store_consistent flog logdom (fst r) /\
    obs_spec flog fexp logdom (st_vars st) o (snd r).
  Proof.
    intros Hd Hc. destruct (desc_ok_parts d Hd) as (Hcv & Hup & Hic & Hfc & Huc).
    unfold obs_spec. destruct o as [|p|p x|p x|p x]; simpl.
    - (* build *)
      rewrite (g_bounds_ok d (st_vars st) Hd). simpl.
      destruct (bounds_walk flog logdom (st_vars st)) as [[lb ub]|] eqn:B; simpl.
      + rewrite Hic. simpl. split; [reflexivity|]. split; [apply heap_extends_app|].
        split; [eexists; reflexivity|]. split; [|right; reflexivity].
        unfold store_consistent in *. simpl. apply Forall_app. split; [exact Hc|].
        constructor; [exact B|constructor].
      + split; [reflexivity|]. split; [apply heap_extends_refl|].
        split; [exists []; rewrite app_nil_r; reflexivity|]. split; [exact Hc|right; reflexivity].
    - (* get_bounds *)
      destruct (nth_error (st_pbs st) p) as [pb|] eqn:E; simpl.
      + split; [reflexivity|]. split; [apply heap_extends_refl|].
        split; [exists []; rewrite app_nil_r; reflexivity|]. split; [exact Hc|].
        right. exists (pb_lb pb), (pb_ub pb). split; [|reflexivity].
        unfold store_consistent in Hc. rewrite Forall_forall in Hc. apply Hc.
        eapply nth_error_In. exact E.
      + split; [reflexivity|]. split; [apply heap_extends_refl|].
        split; [exists []; rewrite app_nil_r; reflexivity|]. split; [exact Hc|left; reflexivity].
    - (* convert_to_parameters *)
      destruct (nth_error (st_pbs st) p) as [pb|] eqn:E; simpl.
      + split; [reflexivity|]. split; [apply heap_extends_refl|].
        split; [exists []; rewrite app_nil_r; reflexivity|]. split; [exact Hc|].
        right. destruct (g_convert_ok (d_cv d) (st_vars st) x Hcv) as [-> ->]. reflexivity.
      + split; [reflexivity|]. split; [apply heap_extends_refl|].
        split; [exists []; rewrite app_nil_r; reflexivity|]. split; [exact Hc|left; reflexivity].
    - (* fitness *)
      destruct (nth_error (st_pbs st) p) as [pb|] eqn:E; simpl.
      + destruct (do_update_ok (d_up d) st (pb_proc pb)
                    (g_assign (d_up d) (st_vars st)
                       (if d_fit_converts d then g_convert fexp (d_cv d) (st_vars st) x else x)) Huc)
          as (V & P & H).
        split; [exact V|]. split; [exact H|].
        split; [exists []; rewrite app_nil_r; exact P|].
        split; [unfold store_consistent in *; rewrite V, P; exact Hc|].
        right. rewrite Hfc. destruct (g_convert_ok (d_cv d) (st_vars st) x Hcv) as [-> ->].
        rewrite (g_assign_ok _ _ _ Hup). reflexivity.
      + split; [reflexivity|]. split; [apply heap_extends_refl|].
        split; [exists []; rewrite app_nil_r; reflexivity|]. split; [exact Hc|left; reflexivity].
    - (* update_processor on the caller's processor *)
      destruct (nth_error (st_pbs st) p) as [pb|] eqn:E; simpl.
      + destruct (do_update_ok (d_up d) st 0
                    (g_assign (d_up d) (st_vars st) (g_convert fexp (d_cv d) (st_vars st) x)) Huc)
          as (V & P & H).
        split; [exact V|]. split; [exact H|].
        split; [exists []; rewrite app_nil_r; exact P|].
        split; [unfold store_consistent in *; rewrite V, P; exact Hc|].
        right. destruct (g_convert_ok (d_cv d) (st_vars st) x Hcv) as [-> ->].
        rewrite (g_assign_ok _ _ _ Hup). reflexivity.
      + split; [reflexivity|]. split; [apply heap_extends_refl|].
        split; [exists []; rewrite app_nil_r; reflexivity|]. split; [exact Hc|left; reflexivity].
  Qed.

  (* any history *)
  Lemma run_hist_ok d ops : forall (st : store),
    desc_ok d = true -> store_consistent flog logdom st ->
    let r := run_hist flog fexp logdom d st ops in
    st_vars (fst r) = st_vars st /\
    heap_extends (st_procs st) (st_procs (fst r)) /\
    (exists new, st_pbs (fst r) = st_pbs st ++ new) /\
    store_consistent flog logdom (fst r) /\
    Forall2 (obs_spec flog fexp logdom (st_vars st)) ops (snd r).
  Proof.
    induction ops as [|o r IH]; intros st Hd Hc; simpl.
    - split; [reflexivity|]. split; [apply heap_extends_refl|].
      split; [exists []; rewrite app_nil_r; reflexivity|]. split; [exact Hc|constructor].
    - destruct (step_ok d st o Hd Hc) as (V1 & H1 & (n1 & P1) & C1 & O1).
      destruct (IH (fst (step flog fexp logdom d st o)) Hd C1) as (V2 & H2 & (n2 & P2) & C2 & O2).
      split; [congruence|]. split; [eapply heap_extends_trans; eassumption|].
      split; [exists (n1 ++ n2); rewrite P2, P1, app_assoc; reflexivity|].
      split; [exact C2|]. constructor; [exact O1|]. rewrite V1 in O2. exact O2.
  Qed.

  (* idempotence: two problems built at any two points of any history have the same box *)
  Lemma builds_agree d ops (st : store) i j lb1 ub1 lb2 ub2 :
    desc_ok d = true -> store_consistent flog logdom st ->
    nth_error ops i = Some OBuild -> nth_error ops j = Some OBuild ->
    nth_error (snd (run_hist flog fexp logdom d st ops)) i = Some (ObBuilt lb1 ub1) ->
    nth_error (snd (run_hist flog fexp logdom d st ops)) j = Some (ObBuilt lb2 ub2) ->
    lb1 = lb2 /\ ub1 = ub2.
  Proof.
    intros Hd Hc Oi Oj Ri Rj.
    destruct (run_hist_ok d ops st Hd Hc) as (_ & _ & _ & _ & F).
    assert (G : forall k lb ub, nth_error ops k = Some OBuild ->
                nth_error (snd (run_hist flog fexp logdom d st ops)) k = Some (ObBuilt lb ub) ->
                bounds_walk flog logdom (st_vars st) = Some (lb, ub)).
    { clear -F. revert F. generalize (snd (run_hist flog fexp logdom d st ops)). intros obsl F.
      induction F as [|o ob ops' obs' H F IH]; intros k lb ub Ok Rk.
      - destruct k; discriminate.
      - destruct k as [|k]; simpl in *.
        + inversion Ok; inversion Rk; subst. destruct H as [H|H]; [discriminate|].
          simpl in H. destruct (bounds_walk flog logdom (st_vars st)) as [[l u]|]; inversion H; reflexivity.
        + eapply IH; eassumption. }
    pose proof (G i _ _ Oi Ri) as E1. pose proof (G j _ _ Oj Rj) as E2.
    rewrite E1 in E2. inversion E2. auto.
  Qed.

  (* ------------------------------------------------------------------ the theorems of Proofs/Decision.v,
     over the walks of any accepted description *)

  Lemma src_walks_are_model d (vs : list var) (x : list A) :
    desc_ok d = true ->
    g_bounds flog logdom d vs = (bounds_walk flog logdom vs, vs) /\
    g_convert fexp (d_cv d) vs x = convert_walk fexp vs x /\
    g_convert_after fexp (d_cv d) vs x = x /\
    g_assign (d_up d) vs x = assign_walk vs x.
  Proof.
    intros Hd. destruct (desc_ok_parts d Hd) as (Hcv & Hup & _).
    split; [apply g_bounds_ok; exact Hd|].
    destruct (g_convert_ok (d_cv d) vs x Hcv) as [E1 E2].
    split; [exact E1|]. split; [exact E2|]. apply g_assign_ok. exact Hup.
  Qed.

  Lemma src_walks_agree d (vs : list var) lb ub x :
    desc_ok d = true ->
    fst (g_bounds flog logdom d vs) = Some (lb, ub) -> List.length x = List.length lb ->
    snd (g_bounds flog logdom d vs) = vs /\
    List.length lb = total vs /\ List.length ub = total vs /\
    List.length (g_convert fexp (d_cv d) vs x) = total vs /\
    exists asg, g_assign (d_up d) vs (g_convert fexp (d_cv d) vs x) = Some asg /\
      List.length asg = List.length vs /\
      forall k v, nth_error vs k = Some v ->
        let off := offset vs k in let w := width v in
        off + w <= total vs /\
        offset vs (S k) = off + w /\
        slice off w lb = var_lower flog v /\
        slice off w ub = var_upper flog v /\
        slice off w (g_convert fexp (d_cv d) vs x) = var_convert fexp v (slice off w x) /\
        exists val, var_value v (slice off w (g_convert fexp (d_cv d) vs x)) = Some val /\
                    nth_error asg k = Some (key v, val).
  Proof.
    intros Hd B L. destruct (desc_ok_parts d Hd) as (Hcv & Hup & _).
    rewrite (g_bounds_ok d vs Hd) in *. simpl in B. split; [reflexivity|].
    destruct (g_convert_ok (d_cv d) vs x Hcv) as [-> _].
    rewrite (g_assign_ok _ _ _ Hup).
    exact (walks_agree flog fexp logdom vs lb ub x B L).
  Qed.

  Lemma src_log_only_on_log_slices d (vs : list var) x :
    desc_ok d = true -> total vs <= List.length x ->
    g_convert_after fexp (d_cv d) vs x = x /\
    List.length (g_convert fexp (d_cv d) vs x) = List.length x /\
    forall j, nth_error (g_convert fexp (d_cv d) vs x) j =
              if is_log_comp vs j then option_map fexp (nth_error x j) else nth_error x j.
  Proof.
    intros Hd L. destruct (desc_ok_parts d Hd) as (Hcv & _).
    destruct (g_convert_ok (d_cv d) vs x Hcv) as [-> ->]. split; [reflexivity|].
    exact (log_only_on_log_slices fexp vs x L).
  Qed.

  Lemma src_reported_is_applied d (vs : list var) x :
    desc_ok d = true -> List.length x = total vs ->
    exists asg, g_assign (d_up d) vs (g_convert fexp (d_cv d) vs x) = Some asg /\
                map fst asg = map key vs /\
                flat_all asg = g_convert fexp (d_cv d) vs x.
  Proof.
    intros Hd L. destruct (desc_ok_parts d Hd) as (Hcv & Hup & _).
    destruct (g_convert_ok (d_cv d) vs x Hcv) as [-> _]. rewrite (g_assign_ok _ _ _ Hup).
    exact (reported_is_applied fexp vs x L).
  Qed.

  Lemma src_refusal d (vs : list var) :
    desc_ok d = true ->
    (fst (g_bounds flog logdom d vs) = None <-> Exists (fun v => var_accept flog logdom v = false) vs).
  Proof.
    intros Hd. rewrite (g_bounds_ok d vs Hd). simpl. apply bounds_walk_refuses.
  Qed.

  (* what the result reports for an island's decision vector: the champion parameters, the parameters of a
     best individual, and what the final pipeline run of the island is configured with *)
  Lemma src_reporting d r (vs : list var) x :
    desc_ok d = true -> rp_ok r = true -> List.length x = total vs ->
    g_reported fexp (rp_champion r) d vs x = convert_walk fexp vs x /\
    g_reported fexp (rp_best r) d vs x = convert_walk fexp vs x /\
    exists asg, g_final_applied fexp r d vs x = Some asg /\
                map fst asg = map key vs /\
                flat_all asg = g_reported fexp (rp_champion r) d vs x.
  Proof.
    intros Hd Hr L. unfold rp_ok in Hr. apply andb_prop in Hr. destruct Hr as [Hr H4].
    apply andb_prop in Hr. destruct Hr as [Hr H3].
    apply andb_prop in Hr. destruct Hr as [H1 H2].
    destruct (desc_ok_parts d Hd) as (Hcv & Hup & _).
    unfold g_final_applied, g_reported. rewrite H1, H2, H3, H4. simpl.
    destruct (g_convert_ok (d_cv d) vs x Hcv) as [-> _]. rewrite (g_assign_ok _ _ _ Hup).
    split; [reflexivity|]. split; [reflexivity|].
    exact (reported_is_applied fexp vs x L).
  Qed.

  (* with a bare squeeze the final run of a declaration of total width one is never configured *)
  Lemma final_not_applied_width_one d r (vs : list var) x :
    rp_final_1d r = false -> total vs = 1 -> g_final_applied fexp r d vs x = None.
  Proof.
    intros H T. unfold g_final_applied. rewrite H, T. reflexivity.
  Qed.

End Proofs.
