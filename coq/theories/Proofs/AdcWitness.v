(* Concrete evaluations (by computation on the bit-exact model) at the inputs where the converters used
   to break C16 before they were repaired: full scale one code short (C16-F8a), codes above full scale
   for 54..63 bits (C16-F8b), the undefined cast at 64 bits (C16-F8c), the SAR accumulator overflowing
   the code range (C16-F8d).  They now give what the property demands; the same inputs are kept in
   harness/corpus/C16 so that a regression of the code is reported with them. *)
From Coq Require Import ZArith List Bool.
From Flocq Require Import Core BinarySingleNaN.
From PyxelV Require Import Lib.B64 Model.Adc.
Import ListNotations.
Open Scope Z_scope.

(* bits = 28, range (0, 8.934237255150775): the scaled maximum voltage truncates to 2^28 - 2 ... *)
Definition w_short_vmax : b64 := mk 5029528446642079 (-49).

Lemma short_scaled_value :
  blt pzero w_short_vmax = true /\
  btruncZ (simple_scaled 28 pzero w_short_vmax w_short_vmax) = Some (2 ^ 28 - 2).
Proof. split; vm_compute; reflexivity. Qed.

(* ... and the converter returns full scale there, and stays below it just under the maximum *)
Lemma short_repaired :
  simple_code 32 28 pzero w_short_vmax w_short_vmax = Some (2 ^ 28 - 1) /\
  simple_code 32 28 pzero w_short_vmax (bpred w_short_vmax) = Some (2 ^ 28 - 2).
Proof. split; vm_compute; reflexivity. Qed.

(* bits = 54, range (-1.5, 2.25): the scaled maximum voltage is 2^54, one above full scale; the clamp
   keeps voltages just under the maximum at the largest double below 2^54 - 1 *)
Lemma high_bits_repaired :
  btruncZ (simple_scaled 54 (mk (-3) (-1)) (mk 9 (-2)) (mk 9 (-2))) = Some (2 ^ 54) /\
  simple_code 64 54 (mk (-3) (-1)) (mk 9 (-2)) (mk 9 (-2)) = Some (2 ^ 54 - 1) /\
  simple_code 64 54 (mk (-3) (-1)) (mk 9 (-2)) (bpred (mk 9 (-2))) = Some (2 ^ 54 - 2).
Proof. repeat split; vm_compute; reflexivity. Qed.

(* bits = 64, range (0, 1): the scaled maximum voltage is 2^64, which does not fit uint64 (it used to
   wrap to 0); now full scale, and 2^64 - 2048 (the largest double below 2^64) just under the maximum *)
Lemma wrap_repaired :
  btruncZ (simple_scaled 64 pzero (bofZ 1) (bofZ 1)) = Some (2 ^ 64) /\
  simple_code 64 64 pzero (bofZ 1) (bofZ 1) = Some (2 ^ 64 - 1) /\
  simple_code 64 64 pzero (bofZ 1) (bpred (bofZ 1)) = Some (2 ^ 64 - 2048) /\
  simple_code 64 64 pzero (bofZ 1) pinf = Some (2 ^ 64 - 1).
Proof. repeat split; vm_compute; reflexivity. Qed.

(* an intermediate overflow (huge span, 64 bits) no longer makes the cast undefined: +inf is clamped *)
Lemma overflow_clamped :
  simple_scaled 64 pzero (mk 1 1000) (mk 1 999) = pinf /\
  simple_code 64 64 pzero (mk 1 1000) (mk 1 999) = Some (2 ^ 64 - 2048).
Proof. split; vm_compute; reflexivity. Qed.

(* SAR at the resolutions where the float accumulator used to fail (repaired: integer accumulator) *)
Lemma sar_full_scale_54 : sar_code 64 54 (bofZ 1) (bofZ 2) = Some (2 ^ 54 - 1).
Proof. vm_compute. reflexivity. Qed.

Lemma sar_top_bit_64 : sar_code 64 64 (bofZ 1) (mk 3 (-2)) = Some (2 ^ 63 + 2 ^ 62).
Proof. vm_compute. reflexivity. Qed.

(* non-vacuity / sanity: ordinary settings behave as documented *)
Lemma simple_example_doc :
  map (simple_code 8 8 pzero (bofZ 6)) [mk (-1) (-3); pzero; bofZ 3; bofZ 6; mk 61 (-3)]
  = [Some 0; Some 0; Some 127; Some 255; Some 255].
Proof. vm_compute. reflexivity. Qed.

Lemma sar_example : map (sar_code 8 8 (bofZ 8)) [pzero; bofZ 4; bofZ 7; bofZ 8; bofZ 100]
  = [Some 0; Some 128; Some 224; Some 255; Some 255].
Proof. vm_compute. reflexivity. Qed.
