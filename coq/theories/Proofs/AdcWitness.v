(* Concrete witnesses (by computation on the bit-exact model) that the full statement of C16 is false
   of the code as written: full scale one code short, codes above full scale for 54..63 bits, the
   undefined cast at 64 bits, and the SAR accumulator overflowing the code range. *)
From Coq Require Import ZArith List Bool.
From Flocq Require Import Core BinarySingleNaN.
From PyxelV Require Import Lib.B64 Model.Adc.
Import ListNotations.
Open Scope Z_scope.

(* bits = 28, range (0, 8.934237255150775): the maximum voltage maps to 2^28 - 2 *)
Definition w_short_vmax : b64 := mk 5029528446642079 (-49).

Lemma high_saturation_short_witness :
  blt pzero w_short_vmax = true /\
  simple_code 32 28 pzero w_short_vmax w_short_vmax = Some (2 ^ 28 - 2).
Proof. split; vm_compute; reflexivity. Qed.

(* bits = 54, range (-1.5, 2.25): the maximum voltage maps to 2^54, one above full scale *)
Lemma high_bits_exceed_witness :
  blt (mk (-3) (-1)) (mk 9 (-2)) = true /\
  simple_code 64 54 (mk (-3) (-1)) (mk 9 (-2)) (mk 9 (-2)) = Some (2 ^ 54).
Proof. split; vm_compute; reflexivity. Qed.

(* bits = 64, range (0, 1): the scaled value is 2^64, which does not fit uint64: the cast is undefined
   (observed on x86-64: 0, i.e. the image wraps) *)
Lemma wrap_witness :
  btruncZ (simple_scaled 64 pzero (bofZ 1) (bofZ 1)) = Some (2 ^ 64) /\
  simple_code 64 64 pzero (bofZ 1) (bofZ 1) = None.
Proof. split; vm_compute; reflexivity. Qed.

(* SAR at the resolutions where the float accumulator used to fail (repaired: integer accumulator) *)
Lemma sar_full_scale_54 : sar_code 64 54 (bofZ 1) (bofZ 2) = Some (2 ^ 54 - 1).
Proof. vm_compute. reflexivity. Qed.

Lemma sar_top_bit_64 : sar_code 64 64 (bofZ 1) (mk 3 (-2)) = Some (2 ^ 63 + 2 ^ 62).
Proof. vm_compute. reflexivity. Qed.

(* non-vacuity / sanity: ordinary settings behave as documented *)
Lemma simple_example_doc :
  map (simple_code 8 8 pzero (bofZ 6)) [mk (-1) (-3); pzero; bofZ 3; bofZ 6; mk 61 (-3)]
  = [Some 0; Some 0; Some 127; Some 255; Some 255].
Proof. vm_compute. reflexivity. Qed.

Lemma sar_example : map (sar_code 8 8 (bofZ 8)) [pzero; bofZ 4; bofZ 7; bofZ 8; bofZ 100]
  = [Some 0; Some 128; Some 224; Some 255; Some 255].
Proof. vm_compute. reflexivity. Qed.
