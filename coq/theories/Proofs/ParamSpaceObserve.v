(* C05 -- the whole observation (non-dask path) as modelled: the assembled result holds every run under
   its own labels with its own data, nothing else, no label twice. *)
From Coq Require Import ZArith List Bool Arith String Lia.
From PyxelV Require Import Model.ParamSpace Proofs.ParamSpace Proofs.ParamSpaceNames Proofs.ParamSpaceLabels.
Import ListNotations.
Local Notation length := List.length (only parsing).
Local Open Scope string_scope.

Lemma unique_aux_notin : forall l seen,
  NoDup l -> (forall x, In x l -> ~ In x seen) -> unique_aux seen l = l.
Proof.
  induction l as [|a l IH]; intros seen N H; simpl; auto.
  inversion N; subst.
  destruct (existsb (String.eqb a) seen) eqn:E.
  - apply existsb_exists in E. destruct E as (y & Hy & Ey). apply String.eqb_eq in Ey. subst y.
    exfalso. apply (H a); simpl; auto.
  - f_equal. apply IH; auto. intros x Hx [Hs|Hs]; [subst; contradiction | apply (H x); simpl; auto].
Qed.

Lemma unique_nodup_id : forall l, NoDup l -> unique l = l.
Proof. intros. unfold unique. apply unique_aux_notin; auto. Qed.

(* the names of the keys, read through the name table, are the table's names *)
Lemma name_of_table : forall (names : list (string * string)),
  NoDup (map fst names) -> map (name_of names) (map fst names) = map snd names.
Proof.
  intros names N. apply nth_error_ext'. intros j. rewrite !nth_error_map.
  destruct (nth_error names j) as [[k n]|] eqn:E; simpl; auto. f_equal. unfold name_of.
  assert (G : dict_get k names = Some n).
  { clear - N E. revert j E. induction names as [|[k0 n0] t IH]; intros j E; [destruct j; discriminate|].
    simpl. inversion N; subst. destruct j; simpl in E.
    - inversion E; subst. rewrite String.eqb_refl. reflexivity.
    - destruct (String.eqb k k0) eqn:X.
      + apply String.eqb_eq in X. subst k0. exfalso. apply H1.
        apply nth_error_In in E. apply (in_map fst) in E. exact E.
      + eapply IH; eauto. }
  rewrite G. reflexivity.
Qed.

Lemma names_nodup : forall cf keys names,
  NoDup keys -> dim_names cf keys = Some names -> NoDup (map snd names) ->
  NoDup (map (name_of names) keys).
Proof.
  intros cf keys names N H Hn. pose proof (dim_names_fst _ _ _ H) as F.
  rewrite <- F. rewrite name_of_table; auto. rewrite F. exact N.
Qed.

(* ------------------------------------------------------------------------------------ generic assembly *)

(* Runs whose labels determine their data are all found after the merge. *)
Lemma assemble_runs : forall {R} (runs : list R) (lab : R -> label) (dat : R -> Z),
  (forall a b, In a runs -> In b runs -> label_eqb (lab a) (lab b) = true -> dat a = dat b) ->
  exists res, assemble (map (fun r => (lab r, dat r)) runs) = Some res /\
    (forall r, In r runs -> lookup (lab r) res = Some (dat r)) /\
    (forall l d, In (l, d) res -> exists r, In r runs /\ l = lab r /\ d = dat r) /\
    labels_nodup (map fst res) = true.
Proof.
  intros R runs lab dat H.
  destruct (assemble_defined (map (fun r => (lab r, dat r)) runs)) as [res A].
  - intros l d l' d' H1 H2 He. apply in_map_iff in H1. apply in_map_iff in H2.
    destruct H1 as (a & Ea & Ha). destruct H2 as (b & Eb & Hb). inversion Ea; inversion Eb; subst.
    eapply H; eauto.
  - exists res. split; auto. destruct (assemble_sound _ _ A) as (F & S & N). repeat split; auto.
    + intros r Hr. apply F. apply in_map_iff. exists r. auto.
    + intros l d Hin. apply S in Hin. apply in_map_iff in Hin. destruct Hin as (r & E & Hr).
      inversion E; subst. exists r. auto.
Qed.

(* ------------------------------------------------------------------------------------ product mode *)

Lemma spec_product_shape : forall en r,
  In r (spec_product en) ->
  exists ix, r_index r = ix /\ length ix = length en /\
             r_params r = combine (map p_key en) (pick ix en) /\ length (pick ix en) = length en.
Proof.
  intros en r H. unfold spec_product in H. apply in_map_iff in H. destruct H as (n & <- & _). simpl.
  exists (unrank (map plen en) n).
  assert (L : length (unrank (map plen en) n) = length en) by (rewrite unrank_length, map_length; auto).
  repeat split; auto. apply pick_length; auto.
Qed.

(* Product mode (sequential path), distinct keys, distinct dimension names, no clash with the array
   dimensions: the observation runs, and the assembled result maps every run's labels to that run's
   data -- nothing else is stored and no label appears twice. *)
Theorem product_observe_lookup : forall cf ps slots table range names,
  let en := enabled ps in
  let keys := map p_key en in
  let types := types_of en in
  let runs := product_runs ps in
  NoDup keys ->
  existsb has_ph en = false ->
  dim_names cf keys = Some names ->
  NoDup (map snd names) ->
  forallb (fun r => str_nodup (product_dims names types (r_index r) (r_params r) ++ reserved_dims)) runs = true ->
  exists oc, observe cf Product ps slots table range = Some oc /\
    oc_runs oc = map (fun r => received slots (r_params r)) runs /\
    (forall r, In r runs ->
       lookup (product_label names types (r_index r) (r_params r)) (oc_result oc)
       = Some (data_of slots (r_params r))) /\
    (forall l d, In (l, d) (oc_result oc) ->
       exists r, In r runs /\ l = product_label names types (r_index r) (r_params r)
                 /\ d = data_of slots (r_params r)) /\
    labels_nodup (map fst (oc_result oc)) = true.
Proof.
  intros cf ps slots table range names en keys types runs Nk Hph Hn Nn Hd.
  pose proof (names_nodup _ _ _ Nk Hn Nn) as NN.
  destruct (assemble_runs runs (fun r => product_label names types (r_index r) (r_params r))
                          (fun r => data_of slots (r_params r))) as (res & A & F & S & N).
  { intros a b Ha Hb He. unfold runs in Ha, Hb. rewrite product_runs_spec in Ha, Hb by exact Nk.
    destruct (spec_product_shape _ _ Ha) as (ia & Eia & Lia & Epa & Lpa).
    destruct (spec_product_shape _ _ Hb) as (ib & Eib & Lib & Epb & Lpb).
    rewrite Epa, Epb, Eia, Eib in He. fold en in Lia, Lib, Lpa, Lpb.
    assert (pick ia en = pick ib en).
    { eapply product_label_inj with (keys := keys); eauto; unfold keys; rewrite map_length; auto. }
    unfold en in H. rewrite Epa, Epb, H. reflexivity. }
  exists (mkOutcome (map (fun r => received slots (r_params r)) runs) res).
  split.
  - unfold observe. fold en. rewrite Hph.
    replace (unique (map p_key en)) with keys by (symmetry; apply unique_nodup_id; exact Nk).
    rewrite Hn. fold types. fold runs. rewrite Hd.
    fold runs in A. rewrite A. reflexivity.
  - simpl. repeat split; auto.
Qed.

(* ------------------------------------------------------------------------------------ sequential / custom *)

(* the coordinates _add_custom_parameters attaches are the run's id and every parameter under its own
   name (a later equal name would overwrite an earlier one: excluded by distinct names) *)
Lemma custom_label_is_spec : forall names i params,
  NoDup (map (fun kv => name_of names (fst kv)) params) ->
  custom_label names i params = ("id", LI i) :: map (fun kv => (name_of names (fst kv), LV (snd kv))) params.
Proof.
  intros names i params N. unfold custom_label. f_equal.
  rewrite dict_of_nodup by (rewrite map_map; simpl; exact N).
  rewrite map_map. reflexivity.
Qed.

(* Runs numbered 0.. are all found under their id-labels after the merge. *)
Lemma id_runs_assemble : forall names slots (runs : list run),
  NoDup (map (fun r => hd 0 (r_index r)) runs) ->
  exists res,
    assemble (map (fun r => (custom_label names (hd 0 (r_index r)) (r_params r), data_of slots (r_params r))) runs)
    = Some res /\
    (forall r, In r runs -> lookup (custom_label names (hd 0 (r_index r)) (r_params r)) res
                            = Some (data_of slots (r_params r))) /\
    (forall l d, In (l, d) res -> exists r, In r runs /\ l = custom_label names (hd 0 (r_index r)) (r_params r)
                                            /\ d = data_of slots (r_params r)) /\
    labels_nodup (map fst res) = true.
Proof.
  intros names slots runs N.
  apply (assemble_runs runs (fun r => custom_label names (hd 0 (r_index r)) (r_params r))
                       (fun r => data_of slots (r_params r))).
  intros a b Ha Hb He. apply id_label_inj in He.
  assert (a = b).
  { apply In_nth_error in Ha. apply In_nth_error in Hb. destruct Ha as [i Ei], Hb as [j Ej].
    assert (i = j).
    { eapply (proj1 (NoDup_nth_error _) N).
      - rewrite map_length. apply nth_error_Some. congruence.
      - rewrite !nth_error_map, Ei, Ej. simpl. congruence. }
    subst j. congruence. }
  congruence.
Qed.

Lemma seq_nodup_hd : forall (runs : list run),
  map r_index runs = map (fun n => [n]) (seq 0 (length runs)) ->
  NoDup (map (fun r => hd 0 (r_index r)) runs).
Proof.
  intros runs H.
  replace (map (fun r => hd 0 (r_index r)) runs) with (map (hd 0) (map r_index runs)) by (rewrite map_map; auto).
  rewrite H, map_map. simpl. rewrite map_id. apply seq_NoDup.
Qed.

(* Sequential mode (sequential path): the observation runs (given defined names and, on the round-1
   tree, equal vector lengths) and every run is found under id = its number with its own data. *)
Theorem sequential_observe_lookup : forall cf ps slots table range names,
  let en := enabled ps in
  let runs := sequential_runs (default_of slots) ps in
  existsb has_ph en = false ->
  dim_names cf (unique (map p_key en)) = Some names ->
  cf_custom_dims_distinct cf || all_eq_nat (flat_map (fun r => vec_lens (r_params r)) runs) = true ->
  exists oc, observe cf Sequential ps slots table range = Some oc /\
    oc_runs oc = map (fun r => received slots (r_params r)) runs /\
    (forall r, In r runs ->
       lookup (custom_label names (hd 0 (r_index r)) (r_params r)) (oc_result oc)
       = Some (data_of slots (r_params r))) /\
    (forall l d, In (l, d) (oc_result oc) ->
       exists r, In r runs /\ l = custom_label names (hd 0 (r_index r)) (r_params r)
                 /\ d = data_of slots (r_params r)) /\
    labels_nodup (map fst (oc_result oc)) = true.
Proof.
  intros cf ps slots table range names en runs Hph Hn Hv.
  destruct (sequential_correct (default_of slots) ps) as (_ & _ & _ & Hix & _). fold runs in Hix.
  destruct (id_runs_assemble names slots runs (seq_nodup_hd _ Hix)) as (res & A & F & S & N).
  exists (mkOutcome (map (fun r => received slots (r_params r)) runs) res). split.
  - unfold observe. fold en. rewrite Hph, Hn. fold runs. rewrite Hv, A. reflexivity.
  - simpl. repeat split; auto.
Qed.

(* Custom mode (sequential path), all enabled parameters placeholders whose widths add up to the number of
   selected columns: one run per row, found under id = row number with the data of that row's columns. *)
Theorem custom_observe_lookup : forall cf ps slots table range rows names,
  let en := enabled ps in
  let total := sum_nat (map pwidth en) in
  let runs := map (fun nr => mkRun (fst nr) [fst nr] (dict_of (spec_custom_row en (snd nr))))
                  (enumerate_from 0 rows) in
  forallb is_placeholder en = true ->
  custom_table cf table range = Some rows ->
  total <> 0 -> total = length (hd [] rows) ->
  dim_names cf (unique (map p_key en)) = Some names ->
  cf_custom_dims_distinct cf || all_eq_nat (flat_map (fun r => vec_lens (r_params r)) runs) = true ->
  exists oc, observe cf Custom ps slots table range = Some oc /\
    oc_runs oc = map (fun r => received slots (r_params r)) runs /\
    (forall r, In r runs ->
       lookup (custom_label names (hd 0 (r_index r)) (r_params r)) (oc_result oc)
       = Some (data_of slots (r_params r))) /\
    (forall l d, In (l, d) (oc_result oc) ->
       exists r, In r runs /\ l = custom_label names (hd 0 (r_index r)) (r_params r)
                 /\ d = data_of slots (r_params r)) /\
    labels_nodup (map fst (oc_result oc)) = true.
Proof.
  intros cf ps slots table range rows names en total runs Hph Ht H0 H1 Hn Hv.
  destruct (custom_correct (length (hd [] rows)) rows ps Hph) as [_ Hc].
  specialize (Hc H0 H1). fold en in Hc. fold runs in Hc.
  assert (Hix : NoDup (map (fun r => hd 0 (r_index r)) runs)).
  { unfold runs. rewrite map_map. simpl.
    rewrite <- (map_map fst (fun n => n)), map_id, enumerate_from_fst. apply seq_NoDup. }
  destruct (id_runs_assemble names slots runs Hix) as (res & A & F & S & N).
  exists (mkOutcome (map (fun r => received slots (r_params r)) runs) res). split.
  - unfold observe. fold en. rewrite Ht, Hc, Hn, Hv, A. reflexivity.
  - simpl. repeat split; auto.
Qed.

(* ------------------------------------------------------------------------------------ coded labels = specification labels *)

Lemma combine_map_pair : forall {A B C} (f : A -> B) (g : A -> C) l,
  map (fun a => (f a, g a)) l = combine (map f l) (map g l).
Proof. induction l; simpl; congruence. Qed.

Lemma types_of_nodup : forall en p,
  NoDup (map p_key en) -> In p en -> type_of (types_of en) (p_key p) = ptype_of p.
Proof.
  intros en p N Hin. unfold types_of, type_of.
  rewrite dict_of_nodup by (rewrite map_map; exact N).
  apply In_nth_error in Hin. destruct Hin as [j Ej].
  rewrite combine_map_pair.
  erewrite dict_get_combine; eauto; rewrite nth_error_map, Ej; reflexivity.
Qed.

(* _add_product_parameters attaches, for a run of a request with distinct keys, exactly the coordinates
   the specification expects: the value under the parameter's name and, for a vector-valued parameter,
   its position under <name>_id. *)
Theorem product_label_is_spec : forall names en ix vals,
  NoDup (map p_key en) -> length vals = length en -> length ix = length en ->
  product_label names (types_of en) ix (combine (map p_key en) vals)
  = spec_label Product names en ix (combine (map p_key en) vals).
Proof.
  intros names en ix vals N Lv Li.
  set (params := combine (map p_key en) vals).
  set (types := types_of en).
  (* generalise over a suffix of the parameters *)
  assert (G : forall en' ix' vals',
    (forall p, In p en' -> In p en) -> length vals' = length en' -> length ix' = length en' ->
    (forall p v, In (p, v) (combine en' vals') -> dict_get (p_key p) params = Some v) ->
    product_label names types ix' (combine (map p_key en') vals')
    = flat_map (fun ikp : nat * param => let '(i, p) := ikp in
                  let v := match dict_get (p_key p) params with Some v => v | None => Ph end in
                  match ptype_of p with
                  | Simple => [(name_of names (p_key p), LV v)]
                  | Multi => [(name_of names (p_key p) ++ "_id", LI i); (name_of names (p_key p), LV v)]
                  end) (combine ix' en')).
  { induction en' as [|p en' IH]; intros ix' vals' Hsub Lv' Li' Hget.
    - destruct ix'; reflexivity.
    - destruct ix' as [|i ix']; [discriminate|]. destruct vals' as [|v vals']; [discriminate|].
      simpl. unfold types. rewrite (types_of_nodup en p N) by (apply Hsub; simpl; auto).
      rewrite (Hget p v) by (simpl; auto).
      fold types. rewrite IH.
      + destruct (ptype_of p); reflexivity.
      + intros q Hq. apply Hsub. simpl. auto.
      + simpl in Lv'. lia.
      + simpl in Li'. lia.
      + intros q w Hq. apply Hget. simpl. auto. }
  unfold spec_label. apply G; auto.
  intros p v Hin. apply In_nth_error in Hin. destruct Hin as [j Ej].
  assert (Ep : nth_error en j = Some p /\ nth_error vals j = Some v).
  { clear - Ej. revert vals j Ej. induction en as [|a en IH]; intros vals j Ej; destruct vals, j; simpl in *; try discriminate.
    - inversion Ej; auto.
    - apply IH; auto. }
  destruct Ep as [Ep Ev]. unfold params.
  eapply dict_get_combine; eauto. rewrite nth_error_map, Ep. reflexivity.
Qed.

(* ------------------------------------------------------------------------------------ for a source configuration
   with the repaired naming rule (both name flags set): the statements instantiated by Properties/C05.v *)

Theorem product_observe_lookup_cfg : forall cf,
  cf_name_fallback_full cf = true -> cf_name_stage3 cf = true ->
  forall ps slots table range names,
  let en := enabled ps in
  let keys := map p_key en in
  let types := types_of en in
  let runs := product_runs ps in
  NoDup keys ->
  existsb has_ph en = false ->
  dim_names cf keys = Some names ->
  forallb (fun r => str_nodup (product_dims names types (r_index r) (r_params r) ++ reserved_dims)) runs = true ->
  exists oc, observe cf Product ps slots table range = Some oc /\
    oc_runs oc = map (fun r => received slots (r_params r)) runs /\
    (forall r, In r runs ->
       lookup (product_label names types (r_index r) (r_params r)) (oc_result oc)
       = Some (data_of slots (r_params r))) /\
    (forall l d, In (l, d) (oc_result oc) ->
       exists r, In r runs /\ l = product_label names types (r_index r) (r_params r)
                 /\ d = data_of slots (r_params r)) /\
    labels_nodup (map fst (oc_result oc)) = true.
Proof.
  intros cf Hf H3 ps slots table range names en keys types runs Nk Hph Hn Hd.
  apply product_observe_lookup; auto.
  exact (dim_names_inj cf keys names Hf H3 Nk Hn).
Qed.

Theorem sequential_observe_lookup_cfg : forall cf,
  cf_name_fallback_full cf = true -> cf_custom_dims_distinct cf = true ->
  forall ps slots table range,
  let en := enabled ps in
  let runs := sequential_runs (default_of slots) ps in
  existsb has_ph en = false ->
  exists names oc,
    dim_names cf (unique (map p_key en)) = Some names /\
    observe cf Sequential ps slots table range = Some oc /\
    oc_runs oc = map (fun r => received slots (r_params r)) runs /\
    (forall r, In r runs ->
       lookup (custom_label names (hd 0 (r_index r)) (r_params r)) (oc_result oc)
       = Some (data_of slots (r_params r))) /\
    (forall l d, In (l, d) (oc_result oc) ->
       exists r, In r runs /\ l = custom_label names (hd 0 (r_index r)) (r_params r)
                 /\ d = data_of slots (r_params r)) /\
    labels_nodup (map fst (oc_result oc)) = true.
Proof.
  intros cf Hf Hd ps slots table range en runs Hph.
  destruct (dim_names_total cf (unique (map p_key en)) Hf) as (names & Hn & _).
  assert (Hv : cf_custom_dims_distinct cf || all_eq_nat (flat_map (fun r => vec_lens (r_params r)) runs) = true)
    by (rewrite Hd; reflexivity).
  destruct (sequential_observe_lookup cf ps slots table range names Hph Hn Hv) as (oc & H).
  exists names, oc. split; [exact Hn | exact H].
Qed.

Theorem custom_observe_lookup_cfg : forall cf,
  cf_name_fallback_full cf = true -> cf_custom_dims_distinct cf = true -> cf_custom_range_optional cf = true ->
  forall ps slots table range rows,
  let en := enabled ps in
  let total := sum_nat (map pwidth en) in
  let runs := map (fun nr => mkRun (fst nr) [fst nr] (dict_of (spec_custom_row en (snd nr))))
                  (enumerate_from 0 rows) in
  forallb is_placeholder en = true ->
  rows = match range with Some (lo, hi) => map (select_cols lo hi) table | None => table end ->
  total <> 0 -> total = length (hd [] rows) ->
  exists names oc,
    dim_names cf (unique (map p_key en)) = Some names /\
    observe cf Custom ps slots table range = Some oc /\
    oc_runs oc = map (fun r => received slots (r_params r)) runs /\
    (forall r, In r runs ->
       lookup (custom_label names (hd 0 (r_index r)) (r_params r)) (oc_result oc)
       = Some (data_of slots (r_params r))) /\
    (forall l d, In (l, d) (oc_result oc) ->
       exists r, In r runs /\ l = custom_label names (hd 0 (r_index r)) (r_params r)
                 /\ d = data_of slots (r_params r)) /\
    labels_nodup (map fst (oc_result oc)) = true.
Proof.
  intros cf Hf Hd Hr ps slots table range rows en total runs Hph Hrows H0 H1.
  destruct (dim_names_total cf (unique (map p_key en)) Hf) as (names & Hn & _).
  assert (Ht : custom_table cf table range = Some rows).
  { subst rows. unfold custom_table. destruct range as [[lo hi]|]; [reflexivity | rewrite Hr; reflexivity]. }
  assert (Hv : cf_custom_dims_distinct cf || all_eq_nat (flat_map (fun r => vec_lens (r_params r)) runs) = true)
    by (rewrite Hd; reflexivity).
  destruct (custom_observe_lookup cf ps slots table range rows names Hph Ht H0 H1 Hn Hv) as (oc & H).
  exists names, oc. split; [exact Hn | exact H].
Qed.
