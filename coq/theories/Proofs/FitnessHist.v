(* C11: histories of fitness evaluations on one problem object — purity / history independence. *)
From Coq Require Import ZArith QArith Qabs List Bool Lia.
From PyxelV Require Import Model.Fitness Model.FitnessHist.
Import ListNotations.

(* ------------------------------------------------------------------ register-blind commands *)
Lemma seval_blind : forall e regs regs' v, reads_reg e = false -> seval regs v e = seval regs' v e.
Proof.
  induction e; intros regs regs' v H; simpl in *; try reflexivity; try discriminate;
    apply orb_false_iff in H; destruct H as [H1 H2];
    rewrite (IHe1 regs regs' v H1), (IHe2 regs regs' v H2); reflexivity.
Qed.

Lemma sholds_blind : forall k regs regs' v, cond_reads_reg k = false -> sholds regs v k = sholds regs' v k.
Proof.
  induction k; intros regs regs' v H; simpl in *; try reflexivity.
  - apply orb_false_iff in H. destruct H as [H1 H2].
    rewrite (seval_blind a regs regs' v H1), (seval_blind b regs regs' v H2). reflexivity.
  - rewrite (IHk regs regs' v H). reflexivity.
  - apply orb_false_iff in H. destruct H as [H1 H2].
    rewrite (IHk1 regs regs' v H1), (IHk2 regs regs' v H2). reflexivity.
  - apply orb_false_iff in H. destruct H as [H1 H2].
    rewrite (IHk1 regs regs' v H1), (IHk2 regs regs' v H2). reflexivity.
Qed.

(* what a block of commands signals (go on / break / continue / return x) does not depend on the registers *)
Lemma exec_blind : forall cmds regs regs' v,
  forallb cmd_blind cmds = true -> snd (exec cmds regs v) = snd (exec cmds regs' v).
Proof.
  induction cmds as [|[k a] r IH]; intros regs regs' v H; [reflexivity|].
  simpl in H. apply andb_true_iff in H. destruct H as [Hc Hr].
  simpl. destruct a as [i e| | |e]; unfold cmd_blind in Hc; simpl in Hc.
  - destruct (sholds regs v k), (sholds regs' v k); apply IH; exact Hr.
  - apply negb_true_iff in Hc. rewrite (sholds_blind k regs regs' v Hc).
    destruct (sholds regs' v k); [reflexivity|]. apply IH; exact Hr.
  - apply negb_true_iff in Hc. rewrite (sholds_blind k regs regs' v Hc).
    destruct (sholds regs' v k); [reflexivity|]. apply IH; exact Hr.
  - apply andb_true_iff in Hc. destruct Hc as [Hk He].
    apply negb_true_iff in Hk. apply negb_true_iff in He.
    rewrite (sholds_blind k regs regs' v Hk).
    destruct (sholds regs' v k); [|apply IH; exact Hr].
    simpl. rewrite (seval_blind e regs regs' v He). reflexivity.
Qed.

Definition blind_parts (d : fdesc) : Prop :=
  forallb cmd_blind (fd_pre d) = true /\ forallb cmd_blind (fd_post d) = true /\
  forallb cmd_blind (fd_else d) = true /\ forallb cmd_blind (fd_after d) = true /\ reads_reg (fd_ret d) = false.

Lemma reg_blind_parts : forall d, reg_blind d = true -> blind_parts d.
Proof.
  intros d H. unfold reg_blind in H.
  repeat (apply andb_true_iff in H; destruct H as [H ?]).
  unfold blind_parts. repeat split; try assumption. apply negb_true_iff; assumption.
Qed.

Lemma finish_blind : forall d regs regs' acc k,
  blind_parts d -> snd (finish d regs acc k) = snd (finish d regs' acc k).
Proof.
  intros d regs regs' acc k (_ & _ & _ & Ha & Hr). unfold finish.
  pose proof (exec_blind (fd_after d) regs regs' {| h_acc := acc; h_term := 0; h_idx := k |} Ha) as E.
  destruct (exec (fd_after d) regs _) as [r1 s1]. destruct (exec (fd_after d) regs' _) as [r2 s2].
  simpl in E. subst s2.
  destruct s1; simpl; try reflexivity; rewrite (seval_blind (fd_ret d) r1 r2 _ Hr); reflexivity.
Qed.

Section Blind.
  Context {A B : Type}.
  Variable term : nat -> A -> B -> fres.

  (* the value returned by one evaluation does not depend on what the registers hold *)
  Lemma hloop_blind : forall d, blind_parts d ->
    forall l k acc regs regs', snd (hloop term d k l acc regs) = snd (hloop term d k l acc regs').
  Proof.
    intros d Hd. pose proof Hd as (Hpre & Hpost & Helse & _ & _).
    induction l as [|[a b] r IH]; intros k acc regs regs'.
    - simpl.
      pose proof (exec_blind (fd_else d) regs regs' {| h_acc := acc; h_term := 0; h_idx := k |} Helse) as E.
      destruct (exec (fd_else d) regs _) as [r1 s1]. destruct (exec (fd_else d) regs' _) as [r2 s2].
      simpl in E. subst s2.
      destruct s1; try apply finish_blind; try exact Hd. reflexivity.
    - simpl.
      pose proof (exec_blind (fd_pre d) regs regs' {| h_acc := acc; h_term := 0; h_idx := k |} Hpre) as E.
      destruct (exec (fd_pre d) regs _) as [r1 s1]. destruct (exec (fd_pre d) regs' _) as [r2 s2].
      simpl in E. subst s2.
      destruct s1.
      + destruct (term k a b) as [t| |]; try reflexivity.
        pose proof (exec_blind (fd_post d) r1 r2 {| h_acc := (acc + t)%Q; h_term := t; h_idx := k |} Hpost) as E2.
        destruct (exec (fd_post d) r1 _) as [r3 s3]. destruct (exec (fd_post d) r2 _) as [r4 s4].
        simpl in E2. subst s4.
        destruct s3; try apply IH; try (apply finish_blind; exact Hd). reflexivity.
      + apply finish_blind; exact Hd.
      + apply IH.
      + reflexivity.
  Qed.
End Blind.

Lemma hfit_blind : forall d ck cl wc c regs regs' sims,
  reg_blind d = true -> snd (hfit d ck cl wc c regs sims) = snd (hfit d ck cl wc c regs' sims).
Proof.
  intros d ck cl wc c regs regs' sims H. apply reg_blind_parts in H. unfold hfit.
  destruct (model_fit ck cl wc c sims); try reflexivity;
    destruct (out_slices (fc_trng c)) as [[tm tr] tc];
    match goal with
    | |- snd (let '(_, _) := hloop ?t ?d ?k ?l ?a regs in _) = _ =>
        pose proof (hloop_blind t d H l k a regs regs') as E;
        destruct (hloop t d k l a regs) as [x1 y1]; destruct (hloop t d k l a regs') as [x2 y2];
        simpl in E; subst y2; reflexivity
    end.
Qed.

(* HISTORY INDEPENDENCE (any register-blind description): for every history of operations on one
   problem object and whatever the registers held when the history began, every observation is what a
   freshly built problem returns for that vector *)
Theorem history_is_fresh : forall (X : Type) (simulate : X -> list frame3) d ck cl wc c,
  reg_blind d = true ->
  forall ops regs, snd (run_hist simulate d ck cl wc c regs ops) = map (fresh_obs simulate d ck cl wc c) ops.
Proof.
  intros X simulate d ck cl wc c H. induction ops as [|o r IH]; intros regs; [reflexivity|].
  simpl. f_equal; [|apply IH].
  destruct o as [x|x|]; simpl; try reflexivity.
  - pose proof (hfit_blind d ck cl wc c regs (fd_regs d) (simulate x) H) as E.
    destruct (hfit d ck cl wc c regs (simulate x)) as [r1 o1]. simpl in *. rewrite E. reflexivity.
  - rewrite (hfit_blind d ck cl wc c regs (fd_regs d) (simulate x) H). reflexivity.
Qed.

(* in particular: the same vector gets the same fitness at any two points of any history *)
Corollary same_vector_same_fitness : forall (X : Type) (simulate : X -> list frame3) d ck cl wc c,
  reg_blind d = true ->
  forall ops regs i j x oi oj,
    nth_error ops i = Some (HFit x) -> nth_error ops j = Some (HFit x) ->
    nth_error (snd (run_hist simulate d ck cl wc c regs ops)) i = Some oi ->
    nth_error (snd (run_hist simulate d ck cl wc c regs ops)) j = Some oj -> oi = oj.
Proof.
  intros X simulate d ck cl wc c H ops regs i j x oi oj Hi Hj Oi Oj.
  rewrite (history_is_fresh X simulate d ck cl wc c H) in Oi, Oj.
  rewrite nth_error_map in Oi, Oj. rewrite Hi in Oi. rewrite Hj in Oj. simpl in Oi, Oj. congruence.
Qed.

(* ------------------------------------------------------------------ no early exit: the stateless loop *)
Lemma exec_stays : forall cmds regs v, forallb cmd_stays cmds = true -> snd (exec cmds regs v) = Go.
Proof.
  induction cmds as [|[k a] r IH]; intros regs v H; [reflexivity|].
  simpl in H. apply andb_true_iff in H. destruct H as [Hc Hr].
  simpl. destruct a; unfold cmd_stays in Hc; simpl in Hc; try discriminate.
  destruct (sholds regs v k); apply IH; exact Hr.
Qed.

Definition stay_parts (d : fdesc) : Prop :=
  forallb cmd_stays (fd_pre d) = true /\ forallb cmd_stays (fd_post d) = true /\
  forallb cmd_stays (fd_else d) = true /\ forallb cmd_stays (fd_after d) = true /\ fd_ret d = XAcc.

Lemma exits_free_parts : forall d, exits_free d = true -> stay_parts d.
Proof.
  intros d H. unfold exits_free in H.
  repeat (apply andb_true_iff in H; destruct H as [H ?]).
  unfold stay_parts. repeat split; try assumption. destruct (fd_ret d); try discriminate; reflexivity.
Qed.

Lemma finish_stays : forall d regs acc k, stay_parts d -> snd (finish d regs acc k) = RVal acc.
Proof.
  intros d regs acc k (_ & _ & _ & Ha & Hr). unfold finish.
  pose proof (exec_stays (fd_after d) regs {| h_acc := acc; h_term := 0; h_idx := k |} Ha) as E.
  destruct (exec (fd_after d) regs _) as [r1 s1]. simpl in E. subst s1. rewrite Hr. reflexivity.
Qed.

Section Stays.
  Context {A B : Type}.
  Variable term : nat -> A -> B -> fres.

  Lemma hloop_stays : forall d, stay_parts d ->
    forall l k acc regs, snd (hloop term d k l acc regs) = acc_loop term k l acc.
  Proof.
    intros d Hd. pose proof Hd as (Hpre & Hpost & Helse & _ & _).
    induction l as [|[a b] r IH]; intros k acc regs.
    - simpl.
      pose proof (exec_stays (fd_else d) regs {| h_acc := acc; h_term := 0; h_idx := k |} Helse) as E.
      destruct (exec (fd_else d) regs _) as [r1 s1]. simpl in E. subst s1. apply finish_stays; exact Hd.
    - simpl.
      pose proof (exec_stays (fd_pre d) regs {| h_acc := acc; h_term := 0; h_idx := k |} Hpre) as E.
      destruct (exec (fd_pre d) regs _) as [r1 s1]. simpl in E. subst s1.
      destruct (term k a b) as [t| |]; try reflexivity.
      pose proof (exec_stays (fd_post d) r1 {| h_acc := (acc + t)%Q; h_term := t; h_idx := k |} Hpost) as E2.
      destruct (exec (fd_post d) r1 _) as [r3 s3]. simpl in E2. subst s3. apply IH.
  Qed.
End Stays.

(* the three shapes of the stateless model's answer *)
Lemma model_fit_shape : forall ck cl wc c sims,
  model_fit ck cl wc c sims = OCtor \/ model_fit ck cl wc c sims = OUndef \/
  model_fit ck cl wc c sims =
    fobs_of (fitness_loop (term_coded c (weights_kept wc c)) sims
               (let '(tm, tr, tc) := out_slices (fc_trng c) in map (slice3 tm tr tc) (fc_tgts c))).
Proof.
  intros ck cl wc c sims. unfold model_fit.
  destruct (is3d (fc_trng c) && negb (wc_time_key wc && fc_multi c)); auto.
  destruct (out_slices (fc_trng c)) as [[tm tr] tc].
  destruct (if fc_bypass c then Accept else ctor_check ck cl c sims); auto.
  destruct (out_slices (fc_orng c)) as [[ot orow] ocol].
  match goal with |- context [if ?b then OUndef else _] => destruct b end; auto.
Qed.

Lemma fobs_of_not_ctor : forall r, fobs_of r <> OCtor /\ fobs_of r <> OUndef.
Proof. intros [q| |]; simpl; split; discriminate. Qed.

(* a description without early exits that returns the accumulator: whatever the registers hold, the
   problem object answers what the stateless model of Model.Fitness answers *)
Theorem hfit_is_model_fit : forall d ck cl wc c regs sims,
  exits_free d = true -> snd (hfit d ck cl wc c regs sims) = model_fit ck cl wc c sims.
Proof.
  intros d ck cl wc c regs sims H. apply exits_free_parts in H. unfold hfit.
  destruct (model_fit_shape ck cl wc c sims) as [E|[E|E]].
  - rewrite E. reflexivity.
  - rewrite E. reflexivity.
  - assert (G : snd (let '(tm, tr, tc) := out_slices (fc_trng c) in
                     let '(regs', r) := hloop (term_coded c (weights_kept wc c)) d 0
                                          (combine sims (map (slice3 tm tr tc) (fc_tgts c))) 0 regs in
                     (regs', fobs_of r)) = model_fit ck cl wc c sims).
    { rewrite E. destruct (out_slices (fc_trng c)) as [[tm tr] tc].
      pose proof (hloop_stays (term_coded c (weights_kept wc c)) d H
                    (combine sims (map (slice3 tm tr tc) (fc_tgts c))) 0%nat 0 regs) as L.
      destruct (hloop _ d 0 _ 0 regs) as [x1 y1]. simpl in L. subst y1. reflexivity. }
    destruct (model_fit ck cl wc c sims) eqn:M; try exact G; reflexivity.
Qed.

Theorem history_is_model_fit : forall (X : Type) (simulate : X -> list frame3) d ck cl wc c,
  exits_free d = true ->
  forall ops regs, snd (run_hist simulate d ck cl wc c regs ops) = map (pure_obs simulate ck cl wc c) ops.
Proof.
  intros X simulate d ck cl wc c H. induction ops as [|o r IH]; intros regs; [reflexivity|].
  simpl. f_equal; [|apply IH].
  destruct o as [x|x|]; simpl; try reflexivity.
  - pose proof (hfit_is_model_fit d ck cl wc c regs (simulate x) H) as E.
    destruct (hfit d ck cl wc c regs (simulate x)) as [r1 o1]. simpl in *. rewrite E. reflexivity.
  - rewrite (hfit_is_model_fit d ck cl wc c regs (simulate x) H). reflexivity.
Qed.

(* ------------------------------------------------------------------ the judge of the history case files
   (Model.FitnessHist.hist_violation_steps: every step against the history-free specification, equal vectors
   get equal values, data unchanged) is MET by the model: on the observations the model itself produces for
   any history it reports nothing.  The per-step fact "the stateless model meets spec_fit" enters as the
   hypothesis `step_ok` (Proofs/FitnessMeets.v proves it outside the classes of the open findings). *)
Lemma Qeq_bool_refl : forall x, Qeq_bool x x = true.
Proof. intros x. apply Qeq_bool_iff. reflexivity. Qed.

Lemma q_close_refl : forall x, q_close x x = true.
Proof.
  intros x. unfold q_close. apply Qle_bool_iff.
  assert (E : x - x == 0) by ring. rewrite E. simpl Qabs.
  apply Qmult_le_0_compat; [apply Qabs_nonneg | discriminate].
Qed.

Lemma fobs_agree_refl : forall ex e, fobs_agree ex e e = true.
Proof.
  intros ex [| | |q|]; simpl; try reflexivity.
  destruct ex; [apply Qeq_bool_refl | apply q_close_refl].
Qed.

Lemma fobs_same_refl : forall e, fobs_same e e = true.
Proof. intros [| | |q|]; simpl; try reflexivity. apply Qeq_bool_refl. Qed.

Section JudgeMet.
  Variable ck : checker.
  Variable cl : calls.
  Variable wc : wconf.
  Variable c : fconf.
  Variable G : hx -> Prop.          (* the decision vectors of the history *)

  (* the stateless model meets the history-free specification at every vector of the history *)
  Hypothesis step_ok : forall x e, G x -> spec_fit c (snd x) = Some e -> model_fit ck cl wc c (snd x) = e.
  (* equal identifiers name the same vector (the same frames) *)
  Hypothesis ids_functional : forall x y, G x -> G y -> fst x = fst y -> snd x = snd y.

  Definition op_good (o : hop hx) : Prop := match op_x o with Some x => G x | None => True end.
  Definition pure (o : hop hx) : option fobs := pure_obs (@snd nat (list frame3)) ck cl wc c o.
  Definition entry_good (e : hop hx * option fobs) : Prop := op_good (fst e) /\ snd e = pure (fst e).

  Lemma step_spec_ok : forall o, op_good o -> step_spec_bad c o (pure o) = false.
  Proof.
    intros o Ho. unfold step_spec_bad, pure, op_good in *.
    destruct o as [x|x|]; simpl in *; try reflexivity;
      destruct (spec_fit c (snd x)) as [e|] eqn:E; try reflexivity;
      rewrite (step_ok x e Ho E); rewrite fobs_agree_refl; reflexivity.
  Qed.

  Lemma seen_other_none : forall x earlier, G x -> Forall entry_good earlier ->
    seen_other (fst x) (model_fit ck cl wc c (snd x)) earlier = false.
  Proof.
    intros x earlier Gx. induction earlier as [|[o ob] t IH]; intros F; [reflexivity|].
    inversion F as [|? ? [Hg Hp] Ft]; subst. simpl in Hg, Hp. simpl.
    rewrite (IH Ft), orb_false_r.
    unfold op_good in Hg. unfold pure in Hp.
    destruct o as [y|y|]; simpl in *; subst ob; try reflexivity;
      destruct (Nat.eqb (fst y) (fst x)) eqn:E; try reflexivity;
      apply Nat.eqb_eq in E; rewrite (ids_functional y x Hg Gx E); rewrite fobs_same_refl; reflexivity.
  Qed.

  Lemma hist_bad_steps_none : forall l i earlier,
    Forall op_good l -> Forall entry_good earlier ->
    hist_bad_steps c i earlier (combine l (map pure l)) = [].
  Proof.
    induction l as [|o r IH]; intros i earlier Fl Fe; [reflexivity|].
    inversion Fl as [|? ? Ho Fr]; subst.
    simpl. rewrite (step_spec_ok o Ho). simpl.
    assert (S : match op_x o, pure o with
                | Some x, Some v => seen_other (fst x) v earlier
                | _, _ => false end = false).
    { unfold pure. destruct o as [x|x|]; simpl; try reflexivity; apply seen_other_none; try exact Fe; exact Ho. }
    rewrite S. simpl. apply IH; [exact Fr|].
    constructor; [split; [exact Ho|reflexivity] | exact Fe].
  Qed.

  Theorem model_history_meets_spec : forall d ops regs,
    exits_free d = true -> Forall op_good ops ->
    hist_violation_steps {| hc_c := c; hc_ops := ops;
                            hc_obs := snd (run_hist (@snd nat (list frame3)) d ck cl wc c regs ops);
                            hc_same := true |} = [].
  Proof.
    intros d ops regs Hd Fo. unfold hist_violation_steps. cbn [hc_c hc_ops hc_obs hc_same app].
    rewrite (history_is_model_fit (nat * list frame3)%type (@snd nat (list frame3)) d ck cl wc c Hd ops regs).
    apply hist_bad_steps_none; [exact Fo | constructor].
  Qed.
End JudgeMet.
