(* C10_in_bounds over the walks of an accepted source description (real log10 and real power of ten). *)
From Coq Require Import List Bool Arith String Reals Lra.
From PyxelV Require Import Model.Decision Model.DecisionSrc Proofs.Decision Proofs.DecisionR Proofs.DecisionSrc.
Import ListNotations.

Lemma src_in_bounds (d : wdesc) (vs : list (@var R)) lb ub x :
  desc_ok d = true ->
  fst (g_bounds log10 rpos d vs) = Some (lb, ub) ->
  (forall v n, In v vs -> islog v = true -> shape v = Some n -> positive_decl v) ->
  Forall2 Rle lb x -> Forall2 Rle x ub ->
  Forall2 inbox (List.concat (map declared vs)) (g_convert pow10 (d_cv d) vs x).
Proof.
  intros Hd B P L U.
  rewrite (g_bounds_ok log10 rpos d vs Hd) in B. simpl in B.
  destruct (src_walks_are_model log10 pow10 rpos d vs x Hd) as (_ & -> & _).
  exact (in_bounds vs lb ub x B P L U).
Qed.
