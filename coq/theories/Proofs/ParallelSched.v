(* C07 — the assembled result does not depend on the order in which the tasks complete. *)
From Coq Require Import ZArith List Bool Lia PeanoNat Permutation.
From PyxelV Require Import Model.Parallel.
Import ListNotations.

Lemma fst_combine {A B} (a : list A) (b : list B) : length a = length b -> map fst (combine a b) = a.
Proof.
  revert b; induction a as [|x a IH]; destruct b as [|y b]; simpl; try discriminate; [reflexivity|].
  intros [= H]. now rewrite IH.
Qed.

Lemma NoDup_fst_unique {A} (l : list (nat * A)) s a a' :
  NoDup (map fst l) -> In (s, a') l -> In (s, a) l -> a' = a.
Proof.
  induction l as [|x r IH]; intros Hnd H1 H2; [contradiction|].
  simpl in Hnd. inversion Hnd as [|? ? Hnot Hnd']; subst.
  destruct H1 as [E1|H1], H2 as [E2|H2].
  - congruence.
  - exfalso. apply Hnot. rewrite E1. simpl. change s with (fst (s, a)). now apply in_map.
  - exfalso. apply Hnot. rewrite E2. simpl. change s with (fst (s, a')). now apply in_map.
  - now apply IH.
Qed.

Section Sched.
  Context {A B : Type}.
  Variable f : A -> B.

  Lemma upd_length (arr : list (option B)) s b : length (upd arr s b) = length arr.
  Proof. revert s; induction arr; destruct s; simpl; auto. Qed.

  Lemma upd_comm (arr : list (option B)) s s' b b' :
    s <> s' -> upd (upd arr s b) s' b' = upd (upd arr s' b') s b.
  Proof.
    revert s s'; induction arr as [|x r IH]; intros [|s] [|s'] H; simpl; try reflexivity; try congruence.
    f_equal. apply IH. congruence.
  Qed.

  Lemma nth_error_upd_eq (arr : list (option B)) s b : s < length arr -> nth_error (upd arr s b) s = Some (Some b).
  Proof. revert s; induction arr; destruct s; simpl; intros; try lia; auto. apply IHarr. lia. Qed.

  Lemma nth_error_upd_neq (arr : list (option B)) s s' b : s <> s' -> nth_error (upd arr s b) s' = nth_error arr s'.
  Proof. revert s s'; induction arr; destruct s, s'; simpl; intros; try congruence; auto. Qed.

  Lemma fold_complete_length order (arr : list (option B)) : length (fold_left (complete f) order arr) = length arr.
  Proof. revert arr; induction order; simpl; intros; auto. rewrite IHorder. apply upd_length. Qed.

  (* permutation invariance, from any starting array *)
  Lemma fold_complete_perm (order order' : list (task (A:=A))) :
    Permutation order order' -> NoDup (map fst order) ->
    forall arr, fold_left (complete f) order arr = fold_left (complete f) order' arr.
  Proof.
    induction 1 as [|t l l' Hp IH|t t' l|l l' l'' Hp1 IH1 Hp2 IH2]; intros Hnd arr; simpl.
    - reflexivity.
    - apply IH. now inversion Hnd.
    - f_equal. unfold complete. apply upd_comm.
      simpl in Hnd. inversion Hnd as [|? ? Hnot _]; subst. intros E. apply Hnot. left. symmetry. exact E.
    - rewrite IH1 by assumption. apply IH2.
      eapply Permutation_NoDup; [|exact Hnd]. now apply Permutation_map.
  Qed.

  Lemma assemble_perm n (order tasks : list (task (A:=A))) :
    NoDup (map fst tasks) -> Permutation order tasks -> assemble f n order = assemble f n tasks.
  Proof.
    intros Hnd Hp. unfold assemble. symmetry. apply fold_complete_perm; [now apply Permutation_sym|assumption].
  Qed.

  (* what the assembled array holds: slot s of a task holds THAT task's result, every other slot is
     untouched *)
  Lemma fold_complete_slot order : NoDup (map fst order) ->
    forall (arr : list (option B)) s,
    nth_error (fold_left (complete f) order arr) s =
      match find (fun t => Nat.eqb (fst t) s) order with
      | Some t => if Nat.ltb s (length arr) then Some (Some (f (snd t))) else None
      | None => nth_error arr s
      end.
  Proof.
    induction order as [|t r IH]; intros Hnd arr s; simpl; [reflexivity|].
    inversion Hnd as [|? ? Hnot Hnd']; subst.
    rewrite IH by assumption.
    assert (Hcl : length (complete f arr t) = length arr) by apply upd_length. rewrite Hcl.
    destruct (Nat.eqb (fst t) s) eqn:E.
    - apply Nat.eqb_eq in E. subst s.
      destruct (find (fun t0 => Nat.eqb (fst t0) (fst t)) r) as [t'|] eqn:F.
      + exfalso. apply find_some in F as [Hin Heq]. apply Nat.eqb_eq in Heq.
        apply Hnot. rewrite <- Heq. now apply in_map.
      + unfold complete. destruct (Nat.ltb (fst t) (length arr)) eqn:L.
        * apply Nat.ltb_lt in L. now apply nth_error_upd_eq.
        * apply Nat.ltb_ge in L. apply nth_error_None. now rewrite upd_length.
    - apply Nat.eqb_neq in E. destruct (find _ r); [reflexivity|]. unfold complete. now apply nth_error_upd_neq.
  Qed.

  Lemma assemble_slot n (order tasks : list (task (A:=A))) s a :
    NoDup (map fst tasks) -> Permutation order tasks -> In (s, a) tasks -> s < n ->
    nth_error (assemble f n order) s = Some (Some (f a)).
  Proof.
    intros Hnd Hp Hin Hs. rewrite (assemble_perm n order tasks Hnd Hp). unfold assemble.
    rewrite fold_complete_slot by assumption. rewrite repeat_length.
    destruct (find (fun t => Nat.eqb (fst t) s) tasks) as [t|] eqn:F.
    - apply find_some in F as [Hin' Heq]. apply Nat.eqb_eq in Heq. simpl in Heq.
      assert (t = (s, a)).
      { destruct t as [s' a']. simpl in Heq. subst s'. f_equal. eapply NoDup_fst_unique; eassumption. }
      subst t. simpl. apply Nat.ltb_lt in Hs. now rewrite Hs.
    - exfalso. eapply find_none in F; [|exact Hin]. simpl in F. now rewrite Nat.eqb_refl in F.
  Qed.

  Lemma assemble_untouched n (order : list (task (A:=A))) s :
    NoDup (map fst order) -> ~ In s (map fst order) -> s < n -> nth_error (assemble f n order) s = Some None.
  Proof.
    intros Hnd Hnot Hs. unfold assemble. rewrite fold_complete_slot by assumption.
    destruct (find (fun t => Nat.eqb (fst t) s) order) as [t|] eqn:F.
    - apply find_some in F as [Hin Heq]. apply Nat.eqb_eq in Heq. exfalso. apply Hnot. rewrite <- Heq. now apply in_map.
    - clear F Hnot Hnd. revert s Hs; induction n; intros [|s] Hs; simpl; try lia; auto. apply IHn. lia.
  Qed.

  (* ------------------------------------------------------------------------ islands *)
  Lemma fold_in_order (l : list A) (pre : list (option B)) (m : nat) :
    length l <= m ->
    fold_left (complete f) (combine (seq (length pre) (length l)) l) (pre ++ repeat None m)
    = pre ++ map (fun a => Some (f a)) l ++ repeat None (m - length l).
  Proof.
    revert pre m; induction l as [|a l IH]; intros pre m Hm; simpl.
    - now rewrite Nat.sub_0_r.
    - destruct m as [|m]; [simpl in Hm; lia|]. simpl in Hm.
      assert (E : complete f (pre ++ repeat None (S m)) (length pre, a) = (pre ++ [Some (f a)]) ++ repeat None m).
      { unfold complete. simpl fst. simpl snd. clear. induction pre as [|x pre IHp]; [reflexivity|]. cbn [app length upd]. now rewrite IHp. }
      rewrite E. replace (S (length pre)) with (length (pre ++ [Some (f a)])) by (rewrite app_length; simpl; lia).
      rewrite IH by lia. rewrite <- app_assoc. reflexivity.
  Qed.

  (* executor.map: whatever order the island creations complete in, island k is the one created from
     seeds[k] *)
  Lemma island_order (seeds : list A) (completion : list (task (A:=A))) :
    Permutation completion (island_tasks seeds) ->
    assemble f (length seeds) completion = map (fun s => Some (f s)) seeds.
  Proof.
    intros Hp. rewrite (assemble_perm _ _ (island_tasks seeds)); [|
      unfold island_tasks; rewrite fst_combine by apply seq_length | assumption].
    - unfold assemble, island_tasks.
      pose proof (fold_in_order seeds [] (length seeds) (le_n _)) as H. simpl in H.
      rewrite H, Nat.sub_diag. simpl. now rewrite app_nil_r.
    - apply seq_NoDup.
  Qed.
End Sched.

(* ------------------------------------------------------------------------ DaskBFE chunking *)
Lemma chunks_fuel_concat {A} (c : nat) : 1 <= c -> forall fuel (l : list A), length l <= fuel -> concat (chunks_fuel fuel c l) = l.
Proof.
  intros Hc. induction fuel as [|fu IH]; intros l Hl.
  - destruct l; [reflexivity|simpl in Hl; lia].
  - destruct l as [|x l]; [reflexivity|].
    change (chunks_fuel (S fu) c (x :: l)) with (firstn c (x :: l) :: chunks_fuel fu c (skipn c (x :: l))).
    cbn [concat]. rewrite IH; [apply firstn_skipn|]. rewrite skipn_length.
    cbn [length] in Hl |- *. lia.
Qed.

(* every candidate is evaluated once, in its own position, whatever the chunk size *)
Lemma bfe_chunking {A B} (f : A -> B) (c : nat) (dvs : list A) :
  1 <= c -> concat (map (map f) (chunks c dvs)) = map f dvs.
Proof.
  intros Hc. rewrite <- concat_map. f_equal. unfold chunks. now apply chunks_fuel_concat.
Qed.
