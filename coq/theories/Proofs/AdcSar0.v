(* C16: the noisy SAR converter with all strengths and noises equal to zero computes exactly the same
   code as the noise-free converter (models of both, as coded), for EVERY resolution, every finite
   reference voltage >= 0 and EVERY voltage (NaN and infinities included). *)
From Coq Require Import ZArith List Bool Reals Lia Lra.
From Flocq Require Import Core BinarySingleNaN.
From PyxelV Require Import Lib.B64 Model.Adc Proofs.AdcChain Proofs.AdcFloat Proofs.AdcRange Proofs.AdcSar.
Import ListNotations.
Open Scope R_scope.

(* equality up to the sign of zero *)
Definition feq (a b : b64) : Prop :=
  match a, b with
  | B754_zero _, B754_zero _ => True
  | _, _ => a = b
  end.

Lemma feq_refl a : feq a a.
Proof. destruct a; simpl; auto. Qed.

Lemma feq_cases a b : feq a b -> a = b \/ exists s s', a = B754_zero s /\ b = B754_zero s'.
Proof.
  destruct a as [sa|sa| |sa ma ea Ba], b as [sb|sb| |sb mb eb Bb]; simpl; intros H; auto; try discriminate.
  right. eauto.
Qed.

Lemma feq_zero s s' : feq (B754_zero s) (B754_zero s').
Proof. exact I. Qed.

Lemma feq_sym a b : feq a b -> feq b a.
Proof. intros H. destruct (feq_cases _ _ H) as [->|[s [s' [-> ->]]]]; [apply feq_refl|exact I]. Qed.

Lemma feq_trans a b c : feq a b -> feq b c -> feq a c.
Proof.
  intros H1 H2. destruct (feq_cases _ _ H1) as [->|[s [s' [-> ->]]]]; [exact H2|].
  destruct (feq_cases _ _ H2) as [<-|[t [t' [E ->]]]]; exact I.
Qed.

Lemma feq_finite a b : feq a b -> is_finite a = is_finite b.
Proof. intros H. destruct (feq_cases _ _ H) as [->|[s [s' [-> ->]]]]; reflexivity. Qed.

Lemma feq_B2R a b : feq a b -> B2R a = B2R b.
Proof. intros H. destruct (feq_cases _ _ H) as [->|[s [s' [-> ->]]]]; reflexivity. Qed.

Lemma feq_btruncZ a b : feq a b -> btruncZ a = btruncZ b.
Proof. intros H. destruct (feq_cases _ _ H) as [->|[s [s' [-> ->]]]]; reflexivity. Qed.

Lemma feq_bge a a' b b' : feq a a' -> feq b b' -> bge a b = bge a' b'.
Proof.
  intros H H'. destruct (feq_cases _ _ H) as [->|[s [s' [-> ->]]]];
  destruct (feq_cases _ _ H') as [->|[t [t' [-> ->]]]]; try reflexivity;
  try (destruct a' as [sa|sa| |sa ma ea Ba]; try reflexivity; destruct sa; reflexivity);
  try (destruct b' as [sa|sa| |sa ma ea Ba]; try reflexivity; destruct sa; reflexivity).
Qed.

Lemma add_pzero r : feq (badd r pzero) r.
Proof. destruct r as [s|s| |s m e B]; try reflexivity. destruct s; exact I. Qed.

Lemma feq_badd a a' v : feq a a' -> feq (badd a v) (badd a' v).
Proof.
  intros H. destruct (feq_cases _ _ H) as [->|[s [s' [-> ->]]]]; [apply feq_refl|].
  destruct v as [sv|sv| |sv mv ev Bv]; try apply feq_refl.
  destruct s, s', sv; exact I.
Qed.

Lemma feq_bsub_l a a' v : feq a a' -> feq (bsub a v) (bsub a' v).
Proof.
  intros H. destruct (feq_cases _ _ H) as [->|[s [s' [-> ->]]]]; [apply feq_refl|].
  destruct v as [sv|sv| |sv mv ev Bv]; try apply feq_refl.
  destruct s, s', sv; exact I.
Qed.

Lemma feq_bsub_r a v v' : feq v v' -> feq (bsub a v) (bsub a v').
Proof.
  intros H. destruct (feq_cases _ _ H) as [->|[s [s' [-> ->]]]]; [apply feq_refl|].
  destruct a as [sa|sa| |sa ma ea Ba]; try apply feq_refl.
  destruct s, s', sa; exact I.
Qed.

Lemma sub_zero a s : feq (bsub a (B754_zero s)) a.
Proof. destruct a as [sa|sa| |sa ma ea Ba]; try apply feq_refl. destruct sa, s; exact I. Qed.

Lemma feq_half a a' : feq a a' -> feq (bdiv a (bofZ 2)) (bdiv a' (bofZ 2)).
Proof.
  intros H. destruct (feq_cases _ _ H) as [->|[s [s' [-> ->]]]]; [apply feq_refl|].
  destruct s, s'; vm_compute; exact I.
Qed.

(* multiplying by the 0/1 mask *)
Lemma mul_one (r : b64) : is_finite r = true -> feq (bmul r (bofZ 1)) r.
Proof.
  intros F. destruct (bofZ_finite_exact 1) as [F1 E1]; [reflexivity|].
  generalize (Bmult_correct 53 1024 _ _ mode_NE r (bofZ 1)). rewrite E1, Rmult_1_r.
  rewrite (round_generic radix2 _ _ (B2R r) (generic_format_B2R 53 1024 r)).
  rewrite Rlt_bool_true by apply abs_B2R_lt_emax.
  unfold bmul. set (q := Bmult mode_NE r (bofZ 1)). intros [E [Fi S]].
  rewrite F, F1 in Fi. simpl in Fi.
  assert (Nn : is_nan q = false) by (destruct q; simpl in *; congruence).
  specialize (S Nn).
  assert (S1 : Bsign (bofZ 1) = false) by reflexivity. rewrite S1, xorb_false_r in S.
  destruct r as [sr|sr| |sr mr er Br]; try discriminate.
  - destruct q as [s|s| |s m e B]; try discriminate; try exact I.
    simpl in E. exfalso. apply eq_0_F2R in E. destruct s; discriminate.
  - assert (q = B754_finite sr mr er Br) as ->; [|apply feq_refl].
    apply B2R_Bsign_inj; try assumption; reflexivity.
Qed.

Lemma mul_zero (r : b64) : is_finite r = true -> exists s, bmul r pzero = B754_zero s.
Proof. destruct r; try discriminate; intros _; eexists; reflexivity. Qed.

Definition seq_state (s t : sar_state) : Prop :=
  acc s = acc t /\ feq (rem s) (rem t) /\ feq (ref s) (ref t) /\
  is_finite (ref t) = true /\ 0 <= B2R (ref t).

Lemma sar0_step_sim (bits i : Z) (s t : sar_state) :
  seq_state s t -> seq_state (sar0_step bits s i) (sar_step bits t i).
Proof.
  intros [Ha [Hr [Hf [Ff Pf]]]].
  unfold sar0_step, sar_step, seq_state. cbn [acc rem ref].
  set (r := badd (ref s) pzero).
  assert (Hrf : feq r (ref t)) by (eapply feq_trans; [apply add_pzero|exact Hf]).
  assert (Fr : is_finite r = true) by (rewrite (feq_finite _ _ Hrf); exact Ff).
  rewrite (feq_bge _ _ _ _ Hr Hrf).
  destruct (half_ref (ref t) Ff Pf) as [Fh Ph].
  destruct (bge (rem t) (ref t)).
  - split; [|split; [|split; [|split]]]; try assumption.
    + rewrite Ha. lia.
    + eapply feq_trans; [apply feq_bsub_l; exact Hr|]. apply feq_bsub_r.
      eapply feq_trans; [apply mul_one; exact Fr|exact Hrf].
    + apply feq_half. exact Hrf.
  - split; [|split; [|split; [|split]]]; try assumption.
    + rewrite Ha. lia.
    + destruct (mul_zero r Fr) as [s0 E0]. rewrite E0.
      eapply feq_trans; [apply sub_zero|exact Hr].
    + apply feq_half. exact Hrf.
Qed.

Lemma sar0_loop_sim (bits : Z) : forall (n : nat) (i : Z) (s t : sar_state),
  seq_state s t -> seq_state (sar0_loop bits n i s) (sar_loop bits n i t).
Proof.
  induction n as [|n IH]; intros i s t H; [exact H|].
  cbn [sar0_loop sar_loop]. apply IH. apply sar0_step_sim. exact H.
Qed.

(* for EVERY resolution and EVERY voltage (NaN, infinities included) *)
Theorem sar0_eq_sar (w bits : Z) (vmax x : b64) :
  is_finite vmax = true -> 0 <= B2R vmax ->
  sar0_code w bits vmax x = sar_code w bits vmax x.
Proof.
  intros Fv Pv. unfold sar0_code, sar_code, sar_acc.
  destruct (half_ref vmax Fv Pv) as [Fh Ph].
  set (s0 := {| acc := 0; rem := x; ref := bdiv vmax (bofZ 2) |}).
  assert (H0 : seq_state s0 s0).
  { unfold seq_state, s0; cbn [acc rem ref]. repeat split; try apply feq_refl; assumption. }
  generalize (sar0_loop_sim bits (Z.to_nat bits) 0 s0 s0 H0).
  intros [Ha _]. rewrite Ha. reflexivity.
Qed.
