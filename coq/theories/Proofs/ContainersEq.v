(* C13: the coded `==` against the equality specification. *)
From Coq Require Import ZArith List Bool Arith Lia.
From PyxelV Require Import Model.Containers Proofs.Containers.
Import ListNotations.

Lemma cell_np_eq_sym a b : cell_np_eq a b = cell_np_eq b a.
Proof. destruct a, b; simpl; try reflexivity. apply Z.eqb_sym. Qed.

Lemma shape_eqb_sym l1 l2 : shape_eqb l1 l2 = shape_eqb l2 l1.
Proof. apply list_eqb_sym. apply Nat.eqb_sym. Qed.

Lemma zlist_eqb_sym l1 l2 : zlist_eqb l1 l2 = zlist_eqb l2 l1.
Proof. apply list_eqb_sym. apply Z.eqb_sym. Qed.

Lemma opt_eqb_sym {A} (e : A -> A -> bool) :
  (forall x y, e x y = e y x) -> forall a b, opt_eqb e a b = opt_eqb e b a.
Proof. intros He [x|] [y|]; simpl; auto. Qed.

Lemma xinfo_eqb_sym a b : xinfo_eqb a b = xinfo_eqb b a.
Proof. unfold xinfo_eqb. rewrite shape_eqb_sym. f_equal. apply opt_eqb_sym. apply zlist_eqb_sym. Qed.

Lemma ckind_eqb_sym a b : ckind_eqb a b = ckind_eqb b a.
Proof. destruct a, b; reflexivity. Qed.

Lemma arr_same_sym x y : arr_same x y = arr_same y x.
Proof.
  unfold arr_same. rewrite (opt_eqb_sym _ xinfo_eqb_sym), shape_eqb_sym.
  rewrite (list_eqb_sym _ cell_np_eq_sym). reflexivity.
Qed.

(* the specification itself is symmetric *)
Theorem eq_spec_sym a b : eq_spec a b = eq_spec b a.
Proof.
  unfold eq_spec. rewrite ckind_eqb_sym, (Nat.eqb_sym (c_rows a)), (Nat.eqb_sym (c_cols a)).
  destruct (c_content a), (c_content b); try reflexivity. rewrite arr_same_sym. reflexivity.
Qed.

Lemma list_eqb_nan_free l1 l2 :
  nan_free l1 = true -> list_eqb cell_xr_eq l1 l2 = list_eqb cell_np_eq l1 l2.
Proof.
  unfold nan_free. revert l2. induction l1 as [|a t IH]; destruct l2 as [|b t2]; simpl; intro H; try reflexivity.
  apply andb_prop in H. destruct H as [H1 H2]. rewrite IH by exact H2. f_equal.
  unfold cell_xr_eq. destruct a, b; simpl in *; try reflexivity; discriminate.
Qed.

Lemma arr_ok_base_shape k r c x :
  is_photon k = false -> arr_ok k r c x = true -> a_xr x = None /\ a_shape x = [r; c].
Proof.
  intros Hk H. unfold arr_ok in H. rewrite Hk in H.
  apply andb_prop in H. destruct H as [H _]. apply andb_prop in H. destruct H as [_ H].
  destruct (a_xr x); [discriminate|]. split; [reflexivity|]. apply shape_eqb_eq. exact H.
Qed.

Lemma arr_ok_photon_shape r c x :
  arr_ok Photon r c x = true ->
  match a_xr x with None => a_shape x = [r; c] | Some _ => exists w, a_shape x = [w; r; c] end.
Proof.
  intro H. unfold arr_ok in H.
  apply andb_prop in H. destruct H as [H _]. apply andb_prop in H. destruct H as [_ H].
  destruct (a_xr x) as [xi|]; [|apply shape_eqb_eq; exact H].
  apply andb_prop in H. destruct H as [_ H]. destruct (x_wl xi); [|discriminate].
  destruct (a_shape x) as [|w [|r' [|c' [|? ?]]]]; try discriminate.
  apply andb_prop in H. destruct H as [H1 H2]. apply Nat.eqb_eq in H1. apply Nat.eqb_eq in H2. subst. eauto.
Qed.

Ltac bool_cases :=
  repeat match goal with
         | |- context [Nat.eqb ?a ?b] => destruct (Nat.eqb a b) eqn:?
         | |- context [xinfo_eqb ?a ?b] => destruct (xinfo_eqb a b)
         end; simpl; try reflexivity.

Section WithTables.
Variable tb : tables.
Hypothesis Htb : tables_ok tb = true.

(* two initialised containers that satisfy the invariant: `==` returns exactly the specification
   (the left operand free of NaN, where numpy and xarray disagree) *)
Theorem eq_res_spec_initialised a b x y :
  Inv a -> Inv b -> c_content a = Some x -> c_content b = Some y -> nan_free (a_data x) = true ->
  eq_res tb a b = RetBool (eq_spec a b).
Proof.
  intros Ha Hb Hx Hy Hn. unfold Inv, inv_b in Ha, Hb. rewrite Hx in Ha. rewrite Hy in Hb.
  destruct (eq_kinds tb Htb) as [Kb Kg].
  unfold eq_res, eq_spec, same_geom. rewrite Hx, Hy, Kb, Kg.
  destruct (c_kind a) eqn:Ka.
  - (* Photon *)
    destruct (c_kind b) eqn:Kb'; simpl; try reflexivity.
    apply arr_ok_photon_shape in Ha. apply arr_ok_photon_shape in Hb.
    unfold is_xr, arr_xr_equals, arr_np_equal, arr_same.
    destruct (a_xr x) as [xi|] eqn:Xx; destruct (a_xr y) as [yi|] eqn:Xy.
    + destruct Ha as [w Ha]. destruct Hb as [w' Hb]. rewrite Ha, Hb.
      rewrite (list_eqb_nan_free _ _ Hn). unfold shape_eqb. simpl.
      destruct (list_eqb cell_np_eq (a_data x) (a_data y)); bool_cases.
    + destruct Ha as [w Ha]. rewrite Ha, Hb. simpl. bool_cases.
    + destruct Hb as [w' Hb]. rewrite Ha, Hb. unfold shape_eqb. simpl. bool_cases.
    + rewrite Ha, Hb. unfold shape_eqb. simpl.
      destruct (list_eqb cell_np_eq (a_data x) (a_data y)); bool_cases.
  - destruct (arr_ok_base_shape Pixel _ _ _ eq_refl Ha) as [X1 S1].
    destruct (ckind_eqb Pixel (c_kind b)) eqn:Kb'; simpl; [|reflexivity].
    assert (Kb'' : c_kind b = Pixel) by (destruct (c_kind b); simpl in Kb'; try discriminate; reflexivity).
    rewrite Kb'' in Hb. destruct (arr_ok_base_shape Pixel _ _ _ eq_refl Hb) as [X2 S2].
    unfold arr_np_equal, arr_same. rewrite X1, X2, S1, S2. unfold shape_eqb. simpl.
    destruct (list_eqb cell_np_eq (a_data x) (a_data y)); bool_cases.
  - destruct (arr_ok_base_shape Signal _ _ _ eq_refl Ha) as [X1 S1].
    destruct (ckind_eqb Signal (c_kind b)) eqn:Kb'; simpl; [|reflexivity].
    assert (Kb'' : c_kind b = Signal) by (destruct (c_kind b); simpl in Kb'; try discriminate; reflexivity).
    rewrite Kb'' in Hb. destruct (arr_ok_base_shape Signal _ _ _ eq_refl Hb) as [X2 S2].
    unfold arr_np_equal, arr_same. rewrite X1, X2, S1, S2. unfold shape_eqb. simpl.
    destruct (list_eqb cell_np_eq (a_data x) (a_data y)); bool_cases.
  - destruct (arr_ok_base_shape Image _ _ _ eq_refl Ha) as [X1 S1].
    destruct (ckind_eqb Image (c_kind b)) eqn:Kb'; simpl; [|reflexivity].
    assert (Kb'' : c_kind b = Image) by (destruct (c_kind b); simpl in Kb'; try discriminate; reflexivity).
    rewrite Kb'' in Hb. destruct (arr_ok_base_shape Image _ _ _ eq_refl Hb) as [X2 S2].
    unfold arr_np_equal, arr_same. rewrite X1, X2, S1, S2. unfold shape_eqb. simpl.
    destruct (list_eqb cell_np_eq (a_data x) (a_data y)); bool_cases.
  - destruct (arr_ok_base_shape Phase _ _ _ eq_refl Ha) as [X1 S1].
    destruct (ckind_eqb Phase (c_kind b)) eqn:Kb'; simpl; [|reflexivity].
    assert (Kb'' : c_kind b = Phase) by (destruct (c_kind b); simpl in Kb'; try discriminate; reflexivity).
    rewrite Kb'' in Hb. destruct (arr_ok_base_shape Phase _ _ _ eq_refl Hb) as [X2 S2].
    unfold arr_np_equal, arr_same. rewrite X1, X2, S1, S2. unfold shape_eqb. simpl.
    destruct (list_eqb cell_np_eq (a_data x) (a_data y)); bool_cases.
Qed.

(* at least one side empty: no hypothesis at all *)
Theorem eq_res_spec_some_empty a b :
  c_content a = None \/ c_content b = None -> eq_res tb a b = RetBool (eq_spec a b).
Proof.
  intros H. destruct (eq_kinds tb Htb) as [Kb Kg].
  unfold eq_res, eq_spec, same_geom. rewrite Kb, Kg.
  destruct (c_kind a) eqn:Ka; destruct (c_kind b) eqn:Kb'; simpl; try reflexivity;
    destruct (Nat.eqb (c_rows a) (c_rows b)), (Nat.eqb (c_cols a) (c_cols b)); simpl; try reflexivity;
    destruct H as [H|H]; rewrite H; try reflexivity; destruct (c_content a); try reflexivity;
    destruct (c_content b); reflexivity.
Qed.

(* THE equality statement: for all pairs of containers that satisfy the invariant (NaN-free contents) *)
Theorem eq_res_spec a b :
  Inv a -> Inv b -> content_nan_free a = true -> content_nan_free b = true ->
  eq_res tb a b = RetBool (eq_spec a b).
Proof.
  intros Ha Hb Na Nb. destruct (c_content a) as [x|] eqn:Ea; [|apply eq_res_spec_some_empty; auto].
  destruct (c_content b) as [y|] eqn:Eb; [|apply eq_res_spec_some_empty; auto].
  apply (eq_res_spec_initialised a b x y); auto. unfold content_nan_free in Na. rewrite Ea in Na. exact Na.
Qed.

(* hence `==` is symmetric and never raises *)
Theorem eq_res_sym a b :
  Inv a -> Inv b -> content_nan_free a = true -> content_nan_free b = true ->
  eq_res tb a b = eq_res tb b a.
Proof.
  intros. rewrite (eq_res_spec a b), (eq_res_spec b a) by assumption. rewrite eq_spec_sym. reflexivity.
Qed.

End WithTables.
