(* Proofs about the type tests of the four walks (C10): a description accepted by `kinds_ok` - a check over the
   finite universe of containers with 0 / 1 / 2 placeholders - sends EVERY container with ANY number of
   placeholders to the same branch in the four walks, and that branch is what the declaration means; the views of
   any declaration (any list of variables in any containers) then coincide with the variables of
   Model/Decision.v, and the walks of the source on the declaration are the hand-written walks on them. *)
From Coq Require Import List Bool Arith String Lia.
From PyxelV Require Import Model.Decision Model.DecisionSrc Model.DecisionKinds Proofs.Decision Proofs.DecisionSrc.
Import ListNotations.
Local Open Scope nat_scope.

(* ------------------------------------------------------------------ 2 placeholders stand for any n >= 2 *)

Lemma holds_ge2 t k m : holds t (k, S (S m)) = holds t (k, 2).
Proof.
  induction t; simpl; try reflexivity.
  - rewrite IHt. reflexivity.
  - rewrite IHt1, IHt2. reflexivity.
  - rewrite IHt1, IHt2. reflexivity.
Qed.

Lemma classify_ge2 g k m : classify g (k, S (S m)) = classify g (k, 2).
Proof.
  induction g as [o|t a IHa b IHb]; simpl; [reflexivity|].
  rewrite holds_ge2, IHa, IHb. reflexivity.
Qed.

Lemma norm_ge2 nd k m :
  norm nd (k, S (S m)) = (fst (norm nd (k, 2)), S (S m)) /\ snd (norm nd (k, 2)) = 2.
Proof.
  unfold norm. rewrite (holds_ge2 TEq k m).
  change (snd (k, S (S m)) =? 0) with false. change (snd (k, 2) =? 0) with false.
  generalize (nd_keep_simple nd && false || nd_keep_und nd && holds TEq (k, 2)).
  intros [|]; split; reflexivity.
Qed.

Lemma pv_accepts_ge2 k m : pv_accepts (k, S (S m)) = pv_accepts (k, 2).
Proof. destruct k; reflexivity. Qed.

Lemma spec_outcome_n k n m : spec_outcome (k, n) = spec_outcome (k, m).
Proof. reflexivity. Qed.

Lemma agree_at_ge2 kd k m : agree_at kd (k, S (S m)) = agree_at kd (k, 2).
Proof.
  unfold agree_at. rewrite pv_accepts_ge2. destruct (pv_accepts (k, 2)); [|reflexivity].
  destruct (norm_ge2 (kd_norm kd) k m) as [E1 E2]. cbv zeta. rewrite E1.
  destruct (norm (kd_norm kd) (k, 2)) as [k' n'] eqn:N. simpl in E2. subst n'. simpl fst.
  rewrite (classify_ge2 (kd_sb kd) k' m), (classify_ge2 (kd_cv kd) k' m), (classify_ge2 (kd_up kd) k' m).
  unfold init_width. simpl snd.
  assert (W : forall o' o, same_width o' o (S (S m)) = same_width o' o 2).
  { intros [] []; unfold same_width, owidth; try reflexivity. rewrite !Nat.eqb_refl. reflexivity. }
  destruct (kd_init kd) as [g|]; [rewrite (classify_ge2 g k' m)|]; rewrite ?W; reflexivity.
Qed.

Lemma in_universe k n : n <= 2 -> In (k, n) universe.
Proof.
  intros H. unfold universe, all_kinds.
  destruct n as [|[|[|n]]]; [| | |lia]; destruct k; simpl; tauto.
Qed.

Lemma kinds_ok_all kd : kinds_ok kd = true -> forall v, agree_at kd v = true.
Proof.
  unfold kinds_ok. intros H [k n]. apply andb_prop in H. destruct H as [H _].
  rewrite forallb_forall in H.
  destruct n as [|[|[|m]]]; try (apply H, in_universe; lia).
  rewrite agree_at_ge2. apply H, in_universe. lia.
Qed.

Lemma kinds_ok_canonical kd : kinds_ok kd = true ->
  classify (kd_sb kd) (norm (kd_norm kd) (KUnd, 1)) = OScalar /\
  forall n, classify (kd_sb kd) (norm (kd_norm kd) (KList, n)) = OVector.
Proof.
  unfold kinds_ok, canonical_ok. intros H. apply andb_prop in H. destruct H as [_ H].
  apply andb_prop in H. destruct H as [H1 H2].
  assert (E : forall a b, outcome_eqb a b = true -> a = b) by (intros [] []; simpl; congruence).
  split; [apply E, H1|].
  simpl in H2. repeat (apply andb_prop in H2; destruct H2 as [? H2]).
  intros [|[|m]]; try (apply E; assumption).
  destruct (norm_ge2 (kd_norm kd) KList m) as [E1 E2]. rewrite E1.
  destruct (norm (kd_norm kd) (KList, 2)) as [k' n'] eqn:N. simpl in *. subst n'.
  rewrite (classify_ge2 (kd_sb kd) k' m). apply E. assumption.
Qed.

Lemma outcome_eqb_eq a b : outcome_eqb a b = true -> a = b.
Proof. destruct a, b; simpl; congruence. Qed.

(* what `agree_at` says about one container, spelled out *)
Lemma same_width_eq o' o n : same_width o' o n = true -> owidth o' n = owidth o n /\ owidth o n <> None.
Proof.
  unfold same_width. destruct (owidth o' n), (owidth o n); try discriminate.
  intros H. apply Nat.eqb_eq in H. subst. split; [reflexivity|discriminate].
Qed.

Lemma norm_snd nd v : snd (norm nd v) = snd v.
Proof. unfold norm. destruct (_ || _); reflexivity. Qed.

Lemma agree_at_meaning kd v :
  agree_at kd v = true -> pv_accepts v = true ->
  let w := norm (kd_norm kd) v in
  classify (kd_sb kd) w = ORaise \/
  (classify (kd_sb kd) w = spec_outcome v /\ classify (kd_up kd) w = spec_outcome v /\
   owidth (classify (kd_cv kd) w) (snd v) = owidth (spec_outcome v) (snd v) /\
   (forall g, kd_init kd = Some g -> owidth (classify g w) (snd v) = owidth (spec_outcome v) (snd v)) /\
   (spec_outcome v = OScalar -> snd v = 1)).
Proof.
  unfold agree_at. intros Ha Hp. rewrite Hp in Ha. cbv zeta in *. rewrite norm_snd in Ha.
  unfold init_width in Ha. rewrite norm_snd in Ha.
  destruct (classify (kd_sb kd) (norm (kd_norm kd) v)) eqn:C; try discriminate; [| |left; reflexivity].
  - right. repeat (apply andb_prop in Ha; destruct Ha as [Ha ?]).
    apply outcome_eqb_eq in Ha, H1. apply same_width_eq in H2. destruct H2 as [H2 _].
    apply Nat.eqb_eq in H. rewrite <- Ha, H1.
    repeat split; try reflexivity; [exact H2| |intros _; exact H].
    intros g Hg. rewrite Hg in H0. apply same_width_eq in H0. apply H0.
  - right. repeat (apply andb_prop in Ha; destruct Ha as [Ha ?]).
    apply outcome_eqb_eq in Ha, H1. apply same_width_eq in H2. destruct H2 as [H2 _]. rewrite <- Ha, H1.
    repeat split; try reflexivity; [exact H2| |discriminate].
    intros g Hg. rewrite Hg in H0. apply same_width_eq in H0. apply H0.
Qed.

(* ------------------------------------------------------------------ the views of a declaration *)

Section Proofs.
  Context {A : Type}.
  Variable flog fexp : A -> A.
  Variable logdom : A -> bool.

  Notation var := (@var A).
  Notation dvar := (@dvar A).

  Definition decl_width (d : dvar) : nat :=
    match spec_outcome (snd d) with OScalar => 1 | _ => snd (snd d) end.

  Lemma spec_var_width (d : dvar) : width (spec_var d) = decl_width d.
  Proof. unfold spec_var, decl_width, reshape, width. destruct (spec_outcome (snd d)); reflexivity. Qed.

  (* variables that differ at most in how a width of one is written ("_" or a container of one placeholder) *)
  Definition same_wl (v w : var) : Prop := width v = width w /\ islog v = islog w.

  Lemma convert_from_same_wl (vs ws : list var) : Forall2 same_wl vs ws ->
    forall a p, convert_from fexp a vs p = convert_from fexp a ws p.
  Proof.
    induction 1 as [|v w vs ws [Hw Hl] _ IH]; intros a p; simpl; [reflexivity|].
    rewrite Hw, Hl. apply IH.
  Qed.

  Lemma total_same_wl (vs ws : list var) : Forall2 same_wl vs ws -> total vs = total ws.
  Proof. induction 1 as [|v w vs ws [Hw _] _ IH]; simpl; [reflexivity|]. rewrite Hw, IH. reflexivity. Qed.

  Lemma view_width g nd (d : dvar) w :
    view nd g d = Some w -> owidth (classify g (norm nd (snd d))) (snd (snd d)) = Some (width w) /\
                            islog w = islog (fst d).
  Proof.
    unfold view. destruct (classify g (norm nd (snd d))); simpl; try discriminate;
      intros H; inversion H; subst w; split; reflexivity.
  Qed.

  Lemma view_of_width g nd (d : dvar) n :
    owidth (classify g (norm nd (snd d))) (snd (snd d)) = Some n ->
    exists w, view nd g d = Some w /\ width w = n /\ islog w = islog (fst d).
  Proof.
    unfold view. destruct (classify g (norm nd (snd d))); simpl; try discriminate;
      intros H; inversion H; subst n; eexists; repeat split.
  Qed.

  (* one variable: whenever _set_bound takes a branch for it, that branch and the branch of update_processor are
     the one the declaration means, and convert_to_parameters / __init__ take a branch of the same width *)
  Lemma view_agree kd (d : dvar) w :
    agree_at kd (snd d) = true -> pv_accepts (snd d) = true ->
    view (kd_norm kd) (kd_sb kd) d = Some w ->
    w = spec_var d /\
    view (kd_norm kd) (kd_up kd) d = Some w /\
    (exists c, view (kd_norm kd) (kd_cv kd) d = Some c /\ same_wl c w) /\
    (forall g, kd_init kd = Some g -> exists c, view (kd_norm kd) g d = Some c /\ same_wl c w).
  Proof.
    intros Ha Hp V.
    destruct (agree_at_meaning kd (snd d) Ha Hp) as [R|(S & U & C & I & _)]; cbv zeta in *.
    { unfold view in V. rewrite R in V. discriminate. }
    assert (E : w = spec_var d).
    { unfold view in V. rewrite S in V. unfold spec_var.
      destruct (spec_outcome (snd d)); simpl in V; inversion V; reflexivity. }
    split; [exact E|].
    split.
    { unfold view in *. rewrite U. rewrite S in V. exact V. }
    destruct (view_width _ _ _ _ V) as [Ww Wl]. rewrite S in Ww.
    split.
    - rewrite Ww in C. destruct (view_of_width _ _ _ _ C) as (c & Vc & Wc & Lc).
      exists c. split; [exact Vc|]. split; congruence.
    - intros g Hg. specialize (I g Hg). rewrite Ww in I.
      destruct (view_of_width _ _ _ _ I) as (c & Vc & Wc & Lc).
      exists c. split; [exact Vc|]. split; congruence.
  Qed.

  Lemma views_agree kd (l : list dvar) : forall vs,
    kinds_ok kd = true -> accepted_objects l = true ->
    views (kd_norm kd) (kd_sb kd) l = Some vs ->
    vs = map spec_var l /\
    views (kd_norm kd) (kd_up kd) l = Some vs /\
    (exists cs, views (kd_norm kd) (kd_cv kd) l = Some cs /\ Forall2 same_wl cs vs) /\
    (forall g, kd_init kd = Some g -> exists cs, views (kd_norm kd) g l = Some cs /\ Forall2 same_wl cs vs).
  Proof.
    induction l as [|d r IH]; intros vs Hk Hacc V; simpl in *.
    - inversion V. split; [reflexivity|]. split; [reflexivity|].
      split; [exists []; split; [reflexivity|constructor]|].
      intros g _. exists []. split; [reflexivity|constructor].
    - apply andb_prop in Hacc. destruct Hacc as [Hd Hr].
      destruct (view (kd_norm kd) (kd_sb kd) d) as [w|] eqn:Vd; [|discriminate].
      destruct (views (kd_norm kd) (kd_sb kd) r) as [ws|] eqn:Vr; [|discriminate].
      inversion V; subst vs; clear V.
      destruct (view_agree kd d w (kinds_ok_all kd Hk (snd d)) Hd Vd) as (E & U & (c & Vc & Sc) & I).
      destruct (IH ws Hk Hr eq_refl) as (E' & U' & (cs & Vcs & Scs) & I').
      rewrite U, U'. split; [congruence|]. split; [reflexivity|].
      split.
      + exists (c :: cs). rewrite Vc, Vcs. split; [reflexivity|constructor; assumption].
      + intros g Hg. destruct (I g Hg) as (c' & Vc' & Sc'). destruct (I' g Hg) as (cs' & Vcs' & Scs').
        exists (c' :: cs'). rewrite Vc', Vcs'. split; [reflexivity|constructor; assumption].
  Qed.

  (* a declaration that YAML can produce is never refused because of its containers *)
  Lemma views_canonical kd (l : list dvar) :
    kinds_ok kd = true -> canonical (map snd l) = true -> accepted_objects l = true ->
    views (kd_norm kd) (kd_sb kd) l = Some (map spec_var l).
  Proof.
    intros Hk. destruct (kinds_ok_canonical kd Hk) as [Cs Cv].
    induction l as [|d r IH]; intros Hc Ha; simpl in *; [reflexivity|].
    apply andb_prop in Hc. destruct Hc as [Hd Hr]. apply andb_prop in Ha. destruct Ha as [Pd Pr].
    rewrite (IH Hr Pr). destruct d as [v [k n]]. unfold view. simpl snd in *. simpl fst in *.
    destruct k; try discriminate.
    - unfold pv_accepts in Pd. simpl fst in Pd. simpl snd in Pd. cbv iota in Pd.
      apply Nat.eqb_eq in Pd. subst n. rewrite Cs. reflexivity.
    - rewrite Cv. reflexivity.
  Qed.

  (* the walks of the source on a declaration in any containers are the hand-written walks on the variables the
     declaration means *)
  Lemma k_walks_are_model kd d (l : list dvar) lb ub :
    kinds_ok kd = true -> desc_ok d = true ->
    k_bounds flog logdom kd d l = Some (lb, ub) ->
    let vs := map spec_var l in
    views (kd_norm kd) (kd_sb kd) l = Some vs /\
    views (kd_norm kd) (kd_up kd) l = Some vs /\
    (exists cs, views (kd_norm kd) (kd_cv kd) l = Some cs /\ Forall2 same_wl cs vs) /\
    bounds_walk flog logdom vs = Some (lb, ub) /\
    (forall x, k_convert fexp kd d l x = Some (convert_walk fexp vs x)) /\
    (forall p, k_assign kd d l p = assign_walk vs p) /\
    (kd_init kd = None \/ k_count kd l = Some (total vs)) /\
    Forall2 (fun dv v => width v = decl_width dv) l vs.
  Proof.
    intros Hk Hd B vs. unfold k_bounds in B.
    destruct (accepted_objects l) eqn:Hacc; [|discriminate].
    destruct (views (kd_norm kd) (kd_sb kd) l) as [ws|] eqn:V; [|discriminate].
    destruct (views_agree kd l ws Hk Hacc V) as (E & U & (cs & C & Sc) & I). subst ws. fold vs in V, C, U, I, B, Sc.
    rewrite (g_bounds_ok flog logdom d vs Hd) in B. simpl in B.
    destruct (desc_ok_parts d Hd) as (Hcv & Hup & _).
    split; [reflexivity|]. split; [exact U|]. split; [exists cs; split; assumption|]. split; [exact B|].
    split.
    { intros x. unfold k_convert. rewrite C. simpl.
      destruct (g_convert_ok fexp (d_cv d) cs x Hcv) as [-> _].
      unfold convert_walk. rewrite (convert_from_same_wl cs vs Sc). reflexivity. }
    split.
    { intros p. unfold k_assign. rewrite U. apply g_assign_ok. exact Hup. }
    split.
    { unfold k_count. destruct (kd_init kd) as [g|] eqn:G; [|left; reflexivity].
      right. destruct (I g eq_refl) as (cs' & Vc' & Sc'). rewrite Vc'. simpl.
      rewrite (total_same_wl cs' vs Sc'). reflexivity. }
    unfold vs. clear. induction l as [|dv r IH]; simpl; constructor; [apply spec_var_width|exact IH].
  Qed.

  (* C10_walks_agree for a declaration in any containers *)
  Lemma k_walks_agree kd d (l : list dvar) lb ub x :
    kinds_ok kd = true -> desc_ok d = true ->
    k_bounds flog logdom kd d l = Some (lb, ub) -> List.length x = List.length lb ->
    let vs := map spec_var l in
    List.length lb = total vs /\ List.length ub = total vs /\
    exists conv asg,
      k_convert fexp kd d l x = Some conv /\ List.length conv = total vs /\
      k_assign kd d l conv = Some asg /\ List.length asg = List.length l /\
      forall k dv, nth_error l k = Some dv ->
        let v := spec_var dv in
        let off := offset vs k in let w := decl_width dv in
        off + w <= total vs /\
        offset vs (S k) = off + w /\
        slice off w lb = var_lower flog v /\
        slice off w ub = var_upper flog v /\
        slice off w conv = var_convert fexp v (slice off w x) /\
        exists val, var_value v (slice off w conv) = Some val /\ nth_error asg k = Some (key v, val).
  Proof.
    intros Hk Hd B L vs.
    destruct (k_walks_are_model kd d l lb ub Hk Hd B) as (_ & _ & _ & BW & CV & AS & _ & _).
    fold vs in BW, CV, AS.
    destruct (walks_agree flog fexp logdom vs lb ub x BW L) as (L1 & L2 & L3 & asg & Ha & La & P).
    split; [exact L1|]. split; [exact L2|].
    exists (convert_walk fexp vs x), asg.
    split; [apply CV|]. split; [exact L3|]. split; [rewrite AS; exact Ha|].
    split; [rewrite La; unfold vs; apply map_length|].
    intros k dv Hn. cbv zeta.
    assert (Hv : nth_error vs k = Some (spec_var dv)) by (unfold vs; rewrite nth_error_map, Hn; reflexivity).
    specialize (P k (spec_var dv) Hv). cbv zeta in P. rewrite spec_var_width in P. exact P.
  Qed.

End Proofs.
