(* C19, part 3: histories on ONE Outputs / running-mode object.  By induction over the sequence of
   operations (Edit | Run | Start | Compute): every simulation a history starts is exactly the
   standalone save flow on the request, folder and prefix in force when it was started, in a
   directory nobody had; nothing else in the world changes. *)
From Coq Require Import List Bool Arith ZArith Lia String.
From PyxelV Require Import Model.Outputs Model.OutputsHist Proofs.OutputsDir Proofs.OutputsFiles Proofs.OutputsSeq.
Import ListNotations.
Open Scope string_scope.
Local Open Scope list_scope.

(* ------------------------------------------------------------------ the world *)

Lemma wget_In : forall d w fs, wget d w = Some fs -> In d (wdirs w).
Proof.
  intros d w. induction w as [|[d' x] r IH]; simpl; intros fs H; [discriminate|].
  destruct (String.eqb d d') eqn:E.
  - apply String.eqb_eq in E. auto.
  - right. eauto.
Qed.

Lemma wget_cons_other : forall d p x w, d <> p -> wget d ((p, x) :: w) = wget d w.
Proof.
  intros d p x w N. simpl.
  destruct (String.eqb d p) eqn:E; [apply String.eqb_eq in E; congruence | reflexivity].
Qed.

Lemma wget_cons_same : forall p x w, wget p ((p, x) :: w) = Some x.
Proof. intros. simpl. now rewrite String.eqb_refl. Qed.

Lemma wget_wset_same : forall d fs w, wget d (wset d fs w) = Some fs.
Proof.
  intros d fs w. induction w as [|[d' x] r IH]; simpl.
  - now rewrite String.eqb_refl.
  - destruct (String.eqb d d') eqn:E; simpl; rewrite E; auto.
Qed.

Lemma wget_wset_other : forall d d' fs w, d <> d' -> wget d' (wset d fs w) = wget d' w.
Proof.
  intros d d' fs w N. induction w as [|[k x] r IH]; simpl.
  - destruct (String.eqb d' d) eqn:E; [apply String.eqb_eq in E; congruence | reflexivity].
  - destruct (String.eqb d k) eqn:E; simpl.
    + apply String.eqb_eq in E. subst k.
      destruct (String.eqb d' d) eqn:E2; [apply String.eqb_eq in E2; congruence | reflexivity].
    + destruct (String.eqb d' k); auto.
Qed.

Lemma wdirs_wset : forall d fs w, In d (wdirs w) -> wdirs (wset d fs w) = wdirs w.
Proof.
  intros d fs w. induction w as [|[k x] r IH]; simpl; intro H; [contradiction|].
  destruct (String.eqb d k) eqn:E; simpl; [reflexivity|]. f_equal. apply IH.
  destruct H as [H|H]; [subst; rewrite String.eqb_refl in E; discriminate | exact H].
Qed.

(* ------------------------------------------------------------------ lists *)

Lemma nth_upd_nth : forall A (g : A -> A) l i j,
  nth_error (upd_nth i g l) j = if Nat.eqb i j then option_map g (nth_error l j) else nth_error l j.
Proof.
  intros A g. induction l as [|x r IH]; intros i j.
  - destruct i, j; simpl; try reflexivity; destruct (Nat.eqb i j); reflexivity.
  - destruct i, j; simpl; try reflexivity. apply IH.
Qed.

Lemma nth_app_one : forall A (l : list A) x i y,
  nth_error (l ++ [x]) i = Some y -> nth_error l i = Some y \/ (i = List.length l /\ y = x).
Proof.
  intros A l x i y H. destruct (Nat.lt_ge_cases i (List.length l)) as [L|L].
  - rewrite nth_error_app1 in H by exact L. auto.
  - rewrite nth_error_app2 in H by exact L.
    destruct (i - List.length l) eqn:E; simpl in H.
    + injection H as <-. right. split; [lia | reflexivity].
    + destruct n; discriminate H.
Qed.

(* ------------------------------------------------------------------ pending lazy results *)

Definition live_at (l : list pend) (i : nat) (pd : pend) : Prop :=
  nth_error l i = Some pd /\ p_live pd = true.

(* every started-but-not-computed observation still finds its directory as it was when it started,
   and no two of them share a directory *)
Definition Inv (st : hstate) (w : world) : Prop :=
  (forall i pd, live_at (h_pend st) i pd -> wget (p_dir pd) w = Some (p_pre pd)) /\
  (forall i j pd pd', live_at (h_pend st) i pd -> live_at (h_pend st) j pd' -> i <> j ->
     p_dir pd <> p_dir pd').

Lemma live_app_dead : forall l x i pd, p_live x = false -> live_at (l ++ [x]) i pd -> live_at l i pd.
Proof.
  intros l x i pd D [H L]. apply nth_app_one in H. destruct H as [H|[_ ->]]; [split; auto | congruence].
Qed.

Lemma live_app_cases : forall l x i pd, live_at (l ++ [x]) i pd ->
  live_at l i pd \/ (i = List.length l /\ pd = x).
Proof.
  intros l x i pd [H L]. apply nth_app_one in H. destruct H as [H|H]; [left; split; auto | right; exact H].
Qed.

Lemma live_at_lt : forall l i pd, live_at l i pd -> i < List.length l.
Proof. intros l i pd [H _]. apply nth_error_Some. congruence. Qed.

Lemma live_kill : forall l i j pd, live_at (kill i l) j pd -> j <> i /\ live_at l j pd.
Proof.
  intros l i j pd [H L]. unfold kill in H. rewrite nth_upd_nth in H.
  destruct (Nat.eqb i j) eqn:E.
  - apply Nat.eqb_eq in E. subst j. destruct (nth_error l i); simpl in H; [|discriminate].
    injection H as <-. simpl in L. discriminate L.
  - apply Nat.eqb_neq in E. split; [congruence | split; auto].
Qed.

(* ------------------------------------------------------------------ what a record is *)

(* the standalone flow of a simulation (a lazily started one is a dask observation) *)
Definition sim_flow (m : mode) (T : tables) (s : sim) : files * list entry * option err :=
  if sm_lazy s then flow_dask T (sm_ep s) (sm_req s) (sm_n s) (sm_pre s)
  else flow m T (sm_ep s) (sm_req s) (sm_n s) (sm_pre s).

Definition rec_of_sim (m : mode) (T : tables) (r : runrec) (s : sim) : Prop :=
  r_ep r = sm_ep s /\ r_at r = r_dir r /\ (exists k, r_dir r = cand (sm_base s) k) /\
  sim_flow m T s = (r_files r, r_rep r, r_err r).

Definition rec_of_pend (T : tables) (r : runrec) (pd : pend) : Prop :=
  r_ep r = p_ep pd /\ r_at r = r_dir r /\ r_dir r = p_dir pd /\
  flow_dask_from T (p_ep pd) (p_req pd) (p_nruns pd) 0 (p_pre pd) [] = (r_files r, r_rep r, r_err r).

Fixpoint plain (ops : list op) : Prop :=
  match ops with
  | [] => True
  | Edit _ :: r | Run _ _ :: r => plain r
  | _ => False
  end.

Definition no_live_dir (l : list pend) (d : string) : Prop :=
  forall i pd, live_at l i pd -> p_dir pd <> d.

Definition hist_post (m : mode) (T : tables) (ts : string) (ops : list op)
           (st : hstate) (w : world) (ep : nat) (wf : world) (recs : list runrec) : Prop :=
  (* every record is the standalone flow of a simulation this history starts, or of one pending before *)
  (forall r, In r recs ->
     (exists s, In s (sims ts ops (h_cfg st) ep) /\ rec_of_sim m T r s) \/
     (exists i pd, live_at (h_pend st) i pd /\ rec_of_pend T r pd)) /\
  (* directories: pairwise distinct; new, or the one of a pending observation *)
  NoDup (map r_dir recs) /\
  (forall r, In r recs ->
     ~ In (r_dir r) (wdirs w) \/ (exists i pd, live_at (h_pend st) i pd /\ p_dir pd = r_dir r)) /\
  (* frame: a directory that is not waiting for a lazy result never changes *)
  (forall d fs, wget d w = Some fs -> no_live_dir (h_pend st) d -> wget d wf = Some fs) /\
  (* what a simulation left in its directory is still there at the end *)
  (forall r, In r recs -> wget (r_dir r) wf = Some (r_files r)) /\
  (* every run_mode call that is not lazy is recorded *)
  (forall s, In s (sims ts ops (h_cfg st) ep) -> sm_lazy s = false -> exists r, In r recs /\ r_ep r = sm_ep s).

Lemma flow_dask_unfold : forall T ep req n pre,
  dask_meta_err T ep req = None -> flow_dask T ep req n pre = flow_dask_from T ep req n 0 pre [].
Proof. intros. unfold flow_dask. now rewrite H. Qed.

Lemma flow_dask_meta : forall T ep req n pre e,
  dask_meta_err T ep req = Some e -> flow_dask T ep req n pre = (pre, [], Some e).
Proof. intros. unfold flow_dask. now rewrite H. Qed.

Lemma hist_main : forall m T ts ops st w ep wf recs,
  t_dask_snapshot T = true \/ plain ops ->
  Inv st w ->
  run_hist m T true ts ops st w ep = (wf, recs) ->
  hist_post m T ts ops st w ep wf recs.
Proof.
  intros m T ts. induction ops as [|o rest IH]; intros st w ep wf recs Hm HI H.
  - simpl in H. injection H as <- <-. unfold hist_post. simpl.
    split; [intros r []|]. split; [constructor|]. split; [intros r []|].
    split; [intros d fs Hd _; exact Hd|]. split; [intros r [] | intros s []].
  - simpl in H.
    destruct (step m T true ts o st w ep) as [[[st' w'] ep'] r0] eqn:S.
    destruct (run_hist m T true ts rest st' w' ep') as [wf' more] eqn:R.
    injection H as <- <-.
    assert (Hm' : t_dask_snapshot T = true \/ plain rest).
    { destruct Hm as [Hm|Hm]; [auto|]. right. destruct o; simpl in Hm; tauto. }
    destruct HI as [I1 I2].
    destruct o as [e | n pre | n pre | i]; simpl in S.
    + (* Edit *)
      injection S as <- <- <- <-.
      apply (IH _ _ _ _ _ Hm') in R; [|split; cbn [h_pend h_cfg h_cur sims wdirs map fst In r_dir r_ep r_at r_files r_rep r_err p_dir p_pre p_ep p_req p_nruns p_live]; auto].
      unfold hist_post in *. cbn [h_pend h_cfg h_cur sims wdirs map fst In r_dir r_ep r_at r_files r_rep r_err p_dir p_pre p_ep p_req p_nruns p_live] in *. exact R.
    + (* Run *)
      destruct (create_dir_fresh (wdirs w) (base_name ts (h_cfg st))) as (p & k & Hc & Hp & Hk & _).
      rewrite Hc in S.
      destruct (flow m T ep (c_req (h_cfg st)) n pre) as [[fs' rep] e] eqn:Fl.
      injection S as <- <- <- <-.
      set (dead := {| p_dir := p; p_req := c_req (h_cfg st); p_nruns := n; p_ep := ep; p_pre := pre;
                      p_live := false |}) in *.
      assert (Lold : forall j pd, live_at (h_pend st ++ [dead]) j pd -> live_at (h_pend st) j pd)
        by (intros j pd; apply live_app_dead; reflexivity).
      assert (Dold : forall j pd, live_at (h_pend st) j pd -> p_dir pd <> p).
      { intros j pd L E. apply I1 in L. apply wget_In in L. rewrite E in L. contradiction. }
      apply (IH _ _ _ _ _ Hm') in R.
      2:{ split; cbn [h_pend h_cfg h_cur sims wdirs map fst In r_dir r_ep r_at r_files r_rep r_err p_dir p_pre p_ep p_req p_nruns p_live].
          - intros j pd L. apply Lold in L. rewrite wget_cons_other; [eauto | eapply Dold; eauto].
          - intros j j' pd pd' L L'. apply Lold in L. apply Lold in L'. eauto. }
      destruct R as (M & D & Dw & F & Rr & C). cbn [h_pend h_cfg h_cur sims wdirs map fst In r_dir r_ep r_at r_files r_rep r_err p_dir p_pre p_ep p_req p_nruns p_live] in *.
      set (s0 := {| sm_ep := ep; sm_req := c_req (h_cfg st); sm_base := base_name ts (h_cfg st); sm_n := n;
                    sm_pre := pre; sm_lazy := false |}).
      set (r1 := {| r_ep := ep; r_dir := p; r_at := p; r_rep := rep; r_err := e; r_files := fs' |}).
      unfold hist_post. cbn [h_pend h_cfg h_cur sims wdirs map fst In r_dir r_ep r_at r_files r_rep r_err p_dir p_pre p_ep p_req p_nruns p_live]. repeat split.
      * intros r [<-|Hr].
        -- left. exists s0. split; [left; reflexivity|]. unfold rec_of_sim, sim_flow. simpl.
           repeat split; eauto.
        -- destruct (M r Hr) as [(s & Hs & Hrs)|(j & pd & L & Hrp)].
           ++ left. exists s. split; [right; exact Hs | exact Hrs].
           ++ right. exists j, pd. split; [apply Lold; exact L | exact Hrp].
      * constructor; [|exact D]. intro Hin. apply in_map_iff in Hin. destruct Hin as (r & Er & Hr).
        destruct (Dw r Hr) as [N|(j & pd & L & E)].
        -- apply N. left. symmetry. exact Er.
        -- apply Lold in L. apply (Dold _ _ L). rewrite E. exact Er.
      * intros r [<-|Hr]; [left; exact Hp|].
        destruct (Dw r Hr) as [N|(j & pd & L & E)].
        -- left. intro X. apply N. right. exact X.
        -- right. exists j, pd. split; [apply Lold; exact L | exact E].
      * intros d fs Hd Hn. apply F.
        -- rewrite wget_cons_other; [exact Hd|]. intros ->. apply wget_In in Hd. contradiction.
        -- intros j pd L. apply Hn with j. apply Lold. exact L.
      * intros r [<-|Hr]; [|auto]. simpl. apply F; [apply wget_cons_same|].
        intros j pd L. apply Lold in L. eapply Dold; eauto.
      * intros s [<-|Hs] Hl.
        -- exists r1. split; [left; reflexivity | reflexivity].
        -- destruct (C s Hs Hl) as (r & Hr & Er). exists r. split; [right; exact Hr | exact Er].
    + (* Start *)
      destruct (create_dir_fresh (wdirs w) (base_name ts (h_cfg st))) as (p & k & Hc & Hp & Hk & _).
      rewrite Hc in S.
      assert (Dold : forall j pd, live_at (h_pend st) j pd -> p_dir pd <> p).
      { intros j pd L E. apply I1 in L. apply wget_In in L. rewrite E in L. contradiction. }
      set (s0 := {| sm_ep := ep; sm_req := c_req (h_cfg st); sm_base := base_name ts (h_cfg st); sm_n := n;
                    sm_pre := pre; sm_lazy := true |}).
      destruct (dask_meta_err T ep (c_req (h_cfg st))) as [e|] eqn:Me.
      * (* the metadata run fails: the observation ends here *)
        injection S as <- <- <- <-.
        set (dead := {| p_dir := p; p_req := c_req (h_cfg st); p_nruns := n; p_ep := ep; p_pre := pre;
                        p_live := false |}) in *.
        assert (Lold : forall j pd, live_at (h_pend st ++ [dead]) j pd -> live_at (h_pend st) j pd)
          by (intros j pd; apply live_app_dead; reflexivity).
        apply (IH _ _ _ _ _ Hm') in R.
        2:{ split; cbn [h_pend h_cfg h_cur sims wdirs map fst In r_dir r_ep r_at r_files r_rep r_err p_dir p_pre p_ep p_req p_nruns p_live].
            - intros j pd L. apply Lold in L. rewrite wget_cons_other; [eauto | eapply Dold; eauto].
            - intros j j' pd pd' L L'. apply Lold in L. apply Lold in L'. eauto. }
        destruct R as (M & D & Dw & F & Rr & C). cbn [h_pend h_cfg h_cur sims wdirs map fst In r_dir r_ep r_at r_files r_rep r_err p_dir p_pre p_ep p_req p_nruns p_live] in *.
        set (r1 := {| r_ep := ep; r_dir := p; r_at := p; r_rep := []; r_err := Some e; r_files := pre |}).
        unfold hist_post. cbn [h_pend h_cfg h_cur sims wdirs map fst In r_dir r_ep r_at r_files r_rep r_err p_dir p_pre p_ep p_req p_nruns p_live]. repeat split.
        -- intros r [<-|Hr].
           ++ left. exists s0. split; [left; reflexivity|]. unfold rec_of_sim, sim_flow. simpl.
              repeat split; eauto. apply flow_dask_meta. exact Me.
           ++ destruct (M r Hr) as [(s & Hs & Hrs)|(j & pd & L & Hrp)].
              ** left. exists s. split; [right; exact Hs | exact Hrs].
              ** right. exists j, pd. split; [apply Lold; exact L | exact Hrp].
        -- constructor; [|exact D]. intro Hin. apply in_map_iff in Hin. destruct Hin as (r & Er & Hr).
           destruct (Dw r Hr) as [N|(j & pd & L & E)].
           ++ apply N. left. symmetry. exact Er.
           ++ apply Lold in L. apply (Dold _ _ L). rewrite E. exact Er.
        -- intros r [<-|Hr]; [left; exact Hp|].
           destruct (Dw r Hr) as [N|(j & pd & L & E)].
           ++ left. intro X. apply N. right. exact X.
           ++ right. exists j, pd. split; [apply Lold; exact L | exact E].
        -- intros d fs Hd Hn. apply F.
           ++ rewrite wget_cons_other; [exact Hd|]. intros ->. apply wget_In in Hd. contradiction.
           ++ intros j pd L. apply Hn with j. apply Lold. exact L.
        -- intros r [<-|Hr]; [|auto]. simpl. apply F; [apply wget_cons_same|].
           intros j pd L. apply Lold in L. eapply Dold; eauto.
        -- intros s [<-|Hs] Hl; [discriminate Hl|].
           destruct (C s Hs Hl) as (r & Hr & Er). exists r. split; [right; exact Hr | exact Er].
      * (* started: the lazy result is pending *)
        injection S as <- <- <- <-.
        set (pn := {| p_dir := p; p_req := c_req (h_cfg st); p_nruns := n; p_ep := ep; p_pre := pre;
                      p_live := true |}) in *.
        apply (IH _ _ _ _ _ Hm') in R.
        2:{ split; cbn [h_pend h_cfg h_cur sims wdirs map fst In r_dir r_ep r_at r_files r_rep r_err p_dir p_pre p_ep p_req p_nruns p_live].
            - intros j pd L. apply live_app_cases in L. destruct L as [L|[_ ->]].
              + rewrite wget_cons_other; [eauto | eapply Dold; eauto].
              + simpl. apply wget_cons_same.
            - intros j j' pd pd' L L' N.
              apply live_app_cases in L. apply live_app_cases in L'.
              destruct L as [L|[Ej ->]], L' as [L'|[Ej' ->]].
              + eauto.
              + simpl. eapply Dold; eauto.
              + simpl. intro E. symmetry in E. revert E. eapply Dold; eauto.
              + congruence. }
        destruct R as (M & D & Dw & F & Rr & C). cbn [h_pend h_cfg h_cur sims wdirs map fst In r_dir r_ep r_at r_files r_rep r_err p_dir p_pre p_ep p_req p_nruns p_live] in *.
        unfold hist_post. cbn [h_pend h_cfg h_cur sims wdirs map fst In r_dir r_ep r_at r_files r_rep r_err p_dir p_pre p_ep p_req p_nruns p_live]. repeat split.
        -- intros r Hr. destruct (M r Hr) as [(s & Hs & Hrs)|(j & pd & L & Hrp)].
           ++ left. exists s. split; [right; exact Hs | exact Hrs].
           ++ apply live_app_cases in L. destruct L as [L|[_ ->]].
              ** right. exists j, pd. split; [exact L | exact Hrp].
              ** left. exists s0. split; [left; reflexivity|].
                 destruct Hrp as (E1 & E2 & E3 & E4). simpl in *.
                 unfold rec_of_sim, sim_flow. simpl. repeat split; auto.
                 --- exists k. congruence.
                 --- rewrite flow_dask_unfold by exact Me. exact E4.
        -- exact D.
        -- intros r Hr. destruct (Dw r Hr) as [N|(j & pd & L & E)].
           ++ left. intro X. apply N. right. exact X.
           ++ apply live_app_cases in L. destruct L as [L|[_ ->]].
              ** right. exists j, pd. split; [exact L | exact E].
              ** left. simpl in E. rewrite <- E. exact Hp.
        -- intros d fs Hd Hn. apply F.
           ++ rewrite wget_cons_other; [exact Hd|]. intros ->. apply wget_In in Hd. contradiction.
           ++ intros j pd L. apply live_app_cases in L. destruct L as [L|[_ ->]].
              ** eapply Hn; eauto.
              ** simpl. intros ->. apply wget_In in Hd. contradiction.
        -- exact Rr.
        -- intros s [<-|Hs] Hl; [discriminate Hl|]. eauto.
    + (* Compute *)
      destruct (nth_error (h_pend st) i) as [pd|] eqn:Nth.
      2:{ injection S as <- <- <- <-. apply (IH _ _ _ _ _ Hm') in R; [exact R | split; auto]. }
      destruct (p_live pd) eqn:Lv; simpl in S.
      2:{ injection S as <- <- <- <-. apply (IH _ _ _ _ _ Hm') in R; [exact R | split; auto]. }
      destruct Hm as [Sn|Pl]; [|simpl in Pl; contradiction].
      rewrite Sn in S.
      assert (Li : live_at (h_pend st) i pd) by (split; auto).
      pose proof (I1 _ _ Li) as Wd. rewrite Wd in S.
      destruct (flow_dask_from T (p_ep pd) (p_req pd) (p_nruns pd) 0 (p_pre pd) []) as [[fs' rep] e] eqn:Fl.
      injection S as <- <- <- <-.
      assert (Hin : In (p_dir pd) (wdirs w)) by (eapply wget_In; eauto).
      assert (Lk : forall j pd', live_at (kill i (h_pend st)) j pd' -> j <> i /\ live_at (h_pend st) j pd')
        by (intros; now apply live_kill).
      assert (Dk : forall j pd', live_at (kill i (h_pend st)) j pd' -> p_dir pd' <> p_dir pd).
      { intros j pd' L. apply Lk in L. destruct L as [N L]. eapply I2; eauto. }
      apply (IH _ _ _ _ _ (or_introl Sn)) in R.
      2:{ split; cbn [h_pend h_cfg h_cur sims wdirs map fst In r_dir r_ep r_at r_files r_rep r_err p_dir p_pre p_ep p_req p_nruns p_live].
          - intros j pd' L. pose proof (Dk _ _ L) as N. apply Lk in L.
            rewrite wget_wset_other; [apply (I1 j); tauto | congruence].
          - intros j j' pd1 pd2 L L' N. apply Lk in L. apply Lk in L'. apply (I2 j j'); tauto. }
      destruct R as (M & D & Dw & F & Rr & C). cbn [h_pend h_cfg h_cur sims wdirs map fst In r_dir r_ep r_at r_files r_rep r_err p_dir p_pre p_ep p_req p_nruns p_live] in *.
      rewrite wdirs_wset in Dw by exact Hin.
      set (r1 := {| r_ep := p_ep pd; r_dir := p_dir pd; r_at := p_dir pd; r_rep := rep; r_err := e;
                    r_files := fs' |}).
      unfold hist_post. cbn [h_pend h_cfg h_cur sims wdirs map fst In r_dir r_ep r_at r_files r_rep r_err p_dir p_pre p_ep p_req p_nruns p_live]. repeat split.
      * intros r [<-|Hr].
        -- right. exists i, pd. split; [exact Li|]. unfold rec_of_pend. simpl. auto.
        -- destruct (M r Hr) as [Hs|(j & pd' & L & Hrp)]; [left; exact Hs|].
           right. exists j, pd'. split; [apply Lk; exact L | exact Hrp].
      * constructor; [|exact D]. intro Hi. apply in_map_iff in Hi. destruct Hi as (r & Er & Hr).
        destruct (Dw r Hr) as [N|(j & pd' & L & E)].
        -- apply N. rewrite Er. exact Hin.
        -- apply (Dk _ _ L). rewrite E. exact Er.
      * intros r [<-|Hr].
        -- right. exists i, pd. split; [exact Li | reflexivity].
        -- destruct (Dw r Hr) as [N|(j & pd' & L & E)]; [left; exact N|].
           right. exists j, pd'. split; [apply Lk; exact L | exact E].
      * intros d fs Hd Hn. apply F.
        -- rewrite wget_wset_other; [exact Hd|]. apply (Hn i pd Li).
        -- intros j pd' L. apply Lk in L. destruct L as [_ L]. eapply Hn; eauto.
      * intros r [<-|Hr]; [|auto]. simpl. apply F; [apply wget_wset_same|].
        intros j pd' L. eapply Dk; eauto.
      * intros s Hs Hl. destruct (C s Hs Hl) as (r & Hr & Er). exists r. split; [right; exact Hr | exact Er].
Qed.

(* ------------------------------------------------------------------ histories from a fresh object *)

Theorem hist_sound : forall m T ts ops c w wf recs,
  t_dask_snapshot T = true \/ plain ops ->
  run_hist m T true ts ops (init_state c) w 0 = (wf, recs) ->
  (forall r, In r recs -> exists s, In s (sims ts ops c 0) /\ rec_of_sim m T r s) /\
  NoDup (map r_dir recs) /\
  (forall r, In r recs -> ~ In (r_dir r) (wdirs w)) /\
  (forall d fs, wget d w = Some fs -> wget d wf = Some fs) /\
  (forall r, In r recs -> wget (r_dir r) wf = Some (r_files r)) /\
  (forall s, In s (sims ts ops c 0) -> sm_lazy s = false -> exists r, In r recs /\ r_ep r = sm_ep s).
Proof.
  intros m T ts ops c w wf recs Hm H.
  assert (Nl : forall i pd, ~ live_at (h_pend (init_state c)) i pd).
  { intros i pd [X _]. simpl in X. destruct i; discriminate X. }
  apply hist_main in H; [|exact Hm|].
  2:{ split; intros; exfalso; eapply Nl; eauto. }
  destruct H as (M & D & Dw & F & Rr & C). repeat split; auto.
  - intros r Hr. destruct (M r Hr) as [X|(i & pd & L & _)]; [exact X | exfalso; eapply Nl; eauto].
  - intros r Hr. destruct (Dw r Hr) as [X|(i & pd & L & _)]; [exact X | exfalso; eapply Nl; eauto].
  - intros d fs Hd. apply F; [exact Hd|]. intros i pd L. exfalso; eapply Nl; eauto.
Qed.

(* the simulations of a history carry consecutive numbers, so a record identifies its simulation *)
Lemma sims_ep_ge : forall ts ops c ep s, In s (sims ts ops c ep) -> ep <= sm_ep s.
Proof.
  intros ts. induction ops as [|o rest IH]; intros c ep s H; simpl in H; [contradiction|].
  destruct o; simpl in H.
  - eauto.
  - destruct H as [<-|H]; [simpl; lia | apply IH in H; lia].
  - destruct H as [<-|H]; [simpl; lia | apply IH in H; lia].
  - eauto.
Qed.

Lemma sims_ep_inj : forall ts ops c ep s s',
  In s (sims ts ops c ep) -> In s' (sims ts ops c ep) -> sm_ep s = sm_ep s' -> s = s'.
Proof.
  intros ts. induction ops as [|o rest IH]; intros c ep s s' H H' E; simpl in *; [contradiction|].
  destruct o; simpl in *; eauto.
  - destruct H as [<-|H], H' as [<-|H']; auto.
    + apply sims_ep_ge in H'. simpl in E. lia.
    + apply sims_ep_ge in H. simpl in E. lia.
    + eauto.
  - destruct H as [<-|H], H' as [<-|H']; auto.
    + apply sims_ep_ge in H'. simpl in E. lia.
    + apply sims_ep_ge in H. simpl in E. lia.
    + eauto.
Qed.

(* the request in force: an edit in place and an assignment of the edited copy are the same thing *)
Lemma sims_edit_then_run : forall ts e n pre c ep,
  sims ts [Edit e; Run n pre] c ep =
  [{| sm_ep := ep; sm_req := c_req (apply_edit e c); sm_base := base_name ts (apply_edit e c);
      sm_n := n; sm_pre := pre; sm_lazy := false |}].
Proof. reflexivity. Qed.

(* ------------------------------------------------------------------ per-simulation consequences *)

Lemma plain_sims_eager : forall ts ops c ep s, plain ops -> In s (sims ts ops c ep) -> sm_lazy s = false.
Proof.
  intros ts. induction ops as [|o rest IH]; intros c ep s P H; simpl in *; [contradiction|].
  destruct o; simpl in *; try contradiction.
  - eauto.
  - destruct H as [<-|H]; [reflexivity | eauto].
Qed.

(* the mode a simulation really runs in, and the name its files must have *)
Definition eff_mode (m : mode) (s : sim) : mode := if sm_lazy s then MDask else m.

Definition spec_name (m : mode) (x : nat) (b : bucket) (f : fmt) : string :=
  match m with
  | MExposure => render_new b None f
  | MDask => render_new b (Some x) f
  | MSeq => render_old b x (old_ext_spec f)
  end.

(* completeness of one flow, as a property of the tables and the mode *)
Definition flow_complete (m : mode) (T : tables) : Prop :=
  forall ep req n pre fs rep, flow m T ep req n pre = (fs, rep, None) ->
  forall x b f nm, In (x, b, f, nm) rep <->
    x < nruns_of m n /\ In (b, f) (items req) /\ nm = spec_name m x b f.

Lemma flow_complete_exposure : forall T, flow_complete MExposure T.
Proof.
  intros T ep req n pre fs rep H x b f nm. simpl in H.
  rewrite (flow_exposure_complete _ _ _ _ _ _ H). simpl. split.
  - intros (-> & A & B). repeat split; auto.
  - intros (L & A & B). repeat split; auto. lia.
Qed.

Lemma flow_complete_dask : forall T, flow_complete MDask T.
Proof.
  intros T ep req n pre fs rep H x b f nm. simpl in H.
  rewrite (flow_dask_complete _ _ _ _ _ _ _ H). simpl. tauto.
Qed.

Definition flow_preserves (m : mode) (T : tables) : Prop :=
  forall ep req n pre fs rep e, flow m T ep req n pre = (fs, rep, e) ->
  forall f x, lookup f pre = Some x -> lookup f fs = Some x.

Definition flow_attributed (m : mode) (T : tables) (P : files -> Prop) : Prop :=
  forall ep req n pre fs rep e, P pre -> flow m T ep req n pre = (fs, rep, e) -> attributed ep rep fs.

(* lifting a property of the standalone flows to every simulation of a history *)
Theorem hist_lift : forall m T ts ops c w wf recs,
  t_dask_snapshot T = true \/ plain ops ->
  run_hist m T true ts ops (init_state c) w 0 = (wf, recs) ->
  forall r, In r recs ->
  exists s, In s (sims ts ops c 0) /\ sm_ep s = r_ep r /\ r_at r = r_dir r /\
    (exists k, r_dir r = cand (sm_base s) k) /\ ~ In (r_dir r) (wdirs w) /\
    wget (r_dir r) wf = Some (r_files r) /\
    flow (eff_mode m s) T (sm_ep s) (sm_req s) (sm_n s) (sm_pre s) = (r_files r, r_rep r, r_err r).
Proof.
  intros m T ts ops c w wf recs Hm H r Hr.
  destruct (hist_sound _ _ _ _ _ _ _ _ Hm H) as (M & _ & Dw & _ & Rr & _).
  destruct (M r Hr) as (s & Hs & E1 & E2 & E3 & E4).
  exists s. repeat split; auto.
  unfold sim_flow in E4. unfold eff_mode. destruct (sm_lazy s); exact E4.
Qed.

Lemma sims_run_in : forall ts ops c ep s,
  In s (sims ts ops c ep) -> sm_lazy s = false -> In (Run (sm_n s) (sm_pre s)) ops.
Proof.
  intros ts. induction ops as [|o rest IH]; intros c ep s H L; simpl in *; [contradiction|].
  destruct o; simpl in *.
  - right. eauto.
  - destruct H as [<-|H]; [left; reflexivity | right; eauto].
  - destruct H as [<-|H]; [discriminate L | right; eauto].
  - right. eauto.
Qed.

Lemma sims_start_in : forall ts ops c ep s,
  In s (sims ts ops c ep) -> In (if sm_lazy s then Start (sm_n s) (sm_pre s) else Run (sm_n s) (sm_pre s)) ops.
Proof.
  intros ts. induction ops as [|o rest IH]; intros c ep s H; simpl in *; [contradiction|].
  destruct o; simpl in *.
  - right. eauto.
  - destruct H as [<-|H]; [left; reflexivity | right; eauto].
  - destruct H as [<-|H]; [left; reflexivity | right; eauto].
  - right. eauto.
Qed.

(* ------------------------------------------------------------------ all three modes at once *)

Lemma flow_complete_seq : forall T,
  t_old_all_items T = true -> t_old_merge T = true -> old_ext_ok T = true -> flow_complete MSeq T.
Proof.
  intros T Al M Ok ep req n pre fs rep H x b f nm. simpl in H.
  rewrite (flow_seq_complete T Al M Ok _ _ _ _ _ _ H). simpl. tauto.
Qed.

(* conditions on the regenerated tables under which every flow is complete / never clobbers / attributes *)
Definition complete_ok (T : tables) : bool := t_old_all_items T && t_old_merge T && old_ext_ok T.
Definition clobber_ok (T : tables) : bool := safe_new T && safe_old T && stage_ok T.
Definition attr_ok (T : tables) : bool := raise_new T && raise_old T && stage_ok T.

Lemma flow_complete_all : forall T m, complete_ok T = true -> flow_complete m T.
Proof.
  intros T m H. unfold complete_ok in H. apply andb_true_iff in H. destruct H as [H Ok].
  apply andb_true_iff in H. destruct H as [Al M].
  destruct m; [apply flow_complete_exposure | now apply flow_complete_seq | apply flow_complete_dask].
Qed.

Lemma flow_preserves_all : forall T m, clobber_ok T = true -> flow_preserves m T.
Proof.
  intros T m H. unfold clobber_ok in H. apply andb_true_iff in H. destruct H as [H St].
  apply andb_true_iff in H. destruct H as [Sn So].
  intros ep req n pre fs rep e Fl. destruct m; simpl in Fl.
  - eapply flow_exposure_preserves; eauto.
  - eapply flow_seq_preserves; eauto.
  - eapply flow_dask_preserves; eauto.
Qed.

Lemma flow_attributed_all : forall T m, attr_ok T = true -> flow_attributed m T (fun _ => True).
Proof.
  intros T m H. unfold attr_ok in H. apply andb_true_iff in H. destruct H as [H St].
  apply andb_true_iff in H. destruct H as [Rn Ro].
  intros ep req n pre fs rep e _ Fl. destruct m; simpl in Fl.
  - eapply flow_exposure_attributed_raise; eauto.
  - eapply flow_seq_attributed; eauto.
  - eapply flow_dask_attributed_raise; eauto.
Qed.

(* every finished simulation of a history, judged against the request in force when it started *)
Theorem hist_complete : forall m T ts ops c w wf recs,
  complete_ok T = true -> t_dask_snapshot T = true \/ plain ops ->
  run_hist m T true ts ops (init_state c) w 0 = (wf, recs) ->
  forall r, In r recs -> r_err r = None ->
  exists s, In s (sims ts ops c 0) /\ sm_ep s = r_ep r /\
    forall x b f n, In (x, b, f, n) (r_rep r) <->
      x < nruns_of (eff_mode m s) (sm_n s) /\ In (b, f) (items (sm_req s)) /\
      n = spec_name (eff_mode m s) x b f.
Proof.
  intros m T ts ops c w wf recs Ok Hm H r Hr He.
  destruct (hist_lift m T ts ops c w wf recs Hm H r Hr) as (s & Hs & E & _ & _ & _ & _ & Fl).
  exists s. split; [exact Hs|]. split; [exact E|]. rewrite He in Fl.
  exact (flow_complete_all T (eff_mode m s) Ok _ _ _ _ _ _ Fl).
Qed.

Theorem hist_never_clobbers : forall m T ts ops c w wf recs,
  clobber_ok T = true -> t_dask_snapshot T = true \/ plain ops ->
  run_hist m T true ts ops (init_state c) w 0 = (wf, recs) ->
  (forall d fs, wget d w = Some fs -> wget d wf = Some fs) /\
  (forall r, In r recs -> exists s fs, In s (sims ts ops c 0) /\ sm_ep s = r_ep r /\
     wget (r_dir r) wf = Some fs /\ forall f x, lookup f (sm_pre s) = Some x -> lookup f fs = Some x).
Proof.
  intros m T ts ops c w wf recs Ok Hm H.
  split; [exact (proj1 (proj2 (proj2 (proj2 (hist_sound m T ts ops c w wf recs Hm H)))))|].
  intros r Hr.
  destruct (hist_lift m T ts ops c w wf recs Hm H r Hr) as (s & Hs & E & _ & _ & _ & W & Fl).
  exists s, (r_files r). split; [exact Hs|]. split; [exact E|]. split; [exact W|].
  exact (flow_preserves_all T (eff_mode m s) Ok _ _ _ _ _ _ _ Fl).
Qed.

Theorem hist_attributed : forall m T ts ops c w wf recs,
  attr_ok T = true -> t_dask_snapshot T = true \/ plain ops ->
  run_hist m T true ts ops (init_state c) w 0 = (wf, recs) ->
  forall r, In r recs -> exists fs, wget (r_dir r) wf = Some fs /\ attributed (r_ep r) (r_rep r) fs.
Proof.
  intros m T ts ops c w wf recs Ok Hm H r Hr.
  destruct (hist_lift m T ts ops c w wf recs Hm H r Hr) as (s & Hs & E & _ & _ & _ & W & Fl).
  exists (r_files r). split; [exact W|]. rewrite <- E.
  exact (flow_attributed_all T (eff_mode m s) Ok _ _ _ _ _ _ _ I Fl).
Qed.
