(* The heap machine of Model/ChargeHeap.v (arrays passed by reference, caller-side mutations) refines the
   by-value machine of Model/Charge.v: for a caller that only writes into what it owns, every observation equals
   that of the by-value history in which each addition contributes the value its argument held at the time of
   the call; the caller's own memory is never written by the container; an array handed out by to_xarray is a
   snapshot that only the caller changes. *)
From Coq Require Import ZArith QArith Qround List Bool Lia Arith.
From PyxelV Require Import Model.Charge Model.ChargeHeap Proofs.ChargeLemmas.
Import ListNotations.

(* ---------------------------------------------------------------- lists *)

Lemma nth_error_upd_same {A} (l : list A) k f : nth_error (upd l k f) k = option_map f (nth_error l k).
Proof. revert k; induction l; intros [|k]; simpl; auto. Qed.

Lemma nth_error_upd_other {A} (l : list A) k k' f : k <> k' -> nth_error (upd l k f) k' = nth_error l k'.
Proof. revert k k'; induction l; intros [|k] [|k'] Hne; simpl; auto; congruence. Qed.

Lemma upd_beyond {A} (l : list A) k f : (length l <= k)%nat -> upd l k f = l.
Proof. revert k; induction l; intros [|k] Hk; simpl in *; auto; try lia. f_equal. apply IHl. lia. Qed.

Lemma nth_error_map' {A B} (f : A -> B) l n : nth_error (map f l) n = option_map f (nth_error l n).
Proof. revert n; induction l; intros [|n]; simpl; auto. Qed.

Lemma nth_error_snoc_lt {A} (l : list A) x n : (n < length l)%nat -> nth_error (l ++ [x]) n = nth_error l n.
Proof. intros Hn. apply nth_error_app1; auto. Qed.

Lemma nth_error_snoc_eq {A} (l : list A) x : nth_error (l ++ [x]) (length l) = Some x.
Proof. rewrite nth_error_app2 by lia. rewrite Nat.sub_diag. reflexivity. Qed.

Lemma nth_error_app1_some {A} (l l' : list A) n x : nth_error l n = Some x -> nth_error (l ++ l') n = Some x.
Proof.
  intros E. rewrite nth_error_app1; auto. apply nth_error_Some. congruence.
Qed.

Lemma nth_error_snoc_inv {A} (l : list A) x n y :
  nth_error (l ++ [x]) n = Some y -> nth_error l n = Some y \/ (n = length l /\ y = x).
Proof.
  intros Hn. destruct (Nat.lt_ge_cases n (length l)) as [Hlt|Hge].
  - rewrite nth_error_app1 in Hn; auto.
  - rewrite nth_error_app2 in Hn by lia. destruct (n - length l)%nat eqn:E; simpl in Hn.
    + right. split; [lia|congruence].
    + destruct n0; discriminate.
Qed.

(* ---------------------------------------------------------------- the invariant *)

(* Charge._array is a cell the container allocated itself; the arrays to_xarray returned are other cells *)
Definition HInvc (hs : hstate) (kinds : list rkind) (c : nat) : Prop :=
  h_arr hs = RCell c /\ (c < length (h_cells hs))%nat /\ map fst (h_res hs) = kinds /\
  forall j r, nth_error (h_res hs) j = Some (RkXr, r) ->
    exists c', r = RCell c' /\ (c' < length (h_cells hs))%nat /\ c' <> c.
Definition HInv (hs : hstate) (kinds : list rkind) : Prop := exists c, HInvc hs kinds c.

Lemma HInv_init g : HInv (hinit g) [].
Proof.
  exists 0%nat. repeat split; simpl; auto. intros [|j] r Hj; discriminate.
Qed.

Lemma vstate_eq hs m f : deref hs (h_arr hs) = Some m -> h_frame hs = f -> vstate hs = {| st_arr := m; st_frame := f |}.
Proof. intros Hd Hf. unfold vstate, cur. rewrite Hd, Hf. reflexivity. Qed.

Lemma cur_cell hs kinds c : HInvc hs kinds c -> exists m, nth_error (h_cells hs) c = Some m /\ cur hs = m.
Proof.
  intros [Ha [Hc _]]. destruct (nth_error (h_cells hs) c) eqn:E.
  - exists m. split; auto. unfold cur. rewrite Ha. simpl. rewrite E. reflexivity.
  - apply nth_error_None in E. lia.
Qed.

(* writing into the stored cell *)
Lemma store_own hs kinds c m :
  HInvc hs kinds c ->
  HInvc (store hs (RCell c) m) kinds c /\ vstate (store hs (RCell c) m) = {| st_arr := m; st_frame := h_frame hs |} /\
  h_args (store hs (RCell c) m) = h_args hs /\ h_dfs (store hs (RCell c) m) = h_dfs hs.
Proof.
  intros HI. destruct (cur_cell _ _ _ HI) as [m0 [Hm0 _]]. destruct HI as [Ha [Hc [Hk Hx]]].
  repeat split; simpl; auto.
  - rewrite upd_length; auto.
  - intros j r Hj. destruct (Hx j r Hj) as [c' [? [? ?]]]. exists c'. rewrite upd_length. auto.
  - apply vstate_eq; auto. simpl. rewrite Ha. simpl. rewrite nth_error_upd_same, Hm0. reflexivity.
Qed.

(* rebinding to a new cell *)
Lemma set_arr_ok hs kinds c m :
  HInvc hs kinds c ->
  HInvc (set_arr hs m) kinds (length (h_cells hs)) /\
  vstate (set_arr hs m) = {| st_arr := m; st_frame := h_frame hs |} /\
  h_args (set_arr hs m) = h_args hs /\ h_dfs (set_arr hs m) = h_dfs hs /\ h_frame (set_arr hs m) = h_frame hs.
Proof.
  intros [Ha [Hc [Hk Hx]]]. repeat split; simpl; auto.
  - rewrite app_length; simpl; lia.
  - intros j r Hj. destruct (Hx j r Hj) as [c' [? [? ?]]]. exists c'. rewrite app_length; simpl.
    repeat split; auto; lia.
  - apply vstate_eq; auto. simpl. apply nth_error_snoc_eq.
Qed.

Lemma cur_set_arr hs m : cur (set_arr hs m) = m.
Proof. unfold cur, set_arr, deref; simpl. rewrite nth_error_snoc_eq. reflexivity. Qed.

(* replacing the content of the stored array, either way *)
Lemma renew_ok b hs kinds c m :
  HInvc hs kinds c ->
  exists c', HInvc (renew b hs m) kinds c' /\
  vstate (renew b hs m) = {| st_arr := m; st_frame := h_frame hs |} /\
  h_args (renew b hs m) = h_args hs /\ h_dfs (renew b hs m) = h_dfs hs /\ h_frame (renew b hs m) = h_frame hs /\
  cur (renew b hs m) = m.
Proof.
  intros HI. unfold renew. destruct b.
  - destruct (set_arr_ok hs kinds c m HI) as [A [B [C [D E]]]]. eexists.
    exact (conj A (conj B (conj C (conj D (conj E (cur_set_arr hs m)))))).
  - pose proof HI as [Ha _]. rewrite Ha. destruct (store_own hs kinds c m HI) as [A [B [C D]]].
    exists c. refine (conj A (conj B (conj C (conj D (conj eq_refl _))))).
    change (st_arr (vstate (store hs (RCell c) m)) = m). rewrite B. reflexivity.
Qed.

Lemma set_frame_ok hs kinds c f :
  HInvc hs kinds c ->
  HInvc (set_frame hs f) kinds c /\ vstate (set_frame hs f) = {| st_arr := cur hs; st_frame := f |} /\
  h_args (set_frame hs f) = h_args hs /\ h_dfs (set_frame hs f) = h_dfs hs.
Proof. intros [Ha [Hc [Hk Hx]]]. repeat split; simpl; auto. Qed.

(* the caller writes into one of its own arrays *)
Lemma store_arg hs kinds c k m :
  HInvc hs kinds c ->
  HInvc (store hs (RArg k) m) kinds c /\ vstate (store hs (RArg k) m) = vstate hs /\
  h_args (store hs (RArg k) m) = upd (h_args hs) k (fun _ => m) /\ h_dfs (store hs (RArg k) m) = h_dfs hs.
Proof.
  intros [Ha [Hc [Hk Hx]]]. repeat split; simpl; auto.
  unfold vstate, cur; simpl. rewrite Ha. reflexivity.
Qed.

(* the caller writes into another container cell (a copy it was given) *)
Lemma store_other hs kinds c c' m :
  HInvc hs kinds c -> c' <> c ->
  HInvc (store hs (RCell c') m) kinds c /\ vstate (store hs (RCell c') m) = vstate hs /\
  h_args (store hs (RCell c') m) = h_args hs /\ h_dfs (store hs (RCell c') m) = h_dfs hs.
Proof.
  intros [Ha [Hc [Hk Hx]]] Hne. repeat split; simpl; auto.
  - rewrite upd_length; auto.
  - intros j r Hj. destruct (Hx j r Hj) as [c'' [? [? ?]]]. exists c''. rewrite upd_length. auto.
  - unfold vstate, cur; simpl. rewrite Ha. simpl. rewrite nth_error_upd_other; auto.
Qed.

Lemma push_arg_ok hs kinds c a :
  HInvc hs kinds c -> HInvc (push_arg hs a) kinds c /\ vstate (push_arg hs a) = vstate hs.
Proof.
  intros [Ha [Hc [Hk Hx]]]. repeat split; simpl; auto. unfold vstate, cur; simpl. rewrite Ha. reflexivity.
Qed.

Lemma set_dfs_ok hs kinds c d :
  HInvc hs kinds c -> HInvc (set_dfs hs d) kinds c /\ vstate (set_dfs hs d) = vstate hs.
Proof.
  intros [Ha [Hc [Hk Hx]]]. repeat split; simpl; auto.
Qed.

Lemma ret_stored_ok hs kinds c k :
  HInvc hs kinds c -> k <> RkXr ->
  HInvc (ret_stored hs k) (kinds ++ [k]) c /\ vstate (ret_stored hs k) = vstate hs /\
  h_args (ret_stored hs k) = h_args hs /\ h_dfs (ret_stored hs k) = h_dfs hs.
Proof.
  intros [Ha [Hc [Hk Hx]]] Hne. repeat split; simpl; auto.
  - rewrite map_app, Hk. reflexivity.
  - intros j r Hj. apply nth_error_snoc_inv in Hj. destruct Hj as [Hj|[_ Hj]]; [eauto|]. congruence.
Qed.

Lemma ret_copy_ok hs kinds c k m :
  HInvc hs kinds c ->
  HInvc (ret_copy hs k m) (kinds ++ [k]) c /\ vstate (ret_copy hs k m) = vstate hs /\
  h_args (ret_copy hs k m) = h_args hs /\ h_dfs (ret_copy hs k m) = h_dfs hs.
Proof.
  intros [Ha [Hc [Hk Hx]]]. repeat split; simpl; auto.
  - rewrite app_length; simpl; lia.
  - rewrite map_app, Hk. reflexivity.
  - intros j r Hj. apply nth_error_snoc_inv in Hj. destruct Hj as [Hj|[_ Hj]].
    + destruct (Hx j r Hj) as [c' [? [? ?]]]. exists c'. rewrite app_length; simpl. repeat split; auto; lia.
    + inversion Hj; subst. exists (length (h_cells hs)). rewrite app_length; simpl. repeat split; auto; lia.
  - unfold vstate, cur; simpl. rewrite Ha. simpl. rewrite nth_error_snoc_lt; auto.
Qed.

(* ---------------------------------------------------------------- one step *)

Arguments store : simpl never.
Arguments set_arr : simpl never.
Arguments renew : simpl never.
Arguments bind_arr : simpl never.
Arguments set_frame : simpl never.
Arguments push_arg : simpl never.
Arguments set_dfs : simpl never.
Arguments ret_stored : simpl never.
Arguments ret_copy : simpl never.
Arguments vstate : simpl never.
Arguments hremoved : simpl never.
Arguments add_array_mode : simpl never.
Arguments ret : simpl never.

Ltac fin c := repeat split; simpl; try first [ solve [exists c; auto] | solve [eexists; eauto] | congruence | solve [auto] ].

Section Sim.
Variable H : heapparams.
Variable P : srcparams.
Hypothesis Hok : hparams_ok H.

Lemma exposes_xr : exposes H RkXr = false.
Proof. destruct Hok as [_ [_ [Hx _]]]. unfold exposes. rewrite Hx. apply andb_false_r. Qed.

Lemma add_frameP_arr g s cs :
  add_frameP P g s cs = {| st_arr := st_arr s; st_frame := st_frame (add_frameP P g s cs) |}.
Proof. unfold add_frameP. destruct (st_frame s); [destruct (all_zero (st_arr s))|]; reflexivity. Qed.

Lemma vstate_arr hs : st_arr (vstate hs) = cur hs. Proof. reflexivity. Qed.
Lemma vstate_frame hs : st_frame (vstate hs) = h_frame hs. Proof. reflexivity. Qed.

Definition Good (cm : list matrix * list (list cluster)) (kinds : list rkind) (hs : hstate) : Prop :=
  HInv hs kinds /\ h_args hs = fst cm /\ h_dfs hs = snd cm.

Lemma hremoved_ok g hs kinds c f' :
  HInvc hs kinds c ->
  HInv (hremoved H g hs f') kinds /\ vstate (hremoved H g hs f') = removed g (vstate hs) f' /\
  h_args (hremoved H g hs f') = h_args hs /\ h_dfs (hremoved H g hs f') = h_dfs hs.
Proof.
  intros HI. unfold hremoved, removed. rewrite vstate_frame.
  destruct (h_frame hs) eqn:Ef; [|destruct f'].
  - destruct (set_frame_ok hs kinds c f' HI) as [A [B [C D]]]. split; [exists c; auto|]. repeat split; auto.
  - destruct (renew_ok (hp_remove_fresh H) hs kinds c (zeros (g_rows g) (g_cols g)) HI) as [c' [A [B [C [D [E F]]]]]].
    destruct (set_frame_ok _ _ _ [] A) as [A' [B' [C' D']]].
    split; [eexists; eauto|]. repeat split; try congruence; try (rewrite B', F; reflexivity).
  - destruct (set_frame_ok hs kinds c (p0 :: f') HI) as [A [B [C D]]]. split; [exists c; auto|]. repeat split; auto.
Qed.

Lemma hstep_sim g hs kinds cm o :
  Good cm kinds hs -> disc1 kinds o = true ->
  stepP P g (vstate hs) (erase1 cm o) = (option_map vstate (fst (hstep H P g hs o)), snd (hstep H P g hs o)) /\
  match fst (hstep H P g hs o) with
  | Some hs' => Good (cm_step cm o) (kinds_step kinds o) hs'
  | None => True
  end.
Proof.
  intros [[c HI] [Hargs Hdfs]] Hd. unfold Good.
  destruct o as [a|h a|h|cs|k cs|k|cs|k| | |ids| ]; simpl hstep; simpl erase1; simpl cm_step; simpl kinds_step.
  - (* HNew *)
    destruct (push_arg_ok hs kinds c a HI) as [A B]. simpl. rewrite B. split; auto.
    fin c.
  - (* HWrite *)
    destruct h as [k|j]; simpl.
    + destruct (Nat.ltb_spec k (length (h_args hs))) as [Hlt|Hge]; simpl.
      * destruct (store_arg hs kinds c k a HI) as [A [B [C D]]]. rewrite B. split; auto.
        fin c.
      * split; auto. fin c.
        rewrite <- Hargs. rewrite upd_beyond; auto.
    + simpl in Hd. destruct HI as [Ha [Hc [Hk Hx]]]. subst kinds.
      destruct (nth_error (map fst (h_res hs)) j) as [[| |]|] eqn:Ej; try discriminate.
      rewrite nth_error_map' in Ej. destruct (nth_error (h_res hs) j) as [[k0 r]|] eqn:Er; try discriminate.
      simpl in Ej. inversion Ej; subst k0. simpl.
      destruct (Hx j r Er) as [c' [-> [Hc' Hne]]].
      destruct (store_other hs (map fst (h_res hs)) c c' a (conj Ha (conj Hc (conj eq_refl Hx))) Hne) as [A [B [C D]]].
      rewrite B. split; auto. fin c.
  - (* HAdd *)
    destruct h as [k|j]; [|discriminate]. simpl.
    destruct (Nat.ltb_spec k (length (h_args hs))) as [Hlt|Hge]; simpl.
    + rewrite <- Hargs. destruct (nth_error (h_args hs) k) as [a|] eqn:Ea; [|apply nth_error_None in Ea; lia].
      unfold stepP. rewrite vstate_frame.
      destruct (shape_ok (g_rows g) (g_cols g) a); [|split; [reflexivity|]; fin c].
      destruct (h_frame hs) eqn:Ef.
      * unfold add_array_mode. destruct Hok as [Hna _].
        destruct (hp_add H); [| |congruence].
        -- destruct HI as [Ha HI']. rewrite Ha.
           destruct (store_own hs kinds c (madd (cur hs) a) (conj Ha HI')) as [A [B [C D]]].
           simpl fst; simpl snd; simpl option_map. rewrite B, Ef. split; [reflexivity|].
           fin c.
        -- destruct (set_arr_ok hs kinds c (madd (cur hs) a) HI) as [A [B [C [D E]]]].
           simpl fst; simpl snd; simpl option_map. rewrite B, Ef. split; [reflexivity|].
           fin c.
      * destruct (set_frame_ok hs kinds c (st_frame (add_frameP P g (vstate hs) (centresP P g a))) HI) as [A [B [C D]]].
        simpl fst; simpl snd; simpl option_map. rewrite B. split.
        -- rewrite (add_frameP_arr g (vstate hs)) at 1. reflexivity.
        -- fin c.
    + rewrite <- Hargs. destruct (nth_error (h_args hs) k) eqn:Ea.
      * assert (nth_error (h_args hs) k <> None) by congruence. apply nth_error_Some in H0. lia.
      * split; [reflexivity|]. fin c.
  - (* HNewDf *)
    destruct (set_dfs_ok hs kinds c (h_dfs hs ++ [cs]) HI) as [A B]. simpl. rewrite B. split; auto.
    fin c.
  - (* HWriteDf *)
    destruct (set_dfs_ok hs kinds c (upd (h_dfs hs) k (fun _ => cs)) HI) as [A B]. simpl. rewrite B. split; auto.
    fin c.
  - (* HAddDf *)
    rewrite <- Hdfs. destruct (nth_error (h_dfs hs) k) as [cs|] eqn:Ed.
    + destruct (set_frame_ok hs kinds c (st_frame (add_frameP P g (vstate hs) cs)) HI) as [A [B [C D]]].
      simpl. rewrite B. split.
      * rewrite (add_frameP_arr g (vstate hs)) at 1. reflexivity.
      * fin c.
    + split; [reflexivity|]. fin c.
  - (* HCl *)
    destruct (set_frame_ok hs kinds c (st_frame (add_frameP P g (vstate hs) cs)) HI) as [A [B [C D]]].
    simpl. rewrite B. split.
    + rewrite (add_frameP_arr g (vstate hs)) at 1. reflexivity.
    + fin c.
  - (* HRead *)
    unfold stepP. rewrite vstate_frame. unfold ret.
    assert (Hexp : exposes H k = true -> k <> RkXr) by (intros E ->; rewrite exposes_xr in E; discriminate).
    destruct (h_frame hs) eqn:Ef.
    + destruct (exposes H k) eqn:Ex; simpl.
      * destruct (ret_stored_ok hs kinds c k HI (Hexp eq_refl)) as [A [B [C D]]]. rewrite B. split.
        -- unfold vstate at 1. rewrite Ef. unfold vstate. rewrite Ef. reflexivity.
        -- fin c.
      * destruct (ret_copy_ok hs kinds c k (cur hs) HI) as [A [B [C D]]]. rewrite B. split.
        -- unfold vstate. rewrite Ef. reflexivity.
        -- fin c.
    + simpl fcl. destruct (to_arrayP P g (snd p :: fcl f)) as [m|] eqn:Et; [|simpl; auto].
      destruct (renew_ok (hp_rebuild_fresh H) hs kinds c m HI) as [c1 [A [B [C [D [E F]]]]]]. rewrite Ef in B.
      destruct (exposes H k) eqn:Ex; simpl.
      * destruct (ret_stored_ok _ _ _ k A (Hexp eq_refl)) as [A' [B' [C' D']]]. rewrite B', B. split.
        -- reflexivity.
        -- fin c1.
      * destruct (ret_copy_ok _ _ _ k m A) as [A' [B' [C' D']]]. rewrite B', B. split.
        -- reflexivity.
        -- fin c1.
  - (* HFrame *)
    simpl. split; auto. fin c.
  - (* HRemoveAll *)
    destruct (hremoved_ok g hs kinds c [] HI) as [A [B [C D]]]. simpl. rewrite B. split; auto.
    fin c.
  - (* HRemove *)
    destruct ids as [|i ids].
    + destruct (hremoved_ok g hs kinds c [] HI) as [A [B [C D]]]. simpl. rewrite B. split; auto.
      fin c.
    + destruct (hremoved_ok g hs kinds c
                  (filter (fun p => negb (id_in (i :: ids) (fst p))) (h_frame hs)) HI) as [A [B [C D]]].
      split.
      * exact (f_equal (fun x => (Some x, OUnit)) (eq_sym B)).
      * exact (conj A (conj (eq_trans C Hargs) (eq_trans D Hdfs))).
  - (* HReset *)
    destruct (renew_ok (hp_reset_fresh H) hs kinds c (zeros (g_rows g) (g_cols g)) HI) as [c1 [A [B [C [D [E F]]]]]].
    destruct (set_frame_ok _ _ _ [] A) as [A' [B' [C' D']]].
    simpl. rewrite B'. split.
    + rewrite F. reflexivity.
    + fin c1.
Qed.

(* ---------------------------------------------------------------- sequences *)

Lemma hexec_none g ops : hexec H P g None ops = None.
Proof. induction ops; simpl; auto. Qed.
Lemma execP_none g ops : execP P g None ops = None.
Proof. unfold execP. induction ops; simpl; auto. Qed.

Lemma hexec_sim g : forall ops hs kinds cm,
  Good cm kinds hs -> disc kinds ops = true ->
  option_map vstate (hexec H P g (Some hs) ops) = execP P g (Some (vstate hs)) (erase cm ops) /\
  forall hs', hexec H P g (Some hs) ops = Some hs' ->
    Good (fold_left cm_step ops cm) (fold_left kinds_step ops kinds) hs'.
Proof.
  induction ops as [|o t IH]; intros hs kinds cm HG Hd.
  - simpl. split; auto. intros hs' E. inversion E; subst. auto.
  - simpl in Hd. apply andb_true_iff in Hd. destruct Hd as [Hd1 Hd2].
    destruct (hstep_sim g hs kinds cm o HG Hd1) as [Hs Hn].
    simpl erase. unfold hexec, execP in *. simpl fold_left.
    change (exec1P P g (Some (vstate hs)) (erase1 cm o)) with (fst (stepP P g (vstate hs) (erase1 cm o))).
    rewrite Hs. simpl fst.
    destruct (fst (hstep H P g hs o)) as [hs1|] eqn:E1; simpl.
    + apply (IH hs1 _ _ Hn Hd2).
    + fold (hexec H P g None t). fold (execP P g None (erase (cm_step cm o) t)).
      rewrite hexec_none, execP_none. split; auto. discriminate.
Qed.

Lemma hrun_none g ops : forall cm,
  map (fun v : hview => (fst (fst v), snd (fst v))) (hrun H P g None ops) = runP P g None (erase cm ops).
Proof. induction ops; intros cm; simpl; auto. f_equal. apply IHops. Qed.

Lemma hrun_sim g : forall ops hs kinds cm,
  Good cm kinds hs -> disc kinds ops = true ->
  map (fun v : hview => (fst (fst v), snd (fst v))) (hrun H P g (Some hs) ops) =
  runP P g (Some (vstate hs)) (erase cm ops).
Proof.
  induction ops as [|o t IH]; intros hs kinds cm HG Hd; simpl; auto.
  simpl in Hd. apply andb_true_iff in Hd. destruct Hd as [Hd1 Hd2].
  destruct (hstep_sim g hs kinds cm o HG Hd1) as [Hs Hn]. rewrite Hs. simpl fst; simpl snd.
  destruct (fst (hstep H P g hs o)) as [hs1|] eqn:E1; simpl.
  - f_equal. apply (IH hs1 _ _ Hn Hd2).
  - f_equal. apply hrun_none.
Qed.

Lemma Good_init g : Good ([], []) [] (hinit g).
Proof. split; [apply HInv_init|split; reflexivity]. Qed.

Lemma vstate_init g : vstate (hinit g) = init g.
Proof. reflexivity. Qed.

(* every observation of the heap machine is the observation of the by-value history *)
Theorem heap_trace_by_value g ops :
  disciplined ops = true ->
  map (fun v : hview => (fst (fst v), snd (fst v))) (hrun H P g (Some (hinit g)) ops) =
  runP P g (Some (init g)) (by_value ops).
Proof. intros Hd. rewrite <- vstate_init. apply (hrun_sim g ops (hinit g) [] ([], []) (Good_init g) Hd). Qed.

Theorem heap_read_by_value g ops :
  disciplined ops = true -> hread_after H P g ops = read_afterP P g (by_value ops).
Proof.
  intros Hd. unfold hread_after, read_afterP, by_value.
  destruct (hexec_sim g ops (hinit g) [] ([], []) (Good_init g) Hd) as [He Hg].
  rewrite vstate_init in He. rewrite <- He.
  destruct (hexec H P g (Some (hinit g)) ops) as [hs'|] eqn:E; [|reflexivity].
  pose proof (Hg hs' eq_refl) as HG.
  destruct (hstep_sim g hs' _ (fold_left cm_step ops ([], [])) (HRead RkArray) HG eq_refl) as [Hs _].
  change (snd (hstep H P g hs' (HRead RkArray)) = snd (stepP P g (vstate hs') Read)).
  simpl erase1 in Hs. rewrite Hs. reflexivity.
Qed.

Theorem heap_frame_by_value g ops :
  disciplined ops = true ->
  match hexec H P g (Some (hinit g)) ops with Some hs => h_frame hs | None => [] end = frame_afterP P g (by_value ops).
Proof.
  intros Hd. unfold frame_afterP, by_value.
  destruct (hexec_sim g ops (hinit g) [] ([], []) (Good_init g) Hd) as [He _].
  rewrite vstate_init in He. rewrite <- He.
  destruct (hexec H P g (Some (hinit g)) ops); reflexivity.
Qed.

(* the container never writes into the caller's arrays and DataFrames *)
Theorem caller_memory_untouched g ops hs :
  disciplined ops = true -> hexec H P g (Some (hinit g)) ops = Some hs ->
  (h_args hs, h_dfs hs) = caller_mem ops.
Proof.
  intros Hd E. destruct (hexec_sim g ops (hinit g) [] ([], []) (Good_init g) Hd) as [_ Hg].
  destruct (Hg hs E) as [_ [Ha Hb]]. unfold caller_mem. rewrite Ha, Hb.
  destruct (fold_left cm_step ops ([], [])); reflexivity.
Qed.

(* ---------------------------------------------------------------- arrays handed out by to_xarray are snapshots *)

(* hs' keeps every container cell of hs other than the stored one, and the stored reference stays off them *)
Definition Keeps (hs hs' : hstate) : Prop :=
  (length (h_cells hs) <= length (h_cells hs'))%nat /\
  forall c', (c' < length (h_cells hs))%nat -> RCell c' <> h_arr hs ->
    nth_error (h_cells hs') c' = nth_error (h_cells hs) c' /\ RCell c' <> h_arr hs'.

Lemma Keeps_refl hs : Keeps hs hs.
Proof. split; auto. Qed.

Lemma Keeps_trans a b c : Keeps a b -> Keeps b c -> Keeps a c.
Proof.
  intros [L1 K1] [L2 K2]. split; [lia|]. intros c' Hc Hn. destruct (K1 c' Hc Hn) as [E1 N1].
  destruct (K2 c' (Nat.lt_le_trans _ _ _ Hc L1) N1) as [E2 N2]. split; congruence.
Qed.

Lemma Keeps_same_cells hs hs' :
  h_cells hs' = h_cells hs -> h_arr hs' = h_arr hs -> Keeps hs hs'.
Proof. intros E A. split; [rewrite E; auto|]. intros c' _ Hn. rewrite E, A. auto. Qed.

Lemma Keeps_store_own hs c m : h_arr hs = RCell c -> Keeps hs (store hs (RCell c) m).
Proof.
  intros Ha. split; unfold store; simpl; [rewrite upd_length; auto|]. intros c' Hc Hn. split; auto.
  apply nth_error_upd_other. intros ->. apply Hn. auto.
Qed.

Lemma Keeps_set_arr hs m : Keeps hs (set_arr hs m).
Proof.
  split; unfold set_arr; simpl; [rewrite app_length; lia|]. intros c' Hc Hn. split.
  - apply nth_error_snoc_lt; auto.
  - intros E. inversion E. lia.
Qed.

Lemma Keeps_renew hs c b m : h_arr hs = RCell c -> Keeps hs (renew b hs m).
Proof.
  intros Ha. unfold renew. destruct b; [apply Keeps_set_arr|]. rewrite Ha. apply Keeps_store_own; auto.
Qed.

Lemma Keeps_ret_copy hs k m : Keeps hs (ret_copy hs k m).
Proof.
  split; unfold ret_copy; simpl; [rewrite app_length; lia|]. intros c' Hc Hn. split; auto.
  apply nth_error_snoc_lt; auto.
Qed.

Lemma Keeps_hremoved g hs c f' : h_arr hs = RCell c -> Keeps hs (hremoved H g hs f').
Proof.
  intros Ha. unfold hremoved. destruct (h_frame hs); [|destruct f'].
  - apply Keeps_same_cells; reflexivity.
  - eapply Keeps_trans; [apply (Keeps_renew _ c); auto|apply Keeps_same_cells; reflexivity].
  - apply Keeps_same_cells; reflexivity.
Qed.

Lemma hstep_keeps g hs kinds cm o hs' :
  Good cm kinds hs -> disc1 kinds o = true -> writes_result o = false ->
  fst (hstep H P g hs o) = Some hs' -> Keeps hs hs'.
Proof.
  intros [[c HI] _] Hd Hw E. pose proof HI as [Ha _].
  destruct o as [a|h a|h|cs|k cs|k|cs|k| | |ids| ]; simpl in E.
  - inversion E; subst. apply Keeps_same_cells; reflexivity.
  - destruct h as [k|j]; [|discriminate]. simpl in E.
    destruct (k <? length (h_args hs))%nat; inversion E; subst; [apply Keeps_same_cells; reflexivity|apply Keeps_refl].
  - destruct h as [k|j]; [|discriminate]. simpl in E.
    destruct (k <? length (h_args hs))%nat; simpl in E; [|inversion E; subst; apply Keeps_refl].
    destruct (nth_error (h_args hs) k) as [a|]; [|inversion E; subst; apply Keeps_refl].
    destruct (shape_ok (g_rows g) (g_cols g) a); [|inversion E; subst; apply Keeps_refl].
    destruct (h_frame hs); inversion E; subst; [|apply Keeps_same_cells; reflexivity].
    unfold add_array_mode. destruct Hok as [Hna _]. destruct (hp_add H); [| |congruence].
    + rewrite Ha. apply Keeps_store_own; auto.
    + apply Keeps_set_arr.
  - inversion E; subst. apply Keeps_same_cells; reflexivity.
  - inversion E; subst. apply Keeps_same_cells; reflexivity.
  - destruct (nth_error (h_dfs hs) k); inversion E; subst; [apply Keeps_same_cells; reflexivity|apply Keeps_refl].
  - inversion E; subst. apply Keeps_same_cells; reflexivity.
  - unfold ret in E. destruct (h_frame hs).
    + simpl in E. inversion E; subst. destruct (exposes H k); [apply Keeps_same_cells; reflexivity|apply Keeps_ret_copy].
    + destruct (to_arrayP P g _) as [m|]; simpl in E; [|discriminate]. inversion E; subst.
      eapply Keeps_trans; [apply (Keeps_renew _ c); auto|].
      destruct (exposes H k); [apply Keeps_same_cells; reflexivity|apply Keeps_ret_copy].
  - inversion E; subst. apply Keeps_refl.
  - inversion E; subst. apply (Keeps_hremoved _ _ c); auto.
  - destruct ids; inversion E; subst; apply (Keeps_hremoved _ _ c); auto.
  - inversion E; subst. eapply Keeps_trans; [apply (Keeps_renew _ c); auto|apply Keeps_same_cells; reflexivity].
Qed.

Lemma disc_app : forall a b kinds,
  disc kinds (a ++ b) = disc kinds a && disc (fold_left kinds_step a kinds) b.
Proof.
  induction a as [|o a IH]; intros b kinds; simpl; auto. rewrite IH. apply andb_assoc.
Qed.

(* An array handed out by to_xarray holds the value it was given (or what the CALLER wrote into it since) across
   every further operation of the container and every caller write to another object. *)
Theorem xarray_result_is_a_snapshot g ops o hs hs' j r :
  disciplined (ops ++ [o]) = true -> writes_result o = false ->
  hexec H P g (Some (hinit g)) ops = Some hs -> fst (hstep H P g hs o) = Some hs' ->
  nth_error (h_res hs) j = Some (RkXr, r) ->
  nth_error (h_res hs') j = Some (RkXr, r) /\ deref hs' r = deref hs r /\ deref hs r <> None.
Proof.
  intros Hd Hw E Es Hj. unfold disciplined in Hd. rewrite disc_app in Hd. apply andb_true_iff in Hd.
  destruct Hd as [Hd1 Hd2]. simpl in Hd2. rewrite andb_true_r in Hd2.
  destruct (hexec_sim g ops (hinit g) [] ([], []) (Good_init g) Hd1) as [_ Hg]. pose proof (Hg hs E) as HG.
  pose proof (hstep_keeps g hs _ _ o hs' HG Hd2 Hw Es) as [_ K].
  destruct HG as [[c [Ha [Hc [Hk Hx]]]] _]. destruct (Hx j r Hj) as [c' [-> [Hc' Hne]]].
  assert (Hn : RCell c' <> h_arr hs) by (rewrite Ha; congruence).
  destruct (K c' Hc' Hn) as [E1 _]. repeat split.
  - (* reads only append to h_res *)
    clear - Es Hj. destruct o; simpl in Es;
      repeat match type of Es with
             | context [match ?x with _ => _ end] => destruct x; simpl in Es
             end; try discriminate; inversion Es; subst; simpl; auto;
      unfold hremoved, add_array_mode, ret_stored, ret_copy, renew, store, set_arr, set_frame; simpl;
      repeat match goal with
             | |- context [match ?x with _ => _ end] => destruct x; simpl
             end; auto; try (apply nth_error_app1_some; auto).
  - simpl. exact E1.
  - simpl. intros E0. apply nth_error_None in E0. lia.
Qed.

(* distinct to_xarray results are distinct objects *)
Definition XrInj (hs : hstate) : Prop :=
  forall j j' r, nth_error (h_res hs) j = Some (RkXr, r) -> nth_error (h_res hs) j' = Some (RkXr, r) -> j = j'.

Lemma h_res_renew b hs m : h_res (renew b hs m) = h_res hs.
Proof. unfold renew, set_arr, store. destruct b; [|destruct (h_arr hs)]; reflexivity. Qed.

Lemma hstep_res g hs kinds cm o hs' :
  Good cm kinds hs -> fst (hstep H P g hs o) = Some hs' ->
  h_res hs' = h_res hs \/
  exists k r', h_res hs' = h_res hs ++ [(k, r')] /\
               (k = RkXr -> exists c', r' = RCell c' /\ (length (h_cells hs) <= c')%nat).
Proof.
  intros [[c HI] _] E.
  destruct o as [a|h a|h|cs|k cs|k|cs|k| | |ids| ]; simpl in E;
    try (left; repeat match type of E with
                      | context [match ?x with _ => _ end] => destruct x; simpl in E
                      end; try discriminate; inversion E; subst;
         unfold hremoved, add_array_mode, renew, store, set_arr, set_frame; simpl;
         repeat match goal with |- context [match ?x with _ => _ end] => destruct x; simpl end; reflexivity).
  right. unfold ret in E. destruct (h_frame hs).
  - simpl in E. inversion E; subst. destruct (exposes H k) eqn:Ex.
    + exists k, (h_arr hs). split; [reflexivity|]. intros ->. rewrite exposes_xr in Ex. discriminate.
    + exists k, (RCell (length (h_cells hs))). split; [reflexivity|]. intros _. eexists; split; [reflexivity|lia].
  - destruct (to_arrayP P g _) as [m|]; simpl in E; [|discriminate]. inversion E; subst.
    destruct (exposes H k) eqn:Ex.
    + exists k, (h_arr (renew (hp_rebuild_fresh H) hs m)).
      split; [unfold ret_stored; simpl; rewrite h_res_renew; reflexivity|].
      intros ->. rewrite exposes_xr in Ex. discriminate.
    + exists k, (RCell (length (h_cells (renew (hp_rebuild_fresh H) hs m)))).
      split; [unfold ret_copy; simpl; rewrite h_res_renew; reflexivity|]. intros _.
      eexists; split; [reflexivity|]. unfold renew, set_arr, store. destruct (hp_rebuild_fresh H); simpl.
      * rewrite app_length. lia.
      * destruct (h_arr hs); simpl; [lia|rewrite upd_length; lia].
Qed.

Lemma hstep_xrinj g hs kinds cm o hs' :
  Good cm kinds hs -> XrInj hs -> fst (hstep H P g hs o) = Some hs' -> XrInj hs'.
Proof.
  intros HG HI E. destruct (hstep_res g hs kinds cm o hs' HG E) as [R|[k [r' [R Hr]]]]; unfold XrInj; rewrite R; auto.
  destruct HG as [[c [_ [_ [_ Hx]]]] _].
  intros j j' r Hj Hj'. apply nth_error_snoc_inv in Hj. apply nth_error_snoc_inv in Hj'.
  destruct Hj as [Hj|[Hj1 Hj2]]; destruct Hj' as [Hj'|[Hj'1 Hj'2]]; try lia; eauto.
  - inversion Hj'2; subst k r'. destruct (Hr eq_refl) as [c' [-> Hc']].
    destruct (Hx j _ Hj) as [c'' [Ec [Hlt _]]]. inversion Ec. lia.
  - inversion Hj2; subst k r'. destruct (Hr eq_refl) as [c' [-> Hc']].
    destruct (Hx j' _ Hj') as [c'' [Ec [Hlt _]]]. inversion Ec. lia.
Qed.

Lemma hexec_xrinj g : forall ops hs kinds cm hs',
  Good cm kinds hs -> XrInj hs -> disc kinds ops = true -> hexec H P g (Some hs) ops = Some hs' -> XrInj hs'.
Proof.
  induction ops as [|o t IH]; intros hs kinds cm hs' HG HI Hd E.
  - inversion E; subst; auto.
  - simpl in Hd. apply andb_true_iff in Hd. destruct Hd as [Hd1 Hd2].
    destruct (hstep_sim g hs kinds cm o HG Hd1) as [_ Hn].
    unfold hexec in E. simpl in E. destruct (fst (hstep H P g hs o)) as [hs1|] eqn:E1.
    + apply (IH hs1 _ _ hs' Hn (hstep_xrinj g hs kinds cm o hs1 HG HI E1) Hd2 E).
    + fold (hexec H P g None t) in E. rewrite hexec_none in E. discriminate.
Qed.

(* ... and when the caller overwrites one of them, that one holds what the caller wrote and every other one is
   untouched *)
Theorem xarray_result_written_by_caller g ops j' a hs j r :
  disciplined (ops ++ [HWrite (HRes j') a]) = true ->
  hexec H P g (Some (hinit g)) ops = Some hs ->
  nth_error (h_res hs) j = Some (RkXr, r) ->
  exists hs', fst (hstep H P g hs (HWrite (HRes j') a)) = Some hs' /\ h_res hs' = h_res hs /\
    deref hs' r = if (j =? j')%nat then Some a else deref hs r.
Proof.
  intros Hd E Hj. unfold disciplined in Hd. rewrite disc_app in Hd. apply andb_true_iff in Hd.
  destruct Hd as [Hd1 Hd2]. simpl in Hd2. rewrite andb_true_r in Hd2.
  destruct (hexec_sim g ops (hinit g) [] ([], []) (Good_init g) Hd1) as [_ Hg]. pose proof (Hg hs E) as HG.
  assert (HI : XrInj hs).
  { apply (hexec_xrinj g ops (hinit g) [] ([], []) hs (Good_init g)); auto. intros [|?] [|?] ? Hn; discriminate. }
  destruct HG as [[c [Ha [Hc [Hk Hx]]]] _].
  destruct (nth_error (fold_left kinds_step ops []) j') as [[| |]|] eqn:Ej; try discriminate.
  rewrite <- Hk, nth_error_map' in Ej. destruct (nth_error (h_res hs) j') as [[k0 r0]|] eqn:Er; try discriminate.
  simpl in Ej. inversion Ej; subst k0.
  destruct (Hx j' r0 Er) as [c0 [-> [Hc0 Hne0]]]. destruct (Hx j r Hj) as [c1 [-> [Hc1 Hne1]]].
  simpl. unfold resolve. rewrite Er. simpl. eexists. split; [reflexivity|]. split; [reflexivity|].
  unfold store, deref; simpl. destruct (Nat.eqb_spec j j') as [->|Hjj].
  - rewrite Er in Hj. inversion Hj; subst c1. rewrite nth_error_upd_same.
    destruct (nth_error (h_cells hs) c0) eqn:En; [reflexivity|]. apply nth_error_None in En. lia.
  - apply nth_error_upd_other. intros ->. apply Hjj. symmetry. apply (HI j' j (RCell c1)); auto.
Qed.
End Sim.

Lemma std_hparams_ok : hparams_ok std_hparams.
Proof. repeat split; discriminate. Qed.
