(* C06 — proofs over Model/HeapRng.v: with the random generator as an explicit input of every run,
   "each run is bracketed with the pipeline seed" makes every run's outcome the outcome of the
   standalone exposure under that seed - whatever the other runs of the call, the earlier calls,
   their failures and the state of the ambient generator; "one bracket around the loop" does not. *)
From Coq Require Import String ZArith List Arith Bool Lia.
From PyxelV Require Import Model.Heap Model.HeapExc Model.HeapRng Proofs.HeapFrame Proofs.HeapExcFrame.
Import ListNotations.

Section Rng.
  Variables (params res gen seed : Type).
  Variable seed_gen : seed -> gen.
  Variable setp : params -> heap -> loc -> heap * bool.
  Variable run : params -> gen -> heap -> loc -> heap * gen * option res.

  Notation run_at := (run_at params res gen run).
  Notation step_rng := (step_rng params res gen setp run).
  Notation loop_rng := (loop_rng params res gen seed seed_gen setp run).
  Notation observe_rng := (observe_rng params res gen seed seed_gen setp run).
  Notation calls_rng := (calls_rng params res gen seed seed_gen setp run).
  Notation standalone := (standalone params res gen seed seed_gen setp run).
  Notation seeded := (seeded gen seed seed_gen).

  (* a step of the generator model is a step of the generator-free model whose pipeline is the
     pipeline started from that generator state *)
  Lemma step_rng_heap : forall pol ps g s p,
    fst (fst (step_rng pol ps g s p)) = fst (step_exc params res setp (run_at g) pol KCopy ps s p).
  Proof.
    intros. unfold HeapRng.step_rng, step_exc, exec, HeapRng.run_at.
    destruct (deepcopy pol s p) as [[s1 c]|]; [|reflexivity].
    destruct (snd (setp ps s1 c)); reflexivity.
  Qed.

  Lemma step_rng_outcome : forall pol ps g s p,
    snd (step_rng pol ps g s p) = snd (step_exc params res setp (run_at g) pol KCopy ps s p).
  Proof.
    intros. unfold HeapRng.step_rng, step_exc, exec, HeapRng.run_at.
    destruct (deepcopy pol s p) as [[s1 c]|]; [|reflexivity].
    destruct (snd (setp ps s1 c)); reflexivity.
  Qed.

  (* EXTERNAL: whatever is done on the copy - Processor.set, then the pipeline started from ANY
     generator state - changes only objects it reaches from the processor it was given *)
  Hypothesis exec_frame : forall g ps s l, frame_ok s l (fst (exec params res setp (run_at g) ps s l)).

  Lemma step_rng_prefix : forall pol, policy_ok pol = true -> forall ps g s p,
    exists ext, fst (fst (step_rng pol ps g s p)) = s ++ ext.
  Proof.
    intros pol Hpol ps g s p. rewrite step_rng_heap.
    apply (step_exc_prefix params res setp (run_at g) (exec_frame g) pol Hpol).
  Qed.

  Lemma seeded_step_prefix : forall pol, policy_ok pol = true -> forall each ps g s p,
    exists ext, fst (fst (seeded (option res) each g (fun g' => step_rng pol ps g' s p))) = s ++ ext.
  Proof.
    intros pol Hpol each ps g s p. destruct each as [x|]; simpl; apply step_rng_prefix; assumption.
  Qed.

  (* the frame does not depend on the seeding discipline *)
  Lemma loop_rng_prefix : forall pol, policy_ok pol = true -> forall each stop rs g s p,
    exists ext, fst (fst (loop_rng each stop pol rs g s p)) = s ++ ext.
  Proof.
    intros pol Hpol each stop. induction rs as [|ps rest IH]; intros g s p.
    - exists []. simpl. rewrite app_nil_r. reflexivity.
    - cbn [HeapRng.loop_rng].
      destruct (seeded_step_prefix pol Hpol each ps g s p) as [e1 He1].
      remember (seeded (option res) each g (fun g' => step_rng pol ps g' s p)) as st eqn:Est.
      destruct (IH (snd (fst st)) (fst (fst st)) p) as [e2 He2].
      destruct st as [[s1 g1] [r|]]; destruct stop; simpl in *;
        try (rewrite He2, He1; exists (e1 ++ e2); rewrite app_assoc; reflexivity).
      exists e1. exact He1.
  Qed.

  Lemma observe_rng_prefix : forall pol, policy_ok pol = true -> forall d sd stop rs g s p,
    exists ext, fst (fst (observe_rng d sd stop pol rs g s p)) = s ++ ext.
  Proof.
    intros pol Hpol d sd stop rs g s p. destruct d; simpl.
    - apply loop_rng_prefix; assumption.
    - destruct sd as [x|]; simpl; apply loop_rng_prefix; assumption.
    - apply loop_rng_prefix; assumption.
  Qed.

  Theorem calls_rng_prefix : forall pol, policy_ok pol = true -> forall d sd cs g s p,
    exists ext, fst (fst (calls_rng d sd pol cs g s p)) = s ++ ext.
  Proof.
    intros pol Hpol d sd. induction cs as [|c rest IH]; intros g s p; simpl.
    - exists []. rewrite app_nil_r. reflexivity.
    - destruct (observe_rng_prefix pol Hpol d sd (fst c) (snd c) g s p) as [e1 He1].
      destruct (IH (snd (fst (observe_rng d sd (fst c) pol (snd c) g s p)))
                   (fst (fst (observe_rng d sd (fst c) pol (snd c) g s p))) p) as [e2 He2].
      rewrite He2, He1. exists (e1 ++ e2). rewrite app_assoc. reflexivity.
  Qed.

  Corollary calls_rng_frame_locs : forall pol, policy_ok pol = true -> forall d sd cs g s p x,
    x < length s -> nth_error (fst (fst (calls_rng d sd pol cs g s p))) x = nth_error s x.
  Proof.
    intros pol Hpol d sd cs g s p x Hx. destruct (calls_rng_prefix pol Hpol d sd cs g s p) as [ext He].
    rewrite He. apply nth_error_app1. assumption.
  Qed.

  (* the ambient generator: a seeded call puts back the state it found *)
  Lemma loop_rng_gen_seeded : forall x stop pol rs g s p,
    snd (fst (loop_rng (Some x) stop pol rs g s p)) = g.
  Proof.
    intros x stop pol. induction rs as [|ps rest IH]; intros g s p; [reflexivity|].
    cbn [HeapRng.loop_rng]. cbn [HeapRng.seeded fst snd].
    destruct (snd (step_rng pol ps (seed_gen x) s p)); destruct stop; cbn [fst snd]; try apply IH.
    reflexivity.
  Qed.

  Lemma observe_rng_gen_restored : forall d, d <> SeedNever -> forall x stop pol rs g s p,
    snd (fst (observe_rng d (Some x) stop pol rs g s p)) = g.
  Proof.
    intros d Hd x stop pol rs g s p. destruct d; simpl; [apply loop_rng_gen_seeded|reflexivity|congruence].
  Qed.

  Theorem calls_rng_gen_restored : forall d, d <> SeedNever -> forall x pol cs g s p,
    snd (fst (calls_rng d (Some x) pol cs g s p)) = g.
  Proof.
    intros d Hd x pol. induction cs as [|c rest IH]; intros g s p; [reflexivity|].
    cbn [HeapRng.calls_rng fst snd]. rewrite IH. apply observe_rng_gen_restored. assumption.
  Qed.

  (* EXTERNAL: the outcome (a result or a failure) of set + pipeline on a self-contained object graph
     is a function of that graph AND OF THE GENERATOR STATE it starts from - not of where the graph
     is allocated nor of the rest of the heap *)
  Hypothesis exec_local : forall g ps sa sb C, closed_graph C -> C <> [] ->
    snd (exec params res setp (run_at g) ps (sa ++ shift (length sa) C) (length sa)) =
    snd (exec params res setp (run_at g) ps (sb ++ shift (length sb) C) (length sb)).

  Lemma step_rng_ext : forall pol, policy_ok pol = true -> forall ps g s ext p s1 c,
    deepcopy pol s p = Some (s1, c) ->
    snd (step_rng pol ps g (s ++ ext) p) = snd (step_rng pol ps g s p).
  Proof.
    intros pol Hpol ps g s ext p s1 c Hd. rewrite !step_rng_outcome.
    eapply (step_exc_ext params res setp (run_at g) (exec_local g)); eauto.
  Qed.

  (* every run bracketed with the seed: the outcomes of a call that starts on ANY extension of the
     initial heap, with ANY ambient generator state, are the standalone outcomes of its parameter
     lists, in order - all of them (dask path), or up to the first failure (loop path) *)
  Lemma loop_rng_each_standalone : forall pol, policy_ok pol = true -> forall x stop s0 p s1 c,
    deepcopy pol s0 p = Some (s1, c) ->
    forall rs g ext,
      exists n, snd (loop_rng (Some x) stop pol rs g (s0 ++ ext) p) = firstn n (map (standalone pol x s0 p) rs) /\
                (stop = false -> n = length rs).
  Proof.
    intros pol Hpol x stop s0 p s1 c Hd. induction rs as [|ps rest IH]; intros g ext.
    - exists 0. split; reflexivity.
    - cbn [HeapRng.loop_rng]. cbn [HeapRng.seeded fst snd].
      assert (E : snd (step_rng pol ps (seed_gen x) (s0 ++ ext) p) = standalone pol x s0 p ps).
      { unfold HeapRng.standalone. eapply step_rng_ext; eauto. }
      destruct (step_rng_prefix pol Hpol ps (seed_gen x) (s0 ++ ext) p) as [e1 He1].
      rewrite He1. rewrite <- app_assoc.
      destruct (IH g (ext ++ e1)) as [n [Hn Hl]].
      rewrite E.
      destruct (standalone pol x s0 p ps) as [r|] eqn:Es; destruct stop; cbn [fst snd].
      + exists (S n). split; [simpl; rewrite Es, Hn; reflexivity | intros; discriminate].
      + exists (S n). split; [simpl; rewrite Es, Hn; reflexivity | intros H; rewrite (Hl H); reflexivity].
      + exists 1. split; [simpl; rewrite Es; reflexivity | intros; discriminate].
      + exists (S n). split; [simpl; rewrite Es, Hn; reflexivity | intros H; rewrite (Hl H); reflexivity].
  Qed.

  (* ... hence after ANY history of calls (completed, aborted by a rejected value or a raising model)
     made under any ambient generator state *)
  Theorem seeded_runs_standalone : forall pol, policy_ok pol = true -> forall x s0 p s1 c,
    deepcopy pol s0 p = Some (s1, c) ->
    forall cs stop rs g0,
      exists n,
        snd (observe_rng SeedEachRun (Some x) stop pol rs
               (snd (fst (calls_rng SeedEachRun (Some x) pol cs g0 s0 p)))
               (fst (fst (calls_rng SeedEachRun (Some x) pol cs g0 s0 p))) p)
        = firstn n (map (standalone pol x s0 p) rs) /\
        (stop = false -> n = length rs).
  Proof.
    intros pol Hpol x s0 p s1 c Hd cs stop rs g0.
    destruct (calls_rng_prefix pol Hpol SeedEachRun (Some x) cs g0 s0 p) as [ext He]. rewrite He.
    cbn [HeapRng.observe_rng]. eapply loop_rng_each_standalone; eauto.
  Qed.
End Rng.

(* ---------------------------------------------------------------- witnesses *)

Lemma exec_draw_frame : forall g k s l,
  frame_ok s l (fst (exec Z Z setp_nonneg (run_at Z Z Z run_draw g) k s l)).
Proof.
  intros g k s l. unfold exec, setp_nonneg, run_at, run_draw. simpl.
  destruct (0 <=? k)%Z; simpl.
  - apply run_touch_frame.
  - split; [lia|auto].
Qed.

Lemma exec_draw_local : forall g k sa sb C, closed_graph C -> C <> [] ->
  snd (exec Z Z setp_nonneg (run_at Z Z Z run_draw g) k (sa ++ shift (length sa) C) (length sa)) =
  snd (exec Z Z setp_nonneg (run_at Z Z Z run_draw g) k (sb ++ shift (length sb) C) (length sb)).
Proof.
  intros g k sa sb C Hc Hn. unfold exec, setp_nonneg, run_at, run_draw. simpl.
  destruct (0 <=? k)%Z; simpl; [|reflexivity].
  rewrite (run_touch_local k sa sb C Hc Hn). reflexivity.
Qed.
