(* C01 — the theorems in their final form, parametrised over an execution order that passes the
   computable check `order_okb` (each of the ten groups occurs exactly once).  Properties/C01.v
   instantiates them with the literal physical order by `vm_compute`. *)
From Coq Require Import List String ZArith Bool Arith PeanoNat Lia Sorted Permutation.
From PyxelV Require Import Model.Pipeline Proofs.Pipeline.
Import ListNotations.
Open Scope list_scope.

Definition group_eq_dec_c : forall a b : group, {a = b} + {a <> b}.
Proof. decide equality. Defined.

Definition order_okb (order : list group) : bool :=
  forallb (fun g => Nat.eqb (count_occ group_eq_dec_c order g) 1) all_groups.

Lemma order_okb_sound order :
  order_okb order = true -> NoDup order /\ (forall g, In g order).
Proof.
  unfold order_okb. rewrite forallb_forall. intro H.
  assert (C : forall g, count_occ group_eq_dec_c order g = 1).
  { intro g. apply Nat.eqb_eq. apply H. apply all_groups_complete. }
  split.
  - apply (NoDup_count_occ group_eq_dec_c). intro g. rewrite C. lia.
  - intro g. apply (count_occ_In group_eq_dec_c). rewrite C. lia.
Qed.

Section Order.
  Variable order : list group.
  Hypothesis OK : order_okb order = true.

  Definition trace_of (debug : bool) (p : pipeline) (n : nat) : list call :=
    fst (run_readouts debug order p n).

  Lemma run_sorted : forall debug p n, StronglySorted (key_lt order) (trace_of debug p n).
  Proof.
    intros. unfold trace_of. rewrite run_readouts_fst. apply tr_readouts_sorted.
    apply (order_okb_sound order OK).
  Qed.

  Lemma run_exactly_once :
    forall debug p n step g i,
      count_pos (trace_of debug p n) step g i = if executes p n step g i then 1 else 0.
  Proof.
    intros. unfold trace_of. rewrite run_readouts_fst.
    destruct (order_okb_sound order OK). apply exactly_once; assumption.
  Qed.

  Lemma run_enabled_once :
    forall debug p n step g i ms m,
      step < n -> get p g = Some ms -> nth_error ms i = Some m -> enabled m = true ->
      count_pos (trace_of debug p n) step g i = 1.
  Proof.
    intros debug p n step g i ms m Hs Hg Hi He. rewrite run_exactly_once. unfold executes.
    rewrite Hg, Hi, He. replace (Nat.ltb step n) with true by (symmetry; apply Nat.ltb_lt; exact Hs).
    reflexivity.
  Qed.

  Lemma run_disabled_never :
    forall debug p n step g i ms m,
      get p g = Some ms -> nth_error ms i = Some m -> enabled m = false ->
      count_pos (trace_of debug p n) step g i = 0.
  Proof.
    intros debug p n step g i ms m Hg Hi He. rewrite run_exactly_once. unfold executes.
    rewrite Hg, Hi, He, andb_false_r. reflexivity.
  Qed.

  Lemma run_absent_never :
    forall debug p n step g i, get p g = None -> count_pos (trace_of debug p n) step g i = 0.
  Proof.
    intros debug p n step g i Hg. rewrite run_exactly_once. unfold executes.
    rewrite Hg, andb_false_r. reflexivity.
  Qed.

  Lemma run_no_other_step :
    forall debug p n step g i, n <= step -> count_pos (trace_of debug p n) step g i = 0.
  Proof.
    intros debug p n step g i Hs. rewrite run_exactly_once. unfold executes.
    replace (Nat.ltb step n) with false by (symmetry; apply Nat.ltb_ge; exact Hs). reflexivity.
  Qed.

  Lemma run_args_exact :
    forall debug p n c,
      In c (trace_of debug p n) ->
      c_step c < n /\
      exists ms m, get p (c_group c) = Some ms /\ nth_error ms (c_pos c) = Some m /\
                   enabled m = true /\ c_name c = name m /\ c_args c = recv (c_step c) m /\
                   (grows m = false -> c_args c = args m).
  Proof.
    intros debug p n c H. unfold trace_of in H. rewrite run_readouts_fst in H.
    apply in_tr_readouts in H. destruct H as (H1 & _ & ms & m & A & B & C & D & E).
    split; [exact H1|]. exists ms, m. repeat split; auto.
    intro G. rewrite E. unfold recv. rewrite G. reflexivity.
  Qed.

  Lemma run_debug_irrelevant :
    forall p n,
      trace_of true p n = trace_of false p n /\
      snd (run_readouts false order p n) = [] /\
      snd (run_readouts true order p n) = captures_of (trace_of true p n).
  Proof.
    intros. unfold trace_of. repeat split.
    - apply debug_irrelevant.
    - apply captures_off.
    - rewrite captures_on, run_readouts_fst. reflexivity.
  Qed.

  (* what the correspondence leg evaluates is the object of the theorems *)
  Lemma model_run_is_trace :
    forall names debug p n,
      names = map group_name order ->
      fst (model_run (order_of_names names) debug p n) = trace_of debug p n.
  Proof. intros names debug p n ->. rewrite order_of_names_names. reflexivity. Qed.
End Order.

Lemma spec_run_is_trace debug p n :
  fst (spec_run debug p n) = trace_of spec_order debug p n /\
  snd (spec_run debug p n) = snd (run_readouts debug spec_order p n).
Proof.
  unfold spec_run, trace_of. rewrite run_readouts_fst. split; [reflexivity|].
  destruct debug; simpl; [rewrite captures_on|rewrite captures_off]; reflexivity.
Qed.

(* the run-level outcome of an exposure: it always completes, makes the calls of the run without
   debug, and with debug on holds one capture per call (none when no model executes) *)
Lemma captures_of_nil t : is_nil (captures_of t) = is_nil t.
Proof. destruct t; reflexivity. Qed.

Lemma exposure_runs order p n debug :
  exposure_result debug order p n =
  Ok (trace_of order false p n, if debug then captures_of (trace_of order false p n) else []).
Proof.
  unfold exposure_result, trace_of. rewrite !run_readouts_fst. destruct debug; [|reflexivity].
  rewrite captures_on. unfold intermediate_of.
  destruct (tr_readouts order p n) eqn:E; reflexivity.
Qed.

Lemma yaml_trace_irrelevant order (d d' : doc) p p' debug n :
  Permutation d d' -> NoDup (map fst d) -> from_yaml d = Ok p -> from_yaml d' = Ok p' ->
  run_readouts debug order p n = run_readouts debug order p' n.
Proof.
  intros HP ND E E'. rewrite (from_yaml_perm d d' HP ND) in E. rewrite E in E'.
  injection E' as ->. reflexivity.
Qed.

Lemma empty_list_is_absent f g : f g = Some [] -> get (mk_pipeline f) g = None.
Proof. intro H. rewrite get_mk_pipeline, H. reflexivity. Qed.

Lemma roundtrip p : normal p -> from_yaml (doc_of (get p) all_groups) = Ok p.
Proof.
  intro H. rewrite from_yaml_doc_of; [|intros; apply all_groups_complete].
  rewrite mk_pipeline_get by exact H. reflexivity.
Qed.

(* wiring of the constructor keywords, regenerated from the source:
   feeds = (keyword, attribute assigned, ModelGroup label), properties = (property, attribute read) *)
Definition wiring_okb (kwargs : list string) (feeds : list (string * string * string))
           (props : list (string * string)) : bool :=
  Nat.eqb (List.length kwargs) 10 && Nat.eqb (List.length feeds) 10 &&
  forallb (fun g =>
             let n := group_name g in
             let a := String.append "_" n in
             existsb (String.eqb n) kwargs &&
             existsb (fun t => let '(k, at_, lbl) := t in
                               String.eqb k n && String.eqb at_ a && String.eqb lbl n) feeds &&
             existsb (fun t => let '(pn, at_) := t in String.eqb pn n && String.eqb at_ a) props)
          all_groups.

Lemma wiring_okb_sound kwargs feeds props :
  wiring_okb kwargs feeds props = true ->
  List.length kwargs = 10 /\ List.length feeds = 10 /\
  forall g, In (group_name g) kwargs /\
            In (group_name g, String.append "_" (group_name g), group_name g) feeds /\
            In (group_name g, String.append "_" (group_name g)) props.
Proof.
  unfold wiring_okb. rewrite !andb_true_iff. intros [[H1 H2] H3].
  apply Nat.eqb_eq in H1. apply Nat.eqb_eq in H2. repeat split; auto;
    rewrite forallb_forall in H3; specialize (H3 g (all_groups_complete g));
    rewrite !andb_true_iff in H3; destruct H3 as [[A B] C].
  - apply existsb_exists in A. destruct A as (x & Hx & E). apply String.eqb_eq in E. subst. exact Hx.
  - apply existsb_exists in B. destruct B as ([[k a] l] & Hx & E).
    rewrite !andb_true_iff in E. destruct E as [[E1 E2] E3].
    apply String.eqb_eq in E1. apply String.eqb_eq in E2. apply String.eqb_eq in E3. subst. exact Hx.
  - apply existsb_exists in C. destruct C as ([pn a] & Hx & E).
    rewrite !andb_true_iff in E. destruct E as [E1 E2].
    apply String.eqb_eq in E1. apply String.eqb_eq in E2. subst. exact Hx.
Qed.
