(* C15: the real-number functions that the CDM code approximates in binary64 satisfy the range
   hypotheses under which Proofs/ConservationCdm.v proves the bookkeeping:
     a ** beta = a * a ** (beta - 1),  a ** (beta - 1) >= 0,
     0 <= 1 - exp(-x) <= 1 for x >= 0  (capture probability with x = alpha * a ** (1 - beta) >= 0,
                                        release probability with x = t / tr >= 0). *)
From Coq Require Import Reals Lra.
Open Scope R_scope.

Lemma Rpower_split : forall a b, 0 < a -> Rpower a b = a * Rpower a (b - 1).
Proof.
  intros a b Ha. rewrite <- (Rpower_1 a Ha) at 2. rewrite <- Rpower_plus. f_equal. lra.
Qed.

Lemma Rpower_nonneg : forall a b, 0 <= Rpower a b.
Proof. intros. unfold Rpower. left. apply exp_pos. Qed.

Lemma one_minus_exp_range : forall x, 0 <= x -> 0 <= 1 - exp (- x) <= 1.
Proof.
  intros x Hx. pose proof (exp_pos (- x)) as P.
  assert (exp (- x) <= 1).
  { rewrite <- exp_0. destruct Hx as [Hx|Hx].
    - left. apply exp_increasing. lra.
    - subst x. rewrite Ropp_0. right. reflexivity. }
  lra.
Qed.

(* the capture bound in the reals with the true power function: for a > 0, gamma >= 0, no >= 0,
   (gamma a^beta - no) / (gamma a^(beta-1) + 1) * pc  <  a   for every pc in [0, 1] *)
Lemma cdm_capture_real : forall a beta gamma no pc,
  0 < a -> 0 <= gamma -> 0 <= no -> 0 <= pc <= 1 ->
  (gamma * Rpower a beta - no) / (gamma * Rpower a (beta - 1) + 1) * pc < a.
Proof.
  intros a beta gamma no pc Ha Hg Hn [Hp0 Hp1].
  rewrite (Rpower_split a beta Ha).
  pose proof (Rpower_nonneg a (beta - 1)) as B. set (bw := Rpower a (beta - 1)) in *.
  assert (HD : 0 < gamma * bw + 1) by nra.
  assert (HX : (gamma * (a * bw) - no) / (gamma * bw + 1) < a).
  { apply (Rmult_lt_reg_r (gamma * bw + 1)); [exact HD|]. unfold Rdiv.
    rewrite Rmult_assoc, Rinv_l by lra. nra. }
  set (X := (gamma * (a * bw) - no) / (gamma * bw + 1)) in *.
  destruct (Rle_or_lt X 0); nra.
Qed.
