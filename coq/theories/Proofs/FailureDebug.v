(* C09, round 2 — exposure in debug mode: the nested drivers with the capture step after every model call
   refine the flat executor over the schedule, which stops at the first call whose model raises (exception
   annotated by the handler of ModelGroup.run) or whose capture raises (exception as raised: the capture is
   outside the try statement).  Without capture failures the debug drivers are the ordinary ones. *)
From Coq Require Import List String Ascii Bool Arith Lia.
From PyxelV Require Import Model.Failure Proofs.Failure.
Import ListNotations.
Open Scope list_scope.

Section Dbg.
  Variable beh cap : behaviour.

  Lemma flat_exec_dbg_app : forall a b,
    flat_exec_dbg beh cap (a ++ b) =
    match flat_exec_dbg beh cap a with
    | (Raise e, tr) => (Raise e, tr)
    | (Ok _, tr) => let '(o, tr') := flat_exec_dbg beh cap b in (o, tr ++ tr')
    end.
  Proof.
    induction a as [|ev a IH]; intros b; simpl.
    - destruct (flat_exec_dbg beh cap b); reflexivity.
    - destruct (ev_stop beh cap ev) as [e|]; [reflexivity|].
      rewrite IH. destruct (flat_exec_dbg beh cap a) as [[u|e] tr]; [|reflexivity].
      destruct (flat_exec_dbg beh cap b); reflexivity.
  Qed.

  Lemma group_run_dbg_flat : forall r s g ms,
    group_run_dbg beh cap r s g ms = flat_exec_dbg beh cap (sched_group r s g ms).
  Proof.
    intros r s g. induction ms as [|m ms IH]; [reflexivity|].
    unfold sched_group in *. simpl. destruct (m_enabled m); [|exact IH].
    simpl. unfold call_dbg, call_model, ev_stop, ev_fault. simpl.
    destruct (beh r s (m_key m)) as [[c p]|]; [reflexivity|].
    destruct (cap r s (m_key m)) as [[c p]|]; [reflexivity|].
    rewrite IH. reflexivity.
  Qed.

  Lemma processor_run_dbg_flat : forall r s gs,
    processor_run_dbg beh cap r s gs = flat_exec_dbg beh cap (sched_proc r s gs).
  Proof.
    intros r s. induction gs as [|g gs IH]; [reflexivity|].
    unfold sched_proc in *. simpl. rewrite flat_exec_dbg_app, group_run_dbg_flat.
    destruct (flat_exec_dbg beh cap (sched_group r s (g_name g) (g_models g))) as [[u|e] tr]; [|reflexivity].
    rewrite IH. reflexivity.
  Qed.

  Lemma exposure_steps_dbg_flat : forall r pl steps,
    exposure_steps_dbg beh cap r pl steps =
    (match fst (flat_exec_dbg beh cap (sched_steps r pl steps)) with Ok _ => Ok steps | Raise e => Raise e end,
     snd (flat_exec_dbg beh cap (sched_steps r pl steps))).
  Proof.
    intros r pl. induction steps as [|s ss IH]; [reflexivity|].
    unfold sched_steps in *. simpl. rewrite flat_exec_dbg_app, processor_run_dbg_flat.
    destruct (flat_exec_dbg beh cap (sched_proc r s pl)) as [[u|e] tr]; [|reflexivity].
    rewrite IH.
    destruct (flat_exec_dbg beh cap (flat_map (fun s0 => sched_proc r s0 pl) ss)) as [[u'|e'] tr']; reflexivity.
  Qed.

  Lemma flat_exec_dbg_first_stop : forall evs,
    flat_exec_dbg beh cap evs =
    match first_stop beh cap evs with
    | None => (Ok tt, evs)
    | Some (pre, fe, e) => (Raise e, pre ++ [fe])
    end.
  Proof.
    induction evs as [|ev evs IH]; [reflexivity|]. simpl.
    destruct (ev_stop beh cap ev) as [e|]; [reflexivity|].
    rewrite IH. destruct (first_stop beh cap evs) as [[[pre fe] e]|]; reflexivity.
  Qed.

  Theorem exposure_dbg_spec : forall r pl n,
    exposure_dbg beh cap r pl n =
    match first_stop beh cap (sched_expo r pl n) with
    | None => (Ok (seq 0 n), sched_expo r pl n)
    | Some (pre, fe, e) => (Raise e, pre ++ [fe])
    end.
  Proof.
    intros. unfold exposure_dbg, sched_expo. rewrite exposure_steps_dbg_flat, flat_exec_dbg_first_stop.
    destruct (first_stop beh cap (sched_steps r pl (seq 0 n))) as [[[pre fe] e]|]; reflexivity.
  Qed.

  Lemma first_stop_none : forall evs,
    first_stop beh cap evs = None <-> (forall ev, In ev evs -> ev_stop beh cap ev = None).
  Proof.
    induction evs as [|ev evs IH]; simpl.
    - split; [intros _ ? []|reflexivity].
    - destruct (ev_stop beh cap ev) as [e|] eqn:E.
      + split; [discriminate|]. intros H. specialize (H ev (or_introl eq_refl)). congruence.
      + destruct (first_stop beh cap evs) as [[[pre fe] e]|].
        * split; [discriminate|]. intros H.
          assert (Some (pre, fe, e) = None) by (apply IH; intros; apply H; right; assumption).
          discriminate.
        * split; [|reflexivity]. intros _ e [<-|Hin]; [exact E|]. apply IH; auto.
  Qed.

  Lemma first_stop_some : forall evs pre fe e,
    first_stop beh cap evs = Some (pre, fe, e) ->
    (exists post, evs = pre ++ fe :: post) /\ (forall ev, In ev pre -> ev_stop beh cap ev = None)
    /\ ev_stop beh cap fe = Some e.
  Proof.
    induction evs as [|ev evs IH]; intros pre fe e; simpl; [discriminate|].
    destruct (ev_stop beh cap ev) as [e0|] eqn:E.
    - intros H. inversion H; subst. split; [exists evs; reflexivity|]. split; [intros ? []|exact E].
    - destruct (first_stop beh cap evs) as [[[pre' fe'] e']|] eqn:F; [|discriminate].
      intros H. inversion H; subst.
      destruct (IH pre' fe e eq_refl) as [[post Hs] [Hp Hf]].
      split; [exists post; simpl; congruence|]. split; [|exact Hf].
      intros x [<-|Hin]; [exact E|auto].
  Qed.

  Lemma first_stop_complete : forall evs pre fe e,
    (exists post, evs = pre ++ fe :: post) -> (forall ev, In ev pre -> ev_stop beh cap ev = None) ->
    ev_stop beh cap fe = Some e ->
    first_stop beh cap evs = Some (pre, fe, e).
  Proof.
    induction evs as [|ev evs IH]; intros pre fe e [post H] Hpre Hfe.
    - destruct pre; discriminate.
    - destruct pre as [|x pre]; simpl in H; inversion H; subst; simpl.
      + rewrite Hfe. reflexivity.
      + rewrite (Hpre x (or_introl eq_refl)).
        rewrite (IH pre fe e); [reflexivity|exists post; reflexivity| |exact Hfe].
        intros; apply Hpre; right; assumption.
  Qed.
End Dbg.

(* without capture failures the debug drivers ARE the ordinary ones *)
Lemma flat_exec_dbg_no_cap : forall beh evs,
  flat_exec_dbg beh no_capture_failure evs = flat_exec beh evs.
Proof.
  intros beh. induction evs as [|ev evs IH]; [reflexivity|]. simpl.
  rewrite IH. unfold ev_stop. destruct (ev_fault beh ev) as [[c p]|]; reflexivity.
Qed.

Theorem exposure_dbg_no_cap : forall beh r pl n,
  exposure_dbg beh no_capture_failure r pl n = exposure beh r pl n.
Proof.
  intros. unfold exposure_dbg, exposure. rewrite exposure_steps_dbg_flat, exposure_steps_flat.
  rewrite flat_exec_dbg_no_cap. reflexivity.
Qed.
