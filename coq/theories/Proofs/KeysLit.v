(* C08 — eval_entry round trip on the scalar literals, for ALL values: integers, decimals written mantissa-e-exponent,
   booleans, None and bare words. (Quoted strings, lists and tuples are covered by correspondence.) *)
From Coq Require Import Decimal DecimalString DecimalPos DecimalFacts.
From Coq Require Import ZArith List Bool String Ascii Lia.
From PyxelV Require Import Model.Keys.
Import ListNotations.
Open Scope string_scope.
Open Scope list_scope.

(* ------------------------------------------------------------------------------------ characters *)

Lemma alpha_neq c q : is_alpha c = true -> is_alpha q = false -> aeq c q = false.
Proof.
  intros Hc Hq. unfold aeq. destruct (Ascii.eqb c q) eqn:E; auto.
  apply Ascii.eqb_eq in E. subst. congruence.
Qed.

Lemma alpha_not_digit c : is_alpha c = true -> is_digit c = false.
Proof. destruct c as [[] [] [] [] [] [] [] []]; vm_compute; congruence. Qed.

Lemma alpha_not_space c : is_alpha c = true -> is_space c = false.
Proof. destruct c as [[] [] [] [] [] [] [] []]; vm_compute; congruence. Qed.

Lemma digit_not_space c : is_digit c = true -> is_space c = false.
Proof. destruct c as [[] [] [] [] [] [] [] []]; vm_compute; congruence. Qed.

Lemma digit_neq c q : is_digit c = true -> is_digit q = false -> aeq c q = false.
Proof.
  intros Hc Hq. unfold aeq. destruct (Ascii.eqb c q) eqn:E; auto.
  apply Ascii.eqb_eq in E. subst. congruence.
Qed.

(* ------------------------------------------------------------------------------------ trimming *)

Definition nonspace (l : lstr) : bool := forallb (fun c => negb (is_space c)) l.

Lemma ltrim_nonspace l : nonspace l = true -> ltrim l = l.
Proof.
  destruct l as [|c r]; simpl; auto. intros H. apply andb_true_iff in H. destruct H as [Hc _].
  apply negb_true_iff in Hc. rewrite Hc. reflexivity.
Qed.

Lemma nonspace_rev l : nonspace l = true -> nonspace (rev l) = true.
Proof.
  unfold nonspace. rewrite !forallb_forall. intros H x Hx. apply H. apply in_rev. exact Hx.
Qed.

Lemma trim_nonspace l : nonspace l = true -> trim l = l.
Proof.
  intros H. unfold trim, rtrim. rewrite (ltrim_nonspace l H).
  rewrite (ltrim_nonspace (rev l) (nonspace_rev l H)). apply rev_involutive.
Qed.

Lemma nonspace_app a b : nonspace a = true -> nonspace b = true -> nonspace (a ++ b) = true.
Proof. unfold nonspace. rewrite forallb_app. intros -> ->. reflexivity. Qed.

Lemma all_digits_nonspace l : all_digits l = true -> nonspace l = true.
Proof.
  induction l as [|c r IH]; simpl; auto. intros H. apply andb_true_iff in H. destruct H as [Hc Hr].
  rewrite (digit_not_space c Hc). simpl. auto.
Qed.

Lemma all_alpha_nonspace l : all_alpha l = true -> nonspace l = true.
Proof.
  induction l as [|c r IH]; simpl; auto. intros H. apply andb_true_iff in H. destruct H as [Hc Hr].
  rewrite (alpha_not_space c Hc). simpl. auto.
Qed.

(* ------------------------------------------------------------------------------------ bare words *)

Lemma all_alpha_no_char q l : is_alpha q = false -> all_alpha l = true -> no_char q l = true.
Proof.
  intros Hq. induction l as [|c r IH]; simpl; auto.
  intros H. apply andb_true_iff in H. destruct H as [Hc Hr].
  rewrite (alpha_neq c q Hc Hq). simpl. auto.
Qed.

Lemma parse_lit_word fuel s :
  bare_word s = true -> parse_lit (S fuel) (list_ascii_of_string s) = None.
Proof.
  unfold bare_word. intros H.
  apply andb_true_iff in H. destruct H as [H Hn]. apply andb_true_iff in H. destruct H as [H Hf].
  apply andb_true_iff in H. destruct H as [Ha Ht].
  remember (list_ascii_of_string s) as l eqn:El.
  assert (Hs : string_of_list_ascii l = s) by (subst l; apply string_of_list_ascii_of_string).
  destruct l as [|c r]; [discriminate|].
  cbn [parse_lit]. rewrite (trim_nonspace (c :: r) (all_alpha_nonspace _ Ha)).
  pose proof Ha as Ha'. simpl in Ha'. apply andb_true_iff in Ha'. destruct Ha' as [Hc Hr].
  rewrite (alpha_neq c (ch "[") Hc eq_refl), (alpha_neq c (ch "(") Hc eq_refl).
  unfold parse_atom, word_is. rewrite Hs.
  apply negb_true_iff in Ht, Hf, Hn. rewrite Ht, Hf, Hn.
  unfold parse_quoted.
  rewrite (alpha_neq c (ch "'") Hc eq_refl), (alpha_neq c """"%char Hc eq_refl). simpl orb. cbv iota.
  unfold strip_sign.
  rewrite (alpha_neq c (ch "-") Hc eq_refl), (alpha_neq c (ch "+") Hc eq_refl). simpl orb. cbv iota.
  rewrite ?(alpha_neq c "-"%char Hc eq_refl), ?(alpha_neq c "+"%char Hc eq_refl). simpl orb. cbv iota.
  unfold parse_unsigned. cbn [span_digits]. rewrite (alpha_not_digit c Hc).
  rewrite (alpha_neq c (ch ".") Hc eq_refl). reflexivity.
Qed.

Lemma eval_word s : bare_word s = true -> eval_entry s = Ok (VStr s).
Proof.
  intros H. unfold eval_entry, literal_eval. rewrite (parse_lit_word _ s H).
  unfold bare_word in H.
  apply andb_true_iff in H. destruct H as [H _]. apply andb_true_iff in H. destruct H as [H _].
  apply andb_true_iff in H. destruct H as [Ha _].
  destruct (list_ascii_of_string s) as [|c r] eqn:El; [discriminate|].
  pose proof Ha as Ha'. simpl in Ha'. apply andb_true_iff in Ha'. destruct Ha' as [Hc Hr].
  rewrite (alpha_neq c (ch "'") Hc eq_refl), (alpha_neq c """"%char Hc eq_refl).
  rewrite andb_false_r.
  rewrite !(all_alpha_no_char _ (c :: r)) by (assumption || reflexivity). reflexivity.
Qed.

(* ------------------------------------------------------------------------------------ decimal digits *)

Fixpoint uchars (d : uint) : lstr :=
  match d with
  | Nil => []
  | D0 d => "0"%char :: uchars d | D1 d => "1"%char :: uchars d | D2 d => "2"%char :: uchars d
  | D3 d => "3"%char :: uchars d | D4 d => "4"%char :: uchars d | D5 d => "5"%char :: uchars d
  | D6 d => "6"%char :: uchars d | D7 d => "7"%char :: uchars d | D8 d => "8"%char :: uchars d
  | D9 d => "9"%char :: uchars d
  end.

Lemma uchars_string d : list_ascii_of_string (NilEmpty.string_of_uint d) = uchars d.
Proof. induction d; simpl; f_equal; auto. Qed.

Lemma uchars_digits d : all_digits (uchars d) = true.
Proof. induction d; simpl; auto. Qed.

Lemma digits_val_acc d : forall acc, digits_val (Zpos acc) (uchars d) = Zpos (Pos.of_uint_acc d acc).
Proof.
  induction d; intros acc; cbn [uchars digits_val Pos.of_uint_acc]; try reflexivity;
    rewrite <- IHd; f_equal; change (Z.of_nat _) with 0%Z || idtac; simpl Z.of_nat; lia.
Qed.

Lemma digits_val_uint d : digits_val 0 (uchars d) = Z.of_N (Pos.of_uint d).
Proof.
  induction d; simpl; try reflexivity; try exact IHd; apply digits_val_acc.
Qed.

Lemma to_uint_head p : match Pos.to_uint p with Nil | D0 _ => False | _ => True end.
Proof.
  pose proof (Unsigned.to_of (Pos.to_uint p)) as H. rewrite Unsigned.of_to in H. simpl in H.
  destruct (Pos.to_uint p) as [|d|d|d|d|d|d|d|d|d|d] eqn:E; auto.
  - exact (Unsigned.to_uint_nonnil p E).
  - rewrite unorm_D0 in H. unfold unorm in H.
    destruct (nzhead d) eqn:En.
    + (* the number would be zero *) inversion H; subst. exact (Unsigned.to_uint_nonzero p E).
    + exact (nzhead_nonzero d _ (eq_trans En (eq_sym H))).
    + discriminate. + discriminate. + discriminate. + discriminate. + discriminate.
    + discriminate. + discriminate. + discriminate. + discriminate.
Qed.

(* the digits of a positive number: digits only, no leading zero, and they denote the number *)
Definition pchars (p : positive) : lstr := uchars (Pos.to_uint p).

Lemma pchars_ok p :
  all_digits (pchars p) = true /\ int_digits_ok (pchars p) = true /\ digits_val 0 (pchars p) = Zpos p /\
  exists c r, pchars p = c :: r /\ is_digit c = true.
Proof.
  unfold pchars. pose proof (to_uint_head p) as Hh.
  pose proof (uchars_digits (Pos.to_uint p)) as Hd.
  pose proof (digits_val_uint (Pos.to_uint p)) as Hv. rewrite Unsigned.of_to in Hv.
  repeat split; auto.
  - destruct (Pos.to_uint p); try contradiction; unfold int_digits_ok; rewrite Hd; reflexivity.
  - destruct (Pos.to_uint p); try contradiction; simpl; eauto.
Qed.

(* magnitude of an integer *)
Definition mchars (z : Z) : lstr := match z with Z0 => ["0"%char] | Zpos p | Zneg p => pchars p end.

Lemma mchars_ok z :
  all_digits (mchars z) = true /\ int_digits_ok (mchars z) = true /\ digits_val 0 (mchars z) = Z.abs z /\
  exists c r, mchars z = c :: r /\ is_digit c = true.
Proof.
  destruct z; simpl; [repeat split; eauto | apply pchars_ok | apply pchars_ok].
Qed.

Definition zchars (z : Z) : lstr := match z with Zneg _ => "-"%char :: mchars z | _ => mchars z end.

Lemma render_int_chars z : list_ascii_of_string (render_int z) = zchars z.
Proof.
  unfold render_int, zchars, mchars, pchars. destruct z as [|p|p]; simpl; [reflexivity| |].
  - pose proof (to_uint_head p). destruct (Pos.to_uint p) eqn:E; try contradiction;
      rewrite <- uchars_string; reflexivity.
  - pose proof (to_uint_head p). destruct (Pos.to_uint p) eqn:E; try contradiction;
      rewrite <- uchars_string; reflexivity.
Qed.

Lemma list_ascii_app a b : list_ascii_of_string (a ++ b)%string = list_ascii_of_string a ++ list_ascii_of_string b.
Proof. induction a; simpl; f_equal; auto. Qed.

(* ------------------------------------------------------------------------------------ parsing numbers *)

Lemma span_all l : all_digits l = true -> span_digits l = (l, []).
Proof.
  induction l as [|c r IH]; simpl; auto. intros H. apply andb_true_iff in H. destruct H as [Hc Hr].
  rewrite Hc, (IH Hr). reflexivity.
Qed.

Lemma span_app a x rest : all_digits a = true -> is_digit x = false -> span_digits (a ++ x :: rest) = (a, x :: rest).
Proof.
  intros Ha Hx. induction a as [|c r IH]; simpl.
  - rewrite Hx. reflexivity.
  - simpl in Ha. apply andb_true_iff in Ha. destruct Ha as [Hc Hr]. rewrite Hc, (IH Hr). reflexivity.
Qed.

Lemma parse_unsigned_int ds :
  all_digits ds = true -> int_digits_ok ds = true -> parse_unsigned ds = Some (VInt (digits_val 0 ds)).
Proof. intros Ha Hi. unfold parse_unsigned. rewrite (span_all ds Ha), Hi. reflexivity. Qed.

Definition sign_chars (neg : bool) : lstr := if neg then ["-"%char] else [].

Lemma strip_sign_digit c r : is_digit c = true -> strip_sign (c :: r) = (false, c :: r).
Proof.
  intros Hc. unfold strip_sign. rewrite (digit_neq c (ch "-") Hc eq_refl), (digit_neq c (ch "+") Hc eq_refl). reflexivity.
Qed.

Lemma parse_unsigned_exp ds neg es c r :
  all_digits ds = true -> ds = c :: r -> all_digits es = true -> es <> [] ->
  (exists c' r', es = c' :: r' /\ is_digit c' = true) ->
  parse_unsigned (ds ++ "e"%char :: sign_chars neg ++ es) =
  Some (VDec (digits_val 0 ds) (if neg then - digits_val 0 es else digits_val 0 es)).
Proof.
  intros Ha -> He Hne (c' & r' & -> & Hc').
  unfold parse_unsigned. rewrite (span_app _ "e"%char _ Ha eq_refl).
  change (aeq "e"%char (ch ".")) with false. cbv iota beta.
  change (aeq "e"%char (ch "e")) with true. cbn [orb].
  assert (Hs : strip_sign (sign_chars neg ++ c' :: r') = (neg, c' :: r')).
  { destruct neg; simpl.
    - reflexivity.
    - apply strip_sign_digit; assumption. }
  rewrite Hs. rewrite He. rewrite app_nil_r. cbn [List.length Z.of_nat]. rewrite !Z.sub_0_r. reflexivity.
Qed.

Lemma digit_head_atom c r :
  is_digit c = true ->
  parse_atom (c :: r) = match parse_unsigned (c :: r) with Some v => Some v | None => None end.
Proof.
  intros Hc. unfold parse_atom, word_is.
  assert (W : forall w, is_digit (ch w) = false -> (string_of_list_ascii (c :: r) =? w)%string = false).
  { intros w Hw. destruct w as [|c0 w']; [reflexivity|]. simpl in *.
    pose proof (digit_neq c c0 Hc Hw) as N. unfold aeq in N. rewrite N. reflexivity. }
  rewrite !W by reflexivity.
  unfold parse_quoted. rewrite (digit_neq c (ch "'") Hc eq_refl), (digit_neq c """"%char Hc eq_refl). cbn [orb].
  unfold strip_sign. rewrite (digit_neq c (ch "-") Hc eq_refl), (digit_neq c (ch "+") Hc eq_refl). cbn [orb].
  reflexivity.
Qed.

Lemma minus_head_atom c r :
  is_digit c = true ->
  parse_atom ("-"%char :: c :: r) = match parse_unsigned (c :: r) with Some v => Some (negate v) | None => None end.
Proof.
  intros Hc. unfold parse_atom, word_is. cbn [string_of_list_ascii String.eqb Ascii.eqb Bool.eqb andb].
  cbv iota. cbn [parse_quoted aeq ch Ascii.eqb Bool.eqb andb orb strip_sign].
  cbv iota. cbn [ltrim]. rewrite (digit_not_space c Hc). reflexivity.
Qed.

Lemma parse_atom_zchars z tail v :
  (forall ms, (exists c r, ms = c :: r /\ is_digit c = true) -> all_digits ms = true ->
     int_digits_ok ms = true -> parse_unsigned (ms ++ tail) = Some (v (digits_val 0 ms))) ->
  (forall x, negate (v x) = v (- x)%Z) -> (z = 0%Z -> True) ->
  parse_atom (zchars z ++ tail) = Some (v z) \/ False.
Proof.
  intros Hp Hn _. left.
  destruct (mchars_ok z) as (Ha & Hi & Hv & c & r & Em & Hc).
  unfold zchars. destruct z as [|p|p].
  - rewrite Em in *. simpl app. rewrite (digit_head_atom c _ Hc).
    change (c :: r ++ tail) with ((c :: r) ++ tail). rewrite Hp by eauto. rewrite Hv. reflexivity.
  - rewrite Em in *. simpl app. rewrite (digit_head_atom c _ Hc).
    change (c :: r ++ tail) with ((c :: r) ++ tail). rewrite Hp by eauto. rewrite Hv. reflexivity.
  - rewrite Em in *. simpl app. rewrite (minus_head_atom c _ Hc).
    change (c :: r ++ tail) with ((c :: r) ++ tail). rewrite Hp by eauto. rewrite Hv, Hn. reflexivity.
Qed.

Lemma zchars_shape z : exists c r, zchars z = c :: r /\ (is_digit c = true \/ c = "-"%char) /\ nonspace (zchars z) = true.
Proof.
  destruct (mchars_ok z) as (Ha & _ & _ & c & r & Em & Hc).
  pose proof (all_digits_nonspace _ Ha) as Hn.
  unfold zchars. destruct z; rewrite Em in *; simpl; eauto 8.
Qed.

Lemma parse_lit_atom fuel c r :
  nonspace (c :: r) = true -> (is_digit c = true \/ c = "-"%char) ->
  parse_lit (S fuel) (c :: r) = parse_atom (c :: r).
Proof.
  intros Hn Hc. cbn [parse_lit]. rewrite (trim_nonspace _ Hn).
  destruct Hc as [Hc| ->].
  - rewrite (digit_neq c (ch "[") Hc eq_refl), (digit_neq c (ch "(") Hc eq_refl). reflexivity.
  - reflexivity.
Qed.

(* fuel-generic cores (also used for the elements of sequences, Proofs/KeysSeq.v) *)
Lemma parse_lit_int f z : parse_lit (S f) (list_ascii_of_string (render_int z)) = Some (VInt z).
Proof.
  rewrite render_int_chars.
  destruct (zchars_shape z) as (c & r & E & Hc & Hn).
  rewrite E in *. rewrite (parse_lit_atom _ c r Hn Hc). rewrite <- E.
  destruct (parse_atom_zchars z [] VInt) as [H|[]]; auto.
  - intros ms _ Ha Hi. rewrite app_nil_r. apply parse_unsigned_int; assumption.
  - rewrite app_nil_r in H. exact H.
Qed.

Lemma parse_lit_dec f m e :
  parse_lit (S f) (list_ascii_of_string (render_int m ++ "e" ++ render_int e)%string) = Some (VDec m e).
Proof.
  rewrite !list_ascii_app, !render_int_chars.
  change (list_ascii_of_string "e") with ["e"%char].
  destruct (zchars_shape m) as (c & r & E & Hc & Hn).
  destruct (zchars_shape e) as (ce & re & Ee & Hce & Hne).
  assert (Hall : nonspace (zchars m ++ ["e"%char] ++ zchars e) = true).
  { apply nonspace_app; [assumption|]. apply nonspace_app; [reflexivity|assumption]. }
  remember (zchars m ++ ["e"%char] ++ zchars e) as l eqn:El.
  assert (Hl : exists r', l = c :: r') by (subst l; rewrite E; simpl; eauto).
  destruct Hl as [r' Er]. rewrite Er in Hall |- *.
  rewrite (parse_lit_atom _ c r' Hall Hc). rewrite <- Er, El.
  destruct (mchars_ok e) as (Hae & _ & Hve & c2 & r2 & Eme & Hc2).
  destruct (parse_atom_zchars m (["e"%char] ++ zchars e) (fun x => VDec x e)) as [H|[]]; auto.
  intros ms (c1 & r1 & -> & Hc1) Ha _.
  assert (Hz : zchars e = sign_chars (match e with Zneg _ => true | _ => false end) ++ mchars e)
    by (destruct e; reflexivity).
  rewrite Hz. set (ng := match e with Zneg _ => true | _ => false end).
  change ((c1 :: r1) ++ ["e"%char] ++ sign_chars ng ++ mchars e)
    with ((c1 :: r1) ++ "e"%char :: sign_chars ng ++ mchars e).
  rewrite (parse_unsigned_exp (c1 :: r1) ng (mchars e) c1 r1); eauto.
  + rewrite Hve. subst ng. destruct e; simpl; reflexivity.
  + rewrite Eme. discriminate.
Qed.

Lemma eval_of_parse s v :
  parse_lit (S (List.length (list_ascii_of_string s))) (list_ascii_of_string s) = Some v -> eval_entry s = Ok v.
Proof. intros H. unfold eval_entry, literal_eval. rewrite H. reflexivity. Qed.

Lemma eval_int z : eval_entry (render_int z) = Ok (VInt z).
Proof. apply eval_of_parse, parse_lit_int. Qed.

Lemma eval_dec m e : eval_entry (render_int m ++ "e" ++ render_int e)%string = Ok (VDec m e).
Proof. apply eval_of_parse, parse_lit_dec. Qed.

(* the characters of a rendered number *)
Lemma zchars_nonspace z : nonspace (zchars z) = true.
Proof. destruct (zchars_shape z) as (_ & _ & _ & _ & H). exact H. Qed.

(* ------------------------------------------------------------------------------------ the round trip *)

Theorem literal_roundtrip : forall v, lit_wf v = true -> eval_entry (render_lit v) = Ok (lit_val v).
Proof.
  intros [z|m e|b| |s]; simpl.
  - intros _. apply eval_int.
  - intros _. apply eval_dec.
  - intros _. destruct b; vm_compute; reflexivity.
  - intros _. vm_compute. reflexivity.
  - apply eval_word.
Qed.
