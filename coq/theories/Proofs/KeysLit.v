(* C08 — eval_entry round trip on the scalar literals for which it is proved for all values:
   booleans and bare words.  (Integers/decimals and sequences are covered by correspondence only.) *)
From Coq Require Import ZArith List Bool String Ascii Lia.
From PyxelV Require Import Model.Keys.
Import ListNotations.
Open Scope string_scope.
Open Scope list_scope.

Lemma alpha_neq c q : is_alpha c = true -> is_alpha q = false -> aeq c q = false.
Proof.
  intros Hc Hq. unfold aeq. destruct (Ascii.eqb c q) eqn:E; auto.
  apply Ascii.eqb_eq in E. subst. congruence.
Qed.

Lemma alpha_not_digit c : is_alpha c = true -> is_digit c = false.
Proof. destruct c as [[] [] [] [] [] [] [] []]; vm_compute; congruence. Qed.

Lemma alpha_not_space c : is_alpha c = true -> is_space c = false.
Proof. destruct c as [[] [] [] [] [] [] [] []]; vm_compute; congruence. Qed.

Lemma all_alpha_no_char q l : is_alpha q = false -> all_alpha l = true -> no_char q l = true.
Proof.
  intros Hq. induction l as [|c r IH]; simpl; auto.
  intros H. apply andb_true_iff in H. destruct H as [Hc Hr].
  rewrite (alpha_neq c q Hc Hq). simpl. auto.
Qed.

Lemma all_alpha_rev l : all_alpha l = true -> all_alpha (rev l) = true.
Proof.
  induction l as [|c r IH]; simpl; auto. intros H. apply andb_true_iff in H. destruct H as [Hc Hr].
  assert (A : forall a b, all_alpha a = true -> all_alpha b = true -> all_alpha (a ++ b) = true).
  { induction a; simpl; auto. intros b H1 H2. apply andb_true_iff in H1. destruct H1. apply andb_true_iff. auto. }
  apply A; auto. simpl. rewrite Hc. reflexivity.
Qed.

Lemma ltrim_alpha l : all_alpha l = true -> ltrim l = l.
Proof.
  destruct l as [|c r]; simpl; auto. intros H. apply andb_true_iff in H. destruct H as [Hc _].
  rewrite (alpha_not_space c Hc). reflexivity.
Qed.

Lemma trim_alpha l : all_alpha l = true -> trim l = l.
Proof.
  intros H. unfold trim, rtrim. rewrite (ltrim_alpha l H).
  rewrite (ltrim_alpha (rev l) (all_alpha_rev l H)). apply rev_involutive.
Qed.

Lemma parse_lit_word fuel s :
  bare_word s = true -> parse_lit (S fuel) (list_ascii_of_string s) = None.
Proof.
  unfold bare_word. intros H.
  apply andb_true_iff in H. destruct H as [H Hn]. apply andb_true_iff in H. destruct H as [H Hf].
  apply andb_true_iff in H. destruct H as [Ha Ht].
  remember (list_ascii_of_string s) as l eqn:El.
  assert (Hs : string_of_list_ascii l = s) by (subst l; apply string_of_list_ascii_of_string).
  destruct l as [|c r]; [discriminate|].
  cbn [parse_lit]. rewrite (trim_alpha (c :: r) Ha).
  pose proof Ha as Ha'. simpl in Ha'. apply andb_true_iff in Ha'. destruct Ha' as [Hc Hr].
  rewrite (alpha_neq c (ch "[") Hc eq_refl), (alpha_neq c (ch "(") Hc eq_refl).
  unfold parse_atom, word_is. rewrite Hs.
  apply negb_true_iff in Ht, Hf, Hn. rewrite Ht, Hf, Hn.
  unfold parse_quoted.
  rewrite (alpha_neq c (ch "'") Hc eq_refl), (alpha_neq c """"%char Hc eq_refl). simpl orb. cbv iota.
  unfold strip_sign.
  rewrite (alpha_neq c (ch "-") Hc eq_refl), (alpha_neq c (ch "+") Hc eq_refl). simpl orb. cbv iota.
  rewrite ?(alpha_neq c "-"%char Hc eq_refl), ?(alpha_neq c "+"%char Hc eq_refl). simpl orb. cbv iota.
  unfold parse_unsigned. cbn [span_digits]. rewrite (alpha_not_digit c Hc).
  rewrite (alpha_neq c (ch ".") Hc eq_refl). reflexivity.
Qed.

Theorem literal_roundtrip_partial : forall v, lit_ok v = true -> eval_entry (render_lit v) = Ok (lit_val v).
Proof.
  intros [z|m e|b| |s]; simpl; try discriminate.
  - intros _. destruct b; vm_compute; reflexivity.
  - intros H. unfold eval_entry, literal_eval. rewrite (parse_lit_word _ s H).
    unfold bare_word in H.
    apply andb_true_iff in H. destruct H as [H _]. apply andb_true_iff in H. destruct H as [H _].
    apply andb_true_iff in H. destruct H as [Ha _].
    destruct (list_ascii_of_string s) as [|c r] eqn:El; [discriminate|].
    pose proof Ha as Ha'. simpl in Ha'. apply andb_true_iff in Ha'. destruct Ha' as [Hc Hr].
    rewrite (alpha_neq c (ch "'") Hc eq_refl), (alpha_neq c """"%char Hc eq_refl).
    rewrite andb_false_r.
    rewrite !(all_alpha_no_char _ (c :: r)) by (assumption || reflexivity). reflexivity.
Qed.
