(* C16: integers below 2^53 are binary64 numbers and bofZ converts them exactly (used by the SAR proofs). *)
From Coq Require Import ZArith List Bool Reals Lia Lra.
From Flocq Require Import Core BinarySingleNaN Ulp.
From PyxelV Require Import Lib.B64 Model.Adc Proofs.AdcChain Proofs.AdcFloat.
Import ListNotations.
Open Scope R_scope.

Notation fexp64 := (SpecFloat.fexp 53 1024).
Notation rnd := (round radix2 fexp64 ZnearestE).
Notation format := (generic_format radix2 fexp64).

#[local] Instance fexp64_valid' : Valid_exp fexp64 := fexp_correct 53 1024 _.
#[local] Instance fexp64_mono' : Monotone_exp fexp64 := fexp_monotone 53 1024.

Lemma format_F2R_small (m e : Z) : (Z.abs m < 2 ^ 53)%Z -> (-1074 <= e)%Z -> format (F2R (Float radix2 m e)).
Proof.
  intros Hm He. apply (generic_format_FLT radix2 (-1074) 53).
  apply (FLT_spec radix2 (-1074) 53 _ (Float radix2 m e)); [reflexivity| |exact He].
  simpl. exact Hm.
Qed.

Lemma format_IZR (z : Z) : (Z.abs z < 2 ^ 53)%Z -> format (IZR z).
Proof.
  intros H. replace (IZR z) with (F2R (Float radix2 z 0)).
  - apply format_F2R_small; [exact H|lia].
  - unfold F2R. simpl. ring.
Qed.

Lemma B2R_bofZ_exact (z : Z) :
  (Z.abs z < 2 ^ 53)%Z -> B2R (bofZ z) = IZR z.
Proof.
  intros H. unfold bofZ, mk.
  generalize (binary_normalize_correct 53 1024 _ _ mode_NE z 0 false). cbv zeta.
  assert (E : F2R (Float radix2 z 0) = IZR z) by (unfold F2R; simpl; ring).
  rewrite E. rewrite (round_generic radix2 fexp64 _ (IZR z) (format_IZR z H)).
  rewrite Rlt_bool_true.
  - intros [H1 _]. exact H1.
  - rewrite <- abs_IZR. apply Rlt_trans with (IZR (2 ^ 53)).
    + apply IZR_lt. exact H.
    + change (IZR (2 ^ 53)) with (bpow radix2 53). apply bpow_lt. lia.
Qed.
