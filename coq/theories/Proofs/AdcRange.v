(* C16: for resolutions up to 52 bits the simple converter never exceeds full scale, for ALL finite
   ranges and ALL non-NaN voltages.  (For 54..64 bits the statement is false: Proofs/AdcWitness.v.) *)
From Coq Require Import ZArith List Bool Reals Lia Lra.
From Flocq Require Import Core BinarySingleNaN Ulp.
From PyxelV Require Import Lib.B64 Model.Adc Proofs.AdcChain Proofs.AdcFloat.
Import ListNotations.
Open Scope R_scope.

Notation fexp64 := (SpecFloat.fexp 53 1024).
Notation rnd := (round radix2 fexp64 ZnearestE).
Notation format := (generic_format radix2 fexp64).

#[local] Instance fexp64_valid' : Valid_exp fexp64 := fexp_correct 53 1024 _.
#[local] Instance fexp64_mono' : Monotone_exp fexp64 := fexp_monotone 53 1024.

Lemma format_F2R_small (m e : Z) : (Z.abs m < 2 ^ 53)%Z -> (-1074 <= e)%Z -> format (F2R (Float radix2 m e)).
Proof.
  intros Hm He. apply (generic_format_FLT radix2 (-1074) 53).
  apply (FLT_spec radix2 (-1074) 53 _ (Float radix2 m e)); [reflexivity| |exact He].
  simpl. exact Hm.
Qed.

Lemma format_IZR (z : Z) : (Z.abs z < 2 ^ 53)%Z -> format (IZR z).
Proof.
  intros H. replace (IZR z) with (F2R (Float radix2 z 0)).
  - apply format_F2R_small; [exact H|lia].
  - unfold F2R. simpl. ring.
Qed.

Lemma B2R_bofZ_exact (z : Z) :
  (Z.abs z < 2 ^ 53)%Z -> B2R (bofZ z) = IZR z.
Proof.
  intros H. unfold bofZ, mk.
  generalize (binary_normalize_correct 53 1024 _ _ mode_NE z 0 false). cbv zeta.
  assert (E : F2R (Float radix2 z 0) = IZR z) by (unfold F2R; simpl; ring).
  rewrite E. rewrite (round_generic radix2 fexp64 _ (IZR z) (format_IZR z H)).
  rewrite Rlt_bool_true.
  - intros [H1 _]. exact H1.
  - rewrite <- abs_IZR. apply Rlt_trans with (IZR (2 ^ 53)).
    + apply IZR_lt. exact H.
    + change (IZR (2 ^ 53)) with (bpow radix2 53). apply bpow_lt. lia.
Qed.

(* the rounding error of S * M is at most S / 2 when M < 2^52 *)
Lemma round_scale_err (S : R) (bits : Z) :
  0 < S -> format S -> (1 <= bits <= 52)%Z ->
  rnd (S * IZR (2 ^ bits - 1)) <= S * IZR (2 ^ bits - 1) + S / 2.
Proof.
  intros PS FS Hb.
  set (M := IZR (2 ^ bits - 1)).
  assert (HM1 : 1 <= M).
  { unfold M. apply IZR_le. assert (2 ^ 1 <= 2 ^ bits)%Z by (apply Z.pow_le_mono_r; lia). lia. }
  assert (HM2 : M < bpow radix2 bits).
  { unfold M. rewrite minus_IZR. rewrite (IZR_Zpower radix2) by lia. simpl (IZR 1). lra. }
  set (z := S * M).
  assert (Pz : 0 < z) by (unfold z; nra).
  generalize (error_le_half_ulp radix2 fexp64 (fun x => negb (Z.even x)) z). fold z.
  rewrite ulp_neq_0 by lra. unfold cexp.
  intros Herr. apply Rabs_le_inv in Herr.
  assert (Hulp : bpow radix2 (fexp64 (mag radix2 z)) <= S).
  { assert (Hmag : (mag radix2 z <= mag radix2 S + bits)%Z).
    { apply mag_le_bpow; [lra|]. rewrite Rabs_pos_eq by lra. rewrite bpow_plus. unfold z.
      assert (S < bpow radix2 (mag radix2 S)).
      { generalize (bpow_mag_gt radix2 S). rewrite Rabs_pos_eq; lra. }
      assert (0 < bpow radix2 bits) by apply bpow_gt_0. nra. }
    unfold SpecFloat.fexp, SpecFloat.emin. apply Z.max_case_strong; intros Hc.
    - apply Rle_trans with (bpow radix2 (mag radix2 S - 1)).
      + apply bpow_le. lia.
      + generalize (bpow_mag_le radix2 S). rewrite Rabs_pos_eq by lra. intros T. apply T. lra.
    - apply (generic_format_ge_bpow radix2 fexp64 (3 - 1024 - 53)); [|exact PS|exact FS].
      intros e. unfold SpecFloat.fexp, SpecFloat.emin. lia. }
  lra.
Qed.

Lemma trunc_le_of_lt (r : b64) (M : Z) : 0 <= B2R r -> B2R r < IZR M + 1 -> (Btrunc r <= M)%Z.
Proof.
  intros H0 H1. assert (Btrunc r < M + 1)%Z; [|lia]. apply lt_IZR. rewrite plus_IZR. simpl (IZR 1).
  rewrite Btrunc_correct by reflexivity.
  apply Rle_lt_trans with (B2R r); [|exact H1].
  rewrite round_ZR_DN by (exact H0 || auto with typeclass_instances).
  apply round_DN_pt. auto with typeclass_instances.
Qed.

Section Range.
Variables (bits : Z) (vmin vmax : b64).
Hypothesis Hbits : (1 <= bits <= 52)%Z.
Hypothesis Fmin : is_finite vmin = true.
Hypothesis Fmax : is_finite vmax = true.
Hypothesis Hrange : B2R vmin < B2R vmax.

Theorem simple_range w (x : b64) c :
  bis_nan x = false ->
  simple_code w bits vmin vmax x = Some c ->
  (0 <= c <= 2 ^ bits - 1)%Z.
Proof.
  intros Nx Hc. split.
  { unfold simple_code, cast_unsigned in Hc. destruct (btruncZ _) as [v|]; [|discriminate].
    destruct (0 <=? v)%Z eqn:E; simpl in Hc; [|discriminate].
    destruct (v <? 2 ^ w)%Z; [|discriminate]. inversion Hc; subst. now apply Z.leb_le. }
  apply simple_code_inv in Hc. destruct Hc as [F ->].
  assert (Hb0 : (0 <= bits)%Z) by lia.
  assert (PM : (0 < 2 ^ bits)%Z) by (apply Z.pow_pos_nonneg; lia).
  destruct (span_cases vmin vmax Fmin Fmax Hrange) as [[FS PS]|[s ES]].
  2:{ rewrite (scaled_inf_span bits vmin vmax x s ES F). lia. }
  set (S := bsub vmax vmin) in *.
  pose proof (scaled_value bits vmin vmax Fmin Fmax Hrange x Nx FS PS F) as E. fold S in E.
  assert (ES : B2R S = rnd (B2R vmax - B2R vmin)) by (apply bsub_finite_inv; assumption).
  assert (EM : B2R (bofZ (2 ^ bits - 1)) = IZR (2 ^ bits - 1)).
  { apply B2R_bofZ_exact. assert (2 ^ bits <= 2 ^ 52)%Z by (apply Z.pow_le_mono_r; lia).
    assert (2 ^ 52 < 2 ^ 53)%Z by (apply Z.pow_lt_mono_r; lia). lia. }
  rewrite EM in E.
  set (M := IZR (2 ^ bits - 1)) in *.
  assert (HM0 : 0 <= M) by (unfold M; apply IZR_le; lia).
  set (cl := clampX (B2R vmin) (B2R vmax) x) in *.
  assert (Hcl : B2R vmin <= cl <= B2R vmax) by (apply clampX_range; lra).
  set (r1 := rnd (cl - B2R vmin)) in *.
  assert (H1 : 0 <= r1 <= B2R S).
  { split; [apply rnd_nonneg; lra|]. rewrite ES. apply rnd_le. lra. }
  set (r2 := rnd (r1 * M)) in *.
  assert (H2 : 0 <= r2 <= B2R S * M + B2R S / 2).
  { split; [apply rnd_nonneg; nra|].
    apply Rle_trans with (rnd (B2R S * M)); [apply rnd_le; nra|].
    apply round_scale_err; [exact PS|apply generic_format_B2R|exact Hbits]. }
  assert (H3 : 0 <= r2 / B2R S <= M + / 2).
  { split.
    - apply Rmult_le_pos; [lra|]. apply Rlt_le, Rinv_0_lt_compat, PS.
    - apply Rmult_le_reg_r with (B2R S); [exact PS|]. unfold Rdiv. rewrite Rmult_assoc, Rinv_l by lra. lra. }
  assert (FH : format (M + / 2)).
  { replace (M + / 2) with (F2R (Float radix2 (2 * (2 ^ bits - 1) + 1) (-1))).
    - apply format_F2R_small; [|lia].
      assert (2 ^ bits <= 2 ^ 52)%Z by (apply Z.pow_le_mono_r; lia).
      change (2 ^ 53)%Z with (2 * 2 ^ 52)%Z. lia.
    - unfold F2R, M. cbn [Fnum Fexp]. generalize (2 ^ bits - 1)%Z. intros k.
      rewrite plus_IZR, mult_IZR. change (bpow radix2 (-1)) with (/ 2). lra. }
  apply trunc_le_of_lt; rewrite E.
  - apply rnd_nonneg. tauto.
  - fold M. apply Rle_lt_trans with (M + / 2); [|lra].
    rewrite <- (round_generic radix2 fexp64 ZnearestE (M + / 2) FH). apply rnd_le. tauto.
Qed.

End Range.
