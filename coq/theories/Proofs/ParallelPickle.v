(* C07 — round 2b: what a worker receives.  A task of the process pool works on what a pickle round trip of the
   processor restores; the hooks of the code (regenerated rows) decide whether that is the caller's pipeline. *)
From Coq Require Import String.
From Coq Require Import ZArith List Bool Lia PeanoNat.
From PyxelV Require Import Model.Parallel.
Import ListNotations.

Lemma rebuild_full kept m :
  has_field FFunc kept = true -> has_field FName kept = true -> has_field FArgs kept = true ->
  has_field FEnabled kept = true -> rebuild kept m = Some m.
Proof. intros H1 H2 H3 H4. unfold rebuild. rewrite H1, H2, H3, H4. now destruct m. Qed.

Lemma rebuild_all_full kept ms :
  has_field FFunc kept = true -> has_field FName kept = true -> has_field FArgs kept = true ->
  has_field FEnabled kept = true -> rebuild_all kept ms = Some ms.
Proof.
  intros H1 H2 H3 H4. induction ms as [|m r IH]; simpl; [reflexivity|].
  now rewrite (rebuild_full kept m H1 H2 H3 H4), IH.
Qed.

Lemma restore_models_faithful r ms : models_faithful r = true -> restore_models r ms = Some ms.
Proof.
  destruct r as [| |kept|]; simpl; try discriminate; try reflexivity.
  intros H. repeat (apply andb_true_iff in H as [H ?]). now apply rebuild_all_full.
Qed.

Lemma attr_faithful_survives r : attr_faithful r = true -> attr_survives r = true.
Proof. destruct r; simpl; congruence. Qed.

Lemma row_faithful_survives h : row_faithful h = true -> forallb (fun ar => attr_survives (snd ar)) (hk_attrs h) = true.
Proof.
  unfold row_faithful. intros H. apply andb_true_iff in H as [H _]. rewrite forallb_forall in *.
  intros ar Har. apply attr_faithful_survives. now apply H.
Qed.

Lemma hooks_faithful_survive hooks : hooks_faithful hooks = true -> hooks_survive hooks = true.
Proof.
  unfold hooks_faithful, hooks_survive. rewrite !forallb_forall. intros H h Hh. apply row_faithful_survives. now apply H.
Qed.

Lemma hooks_faithful_models hooks : hooks_faithful hooks = true -> models_faithful (models_restore hooks) = true.
Proof.
  induction hooks as [|h t IH]; simpl; [reflexivity|]. intros H. apply andb_true_iff in H as [Hh Ht].
  unfold row_faithful in Hh. apply andb_true_iff in Hh as [_ Hm].
  destruct (String.eqb (hk_class h) "ModelGroup"); [exact Hm|now apply IH].
Qed.

Lemma hooks_faithful_applied hooks pk : hooks_faithful hooks = true -> hooks_faithful (hooks_applied hooks pk) = true.
Proof.
  unfold hooks_applied, hooks_faithful. destruct pk; [trivial|]. rewrite !forallb_forall. intros H h Hh.
  apply filter_In in Hh as [Hh _]. now apply H.
Qed.

(* faithful hooks: whatever the transport, the worker's pipeline is the caller's *)
Lemma worker_models_faithful hooks :
  hooks_faithful hooks = true -> forall pk ms, worker_models hooks pk ms = Some ms.
Proof.
  intros H pk ms. unfold worker_models. pose proof (hooks_faithful_applied hooks pk H) as Ha.
  rewrite (hooks_faithful_survive _ Ha). apply restore_models_faithful. now apply hooks_faithful_models.
Qed.

(* a class with a __deepcopy__ of its own: its hooks play no part in a deep copy *)
Lemma worker_models_direct hooks ms :
  forallb hk_deepcopy hooks = true -> worker_models hooks false ms = Some ms.
Proof.
  intros H. unfold worker_models, hooks_applied.
  assert (E : filter (fun h => negb (hk_deepcopy h)) hooks = []).
  { induction hooks as [|h t IH]; simpl in *; [reflexivity|]. apply andb_true_iff in H as [Hh Ht].
    rewrite Hh. simpl. now apply IH. }
  rewrite E. reflexivity.
Qed.

(* ------------------------------------------------------------------ a definition that forgets `enabled` *)

Lemma executed_length_le ms : length (executed ms) <= length ms.
Proof.
  unfold executed. rewrite map_length. induction ms as [|m r IH]; simpl; [lia|].
  destruct (mi_enabled m); simpl; lia.
Qed.

Lemma executed_length_lt ms :
  existsb (fun m => negb (mi_enabled m)) ms = true -> length (executed ms) < length ms.
Proof.
  unfold executed. rewrite map_length. induction ms as [|m r IH]; simpl; [discriminate|].
  intros H. apply orb_true_iff in H as [H|H].
  - apply negb_true_iff in H. rewrite H. pose proof (executed_length_le r) as L.
    unfold executed in L. rewrite map_length in L. lia.
  - specialize (IH H). destruct (mi_enabled m); simpl; lia.
Qed.

Lemma rebuild_all_no_enabled kept ms :
  has_field FFunc kept = true -> has_field FName kept = true -> has_field FArgs kept = true ->
  has_field FEnabled kept = false ->
  rebuild_all kept ms = Some (map (fun m => mkMI (mi_ident m) true) ms).
Proof.
  intros H1 H2 H3 H4. induction ms as [|m r IH]; simpl; [reflexivity|].
  unfold rebuild at 1. now rewrite H1, H2, H3, H4, IH.
Qed.

Lemma executed_all_enabled ms : executed (map (fun m => mkMI (mi_ident m) true) ms) = map mi_ident ms.
Proof. unfold executed. induction ms as [|m r IH]; simpl; [reflexivity|]. now f_equal. Qed.

(* every model of the restored group runs: as soon as ONE model is switched off, the worker's run differs *)
Lemma rebuild_without_enabled kept ms :
  has_field FFunc kept = true -> has_field FName kept = true -> has_field FArgs kept = true ->
  has_field FEnabled kept = false ->
  exists ms', restore_models (ARebuilt kept) ms = Some ms'
              /\ executed ms' = map mi_ident ms
              /\ (existsb (fun m => negb (mi_enabled m)) ms = true -> executed ms' <> executed ms).
Proof.
  intros H1 H2 H3 H4. exists (map (fun m => mkMI (mi_ident m) true) ms). split; [|split].
  - simpl. now apply rebuild_all_no_enabled.
  - apply executed_all_enabled.
  - intros Hd E. rewrite executed_all_enabled in E. apply executed_length_lt in Hd.
    rewrite <- E, map_length in Hd. lia.
Qed.

(* a definition without func or name cannot be rebuilt at all *)
Lemma rebuild_needs_func_name kept m ms :
  has_field FFunc kept && has_field FName kept = false -> rebuild_all kept (m :: ms) = None.
Proof. intros H. simpl. unfold rebuild. now rewrite H. Qed.

(* ------------------------------------------------------------------ attribute stores *)

Lemma existsb_eqb_In a l : existsb (String.eqb a) l = true <-> In a l.
Proof.
  rewrite existsb_exists. split.
  - intros [x [Hx E]]. apply String.eqb_eq in E. now subst.
  - intros H. exists a. split; [assumption|apply String.eqb_refl].
Qed.

Lemma unpickle_all {V} restored (o : list (string * V)) :
  (forall a, In a (map fst o) -> In a restored) -> unpickle_obj restored o = o.
Proof.
  intros H. unfold unpickle_obj. induction o as [|[a v] r IH]; simpl; [reflexivity|].
  assert (E : existsb (String.eqb a) restored = true) by (apply existsb_eqb_In, H; now left).
  rewrite E. f_equal. apply IH. intros b Hb. apply H. now right.
Qed.

Lemma unpickle_lost {V} restored (o : list (string * V)) a :
  ~ In a restored -> ~ In a (map fst (unpickle_obj restored o)).
Proof.
  intros Hn Hin. apply in_map_iff in Hin as [[b v] [E Hin]]. simpl in E. subst b.
  unfold unpickle_obj in Hin. apply filter_In in Hin as [_ Hin]. simpl in Hin.
  apply existsb_eqb_In in Hin. contradiction.
Qed.

Lemma unpickle_kept {V} restored (o : list (string * V)) a v :
  In a restored -> In (a, v) o -> In (a, v) (unpickle_obj restored o).
Proof.
  intros Hr Hin. unfold unpickle_obj. apply filter_In. split; [assumption|]. simpl. now apply existsb_eqb_In.
Qed.
