(* C11: the model of the problem object (constructor check + slicing + weights + accumulation loop) meets
   the specification spec_fit, outside the input classes of the open findings. *)
From Coq Require Import ZArith QArith List Bool Lia ZifyBool.
From PyxelV Require Import Model.Fitness Proofs.FitnessChecker Proofs.FitnessSum.
Import ListNotations.
Open Scope Z_scope.
Local Arguments Z.eqb : simpl never.
Local Arguments Z.leb : simpl never.
Local Arguments Z.sub : simpl never.
Local Arguments Z.add : simpl never.

(* ------------------------------------------------------------------ shapes of restricted arrays *)
Definition ext (n : nat) (s : sl) : nat :=
  Z.to_nat (snd (resolve (Z.of_nat n) s) - fst (resolve (Z.of_nat n) s)).

Lemma slice1_length : forall {A} (s : sl) (l : list A),
  sl_inside (Z.of_nat (length l)) s = true -> length (slice1 s l) = ext (length l) s.
Proof.
  intros A [a b] l H. unfold ext, slice1, sl_inside, resolve in *. cbn [fst snd] in *.
  set (n := Z.of_nat (length l)) in *.
  assert (Ha : norm_idx n (dflt 0 a) = dflt 0 a) by (unfold norm_idx; destruct (dflt 0 a <? 0) eqn:E; lia).
  assert (Hb : norm_idx n (dflt n b) = dflt n b) by (unfold norm_idx; destruct (dflt n b <? 0) eqn:E; lia).
  rewrite Ha, Hb. rewrite firstn_length, skipn_length. unfold n in *. lia.
Qed.

Lemma In_firstn : forall {A} n (l : list A) x, In x (firstn n l) -> In x l.
Proof. intros A n l x H. rewrite <- (firstn_skipn n l). apply in_or_app. left. exact H. Qed.
Lemma In_skipn : forall {A} n (l : list A) x, In x (skipn n l) -> In x l.
Proof. intros A n l x H. rewrite <- (firstn_skipn n l). apply in_or_app. right. exact H. Qed.

Lemma In_slice1 : forall {A} (s : sl) (l : list A) x, In x (slice1 s l) -> In x l.
Proof.
  intros A s l x H. unfold slice1 in H.
  apply In_firstn in H. apply In_skipn in H. exact H.
Qed.

(* shape of a rectangular array restricted by slices that lie inside it *)
Definition sliced_shape (T R C : nat) (t r c : sl) : list nat :=
  [ ext T t; if Nat.eqb (ext T t) 0 then 0%nat else ext R r;
    if Nat.eqb (ext T t) 0 || Nat.eqb (ext R r) 0 then 0%nat else ext C c ].

Lemma shape3_slice3 : forall T R C t r c f,
  rect3b T R C f = true ->
  sl_inside (Z.of_nat T) t = true -> sl_inside (Z.of_nat R) r = true -> sl_inside (Z.of_nat C) c = true ->
  shape3 (slice3 t r c f) = sliced_shape T R C t r c.
Proof.
  intros T R C t r c f Hr Ht Hrr Hc. unfold rect3b in Hr. apply andb_prop in Hr. destruct Hr as [HT Hall].
  apply Nat.eqb_eq in HT. rewrite forallb_forall in Hall.
  unfold shape3, slice3, sliced_shape.
  rewrite map_length. rewrite slice1_length by (rewrite HT; exact Ht). rewrite HT.
  destruct (slice1 t f) as [|p ps] eqn:E.
  - assert (H0 : ext T t = 0%nat) by (rewrite <- HT, <- slice1_length by (rewrite HT; exact Ht); rewrite E; reflexivity).
    rewrite H0. reflexivity.
  - assert (Hlen : ext T t = S (length ps))
      by (rewrite <- HT, <- slice1_length by (rewrite HT; exact Ht); rewrite E; reflexivity).
    rewrite Hlen. cbn [Nat.eqb orb map hd].
    assert (Hp : In p f) by (apply (In_slice1 t); rewrite E; left; reflexivity).
    specialize (Hall p Hp). apply andb_prop in Hall. destruct Hall as [HR Hrows].
    apply Nat.eqb_eq in HR. rewrite forallb_forall in Hrows.
    unfold slice2. rewrite map_length. rewrite slice1_length by (rewrite HR; exact Hrr). rewrite HR.
    f_equal. f_equal.
    destruct (slice1 r p) as [|q qs] eqn:E2.
    + assert (H0 : ext R r = 0%nat) by (rewrite <- HR, <- slice1_length by (rewrite HR; exact Hrr); rewrite E2; reflexivity).
      rewrite H0. reflexivity.
    + assert (Hlen2 : ext R r = S (length qs))
        by (rewrite <- HR, <- slice1_length by (rewrite HR; exact Hrr); rewrite E2; reflexivity).
      rewrite Hlen2. cbn [Nat.eqb map hd].
      assert (Hq : In q p) by (apply (In_slice1 r); rewrite E2; left; reflexivity).
      specialize (Hrows q Hq). apply Nat.eqb_eq in Hrows.
      rewrite slice1_length by (rewrite Hrows; exact Hc). rewrite Hrows. reflexivity.
Qed.

Lemma shape_eqb_refl : forall l, shape_eqb l l = true.
Proof. induction l as [|x r IH]; [reflexivity|]. cbn. rewrite Nat.eqb_refl. exact IH. Qed.

(* ------------------------------------------------------------------ one dimension: verdict vs. dim_ok *)
Ltac split_ifs :=
  repeat match goal with
         | |- context [if ?b then _ else _] => destruct b eqn:?
         | H : context [if ?b then _ else _] |- _ => destruct b eqn:?
         end.

Lemma verdict_dim : forall nt nd t o,
  frame_dim_ok nt nd o = true ->
  (dim_verdict nt nd t o = MustAccept /\ dim_ok nt t o = true /\ sl_inside nt t = true
   /\ snd (resolve nt t) - fst (resolve nt t) = snd (resolve nd o) - fst (resolve nd o))
  \/ (dim_verdict nt nd t o = MustReject /\ dim_ok nt t o = false).
Proof.
  intros nt nd [ta tz] [oa oz] H. unfold frame_dim_ok, stop_given, sl_inside, dim_verdict, dim_ok, sl_inside, resolve in *.
  cbn [fst snd] in *.
  destruct ta as [ta|], tz as [tz|], oa as [oa|], oz as [oz|]; cbn [dflt] in *; split_ifs;
    try (left; repeat split; try reflexivity; lia); try (right; split; try reflexivity; lia); exfalso; lia.
Qed.

(* ------------------------------------------------------------------ restricted result and target agree in shape *)
Lemma shapes_agree_ok : forall (sims tgts : list frame3) dT dR dC tT tR tC ot orow ocol tm tr tc,
  (forall s, In s sims -> rect3b dT dR dC s = true) ->
  (forall t, In t tgts -> rect3b tT tR tC t = true) ->
  sl_inside (Z.of_nat dT) ot = true -> sl_inside (Z.of_nat dR) orow = true -> sl_inside (Z.of_nat dC) ocol = true ->
  sl_inside (Z.of_nat tT) tm = true -> sl_inside (Z.of_nat tR) tr = true -> sl_inside (Z.of_nat tC) tc = true ->
  ext tT tm = ext dT ot -> ext tR tr = ext dR orow -> ext tC tc = ext dC ocol ->
  forallb (fun st : frame3 * frame3 => let '(s, t) := st in
           shape_eqb (shape3 (slice3 ot orow ocol s)) (shape3 t))
          (combine sims (map (slice3 tm tr tc) tgts)) = true.
Proof.
  intros sims tgts dT dR dC tT tR tC ot orow ocol tm tr tc Hs Ht I1 I2 I3 I4 I5 I6 E1 E2 E3.
  apply forallb_forall. intros [s t] Hin.
  pose proof (in_combine_l _ _ _ _ Hin) as Hsin. pose proof (in_combine_r _ _ _ _ Hin) as Htin.
  apply in_map_iff in Htin. destruct Htin as [t0 [Et Ht0]]. subst t.
  rewrite (shape3_slice3 dT dR dC) by auto. rewrite (shape3_slice3 tT tR tC) by auto.
  unfold sliced_shape. rewrite E1, E2, E3. apply shape_eqb_refl.
Qed.

Lemma ext_eq : forall nt nd t o,
  snd (resolve (Z.of_nat nt) t) - fst (resolve (Z.of_nat nt) t) = snd (resolve (Z.of_nat nd) o) - fst (resolve (Z.of_nat nd) o) ->
  ext nt t = ext nd o.
Proof. intros. unfold ext. rewrite H. reflexivity. Qed.

Lemma forallb_In : forall {A} (f : A -> bool) l, forallb f l = true -> forall x, In x l -> f x = true.
Proof. intros A f l H. apply forallb_forall. exact H. Qed.

Lemma in_domain_times : forall t o r c n tm,
  in_domain t o r c (Some n) = true -> (tm = None \/ tm = Some n) -> in_domain t o r c tm = true.
Proof.
  intros t o r c n tm H [E | E]; subst tm; [|exact H].
  unfold in_domain in *. cbn [wf_times] in *. rewrite andb_true_r. apply andb_prop in H. apply H.
Qed.

(* ------------------------------------------------------------------ the theorem *)
Theorem model_meets_spec : forall c sims e,
  fc_bypass c = false ->
  (length (fc_tgts c) <= length sims)%nat ->
  frame_covers c sims = true -> time_2d_ok c sims = true ->
  spec_fit c sims = Some e ->
  model_fit coded_checker coded_calls coded_wconf c sims = e.
Proof.
  intros c sims e Hb Hl Hf Ht2 Hs.
  unfold spec_fit in Hs.
  destruct (in_domain (fc_trng c) (fc_orng c) (shape_dim (tshape c) DRow) (shape_dim (tshape c) DCol)
                      (Some (shape_dim (tshape c) DTime)) && uniform c sims) eqn:Hdu; cbn [negb] in Hs; [|discriminate].
  apply andb_prop in Hdu. destruct Hdu as [Hd Hu].
  (* shapes *)
  set (tsh := tshape c) in *. set (dsh := dshape sims) in *.
  unfold uniform in Hu. fold tsh dsh in Hu.
  assert (Hrt : forall t, In t (fc_tgts c) -> rect3b (nth 0 tsh 0%nat) (nth 1 tsh 0%nat) (nth 2 tsh 0%nat) t = true).
  { apply forallb_In. change (forallb (rect_sh tsh) (fc_tgts c) = true).
    destruct (forallb (rect_sh tsh) (fc_tgts c)) eqn:E; [reflexivity|]. cbn in Hu. discriminate. }
  assert (Hrs : forall s, In s sims -> rect3b (nth 0 dsh 0%nat) (nth 1 dsh 0%nat) (nth 2 dsh 0%nat) s = true).
  { apply forallb_In. change (forallb (rect_sh dsh) sims = true).
    destruct (forallb (rect_sh dsh) sims) eqn:E; [reflexivity|].
    rewrite andb_false_r in Hu. cbn in Hu. discriminate. }
  clear Hu.
  (* the result range is 3-D *)
  assert (Ho3 : is3d (fc_orng c) = true).
  { unfold in_domain in Hd. destruct (is3d (fc_orng c)); [reflexivity|]. rewrite ?andb_false_r in Hd. cbn in Hd. discriminate. }
  destruct (fc_orng c) as [? ? | ot orow ocol] eqn:Eo; [discriminate|]. clear Ho3.
  unfold frame_covers in Hf. rewrite Eo in Hf. cbn [out_slices] in Hf. fold tsh dsh in Hf.
  apply andb_prop in Hf. destruct Hf as [Hf Hfc]. apply andb_prop in Hf. destruct Hf as [Hft Hfr].
  unfold shape_dim, nth_shape, dim_ix in Hft, Hfr, Hfc.
  (* the three dimensions, with the target's time axis taken whole by a 2-D target range *)
  assert (Main : forall tm tr tc,
    out_slices (fc_trng c) = (tm, tr, tc) ->
    (is3d (fc_trng c) = true -> fc_multi c = true) ->
    dim_verdict (Z.of_nat (nth 0 tsh 0%nat)) (Z.of_nat (nth 0 dsh 0%nat)) tm ot = MustAccept \/ is3d (fc_trng c) = true ->
    (ctor_check coded_checker coded_calls c sims = Accept <->
       (is3d (fc_trng c) = false \/ dim_ok (Z.of_nat (nth 0 tsh 0%nat)) tm ot = true)
       /\ dim_ok (Z.of_nat (nth 1 tsh 0%nat)) tr orow = true /\ dim_ok (Z.of_nat (nth 2 tsh 0%nat)) tc ocol = true) ->
    match vand (dim_verdict (Z.of_nat (nth 0 tsh 0%nat)) (Z.of_nat (nth 0 dsh 0%nat)) tm ot)
               (vand (dim_verdict (Z.of_nat (nth 1 tsh 0%nat)) (Z.of_nat (nth 1 dsh 0%nat)) tr orow)
                     (dim_verdict (Z.of_nat (nth 2 tsh 0%nat)) (Z.of_nat (nth 2 dsh 0%nat)) tc ocol)) with
    | MustAccept => Some (fobs_of (declared_sum (term_declared c) sims (fc_tgts c)))
    | MustReject => Some OCtor
    | DontCare => None
    end = Some e ->
    model_fit coded_checker coded_calls coded_wconf c sims = e).
  { intros tm tr tc Eos H3m Htime Hck Hv.
    destruct (verdict_dim (Z.of_nat (nth 0 tsh 0%nat)) (Z.of_nat (nth 0 dsh 0%nat)) tm ot Hft) as [[V0 [K0 [I0 X0]]] | [V0 K0]];
    destruct (verdict_dim (Z.of_nat (nth 1 tsh 0%nat)) (Z.of_nat (nth 1 dsh 0%nat)) tr orow Hfr) as [[V1 [K1 [I1 X1]]] | [V1 K1]];
    destruct (verdict_dim (Z.of_nat (nth 2 tsh 0%nat)) (Z.of_nat (nth 2 dsh 0%nat)) tc ocol Hfc) as [[V2 [K2 [I2 X2]]] | [V2 K2]];
    rewrite V0, V1, V2 in Hv; cbn [vand] in Hv; inversion Hv; subst e; clear Hv.
    - (* accepted: the value *)
      assert (Hacc : ctor_check coded_checker coded_calls c sims = Accept).
      { apply Hck. repeat split; auto. }
      unfold model_fit. rewrite Hb, Hacc.
      destruct (is3d (fc_trng c)) eqn:E3.
      + rewrite (H3m eq_refl). cbn [coded_wconf wc_time_key andb negb].
        rewrite Eos.
        replace (weights_kept coded_wconf c) with (fc_w c)
          by (unfold weights_kept, coded_wconf; cbn; destruct (fc_multi c); reflexivity).
        rewrite Eo. cbn [wc_shape coded_wconf out_slices].
        rewrite (shapes_agree_ok sims (fc_tgts c) _ _ _ _ _ _ ot orow ocol tm tr tc Hrs Hrt); auto;
          try (apply ext_eq; assumption);
          try (unfold frame_dim_ok in *; match goal with H : _ && _ = true |- _ => apply andb_prop in H; apply H end).
        cbn [negb orb]. f_equal.
        rewrite loop_is_declared by (rewrite map_length; exact Hl).
        unfold declared_sum. apply declared_from_map.
        intros k s t. pose proof (term_coded_is_declared c k s t) as HT. rewrite Eos in HT. exact HT.
      + cbn [andb]. rewrite Eos.
        replace (weights_kept coded_wconf c) with (fc_w c)
          by (unfold weights_kept, coded_wconf; cbn; destruct (fc_multi c); reflexivity).
        rewrite Eo. cbn [wc_shape coded_wconf out_slices].
        rewrite (shapes_agree_ok sims (fc_tgts c) _ _ _ _ _ _ ot orow ocol tm tr tc Hrs Hrt); auto;
          try (apply ext_eq; assumption);
          try (unfold frame_dim_ok in *; match goal with H : _ && _ = true |- _ => apply andb_prop in H; apply H end).
        cbn [negb orb]. f_equal.
        rewrite loop_is_declared by (rewrite map_length; exact Hl).
        unfold declared_sum. apply declared_from_map.
        intros k s t. pose proof (term_coded_is_declared c k s t) as HT. rewrite Eos in HT. exact HT.
    - (* columns differ: refused *)
      assert (Hrej : ctor_check coded_checker coded_calls c sims <> Accept).
      { intro A. apply Hck in A. destruct A as [_ [_ A]]. congruence. }
      unfold model_fit. rewrite Hb.
      destruct (is3d (fc_trng c) && negb (wc_time_key coded_wconf && fc_multi c)); [reflexivity|].
      rewrite Eos. destruct (ctor_check coded_checker coded_calls c sims); [contradiction | reflexivity | reflexivity].
    - assert (Hrej : ctor_check coded_checker coded_calls c sims <> Accept).
      { intro A. apply Hck in A. destruct A as [_ [A _]]. congruence. }
      unfold model_fit. rewrite Hb.
      destruct (is3d (fc_trng c) && negb (wc_time_key coded_wconf && fc_multi c)); [reflexivity|].
      rewrite Eos. destruct (ctor_check coded_checker coded_calls c sims); [contradiction | reflexivity | reflexivity].
    - assert (Hrej : ctor_check coded_checker coded_calls c sims <> Accept).
      { intro A. apply Hck in A. destruct A as [_ [A _]]. congruence. }
      unfold model_fit. rewrite Hb.
      destruct (is3d (fc_trng c) && negb (wc_time_key coded_wconf && fc_multi c)); [reflexivity|].
      rewrite Eos. destruct (ctor_check coded_checker coded_calls c sims); [contradiction | reflexivity | reflexivity].
    - (* time differs: only possible for a 3-D target range *)
      destruct Htime as [Htime | H3]; [congruence|].
      assert (Hrej : ctor_check coded_checker coded_calls c sims <> Accept).
      { intro A. apply Hck in A. destruct A as [[A | A] _]; congruence. }
      unfold model_fit. rewrite Hb.
      destruct (is3d (fc_trng c) && negb (wc_time_key coded_wconf && fc_multi c)); [reflexivity|].
      rewrite Eos. destruct (ctor_check coded_checker coded_calls c sims); [contradiction | reflexivity | reflexivity].
    - destruct Htime as [Htime | H3]; [congruence|].
      assert (Hrej : ctor_check coded_checker coded_calls c sims <> Accept).
      { intro A. apply Hck in A. destruct A as [[A | A] _]; congruence. }
      unfold model_fit. rewrite Hb.
      destruct (is3d (fc_trng c) && negb (wc_time_key coded_wconf && fc_multi c)); [reflexivity|].
      rewrite Eos. destruct (ctor_check coded_checker coded_calls c sims); [contradiction | reflexivity | reflexivity].
    - destruct Htime as [Htime | H3]; [congruence|].
      assert (Hrej : ctor_check coded_checker coded_calls c sims <> Accept).
      { intro A. apply Hck in A. destruct A as [[A | A] _]; congruence. }
      unfold model_fit. rewrite Hb.
      destruct (is3d (fc_trng c) && negb (wc_time_key coded_wconf && fc_multi c)); [reflexivity|].
      rewrite Eos. destruct (ctor_check coded_checker coded_calls c sims); [contradiction | reflexivity | reflexivity].
    - destruct Htime as [Htime | H3]; [congruence|].
      assert (Hrej : ctor_check coded_checker coded_calls c sims <> Accept).
      { intro A. apply Hck in A. destruct A as [[A | A] _]; congruence. }
      unfold model_fit. rewrite Hb.
      destruct (is3d (fc_trng c) && negb (wc_time_key coded_wconf && fc_multi c)); [reflexivity|].
      rewrite Eos. destruct (ctor_check coded_checker coded_calls c sims); [contradiction | reflexivity | reflexivity].
  }
  (* the constructor's call, as a call of the checker on the target's sizes *)
  assert (Hcc : ctor_check coded_checker coded_calls c sims =
                check coded_checker (Some (fc_trng c)) (Some (FR3 ot orow ocol))
                      (Z.of_nat (nth 1 tsh 0%nat)) (Z.of_nat (nth 2 tsh 0%nat))
                      (if fc_multi c then Some (Z.of_nat (nth 0 tsh 0%nat)) else None)).
  { unfold ctor_check. rewrite Eo. fold tsh dsh. destruct (fc_multi c); reflexivity. }
  assert (Hdec : forall tm, (tm = None \/ tm = Some (Z.of_nat (nth 0 tsh 0%nat))) ->
     (check coded_checker (Some (fc_trng c)) (Some (FR3 ot orow ocol)) (Z.of_nat (nth 1 tsh 0%nat)) (Z.of_nat (nth 2 tsh 0%nat)) tm = Accept
      <-> spec_ok (fc_trng c) (FR3 ot orow ocol) (Z.of_nat (nth 1 tsh 0%nat)) (Z.of_nat (nth 2 tsh 0%nat)) tm = true)).
  { intros tm Htm.
    assert (D : in_domain (fc_trng c) (FR3 ot orow ocol) (Z.of_nat (nth 1 tsh 0%nat)) (Z.of_nat (nth 2 tsh 0%nat)) tm = true).
    { try rewrite Eo in Hd. unfold shape_dim, nth_shape, dim_ix in Hd.
      apply (in_domain_times _ _ _ _ _ tm Hd). exact Htm. }
    split; [apply coded_sound | apply coded_complete]; exact D. }
  unfold fit_verdict in Hs. rewrite Eo in Hs. fold tsh dsh in Hs. unfold shape_dim, nth_shape, dim_ix in Hs.
  destruct (fc_trng c) as [tr tc | tm tr tc] eqn:Et.
  - (* 2-D target range *)
    apply (Main (None, None) tr tc).
    + try rewrite Et. reflexivity.
    + try rewrite Et. discriminate.
    + left. unfold time_2d_ok in Ht2. try rewrite Et in Ht2. try rewrite Eo in Ht2. fold tsh dsh in Ht2.
      unfold shape_dim, nth_shape, dim_ix in Ht2.
      destruct (dim_verdict (Z.of_nat (nth 0 tsh 0%nat)) (Z.of_nat (nth 0 dsh 0%nat)) (None, None) ot); try discriminate; reflexivity.
    + rewrite Hcc; try rewrite Et. rewrite Hdec by (destruct (fc_multi c); auto). cbn [spec_ok is3d].
      split.
      * intro K. apply andb_prop in K. destruct K. split; [left; reflexivity | split; assumption].
      * intros [_ [K1 K2]]. rewrite K1, K2. reflexivity.
    + exact Hs.
  - (* 3-D target range: only judged for time-domain targets *)
    destruct (fc_multi c) eqn:Em; [|discriminate].
    apply (Main tm tr tc).
    + try rewrite Et. reflexivity.
    + intros _. first [exact Em | reflexivity].
    + right. try rewrite Et. reflexivity.
    + rewrite Hcc; try rewrite Et; try rewrite Em. rewrite Hdec by auto. cbn [spec_ok is3d].
      split.
      * intro K. apply andb_prop in K. destruct K as [K K2]. apply andb_prop in K. destruct K as [K0 K1].
        split; [right; exact K0 | split; assumption].
      * intros [[K0 | K0] [K1 K2]]; [discriminate|]. rewrite K0, K1, K2. reflexivity.
    + exact Hs.
Qed.
