(* C04 — proofs about Model/Rng.v: for every generator (type of states, seeding function, transition
   function), every seed, every body, every prior state. *)
From Coq Require Import ZArith List Bool String Lia.
From PyxelV Require Import Model.Rng.
Import ListNotations.
Open Scope Z_scope.

Section Facts.
  Variable gen : Type.
  Variable val : Type.
  Variable seed_gen : Z -> gen.
  Variable next : Z -> gen -> gen * val.
  Variable cfg : srs_cfg.

  Notation exec := (exec gen val seed_gen next cfg).
  Notation gen_after := (gen_after gen val seed_gen next cfg).
  Notation events := (events gen val seed_gen next cfg).
  Notation result := (result gen val seed_gen next cfg).
  Notation visible := (visible gen val seed_gen next cfg).

  (* no hypothesis on cfg: seed None is a no-op bracket *)
  Lemma unseeded_transparent p g : exec (Seeded None p) g = exec p g.
  Proof. reflexivity. Qed.

  Lemma unforwarded m seed bodies : mode_prog m false seed bodies = mode_prog m false None bodies.
  Proof. destruct m; reflexivity. Qed.

  Lemma bare_seed_forgets s g1 g2 : gen_after (BareSeed s) g1 = gen_after (BareSeed s) g2.
  Proof. reflexivity. Qed.

  Hypothesis Hok : cfg_ok cfg = true.

  Lemma cfg_fields :
    save_before_seed cfg = true /\ reseeds cfg = true /\
    restore_on_normal cfg = true /\ restore_on_raise cfg = true.
  Proof.
    unfold cfg_ok in Hok. repeat rewrite andb_true_iff in Hok. tauto.
  Qed.

  Lemma exec_seeded s p g :
    exec (Seeded (Some s) p) g = (g, events p (seed_gen s), result p (seed_gen s)).
  Proof.
    destruct cfg_fields as (H1 & H2 & H3 & H4).
    unfold Rng.events, Rng.result. cbn [Rng.exec]. rewrite H1, H2, H3, H4.
    destruct (exec p (seed_gen s)) as [[g1 t] o]. cbn. destruct o; reflexivity.
  Qed.

  Lemma restores s p g : gen_after (Seeded (Some s) p) g = g.
  Proof. unfold Rng.gen_after. rewrite exec_seeded. reflexivity. Qed.

  Lemma restores_when_raising s p g :
    result p (seed_gen s) = Raised ->
    gen_after (Seeded (Some s) p) g = g /\ result (Seeded (Some s) p) g = Raised.
  Proof.
    intros H. split; [apply restores|]. unfold Rng.result in *. rewrite exec_seeded. exact H.
  Qed.

  Lemma deterministic s p g1 g2 :
    visible (Seeded (Some s) p) g1 = visible (Seeded (Some s) p) g2.
  Proof. unfold Rng.visible, Rng.events, Rng.result. rewrite !exec_seeded. reflexivity. Qed.

  (* a model-level bracket inside a pipeline-level bracket: the outer state is restored, the inner
     block draws from its own seed only, and the rest of the pipeline continues the outer stream
     exactly where it was before the inner block *)
  Lemma exec_seq_done a b g :
    result a g = Done ->
    exec (Seq a b) g = (gen_after b (gen_after a g), events a g ++ events b (gen_after a g),
                        result b (gen_after a g)).
  Proof.
    unfold Rng.result, Rng.gen_after, Rng.events. cbn [Rng.exec].
    destruct (exec a g) as [[g1 t1] o1]. cbn [fst snd]. intros ->.
    destruct (exec b g1) as [[g2 t2] o2]. reflexivity.
  Qed.

  Lemma exec_seq_raised a b g :
    result a g = Raised -> exec (Seq a b) g = (gen_after a g, events a g, Raised).
  Proof.
    unfold Rng.result, Rng.gen_after, Rng.events. cbn [Rng.exec].
    destruct (exec a g) as [[g1 t1] o1]. cbn [fst snd]. intros ->. reflexivity.
  Qed.

  Lemma events_seq_done a b g :
    result a g = Done -> events (Seq a b) g = events a g ++ events b (gen_after a g).
  Proof. intros H. unfold Rng.events at 1. rewrite (exec_seq_done a b g H). reflexivity. Qed.
  Lemma result_seq_done a b g :
    result a g = Done -> result (Seq a b) g = result b (gen_after a g).
  Proof. intros H. unfold Rng.result at 1. rewrite (exec_seq_done a b g H). reflexivity. Qed.
  Lemma events_seq_raised a b g :
    result a g = Raised -> events (Seq a b) g = events a g.
  Proof. intros H. unfold Rng.events at 1. rewrite (exec_seq_raised a b g H). reflexivity. Qed.
  Lemma result_seq_raised a b g :
    result a g = Raised -> result (Seq a b) g = Raised.
  Proof. intros H. unfold Rng.result at 1. rewrite (exec_seq_raised a b g H). reflexivity. Qed.
  Lemma events_seeded s p g : events (Seeded (Some s) p) g = events p (seed_gen s).
  Proof. unfold Rng.events at 1. rewrite exec_seeded. reflexivity. Qed.
  Lemma result_seeded s p g : result (Seeded (Some s) p) g = result p (seed_gen s).
  Proof. unfold Rng.result at 1. rewrite exec_seeded. reflexivity. Qed.

  Lemma nested s s' p q r g :
    let outer := Seeded (Some s) (Seq p (Seq (Seeded (Some s') q) r)) in
    gen_after outer g = g /\
    (result p (seed_gen s) = Done ->
     (result q (seed_gen s') = Done ->
      events outer g = events p (seed_gen s) ++ events q (seed_gen s')
                       ++ events r (gen_after p (seed_gen s)) /\
      result outer g = result r (gen_after p (seed_gen s))) /\
     (result q (seed_gen s') = Raised ->
      events outer g = events p (seed_gen s) ++ events q (seed_gen s') /\
      result outer g = Raised)).
  Proof.
    cbv zeta. split; [apply restores|].
    intros Hp. rewrite events_seeded, result_seeded.
    rewrite (events_seq_done _ _ _ Hp), (result_seq_done _ _ _ Hp).
    set (gp := gen_after p (seed_gen s)).
    split; intros Hq.
    - assert (Hi : result (Seeded (Some s') q) gp = Done) by (rewrite result_seeded; exact Hq).
      rewrite (events_seq_done _ _ _ Hi), (result_seq_done _ _ _ Hi), events_seeded, restores. auto.
    - assert (Hi : result (Seeded (Some s') q) gp = Raised) by (rewrite result_seeded; exact Hq).
      rewrite (events_seq_raised _ _ _ Hi), (result_seq_raised _ _ _ Hi), events_seeded. auto.
  Qed.

  (* the induction: a program whose every draw / probe sits under a seeded bracket neither depends
     on the generator it is started from nor changes it *)
  Lemma self_seeded_frame p :
    self_seeded p = true ->
    (forall g, gen_after p g = g) /\ (forall g1 g2, visible p g1 = visible p g2).
  Proof.
    induction p as [| k | | a IHa b IHb | [s|] a IHa | | s]; cbn [self_seeded]; intros H;
      try discriminate.
    - split; reflexivity.
    - apply andb_true_iff in H. destruct H as [Ha Hb].
      destruct (IHa Ha) as [Fa Va]. destruct (IHb Hb) as [Fb Vb]. split.
      + intros g. specialize (Fa g). specialize (Fb g). unfold gen_after in *. cbn [Rng.exec].
        destruct (exec a g) as [[g1 t1] o1]. cbn in Fa. subst g1. destruct o1; [|reflexivity].
        destruct (exec b g) as [[g2 t2] o2]. cbn in Fb. subst g2. reflexivity.
      + intros g1 g2. specialize (Va g1 g2). pose proof (Fa g1) as F1. pose proof (Fa g2) as F2.
        specialize (Vb g1 g2). unfold visible, events, result, gen_after in *. cbn [Rng.exec].
        destruct (exec a g1) as [[h1 t1] o1]. destruct (exec a g2) as [[h2 t2] o2].
        cbn in Va, F1, F2. subst h1 h2. inversion Va; subst t2 o2. destruct o1; [|reflexivity].
        destruct (exec b g1) as [[k1 u1] p1]. destruct (exec b g2) as [[k2 u2] p2].
        cbn in Vb. inversion Vb; subst. reflexivity.
    - split; [intros g; apply restores | intros g1 g2; apply deterministic].
    - destruct (IHa H) as [Fa Va]. split; [exact Fa | exact Va].
    - split; reflexivity.
  Qed.

  Lemma observation_self_seeded s bodies : self_seeded (observation_prog true (Some s) bodies) = true.
  Proof. induction bodies as [|b r IH]; [reflexivity|]. cbn. exact IH. Qed.

  Lemma mode_self_seeded m s bodies : self_seeded (mode_prog m true (Some s) bodies) = true.
  Proof.
    destruct m; cbn [mode_prog].
    - reflexivity.
    - apply observation_self_seeded.
    - destruct bodies as [|b r]; [reflexivity|]. unfold observation_dask_prog.
      cbn [self_seeded fwd]. apply (observation_self_seeded s (b :: r)).
    - unfold calibration_prog. cbn [self_seeded]. rewrite !observation_self_seeded. reflexivity.
  Qed.

  (* bodies that carry their own seeds make every mode reproducible even if the mode drops its seed *)
  Lemma observation_self_seeded_bodies fw seed bodies :
    forallb self_seeded bodies = true -> self_seeded (observation_prog fw seed bodies) = true.
  Proof.
    induction bodies as [|b r IH]; [reflexivity|]. cbn [forallb]. intros H.
    apply andb_true_iff in H. destruct H as [Hb Hr]. unfold observation_prog. cbn [map seq_all self_seeded].
    fold (observation_prog fw seed r). rewrite (IH Hr), andb_true_r.
    destruct (fwd fw seed); [reflexivity | exact Hb].
  Qed.

  Lemma seq_all_self_seeded bodies : forallb self_seeded bodies = true -> self_seeded (seq_all bodies) = true.
  Proof.
    induction bodies as [|b r IH]; [reflexivity|]. cbn. intros H. apply andb_true_iff in H.
    destruct H as [Hb Hr]. rewrite Hb, (IH Hr). reflexivity.
  Qed.

  Lemma mode_self_seeded_bodies m fw seed bodies :
    forallb self_seeded bodies = true -> self_seeded (mode_prog m fw seed bodies) = true.
  Proof.
    intros H. destruct m; cbn [mode_prog].
    - unfold exposure_prog. cbn [self_seeded]. destruct (fwd fw seed); [reflexivity|].
      apply seq_all_self_seeded, H.
    - apply observation_self_seeded_bodies, H.
    - destruct bodies as [|b r]; [reflexivity|]. unfold observation_dask_prog. cbn [self_seeded].
      rewrite (observation_self_seeded_bodies fw seed (b :: r) H), andb_true_r.
      cbn [forallb] in H. apply andb_true_iff in H. destruct (fwd fw seed); [reflexivity | apply H].
    - unfold calibration_prog. cbn [self_seeded].
      rewrite (observation_self_seeded_bodies fw seed bodies H).
      rewrite observation_self_seeded_bodies; [reflexivity|].
      destruct bodies as [|b r]; [reflexivity|]. cbn [firstn forallb] in *.
      apply andb_true_iff in H. rewrite (proj1 H). reflexivity.
  Qed.

  Lemma model_bracketed_self_seeded r s k :
    bracketed r = true -> self_seeded (model_prog r (Some s) k) = true.
  Proof.
    unfold bracketed. intros H. repeat rewrite andb_true_iff in H. destruct H as [[Ho Hb] Hs].
    apply Z.eqb_eq in Ho, Hb. unfold model_prog. rewrite Ho, Hb, Hs. reflexivity.
  Qed.

  Lemma model_bracketed_unseeded r k g :
    bracketed r = true ->
    exec (model_prog r None k) g = exec (if 0 <? m_inside r then Draw (2 * k) else Skip) g.
  Proof.
    unfold bracketed. intros H. repeat rewrite andb_true_iff in H. destruct H as [[Ho Hb] Hs].
    apply Z.eqb_eq in Ho, Hb. unfold model_prog. rewrite Ho, Hb, Hs. cbn [Rng.exec Z.ltb Z.compare].
    destruct (exec (if 0 <? m_inside r then Draw (2 * k) else Skip) g) as [[g1 t] o]. reflexivity.
  Qed.
End Facts.

(* ------------------------------------------------------------------ statements over all generators *)

(* a program is reproducible and leak-free: what it shows does not depend on the state the
   generator is in when it starts, and that state is back afterwards *)
Definition reproducible_and_restored (cfg : srs_cfg) (p : prog) : Prop :=
  forall (gen val : Type) (seed_gen : Z -> gen) (next : Z -> gen -> gen * val) (g1 g2 : gen),
    visible gen val seed_gen next cfg p g1 = visible gen val seed_gen next cfg p g2 /\
    gen_after gen val seed_gen next cfg p g1 = g1.

Definition mode_reproducible (cfg : srs_cfg) (fw : bool) (m : mode) : Prop :=
  forall (s : Z) (bodies : list prog), reproducible_and_restored cfg (mode_prog m fw (Some s) bodies).

Lemma self_seeded_reproducible cfg p :
  cfg_ok cfg = true -> self_seeded p = true -> reproducible_and_restored cfg p.
Proof.
  intros Hc Hp gen val seed_gen next g1 g2.
  destruct (self_seeded_frame gen val seed_gen next cfg Hc p Hp) as [F V]. auto.
Qed.

Lemma mode_reproducible_fw cfg fw m :
  cfg_ok cfg = true -> fw = true -> mode_reproducible cfg fw m.
Proof.
  intros Hc -> s bodies. apply self_seeded_reproducible; [exact Hc | apply mode_self_seeded].
Qed.

Lemma mode_reproducible_self_seeded_bodies cfg fw m :
  cfg_ok cfg = true ->
  forall seed bodies, forallb self_seeded bodies = true ->
  reproducible_and_restored cfg (mode_prog m fw seed bodies).
Proof.
  intros Hc seed bodies H. apply self_seeded_reproducible; [exact Hc|].
  apply mode_self_seeded_bodies, H.
Qed.

(* a mode that does not forward its seed is refuted on the free generator: one draw, two prior states *)
Lemma mode_not_reproducible_unforwarded cfg m : ~ mode_reproducible cfg false m.
Proof.
  intros H. specialize (H 1 [Draw 0] fgen fgen fseed fnext g_init (OInit 1, [])).
  destruct H as [H _]. destruct m; vm_compute in H; discriminate.
Qed.

Lemma models_bracketed_reproducible cfg (tbl : list model_row) :
  cfg_ok cfg = true -> forallb bracketed tbl = true ->
  forall r, In r tbl -> forall s k,
    reproducible_and_restored cfg (model_prog r (Some s) k) /\
    (forall gen val seed_gen next g,
       exec gen val seed_gen next cfg (model_prog r None k) g =
       exec gen val seed_gen next cfg (if 0 <? m_inside r then Draw (2 * k) else Skip) g).
Proof.
  intros Hc Ht r Hr s k. rewrite forallb_forall in Ht. specialize (Ht r Hr). split.
  - apply self_seeded_reproducible; [exact Hc|]. apply model_bracketed_self_seeded, Ht.
  - intros. apply model_bracketed_unseeded, Ht.
Qed.

(* a broken bracket is refuted on the free generator (used when the regenerated cfg is not cfg_ok):
   restoring a state saved after seeding, or not restoring at all, leaves the seeded state behind *)
Lemma bad_cfg_leaks cfg :
  cfg_ok cfg = false ->
  exists p, gen_after fgen fgen fseed fnext cfg (Seeded (Some 7) p) g_init <> g_init
            \/ visible fgen fgen fseed fnext cfg (Seeded (Some 7) p) g_init
               <> visible fgen fgen fseed fnext cfg (Seeded (Some 7) p) (OInit 1, []).
Proof.
  destruct cfg as [a b c d]. unfold cfg_ok. cbn [save_before_seed reseeds restore_on_normal restore_on_raise].
  intros H.
  destruct b.
  - destruct c.
    + destruct a.
      * destruct d; [discriminate|]. exists (Seq (Draw 0) Raise). left. vm_compute. discriminate.
      * exists Skip. left. vm_compute. discriminate.
    + exists (Draw 0). left. vm_compute. discriminate.
  - exists Observe. right. destruct a, c; vm_compute; discriminate.
Qed.
