(* C04 — proofs about Model/Rng.v: for every generator (type of states, seeding function, transition
   function), every seed, every body, every prior state. *)
From Coq Require Import ZArith List Bool String Lia Permutation.
From PyxelV Require Import Model.Rng.
Import ListNotations.
Open Scope Z_scope.

Section Facts.
  Variable gen : Type.
  Variable val : Type.
  Variable seed_gen : Z -> gen.
  Variable next : Z -> gen -> gen * val.
  Variable cfg : srs_cfg.
  Variable swap : Z -> bool.

  Notation exec := (exec gen val seed_gen next cfg swap).
  Notation gen_after := (gen_after gen val seed_gen next cfg swap).
  Notation events := (events gen val seed_gen next cfg swap).
  Notation result := (result gen val seed_gen next cfg swap).
  Notation visible := (visible gen val seed_gen next cfg swap).

  (* no hypothesis on cfg: seed None is a no-op bracket *)
  Lemma unseeded_transparent p g : exec (Seeded None p) g = exec p g.
  Proof. reflexivity. Qed.

  Lemma unforwarded m seed bodies : mode_prog m false seed bodies = mode_prog m false None bodies.
  Proof. destruct m; reflexivity. Qed.

  Lemma bare_seed_forgets s g1 g2 : gen_after (BareSeed s) g1 = gen_after (BareSeed s) g2.
  Proof. reflexivity. Qed.

  Hypothesis Hok : cfg_ok cfg = true.

  Lemma cfg_fields :
    save_before_seed cfg = true /\ reseeds cfg = true /\
    restore_on_normal cfg = true /\ restore_on_raise cfg = true.
  Proof.
    unfold cfg_ok in Hok. repeat rewrite andb_true_iff in Hok. tauto.
  Qed.

  Lemma exec_seeded s p g :
    exec (Seeded (Some s) p) g = (g, events p (seed_gen s), result p (seed_gen s)).
  Proof.
    destruct cfg_fields as (H1 & H2 & H3 & H4).
    unfold Rng.events, Rng.result. cbn [Rng.exec]. rewrite H1, H2, H3, H4.
    destruct (exec p (seed_gen s)) as [[g1 t] o]. cbn. destruct o; reflexivity.
  Qed.

  Lemma restores s p g : gen_after (Seeded (Some s) p) g = g.
  Proof. unfold Rng.gen_after. rewrite exec_seeded. reflexivity. Qed.

  Lemma restores_when_raising s p g :
    result p (seed_gen s) = Raised ->
    gen_after (Seeded (Some s) p) g = g /\ result (Seeded (Some s) p) g = Raised.
  Proof.
    intros H. split; [apply restores|]. unfold Rng.result in *. rewrite exec_seeded. exact H.
  Qed.

  Lemma deterministic s p g1 g2 :
    visible (Seeded (Some s) p) g1 = visible (Seeded (Some s) p) g2.
  Proof. unfold Rng.visible, Rng.events, Rng.result. rewrite !exec_seeded. reflexivity. Qed.

  (* a model-level bracket inside a pipeline-level bracket: the outer state is restored, the inner
     block draws from its own seed only, and the rest of the pipeline continues the outer stream
     exactly where it was before the inner block *)
  Lemma exec_seq_done a b g :
    result a g = Done ->
    exec (Seq a b) g = (gen_after b (gen_after a g), events a g ++ events b (gen_after a g),
                        result b (gen_after a g)).
  Proof.
    unfold Rng.result, Rng.gen_after, Rng.events. cbn [Rng.exec].
    destruct (exec a g) as [[g1 t1] o1]. cbn [fst snd]. intros ->.
    destruct (exec b g1) as [[g2 t2] o2]. reflexivity.
  Qed.

  Lemma exec_seq_raised a b g :
    result a g = Raised -> exec (Seq a b) g = (gen_after a g, events a g, Raised).
  Proof.
    unfold Rng.result, Rng.gen_after, Rng.events. cbn [Rng.exec].
    destruct (exec a g) as [[g1 t1] o1]. cbn [fst snd]. intros ->. reflexivity.
  Qed.

  Lemma events_seq_done a b g :
    result a g = Done -> events (Seq a b) g = events a g ++ events b (gen_after a g).
  Proof. intros H. unfold Rng.events at 1. rewrite (exec_seq_done a b g H). reflexivity. Qed.
  Lemma result_seq_done a b g :
    result a g = Done -> result (Seq a b) g = result b (gen_after a g).
  Proof. intros H. unfold Rng.result at 1. rewrite (exec_seq_done a b g H). reflexivity. Qed.
  Lemma events_seq_raised a b g :
    result a g = Raised -> events (Seq a b) g = events a g.
  Proof. intros H. unfold Rng.events at 1. rewrite (exec_seq_raised a b g H). reflexivity. Qed.
  Lemma result_seq_raised a b g :
    result a g = Raised -> result (Seq a b) g = Raised.
  Proof. intros H. unfold Rng.result at 1. rewrite (exec_seq_raised a b g H). reflexivity. Qed.
  Lemma events_seeded s p g : events (Seeded (Some s) p) g = events p (seed_gen s).
  Proof. unfold Rng.events at 1. rewrite exec_seeded. reflexivity. Qed.
  Lemma result_seeded s p g : result (Seeded (Some s) p) g = result p (seed_gen s).
  Proof. unfold Rng.result at 1. rewrite exec_seeded. reflexivity. Qed.

  Lemma nested s s' p q r g :
    let outer := Seeded (Some s) (Seq p (Seq (Seeded (Some s') q) r)) in
    gen_after outer g = g /\
    (result p (seed_gen s) = Done ->
     (result q (seed_gen s') = Done ->
      events outer g = events p (seed_gen s) ++ events q (seed_gen s')
                       ++ events r (gen_after p (seed_gen s)) /\
      result outer g = result r (gen_after p (seed_gen s))) /\
     (result q (seed_gen s') = Raised ->
      events outer g = events p (seed_gen s) ++ events q (seed_gen s') /\
      result outer g = Raised)).
  Proof.
    cbv zeta. split; [apply restores|].
    intros Hp. rewrite events_seeded, result_seeded.
    rewrite (events_seq_done _ _ _ Hp), (result_seq_done _ _ _ Hp).
    set (gp := gen_after p (seed_gen s)).
    split; intros Hq.
    - assert (Hi : result (Seeded (Some s') q) gp = Done) by (rewrite result_seeded; exact Hq).
      rewrite (events_seq_done _ _ _ Hi), (result_seq_done _ _ _ Hi), events_seeded, restores. auto.
    - assert (Hi : result (Seeded (Some s') q) gp = Raised) by (rewrite result_seeded; exact Hq).
      rewrite (events_seq_raised _ _ _ Hi), (result_seq_raised _ _ _ Hi), events_seeded. auto.
  Qed.

  (* the induction: a program whose every draw / probe sits under a seeded bracket neither depends
     on the generator it is started from nor changes it *)
  Lemma self_seeded_frame p :
    self_seeded p = true ->
    (forall g, gen_after p g = g) /\ (forall g1 g2, visible p g1 = visible p g2).
  Proof.
    assert (SEQ : forall a b,
      ((forall g, gen_after a g = g) /\ (forall g1 g2, visible a g1 = visible a g2)) ->
      ((forall g, gen_after b g = g) /\ (forall g1 g2, visible b g1 = visible b g2)) ->
      (forall g, gen_after (Seq a b) g = g) /\ (forall g1 g2, visible (Seq a b) g1 = visible (Seq a b) g2)).
    { intros a b [Fa Va] [Fb Vb]. split.
      + intros g. specialize (Fa g). specialize (Fb g). unfold gen_after in *. cbn [Rng.exec].
        destruct (exec a g) as [[g1 t1] o1]. cbn in Fa. subst g1. destruct o1; [|reflexivity].
        destruct (exec b g) as [[g2 t2] o2]. cbn in Fb. subst g2. reflexivity.
      + intros g1 g2. specialize (Va g1 g2). pose proof (Fa g1) as F1. pose proof (Fa g2) as F2.
        specialize (Vb g1 g2). unfold visible, events, result, gen_after in *. cbn [Rng.exec].
        destruct (exec a g1) as [[h1 t1] o1]. destruct (exec a g2) as [[h2 t2] o2].
        cbn in Va, F1, F2. subst h1 h2. inversion Va; subst t2 o2. destruct o1; [|reflexivity].
        destruct (exec b g1) as [[k1 u1] p1]. destruct (exec b g2) as [[k2 u2] p2].
        cbn in Vb. inversion Vb; subst. reflexivity. }
    induction p as [| k | | a IHa b IHb | [s|] a IHa | | s | i a IHa b IHb]; cbn [self_seeded]; intros H;
      try discriminate.
    - split; reflexivity.
    - apply andb_true_iff in H. destruct H as [Ha Hb]. exact (SEQ a b (IHa Ha) (IHb Hb)).
    - split; [intros g; apply restores | intros g1 g2; apply deterministic].
    - destruct (IHa H) as [Fa Va]. split; [exact Fa | exact Va].
    - split; reflexivity.
    - apply andb_true_iff in H. destruct H as [Ha Hb].
      pose proof (SEQ a b (IHa Ha) (IHb Hb)) as Sab. pose proof (SEQ b a (IHb Hb) (IHa Ha)) as Sba.
      unfold gen_after, visible, events, result in *. cbn [Rng.exec] in *.
      destruct (swap i); [exact Sba | exact Sab].
  Qed.

  Lemma observation_self_seeded s bodies : self_seeded (observation_prog true (Some s) bodies) = true.
  Proof. induction bodies as [|b r IH]; [reflexivity|]. cbn. exact IH. Qed.

  Lemma mode_self_seeded m s bodies : self_seeded (mode_prog m true (Some s) bodies) = true.
  Proof.
    destruct m; cbn [mode_prog].
    - reflexivity.
    - apply observation_self_seeded.
    - destruct bodies as [|b r]; [reflexivity|]. unfold observation_dask_prog.
      cbn [self_seeded fwd]. apply (observation_self_seeded s (b :: r)).
    - unfold calibration_prog. cbn [self_seeded]. rewrite !observation_self_seeded. reflexivity.
  Qed.

  (* bodies that carry their own seeds make every mode reproducible even if the mode drops its seed *)
  Lemma observation_self_seeded_bodies fw seed bodies :
    forallb self_seeded bodies = true -> self_seeded (observation_prog fw seed bodies) = true.
  Proof.
    induction bodies as [|b r IH]; [reflexivity|]. cbn [forallb]. intros H.
    apply andb_true_iff in H. destruct H as [Hb Hr]. unfold observation_prog. cbn [map seq_all self_seeded].
    fold (observation_prog fw seed r). rewrite (IH Hr), andb_true_r.
    destruct (fwd fw seed); [reflexivity | exact Hb].
  Qed.

  Lemma seq_all_self_seeded bodies : forallb self_seeded bodies = true -> self_seeded (seq_all bodies) = true.
  Proof.
    induction bodies as [|b r IH]; [reflexivity|]. cbn. intros H. apply andb_true_iff in H.
    destruct H as [Hb Hr]. rewrite Hb, (IH Hr). reflexivity.
  Qed.

  Lemma mode_self_seeded_bodies m fw seed bodies :
    forallb self_seeded bodies = true -> self_seeded (mode_prog m fw seed bodies) = true.
  Proof.
    intros H. destruct m; cbn [mode_prog].
    - unfold exposure_prog. cbn [self_seeded]. destruct (fwd fw seed); [reflexivity|].
      apply seq_all_self_seeded, H.
    - apply observation_self_seeded_bodies, H.
    - destruct bodies as [|b r]; [reflexivity|]. unfold observation_dask_prog. cbn [self_seeded].
      rewrite (observation_self_seeded_bodies fw seed (b :: r) H), andb_true_r.
      cbn [forallb] in H. apply andb_true_iff in H. destruct (fwd fw seed); [reflexivity | apply H].
    - unfold calibration_prog. cbn [self_seeded].
      rewrite (observation_self_seeded_bodies fw seed bodies H).
      rewrite observation_self_seeded_bodies; [reflexivity|].
      destruct bodies as [|b r]; [reflexivity|]. cbn [firstn forallb] in *.
      apply andb_true_iff in H. rewrite (proj1 H). reflexivity.
  Qed.

  Lemma bracketed_fields r :
    bracketed r = true ->
    m_outside r = 0 /\ m_bare_seed r = 0 /\ m_bracket_seed r = true /\ m_seed_truthy r = 0.
  Proof.
    unfold bracketed. intros H. repeat rewrite andb_true_iff in H.
    destruct H as [[[Ho Hb] Hs] Ht]. apply Z.eqb_eq in Ho, Hb, Ht. auto.
  Qed.

  Lemma model_bracketed_self_seeded r s k :
    bracketed r = true -> self_seeded (model_prog r (Some s) k) = true.
  Proof.
    intros H. destruct (bracketed_fields r H) as (Ho & Hb & Hs & Ht).
    unfold model_prog, bracket_seed. rewrite Ho, Hb, Hs, Ht. reflexivity.
  Qed.

  Lemma model_bracketed_unseeded r k g :
    bracketed r = true ->
    exec (model_prog r None k) g = exec (inside_prog r k) g.
  Proof.
    intros H. destruct (bracketed_fields r H) as (Ho & Hb & Hs & Ht).
    unfold model_prog, bracket_seed. rewrite Ho, Hb, Hs, Ht. cbn [Rng.exec Z.ltb Z.compare].
    destruct (exec (inside_prog r k) g) as [[g1 t] o]. reflexivity.
  Qed.

  (* a bracketed row hands its bracket exactly the seed it was given - 0 included *)
  Lemma model_bracketed_seed r seed :
    bracketed r = true -> bracket_seed r seed = seed.
  Proof.
    intros H. destruct (bracketed_fields r H) as (Ho & Hb & Hs & Ht).
    unfold bracket_seed. rewrite Hs, Ht. reflexivity.
  Qed.
End Facts.

(* ------------------------------------------------------------------ hash order: one process vs another *)

Section Hash.
  Variable gen : Type.
  Variable val : Type.
  Variable seed_gen : Z -> gen.
  Variable next : Z -> gen -> gen * val.
  Variable cfg : srs_cfg.

  (* a program without process-ordered parts behaves the same in every process *)
  Lemma hash_stable_exec p :
    hash_stable p = true ->
    forall (sw1 sw2 : Z -> bool) g,
      exec gen val seed_gen next cfg sw1 p g = exec gen val seed_gen next cfg sw2 p g.
  Proof.
    induction p as [| k | | a IHa b IHb | s a IHa | | s | i a IHa b IHb]; cbn [hash_stable]; intros H sw1 sw2 g;
      try discriminate; try reflexivity.
    - apply andb_true_iff in H. destruct H as [Ha Hb]. cbn [Rng.exec].
      rewrite (IHa Ha sw1 sw2 g). destruct (exec gen val seed_gen next cfg sw2 a g) as [[g1 t1] o1].
      destruct o1; [|reflexivity]. rewrite (IHb Hb sw1 sw2 g1). reflexivity.
    - destruct s as [s|]; cbn [Rng.exec].
      + rewrite (IHa H sw1 sw2). reflexivity.
      + apply IHa, H.
  Qed.
End Hash.

(* ------------------------------------------------------------------ statements over all generators *)

(* a program is reproducible and leak-free: what it shows does not depend on the state the
   generator is in when it starts, and that state is back afterwards (within one process) *)
Definition reproducible_and_restored (cfg : srs_cfg) (p : prog) : Prop :=
  forall (gen val : Type) (seed_gen : Z -> gen) (next : Z -> gen -> gen * val) (swap : Z -> bool)
         (g1 g2 : gen),
    visible gen val seed_gen next cfg swap p g1 = visible gen val seed_gen next cfg swap p g2 /\
    gen_after gen val seed_gen next cfg swap p g1 = g1.

(* ... and also from one interpreter process to another (any two hash orders) *)
Definition reproducible_across_processes (cfg : srs_cfg) (p : prog) : Prop :=
  forall (gen val : Type) (seed_gen : Z -> gen) (next : Z -> gen -> gen * val) (sw1 sw2 : Z -> bool)
         (g1 g2 : gen),
    visible gen val seed_gen next cfg sw1 p g1 = visible gen val seed_gen next cfg sw2 p g2 /\
    gen_after gen val seed_gen next cfg sw1 p g1 = g1.

Definition mode_reproducible (cfg : srs_cfg) (fw : bool) (m : mode) : Prop :=
  forall (s : Z) (bodies : list prog), reproducible_and_restored cfg (mode_prog m fw (Some s) bodies).

Lemma self_seeded_reproducible cfg p :
  cfg_ok cfg = true -> self_seeded p = true -> reproducible_and_restored cfg p.
Proof.
  intros Hc Hp gen val seed_gen next swap g1 g2.
  destruct (self_seeded_frame gen val seed_gen next cfg swap Hc p Hp) as [F V]. auto.
Qed.

Lemma self_seeded_stable_across_processes cfg p :
  cfg_ok cfg = true -> self_seeded p = true -> hash_stable p = true ->
  reproducible_across_processes cfg p.
Proof.
  intros Hc Hp Hh gen val seed_gen next sw1 sw2 g1 g2.
  destruct (self_seeded_reproducible cfg p Hc Hp gen val seed_gen next sw1 g1 g2) as [V F].
  split; [|exact F]. rewrite V. unfold visible, events, result.
  rewrite (hash_stable_exec gen val seed_gen next cfg p Hh sw1 sw2 g2). reflexivity.
Qed.

(* a seeded block that iterates over a hash-ordered collection: the generator is still restored, but
   two processes see different draws (free generator; one process swaps site 0, the other does not) *)
Lemma unordered_not_reproducible cfg :
  cfg_ok cfg = true ->
  let p := Seeded (Some 5) (Unord 0 (Draw 0) (Draw 1)) in
  ~ reproducible_across_processes cfg p /\ reproducible_and_restored cfg p.
Proof.
  intros Hc p. split.
  - intros H. specialize (H fgen fgen fseed fnext (fswap 0) (fswap 1) g_init g_init).
    destruct H as [H _]. destruct cfg as [a b c d]. unfold cfg_ok in Hc. cbn in Hc.
    destruct a, b, c, d; try discriminate Hc. vm_compute in H. discriminate H.
  - apply self_seeded_reproducible; [exact Hc | reflexivity].
Qed.

Lemma mode_reproducible_fw cfg fw m :
  cfg_ok cfg = true -> fw = true -> mode_reproducible cfg fw m.
Proof.
  intros Hc -> s bodies. apply self_seeded_reproducible; [exact Hc | apply mode_self_seeded].
Qed.

Lemma mode_reproducible_self_seeded_bodies cfg fw m :
  cfg_ok cfg = true ->
  forall seed bodies, forallb self_seeded bodies = true ->
  reproducible_and_restored cfg (mode_prog m fw seed bodies).
Proof.
  intros Hc seed bodies H. apply self_seeded_reproducible; [exact Hc|].
  apply mode_self_seeded_bodies, H.
Qed.

(* the modes add no process-ordered part of their own *)
Lemma seq_all_hash_stable bodies : forallb hash_stable bodies = true -> hash_stable (seq_all bodies) = true.
Proof.
  induction bodies as [|b r IH]; [reflexivity|]. cbn. intros H. apply andb_true_iff in H.
  destruct H as [Hb Hr]. rewrite Hb, (IH Hr). reflexivity.
Qed.

Lemma observation_hash_stable fw seed bodies :
  forallb hash_stable bodies = true -> hash_stable (observation_prog fw seed bodies) = true.
Proof.
  induction bodies as [|b r IH]; [reflexivity|]. cbn [forallb]. intros H.
  apply andb_true_iff in H. destruct H as [Hb Hr]. unfold observation_prog. cbn [map seq_all hash_stable].
  fold (observation_prog fw seed r). rewrite (IH Hr), Hb. reflexivity.
Qed.

Lemma mode_hash_stable m fw seed bodies :
  forallb hash_stable bodies = true -> hash_stable (mode_prog m fw seed bodies) = true.
Proof.
  intros H. destruct m; cbn [mode_prog].
  - unfold exposure_prog. cbn [hash_stable]. apply seq_all_hash_stable, H.
  - apply observation_hash_stable, H.
  - destruct bodies as [|b r]; [reflexivity|]. unfold observation_dask_prog. cbn [hash_stable].
    rewrite (observation_hash_stable fw seed (b :: r) H), andb_true_r.
    cbn [forallb] in H. apply andb_true_iff in H. apply H.
  - unfold calibration_prog. cbn [hash_stable].
    rewrite (observation_hash_stable fw seed bodies H).
    rewrite observation_hash_stable; [reflexivity|].
    destruct bodies as [|b r]; [reflexivity|]. cbn [firstn forallb] in *.
    apply andb_true_iff in H. rewrite (proj1 H). reflexivity.
Qed.

Lemma mode_reproducible_across_processes cfg m s bodies :
  cfg_ok cfg = true -> forallb hash_stable bodies = true ->
  reproducible_across_processes cfg (mode_prog m true (Some s) bodies).
Proof.
  intros Hc Hb. apply self_seeded_stable_across_processes;
    [exact Hc | apply mode_self_seeded | apply mode_hash_stable, Hb].
Qed.

(* a mode that does not forward its seed is refuted on the free generator: one draw, two prior states *)
Lemma mode_not_reproducible_unforwarded cfg m : ~ mode_reproducible cfg false m.
Proof.
  intros H. specialize (H 1 [Draw 0] fgen fgen fseed fnext no_swap g_init (OInit 1, [])).
  destruct H as [H _]. destruct m; vm_compute in H; discriminate.
Qed.

Lemma model_order_stable_hash_stable r seed k :
  order_stable r = true -> hash_stable (model_prog r seed k) = true.
Proof.
  unfold order_stable. intros H. apply Z.eqb_eq in H. unfold model_prog, inside_prog. rewrite H.
  cbn [Z.ltb Z.compare hash_stable].
  destruct (0 <? m_bare_seed r); [destruct seed|]; destruct (0 <? m_outside r); destruct (0 <? m_inside r); reflexivity.
Qed.

Lemma models_bracketed_reproducible cfg (tbl : list model_row) :
  cfg_ok cfg = true -> forallb bracketed tbl = true ->
  forall r, In r tbl -> forall s k,
    reproducible_and_restored cfg (model_prog r (Some s) k) /\
    bracket_seed r (Some s) = Some s /\
    (forall gen val seed_gen next swap g,
       exec gen val seed_gen next cfg swap (model_prog r None k) g =
       exec gen val seed_gen next cfg swap (inside_prog r k) g).
Proof.
  intros Hc Ht r Hr s k. rewrite forallb_forall in Ht. specialize (Ht r Hr). split; [|split].
  - apply self_seeded_reproducible; [exact Hc|].
    apply model_bracketed_self_seeded, Ht.
  - apply model_bracketed_seed, Ht.
  - intros. apply model_bracketed_unseeded, Ht.
Qed.

Lemma models_stable_across_processes cfg (tbl : list model_row) :
  cfg_ok cfg = true -> forallb bracketed tbl = true -> forallb order_stable tbl = true ->
  forall r, In r tbl -> forall s k, reproducible_across_processes cfg (model_prog r (Some s) k).
Proof.
  intros Hc Hb Ho r Hr s k. rewrite forallb_forall in Hb, Ho.
  apply self_seeded_stable_across_processes; [exact Hc | |].
  - apply model_bracketed_self_seeded, Hb, Hr.
  - apply model_order_stable_hash_stable, Ho, Hr.
Qed.

(* a broken bracket is refuted on the free generator (used when the regenerated cfg is not cfg_ok):
   restoring a state saved after seeding, or not restoring at all, leaves the seeded state behind *)
Lemma bad_cfg_leaks cfg :
  cfg_ok cfg = false ->
  exists p, gen_after fgen fgen fseed fnext cfg no_swap (Seeded (Some 7) p) g_init <> g_init
            \/ visible fgen fgen fseed fnext cfg no_swap (Seeded (Some 7) p) g_init
               <> visible fgen fgen fseed fnext cfg no_swap (Seeded (Some 7) p) (OInit 1, []).
Proof.
  destruct cfg as [a b c d]. unfold cfg_ok. cbn [save_before_seed reseeds restore_on_normal restore_on_raise].
  intros H.
  destruct b.
  - destruct c.
    + destruct a.
      * destruct d; [discriminate|]. exists (Seq (Draw 0) Raise). left. vm_compute. discriminate.
      * exists Skip. left. vm_compute. discriminate.
    + exists (Draw 0). left. vm_compute. discriminate.
  - exists Observe. right. destruct a, c; vm_compute; discriminate.
Qed.

(* ------------------------------------------------------------------ every way a seed reaches a run *)

Lemma fold_xfer_id (rows : list link) s :
  forallb (fun r => xfer_is_id (link_xfer r)) rows = true ->
  fold_left (fun acc r => apply_xfer (link_xfer r) acc) rows s = s.
Proof.
  revert s. induction rows as [|r rows IH]; intros s H; [reflexivity|].
  cbn [forallb] in H. apply andb_true_iff in H. destruct H as [Hr Hrest]. cbn [fold_left].
  destruct (link_xfer r); try discriminate. cbn [apply_xfer]. apply IH, Hrest.
Qed.

Lemma forallb_filter_sub {A} (f g h : A -> bool) (l : list A) :
  (forall x, h x = true -> g x = true) ->
  forallb f (filter g l) = true -> forallb f (filter h l) = true.
Proof.
  intros Hsub. induction l as [|x l IH]; [reflexivity|]. cbn [filter].
  destruct (h x) eqn:Hh.
  - rewrite (Hsub x Hh). cbn [forallb]. intros H. apply andb_true_iff in H. destruct H as [H1 H2].
    rewrite H1. apply IH, H2.
  - destruct (g x); [cbn [forallb]; intros H; apply andb_true_iff in H; apply IH, H | exact IH].
Qed.

(* if every link of the mode is the identity, the seed that reaches set_random_seed is the seed that
   was given - through every entry, for every seed (0 included) and for "no seed" *)
Lemma forwards_seed_through tbl m :
  forwards_of tbl m = true -> forall e s, seed_through tbl m e s = s.
Proof.
  unfold forwards_of, seed_through. intros H e s. apply andb_true_iff in H. destruct H as [_ H].
  apply fold_xfer_id.
  apply (forallb_filter_sub _ (fun r => String.eqb (link_mode r) m) (on_path m e)); [|exact H].
  intros x Hx. unfold on_path in Hx. apply andb_true_iff in Hx. apply Hx.
Qed.

(* a truthiness test on the way loses exactly the seed 0 *)
Lemma truthy_loses_only_zero s :
  apply_xfer XTruthy (Some s) = (if s =? 0 then None else Some s).
Proof. destruct s; reflexivity. Qed.

(* ... and then the run configured with seed 0 is the unseeded run: refuted on the free generator *)
Lemma truthy_link_not_reproducible cfg m :
  ~ (forall bodies, reproducible_and_restored cfg (mode_prog m true (apply_xfer XTruthy (Some 0)) bodies)).
Proof.
  intros H. specialize (H [Draw 0] fgen fgen fseed fnext no_swap g_init (OInit 1, [])).
  destruct H as [H _]. destruct m; vm_compute in H; discriminate.
Qed.

(* ------------------------------------------------------------------ islands *)

Lemma lookup_finished seeds order i :
  In i order -> lookup_task i (finished seeds order) = Some (nth i seeds (-1)).
Proof.
  induction order as [|j r IH]; intros H; [contradiction|]. cbn [finished map lookup_task].
  destruct (Nat.eqb i j) eqn:E.
  - apply Nat.eqb_eq in E. subst j. reflexivity.
  - destruct H as [H|H]; [subst j; rewrite Nat.eqb_refl in E; discriminate|]. apply IH, H.
Qed.

Lemma map_nth_seq (l : list Z) d : map (fun i => nth i l d) (seq 0 (List.length l)) = l.
Proof.
  induction l as [|x l IH]; [reflexivity|]. cbn [List.length seq map nth]. f_equal.
  rewrite <- seq_shift, map_map. exact IH.
Qed.

(* iterating over the results in submission order: island i gets seed i whatever order the tasks
   finish in (every task does finish) *)
Lemma islands_map_order_independent seeds order :
  (forall i, (i < List.length seeds)%nat -> In i order) ->
  islands BMap seeds order = seeds.
Proof.
  intros H. unfold islands. rewrite <- (map_nth_seq seeds (-1)) at 2.
  apply map_ext_in. intros i Hi. apply in_seq in Hi. rewrite (lookup_finished seeds order i); [reflexivity|].
  apply H. apply Hi.
Qed.

Lemma islands_map_permutation seeds order :
  Permutation order (seq 0 (List.length seeds)) -> islands BMap seeds order = seeds.
Proof.
  intros P. apply islands_map_order_independent. intros i Hi.
  apply (Permutation_in i (Permutation_sym P)). apply in_seq. lia.
Qed.

(* iterating over the results as they complete: the island list IS the completion order *)
Lemma islands_as_completed seeds order :
  islands BAsCompleted seeds order = map (fun i => nth i seeds (-1)) order.
Proof. unfold islands, finished. rewrite map_map. reflexivity. Qed.

Lemma islands_as_completed_in_order seeds :
  islands BAsCompleted seeds (seq 0 (List.length seeds)) = seeds.
Proof. rewrite islands_as_completed. apply map_nth_seq. Qed.

Lemma islands_as_completed_depends_on_order :
  exists seeds o1 o2, Permutation o1 (seq 0 (List.length seeds)) /\ Permutation o2 (seq 0 (List.length seeds)) /\
    islands BAsCompleted seeds o1 <> islands BAsCompleted seeds o2.
Proof.
  exists [10; 20], [0; 1]%nat, [1; 0]%nat. split; [apply Permutation_refl|].
  split; [apply perm_swap|]. vm_compute. discriminate.
Qed.

Lemma build_table_order_independent (tbl : list build_row) :
  forallb (fun r => build_is_map (snd r)) tbl = true ->
  forall r, In r tbl -> forall seeds order,
    Permutation order (seq 0 (List.length seeds)) -> islands (snd r) seeds order = seeds.
Proof.
  intros H r Hr seeds order P. rewrite forallb_forall in H. specialize (H r Hr).
  destruct (snd r); [|discriminate]. apply islands_map_permutation, P.
Qed.

(* ------------------------------------------------------------------ one thread of control *)

Section BracketFacts.
  Variable gen : Type.
  Variable seed_gen : Z -> gen.

  (* where everything unwinds to: the state saved by the outermost open bracket, or - with no bracket
     open - the current state *)
  Definition bottom (g : gen) (saved : list (Z * gen)) : gen :=
    match rev saved with (_, g0) :: _ => g0 | [] => g end.

  Lemma bottom_push g saved t g1 :
    bottom g1 ((t, g) :: saved) = bottom g saved.
  Proof.
    unfold bottom. cbn [rev]. destruct (rev saved) as [|[t0 g0] r] eqn:E; reflexivity.
  Qed.

  Lemma bottom_pop g saved t gs :
    bottom gs saved = bottom g ((t, gs) :: saved).
  Proof. symmetry. apply bottom_push. Qed.

  (* under the LIFO discipline the exiting thread's saved state is the top of the stack *)
  Lemma take_saved_top t g saved : take_saved gen t ((t, g) :: saved) = Some (g, saved).
  Proof. cbn. rewrite Z.eqb_refl. reflexivity. Qed.

  Lemma lifo_run_bottom tr :
    forall g saved st',
      lifo_run tr (map fst saved) = Some st' ->
      let '(g', saved') := run_steps gen seed_gen tr g saved in
      map fst saved' = st' /\ bottom g' saved' = bottom g saved.
  Proof.
    induction tr as [|[t s|t] r IH]; intros g saved st' H.
    - cbn in *. inversion H. auto.
    - cbn [lifo_run] in H. cbn [run_steps].
      specialize (IH (seed_gen s) ((t, g) :: saved) st' H).
      destruct (run_steps gen seed_gen r (seed_gen s) ((t, g) :: saved)) as [g' saved'].
      destruct IH as [IH1 IH2]. split; [exact IH1|]. rewrite IH2. apply bottom_push.
    - cbn [lifo_run] in H. destruct saved as [|[t' gs] saved]; cbn [map fst] in H; [discriminate|].
      destruct (t =? t') eqn:E; [|discriminate]. apply Z.eqb_eq in E. subst t'.
      cbn [run_steps]. rewrite take_saved_top.
      specialize (IH gs saved st' H).
      destruct (run_steps gen seed_gen r gs saved) as [g' saved'].
      destruct IH as [IH1 IH2]. split; [exact IH1|]. rewrite IH2. apply bottom_pop.
  Qed.

  (* THE single-thread guarantee: if the brackets on the shared generator are entered and left in LIFO
     order - whatever threads take part, however deeply they nest - the generator ends exactly where it
     started *)
  Lemma lifo_restores tr g :
    lifo tr = true -> run_steps gen seed_gen tr g [] = (g, []).
  Proof.
    unfold lifo. destruct (lifo_run tr []) as [[|x st]|] eqn:E; try discriminate. intros _.
    pose proof (lifo_run_bottom tr g [] [] E) as H.
    destruct (run_steps gen seed_gen tr g []) as [g' saved']. destruct H as [H1 H2].
    destruct saved'; [|discriminate]. unfold bottom in H2. cbn in H2. subst. reflexivity.
  Qed.
End BracketFacts.

Lemma lifo_run_app a b st st1 :
  lifo_run a st = Some st1 -> lifo_run (a ++ b) st = lifo_run b st1.
Proof.
  revert st. induction a as [|[t s|t] r IH]; intros st H; cbn in *.
  - inversion H. reflexivity.
  - apply IH, H.
  - destruct st as [|t' st]; [discriminate|]. destruct (t =? t'); [apply IH, H | discriminate].
Qed.

(* every program of the model, run by one thread, uses the brackets in LIFO order *)
Lemma btrace_lifo_run p : forall st, lifo_run (btrace p) st = Some st.
Proof.
  induction p as [| k | | a IHa b IHb | [s|] a IHa | | s | i a IHa b IHb]; intros st; cbn [btrace]; try reflexivity.
  - destruct (raises a); [apply IHa|]. rewrite (lifo_run_app _ _ _ _ (IHa st)). apply IHb.
  - cbn [lifo_run]. rewrite (lifo_run_app _ _ _ _ (IHa (0 :: st))). cbn. reflexivity.
  - apply IHa.
  - destruct (raises a); [apply IHa|]. rewrite (lifo_run_app _ _ _ _ (IHa st)). apply IHb.
Qed.

Lemma btrace_lifo p : lifo (btrace p) = true.
Proof. unfold lifo. rewrite btrace_lifo_run. reflexivity. Qed.

(* two threads whose brackets overlap without nesting: the second one saved the FIRST one's seeded
   state and puts it back last - the process-wide generator is left in the seed-1 stream *)
Lemma interleaved_brackets_leak :
  let tr := [BEnter 1 1; BEnter 2 2; BExit 1; BExit 2] in
  lifo tr = false /\ fst (run_steps fgen fseed tr g_init []) = fseed 1 /\ fseed 1 <> g_init.
Proof. vm_compute. repeat split; discriminate. Qed.
