(* Lemmas about the binary64 simple-ADC model (C16): inversion of finite results, comparisons,
   np.clip, the span, the scaled value.  The theorems about the converter are in AdcSimple.v.
   Uses Flocq's IEEE-754 correctness theorems. *)
From Coq Require Import ZArith List Bool Reals Lia Lra.
From Flocq Require Import Core BinarySingleNaN.
From PyxelV Require Import Lib.B64 Model.Adc.
Import ListNotations.
Open Scope R_scope.

Notation fexp64 := (SpecFloat.fexp 53 1024).
Notation rnd := (round radix2 fexp64 ZnearestE).

Lemma rnd_eq : forall x, round radix2 fexp64 (round_mode mode_NE) x = rnd x.
Proof. reflexivity. Qed.

#[local] Instance fexp64_valid : Valid_exp fexp64 := fexp_correct 53 1024 _.
#[local] Instance fexp64_mono : Monotone_exp fexp64 := fexp_monotone 53 1024.
#[local] Instance fexp64_not_FTZ : Exp_not_FTZ fexp64 := monotone_exp_not_FTZ fexp64.

Lemma rnd_le x y : x <= y -> rnd x <= rnd y.
Proof. apply round_le; auto with typeclass_instances. Qed.

Lemma rnd_0 : rnd 0 = 0.
Proof. apply round_0; auto with typeclass_instances. Qed.

Lemma rnd_nonneg x : 0 <= x -> 0 <= rnd x.
Proof. intros H. rewrite <- rnd_0. now apply rnd_le. Qed.

(* ---------------------------------------------------------------- finite results: inversion *)

Lemma finite_not_overflow (z : b64) s :
  is_finite z = true -> B2SF z <> binary_overflow 53 1024 mode_NE s.
Proof.
  intros F E. unfold binary_overflow in E. simpl in E. destruct z; simpl in *; try discriminate.
Qed.

Lemma bsub_finite_inv (x y : b64) :
  is_finite x = true -> is_finite y = true -> is_finite (bsub x y) = true ->
  B2R (bsub x y) = rnd (B2R x - B2R y).
Proof.
  intros Fx Fy Fz. unfold bsub in *.
  generalize (Bminus_correct 53 1024 _ _ mode_NE x y Fx Fy).
  destruct Rlt_bool.
  - intros [H _]. exact H.
  - intros [H _]. exfalso. revert H. now apply finite_not_overflow.
Qed.

Lemma bmul_finite_inv (x y : b64) :
  is_finite (bmul x y) = true ->
  is_finite x = true /\ is_finite y = true /\ B2R (bmul x y) = rnd (B2R x * B2R y).
Proof.
  intros Fz. unfold bmul in *.
  generalize (Bmult_correct 53 1024 _ _ mode_NE x y).
  destruct Rlt_bool.
  - intros [H [H2 _]]. rewrite Fz in H2. symmetry in H2. apply andb_prop in H2. tauto.
  - intros H. exfalso. revert H. now apply finite_not_overflow.
Qed.

Lemma bdiv_finite_inv (x y : b64) :
  B2R y <> 0 -> is_finite (bdiv x y) = true ->
  is_finite x = true /\ B2R (bdiv x y) = rnd (B2R x / B2R y).
Proof.
  intros Zy Fz. unfold bdiv in *.
  generalize (Bdiv_correct 53 1024 _ _ mode_NE x y Zy).
  destruct Rlt_bool.
  - intros [H [H2 _]]. rewrite Fz in H2. auto.
  - intros H. exfalso. revert H. now apply finite_not_overflow.
Qed.

(* dividing by a zero never gives a finite number *)
Lemma bdiv_by_zero_not_finite (x y : b64) :
  is_finite y = true -> B2R y = 0 -> is_finite (bdiv x y) = false.
Proof.
  intros Fy Zy. destruct y as [sy|sy| |sy my ey Hy]; try discriminate.
  - destruct x; reflexivity.
  - exfalso. simpl in Zy. apply eq_0_F2R in Zy. destruct sy; discriminate.
Qed.

(* ---------------------------------------------------------------- comparisons *)

Lemma ble_finite (x y : b64) :
  is_finite x = true -> is_finite y = true -> ble x y = Rle_bool (B2R x) (B2R y).
Proof.
  intros Fx Fy. unfold ble. rewrite (Bcompare_correct 53 1024 x y Fx Fy).
  unfold Rle_bool. destruct (Rcompare (B2R x) (B2R y)); reflexivity.
Qed.

Lemma blt_finite (x y : b64) :
  is_finite x = true -> is_finite y = true -> blt x y = Rlt_bool (B2R x) (B2R y).
Proof.
  intros Fx Fy. unfold blt. rewrite (Bcompare_correct 53 1024 x y Fx Fy).
  unfold Rlt_bool. destruct (Rcompare (B2R x) (B2R y)); reflexivity.
Qed.

Lemma ble_finite_true x y :
  is_finite x = true -> is_finite y = true -> ble x y = true -> B2R x <= B2R y.
Proof.
  intros Fx Fy H. rewrite ble_finite in H by assumption.
  revert H. case Rle_bool_spec; [auto|discriminate].
Qed.

Lemma ble_finite_false x y :
  is_finite x = true -> is_finite y = true -> ble x y = false -> B2R y < B2R x.
Proof.
  intros Fx Fy H. rewrite ble_finite in H by assumption.
  revert H. case Rle_bool_spec; [discriminate|auto].
Qed.

(* ---------------------------------------------------------------- np.clip *)

Definition clampX (lo hi : R) (x : b64) : R :=
  match x with
  | B754_infinity false => hi
  | B754_infinity true => lo
  | _ => Rmin (Rmax (B2R x) lo) hi
  end.

Lemma finite_not_nan (x : b64) : is_finite x = true -> bis_nan x = false.
Proof. destruct x; simpl; congruence. Qed.

Lemma bclip_B2R (x lo hi : b64) :
  bis_nan x = false -> is_finite lo = true -> is_finite hi = true -> B2R lo <= B2R hi ->
  is_finite (bclip x lo hi) = true /\ B2R (bclip x lo hi) = clampX (B2R lo) (B2R hi) x.
Proof.
  intros Nx Flo Fhi Hle.
  assert (Nlo := finite_not_nan _ Flo). assert (Nhi := finite_not_nan _ Fhi).
  assert (Hmin : forall v, is_finite v = true ->
            is_finite (bminimum v hi) = true /\ B2R (bminimum v hi) = Rmin (B2R v) (B2R hi)).
  { intros v Fv. unfold bminimum. rewrite (finite_not_nan _ Fv), Nhi.
    destruct (ble v hi) eqn:E.
    - split; [exact Fv|]. apply ble_finite_true in E; auto. rewrite Rmin_left; auto.
    - split; [exact Fhi|]. apply ble_finite_false in E; auto. rewrite Rmin_right; lra. }
  destruct x as [sx|sx| |sx mx ex Hx]; try discriminate.
  - (* zero *)
    set (x := B754_zero sx : b64). assert (Fx : is_finite x = true) by reflexivity.
    unfold bclip. change (clampX (B2R lo) (B2R hi) x) with (Rmin (Rmax (B2R x) (B2R lo)) (B2R hi)).
    assert (Hmax : is_finite (bmaximum x lo) = true /\ B2R (bmaximum x lo) = Rmax (B2R x) (B2R lo)).
    { unfold bmaximum. rewrite Nlo. change (bis_nan x) with false. cbv iota. unfold bge.
      destruct (ble lo x) eqn:E.
      - split; [exact Fx|]. apply ble_finite_true in E; auto. rewrite Rmax_left; auto.
      - split; [exact Flo|]. apply ble_finite_false in E; auto. rewrite Rmax_right; lra. }
    destruct Hmax as [F1 E1]. destruct (Hmin _ F1) as [F2 E2]. split; [exact F2|]. now rewrite E2, E1.
  - (* infinity *)
    unfold bclip, bmaximum. rewrite Nlo. simpl bis_nan. cbv iota.
    destruct sx.
    + (* -inf: maximum = lo *)
      assert (E : bge (B754_infinity true : b64) lo = false).
      { unfold bge, ble. destruct lo; try discriminate; reflexivity. }
      rewrite E. destruct (Hmin _ Flo) as [F2 E2]. split; [exact F2|]. rewrite E2. simpl. now rewrite Rmin_left.
    + (* +inf: maximum = +inf, minimum = hi *)
      assert (E : bge (B754_infinity false : b64) lo = true).
      { unfold bge, ble. destruct lo; try discriminate; reflexivity. }
      rewrite E. unfold bminimum. simpl bis_nan. rewrite Nhi. cbv iota.
      assert (E2 : ble (B754_infinity false : b64) hi = false).
      { unfold ble. destruct hi; try discriminate; reflexivity. }
      rewrite E2. split; [exact Fhi|reflexivity].
  - (* finite *)
    set (x := B754_finite sx mx ex Hx : b64). assert (Fx : is_finite x = true) by reflexivity.
    unfold bclip. change (clampX (B2R lo) (B2R hi) x) with (Rmin (Rmax (B2R x) (B2R lo)) (B2R hi)).
    assert (Hmax : is_finite (bmaximum x lo) = true /\ B2R (bmaximum x lo) = Rmax (B2R x) (B2R lo)).
    { unfold bmaximum. rewrite Nlo. change (bis_nan x) with false. cbv iota. unfold bge.
      destruct (ble lo x) eqn:E.
      - split; [exact Fx|]. apply ble_finite_true in E; auto. rewrite Rmax_left; auto.
      - split; [exact Flo|]. apply ble_finite_false in E; auto. rewrite Rmax_right; lra. }
    destruct Hmax as [F1 E1]. destruct (Hmin _ F1) as [F2 E2]. split; [exact F2|]. now rewrite E2, E1.
Qed.

Lemma clampX_range lo hi x : lo <= hi -> lo <= clampX lo hi x <= hi.
Proof.
  intros H. unfold clampX. destruct x as [s|[|]| |s m e B]; try lra;
  (split; [apply Rmin_glb; [apply Rmax_r|exact H] | apply Rmin_r]).
Qed.

(* the order [ble] on non-NaN doubles is respected by the clamp *)
Lemma clampX_mono lo hi (x y : b64) :
  lo <= hi -> bis_nan x = false -> bis_nan y = false -> ble x y = true ->
  clampX lo hi x <= clampX lo hi y.
Proof.
  intros H Nx Ny Hxy.
  destruct x as [sx|[|]| |sx mx ex Bx]; try discriminate;
  destruct y as [sy|[|]| |sy my ey By]; try discriminate;
  try (apply (clampX_range lo hi _ H)); try (simpl; lra);
  try (apply ble_finite_true in Hxy; [|reflexivity|reflexivity];
       unfold clampX; apply Rle_min_compat_r; apply Rle_max_compat_r; exact Hxy).
  all: try (exfalso; revert Hxy; unfold ble; simpl; try destruct sx; try destruct sy; discriminate).
  all: try (unfold clampX at 1; apply (clampX_range lo hi _ H)).
  all: try (unfold clampX at 2; apply (clampX_range lo hi _ H)).
Qed.

Lemma clampX_low lo hi (x l : b64) :
  lo <= hi -> B2R l = lo -> is_finite l = true -> bis_nan x = false -> ble x l = true ->
  clampX lo hi x = lo.
Proof.
  intros H El Fl Nx Hx.
  destruct x as [sx|[|]| |sx mx ex Bx]; try discriminate; try reflexivity.
  - apply ble_finite_true in Hx; [|reflexivity|assumption]. unfold clampX.
    rewrite Rmax_right by lra. now rewrite Rmin_left.
  - exfalso. revert Hx. unfold ble. destruct l; try discriminate; simpl; discriminate.
  - apply ble_finite_true in Hx; [|reflexivity|assumption]. unfold clampX.
    rewrite Rmax_right by lra. now rewrite Rmin_left.
Qed.

(* ---------------------------------------------------------------- the scale factor and the span *)

From Flocq Require Import Plus_error.
From PyxelV Require Import Proofs.AdcChain.
Open Scope R_scope.

Lemma B2R_bofZ_nonneg (m : Z) : (0 <= m)%Z -> 0 <= B2R (bofZ m).
Proof.
  intros Hm. unfold bofZ, mk.
  generalize (binary_normalize_correct 53 1024 _ _ mode_NE m 0 false).
  cbv zeta. destruct Rlt_bool.
  - intros [H _]. rewrite H. apply rnd_nonneg. apply F2R_ge_0. exact Hm.
  - intros H. set (z := binary_normalize 53 1024 _ _ mode_NE m 0 false) in *.
    destruct z; simpl in *; try lra; discriminate.
Qed.

Lemma bofZ_finite_table :
  forallb (fun b => is_finite (bofZ (2 ^ b - 1))) (zrange 0 65) = true.
Proof. vm_compute. reflexivity. Qed.

Lemma bofZ_scale_finite (bits : Z) : (0 <= bits <= 64)%Z -> is_finite (bofZ (2 ^ bits - 1)) = true.
Proof.
  intros H. generalize bofZ_finite_table. rewrite forallb_forall. intros T.
  apply (T bits). apply in_zrange. lia.
Qed.

(* the span S = fl(vmax - vmin) of a non-degenerate finite range is +inf or a positive number *)
Lemma span_cases (vmin vmax : b64) :
  is_finite vmin = true -> is_finite vmax = true -> B2R vmin < B2R vmax ->
  (is_finite (bsub vmax vmin) = true /\ 0 < B2R (bsub vmax vmin)) \/
  (exists s, bsub vmax vmin = B754_infinity s).
Proof.
  intros Fl Fh Hlt. unfold bsub.
  generalize (Bminus_correct 53 1024 _ _ mode_NE vmax vmin Fh Fl).
  destruct Rlt_bool.
  - intros [E [F _]]. left. split; [exact F|]. rewrite E, rnd_eq.
    assert (0 <= rnd (B2R vmax - B2R vmin)) by (apply rnd_nonneg; lra).
    assert (rnd (B2R vmax - B2R vmin) <> 0).
    { unfold Rminus. apply (round_plus_neq_0 radix2 fexp64 ZnearestE).
      - apply generic_format_B2R.
      - apply generic_format_opp. apply generic_format_B2R.
      - lra. }
    lra.
  - intros [E _]. right. unfold binary_overflow in E. simpl in E.
    destruct (Bminus mode_NE vmax vmin); simpl in E; try discriminate. eexists; reflexivity.
Qed.

(* ---------------------------------------------------------------- truncation *)

Lemma Btrunc_mono (a b : b64) : B2R a <= B2R b -> (Btrunc a <= Btrunc b)%Z.
Proof.
  intros H. apply le_IZR. rewrite !Btrunc_correct by reflexivity.
  apply round_le; auto with typeclass_instances.
Qed.

Lemma Btrunc_zero (a : b64) : B2R a = 0 -> Btrunc a = 0%Z.
Proof.
  intros H. apply eq_IZR. rewrite Btrunc_correct by reflexivity. rewrite H.
  apply round_0. auto with typeclass_instances.
Qed.

(* ---------------------------------------------------------------- the scaled value *)

Section Scaled.
Variables (bits : Z) (vmin vmax : b64).
Hypothesis Hbits : (0 <= bits)%Z.
Hypothesis Fmin : is_finite vmin = true.
Hypothesis Fmax : is_finite vmax = true.
Hypothesis Hrange : B2R vmin < B2R vmax.

Let Mf := bofZ (2 ^ bits - 1).
Let S := bsub vmax vmin.
Let cl := clampX (B2R vmin) (B2R vmax).

Lemma Mf_nonneg : 0 <= B2R Mf.
Proof.
  apply B2R_bofZ_nonneg. assert (0 < 2 ^ bits)%Z by (apply Z.pow_pos_nonneg; lia). lia.
Qed.

(* when the span is finite and the scaled value is finite, it is the thrice-rounded real expression *)
Lemma scaled_value (x : b64) :
  bis_nan x = false -> is_finite S = true -> 0 < B2R S ->
  is_finite (simple_scaled bits vmin vmax x) = true ->
  B2R (simple_scaled bits vmin vmax x) = rnd (rnd (rnd (cl x - B2R vmin) * B2R Mf) / B2R S).
Proof.
  intros Nx FS PS F. unfold simple_scaled in *. fold Mf S in F |- *.
  destruct (bclip_B2R x vmin vmax Nx Fmin Fmax (Rlt_le _ _ Hrange)) as [Fc Ec].
  assert (ZS : B2R S <> 0) by lra.
  destruct (bdiv_finite_inv _ _ ZS F) as [F2 E3].
  destruct (bmul_finite_inv _ _ F2) as [F1 [FM E2]].
  pose proof (bsub_finite_inv _ _ Fc Fmin F1) as E1.
  rewrite E3, E2, E1, Ec. reflexivity.
Qed.

(* with an overflowing span the scaled value is a zero or NaN *)
Lemma scaled_inf_span (x : b64) s :
  S = B754_infinity s ->
  (exists s', simple_scaled bits vmin vmax x = B754_zero s') \/ simple_scaled bits vmin vmax x = B754_nan.
Proof.
  intros ES. unfold simple_scaled. fold Mf S. rewrite ES.
  destruct (bmul (bsub (bclip x vmin vmax) vmin) Mf) as [s1|s1| |s1 m1 e1 B1];
    [left; eexists; reflexivity|right; reflexivity|right; reflexivity|left; eexists; reflexivity].
Qed.

(* every voltage at or below the range minimum gives a scaled value that is a zero, whatever the span *)
Lemma scaled_low (x : b64) :
  (bits <= 64)%Z -> bis_nan x = false -> ble x vmin = true ->
  is_finite (simple_scaled bits vmin vmax x) = true /\ B2R (simple_scaled bits vmin vmax x) = 0.
Proof.
  intros Hb Nx Hx.
  destruct (bclip_B2R x vmin vmax Nx Fmin Fmax (Rlt_le _ _ Hrange)) as [Fc Ec].
  rewrite (clampX_low _ _ x vmin (Rlt_le _ _ Hrange) eq_refl Fmin Nx Hx) in Ec.
  (* r1 = c - vmin = 0 *)
  assert (H1 : is_finite (bsub (bclip x vmin vmax) vmin) = true /\ B2R (bsub (bclip x vmin vmax) vmin) = 0).
  { unfold bsub. generalize (Bminus_correct 53 1024 _ _ mode_NE _ _ Fc Fmin).
    rewrite Ec, Rminus_diag_eq by reflexivity. rewrite rnd_eq, rnd_0, Rabs_R0.
    rewrite Rlt_bool_true by apply bpow_gt_0. intros [E [F _]]. split; assumption. }
  destruct H1 as [F1 E1].
  assert (FM : is_finite Mf = true) by (apply bofZ_scale_finite; lia).
  assert (H2 : is_finite (bmul (bsub (bclip x vmin vmax) vmin) Mf) = true /\
               B2R (bmul (bsub (bclip x vmin vmax) vmin) Mf) = 0).
  { unfold bmul. generalize (Bmult_correct 53 1024 _ _ mode_NE (bsub (bclip x vmin vmax) vmin) Mf).
    rewrite E1, Rmult_0_l. rewrite rnd_eq, rnd_0, Rabs_R0.
    rewrite Rlt_bool_true by apply bpow_gt_0. intros [E [F _]]. rewrite F1, FM in F. split; assumption. }
  destruct H2 as [F2 E2].
  unfold simple_scaled. fold Mf S.
  destruct (span_cases vmin vmax Fmin Fmax Hrange) as [[FS PS]|[s ES]].
  - fold S in FS, PS. unfold bdiv. assert (ZS : B2R S <> 0) by lra.
    generalize (Bdiv_correct 53 1024 _ _ mode_NE (bmul (bsub (bclip x vmin vmax) vmin) Mf) S ZS).
    rewrite E2. unfold Rdiv. rewrite Rmult_0_l. rewrite rnd_eq, rnd_0, Rabs_R0.
    rewrite Rlt_bool_true by apply bpow_gt_0. intros [E [F _]]. rewrite F2 in F. split; assumption.
  - fold S in ES. rewrite ES.
    destruct (bmul (bsub (bclip x vmin vmax) vmin) Mf) as [s1|s1| |s1 m1 e1 B1]; try discriminate;
      split; reflexivity.
Qed.

End Scaled.
